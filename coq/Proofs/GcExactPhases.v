(* C08 exactness proof: the three phases of one collect_cycles iteration, at the set level.
   Part A: mark_roots. *)
From Coq Require Import List Arith Bool Lia.
Import ListNotations.
From Sodium Require Import Gc GcExactBase GcExactWalks GcExactInv.

Definition mr_go :=
  fix go (st : gstate) (new_roots : list nat) (rs : list nat) : res (gstate * list nat) :=
    match rs with
    | [] => Ok (st, new_roots)
    | root :: t =>
      let o := get st root in
      if color_eqb (col o) Purple then
        do st1 <- mark_gray (wfuel st) st root;
        go st1 (new_roots ++ [root]) t
      else
        let st1 := set st root (set_buffered o false) in
        let st2 :=
          if color_eqb (col o) Black && Nat.eqb (rc o) 0 && negb (freed o)
          then with_tbf st1 (to_be_freed st1 ++ [root]) else st1 in
        go st2 new_roots t
    end.

Lemma mark_roots_eq st : mark_roots st =
  let old_roots := roots st in
  let st := with_roots st [] in
  do st <- display_graph (dfuel st (length old_roots)) st (rev old_roots) [];
  do st <- iter (reset1 (wfuel st)) st old_roots;
  do st <- iter (reset2 (wfuel st)) st old_roots;
  do r <- mr_go st [] old_roots;
  Ok (with_roots (fst r) (snd r)).
Proof. reflexivity. Qed.

(* all fields but adj, col, buffered agree *)
Definition scab (o o' : gobj) : Prop :=
  freed o' = freed o /\ rc o' = rc o /\ visited o' = visited o /\
  edges o' = edges o /\ dtor_runs o' = dtor_runs o.
Lemma scab_refl o : scab o o.
Proof. unfold scab. auto. Qed.
Lemma scab_trans a b c : scab a b -> scab b c -> scab a c.
Proof. unfold scab. intuition congruence. Qed.
Lemma sca_scab a b : sca a b -> scab a b.
Proof. unfold sca, scab. intuition. Qed.

Lemma set_adj_0 o : adj o = 0 -> set_adj o 0 = o.
Proof. destruct o; cbn. intros ->. reflexivity. Qed.

Section Mark.
  Variable ex : nat -> nat.
  Variable st0 : gstate.
  Hypothesis G : GI ex st0.
  Let F := gi_fi _ _ G.
  Let n := nobjs st0.
  Let R0 := roots st0.

  Lemma mark_pre :
    exists sa, mark_roots st0 = (do r <- mr_go sa [] R0; Ok (with_roots (fst r) (snd r))) /\
      nobjs sa = n /\ roots sa = [] /\ to_be_freed sa = [] /\ forall v, get sa v = get st0 v.
  Proof.
    rewrite mark_roots_eq. cbv zeta. fold R0.
    remember (with_roots st0 []) as s1 eqn:Hs1.
    destruct (display_graph_spec (dfuel s1 (length R0)) s1 (rev R0) []) as (s2 & E2 & O2 & Rt2 & T2).
    { unfold dpot, dfuel. rewrite rev_length. cbn [existsb]. rewrite sumf_nedges. lia. }
    rewrite E2. cbn [bind].
    assert (G2 : forall v, get s2 v = get st0 v).
    { intros v. unfold get. rewrite O2. subst s1. reflexivity. }
    assert (N2 : nobjs s2 = n). { unfold nobjs. rewrite O2. subst s1. reflexivity. }
    destruct (reset12_spec (wfuel s2) R0 s2) as (s3 & s4 & E3 & E4 & N3 & N4 & Rt4 & T4 & H4).
    { unfold wfuel. lia. }
    { intros u t Hu Hin. rewrite N2 in *. rewrite G2 in Hin. apply (fi_eir _ _ _ F u t Hu Hin). }
    { intros r Hr. rewrite N2. apply (fi_roots _ _ _ F r Hr). }
    { intros v. rewrite G2. apply (fi_adj _ _ _ F). }
    rewrite E3. cbn [bind].
    assert (W : wfuel s3 = wfuel s2) by (unfold wfuel; rewrite N3; reflexivity).
    rewrite W, E4. cbn [bind].
    exists s4. split; [reflexivity|]. split; [congruence|].
    split; [rewrite Rt4, Rt2; subst s1; reflexivity|].
    split; [rewrite T4, T2; subst s1; apply (fi_tbf _ _ _ F)|].
    intros v. destruct (H4 v) as [(X & _)|(X & _)]; rewrite X; [apply G2|].
    rewrite set_adj_0; [apply G2|]. rewrite G2. apply (fi_adj _ _ _ F).
  Qed.

  (* loop invariant of the root loop of mark_roots; sa is the state at loop entry *)
  Variable sa : gstate.
  Hypothesis sa_n : nobjs sa = n.
  Hypothesis sa_get : forall v, get sa v = get st0 v.

  Record LI (done nr : list nat) (st : gstate) : Prop := {
    l_n : nobjs st = n;
    l_tbf : to_be_freed st = [];
    l_obj : forall v, scab (get sa v) (get st v);
    l_col : forall v, col (get st v) = col (get sa v) \/
              (col (get st v) = Gray /\ forall t, In t (edges (get sa v)) -> col (get st t) = Gray);
    l_pot : forall v, pot st v = in_edges sa v;
    l_nr : forall r, In r nr -> In r done /\ col (get st r) = Gray;
    l_done : forall r, In r done -> col (get sa r) = Purple -> col (get st r) = Gray;
    l_sound : forall v, col (get st v) = Gray -> reachs (E sa) nr v;
    l_b1 : forall r, In r done -> ~ In r nr -> buffered (get st r) = false;
    l_b2 : forall v, (~ In v done \/ In v nr) -> buffered (get st v) = buffered (get sa v);
    l_nd : NoDup nr
  }.

  Lemma sa_nogray v : col (get sa v) <> Gray.
  Proof. rewrite sa_get. destruct (fi_col _ _ _ F v) as [-> | ->]; discriminate. Qed.

  Lemma LI_edges done nr st v : LI done nr st -> edges (get st v) = edges (get sa v).
  Proof. intros L. destruct (l_obj _ _ _ L v) as (_ & _ & _ & X & _). auto. Qed.

  Lemma LI_eir done nr st : LI done nr st -> eir st.
  Proof.
    intros L u t Hu Hin. rewrite (l_n _ _ _ L) in *. rewrite (LI_edges _ _ _ _ L), sa_get in Hin.
    apply (fi_eir _ _ _ F u t Hu Hin).
  Qed.

  Lemma LI_step_gray done nr st r :
    LI done nr st -> r < n -> ~ In r done -> col (get st r) = Purple ->
    exists st1, mark_gray (wfuel st) st r = Ok st1 /\ LI (done ++ [r]) (nr ++ [r]) st1.
  Proof.
    intros L Hr Nd Pr.
    destruct (mark_gray_spec (wfuel st) st r) as (st1 & Eq & M & Gr & Pt).
    { pose proof (count_le_nobjs nonGray st). unfold wfuel. lia. }
    { eapply LI_eir; eauto. }
    { rewrite (l_n _ _ _ L). auto. }
    { intros v Hv. rewrite (l_n _ _ _ L) in Hv. rewrite (l_pot _ _ _ L).
      destruct (l_obj _ _ _ L v) as (_ & -> & _). rewrite sa_get.
      rewrite (fi_rc _ _ _ F v Hv). rewrite (in_edges_ext st0 sa v sa_n); [lia|].
      intros u. rewrite sa_get. auto. }
    exists st1. split; auto.
    pose proof M as (N1 & R1 & T1 & H1).
    assert (Sc : forall v, sca (get st v) (get st1 v)) by (intros v; apply H1).
    assert (Bf : forall v, buffered (get st1 v) = buffered (get st v)).
    { intros v. destruct (Sc v) as (_ & _ & _ & X & _). auto. }
    constructor.
    - rewrite N1. apply L.
    - rewrite T1. apply L.
    - intros v. eapply scab_trans; [apply (l_obj _ _ _ L)|apply sca_scab; auto].
    - intros v. destruct (H1 v) as (_ & [C|(_ & C & _ & Cl)]).
      + rewrite C. destruct (l_col _ _ _ L v) as [X|(X & Cl)]; auto.
        right. split; auto. intros t Ht. eapply MR_gray; eauto.
      + right. split; auto. intros t Ht. apply Cl. rewrite (LI_edges _ _ _ _ L). auto.
    - intros v. rewrite Pt. apply L.
    - intros x Hx. apply in_app_or in Hx as [Hx|[<-|[]]].
      + destruct (l_nr _ _ _ L x Hx). split; [apply in_or_app; auto|eapply MR_gray; eauto].
      + split; [apply in_or_app; right; left; auto|auto].
    - intros x Hx Px. apply in_app_or in Hx as [Hx|[<-|[]]]; auto.
      eapply MR_gray; eauto. apply (l_done _ _ _ L); auto.
    - intros v Gv. destruct (H1 v) as (_ & [C|(_ & _ & Sv & _)]).
      + rewrite C in Gv. destruct (l_sound _ _ _ L v Gv) as (x & Hx & Rx).
        exists x. split; [apply in_or_app; auto|auto].
      + exists r. split; [apply in_or_app; right; left; auto|].
        revert Sv. apply reach_mono. intros u t. unfold E. rewrite (LI_edges _ _ _ _ L). auto.
    - intros x Hx Nx. rewrite Bf. apply (l_b1 _ _ _ L).
      + apply in_app_or in Hx as [Hx|[<-|[]]]; auto. exfalso. apply Nx. apply in_or_app; right; left; auto.
      + intros Hn. apply Nx. apply in_or_app; auto.
    - intros v Hv. rewrite Bf. apply (l_b2 _ _ _ L).
      destruct Hv as [Hv|Hv].
      + left. intros Hd. apply Hv. apply in_or_app; auto.
      + apply in_app_or in Hv as [Hv|[<-|[]]]; auto.
    - apply nodup_app; [apply L|constructor; [intros []|constructor]|].
      intros x Hx [<-|[]]. apply Nd. apply (l_nr _ _ _ L r Hx).
  Qed.

  Lemma LI_step_drop done nr st r :
    LI done nr st -> r < n -> ~ In r done -> col (get st r) <> Purple ->
    let o := get st r in
    let st1 := set st r (set_buffered o false) in
    (color_eqb (col o) Black && Nat.eqb (rc o) 0 && negb (freed o) = false) /\
    LI (done ++ [r]) nr st1.
  Proof.
    intros L Hr Nd Pr o st1.
    assert (Hr' : r < nobjs st) by (rewrite (l_n _ _ _ L); auto).
    assert (G1r : get st1 r = set_buffered o false) by (subst st1; apply get_set_same; auto).
    assert (G1o : forall v, v <> r -> get st1 v = get st v) by (intros; subst st1; apply get_set_other; auto).
    assert (Cs : forall v, col (get st1 v) = col (get st v) /\ edges (get st1 v) = edges (get st v) /\
                           adj (get st1 v) = adj (get st v)).
    { intros v. destruct (Nat.eq_dec v r) as [->|Ne]; [rewrite G1r; subst o; auto|rewrite G1o; auto]. }
    split.
    - destruct (color_eqb (col o) Black) eqn:B; [|reflexivity].
      destruct (Nat.eqb (rc o) 0) eqn:Z; [|reflexivity].
      destruct (freed o) eqn:Fo; [reflexivity|]. exfalso.
      apply color_eqb_eq in B. apply Nat.eqb_eq in Z. subst o.
      destruct (l_obj _ _ _ L r) as (Fr & Rc & _). rewrite sa_get in Fr, Rc.
      assert (P0 : col (get st0 r) = Purple).
      { apply (gi_zero _ _ G r Hr); congruence. }
      destruct (l_col _ _ _ L r) as [X|(X & _)]; [rewrite sa_get in X|]; congruence.
    - constructor.
      + subst st1. rewrite nobjs_set. apply L.
      + subst st1. apply L.
      + intros v. eapply scab_trans; [apply (l_obj _ _ _ L)|].
        destruct (Nat.eq_dec v r) as [->|Ne]; [rewrite G1r; subst o; unfold scab; cbn; auto|rewrite G1o; auto; apply scab_refl].
      + intros v. destruct (Cs v) as (-> & _). destruct (l_col _ _ _ L v) as [X|(X & Cl)]; auto.
        right. split; auto. intros t Ht. destruct (Cs t) as (-> & _). auto.
      + intros v. rewrite <- (l_pot _ _ _ L v). apply pot_eq.
        * subst st1. apply nobjs_set.
        * intros u. destruct (Cs u) as (A & B & _). auto.
        * apply Cs.
      + intros x Hx. destruct (l_nr _ _ _ L x Hx). destruct (Cs x) as (-> & _). split; auto. apply in_or_app; auto.
      + intros x Hx Px. destruct (Cs x) as (-> & _). apply in_app_or in Hx as [Hx|[<-|[]]].
        * apply (l_done _ _ _ L); auto.
        * destruct (l_col _ _ _ L r) as [X|(X & _)]; auto. congruence.
      + intros v Gv. destruct (Cs v) as (C & _). rewrite C in Gv. apply (l_sound _ _ _ L v Gv).
      + intros x Hx Nx. destruct (Nat.eq_dec x r) as [->|Ne]; [rewrite G1r; reflexivity|].
        rewrite G1o by auto. apply (l_b1 _ _ _ L); auto.
        apply in_app_or in Hx as [Hx|[<-|[]]]; auto. congruence.
      + intros v Hv. assert (Ne : v <> r).
        { intros ->. destruct Hv as [Hv|Hv]; [apply Hv; apply in_or_app; right; left; auto|].
          apply Nd. apply (l_nr _ _ _ L r Hv). }
        rewrite G1o by auto. apply (l_b2 _ _ _ L). destruct Hv as [Hv|Hv]; auto.
        left. intros Hd. apply Hv. apply in_or_app; auto.
      + apply L.
  Qed.

  Lemma mr_go_spec : forall rest done nr st,
    LI done nr st -> NoDup (done ++ rest) -> (forall r, In r rest -> r < n) ->
    exists st' nr', mr_go st nr rest = Ok (st', nr') /\ LI (done ++ rest) nr' st'.
  Proof.
    induction rest as [|r rest IH]; intros done nr st L Nd Hr.
    - exists st, nr. rewrite app_nil_r. split; auto.
    - assert (Ndr : ~ In r done).
      { intros Hin. apply NoDup_remove_2 in Nd. apply Nd. apply in_or_app; auto. }
      assert (Nd' : NoDup ((done ++ [r]) ++ rest)) by (rewrite <- app_assoc; exact Nd).
      assert (Hr' : forall x, In x rest -> x < n) by (intros; apply Hr; right; auto).
      assert (Hrn : r < n) by (apply Hr; left; auto).
      cbn [mr_go]. fold mr_go.
      destruct (color_eqb (col (get st r)) Purple) eqn:P.
      + apply color_eqb_eq in P. destruct (LI_step_gray done nr st r L Hrn Ndr P) as (st1 & Eq & L1).
        rewrite Eq. cbn [bind].
        destruct (IH (done ++ [r]) (nr ++ [r]) st1 L1 Nd' Hr') as (st' & nr' & Eq' & L').
        exists st', nr'. rewrite <- app_assoc in L'. auto.
      + apply color_eqb_neq in P. destruct (LI_step_drop done nr st r L Hrn Ndr P) as (Cn & L1).
        cbv zeta in Cn, L1. rewrite Cn.
        destruct (IH (done ++ [r]) nr _ L1 Nd' Hr') as (st' & nr' & Eq' & L').
        exists st', nr'. rewrite <- app_assoc in L'. auto.
  Qed.
End Mark.

(* the state after mark_roots, relative to the state before *)
Record PM (st0 stm : gstate) : Prop := {
  pm_n : nobjs stm = nobjs st0;
  pm_tbf : to_be_freed stm = [];
  pm_obj : forall v, scab (get st0 v) (get stm v);
  pm_col : forall v, col (get stm v) = Gray \/ col (get stm v) = col (get st0 v);
  pm_closed : forall v t, col (get stm v) = Gray -> In t (edges (get st0 v)) -> col (get stm t) = Gray;
  pm_purple : forall r, In r (roots st0) -> col (get st0 r) = Purple -> col (get stm r) = Gray;
  pm_sound : forall v, col (get stm v) = Gray -> reachs (E st0) (roots stm) v;
  pm_roots : forall r, In r (roots stm) -> In r (roots st0) /\ col (get stm r) = Gray;
  pm_adj : forall v, adj (get stm v) = cnt_in isGray stm v;
  pm_nodup : NoDup (roots stm);
  pm_b1 : forall r, In r (roots st0) -> ~ In r (roots stm) -> buffered (get stm r) = false;
  pm_b2 : forall v, (~ In v (roots st0) \/ In v (roots stm)) -> buffered (get stm v) = buffered (get st0 v)
}.

Theorem mark_roots_spec ex st0 : GI ex st0 -> exists stm, mark_roots st0 = Ok stm /\ PM st0 stm.
Proof.
  intros G. pose proof (gi_fi _ _ G) as F.
  destruct (mark_pre ex st0 G) as (sa & Eq & Na & Ra & Ta & Ga).
  assert (IEa : forall v, in_edges sa v = in_edges st0 v).
  { intros v. apply in_edges_ext; auto. intros u. rewrite Ga. auto. }
  assert (L0 : LI st0 sa [] [] sa).
  { constructor; auto.
    - intros v. apply scab_refl.
    - intros v. unfold pot. rewrite Ga. destruct (fi_adj _ _ _ F v) as (-> & _). cbn [plus].
      unfold in_edges. apply cnt_in_ext; auto. intros u _. split; auto. unfold nonGray.
      rewrite Ga. destruct (fi_col _ _ _ F u) as [-> | ->]; reflexivity.
    - intros r [].
    - intros r [].
    - intros v Gv. rewrite Ga in Gv. destruct (fi_col _ _ _ F v) as [X|X]; congruence.
    - intros r [].
    - constructor. }
  destruct (mr_go_spec ex st0 G sa Na Ga (roots st0) [] [] sa L0) as (st' & nr & Eq' & L).
  { apply (fi_nodup _ _ _ F). }
  { intros r Hr. apply (fi_roots _ _ _ F r Hr). }
  cbn [app] in L.
  rewrite Eq, Eq'. cbn [bind fst snd]. eexists. split; [reflexivity|].
  assert (Ed : forall v, edges (get st' v) = edges (get st0 v)).
  { intros v. destruct (l_obj _ _ _ _ _ L v) as (_ & _ & _ & X & _). rewrite X, Ga. auto. }
  constructor; cbn [roots with_roots]; try (change (get (with_roots st' nr)) with (get st')).
  - apply L.
  - apply L.
  - intros v. rewrite <- Ga. apply L.
  - intros v. destruct (l_col _ _ _ _ _ L v) as [X|(X & _)]; [right; rewrite X, Ga|left]; auto.
  - intros v t Gv Hin. destruct (l_col _ _ _ _ _ L v) as [X|(_ & Cl)].
    + rewrite X, Ga in Gv. destruct (fi_col _ _ _ F v) as [Y|Y]; congruence.
    + apply Cl. rewrite Ga. auto.
  - intros r Hr Pr. apply (l_done _ _ _ _ _ L r Hr). rewrite Ga. auto.
  - intros v Gv. destruct (l_sound _ _ _ _ _ L v Gv) as (r & Hr & Rr). exists r. split; auto.
    revert Rr. apply reach_mono. intros u t. unfold E. rewrite Ga. auto.
  - intros r Hr. apply (l_nr _ _ _ _ _ L r Hr).
  - intros v. pose proof (l_pot _ _ _ _ _ L v) as X. unfold pot in X.
    rewrite IEa in X. rewrite <- (in_edges_ext st0 st' v) in X; [|apply L|auto].
    rewrite (cnt_in_split isGray st' v) in X.
    change (cnt_in isGray (with_roots st' nr) v) with (cnt_in isGray st' v).
    change (fun o => negb (isGray o)) with nonGray in X. lia.
  - apply L.
  - intros r Hr Nr. apply (l_b1 _ _ _ _ _ L r Hr Nr).
  - intros v Hv. rewrite (l_b2 _ _ _ _ _ L v Hv). rewrite Ga. auto.
Qed.

(* ---- Part B: scan_roots ---- *)
Record PS (stm st2 : gstate) : Prop := {
  ps_n : nobjs st2 = nobjs stm;
  ps_tbf : to_be_freed st2 = to_be_freed stm;
  ps_rts : roots st2 = roots stm;
  ps_obj : forall v, scab (get stm v) (get st2 v) /\ buffered (get st2 v) = buffered (get stm v) /\
                     adj (get st2 v) = 0;
  ps_out : forall v, col (get stm v) <> Gray -> col (get st2 v) = col (get stm v);
  ps_in : forall v, col (get stm v) = Gray -> col (get st2 v) = White \/ col (get st2 v) = Black;
  ps_white : forall v, col (get st2 v) = White -> col (get stm v) = Gray /\ adj (get stm v) = rc (get stm v);
  ps_bclosed : forall v t, col (get stm v) = Gray -> col (get st2 v) = Black ->
                           In t (edges (get stm v)) -> col (get st2 t) = Black;
  ps_bsrc : forall v, col (get stm v) = Gray -> col (get st2 v) = Black -> SX stm v
}.

Section Scan.
  Variable ex : nat -> nat.
  Variables st0 stm : gstate.
  Hypothesis G : GI ex st0.
  Hypothesis P : PM st0 stm.
  Let F := gi_fi _ _ G.

  Lemma pm_edges v : edges (get stm v) = edges (get st0 v).
  Proof. destruct (pm_obj _ _ P v) as (_ & _ & _ & X & _). auto. Qed.

  Lemma pm_eir : eir stm.
  Proof.
    intros u t Hu Hin. rewrite (pm_n _ _ P) in *. rewrite pm_edges in Hin. apply (fi_eir _ _ _ F u t Hu Hin).
  Qed.

  Lemma pm_gray_reach a b : reach (E stm) a b -> col (get stm a) = Gray -> col (get stm b) = Gray.
  Proof.
    intros R. apply (reach_closed (E stm) (fun x => col (get stm x) = Gray) a b); auto.
    intros u t Gu Hin. unfold E in Hin. rewrite pm_edges in Hin. eapply (pm_closed _ _ P); eauto.
  Qed.

  Lemma pm_colors v : col (get stm v) = Gray \/ col (get stm v) = Black \/ col (get stm v) = Purple.
  Proof. destruct (pm_col _ _ P v) as [X|X]; auto. rewrite X. destruct (fi_col _ _ _ F v); auto. Qed.

  Theorem scan_roots_spec : exists st2, scan_roots stm = Ok st2 /\ PS stm st2.
  Proof.
    unfold scan_roots. cbv zeta.
    remember (with_roots stm []) as s eqn:Hs.
    assert (Gs : forall v, get s v = get stm v) by (intros; subst s; reflexivity).
    assert (Ns : nobjs s = nobjs stm) by (subst s; reflexivity).
    assert (SXs : forall v, SX s v -> SX stm v).
    { intros v (x & (A & B) & R). exists x. rewrite Gs in *. split; [split; auto|].
      revert R. apply reach_mono. intros u t. unfold E. rewrite Gs. auto. }
    set (rs := roots stm).
    set (Inv := fun (rest : list nat) (st : gstate) => (forall t, In t rest -> In t rs) /\ SR (SX s) s st).
    set (Q := fun (st : gstate) (t : nat) => col (get st t) <> Gray).
    assert (Qm : forall a b t, SR (SX s) a b -> Q a t -> Q b t).
    { intros a b t Hab Hq. eapply SR_nongray; eauto. }
    assert (Eis : eir s).
    { intros u t Hu Hin. rewrite Ns in *. rewrite Gs in Hin. eapply pm_eir; eauto. }
    assert (Step : forall st t rest, Inv (t :: rest) st ->
              exists st3, scan (wfuel s) st t = Ok st3 /\ Inv rest st3 /\ SR (SX s) st st3 /\ Q st3 t).
    { intros st t rest (Hr & S1). pose proof S1 as (N1 & _).
      destruct (scan_spec (wfuel s) st t) as (st3 & Eq3 & S3 & Q3).
      { pose proof (count_le_nobjs isGray st). pose proof (count_le_nobjs nonBlack st).
        unfold wfuel. rewrite N1 in *. lia. }
      { eapply SR_eir; eauto. }
      { rewrite N1, Ns, (pm_n _ _ P). destruct (pm_roots _ _ P t (Hr t ltac:(left; auto))) as (X & _).
        apply (fi_roots _ _ _ F t X). }
      assert (S3' : SR (SX s) st st3).
      { eapply SR_weaken; [|exact S3]. intros v Hv. eapply SX_back; eauto. }
      exists st3. split; auto. split; [split; [intros x Hx; apply Hr; right; auto|eapply SR_trans; eauto]|].
      split; auto. }
    destruct (iter_spec (scan (wfuel s)) Inv (SR (SX s)) Q (SR_refl _) (SR_trans _) Qm Step rs s)
      as (sS & EqS & (_ & SRs) & _ & Qs).
    { split; [auto|apply SR_refl]. }
    rewrite EqS. cbn [bind].
    pose proof SRs as (NS & RtS & TS & HS).
    assert (EdS : forall v, edges (get sS v) = edges (get stm v)).
    { intros v. rewrite (SR_edges _ _ _ v SRs). rewrite Gs. auto. }
    (* no gray object is left *)
    assert (NG : forall v, col (get stm v) = Gray -> col (get sS v) <> Gray).
    { intros v Gv. destruct (pm_sound _ _ P v Gv) as (r & Hr & Rr).
      assert (X : col (get stm v) = Gray /\ col (get sS v) <> Gray); [|apply X].
      apply (reach_closed (E st0) (fun x => col (get stm x) = Gray /\ col (get sS x) <> Gray) r v); auto.
      - intros u t (Gu & NGu) Hin. unfold E in Hin. split; [eapply (pm_closed _ _ P); eauto|].
        destruct (HS u) as (_ & [C|[(_ & _ & _ & Cl)|(_ & _ & _ & Cl)]]).
        + rewrite Gs in C. congruence.
        + apply Cl. rewrite Gs, pm_edges. auto.
        + rewrite (Cl t); [discriminate|]. rewrite Gs, pm_edges. auto.
      - split; [apply (pm_roots _ _ P r Hr)|apply Qs; auto]. }
    assert (VisS : forall v, visited (get sS v) = false).
    { intros v. destruct (SR_sco _ _ _ v SRs) as ((_ & _ & X & _) & _). rewrite X, Gs.
      destruct (pm_obj _ _ P v) as (_ & _ & Y & _). rewrite Y. apply (fi_adj _ _ _ F). }
    assert (EiS : eir sS) by (eapply SR_eir; eauto).
    destruct (reset12_spec (wfuel sS) rs sS) as (s3 & s4 & E3 & E4 & N3 & N4 & Rt4 & T4 & H4); auto.
    { unfold wfuel. lia. }
    { intros r Hr. rewrite NS, Ns, (pm_n _ _ P). destruct (pm_roots _ _ P r Hr) as (X & _).
      apply (fi_roots _ _ _ F r X). }
    rewrite E3. cbn [bind].
    assert (W : wfuel s3 = wfuel sS) by (unfold wfuel; rewrite N3; reflexivity).
    rewrite W, E4. cbn [bind]. eexists. split; [reflexivity|].
    assert (AdjS : forall v, adj (get sS v) = cnt_in isGray stm v).
    { intros v. rewrite (SR_adj _ _ _ v SRs), Gs. apply (pm_adj _ _ P). }
    assert (G4 : forall v, get s4 v = set_adj (get sS v) 0).
    { intros v. destruct (H4 v) as [(X & Y)|(X & _)]; auto. rewrite X. symmetry. apply set_adj_0.
      destruct (color_eqb (col (get stm v)) Gray) eqn:C.
      - apply color_eqb_eq in C. apply Y. destruct (pm_sound _ _ P v C) as (r & Hr & Rr).
        exists r. split; auto. revert Rr. apply reach_mono. intros u t. unfold E. rewrite EdS, pm_edges. auto.
      - apply color_eqb_neq in C. rewrite AdjS. destruct (cnt_in isGray stm v) eqn:Z; auto. exfalso.
        destruct (cnt_in_pos isGray stm v) as (u & Hu & Gu & Hin); [lia|].
        apply C. apply color_eqb_eq in Gu. rewrite pm_edges in Hin. eapply (pm_closed _ _ P); eauto. }
    assert (ColS : forall v, col (get (with_roots s4 rs) v) = col (get sS v)).
    { intros v. change (get (with_roots s4 rs) v) with (get s4 v). rewrite G4. reflexivity. }
    constructor; try (change (get (with_roots s4 rs)) with (get s4)).
    - change (nobjs (with_roots s4 rs)) with (nobjs s4). congruence.
    - change (to_be_freed (with_roots s4 rs)) with (to_be_freed s4). rewrite T4, TS. subst s. reflexivity.
    - reflexivity.
    - intros v. rewrite G4. destruct (SR_sco _ _ _ v SRs) as ((A1 & A2 & A3 & A4 & A5 & A6) & A7).
      rewrite Gs in *. unfold scab. cbn. auto 10.
    - intros v NGv. rewrite G4. cbn [col set_adj].
      destruct (HS v) as (_ & [C|[(C & _)|(_ & _ & Sv & _)]]); rewrite ?Gs in *; auto; [congruence|].
      exfalso. apply NGv. destruct (SXs v Sv) as (x & (Gx & _) & Rx). eapply pm_gray_reach; eauto.
    - intros v Gv. rewrite G4. cbn [col set_adj]. pose proof (NG v Gv) as X.
      destruct (HS v) as (_ & [C|[(_ & C & _)|(_ & C & _)]]); auto. rewrite Gs in C. congruence.
    - intros v Wv. rewrite G4 in Wv. cbn [col set_adj] in Wv.
      destruct (HS v) as (_ & [C|[(C & _ & A & _)|(_ & C & _)]]); rewrite ?Gs in *.
      + rewrite Wv in C. destruct (pm_colors v) as [X|[X|X]]; congruence.
      + auto.
      + congruence.
    - intros v t Gv Bv Hin. rewrite G4 in *. cbn [col set_adj] in *.
      destruct (HS v) as (_ & [C|[(_ & C & _)|(_ & _ & _ & Cl)]]); rewrite ?Gs in *; try congruence.
      apply Cl. auto.
    - intros v Gv Bv. rewrite G4 in *. cbn [col set_adj] in *.
      destruct (HS v) as (_ & [C|[(_ & C & _)|(_ & _ & Sv & _)]]); rewrite ?Gs in *; try congruence.
      auto.
  Qed.
End Scan.
