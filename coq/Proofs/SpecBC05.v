(* Property C05 (switch_s / switch_c) of the denotational specification Spec/Sodium.v.

   switch_s ([DSwitchS c]) emits, in each transaction, the occurrence of the stream referenced by the
   value the outer cell [c] had at the START of the transaction ([cur], which does not look at the
   injected events): a switch becomes effective from the next transaction on.

   switch_c ([DSwitchC c]): its update in the transaction of a switch is the new inner cell's update
   in that same transaction, else the new inner cell's current value; without a switch it is the
   update of the inner cell currently held. Invariant [SwitchInv]: the resolved value of a switch_c
   always equals the resolved value of the cell currently held by the outer cell. *)
From Coq Require Import List ZArith Bool Arith Lia.
Import ListNotations.
From Sodium Require Import Sodium SpecBBase SpecBMono SpecBLegal SpecBClose SpecBStep SpecBLegalB.
Local Open Scope nat_scope.

(* ------------------------------------------------------------------ fuel bookkeeping *)

Lemma F_pred_le : forall st, S (length (defs st)) <= F st.
Proof. intros st. rewrite F_eq. apply Nat.le_succ_diag_r. Qed.

Lemma occ_F_S : forall st inj h, occ st inj (F st) h = occ st inj (S (S (length (defs st)))) h.
Proof. reflexivity. Qed.

Lemma upd_F_S : forall st inj h, upd st inj (F st) h = upd st inj (S (S (length (defs st)))) h.
Proof. reflexivity. Qed.

Lemma cur_F_S : forall st h, cur st (F st) h = cur st (S (S (length (defs st)))) h.
Proof. reflexivity. Qed.

(* ================================================================== 1. switch_s *)

(* one step, every fuel: the stream followed in this transaction is the one referenced by the
   value of the outer cell at the start of the transaction; [cur] takes no [inj], hence an update of
   [c] in this very transaction has no influence on which stream is followed *)
Lemma switch_s_step : forall st inj k h c n,
    alookup (defs st) h = Some (DSwitchS c) -> cur st (F st) c = EV (VRef n) ->
    occ st inj (S k) h = occ st inj k n.
Proof.
  intros st inj k h c n Hd Hc. rewrite occ_S, (def_of_Some _ _ _ Hd). cbn [ebind].
  rewrite Hc. reflexivity.
Qed.

Lemma switch_s_step_err : forall st inj k h c e,
    alookup (defs st) h = Some (DSwitchS c) -> cur st (F st) c = EErr e ->
    occ st inj (S k) h = EErr e.
Proof.
  intros st inj k h c e Hd Hc. rewrite occ_S, (def_of_Some _ _ _ Hd). cbn [ebind].
  rewrite Hc. reflexivity.
Qed.

Lemma switch_s_step_nonref : forall st inj k h c v,
    alookup (defs st) h = Some (DSwitchS c) -> cur st (F st) c = EV v -> (forall n, v <> VRef n) ->
    occ st inj (S k) h = EErr Illegal.
Proof.
  intros st inj k h c v Hd Hc Hn. rewrite occ_S, (def_of_Some _ _ _ Hd). cbn [ebind].
  rewrite Hc. cbn [ebind]. destruct v; try reflexivity. exfalso. exact (Hn h0 eq_refl).
Qed.

(* the same transaction, whatever the outer cell does in it: the followed stream does not depend on
   the update of the outer cell (stated for two arbitrary injection lists that give the followed
   stream the same occurrence) *)
Lemma switch_s_ignores_outer_update : forall st inj inj' k h c n,
    alookup (defs st) h = Some (DSwitchS c) -> cur st (F st) c = EV (VRef n) ->
    occ st inj k n = occ st inj' k n ->
    occ st inj (S k) h = occ st inj' (S k) h.
Proof.
  intros st inj inj' k h c n Hd Hc He.
  rewrite (switch_s_step st inj k h c n Hd Hc), (switch_s_step st inj' k h c n Hd Hc). exact He.
Qed.

(* a value (at any fuel) is never produced unless the outer cell holds a stream reference *)
Lemma switch_s_EV_inv : forall st inj k h c r,
    alookup (defs st) h = Some (DSwitchS c) -> occ st inj k h = EV r ->
    exists n k', k = S k' /\ cur st (F st) c = EV (VRef n) /\ occ st inj k' n = EV r.
Proof.
  intros st inj k h c r Hd H. destruct k as [|k]; [rewrite occ_0 in H; discriminate H|].
  rewrite occ_S, (def_of_Some _ _ _ Hd) in H. cbn [ebind] in H.
  apply ebind_EV in H. destruct H as [v [Hc H]].
  destruct v; try discriminate H. exists h0, k. split; [reflexivity | split; [exact Hc | exact H]].
Qed.

(* top-level fuel, EV form *)
Lemma switch_s_F_EV : forall st inj h c r,
    alookup (defs st) h = Some (DSwitchS c) -> occ st inj (F st) h = EV r ->
    exists n, cur st (F st) c = EV (VRef n) /\ occ st inj (F st) n = EV r.
Proof.
  intros st inj h c r Hd H. destruct (switch_s_EV_inv _ _ _ _ _ _ Hd H) as [n [k' [Hk [Hc Ho]]]].
  exists n. split; [exact Hc|]. apply occ_F_of with (1 := Ho). rewrite Hk. apply Nat.le_succ_diag_r.
Qed.

(* top-level fuel, converse: a value of the followed stream is a value of the switch *)
Lemma switch_s_F_EV_conv : forall st inj h c n r,
    alookup (defs st) h = Some (DSwitchS c) -> cur st (F st) c = EV (VRef n) ->
    occ st inj (S (length (defs st))) n = EV r -> occ st inj (F st) h = EV r.
Proof.
  intros st inj h c n r Hd Hc Ho. rewrite occ_F_S, (switch_s_step _ _ _ _ _ _ Hd Hc). exact Ho.
Qed.

(* top-level fuel, legal states: the equation, errors included *)
Lemma switch_s_F_legal : forall st inj h c n,
    Legal st inj -> alookup (defs st) h = Some (DSwitchS c) -> cur st (F st) c = EV (VRef n) ->
    occ st inj (F st) h = occ st inj (F st) n.
Proof.
  intros st inj h c n [rc [ro [Hb1 [Hb2 [Hcok Hook]]]]] Hd Hc.
  rewrite (occ_F_S st inj h), (switch_s_step _ _ _ _ _ _ Hd Hc).
  apply (occ_sub_F st inj ro Hb2 Hook h (DSwitchS c) n Hd).
  pose proof (Hook h) as Hh. unfold occ_ok in Hh. rewrite Hd in Hh. exact (Hh n Hc).
Qed.

Lemma switch_s_F_legal_err : forall st inj h c,
    alookup (defs st) h = Some (DSwitchS c) -> (forall n, cur st (F st) c <> EV (VRef n)) ->
    exists e, occ st inj (F st) h = EErr e.
Proof.
  intros st inj h c Hd Hn. rewrite occ_F_S.
  destruct (cur st (F st) c) as [v|e] eqn:Hc.
  - exists Illegal. apply (switch_s_step_nonref _ _ _ _ _ _ Hd Hc).
    intros n Hv. subst v. exact (Hn n eq_refl).
  - exists e. exact (switch_s_step_err _ _ _ _ _ _ Hd Hc).
Qed.

(* the effect of a switch on the NEXT transaction *)
Lemma outer_next_Some : forall st inj p r c v,
    close_txn st inj p = EV r -> upd st inj (F st) c = EV (Some v) ->
    alookup (cvals (r_state r)) c = Some v /\ cur (r_state r) (F (r_state r)) c = EV v.
Proof.
  intros st inj p r c v H Hu.
  assert (Hl : alookup (cvals (r_state r)) c = Some v).
  { rewrite (close_cvals_upd _ _ _ _ _ _ _ H Hu). exact (commit_upd_Some _ _ _ _ Hu). }
  split; [exact Hl | exact (cur_resolved_F _ _ _ Hl)].
Qed.

Lemma outer_next_None : forall st inj p r c v,
    close_txn st inj p = EV r -> upd st inj (F st) c = EV None -> cur st (F st) c = EV v ->
    alookup (cvals (r_state r)) c = Some v /\ cur (r_state r) (F (r_state r)) c = EV v.
Proof.
  intros st inj p r c v H Hu Hc.
  assert (Hl : alookup (cvals (r_state r)) c = Some v).
  { rewrite (close_cvals_upd _ _ _ _ _ _ _ H Hu). exact (commit_upd_None _ _ _ _ Hu Hc). }
  split; [exact Hl | exact (cur_resolved_F _ _ _ Hl)].
Qed.

Lemma switch_s_next_cur : forall st inj p r c m,
    close_txn st inj p = EV r -> upd st inj (F st) c = EV (Some (VRef m)) ->
    cur (r_state r) (F (r_state r)) c = EV (VRef m).
Proof. intros st inj p r c m H Hu. exact (proj2 (outer_next_Some _ _ _ _ _ _ H Hu)). Qed.

(* after a transaction in which the outer cell updates to stream m, the switch follows m *)
Lemma switch_s_next : forall st inj p r h c m,
    alookup (defs st) h = Some (DSwitchS c) ->
    close_txn st inj p = EV r -> upd st inj (F st) c = EV (Some (VRef m)) ->
    forall inj' k, occ (r_state r) inj' (S k) h = occ (r_state r) inj' k m.
Proof.
  intros st inj p r h c m Hd H Hu inj' k. apply switch_s_step with (c := c).
  - rewrite (close_defs _ _ _ _ H). exact Hd.
  - exact (switch_s_next_cur _ _ _ _ _ _ H Hu).
Qed.

(* ... while in the transaction of the switch itself it still follows the old stream n *)
Lemma switch_s_this_and_next : forall st inj p r h c n m,
    alookup (defs st) h = Some (DSwitchS c) -> cur st (F st) c = EV (VRef n) ->
    close_txn st inj p = EV r -> upd st inj (F st) c = EV (Some (VRef m)) ->
    (forall k, occ st inj (S k) h = occ st inj k n) /\
    (forall inj' k, occ (r_state r) inj' (S k) h = occ (r_state r) inj' k m).
Proof.
  intros st inj p r h c n m Hd Hc H Hu. split.
  - intros k. exact (switch_s_step _ _ _ _ _ _ Hd Hc).
  - exact (switch_s_next _ _ _ _ _ _ _ Hd H Hu).
Qed.

(* without an update of the outer cell the followed stream stays the same *)
Lemma switch_s_next_same : forall st inj p r h c n,
    alookup (defs st) h = Some (DSwitchS c) -> cur st (F st) c = EV (VRef n) ->
    close_txn st inj p = EV r -> upd st inj (F st) c = EV None ->
    cur (r_state r) (F (r_state r)) c = EV (VRef n) /\
    forall inj' k, occ (r_state r) inj' (S k) h = occ (r_state r) inj' k n.
Proof.
  intros st inj p r h c n Hd Hc H Hu.
  pose proof (proj2 (outer_next_None _ _ _ _ _ _ H Hu Hc)) as Hc'.
  split; [exact Hc'|]. intros inj' k. apply switch_s_step with (c := c); [|exact Hc'].
  rewrite (close_defs _ _ _ _ H). exact Hd.
Qed.

(* what a listener of the switch sees: exactly the occurrences of the stream held at the start of
   the transaction, none lost, none added (no legality assumption: the close succeeded) *)
Theorem switch_s_listener : forall st inj p r h c n l,
    close_txn st inj p = EV r -> alookup (defs st) h = Some (DSwitchS c) ->
    cur st (F st) c = EV (VRef n) ->
    In (l, h) (listeners st) -> (forall s, In (l, s) (listeners st) -> s = h) ->
    forall v, In (BCall l v) (r_obs r) <-> occ st inj (F st) n = EV (Some v).
Proof.
  intros st inj p r h c n l H Hd Hc Hin Huniq v.
  rewrite (close_calls _ _ _ _ l v H). split.
  - intros [s [Hs Ho]]. rewrite (Huniq s Hs) in Ho.
    destruct (switch_s_F_EV _ _ _ _ _ Hd Ho) as [n' [Hc' Ho']].
    rewrite Hc in Hc'. injection Hc' as <-. exact Ho'.
  - intros Hn. exists h. split; [exact Hin|].
    pose proof H as H'. apply close_txn_inv in H'.
    destruct H' as (calls & nv & lzs & on & df & Hcalls & _).
    destruct (emap_In _ _ _ (l, h) Hcalls (proj1 (in_rev _ _) Hin)) as [y [Hy _]].
    unfold call_of in Hy. cbn [snd fst] in Hy. apply ebind_EV in Hy. destruct Hy as [o [Ho _]].
    destruct (switch_s_F_EV _ _ _ _ _ Hd Ho) as [n' [Hc' Ho']].
    rewrite Hc in Hc'. injection Hc' as <-. rewrite Hn in Ho'. injection Ho' as <-. exact Ho.
Qed.

(* ================================================================== 2. switch_c: the update *)

(* transaction of a switch: the new inner cell's update in the same transaction, else its current
   value. The update always fires, also when the "new" cell is the one already held. *)
Lemma switch_c_upd_switch : forall st inj k h c n,
    alookup (defs st) h = Some (DSwitchC c) -> upd st inj k c = EV (Some (VRef n)) ->
    upd st inj (S k) h =
    elet u <- upd st inj k n;
    match u with Some v => EV (Some v) | None => elet v <- cur st (F st) n; EV (Some v) end.
Proof.
  intros st inj k h c n Hd Hu. rewrite upd_S, (def_of_Some _ _ _ Hd). cbn [ebind].
  rewrite Hu. reflexivity.
Qed.

(* no switch: the update of the inner cell held at the start of the transaction *)
Lemma switch_c_upd_noswitch : forall st inj k h c i,
    alookup (defs st) h = Some (DSwitchC c) -> upd st inj k c = EV None ->
    cur st (F st) c = EV (VRef i) ->
    upd st inj (S k) h = upd st inj k i.
Proof.
  intros st inj k h c i Hd Hu Hc. rewrite upd_S, (def_of_Some _ _ _ Hd). cbn [ebind].
  rewrite Hu. cbn [ebind]. rewrite Hc. reflexivity.
Qed.

Lemma switch_c_upd_err : forall st inj k h c e,
    alookup (defs st) h = Some (DSwitchC c) -> upd st inj k c = EErr e ->
    upd st inj (S k) h = EErr e.
Proof.
  intros st inj k h c e Hd Hu. rewrite upd_S, (def_of_Some _ _ _ Hd). cbn [ebind].
  rewrite Hu. reflexivity.
Qed.

Lemma switch_c_upd_nonref : forall st inj k h c v,
    alookup (defs st) h = Some (DSwitchC c) -> upd st inj k c = EV (Some v) -> (forall n, v <> VRef n) ->
    upd st inj (S k) h = EErr Illegal.
Proof.
  intros st inj k h c v Hd Hu Hn. rewrite upd_S, (def_of_Some _ _ _ Hd). cbn [ebind].
  rewrite Hu. cbn [ebind]. destruct v; try reflexivity. exfalso. exact (Hn h0 eq_refl).
Qed.

Lemma switch_c_upd_noswitch_err : forall st inj k h c,
    alookup (defs st) h = Some (DSwitchC c) -> upd st inj k c = EV None ->
    (forall i, cur st (F st) c <> EV (VRef i)) ->
    exists e, upd st inj (S k) h = EErr e.
Proof.
  intros st inj k h c Hd Hu Hn. rewrite upd_S, (def_of_Some _ _ _ Hd). cbn [ebind].
  rewrite Hu. cbn [ebind]. destruct (cur st (F st) c) as [v|e] eqn:Hc.
  - cbn [ebind]. destruct v; try (exists Illegal; reflexivity). exfalso. exact (Hn h0 eq_refl).
  - exists e. reflexivity.
Qed.

(* complete inversion of a successful evaluation, any fuel *)
Lemma switch_c_upd_inv : forall st inj k h c r,
    alookup (defs st) h = Some (DSwitchC c) -> upd st inj (S k) h = EV r ->
    (exists n u, upd st inj k c = EV (Some (VRef n)) /\ upd st inj k n = EV u /\
                 match u with
                 | Some v => r = Some v
                 | None => exists v, cur st (F st) n = EV v /\ r = Some v
                 end) \/
    (exists i, upd st inj k c = EV None /\ cur st (F st) c = EV (VRef i) /\ upd st inj k i = EV r).
Proof.
  intros st inj k h c r Hd H. rewrite upd_S, (def_of_Some _ _ _ Hd) in H. cbn [ebind] in H.
  apply ebind_EV in H. destruct H as [o [Ho H]]. destruct o as [v|].
  - destruct v; try discriminate H. left.
    apply ebind_EV in H. destruct H as [u [Hu H]]. exists h0, u.
    split; [exact Ho | split; [exact Hu|]]. destruct u as [v|].
    + injection H as <-. reflexivity.
    + apply ebind_EV in H. destruct H as [v [Hv H]]. injection H as <-. exists v.
      split; [exact Hv | reflexivity].
  - right. apply ebind_EV in H. destruct H as [v [Hv H]]. destruct v; try discriminate H.
    exists h0. split; [exact Ho | split; [exact Hv | exact H]].
Qed.

(* in the transaction of a switch the switch_c always has an update *)
Lemma switch_c_switch_fires : forall st inj k h c n r,
    alookup (defs st) h = Some (DSwitchC c) -> upd st inj k c = EV (Some (VRef n)) ->
    upd st inj (S k) h = EV r -> exists v, r = Some v.
Proof.
  intros st inj k h c n r Hd Hu H.
  destruct (switch_c_upd_inv _ _ _ _ _ _ Hd H) as [[n' [u [H1 [H2 H3]]]] | [i [H1 _]]].
  - destruct u as [v|]; [exists v; exact H3 | destruct H3 as [v [_ H3]]; exists v; exact H3].
  - rewrite H1 in Hu. discriminate Hu.
Qed.

(* top-level fuel, EV form *)
Lemma switch_c_F_EV : forall st inj h c r,
    alookup (defs st) h = Some (DSwitchC c) -> upd st inj (F st) h = EV r ->
    (exists n u, upd st inj (F st) c = EV (Some (VRef n)) /\ upd st inj (F st) n = EV u /\
                 match u with
                 | Some v => r = Some v
                 | None => exists v, cur st (F st) n = EV v /\ r = Some v
                 end) \/
    (exists i, upd st inj (F st) c = EV None /\ cur st (F st) c = EV (VRef i) /\
               upd st inj (F st) i = EV r).
Proof.
  intros st inj h c r Hd H. rewrite upd_F_S in H.
  destruct (switch_c_upd_inv _ _ _ _ _ _ Hd H) as [[n [u [H1 [H2 H3]]]] | [i [H1 [H2 H3]]]].
  - left. exists n, u. split; [exact (upd_F_of _ _ _ _ _ H1 (F_pred_le st))|].
    split; [exact (upd_F_of _ _ _ _ _ H2 (F_pred_le st)) | exact H3].
  - right. exists i. split; [exact (upd_F_of _ _ _ _ _ H1 (F_pred_le st))|].
    split; [exact H2 | exact (upd_F_of _ _ _ _ _ H3 (F_pred_le st))].
Qed.

(* top-level fuel, legal states: the equations, errors included *)
Lemma switch_c_F_legal_switch : forall st inj h c n,
    Legal st inj -> alookup (defs st) h = Some (DSwitchC c) ->
    upd st inj (F st) c = EV (Some (VRef n)) ->
    upd st inj (F st) h =
    elet u <- upd st inj (F st) n;
    match u with Some v => EV (Some v) | None => elet v <- cur st (F st) n; EV (Some v) end.
Proof.
  intros st inj h c n [rc [ro [Hb1 [Hb2 [Hcok Hook]]]]] Hd Hu.
  pose proof (Hook h) as Hh. unfold occ_ok in Hh. rewrite Hd in Hh. destruct Hh as [Hh1 [Hh2 Hh3]].
  pose proof (upd_sub_F st inj ro Hb2 Hook h _ c Hd Hh1) as Ec.
  pose proof (upd_sub_F st inj ro Hb2 Hook h _ n Hd (Hh2 n Hu)) as En.
  rewrite (upd_F_S st inj h). rewrite <- Ec in Hu.
  rewrite (switch_c_upd_switch _ _ _ _ _ _ Hd Hu). rewrite En. reflexivity.
Qed.

Lemma switch_c_F_legal_noswitch : forall st inj h c i,
    Legal st inj -> alookup (defs st) h = Some (DSwitchC c) ->
    upd st inj (F st) c = EV None -> cur st (F st) c = EV (VRef i) ->
    upd st inj (F st) h = upd st inj (F st) i.
Proof.
  intros st inj h c i [rc [ro [Hb1 [Hb2 [Hcok Hook]]]]] Hd Hu Hc.
  pose proof (Hook h) as Hh. unfold occ_ok in Hh. rewrite Hd in Hh. destruct Hh as [Hh1 [Hh2 Hh3]].
  pose proof (upd_sub_F st inj ro Hb2 Hook h _ c Hd Hh1) as Ec.
  pose proof (upd_sub_F st inj ro Hb2 Hook h _ i Hd (Hh3 i Hc)) as Ei.
  rewrite (upd_F_S st inj h). rewrite <- Ec in Hu.
  rewrite (switch_c_upd_noswitch _ _ _ _ _ _ Hd Hu Hc). exact Ei.
Qed.

(* ================================================================== 3. switch_c: the value *)

(* the resolved value of a switch_c is the resolved value of the cell currently held by the outer
   cell *)
Definition SwitchInv (st : state) : Prop :=
  forall h c v, alookup (defs st) h = Some (DSwitchC c) -> alookup (cvals st) h = Some v ->
                exists n, alookup (cvals st) c = Some (VRef n) /\ alookup (cvals st) n = Some v.

Lemma SwitchInv_unfold : forall st,
    SwitchInv st <->
    (forall h c v, alookup (defs st) h = Some (DSwitchC c) -> alookup (cvals st) h = Some v ->
                   exists n, alookup (cvals st) c = Some (VRef n) /\ alookup (cvals st) n = Some v).
Proof. intros st. split; intros H; exact H. Qed.

Lemma SwitchInv_init : SwitchInv init_state.
Proof. intros h c v Hd Hl. simpl in Hd. discriminate Hd. Qed.

Lemma SwitchInv_ext : forall st st',
    defs st' = defs st -> cvals st' = cvals st -> SwitchInv st -> SwitchInv st'.
Proof.
  intros st st' H1 H2 Hinv h c v Hd Hl. rewrite H1 in Hd. rewrite H2 in Hl |- *.
  exact (Hinv h c v Hd Hl).
Qed.

(* a freshly created (unresolved) switch_c reads through the outer cell *)
Lemma switch_c_cur_step : forall st f h c n,
    alookup (cvals st) h = None -> alookup (defs st) h = Some (DSwitchC c) ->
    cur st f c = EV (VRef n) ->
    cur st (S f) h = cur st f n.
Proof.
  intros st f h c n Hl Hd Hc. rewrite cur_S, Hl, (def_of_Some _ _ _ Hd). cbn [ebind].
  rewrite Hc. reflexivity.
Qed.

Lemma switch_c_cur_step2 : forall st k h c n,
    alookup (cvals st) h = None -> alookup (defs st) h = Some (DSwitchC c) ->
    cur st (S k) c = EV (VRef n) ->
    cur st (S (S k)) h = cur st (S k) n.
Proof. intros st k h c n Hl Hd Hc. exact (switch_c_cur_step _ _ _ _ _ Hl Hd Hc). Qed.

Lemma switch_c_cur_inv : forall st f h c v,
    alookup (cvals st) h = None -> alookup (defs st) h = Some (DSwitchC c) ->
    cur st (S f) h = EV v ->
    exists n, cur st f c = EV (VRef n) /\ cur st f n = EV v.
Proof.
  intros st f h c v Hl Hd H. rewrite cur_S, Hl, (def_of_Some _ _ _ Hd) in H. cbn [ebind] in H.
  apply ebind_EV in H. destruct H as [w [Hw H]]. destruct w; try discriminate H.
  exists h0. split; [exact Hw | exact H].
Qed.

(* the heart of the invariant: the committed value of a switch_c is the committed value of the cell
   referenced by the committed value of the outer cell *)
Lemma switch_c_commit : forall st inj h c v,
    SwitchInv st -> alookup (defs st) h = Some (DSwitchC c) -> commit st inj h = Some v ->
    exists n, commit st inj c = Some (VRef n) /\ commit st inj n = Some v /\
              (exists u, upd st inj (F st) c = EV u) /\ (exists u, upd st inj (F st) n = EV u).
Proof.
  intros st inj h c v Hinv Hd Hc. apply commit_Some_inv in Hc. destruct Hc as [Hu | [Hu Hcur]].
  - destruct (switch_c_F_EV _ _ _ _ _ Hd Hu) as [[n [u [H1 [H2 H3]]]] | [i [H1 [H2 H3]]]].
    + exists n. split; [exact (commit_upd_Some _ _ _ _ H1)|].
      split; [|split; [eexists; exact H1 | eexists; exact H2]].
      destruct u as [w|].
      * injection H3 as ->. exact (commit_upd_Some _ _ _ _ H2).
      * destruct H3 as [w [Hw H3]]. injection H3 as ->. exact (commit_upd_None _ _ _ _ H2 Hw).
    + exists i. split; [exact (commit_upd_None _ _ _ _ H1 H2)|].
      split; [exact (commit_upd_Some _ _ _ _ H3) | split; [eexists; exact H1 | eexists; exact H3]].
  - destruct (switch_c_F_EV _ _ _ _ _ Hd Hu) as [[n [u [H1 [H2 H3]]]] | [i [H1 [H2 H3]]]].
    + destruct u as [w|]; [discriminate H3 | destruct H3 as [w [_ H3]]; discriminate H3].
    + exists i. split; [exact (commit_upd_None _ _ _ _ H1 H2)|].
      split; [|split; [eexists; exact H1 | eexists; exact H3]].
      apply (commit_upd_None _ _ _ _ H3).
      destruct (alookup (cvals st) h) as [v0|] eqn:El.
      * (* h was resolved: the old invariant *)
        pose proof (cur_resolved_F _ _ _ El) as Hc0. rewrite Hcur in Hc0. injection Hc0 as <-.
        destruct (Hinv h c v Hd El) as [n [Hn1 Hn2]].
        pose proof (cur_resolved_F _ _ _ Hn1) as Hc1. rewrite H2 in Hc1. injection Hc1 as ->.
        exact (cur_resolved_F _ _ _ Hn2).
      * (* h was created in this transaction *)
        rewrite cur_F_S in Hcur. destruct (switch_c_cur_inv _ _ _ _ _ El Hd Hcur) as [n [Hn1 Hn2]].
        pose proof (cur_det _ _ _ _ _ _ Hn1 H2) as E. injection E as ->.
        exact (cur_F_of _ _ _ _ Hn2 (F_pred_le st)).
Qed.

Theorem SwitchInv_close : forall st inj p r,
    close_txn st inj p = EV r -> SwitchInv st -> SwitchInv (r_state r).
Proof.
  intros st inj p r H Hinv h c v Hd Hl. rewrite (close_defs _ _ _ _ H) in Hd.
  pose proof (close_cvals_Some _ _ _ _ _ _ H Hl) as Hc.
  destruct (switch_c_commit _ _ _ _ _ Hinv Hd Hc) as [n [Hcc [Hcn [[u1 Hu1] [u2 Hu2]]]]].
  exists n. rewrite (close_cvals_upd _ _ _ _ _ _ _ H Hu1), (close_cvals_upd _ _ _ _ _ _ _ H Hu2).
  split; [exact Hcc | exact Hcn].
Qed.

(* what the invariant says in terms of [cur] *)
Theorem switch_c_value_resolved : forall st h c v,
    SwitchInv st -> alookup (defs st) h = Some (DSwitchC c) -> alookup (cvals st) h = Some v ->
    exists n, cur st (F st) c = EV (VRef n) /\ cur st (F st) n = EV v /\ cur st (F st) h = EV v.
Proof.
  intros st h c v Hinv Hd Hl. destruct (Hinv h c v Hd Hl) as [n [H1 H2]]. exists n.
  split; [exact (cur_resolved_F _ _ _ H1) | split; [exact (cur_resolved_F _ _ _ H2) | exact (cur_resolved_F _ _ _ Hl)]].
Qed.

(* after any successful close, a resolved switch_c equals the cell currently held by the outer cell *)
Theorem switch_c_after_close : forall st inj p r h c v,
    close_txn st inj p = EV r -> SwitchInv st ->
    alookup (defs st) h = Some (DSwitchC c) -> alookup (cvals (r_state r)) h = Some v ->
    exists n, cur (r_state r) (F (r_state r)) c = EV (VRef n) /\
              cur (r_state r) (F (r_state r)) h = cur (r_state r) (F (r_state r)) n /\
              cur (r_state r) (F (r_state r)) h = EV v.
Proof.
  intros st inj p r h c v H Hinv Hd Hl.
  pose proof (SwitchInv_close _ _ _ _ H Hinv) as Hinv'.
  rewrite <- (close_defs _ _ _ _ H) in Hd.
  destruct (switch_c_value_resolved _ _ _ _ Hinv' Hd Hl) as [n [H1 [H2 H3]]].
  exists n. split; [exact H1 | split; [rewrite H2, H3; reflexivity | exact H3]].
Qed.

(* legal states: switch_c reads the cell currently held, resolved or not, errors included *)
Theorem switch_c_cur_legal : forall st inj h c n,
    Legal st inj -> SwitchInv st -> alookup (defs st) h = Some (DSwitchC c) ->
    cur st (F st) c = EV (VRef n) ->
    cur st (F st) h = cur st (F st) n.
Proof.
  intros st inj h c n [rc [ro [Hb1 [Hb2 [Hcok Hook]]]]] Hinv Hd Hc.
  destruct (alookup (cvals st) h) as [v|] eqn:El.
  - destruct (switch_c_value_resolved _ _ _ _ Hinv Hd El) as [n' [H1 [H2 H3]]].
    rewrite Hc in H1. injection H1 as ->. rewrite H2, H3. reflexivity.
  - pose proof (Hcok h) as Hh. unfold cur_ok in Hh. rewrite El, Hd in Hh. destruct Hh as [Hh1 Hh2].
    pose proof (Hb1 h _ Hd) as HbF. rewrite F_eq in HbF.
    assert (Ec : cur st (S (length (defs st))) c = cur st (F st) c).
    { apply (cur_indep_F st rc Hb1 Hcok). lia. }
    assert (En : cur st (S (length (defs st))) n = cur st (F st) n).
    { apply (cur_indep_F st rc Hb1 Hcok). pose proof (Hh2 n Hc). lia. }
    rewrite (cur_F_S st h). rewrite <- Ec in Hc.
    rewrite (switch_c_cur_step _ _ _ _ _ El Hd Hc). exact En.
Qed.

(* the transaction of a switch: the new state holds, for the switch_c, the value of the NEW inner
   cell including an update that cell receives in the same transaction (no invariant needed) *)
Theorem switch_c_close_switch : forall st inj p r h c n,
    close_txn st inj p = EV r -> alookup (defs st) h = Some (DSwitchC c) ->
    upd st inj (F st) c = EV (Some (VRef n)) ->
    exists v, upd st inj (F st) h = EV (Some v) /\
              (upd st inj (F st) n = EV (Some v) \/
               (upd st inj (F st) n = EV None /\ cur st (F st) n = EV v)) /\
              alookup (cvals (r_state r)) c = Some (VRef n) /\
              alookup (cvals (r_state r)) n = Some v /\
              alookup (cvals (r_state r)) h = Some v.
Proof.
  intros st inj p r h c n H Hd Hu.
  destruct (close_cvals_cell _ _ _ _ _ _ H Hd eq_refl) as [Hlh [u Huh]].
  destruct (switch_c_F_EV _ _ _ _ _ Hd Huh) as [[n' [u' [H1 [H2 H3]]]] | [i [H1 _]]];
    [|rewrite H1 in Hu; discriminate Hu].
  rewrite Hu in H1. injection H1 as <-.
  assert (G : exists v, u = Some v /\ commit st inj n = Some v /\
                        (upd st inj (F st) n = EV (Some v) \/
                         (upd st inj (F st) n = EV None /\ cur st (F st) n = EV v))).
  { destruct u' as [w|].
    - exists w. split; [exact H3 | split; [exact (commit_upd_Some _ _ _ _ H2) | left; exact H2]].
    - destruct H3 as [w [Hw H3]]. exists w.
      split; [exact H3 | split; [exact (commit_upd_None _ _ _ _ H2 Hw) | right; split; [exact H2 | exact Hw]]]. }
  destruct G as [v [-> [Hcn Hor]]]. exists v.
  split; [exact Huh | split; [exact Hor|]].
  split; [exact (proj1 (outer_next_Some _ _ _ _ _ _ H Hu))|].
  split.
  - rewrite (close_cvals_upd _ _ _ _ _ _ _ H H2). exact Hcn.
  - rewrite Hlh. exact (commit_upd_Some _ _ _ _ Huh).
Qed.

(* no switch in the transaction: the new value of the switch_c is the new value of the inner cell
   held, whatever happens to any other (e.g. a previously held) cell *)
Theorem switch_c_close_noswitch : forall st inj p r h c i v,
    close_txn st inj p = EV r -> SwitchInv st -> alookup (defs st) h = Some (DSwitchC c) ->
    upd st inj (F st) c = EV None -> cur st (F st) c = EV (VRef i) ->
    alookup (cvals (r_state r)) h = Some v ->
    alookup (cvals (r_state r)) c = Some (VRef i) /\ alookup (cvals (r_state r)) i = Some v /\
    upd st inj (F st) h = upd st inj (F st) i.
Proof.
  intros st inj p r h c i v H Hinv Hd Hu Hc Hl.
  pose proof (proj1 (outer_next_None _ _ _ _ _ _ H Hu Hc)) as Hlc.
  pose proof (SwitchInv_close _ _ _ _ H Hinv) as Hinv'.
  pose proof Hd as Hd'. rewrite <- (close_defs _ _ _ _ H) in Hd'.
  destruct (Hinv' h c v Hd' Hl) as [n [Hn1 Hn2]]. rewrite Hlc in Hn1. injection Hn1 as <-.
  split; [exact Hlc | split; [exact Hn2|]].
  destruct (close_cvals_cell _ _ _ _ _ _ H Hd eq_refl) as [_ [u Huh]].
  destruct (switch_c_F_EV _ _ _ _ _ Hd Huh) as [[n' [u' [H1 _]]] | [i' [H1 [H2 H3]]]].
  - rewrite H1 in Hu. discriminate Hu.
  - rewrite Hc in H2. injection H2 as <-. rewrite Huh, H3. reflexivity.
Qed.

(* after a switch to n the old inner cell is ignored: in the following transactions (as long as the
   outer cell does not update) the switch_c's update is n's update *)
Theorem switch_c_next_ignores_old : forall st inj p r h c n,
    close_txn st inj p = EV r -> alookup (defs st) h = Some (DSwitchC c) ->
    upd st inj (F st) c = EV (Some (VRef n)) ->
    forall inj' k, upd (r_state r) inj' k c = EV None ->
                   upd (r_state r) inj' (S k) h = upd (r_state r) inj' k n.
Proof.
  intros st inj p r h c n H Hd Hu inj' k Hu'. apply switch_c_upd_noswitch with (c := c).
  - rewrite (close_defs _ _ _ _ H). exact Hd.
  - exact Hu'.
  - exact (switch_s_next_cur _ _ _ _ _ _ H Hu).
Qed.

(* ================================================================== 4. histories *)

Definition txn := (list (nat * val) * list (nat * list nat))%type.

(* a sequence of transactions (injected events, posts) run from [st]; yields the state after each *)
Inductive run : state -> list txn -> list state -> Prop :=
| run_nil : forall st, run st [] []
| run_cons : forall st inj p r t sts,
    close_txn st inj p = EV r -> run (r_state r) t sts -> run st ((inj, p) :: t) (r_state r :: sts).

Lemma run_unfold : forall st l sts,
    run st l sts <->
    match l, sts with
    | [], [] => True
    | (inj, p) :: t, st1 :: sts' =>
      exists r, close_txn st inj p = EV r /\ st1 = r_state r /\ run st1 t sts'
    | _, _ => False
    end.
Proof.
  intros st l sts. split.
  - intros H. destruct H as [st | st inj p r t sts H Hr]; [exact I|].
    exists r. split; [exact H | split; [reflexivity | exact Hr]].
  - destruct l as [|[inj p] t]; destruct sts as [|st1 sts'].
    + intros _. constructor.
    + intros [].
    + intros [].
    + intros [r [H [-> Hr]]]. exact (run_cons _ _ _ _ _ _ H Hr).
Qed.

Theorem SwitchInv_run : forall st l sts, run st l sts -> SwitchInv st -> Forall SwitchInv sts.
Proof.
  intros st l sts Hr. induction Hr as [st | st inj p r t sts H Hr IH]; intros Hinv.
  - constructor.
  - pose proof (SwitchInv_close _ _ _ _ H Hinv) as Hinv'. constructor; [exact Hinv' | exact (IH Hinv')].
Qed.

Lemma run_defs : forall st l sts, run st l sts -> Forall (fun st' => defs st' = defs st) sts.
Proof.
  intros st l sts Hr. induction Hr as [st | st inj p r t sts H Hr IH].
  - constructor.
  - pose proof (close_defs _ _ _ _ H) as Hd. constructor; [exact Hd|].
    apply Forall_impl with (2 := IH). intros st' E. rewrite E. exact Hd.
Qed.

Theorem SwitchInv_run_init : forall l sts, run init_state l sts -> Forall SwitchInv sts.
Proof. intros l sts Hr. exact (SwitchInv_run _ _ _ Hr SwitchInv_init). Qed.

(* after every transaction of a history every resolved switch_c reads the value of the cell the
   outer cell holds at that moment *)
Theorem run_switch_c_value : forall st l sts,
    run st l sts -> SwitchInv st ->
    Forall (fun st' => forall h c v,
                alookup (defs st) h = Some (DSwitchC c) -> alookup (cvals st') h = Some v ->
                exists n, cur st' (F st') c = EV (VRef n) /\ cur st' (F st') n = EV v /\
                          cur st' (F st') h = EV v) sts.
Proof.
  intros st l sts Hr Hinv. pose proof (SwitchInv_run _ _ _ Hr Hinv) as H1.
  pose proof (run_defs _ _ _ Hr) as H2. rewrite Forall_forall in H1, H2 |- *.
  intros st' Hin h c v Hd Hl. rewrite <- (H2 st' Hin) in Hd.
  exact (switch_c_value_resolved _ _ _ _ (H1 st' Hin) Hd Hl).
Qed.

(* switching to the SAME cell the outer cell already holds: the switch_c fires an update (the inner
   cell's update, or else its unchanged current value), and the committed values remain equal *)
Theorem switch_c_same_cell : forall st inj p r h c n v,
    SwitchInv st -> alookup (defs st) h = Some (DSwitchC c) ->
    alookup (cvals st) h = Some v -> alookup (cvals st) c = Some (VRef n) ->
    close_txn st inj p = EV r -> upd st inj (F st) c = EV (Some (VRef n)) ->
    exists w, upd st inj (F st) h = EV (Some w) /\
              (upd st inj (F st) n = EV (Some w) \/ (upd st inj (F st) n = EV None /\ w = v)) /\
              alookup (cvals (r_state r)) c = Some (VRef n) /\
              alookup (cvals (r_state r)) n = Some w /\
              alookup (cvals (r_state r)) h = Some w.
Proof.
  intros st inj p r h c n v Hinv Hd Hl Hlc H Hu.
  destruct (switch_c_close_switch _ _ _ _ _ _ _ H Hd Hu) as [w [H1 [H2 [H3 [H4 H5]]]]].
  exists w. split; [exact H1 | split; [|split; [exact H3 | split; [exact H4 | exact H5]]]].
  destruct H2 as [H2 | [H2 H2']]; [left; exact H2 | right; split; [exact H2|]].
  destruct (Hinv h c v Hd Hl) as [n' [Hn1 Hn2]]. rewrite Hlc in Hn1. injection Hn1 as <-.
  pose proof (cur_resolved_F _ _ _ Hn2) as Hc. rewrite H2' in Hc. injection Hc as ->. reflexivity.
Qed.

(* switching there and back again: after T1 (switch to b) the switch_c equals b, after T2 (switch
   back to a) it equals a, including updates a / b receive in the switching transactions *)
Theorem switch_c_back_and_forth : forall st inj1 p1 r1 inj2 p2 r2 h c a b,
    alookup (defs st) h = Some (DSwitchC c) ->
    close_txn st inj1 p1 = EV r1 -> upd st inj1 (F st) c = EV (Some (VRef b)) ->
    close_txn (r_state r1) inj2 p2 = EV r2 ->
    upd (r_state r1) inj2 (F (r_state r1)) c = EV (Some (VRef a)) ->
    (exists w, alookup (cvals (r_state r1)) h = Some w /\ alookup (cvals (r_state r1)) b = Some w /\
               alookup (cvals (r_state r1)) c = Some (VRef b)) /\
    (exists v, alookup (cvals (r_state r2)) h = Some v /\ alookup (cvals (r_state r2)) a = Some v /\
               alookup (cvals (r_state r2)) c = Some (VRef a)).
Proof.
  intros st inj1 p1 r1 inj2 p2 r2 h c a b Hd H1 Hu1 H2 Hu2.
  pose proof Hd as Hd'. rewrite <- (close_defs _ _ _ _ H1) in Hd'. split.
  - destruct (switch_c_close_switch _ _ _ _ _ _ _ H1 Hd Hu1) as [w [_ [_ [G3 [G4 G5]]]]].
    exists w. split; [exact G5 | split; [exact G4 | exact G3]].
  - destruct (switch_c_close_switch _ _ _ _ _ _ _ H2 Hd' Hu2) as [v [_ [_ [G3 [G4 G5]]]]].
    exists v. split; [exact G5 | split; [exact G4 | exact G3]].
Qed.

(* the same for switch_s: T1 (outer cell holds a, updates to b) still follows a; T2 (updates back to
   a) follows b; T3 follows a again. Every transaction follows exactly one stream: no occurrence of
   a or b is lost or duplicated. *)
Theorem switch_s_back_and_forth : forall st inj1 p1 r1 inj2 p2 r2 h c a b,
    alookup (defs st) h = Some (DSwitchS c) -> cur st (F st) c = EV (VRef a) ->
    close_txn st inj1 p1 = EV r1 -> upd st inj1 (F st) c = EV (Some (VRef b)) ->
    close_txn (r_state r1) inj2 p2 = EV r2 ->
    upd (r_state r1) inj2 (F (r_state r1)) c = EV (Some (VRef a)) ->
    (forall k, occ st inj1 (S k) h = occ st inj1 k a) /\
    (forall k, occ (r_state r1) inj2 (S k) h = occ (r_state r1) inj2 k b) /\
    (forall inj3 k, occ (r_state r2) inj3 (S k) h = occ (r_state r2) inj3 k a).
Proof.
  intros st inj1 p1 r1 inj2 p2 r2 h c a b Hd Hc H1 Hu1 H2 Hu2.
  pose proof Hd as Hd'. rewrite <- (close_defs _ _ _ _ H1) in Hd'.
  split; [intros k; exact (switch_s_step _ _ _ _ _ _ Hd Hc)|].
  split; [intros k; exact (switch_s_next _ _ _ _ _ _ _ Hd H1 Hu1 inj2 k)|].
  exact (switch_s_next _ _ _ _ _ _ _ Hd' H2 Hu2).
Qed.

(* switching a switch_s to the stream it already follows changes nothing *)
Theorem switch_s_same_stream : forall st inj p r h c n,
    alookup (defs st) h = Some (DSwitchS c) -> cur st (F st) c = EV (VRef n) ->
    close_txn st inj p = EV r -> upd st inj (F st) c = EV (Some (VRef n)) ->
    (forall k, occ st inj (S k) h = occ st inj k n) /\
    (forall inj' k, occ (r_state r) inj' (S k) h = occ (r_state r) inj' k n).
Proof. intros st inj p r h c n Hd Hc H Hu. exact (switch_s_this_and_next _ _ _ _ _ _ _ _ Hd Hc H Hu). Qed.

(* ------------------------------------------------------------------ whole scripts *)

(* operations that neither create a switch_c nor overwrite a resolved value: the invariant survives
   every script step made of them (deferred transactions, nested and scoped transactions included).
   Creating a switch_c on a fresh slot keeps the invariant as well, see [SwitchInv_new_switch]. *)
Definition keeps_switch (o : op) : Prop :=
  match o with
  | ODef _ (DSwitchC _) => False
  | OConst _ _ => False
  | _ => True
  end.

Lemma SwitchInv_redef : forall st st' h d,
    (forall c, d <> DSwitchC c) -> defs st' = aset (defs st) h d -> cvals st' = cvals st ->
    SwitchInv st -> SwitchInv st'.
Proof.
  intros st st' h d Hnd H1 H2 Hinv h0 c v Hd Hl. rewrite H1 in Hd. rewrite H2 in Hl |- *.
  destruct (Nat.eq_dec h0 h) as [->|Hne].
  - rewrite alookup_aset_eq in Hd. injection Hd as ->. exfalso. exact (Hnd c eq_refl).
  - rewrite (alookup_aset_neq _ _ _ _ Hne) in Hd. exact (Hinv h0 c v Hd Hl).
Qed.

Lemma SwitchInv_new_switch : forall st h c,
    alookup (cvals st) h = None -> SwitchInv st -> SwitchInv (with_defs st h (DSwitchC c)).
Proof.
  intros st h c Hn Hinv h0 c0 v Hd Hl. unfold with_defs in Hd, Hl |- *. cbn [defs cvals] in Hd, Hl |- *.
  destruct (Nat.eq_dec h0 h) as [->|Hne].
  - rewrite Hn in Hl. discriminate Hl.
  - rewrite (alookup_aset_neq _ _ _ _ Hne) in Hd. exact (Hinv h0 c0 v Hd Hl).
Qed.

Lemma SwitchInv_body : forall st o st' ob,
    keeps_switch o -> body st o = EV (st', ob) -> SwitchInv st -> SwitchInv st'.
Proof.
  intros st o st' ob HQ H Hinv.
  destruct o; simpl in H;
    try (injection H as <- <-; apply (SwitchInv_ext st); [reflexivity | reflexivity | exact Hinv]).
  - (* ODef *)
    injection H as <- <-. apply (SwitchInv_redef st _ h d); [|reflexivity | reflexivity | exact Hinv].
    intros c E. subst d. exact HQ.
  - (* OHold *)
    injection H as <- <-. apply (SwitchInv_redef st _ h (DHold s)); [|reflexivity | reflexivity | exact Hinv].
    intros c E. discriminate E.
  - (* OHoldLazy *)
    injection H as <- <-. apply (SwitchInv_redef st _ h (DHold s)); [|reflexivity | reflexivity | exact Hinv].
    intros c E. discriminate E.
  - (* OConst *) destruct HQ.
  - (* OLoopS *)
    destruct (alookup (loops st) l); [discriminate H|]. injection H as <- <-.
    apply (SwitchInv_ext st); [reflexivity | reflexivity | exact Hinv].
  - (* OLoopC *)
    destruct (alookup (loops st) l); [discriminate H|]. injection H as <- <-.
    apply (SwitchInv_ext st); [reflexivity | reflexivity | exact Hinv].
  - (* OListenC *)
    injection H as <- <-. apply (SwitchInv_redef st _ vh (DValue c)); [|reflexivity | reflexivity | exact Hinv].
    intros c0 E. discriminate E.
  - (* OSample *)
    apply ebind_EV in H. destruct H as [v [_ H]]. injection H as <- <-. exact Hinv.
  - (* OForce *)
    destruct (alookup (lazies st) z) as [[[v|c] i]|]; [| |discriminate H].
    + injection H as <- <-. exact Hinv.
    + apply ebind_EV in H. destruct H as [v [_ H]]. injection H as <- <-. exact Hinv.
  - (* OCloneLazy *)
    destruct (alookup (lazies st) z); [|discriminate H]. injection H as <- <-.
    apply (SwitchInv_ext st); [reflexivity | reflexivity | exact Hinv].
Qed.

Theorem SwitchInv_step : forall choice st o r,
    keeps_switch o -> step choice st o = EV r -> SwitchInv st -> SwitchInv (fst (fst r)).
Proof.
  apply (step_inv SwitchInv keeps_switch SwitchInv_body SwitchInv_close).
  - intros st n Hinv. apply (SwitchInv_ext st); [reflexivity | reflexivity | exact Hinv].
  - intros st t b Hinv. apply (SwitchInv_ext st); [reflexivity | reflexivity | exact Hinv].
Qed.

Theorem SwitchInv_script : forall ops choices st st',
    Forall keeps_switch ops -> run_script choices st ops = EV st' -> SwitchInv st -> SwitchInv st'.
Proof.
  apply (script_inv SwitchInv keeps_switch SwitchInv_body SwitchInv_close).
  - intros st n Hinv. apply (SwitchInv_ext st); [reflexivity | reflexivity | exact Hinv].
  - intros st t b Hinv. apply (SwitchInv_ext st); [reflexivity | reflexivity | exact Hinv].
Qed.

(* ================================================================== 5. a concrete scenario *)

(* executable form of [run] *)
Fixpoint run_fn (st : state) (l : list txn) : option (list state) :=
  match l with
  | [] => Some []
  | ip :: t =>
    match close_txn st (fst ip) (snd ip) with
    | EV r => match run_fn (r_state r) t with Some sts => Some (r_state r :: sts) | None => None end
    | EErr _ => None
    end
  end.

Lemma run_fn_sound : forall l st sts, run_fn st l = Some sts -> run st l sts.
Proof.
  induction l as [|[inj p] t IH]; intros st sts H.
  - injection H as <-. constructor.
  - simpl in H. destruct (close_txn st inj p) as [r|e] eqn:Hc; [|discriminate H].
    destruct (run_fn (r_state r) t) as [sts'|] eqn:Hr; [|discriminate H]. injection H as <-.
    exact (run_cons _ _ _ _ _ _ Hc (IH _ _ Hr)).
Qed.

(* the invariant, one check per definition (for concrete states) *)
Lemma SwitchInv_Forall : forall st,
    Forall (fun kd => match snd kd with
                      | DSwitchC c =>
                        match alookup (cvals st) (fst kd) with
                        | Some v => exists n, alookup (cvals st) c = Some (VRef n) /\
                                              alookup (cvals st) n = Some v
                        | None => True
                        end
                      | _ => True
                      end) (defs st) ->
    SwitchInv st.
Proof.
  intros st HF h c v Hd Hl. rewrite Forall_forall in HF.
  specialize (HF _ (alookup_In _ _ _ Hd)). simpl in HF. rewrite Hl in HF. exact HF.
Qed.

(* sinks 0 1; cells 2 = hold 10 of 0, 3 = hold 20 of 1; sink 4 carries cell references, 5 = hold of
   4 starting with cell 2; 6 = switch_c 5; 7 = updates 6; sink 8 carries stream references, 9 = hold
   of 8 starting with stream 0; 10 = switch_s 9; listeners 20 on 10 and 21 on 7 *)
Definition ex_ops : list op :=
  [ODef 0 (DSink None); ODef 1 (DSink None);
   OHold 2 0 (VInt 10); OHold 3 1 (VInt 20);
   ODef 4 (DSink None); OHold 5 4 (VRef 2); ODef 6 (DSwitchC 5); ODef 7 (DUpdates 6);
   ODef 8 (DSink None); OHold 9 8 (VRef 0); ODef 10 (DSwitchS 9);
   OListen 20 10; OListen 21 7].

Definition ex_st : state :=
  Eval vm_compute in match run_ops init_state ex_ops with Some st => st | None => init_state end.

(* T1: both outer cells switch (5 to cell 3, 9 to stream 1) while all of 0 and 1 fire *)
Definition ex_inj1 : list (nat * val) := [(4, VRef 3); (1, VInt 21); (8, VRef 1); (0, VInt 11)].
(* T2: no switch, both sinks fire *)
Definition ex_inj2 : list (nat * val) := [(0, VInt 12); (1, VInt 22)].
(* T3: switch back, nothing else fires *)
Definition ex_inj3 : list (nat * val) := [(4, VRef 2); (8, VRef 0)].
(* T4: switch to the cell / stream already held, stream 0 fires *)
Definition ex_inj4 : list (nat * val) := [(4, VRef 2); (8, VRef 0); (0, VInt 13)].

Definition ex_txns : list txn := [(ex_inj1, []); (ex_inj2, []); (ex_inj3, []); (ex_inj4, [])].

Definition ex_states : list state :=
  Eval vm_compute in match run_fn ex_st ex_txns with Some sts => sts | None => [] end.

Definition ex_ranks : nat -> nat :=
  rank_of [(0,0); (1,1); (2,2); (3,3); (4,4); (5,5); (6,6); (7,7); (8,8); (9,9); (10,10)].

Lemma ex_st_built : run_ops init_state ex_ops = Some ex_st.
Proof. vm_compute. reflexivity. Qed.

Lemma ex_st_shape :
  defs ex_st = [(10, DSwitchS 9); (9, DHold 8); (8, DSink None); (7, DUpdates 6); (6, DSwitchC 5);
                (5, DHold 4); (4, DSink None); (3, DHold 1); (2, DHold 0); (1, DSink None);
                (0, DSink None)] /\
  cvals ex_st = [(9, VRef 0); (6, VInt 10); (5, VRef 2); (3, VInt 20); (2, VInt 10)].
Proof. vm_compute. split; reflexivity. Qed.

Lemma ex_SwitchInv : SwitchInv ex_st.
Proof.
  apply SwitchInv_Forall. unfold ex_st. cbn [defs cvals].
  do 4 (constructor; [exact I|]). constructor; [exists 2; split; reflexivity|].
  do 6 (constructor; [exact I|]). constructor.
Qed.

Lemma ex_Legal : Legal ex_st ex_inj1 /\ Legal ex_st ex_inj2 /\ Legal ex_st ex_inj3 /\ Legal ex_st ex_inj4.
Proof.
  repeat split; apply (legalb_Legal _ _ (fun _ => 0) ex_ranks); vm_compute; reflexivity.
Qed.

(* the transaction of the switch: switch_c takes the new inner cell's update of the same
   transaction (21, not the old inner's 11), switch_s still emits the old stream's event (11, not
   21); the listeners see exactly that *)
Lemma ex_T1 :
  upd ex_st ex_inj1 (F ex_st) 5 = EV (Some (VRef 3)) /\
  upd ex_st ex_inj1 (F ex_st) 6 = EV (Some (VInt 21)) /\
  cur ex_st (F ex_st) 9 = EV (VRef 0) /\
  upd ex_st ex_inj1 (F ex_st) 9 = EV (Some (VRef 1)) /\
  occ ex_st ex_inj1 (F ex_st) 10 = EV (Some (VInt 11)) /\
  exists r, close_txn ex_st ex_inj1 [] = EV r /\
            r_obs r = [BCall 20 (VInt 11); BCall 21 (VInt 21)] /\
            cvals (r_state r) = [(9, VRef 1); (6, VInt 21); (5, VRef 3); (3, VInt 21); (2, VInt 11)].
Proof.
  do 5 (split; [vm_compute; reflexivity|]).
  eexists. split; [vm_compute; reflexivity|]. split; vm_compute; reflexivity.
Qed.

(* the whole history: values of switch_c (6), of the outer cell (5) and of the inner cells (2, 3)
   after each transaction, and what the two listeners saw *)
Lemma ex_history :
  run ex_st ex_txns ex_states /\
  map (fun st => map (alookup (cvals st)) [6; 5; 2; 3]) ex_states =
  [[Some (VInt 21); Some (VRef 3); Some (VInt 11); Some (VInt 21)];
   [Some (VInt 22); Some (VRef 3); Some (VInt 12); Some (VInt 22)];
   [Some (VInt 12); Some (VRef 2); Some (VInt 12); Some (VInt 22)];
   [Some (VInt 13); Some (VRef 2); Some (VInt 13); Some (VInt 22)]] /\
  map (fun sti => match close_txn (fst sti) (snd sti) [] with EV r => r_obs r | EErr _ => [] end)
      (combine (ex_st :: ex_states) [ex_inj1; ex_inj2; ex_inj3; ex_inj4]) =
  [[BCall 20 (VInt 11); BCall 21 (VInt 21)];      (* T1: old stream 0; new cell 3's update *)
   [BCall 20 (VInt 22); BCall 21 (VInt 22)];      (* T2: stream 1 / cell 3; 0 and 2 ignored *)
   [BCall 21 (VInt 12)];                          (* T3: switch back: cell 2's current value; stream 1 silent *)
   [BCall 20 (VInt 13); BCall 21 (VInt 13)]].     (* T4: same cell / stream: 13 once each *)
Proof.
  split; [apply run_fn_sound; vm_compute; reflexivity|].
  split; vm_compute; reflexivity.
Qed.

Lemma ex_history_inv : Forall SwitchInv ex_states.
Proof. exact (SwitchInv_run _ _ _ (proj1 ex_history) ex_SwitchInv). Qed.
