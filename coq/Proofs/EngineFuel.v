(* Fuel sufficiency for Model/Engine.v: the fuelled functions `update_node` and `drain` never run out
   of fuel when given the fuels that `EngineScript.estep` passes.  Together with EngineSafe.v (which
   proves "IF the result is Some s' THEN ...") this makes the C03 statements total.

   The termination measure is the number of nodes whose `visited` flag is still false: every nested
   call of `update_node` first marks one more node visited, flags are never cleared during a drain,
   and a drain round appends to the queue only on behalf of a node that became visited in that round.
   None of this depends on the graph being ranked, on the rule F, or on the `orig` switch. *)
From Coq Require Import List Arith Lia Bool.
Import ListNotations.
From Sodium Require Import Engine EngineScript EngineSafe.

(* ---------------- counting ---------------- *)
Lemma filter_len_le {A} (p q : A -> bool) l :
  (forall x, In x l -> p x = true -> q x = true) -> length (filter p l) <= length (filter q l).
Proof.
  induction l as [|x l IH]; simpl; intros H; [lia|].
  assert (IH' : length (filter p l) <= length (filter q l)) by (apply IH; intros; apply H; auto).
  destruct (p x) eqn:Px.
  - rewrite (H x (or_introl eq_refl) Px). simpl. lia.
  - destruct (q x); simpl; lia.
Qed.

Lemma filter_len_lt {A} (p q : A -> bool) l x :
  (forall y, In y l -> p y = true -> q y = true) -> In x l -> p x = false -> q x = true ->
  length (filter p l) < length (filter q l).
Proof.
  induction l as [|y l IH]; simpl; intros H Hx Px Qx; [contradiction|].
  assert (LE : length (filter p l) <= length (filter q l)) by (apply filter_len_le; intros; apply H; auto).
  destruct Hx as [->|Hx].
  - rewrite Px, Qx. simpl. lia.
  - assert (LT : length (filter p l) < length (filter q l)) by (apply IH; auto).
    destruct (p y) eqn:Py.
    + rewrite (H y (or_introl eq_refl) Py). simpl. lia.
    + destruct (q y); simpl; lia.
Qed.

(* number of nodes not yet visited *)
Definition unvis {Val} (gr : graph Val) : nat :=
  length (filter (fun n => negb (visited (get gr n))) (seq 0 (length gr))).

(* same size, and visited flags only grow *)
Definition vle {Val} (gr gr' : graph Val) :=
  length gr' = length gr /\ forall m, visited (get gr m) = true -> visited (get gr' m) = true.

Lemma vle_refl {Val} (gr : graph Val) : vle gr gr.
Proof. split; auto. Qed.
Lemma vle_trans {Val} (a b c : graph Val) : vle a b -> vle b c -> vle a c.
Proof. intros [L1 V1] [L2 V2]. split; [congruence|auto]. Qed.

Lemma unvis_le_length {Val} (gr : graph Val) : unvis gr <= length gr.
Proof.
  unfold unvis. rewrite <- (seq_length (length gr) 0) at 2.
  generalize (seq 0 (length gr)). intros l. induction l as [|x l IH]; simpl; auto.
  destruct (negb _); simpl; lia.
Qed.

Lemma unvis_le {Val} (gr gr' : graph Val) : vle gr gr' -> unvis gr' <= unvis gr.
Proof.
  intros [L V]. unfold unvis. rewrite L. apply filter_len_le. intros x _ Hx.
  destruct (visited (get gr x)) eqn:Vx; auto. rewrite (V x Vx) in Hx. discriminate.
Qed.

Lemma unvisited_in_range {Val} (gr : graph Val) n : visited (get gr n) = false -> n < length gr.
Proof.
  intros H. destruct (lt_dec n (length gr)) as [|Ge]; auto.
  rewrite get_out in H by lia. discriminate.
Qed.

Lemma unvis_lt {Val} (gr gr' : graph Val) n :
  vle gr gr' -> visited (get gr n) = false -> visited (get gr' n) = true -> unvis gr' < unvis gr.
Proof.
  intros [L V] Vn Vn'. unfold unvis. rewrite L. apply (filter_len_lt _ _ _ n).
  - intros x _ Hx. destruct (visited (get gr x)) eqn:Vx; auto. rewrite (V x Vx) in Hx. discriminate.
  - apply in_seq. pose proof (unvisited_in_range gr n Vn). lia.
  - rewrite Vn'. reflexivity.
  - rewrite Vn. reflexivity.
Qed.

(* ---------------- the flag-level effect of the primitive steps ---------------- *)
Lemma mark_vle {Val} (s : st Val) n d : vle (g s) (g (mark s n true d)).
Proof.
  split; [rewrite mark_g; apply set_length|]. intros m Vm. rewrite mark_g.
  destruct (Nat.eq_dec n m) as [->|Ne]; [|rewrite get_set_other; auto].
  destruct (lt_dec m (length (g s))) as [Lt|Ge]; [rewrite get_set_same; auto|].
  apply get_out. rewrite set_length. lia.
Qed.

Lemma mark_visited {Val} (s : st Val) n d : visited (get (g (mark s n true d)) n) = true.
Proof.
  rewrite mark_g. destruct (lt_dec n (length (g s))) as [Lt|Ge]; [rewrite get_set_same; auto|].
  apply get_out. rewrite set_length. lia.
Qed.

Lemma run_update_vle {Val} (F : rule Val) s n ex : vle (g s) (g (run_update F s n ex)).
Proof.
  unfold run_update; simpl. split; [apply set_length|]. intros m Vm.
  destruct (Nat.eq_dec n m) as [->|Ne]; [|rewrite get_set_other; auto].
  destruct (lt_dec m (length (g s))) as [Lt|Ge]; [rewrite get_set_same; auto|].
  apply get_out. rewrite set_length. lia.
Qed.

(* a fold of total steps is total *)
Lemma fold_opt_some {Val A} (P : st Val -> Prop) (f : st Val -> A -> option (st Val)) l : forall s0,
  P s0 -> (forall a x, In x l -> P a -> exists a', f a x = Some a' /\ P a') ->
  exists r, fold_left (fun acc x => match acc with None => None | Some a => f a x end) l (Some s0) = Some r /\ P r.
Proof.
  induction l as [|x l IH]; simpl; intros s0 P0 Step.
  - exists s0; auto.
  - destruct (Step s0 x (or_introl eq_refl) P0) as (a' & E & Pa'). rewrite E.
    apply IH; [exact Pa'|]. intros a y Hy Pa. apply Step; simpl; auto.
Qed.

Section Fuel.
  Context {Val : Type}.
  Variable F : rule Val.
  Variable Dm : demand Val.
  Variable orig : bool.

  (* one call either does nothing at all or strictly decreases the number of unvisited nodes *)
  Lemma update_node_mono : forall fuel s n b s',
    update_node F Dm orig fuel s n b = Some s' ->
    vle (g s) (g s') /\ (s' = s \/ unvis (g s') < unvis (g s)).
  Proof.
    induction fuel as [|f IH]; intros s n b s' E; [discriminate|].
    cbn [update_node] in E.
    destruct (visited (get (g s) n)) eqn:Vn.
    { injection E as <-. split; [apply vle_refl | left; reflexivity]. }
    cbv zeta in E.
    remember (mark s n true false) as s1 eqn:Hs1.
    assert (X1 : vle (g s) (g s1)) by (rewrite Hs1; apply mark_vle).
    assert (V1 : visited (get (g s1) n) = true) by (rewrite Hs1; apply mark_visited).
    match type of E with match ?T with _ => _ end = _ => destruct T as [s2|] eqn:EB end; [|discriminate].
    assert (X2 : vle (g s1) (g s2)).
    { apply (fold_opt_inv (fun a => vle (g s1) (g a))
               (fun a d => if visited (get (g a) d) then Some a else update_node F Dm orig f a d true)
               (deps (get (g s) n)) s1 s2); auto.
      - apply vle_refl.
      - intros a d a' _ Pa Ea. destruct (visited (get (g a) d)).
        + injection Ea as <-. exact Pa.
        + eapply vle_trans; [exact Pa|]. apply (IH a d true a' Ea). }
    remember (Dm n (fires_of (g s2) (deps (get (g s) n)))) as ex eqn:Hex.
    match type of E with match ?T with _ => _ end = _ => destruct T as [s2'|] eqn:EB' end; [|discriminate].
    assert (X2' : vle (g s2) (g s2')).
    { apply (fold_opt_inv (fun a => vle (g s2) (g a))
               (fun a d => if visited (get (g a) d) then Some a else update_node F Dm orig f a d true)
               ex s2 s2'); auto.
      - apply vle_refl.
      - intros a d a' _ Pa Ea. destruct (visited (get (g a) d)).
        + injection Ea as <-. exact Pa.
        + eapply vle_trans; [exact Pa|]. apply (IH a d true a' Ea). }
    remember (if existsb (fun d => changed (get (g s2') d)) (deps (get (g s) n) ++ ex) then run_update F s2' n ex else s2') as s3 eqn:Hs3.
    assert (X3 : vle (g s2') (g s3)).
    { rewrite Hs3. destruct (existsb _ _); [apply run_update_vle | apply vle_refl]. }
    remember (mark s3 n true true) as s4 eqn:Hs4.
    assert (X4 : vle (g s3) (g s4)) by (rewrite Hs4; apply mark_vle).
    assert (X04 : vle (g s) (g s4)).
    { eapply vle_trans; [exact X1|]. eapply vle_trans; [exact X2|]. eapply vle_trans; [exact X2'|]. eapply vle_trans; [exact X3|exact X4]. }
    assert (Fin : forall s5, vle (g s4) (g s5) -> vle (g s) (g s5) /\ (s5 = s \/ unvis (g s5) < unvis (g s))).
    { intros s5 X5. assert (X05 : vle (g s) (g s5)) by (eapply vle_trans; eauto).
      split; auto. right. apply (unvis_lt _ _ n); auto.
      apply X5. apply X4. apply X3. apply X2'. apply X2. exact V1. }
    destruct (changed (get (g s4) n)).
    2:{ injection E as <-. apply Fin. apply vle_refl. }
    destruct (b && negb orig).
    { injection E as <-. apply Fin. simpl. apply vle_refl. }
    apply Fin.
    apply (fold_opt_inv (fun a => vle (g s4) (g a)) (fun a m => update_node F Dm orig f a m false)
             (dependents (get (g s4) n)) s4 s'); auto.
    - apply vle_refl.
    - intros a m a' _ Pa Ea. eapply vle_trans; [exact Pa|]. apply (IH a m false a' Ea).
  Qed.

  (* (1) fuel sufficiency of update_node: more fuel than unvisited nodes is enough *)
  Theorem update_node_fuel : forall fuel s n b,
    unvis (g s) < fuel -> update_node F Dm orig fuel s n b <> None.
  Proof.
    induction fuel as [|f IH]; intros s n b Hf; [lia|].
    cbn [update_node].
    destruct (visited (get (g s) n)) eqn:Vn; [discriminate|].
    cbv zeta.
    remember (mark s n true false) as s1 eqn:Hs1.
    assert (X1 : vle (g s) (g s1)) by (rewrite Hs1; apply mark_vle).
    assert (V1 : visited (get (g s1) n) = true) by (rewrite Hs1; apply mark_visited).
    assert (U1 : unvis (g s1) < f).
    { pose proof (unvis_lt _ _ n X1 Vn V1). lia. }
    destruct (fold_opt_some (fun a => unvis (g a) < f)
                (fun a d => if visited (get (g a) d) then Some a else update_node F Dm orig f a d true)
                (deps (get (g s) n)) s1 U1) as (s2 & EB & U2).
    { intros a d _ Pa. destruct (visited (get (g a) d)); [exists a; auto|].
      destruct (update_node F Dm orig f a d true) as [a'|] eqn:Ea; [|exfalso; eapply IH; eauto].
      exists a'; split; auto. destruct (update_node_mono _ _ _ _ _ Ea) as [Xa _].
      pose proof (unvis_le _ _ Xa). lia. }
    rewrite EB.
    remember (Dm n (fires_of (g s2) (deps (get (g s) n)))) as ex eqn:Hex.
    destruct (fold_opt_some (fun a => unvis (g a) < f)
                (fun a d => if visited (get (g a) d) then Some a else update_node F Dm orig f a d true)
                ex s2 U2) as (s2' & EB' & U2').
    { intros a d _ Pa. destruct (visited (get (g a) d)); [exists a; auto|].
      destruct (update_node F Dm orig f a d true) as [a'|] eqn:Ea; [|exfalso; eapply IH; eauto].
      exists a'; split; auto. destruct (update_node_mono _ _ _ _ _ Ea) as [Xa _].
      pose proof (unvis_le _ _ Xa). lia. }
    rewrite EB'.
    remember (if existsb (fun d => changed (get (g s2') d)) (deps (get (g s) n) ++ ex) then run_update F s2' n ex else s2') as s3 eqn:Hs3.
    assert (X3 : vle (g s2') (g s3)).
    { rewrite Hs3. destruct (existsb _ _); [apply run_update_vle | apply vle_refl]. }
    remember (mark s3 n true true) as s4 eqn:Hs4.
    assert (X4 : vle (g s3) (g s4)) by (rewrite Hs4; apply mark_vle).
    assert (U4 : unvis (g s4) < f).
    { pose proof (unvis_le _ _ X3). pose proof (unvis_le _ _ X4). lia. }
    destruct (changed (get (g s4) n)); [|discriminate].
    destruct (b && negb orig); [discriminate|].
    destruct (fold_opt_some (fun a => unvis (g a) < f) (fun a m => update_node F Dm orig f a m false)
                (dependents (get (g s4) n)) s4 U4) as (s5 & EE & _).
    { intros a m _ Pa.
      destruct (update_node F Dm orig f a m false) as [a'|] eqn:Ea; [|exfalso; eapply IH; eauto].
      exists a'; split; auto. destruct (update_node_mono _ _ _ _ _ Ea) as [Xa _].
      pose proof (unvis_le _ _ Xa). lia. }
    rewrite EE. discriminate.
  Qed.

  Corollary update_node_fuel_length fuel s n b :
    length (g s) < fuel -> update_node F Dm orig fuel s n b <> None.
  Proof. intros H. apply update_node_fuel. pose proof (unvis_le_length (g s)). lia. Qed.

  Lemma drain_empty r fuel s : queue s = [] -> drain F Dm orig (S r) fuel s = Some s.
  Proof. intros Q. cbn [drain]. rewrite Q. reflexivity. Qed.

  (* (2) fuel sufficiency of the drain loop.  Every round but the last one marks at least one more
     node visited (otherwise nothing was appended to the queue), and the round after the last
     appending round only finds the queue empty: two rounds more than unvisited nodes are enough. *)
  Theorem drain_fuel : forall rounds fuel s,
    unvis (g s) + 2 <= rounds -> unvis (g s) < fuel -> drain F Dm orig rounds fuel s <> None.
  Proof.
    induction rounds as [|r IH]; intros fuel s Hr Hf; [lia|].
    cbn [drain]. destruct (queue s) as [|q0 qs] eqn:Q; [discriminate|]. rewrite <- Q.
    remember {| g := g s; queue := []; log := log s |} as s0 eqn:Hs0.
    assert (G0 : g s0 = g s) by (rewrite Hs0; reflexivity).
    destruct (fold_opt_some (fun a => unvis (g a) <= unvis (g s) /\ (queue a = [] \/ unvis (g a) < unvis (g s)))
                (fun a x => update_node F Dm orig fuel a x false) (queue s) s0) as (s1 & E1 & U1 & QU1).
    { rewrite G0. split; [lia|]. left. rewrite Hs0. reflexivity. }
    { intros a x _ [Ua Qa].
      destruct (update_node F Dm orig fuel a x false) as [a'|] eqn:Ea; [|exfalso; eapply update_node_fuel; [|exact Ea]; lia].
      exists a'; split; auto. destruct (update_node_mono _ _ _ _ _ Ea) as [_ [->|Lt]]; [split; auto|].
      split; [lia|]. right. lia. }
    rewrite E1. destruct QU1 as [Q1|Lt1].
    - destruct r as [|r']; [lia|]. rewrite drain_empty; auto. discriminate.
    - apply IH; lia.
  Qed.

  (* exactly the fuels that EngineScript.estep uses *)
  Corollary drain_fuel_estep s :
    drain F Dm orig (S (S (length (g s)))) (S (S (length (g s) + length (g s)))) s <> None.
  Proof. pose proof (unvis_le_length (g s)). apply drain_fuel; lia. Qed.
End Fuel.

Print Assumptions update_node_fuel.
Print Assumptions drain_fuel.
Print Assumptions drain_fuel_estep.
