(* The update log of Model/Engine.v (every execution of a node's update closure, newest first):
   for the repaired algorithm, on every ranked graph, every rule, every queue order and every
   order of the dependents lists, a drain runs the update of a node
     - at most once                                    (NoDup),
     - exactly when one of its dependencies changed     (iff),
     - after the updates of all its dependencies       (Ordered / Settled).
   The proofs re-use EngineSafe.update_node_safe as a black box for the graph invariants and add the
   log invariant LogOK on top of it. *)
From Coq Require Import List Arith Lia Bool.
Import ListNotations.
From Sodium Require Import Engine EngineScript EngineSafe EngineFuel.

Lemma existsb_ext_in {A} (f h : A -> bool) l : (forall x, In x l -> f x = h x) -> existsb f l = existsb h l.
Proof.
  induction l as [|x l IH]; simpl; intros H; auto.
  rewrite (H x (or_introl eq_refl)), IH; auto.
Qed.

(* one-step unfolding of update_node around the part that ends with the node marked done *)
Definition un_body {Val} (F : rule Val) (orig : bool) (f : nat) (s : st Val) (n : nat) : option (st Val) :=
  let s1 := mark s n true false in
  let ds := deps (get (g s) n) in
  match fold_left (fun acc d => match acc with None => None | Some a =>
                      if visited (get (g a) d) then Some a else update_node F orig f a d true end) ds (Some s1) with
  | None => None
  | Some s2 =>
    let s3 := if existsb (fun d => changed (get (g s2) d)) ds then run_update F s2 n else s2 in
    Some (mark s3 n true true)
  end.

Lemma update_node_unfold {Val} (F : rule Val) orig f s n b :
  update_node F orig (S f) s n b =
  if visited (get (g s) n) then Some s else
  match un_body F orig f s n with
  | None => None
  | Some s4 =>
    if changed (get (g s4) n) then
      if b && negb orig then Some {| g := g s4; queue := queue s4 ++ dependents (get (g s4) n); log := log s4 |}
      else fold_left (fun acc m => match acc with None => None | Some a => update_node F orig f a m false end)
                     (dependents (get (g s4) n)) (Some s4)
    else Some s4
  end.
Proof.
  unfold un_body. cbn [update_node]. destruct (visited (get (g s) n)); [reflexivity|].
  cbv zeta. destruct (fold_left _ _ _); reflexivity.
Qed.

Section Log.
  Context {Val : Type}.
  Variable F : rule Val.
  Variables D Dts : nat -> list nat.
  Variable rank : nat -> nat.
  Variable N : nat.
  Hypothesis rank_ok : forall n d, In d (D n) -> rank d < rank n.
  Hypothesis D_range : forall n d, In d (D n) -> d < N.
  Hypothesis Dts_range : forall n d, In d (Dts n) -> d < N.

  Local Notation Shape := (shape D Dts N).
  Local Notation Inv := (I F D N).
  Local Notation Ext := (ext D Dts N).
  Local Notation Pre := (pre rank N).
  Local Notation Safe := (update_node_safe F D Dts rank N rank_ok D_range Dts_range).

  (* some dependency of n has changed *)
  Definition chg (gr : graph Val) (n : nat) : bool := existsb (fun d => changed (get gr d)) (D n).
  (* newest-first log: nothing n depends on was updated after n *)
  Definition Ordered (l : list nat) := forall l1 n l2, l = l1 ++ n :: l2 -> forall d, In d (D n) -> ~ In d l1.
  Definition LogOK (s : st Val) :=
    NoDup (log s) /\ Ordered (log s) /\
    forall n, In n (log s) <-> (n < N /\ done (get (g s) n) = true /\ chg (g s) n = true).

  Lemma chg_eq gr gr' m : (forall d, In d (D m) -> get gr' d = get gr d) -> chg gr' m = chg gr m.
  Proof. intros H. unfold chg. apply existsb_ext_in. intros d Hd. rewrite H; auto. Qed.

  Lemma dep_neq_self n : forall d, In d (D n) -> d <> n.
  Proof. intros d Hd ->. apply rank_ok in Hd. lia. Qed.

  (* LogOK only looks at the log and at the done nodes *)
  Lemma LogOK_transfer a b :
    LogOK a -> log b = log a -> Inv (g a) ->
    (forall m, m < N -> done (get (g a) m) = true -> get (g b) m = get (g a) m) ->
    (forall m, m < N -> done (get (g b) m) = true -> done (get (g a) m) = true) ->
    LogOK b.
  Proof.
    intros (ND & Or & Iff) EL [I1 _] Keep Back. unfold LogOK. rewrite EL. split; auto. split; auto.
    intros n. rewrite Iff. split.
    - intros (Hn & Dn & Cn). destruct (I1 n Hn Dn) as (_ & Ds & _).
      split; auto. split; [rewrite Keep; auto|].
      rewrite <- Cn. apply chg_eq. intros d Hd. apply Keep; auto. eapply D_range; eauto.
    - intros (Hn & Dn & Cn). pose proof (Back n Hn Dn) as Dn'. destruct (I1 n Hn Dn') as (_ & Ds & _).
      split; auto. split; auto.
      rewrite <- Cn. symmetry. apply chg_eq. intros d Hd. apply Keep; auto. eapply D_range; eauto.
  Qed.

  (* step A of update_node: marking an undone node pending keeps the invariants *)
  Lemma mark_pending_get (s : st Val) n m :
    n < length (g s) ->
    get (g (mark s n true false)) m = if Nat.eqb n m then reflag (get (g s) n) true false else get (g s) m.
  Proof.
    intros L. rewrite mark_g. destruct (Nat.eqb_spec n m) as [->|Ne]; [rewrite get_set_same | rewrite get_set_other]; auto.
  Qed.

  Lemma I_mark_pending s n :
    n < N -> Shape (g s) -> Inv (g s) -> done (get (g s) n) = false ->
    Shape (g (mark s n true false)) /\ Inv (g (mark s n true false)).
  Proof.
    intros Hn [L S] Iv Dn_false.
    assert (Lg : n < length (g s)) by lia.
    assert (G1 : forall m, get (g (mark s n true false)) m = if Nat.eqb n m then reflag (get (g s) n) true false else get (g s) m)
      by (intros; apply mark_pending_get; auto).
    split.
    { rewrite mark_g. apply shape_set; [split; auto| auto | simpl; apply S; auto | simpl; apply S; auto]. }
    remember (mark s n true false) as s1 eqn:Hs1.
    destruct Iv as [I1 I2]. split.
    - intros m Hm Dm. rewrite G1 in Dm. destruct (Nat.eqb_spec n m) as [->|Ne]; [simpl in Dm; discriminate|].
      destruct (I1 m Hm Dm) as (V & Ds & C). rewrite G1. apply Nat.eqb_neq in Ne; rewrite Ne. split; auto.
      assert (Dsn : forall d, In d (D m) -> d <> n).
      { intros d Hd ->. specialize (Ds n Hd). congruence. }
      split.
      + intros d Hd. rewrite G1. destruct (Nat.eqb_spec n d) as [->|]; [exfalso; eapply Dsn; eauto|auto].
      + assert (Eq1 : forall l, (forall d, In d l -> d <> n) -> existsb (fun d => changed (get (g s1) d)) l = existsb (fun d => changed (get (g s) d)) l).
        { induction l as [|d l IHl]; simpl; auto. intros Hl. rewrite G1. destruct (Nat.eqb_spec n d) as [->|]; [exfalso; eapply Hl; simpl; eauto|].
          rewrite IHl; [reflexivity|]. intros; apply Hl; simpl; auto. }
        assert (Eq2 : forall l, (forall d, In d l -> d <> n) -> map (fun d => fire (get (g s1) d)) l = map (fun d => fire (get (g s) d)) l).
        { induction l as [|d l IHl]; simpl; auto. intros Hl. rewrite G1. destruct (Nat.eqb_spec n d) as [->|]; [exfalso; eapply Hl; simpl; eauto|].
          rewrite IHl; [reflexivity|]. intros; apply Hl; simpl; auto. }
        assert (Gm : get (g s1) m = get (g s) m) by (rewrite G1, Ne; auto).
        unfold cons in *. intros NE. specialize (C NE).
        rewrite (Eq1 (D m) Dsn), (Eq2 (D m) Dsn), Gm. exact C.
    - intros m Hm Dm NE. rewrite G1 in *. destruct (Nat.eqb_spec n m) as [->|Ne]; simpl.
      + apply (I2 m Hm Dn_false NE).
      + apply (I2 m Hm Dm NE).
  Qed.

  (* step D of update_node: running the update (if some dependency changed) and marking the node done *)
  Lemma LogOK_finish s2 n s3 s4 :
    n < N -> Shape (g s2) -> Inv (g s2) -> LogOK s2 -> done (get (g s2) n) = false ->
    s3 = (if chg (g s2) n then run_update F s2 n else s2) -> s4 = mark s3 n true true ->
    LogOK s4.
  Proof.
    intros Hn [L2 S2] [I1 _] (ND & Or & Iff) Dn Hs3 Hs4.
    assert (Lg : n < length (g s2)) by lia.
    assert (G3 : forall m, m <> n -> get (g s3) m = get (g s2) m).
    { intros m Ne. rewrite Hs3. destruct (chg _ _); auto. unfold run_update; simpl. rewrite get_set_other; auto. }
    assert (L3 : length (g s3) = N).
    { rewrite Hs3. destruct (chg _ _); auto. unfold run_update; simpl. rewrite set_length; auto. }
    assert (G4 : forall m, m <> n -> get (g s4) m = get (g s2) m).
    { intros m Ne. rewrite Hs4, mark_g, get_set_other; auto. }
    assert (G4n : done (get (g s4) n) = true).
    { rewrite Hs4, mark_g, get_set_same by lia. reflexivity. }
    assert (L4 : log s4 = if chg (g s2) n then n :: log s2 else log s2).
    { rewrite Hs4. unfold mark; simpl. rewrite Hs3. destruct (chg _ _); reflexivity. }
    assert (Nin : ~ In n (log s2)).
    { intros H. apply Iff in H as (_ & Dn' & _). congruence. }
    assert (DoneDeps : forall m, m < N -> done (get (g s2) m) = true -> forall d, In d (D m) -> d <> n).
    { intros m Hm Dm d Hd ->. destruct (I1 m Hm Dm) as (_ & Ds & _). specialize (Ds n Hd). congruence. }
    assert (C4n : chg (g s4) n = chg (g s2) n).
    { apply chg_eq. intros d Hd. apply G4. apply (dep_neq_self n); auto. }
    assert (C4m : forall m, m < N -> done (get (g s2) m) = true -> chg (g s4) m = chg (g s2) m).
    { intros m Hm Dm. apply chg_eq. intros d Hd. apply G4. eapply DoneDeps; eauto. }
    assert (IffTail : forall m, m <> n -> (In m (log s2) <-> m < N /\ done (get (g s4) m) = true /\ chg (g s4) m = true)).
    { intros m Ne. rewrite Iff, G4 by auto. split; intros (Hm & Dm & Cm); (split; [auto|split; [auto|]]).
      - rewrite C4m; auto.
      - rewrite <- C4m; auto. }
    unfold LogOK. rewrite L4. destruct (chg (g s2) n) eqn:Cn.
    - split; [constructor; auto|]. split.
      + intros l1 k l2 El d Hd Hin. destruct l1 as [|y l1']; [contradiction|].
        simpl in El. injection El as <- El.
        assert (Hk : In k (log s2)) by (rewrite El; apply in_or_app; right; left; reflexivity).
        apply Iff in Hk as (Hk & Dk & _).
        destruct Hin as [<-|Hin]; [eapply DoneDeps; eauto|]. eapply Or; eauto.
      + intros m. destruct (Nat.eq_dec m n) as [->|Ne].
        * split; [intros _; split; auto; split; auto; congruence | intros _; left; reflexivity].
        * rewrite <- IffTail by auto. simpl. split; [intros [C|H]; [congruence|auto] | auto].
    - split; auto. split; auto. intros m. destruct (Nat.eq_dec m n) as [->|Ne].
      + split; [intros H; contradiction | intros (_ & _ & C); congruence].
      + apply IffTail; auto.
  Qed.

  (* pending nodes after the mark are n itself or were pending before *)
  Lemma pend_mark (s : st Val) n p : n < length (g s) -> pend (g (mark s n true false)) p -> p = n \/ pend (g s) p.
  Proof.
    intros L [A B]. rewrite mark_pending_get in A, B by auto. destruct (Nat.eqb_spec n p); auto. right; split; auto.
  Qed.

  Theorem update_node_log : forall fuel s n as_dep s',
    n < N -> Shape (g s) -> Inv (g s) -> Pre (g s) n as_dep -> LogOK s ->
    update_node F false fuel s n as_dep = Some s' -> LogOK s'.
  Proof.
    induction fuel as [|f IH]; intros s n as_dep s' Hn Sh Iv Pr LK E; [discriminate|].
    assert (PrT : Pre (g s) n true).
    { destruct as_dep; [exact Pr|]. simpl in *. intros p Hp Pp. exfalso. eapply Pr; eauto. }
    pose proof (Safe (S f) s n true) as Black.
    rewrite update_node_unfold in E, Black.
    destruct (visited (get (g s) n)) eqn:Vn.
    { injection E as <-. exact LK. }
    destruct (un_body F false f s n) as [s4|] eqn:EB4; [|discriminate].
    (* the graph invariants of s4, from the safety theorem used on the as-dependency variant of this call *)
    assert (Black4 : Inv (g s4) /\ Ext (g s) (g s4)).
    { destruct (changed (get (g s4) n)); simpl in Black.
      - destruct (Black _ Hn Sh Iv PrT eq_refl) as (A & B & _). simpl in A, B. auto.
      - destruct (Black _ Hn Sh Iv PrT eq_refl) as (A & B & _). auto. }
    clear Black. destruct Black4 as [Iv4 X04]. pose proof X04 as (S4 & _ & _ & _ & Q04 & _ & _).
    (* the log invariant of s4 *)
    assert (LK4 : LogOK s4).
    { unfold un_body in EB4. cbv zeta in EB4.
      assert (Dn_false : done (get (g s) n) = false).
      { destruct (done (get (g s) n)) eqn:Dx; auto. destruct Iv as [I1 _]. destruct (I1 n Hn Dx) as [V _]. congruence. }
      pose proof Sh as [L Sd].
      assert (Lg : n < length (g s)) by lia.
      assert (Dx : deps (get (g s) n) = D n) by (apply Sd; auto).
      rewrite Dx in EB4.
      destruct (I_mark_pending s n Hn Sh Iv Dn_false) as [S1 Iv1].
      assert (P1 : forall p, pend (g (mark s n true false)) p -> p = n \/ pend (g s) p) by (intros p; apply pend_mark; auto).
      assert (Gn1 : get (g (mark s n true false)) n = reflag (get (g s) n) true false).
      { rewrite mark_pending_get, Nat.eqb_refl; auto. }
      assert (LK1 : LogOK (mark s n true false)).
      { apply (LogOK_transfer s); auto.
        - intros m Hm Dm. rewrite mark_pending_get by auto. destruct (Nat.eqb_spec n m) as [->|]; [congruence|auto].
        - intros m Hm Dm. rewrite mark_pending_get in Dm by auto. destruct (Nat.eqb_spec n m) as [->|]; [simpl in Dm; discriminate|auto]. }
      remember (mark s n true false) as s1 eqn:Hs1.
      match type of EB4 with match ?T with _ => _ end = _ => destruct T as [s2|] eqn:EB end; [|discriminate].
      pose (P := fun a : st Val => Shape (g a) /\ Inv (g a) /\ Ext (g s1) (g a) /\ LogOK a).
      pose (fB := fun (a : st Val) (d : nat) => if visited (get (g a) d) then Some a else update_node F false f a d true).
      assert (PreB : forall a d, In d (D n) -> P a -> Pre (g a) d true).
      { intros a d Hd (Sa & Ia & (_ & _ & _ & _ & Qa & _ & _) & _) p Hp Pp.
        destruct (P1 p (Qa p Hp Pp)) as [->|Ps]; [apply rank_ok; auto|].
        destruct as_dep; simpl in Pr.
        - specialize (Pr p Hp Ps). apply rank_ok in Hd. lia.
        - exfalso. eapply Pr; eauto. }
      assert (P2 : P s2).
      { apply (fold_opt_inv P fB (D n) s1 s2); auto.
        - split; [|split; [|split]]; auto. apply ext_refl; auto.
        - intros a d a' Hd Pa Ea. unfold fB in Ea. destruct (visited (get (g a) d)) eqn:Vd.
          + injection Ea as <-. exact Pa.
          + pose proof Pa as (Sa & Ia & Xa & La).
            destruct (Safe f a d true a' (D_range _ _ Hd) Sa Ia (PreB a d Hd Pa) Ea) as (Ia' & Xa' & _).
            split; [apply Xa'|]. split; auto. split; [eapply ext_trans; eauto|].
            apply (IH a d true a' (D_range _ _ Hd) Sa Ia (PreB a d Hd Pa) La Ea). }
      destruct P2 as (S2 & Iv2 & X12 & LK2).
      destruct X12 as (_ & _ & _ & K12 & _).
      assert (Gn2 : get (g s2) n = reflag (get (g s) n) true false).
      { rewrite K12; auto. split; rewrite Gn1; reflexivity. }
      injection EB4 as EB4.
      eapply (LogOK_finish s2 n _ s4 Hn S2 Iv2 LK2); [rewrite Gn2; reflexivity | reflexivity | symmetry; exact EB4]. }
    destruct (changed (get (g s4) n)) eqn:Cn4.
    2:{ injection E as <-. exact LK4. }
    destruct as_dep; simpl in E.
    { injection E as <-. exact LK4. }
    assert (Dt4 : dependents (get (g s4) n) = Dts n) by (apply S4; auto).
    rewrite Dt4 in E.
    pose (PE := fun a : st Val => Shape (g a) /\ Inv (g a) /\ Ext (g s4) (g a) /\ LogOK a).
    assert (PreE : forall a m, PE a -> Pre (g a) m false).
    { intros a m (_ & _ & (_ & _ & _ & _ & Qa & _ & _) & _) p Hp Pp. simpl in Pr. eapply Pr; eauto. }
    assert (PE' : PE s').
    { apply (fold_opt_inv PE (fun a m => update_node F false f a m false) (Dts n) s4 s'); auto.
      - split; [|split; [|split]]; auto. apply ext_refl; auto.
      - intros a m a' Hm Pa Ea. pose proof Pa as (Sa & Ia & Xa & La).
        destruct (Safe f a m false a' (Dts_range _ _ Hm) Sa Ia (PreE a m Pa) Ea) as (Ia' & Xa' & _).
        split; [apply Xa'|]. split; auto. split; [eapply ext_trans; eauto|].
        apply (IH a m false a' (Dts_range _ _ Hm) Sa Ia (PreE a m Pa) La Ea). }
    apply PE'.
  Qed.

  (* ---------------- the drain loop ---------------- *)
  Definition Walkable (s : st Val) := Shape (g s) /\ Inv (g s) /\ NoPend N (g s).

  Lemma drain_log : forall rounds fuel s s',
    Walkable s -> LogOK s -> drain F false rounds fuel s = Some s' -> LogOK s'.
  Proof.
    induction rounds as [|r IHr]; intros fuel s s' Ws LK E; [discriminate|].
    cbn [drain] in E. destruct (queue s) as [|q0 qs] eqn:Q.
    { injection E as <-. exact LK. }
    rewrite <- Q in E.
    match type of E with match ?T with _ => _ end = _ => destruct T as [s1|] eqn:EF end; [|discriminate].
    remember {| g := g s; queue := []; log := log s |} as s0 eqn:Hs0.
    assert (P1 : Walkable s1 /\ LogOK s1).
    { apply (fold_opt_inv (fun a => Walkable a /\ LogOK a) (fun a x => update_node F false fuel a x false) (queue s) s0 s1); auto.
      - rewrite Hs0. split; [exact Ws | exact LK].
      - intros a x a' _ [(Sa & Ia & NPa) La] Ea.
        destruct (lt_dec x N) as [HxN|HxN].
        2:{ pose proof (update_node_out_of_range _ _ _ _ _ _ _ _ _ Sa HxN Ea); subst a'. split; [split|]; auto. }
        assert (Pr : Pre (g a) x false) by (intros p Hp; apply NPa; auto).
        destruct (Safe fuel a x false a' HxN Sa Ia Pr Ea) as (Ia' & Xa' & _).
        split; [split; [apply Xa'|split; auto]|].
        + intros p Hp Pp. destruct Xa' as (_ & _ & _ & _ & Qp & _ & _). apply (NPa p Hp). apply Qp; auto.
        + apply (update_node_log fuel a x false a' HxN Sa Ia Pr La Ea). }
    destruct P1 as [W1 LK1]. apply (IHr fuel s1 s'); auto.
  Qed.

  (* oldest-first log (what EngineScript.estep reports): the dependencies of n that were updated at
     all were updated before n *)
  Definition Settled (lg : list nat) := forall l1 n l2, lg = l1 ++ n :: l2 -> forall d, In d (D n) -> ~ In d l2.

  Lemma Ordered_Settled l : Ordered l -> Settled (rev l).
  Proof.
    intros Or l1 n l2 E d Hd Hin.
    assert (El : l = rev l2 ++ n :: rev l1).
    { rewrite <- (rev_involutive l), E. rewrite rev_app_distr. simpl. rewrite <- app_assoc. reflexivity. }
    apply (Or _ _ _ El d Hd). rewrite <- in_rev. exact Hin.
  Qed.

  Hypothesis Dts_complete : forall n d, n < N -> In d (D n) -> In n (Dts d).

  (* (3) the update closure of a node runs at most once, exactly when a dependency changed, and
     only after the updates of its dependencies *)
  Theorem drain_log_spec rounds fuel s s' :
    Good F D Dts N s -> log s = [] -> (forall n, n < N -> done (get (g s) n) = false) ->
    drain F false rounds fuel s = Some s' ->
    NoDup (log s') /\
    (forall n, In n (log s') <->
               (n < N /\ D n <> [] /\ exists d, In d (D n) /\ changed (get (g s') d) = true)) /\
    Ordered (log s') /\ Settled (rev (log s')).
  Proof.
    intros Gd L0 ND E.
    assert (LK0 : LogOK s).
    { unfold LogOK. rewrite L0. split; [constructor|]. split.
      - intros l1 n l2 El. destruct l1; discriminate.
      - intros n. split; [intros []|]. intros (Hn & Dn & _). rewrite ND in Dn; auto. discriminate. }
    assert (Ws : Walkable s) by (destruct Gd as (A & B & C & _); split; auto).
    pose proof (drain_log rounds fuel s s' Ws LK0 E) as (NDl & Or & Iff).
    destruct (drain_good F D Dts rank N rank_ok D_range Dts_range rounds fuel s s' Gd E) as ((S' & (I1 & I2) & NP & C & SQ) & Q' & _).
    split; auto. split; [|split; [exact Or | apply Ordered_Settled; exact Or]].
    intros n. rewrite Iff. split.
    - intros (Hn & Dn & Cn). split; auto. unfold chg in Cn. apply existsb_exists in Cn as (d & Hd & Cd).
      split; [intros Z; rewrite Z in Hd; contradiction | exists d; auto].
    - intros (Hn & _ & d & Hd & Cd). split; auto.
      assert (Cn : chg (g s') n = true) by (unfold chg; apply existsb_exists; exists d; auto).
      split; auto.
      destruct (done (get (g s') n)) eqn:Dn; auto. exfalso.
      pose proof (D_range _ _ Hd) as Hdn.
      assert (Vn : visited (get (g s') n) = false).
      { destruct (visited (get (g s') n)) eqn:Vn; auto. exfalso. apply (NP n Hn). split; auto. }
      destruct (done (get (g s') d)) eqn:Dd.
      + assert (Hm : In n (Dts d)) by (apply Dts_complete; auto).
        destruct (C d Hdn Dd Cd n Hm) as [V|Qn]; [congruence | rewrite Q' in Qn; inversion Qn].
      + destruct (visited (get (g s') d)) eqn:Vd; [apply (NP d Hdn); split; auto|].
        pose proof (SQ d Hdn Cd Vd) as Qd. rewrite Q' in Qd. inversion Qd.
  Qed.
End Log.

Print Assumptions update_node_log.
Print Assumptions drain_log_spec.
