(* The update log of Model/Engine.v (every execution of a node's update closure, newest first):
   for the repaired algorithm, on every ranked graph, every rule, every demand function, every queue
   order and every order of the dependents lists, a drain runs the update of a node
     - at most once                                                          (NoDup),
     - exactly when one of its static dependencies or demanded nodes changed (iff),
     - after the updates of all its static dependencies and demanded nodes   (Ordered / Settled).
   The proofs re-use EngineSafe.update_node_safe as a black box for the graph invariants and add the
   log invariant LogOK on top of it. *)
From Coq Require Import List Arith Lia Bool.
Import ListNotations.
From Sodium Require Import Engine EngineScript EngineSafe EngineFuel.

(* one-step unfolding of update_node around the part that ends with the node marked done *)
Definition un_body {Val} (F : rule Val) (Dm : demand Val) (orig : bool) (f : nat) (s : st Val) (n : nat) : option (st Val) :=
  let s1 := mark s n true false in
  let ds := deps (get (g s) n) in
  match fold_left (fun acc d => match acc with None => None | Some a =>
                      if visited (get (g a) d) then Some a else update_node F Dm orig f a d true end) ds (Some s1) with
  | None => None
  | Some s2 =>
    let ex := Dm n (fires_of (g s2) ds) in
    match fold_left (fun acc d => match acc with None => None | Some a =>
                        if visited (get (g a) d) then Some a else update_node F Dm orig f a d true end) ex (Some s2) with
    | None => None
    | Some s2' =>
      let s3 := if existsb (fun d => changed (get (g s2') d)) (ds ++ ex) then run_update F s2' n ex else s2' in
      Some (mark s3 n true true)
    end
  end.

Lemma update_node_unfold {Val} (F : rule Val) (Dm : demand Val) orig f s n b :
  update_node F Dm orig (S f) s n b =
  if visited (get (g s) n) then Some s else
  match un_body F Dm orig f s n with
  | None => None
  | Some s4 =>
    if changed (get (g s4) n) then
      if b && negb orig then Some {| g := g s4; queue := queue s4 ++ dependents (get (g s4) n); log := log s4 |}
      else fold_left (fun acc m => match acc with None => None | Some a => update_node F Dm orig f a m false end)
                     (dependents (get (g s4) n)) (Some s4)
    else Some s4
  end.
Proof.
  unfold un_body. cbn [update_node]. destruct (visited (get (g s) n)); [reflexivity|].
  cbv zeta. destruct (fold_left _ (deps (get (g s) n)) _) as [s2|]; [|reflexivity].
  destruct (fold_left _ (Dm n (fires_of (g s2) (deps (get (g s) n)))) _); reflexivity.
Qed.

Section Log.
  Context {Val : Type}.
  Variable F : rule Val.
  Variable Dm : demand Val.
  Variables D Dem Dts : nat -> list nat.
  Variable rank : nat -> nat.
  Variable N : nat.
  Variable den : nat -> option Val.
  Hypothesis rank_ok : forall n d, In d (D n ++ Dem n) -> rank d < rank n.
  Hypothesis D_range : forall n d, In d (D n) -> d < N.
  Hypothesis Dem_range : forall n d, In d (Dem n) -> d < N.
  Hypothesis Dts_range : forall n d, In d (Dts n) -> d < N.
  Hypothesis den_eq : forall n, n < N -> D n <> [] ->
    den n = (if existsb is_some (map den (D n ++ Dm n (map den (D n))))
             then F n (map den (D n)) (map den (Dm n (map den (D n)))) else None).
  Hypothesis Dm_den : forall n, n < N -> incl (Dm n (map den (D n))) (Dem n).
  Hypothesis Dm_quiet : forall n ins, existsb is_some ins = false -> Dm n ins = [].

  Local Notation Shape := (shape D Dts N).
  Local Notation Inv := (I F Dm D N).
  Local Notation Ext := (ext D Dts N).
  Local Notation Pre := (pre rank N).
  Local Notation Src := (SrcOK D N den).
  Local Notation Inp := (inp Dm D).
  Local Notation Exs := (exs_of Dm D).
  Local Notation Safe := (update_node_safe F Dm D Dem Dts rank N den rank_ok D_range Dem_range Dts_range den_eq Dm_den Dm_quiet).
  Local Notation DemSol := (demands_at_solution F Dm D Dem rank N den rank_ok D_range Dem_range den_eq Dm_den).

  (* some static dependency or demanded node of n has changed *)
  Definition chg (gr : graph Val) (n : nat) : bool := chgd gr (Inp gr n).
  (* newest-first log: nothing n reads was updated after n *)
  Definition Ordered (gr : graph Val) (l : list nat) :=
    forall l1 n l2, l = l1 ++ n :: l2 -> forall d, In d (Inp gr n) -> ~ In d l1.
  Definition LogOK (s : st Val) :=
    NoDup (log s) /\ Ordered (g s) (log s) /\
    forall n, In n (log s) <-> (n < N /\ done (get (g s) n) = true /\ chg (g s) n = true).

  Lemma chg_eq gr gr' m : (forall d, In d (Inp gr m) -> get gr' d = get gr d) -> chg gr' m = chg gr m.
  Proof.
    intros H. unfold chg.
    rewrite (inp_eq Dm D gr gr' m) by (intros d Hd; apply H; apply in_inp_l; exact Hd).
    apply chgd_eq. exact H.
  Qed.

  Lemma dep_neq_self n : forall d, In d (D n) -> d <> n.
  Proof. intros d Hd ->. assert (rank n < rank n); [|lia]. apply rank_ok. apply in_or_app; auto. Qed.

  (* the inputs of a done node are done: they are not node n if n is not done *)
  Lemma done_inputs_neq gr m n : Inv gr -> m < N -> done (get gr m) = true -> done (get gr n) = false ->
    forall d, In d (Inp gr m) -> d <> n.
  Proof. intros [I1 _] Hm Dm0 Dn d Hd ->. destruct (I1 m Hm Dm0) as (_ & Ds & _). specialize (Ds n Hd). congruence. Qed.

  (* LogOK only looks at the log and at the done nodes *)
  Lemma LogOK_transfer a b :
    LogOK a -> log b = log a -> Inv (g a) ->
    (forall m, done (get (g a) m) = true -> get (g b) m = get (g a) m) ->
    (forall m, m < N -> done (get (g b) m) = true -> done (get (g a) m) = true) ->
    LogOK b.
  Proof.
    intros (ND & Or & Iff) EL Iv Keep Back. pose proof Iv as [I1 _]. unfold LogOK. rewrite EL.
    assert (KeepIn : forall m, m < N -> done (get (g a) m) = true -> forall d, In d (Inp (g a) m) -> get (g b) d = get (g a) d).
    { intros m Hm Dm0 d Hd. destruct (I1 m Hm Dm0) as (_ & Ds & _). apply Keep. apply Ds; exact Hd. }
    split; auto. split.
    - intros l1 n l2 El d Hd.
      assert (Hin : In n (log a)) by (rewrite El; apply in_or_app; right; left; reflexivity).
      apply Iff in Hin as (Hn & Dn & _).
      rewrite (inp_eq Dm D (g a) (g b) n) in Hd by (intros d' Hd'; apply (KeepIn n Hn Dn); apply in_inp_l; exact Hd').
      eapply Or; eauto.
    - intros n. rewrite Iff. split.
      + intros (Hn & Dn & Cn). split; auto. split; [rewrite Keep; auto|].
        rewrite <- Cn. apply chg_eq. apply KeepIn; auto.
      + intros (Hn & Dn & Cn). pose proof (Back n Hn Dn) as Dn'.
        split; auto. split; auto.
        rewrite <- Cn. symmetry. apply chg_eq. apply KeepIn; auto.
  Qed.

  (* step D of update_node: running the update (if some input changed) and marking the node done *)
  Lemma LogOK_finish s2 n ex s3 s4 :
    n < N -> Shape (g s2) -> Inv (g s2) -> LogOK s2 -> done (get (g s2) n) = false ->
    ex = Exs (g s2) n -> (forall d, In d (Inp (g s2) n) -> d <> n) ->
    s3 = (if existsb (fun d => changed (get (g s2) d)) (D n ++ ex) then run_update F s2 n ex else s2) -> s4 = mark s3 n true true ->
    LogOK s4.
  Proof.
    intros Hn [L2 S2] Iv (ND & Or & Iff) Dn Hex Nn Hs3 Hs4. pose proof Iv as [I1 _].
    assert (Lg : n < length (g s2)) by lia.
    assert (Ec : existsb (fun d => changed (get (g s2) d)) (D n ++ ex) = chg (g s2) n).
    { unfold chg, chgd, inp. rewrite <- Hex. reflexivity. }
    rewrite Ec in Hs3.
    assert (G3 : forall m, m <> n -> get (g s3) m = get (g s2) m).
    { intros m Ne. rewrite Hs3. destruct (chg _ _); auto. unfold run_update; simpl. rewrite get_set_other; auto. }
    assert (L3 : length (g s3) = N).
    { rewrite Hs3. destruct (chg _ _); auto. unfold run_update; simpl. rewrite set_length; auto. }
    assert (G4 : forall m, m <> n -> get (g s4) m = get (g s2) m).
    { intros m Ne. rewrite Hs4, mark_g, get_set_other; auto. }
    assert (G4n : done (get (g s4) n) = true).
    { rewrite Hs4, mark_g, get_set_same by lia. reflexivity. }
    assert (L4 : log s4 = if chg (g s2) n then n :: log s2 else log s2).
    { rewrite Hs4. unfold mark; simpl. rewrite Hs3. destruct (chg _ _); reflexivity. }
    assert (Nin : ~ In n (log s2)).
    { intros H. apply Iff in H as (_ & Dn' & _). congruence. }
    assert (DoneDeps : forall m, m < N -> done (get (g s2) m) = true -> forall d, In d (Inp (g s2) m) -> d <> n).
    { intros m Hm Dm0. apply (done_inputs_neq (g s2) m n Iv Hm Dm0 Dn). }
    assert (C4n : chg (g s4) n = chg (g s2) n).
    { apply chg_eq. intros d Hd. apply G4. apply Nn; exact Hd. }
    assert (C4m : forall m, m < N -> done (get (g s2) m) = true -> chg (g s4) m = chg (g s2) m).
    { intros m Hm Dm0. apply chg_eq. intros d Hd. apply G4. eapply DoneDeps; eauto. }
    assert (In4m : forall m, m < N -> done (get (g s2) m) = true -> Inp (g s4) m = Inp (g s2) m).
    { intros m Hm Dm0. apply inp_eq. intros d Hd. apply G4. apply (DoneDeps m Hm Dm0). apply in_inp_l; exact Hd. }
    assert (IffTail : forall m, m <> n -> (In m (log s2) <-> m < N /\ done (get (g s4) m) = true /\ chg (g s4) m = true)).
    { intros m Ne. rewrite Iff, G4 by auto. split; intros (Hm & Dm0 & Cm); (split; [auto|split; [auto|]]).
      - rewrite C4m; auto.
      - rewrite <- C4m; auto. }
    assert (OrTail : forall l1 k l2, log s2 = l1 ++ k :: l2 -> forall d, In d (Inp (g s4) k) -> ~ In d l1 /\ d <> n).
    { intros l1 k l2 El d Hd.
      assert (Hk : In k (log s2)) by (rewrite El; apply in_or_app; right; left; reflexivity).
      apply Iff in Hk as (Hk & Dk & _). rewrite (In4m k Hk Dk) in Hd.
      split; [eapply Or; eauto | eapply DoneDeps; eauto]. }
    unfold LogOK. rewrite L4. destruct (chg (g s2) n) eqn:Cn.
    - split; [constructor; auto|]. split.
      + intros l1 k l2 El d Hd Hin. destruct l1 as [|y l1']; [contradiction|].
        simpl in El. injection El as <- El.
        destruct (OrTail l1' k l2 El d Hd) as [A B].
        destruct Hin as [<-|Hin]; [apply B; reflexivity | apply A; exact Hin].
      + intros m. destruct (Nat.eq_dec m n) as [->|Ne].
        * split; [intros _; split; auto; split; auto; congruence | intros _; left; reflexivity].
        * rewrite <- IffTail by auto. simpl. split; [intros [C|H]; [congruence|auto] | auto].
    - split; auto. split.
      + intros l1 k l2 El d Hd. apply (OrTail l1 k l2 El d Hd).
      + intros m. destruct (Nat.eq_dec m n) as [->|Ne].
        * split; [intros H; contradiction | intros (_ & _ & C); congruence].
        * apply IffTail; auto.
  Qed.

  (* pending nodes after the mark are n itself or were pending before *)
  Lemma pend_mark (s : st Val) n p : n < length (g s) -> pend (g (mark s n true false)) p -> p = n \/ pend (g s) p.
  Proof.
    intros L [A B]. rewrite mark_pending_get in A, B by auto. destruct (Nat.eqb_spec n p); auto. right; split; auto.
  Qed.

  Theorem update_node_log : forall fuel s n as_dep s',
    n < N -> Shape (g s) -> Inv (g s) -> Src (g s) -> Pre (g s) n as_dep -> LogOK s ->
    update_node F Dm false fuel s n as_dep = Some s' -> LogOK s'.
  Proof.
    induction fuel as [|f IH]; intros s n as_dep s' Hn Sh Iv Sr Pr LK E; [discriminate|].
    assert (PrT : Pre (g s) n true).
    { destruct as_dep; [exact Pr|]. simpl in *. intros p Hp Pp. exfalso. eapply Pr; eauto. }
    pose proof (Safe (S f) s n true) as Black.
    rewrite update_node_unfold in E, Black.
    destruct (visited (get (g s) n)) eqn:Vn.
    { injection E as <-. exact LK. }
    destruct (un_body F Dm false f s n) as [s4|] eqn:EB4; [|discriminate].
    (* the graph invariants of s4, from the safety theorem used on the as-dependency variant of this call *)
    assert (Black4 : Inv (g s4) /\ Ext (g s) (g s4)).
    { destruct (changed (get (g s4) n)); simpl in Black.
      - destruct (Black _ Hn Sh Iv Sr PrT eq_refl) as (A & B & _). simpl in A, B. auto.
      - destruct (Black _ Hn Sh Iv Sr PrT eq_refl) as (A & B & _). auto. }
    clear Black. destruct Black4 as [Iv4 X04]. pose proof X04 as (S4 & _ & _ & _ & Q04 & _ & _).
    (* the log invariant of s4 *)
    assert (LK4 : LogOK s4).
    { unfold un_body in EB4. cbv zeta in EB4.
      assert (Dn_false : done (get (g s) n) = false).
      { destruct (done (get (g s) n)) eqn:Dx; auto. destruct Iv as [I1 _]. destruct (I1 n Hn Dx) as [V _]. congruence. }
      pose proof Sh as [L Sd].
      assert (Lg : n < length (g s)) by lia.
      assert (Dx : deps (get (g s) n) = D n) by (apply Sd; auto).
      rewrite Dx in EB4.
      destruct (I_mark_pending F Dm D Dts N s n Hn Sh Iv Dn_false) as [S1 Iv1].
      assert (P1 : forall p, pend (g (mark s n true false)) p -> p = n \/ pend (g s) p) by (intros p; apply pend_mark; auto).
      assert (Gn1 : get (g (mark s n true false)) n = reflag (get (g s) n) true false).
      { rewrite mark_pending_get, Nat.eqb_refl; auto. }
      assert (Sr1 : Src (g (mark s n true false))).
      { intros m Hm Dm0. rewrite mark_pending_get by auto. destruct (Nat.eqb_spec n m) as [->|Ne]; [simpl; apply Sr; auto | apply Sr; auto]. }
      assert (LK1 : LogOK (mark s n true false)).
      { apply (LogOK_transfer s); auto.
        - intros m Dm0. rewrite mark_pending_get by auto. destruct (Nat.eqb_spec n m) as [->|]; [congruence|auto].
        - intros m Hm Dm0. rewrite mark_pending_get in Dm0 by auto. destruct (Nat.eqb_spec n m) as [->|]; [simpl in Dm0; discriminate|auto]. }
      remember (mark s n true false) as s1 eqn:Hs1.
      (* every node pending in a state reached from s1 outranks the nodes of rank below n *)
      assert (HpB : forall a0, Ext (g s1) (g a0) -> forall p d, p < N -> pend (g a0) p -> rank d < rank n -> rank d < rank p).
      { intros a0 (_ & _ & _ & _ & Q10 & _ & _) p d Hp Pp Rd.
        destruct (P1 p (Q10 p Hp Pp)) as [->|Ps]; [exact Rd|].
        destruct as_dep; simpl in Pr.
        - specialize (Pr p Hp Ps). lia.
        - exfalso. eapply Pr; eauto. }
      (* the log invariant along a visit of lower-ranked nodes *)
      assert (VisitLog : forall l a0 r, (forall d, In d l -> rank d < rank n /\ d < N) ->
                Shape (g a0) -> Inv (g a0) -> Ext (g s1) (g a0) -> LogOK a0 ->
                visit_deps F Dm f l a0 = Some r -> LogOK r).
      { intros l a0 r Hl Sa0 Ia0 X10 LK0 Er. unfold visit_deps in Er.
        pose (P := fun a : st Val => Shape (g a) /\ Inv (g a) /\ Ext (g a0) (g a) /\ LogOK a).
        pose (fB := fun (a : st Val) (d : nat) => if visited (get (g a) d) then Some a else update_node F Dm false f a d true).
        assert (X1a : forall a, P a -> Ext (g s1) (g a)).
        { intros a (_ & _ & Xa & _). eapply ext_trans; eauto. }
        assert (PreB : forall a d, In d l -> P a -> Pre (g a) d true).
        { intros a d Hd Pa p Hp Pp. apply (HpB a (X1a a Pa) p d Hp Pp). apply (Hl d Hd). }
        assert (SrB : forall a, P a -> Src (g a)).
        { intros a Pa. apply (SrcOK_ext D Dts N den (g s1)); auto. }
        assert (P2 : P r).
        { apply (fold_opt_inv P fB l a0 r); auto.
          - split; [|split; [|split]]; auto. apply ext_refl; auto.
          - intros a d a' Hd Pa Ea. unfold fB in Ea. destruct (visited (get (g a) d)) eqn:Vd.
            + injection Ea as <-. exact Pa.
            + pose proof Pa as (Sa & Ia & Xa & La).
              destruct (Safe f a d true a' (proj2 (Hl d Hd)) Sa Ia (SrB a Pa) (PreB a d Hd Pa) Ea) as (Ia' & Xa' & _).
              split; [apply Xa'|]. split; auto. split; [eapply ext_trans; eauto|].
              apply (IH a d true a' (proj2 (Hl d Hd)) Sa Ia (SrB a Pa) (PreB a d Hd Pa) La Ea). }
        apply P2. }
      assert (VisitG : forall l a0 r, (forall d, In d l -> rank d < rank n /\ d < N) ->
                Shape (g a0) -> Inv (g a0) -> Ext (g s1) (g a0) ->
                visit_deps F Dm f l a0 = Some r ->
                Shape (g r) /\ Inv (g r) /\ Ext (g a0) (g r) /\ forall d, In d l -> done (get (g r) d) = true).
      { intros l a0 r Hl Sa0 Ia0 X10 Er.
        destruct (visit_deps_safe F Dm D Dts rank N den Dts_range f l a0 r) as (A & B & C & _ & _ & E0); auto.
        - exact (Safe f).
        - intros d Hd. apply (Hl d Hd).
        - intros p d Hp Pp Hd. apply (HpB a0 X10 p d Hp Pp). apply (Hl d Hd).
        - apply (SrcOK_ext D Dts N den (g s1)); auto. }
      change (fold_left (fun acc d => match acc with None => None | Some a =>
                if visited (get (g a) d) then Some a else update_node F Dm false f a d true end) (D n) (Some s1))
        with (visit_deps F Dm f (D n) s1) in EB4.
      destruct (visit_deps F Dm f (D n) s1) as [s2|] eqn:EB; [|discriminate].
      assert (HlD : forall d, In d (D n) -> rank d < rank n /\ d < N).
      { intros d Hd. split; [apply rank_ok; apply in_or_app; auto | eapply D_range; eauto]. }
      destruct (VisitG (D n) s1 s2 HlD S1 Iv1 (ext_refl D Dts N (g s1) S1) EB) as (S2 & Iv2 & X12 & DD).
      pose proof (VisitLog (D n) s1 s2 HlD S1 Iv1 (ext_refl D Dts N (g s1) S1) LK1 EB) as LK2.
      assert (Sr2 : Src (g s2)) by (apply (SrcOK_ext D Dts N den (g s1)); auto).
      destruct (DemSol (g s2) n Iv2 Sr2 Hn DD) as [_ ExDem].
      change (Dm n (fires_of (g s2) (D n))) with (Exs (g s2) n) in EB4.
      remember (Exs (g s2) n) as ex eqn:Hex.
      change (fold_left (fun acc d => match acc with None => None | Some a =>
                if visited (get (g a) d) then Some a else update_node F Dm false f a d true end) ex (Some s2))
        with (visit_deps F Dm f ex s2) in EB4.
      destruct (visit_deps F Dm f ex s2) as [s2'|] eqn:EB'; [|discriminate].
      assert (HlX : forall d, In d ex -> rank d < rank n /\ d < N).
      { intros d Hd. apply ExDem in Hd. split; [apply rank_ok; apply in_or_app; auto | eapply Dem_range; eauto]. }
      destruct (VisitG ex s2 s2' HlX S2 Iv2 X12 EB') as (S2' & Iv2' & X22' & _).
      pose proof (VisitLog ex s2 s2' HlX S2 Iv2 X12 LK2 EB') as LK2'.
      assert (X12' : Ext (g s1) (g s2')) by (eapply ext_trans; eauto).
      pose proof X22' as (_ & _ & D22' & _).
      assert (Ex2' : ex = Exs (g s2') n).
      { rewrite Hex. symmetry. apply exs_of_eq. intros d Hd. apply D22'; [eapply D_range; eauto | apply DD; exact Hd]. }
      destruct X12' as (_ & _ & _ & K12 & _).
      assert (Gn2 : get (g s2') n = reflag (get (g s) n) true false).
      { rewrite K12; auto. split; rewrite Gn1; reflexivity. }
      injection EB4 as EB4.
      eapply (LogOK_finish s2' n ex _ s4 Hn S2' Iv2' LK2'); [rewrite Gn2; reflexivity | exact Ex2' | | reflexivity | symmetry; exact EB4].
      intros d Hd ->. assert (R : rank n < rank n); [|lia]. unfold inp in Hd. rewrite <- Ex2' in Hd.
      apply in_app_or in Hd as [Hd|Hd]; [apply (HlD n Hd) | apply (HlX n Hd)]. }
    destruct (changed (get (g s4) n)) eqn:Cn4.
    2:{ injection E as <-. exact LK4. }
    destruct as_dep; simpl in E.
    { injection E as <-. exact LK4. }
    assert (Dt4 : dependents (get (g s4) n) = Dts n) by (apply S4; auto).
    rewrite Dt4 in E.
    assert (Sr4 : Src (g s4)) by (apply (SrcOK_ext D Dts N den (g s)); auto).
    pose (PE := fun a : st Val => Shape (g a) /\ Inv (g a) /\ Ext (g s4) (g a) /\ LogOK a).
    assert (PreE : forall a m, PE a -> Pre (g a) m false).
    { intros a m (_ & _ & (_ & _ & _ & _ & Qa & _ & _) & _) p Hp Pp. simpl in Pr. eapply Pr; eauto. }
    assert (SrE : forall a, PE a -> Src (g a)).
    { intros a (_ & _ & Xa & _). apply (SrcOK_ext D Dts N den (g s4)); auto. }
    assert (PE' : PE s').
    { apply (fold_opt_inv PE (fun a m => update_node F Dm false f a m false) (Dts n) s4 s'); auto.
      - split; [|split; [|split]]; auto. apply ext_refl; auto.
      - intros a m a' Hm Pa Ea. pose proof Pa as (Sa & Ia & Xa & La).
        destruct (Safe f a m false a' (Dts_range _ _ Hm) Sa Ia (SrE a Pa) (PreE a m Pa) Ea) as (Ia' & Xa' & _).
        split; [apply Xa'|]. split; auto. split; [eapply ext_trans; eauto|].
        apply (IH a m false a' (Dts_range _ _ Hm) Sa Ia (SrE a Pa) (PreE a m Pa) La Ea). }
    apply PE'.
  Qed.

  (* ---------------- the drain loop ---------------- *)
  Definition Walkable (s : st Val) := Shape (g s) /\ Inv (g s) /\ NoPend N (g s) /\ Src (g s).

  Lemma drain_log : forall rounds fuel s s',
    Walkable s -> LogOK s -> drain F Dm false rounds fuel s = Some s' -> LogOK s'.
  Proof.
    induction rounds as [|r IHr]; intros fuel s s' Ws LK E; [discriminate|].
    cbn [drain] in E. destruct (queue s) as [|q0 qs] eqn:Q.
    { injection E as <-. exact LK. }
    rewrite <- Q in E.
    match type of E with match ?T with _ => _ end = _ => destruct T as [s1|] eqn:EF end; [|discriminate].
    remember {| g := g s; queue := []; log := log s |} as s0 eqn:Hs0.
    assert (P1 : Walkable s1 /\ LogOK s1).
    { apply (fold_opt_inv (fun a => Walkable a /\ LogOK a) (fun a x => update_node F Dm false fuel a x false) (queue s) s0 s1); auto.
      - rewrite Hs0. split; [exact Ws | exact LK].
      - intros a x a' _ [(Sa & Ia & NPa & Sra) La] Ea.
        destruct (lt_dec x N) as [HxN|HxN].
        2:{ pose proof (update_node_out_of_range F Dm D Dts N _ _ _ _ _ Sa HxN Ea); subst a'. split; [split; [|split; [|split]]|]; auto. }
        assert (Pr : Pre (g a) x false) by (intros p Hp; apply NPa; auto).
        destruct (Safe fuel a x false a' HxN Sa Ia Sra Pr Ea) as (Ia' & Xa' & _).
        split; [split; [apply Xa'|split; [auto|split]]|].
        + intros p Hp Pp. destruct Xa' as (_ & _ & _ & _ & Qp & _ & _). apply (NPa p Hp). apply Qp; auto.
        + apply (SrcOK_ext D Dts N den (g a)); auto.
        + apply (update_node_log fuel a x false a' HxN Sa Ia Sra Pr La Ea). }
    destruct P1 as [W1 LK1]. apply (IHr fuel s1 s'); auto.
  Qed.

  (* oldest-first log (what EngineScript.estep reports): the inputs of n that were updated at all were
     updated before n *)
  Definition Settled (gr : graph Val) (lg : list nat) :=
    forall l1 n l2, lg = l1 ++ n :: l2 -> forall d, In d (Inp gr n) -> ~ In d l2.

  Lemma Ordered_Settled gr l : Ordered gr l -> Settled gr (rev l).
  Proof.
    intros Or l1 n l2 E d Hd Hin.
    assert (El : l = rev l2 ++ n :: rev l1).
    { rewrite <- (rev_involutive l), E. rewrite rev_app_distr. simpl. rewrite <- app_assoc. reflexivity. }
    apply (Or _ _ _ El d Hd). rewrite <- in_rev. exact Hin.
  Qed.

  Hypothesis Dts_complete : forall n d, n < N -> In d (D n) -> In n (Dts d).

  (* (3) the update closure of a node runs at most once, exactly when a static dependency or a demanded
     node changed, and only after the updates of its static dependencies and of the nodes it demands *)
  Theorem drain_log_spec rounds fuel s s' :
    Good F Dm D Dts N den s -> log s = [] -> (forall n, n < N -> done (get (g s) n) = false) ->
    drain F Dm false rounds fuel s = Some s' ->
    NoDup (log s') /\
    (forall n, In n (log s') <->
               (n < N /\ D n <> [] /\ exists d, In d (Inp (g s') n) /\ changed (get (g s') d) = true)) /\
    Ordered (g s') (log s') /\ Settled (g s') (rev (log s')).
  Proof.
    intros Gd L0 ND E.
    assert (LK0 : LogOK s).
    { unfold LogOK. rewrite L0. split; [constructor|]. split.
      - intros l1 n l2 El. destruct l1; discriminate.
      - intros n. split; [intros []|]. intros (Hn & Dn & _). rewrite ND in Dn; auto. discriminate. }
    assert (Ws : Walkable s) by (destruct Gd as (A & B & C & _ & _ & E0); split; auto).
    pose proof (drain_log rounds fuel s s' Ws LK0 E) as (NDl & Or & Iff).
    destruct (drain_good F Dm D Dem Dts rank N den rank_ok D_range Dem_range Dts_range den_eq Dm_den Dm_quiet rounds fuel s s' Gd E)
      as (Gd' & Q' & _).
    destruct Gd' as (S' & (I1 & I2) & NP & C & SQ & Sr').
    split; auto. split; [|split; [exact Or | apply Ordered_Settled; exact Or]].
    intros n. rewrite Iff. split.
    - intros (Hn & Dn & Cn). split; auto. unfold chg, chgd in Cn. apply existsb_exists in Cn as (d & Hd & Cd).
      split; [|exists d; auto].
      (* a source has no input *)
      intros Z. unfold inp, exs_of, ins_of in Hd. rewrite Z in Hd. rewrite Dm_quiet in Hd by reflexivity. destruct Hd.
    - intros (Hn & NE & d & Hd & Cd). split; auto.
      assert (Cn : chg (g s') n = true) by (unfold chg, chgd; apply existsb_exists; exists d; auto).
      split; auto.
      destruct (done (get (g s') n)) eqn:Dn; auto. exfalso.
      (* not done and some input changed: impossible, by the argument of good_empty_fix *)
      assert (NoCh : forall d, In d (D n) -> changed (get (g s') d) = false).
      { intros d0 Hd0. destruct (changed (get (g s') d0)) eqn:Cd0; auto. exfalso.
        pose proof (D_range _ _ Hd0) as Hdn.
        assert (Vn : visited (get (g s') n) = false).
        { destruct (visited (get (g s') n)) eqn:Vn; auto. exfalso. apply (NP n Hn). split; auto. }
        destruct (done (get (g s') d0)) eqn:Dd.
        - assert (Hm : In n (Dts d0)) by (apply Dts_complete; auto).
          destruct (C d0 Hdn Dd Cd0 n Hm) as [V|Qn]; [congruence | rewrite Q' in Qn; inversion Qn].
        - destruct (visited (get (g s') d0)) eqn:Vd; [apply (NP d0 Hdn); split; auto|].
          pose proof (SQ d0 Hdn Cd0 Vd) as Qd. rewrite Q' in Qd. inversion Qd. }
      assert (Quiet : existsb is_some (ins_of D (g s') n) = false).
      { unfold ins_of, fires_of. rewrite existsb_map. destruct (existsb _ (D n)) eqn:Ex; auto. exfalso.
        apply existsb_exists in Ex as (d0 & Hd0 & Fd).
        rewrite <- (changed_is_fired F Dm D N den (g s') (conj I1 I2) Sr' d0 (D_range _ _ Hd0)) in Fd.
        rewrite NoCh in Fd by exact Hd0. discriminate. }
      unfold inp, exs_of in Hd. rewrite (Dm_quiet n _ Quiet), app_nil_r in Hd. rewrite NoCh in Cd by exact Hd. discriminate.
  Qed.
End Log.

Print Assumptions update_node_log.
Print Assumptions drain_log_spec.
