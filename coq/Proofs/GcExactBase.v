(* C08 exactness proof, base layer: sums over object ids, get/set algebra, edge counting,
   reachability, and the generic lemma for the fuelled [iter] combinator. *)
From Coq Require Import List Arith Bool Lia.
Import ListNotations.
From Sodium Require Import Gc.

(* ---------- sums over 0..n-1 ---------- *)
Fixpoint sumf (f : nat -> nat) (n : nat) : nat :=
  match n with 0 => 0 | S k => sumf f k + f k end.

Lemma sumf_ext f h n : (forall i, i < n -> f i = h i) -> sumf f n = sumf h n.
Proof.
  induction n as [|n IH]; intros H; cbn [sumf]; auto.
  rewrite IH by (intros; apply H; lia). rewrite H by lia. reflexivity.
Qed.

Lemma sumf_update f h n k :
  k < n -> (forall i, i < n -> i <> k -> f i = h i) -> sumf f n + h k = sumf h n + f k.
Proof.
  induction n as [|n IH]; intros Hk H; [lia|]. cbn [sumf].
  destruct (Nat.eq_dec k n) as [->|Ne].
  - rewrite (sumf_ext f h n) by (intros; apply H; lia). lia.
  - rewrite (H n) by lia. assert (X : sumf f n + h k = sumf h n + f k).
    { apply IH; [lia|]. intros; apply H; lia. } lia.
Qed.

Lemma sumf_ge f n k : k < n -> f k <= sumf f n.
Proof. induction n as [|n IH]; intros H; [lia|]. cbn [sumf]. destruct (Nat.eq_dec k n) as [->|]; [lia|]. specialize (IH ltac:(lia)). lia. Qed.

Lemma sumf_pos f n : sumf f n > 0 -> exists k, k < n /\ f k > 0.
Proof.
  induction n as [|n IH]; cbn [sumf]; [lia|]. intros H.
  destruct (f n) eqn:E.
  - destruct IH as (k & A & B); [lia|]. exists k; split; [lia|auto].
  - exists n; split; lia.
Qed.

Lemma sumf_zero f n : (forall i, i < n -> f i = 0) -> sumf f n = 0.
Proof. induction n as [|n IH]; intros H; cbn [sumf]; auto. rewrite IH, H by (intros; try apply H; lia). reflexivity. Qed.

Lemma sumf_add f h n : sumf (fun i => f i + h i) n = sumf f n + sumf h n.
Proof. induction n as [|n IH]; cbn [sumf]; [reflexivity|]. rewrite IH. lia. Qed.

Lemma sumf_le f h n : (forall i, i < n -> f i <= h i) -> sumf f n <= sumf h n.
Proof. induction n as [|n IH]; intros H; cbn [sumf]; auto. specialize (IH ltac:(intros; apply H; lia)). specialize (H n ltac:(lia)). lia. Qed.

Lemma sumf_bound f n : (forall i, i < n -> f i <= 1) -> sumf f n <= n.
Proof. induction n as [|n IH]; intros H; cbn [sumf]; auto. specialize (IH ltac:(intros; apply H; lia)). specialize (H n ltac:(lia)). lia. Qed.

(* ---------- get / set ---------- *)
Lemma upd_length h n o : length (upd h n o) = length h.
Proof. revert n; induction h as [|x t IH]; intros [|k]; cbn [upd length]; auto. Qed.

Lemma nth_upd_same h n o d : n < length h -> nth n (upd h n o) d = o.
Proof. revert n; induction h as [|x t IH]; intros [|k] H; cbn [upd nth length] in *; try lia; auto. apply IH; lia. Qed.

Lemma nth_upd_other h n m o d : n <> m -> nth m (upd h n o) d = nth m h d.
Proof. revert n m; induction h as [|x t IH]; intros [|k] [|j] H; cbn [upd nth]; auto; try lia. Qed.

Lemma nobjs_set st n o : nobjs (set st n o) = nobjs st.
Proof. unfold nobjs, set. cbn [objs]. apply upd_length. Qed.

Lemma get_set_same st n o : n < nobjs st -> get (set st n o) n = o.
Proof. unfold get, set, nobjs. cbn [objs]. apply nth_upd_same. Qed.

Lemma get_set_other st n m o : n <> m -> get (set st n o) m = get st m.
Proof. unfold get, set. cbn [objs]. apply nth_upd_other. Qed.

Lemma get_oor st n : nobjs st <= n -> get st n = dummy.
Proof. unfold get, nobjs. intros. apply nth_overflow; auto. Qed.

Lemma get_set_oor st n o m : nobjs st <= n -> get (set st n o) m = get st m.
Proof.
  intros H. destruct (Nat.eq_dec n m) as [->|Ne]; [|apply get_set_other; auto].
  rewrite !get_oor; auto. rewrite nobjs_set; auto.
Qed.

Lemma get_count_trace st k m : get (count_trace st k) m = get st m.
Proof. reflexivity. Qed.
Lemma get_with_roots st r m : get (with_roots st r) m = get st m.
Proof. reflexivity. Qed.
Lemma get_with_tbf st r m : get (with_tbf st r) m = get st m.
Proof. reflexivity. Qed.
Lemma nobjs_count_trace st k : nobjs (count_trace st k) = nobjs st.
Proof. reflexivity. Qed.
Lemma nobjs_with_roots st r : nobjs (with_roots st r) = nobjs st.
Proof. reflexivity. Qed.
Lemma nobjs_with_tbf st r : nobjs (with_tbf st r) = nobjs st.
Proof. reflexivity. Qed.
Lemma roots_set st n o : roots (set st n o) = roots st.
Proof. reflexivity. Qed.
Lemma tbf_set st n o : to_be_freed (set st n o) = to_be_freed st.
Proof. reflexivity. Qed.

Lemma color_eqb_eq a b : color_eqb a b = true <-> a = b.
Proof. destruct a, b; cbn; split; intros; congruence. Qed.
Lemma color_eqb_neq a b : color_eqb a b = false <-> a <> b.
Proof. destruct a, b; cbn; split; intros; congruence. Qed.

(* ---------- counting edges ---------- *)
Definition cnt (l : list nat) (v : nat) : nat := count_occ Nat.eq_dec l v.

(* number of edge occurrences into v from the objects satisfying P *)
Definition cnt_in (P : gobj -> bool) (st : gstate) (v : nat) : nat :=
  sumf (fun u => if P (get st u) then cnt (edges (get st u)) v else 0) (nobjs st).

Definition in_edges (st : gstate) (v : nat) : nat := cnt_in (fun _ => true) st v.

Lemma cnt_app l1 l2 v : cnt (l1 ++ l2) v = cnt l1 v + cnt l2 v.
Proof. unfold cnt. apply count_occ_app. Qed.

Lemma cnt_cons t l v : cnt (t :: l) v = (if Nat.eq_dec t v then 1 else 0) + cnt l v.
Proof. unfold cnt. cbn [count_occ]. destruct (Nat.eq_dec t v); lia. Qed.

Lemma cnt_pos l v : cnt l v > 0 <-> In v l.
Proof. unfold cnt. symmetry. apply count_occ_In. Qed.

Lemma cnt_in_ext P Q st st' v :
  nobjs st' = nobjs st ->
  (forall u, u < nobjs st -> P (get st u) = Q (get st' u) /\ edges (get st u) = edges (get st' u)) ->
  cnt_in P st v = cnt_in Q st' v.
Proof.
  intros L H. unfold cnt_in. rewrite L. apply sumf_ext. intros i Hi.
  destruct (H i Hi) as [-> ->]. reflexivity.
Qed.

Lemma cnt_in_set P st n o v :
  n < nobjs st ->
  cnt_in P (set st n o) v + (if P (get st n) then cnt (edges (get st n)) v else 0)
  = cnt_in P st v + (if P o then cnt (edges o) v else 0).
Proof.
  intros H. unfold cnt_in. rewrite nobjs_set.
  pose proof (sumf_update
    (fun u => if P (get (set st n o) u) then cnt (edges (get (set st n o) u)) v else 0)
    (fun u => if P (get st u) then cnt (edges (get st u)) v else 0) (nobjs st) n H) as X.
  cbv beta in X. rewrite get_set_same in X by auto. rewrite <- X; [lia|].
  intros i _ Ne. rewrite get_set_other by auto. reflexivity.
Qed.

Lemma cnt_in_split P st v :
  in_edges st v = cnt_in P st v + cnt_in (fun o => negb (P o)) st v.
Proof.
  unfold in_edges, cnt_in. rewrite <- sumf_add. apply sumf_ext. intros i _.
  destruct (P (get st i)); cbn; lia.
Qed.

Lemma cnt_in_pos P st v : cnt_in P st v > 0 ->
  exists u, u < nobjs st /\ P (get st u) = true /\ In v (edges (get st u)).
Proof.
  intros H. apply sumf_pos in H as (u & Hu & H). exists u. split; auto.
  destruct (P (get st u)); [|lia]. split; auto. apply cnt_pos; auto.
Qed.

Lemma cnt_in_ge P st u v : u < nobjs st -> P (get st u) = true -> In v (edges (get st u)) -> cnt_in P st v > 0.
Proof.
  intros Hu HP Hin. unfold cnt_in.
  pose proof (sumf_ge (fun u => if P (get st u) then cnt (edges (get st u)) v else 0) _ _ Hu) as X.
  cbv beta in X. rewrite HP in X. apply cnt_pos in Hin. lia.
Qed.

(* number of in-range objects satisfying P *)
Definition count (P : gobj -> bool) (st : gstate) : nat :=
  sumf (fun u => if P (get st u) then 1 else 0) (nobjs st).

Lemma count_set P st n o : n < nobjs st ->
  count P (set st n o) + (if P (get st n) then 1 else 0) = count P st + (if P o then 1 else 0).
Proof.
  intros H. unfold count. rewrite nobjs_set.
  pose proof (sumf_update
    (fun u => if P (get (set st n o) u) then 1 else 0)
    (fun u => if P (get st u) then 1 else 0) (nobjs st) n H) as X.
  cbv beta in X. rewrite get_set_same in X by auto. rewrite <- X; [lia|].
  intros i _ Ne. rewrite get_set_other by auto. reflexivity.
Qed.

Lemma count_le_nobjs P st : count P st <= nobjs st.
Proof. unfold count. apply sumf_bound. intros. destruct (P _); lia. Qed.

Lemma count_pos P st n : n < nobjs st -> P (get st n) = true -> count P st > 0.
Proof.
  intros H HP. unfold count.
  pose proof (sumf_ge (fun u => if P (get st u) then 1 else 0) _ _ H) as X. cbv beta in X.
  rewrite HP in X. lia.
Qed.

(* ---------- reachability through edges ---------- *)
Definition E (st : gstate) : nat -> list nat := fun v => edges (get st v).

Inductive reach (e : nat -> list nat) : nat -> nat -> Prop :=
| reach_refl v : reach e v v
| reach_step u t v : In t (e u) -> reach e t v -> reach e u v.

Lemma reach_trans e a b c : reach e a b -> reach e b c -> reach e a c.
Proof. induction 1; auto. intros. eapply reach_step; eauto. Qed.

Lemma reach_last e a b c : reach e a b -> In c (e b) -> reach e a c.
Proof. intros. eapply reach_trans; eauto. eapply reach_step; eauto. apply reach_refl. Qed.

Lemma reach_mono (e e' : nat -> list nat) a b :
  (forall u t, In t (e u) -> In t (e' u)) -> reach e a b -> reach e' a b.
Proof. intros H. induction 1; [apply reach_refl|]. eapply reach_step; eauto. Qed.

(* a set closed under edges contains everything reachable from its members *)
Lemma reach_closed e (S : nat -> Prop) a b :
  (forall u t, S u -> In t (e u) -> S t) -> reach e a b -> S a -> S b.
Proof. intros C. induction 1; auto. intros. apply IHreach. eapply C; eauto. Qed.

(* ---------- results ---------- *)
Lemma bind_ok {A B} (r : res A) (k : A -> res B) b :
  bind r k = Ok b -> exists a, r = Ok a /\ k a = Ok b.
Proof. destruct r; cbn; intros; try discriminate. eauto. Qed.

(* generic lemma for [iter]: a list-indexed invariant I, a preorder R and a monotone post Q *)
Section IterSpec.
  Variable f : gstate -> nat -> res gstate.
  Variable I : list nat -> gstate -> Prop.
  Variable R : gstate -> gstate -> Prop.
  Variable Q : gstate -> nat -> Prop.
  Hypothesis R_refl : forall st, R st st.
  Hypothesis R_trans : forall a b c, R a b -> R b c -> R a c.
  Hypothesis Q_mono : forall a b t, R a b -> Q a t -> Q b t.
  Hypothesis step : forall st t rest, I (t :: rest) st ->
    exists st', f st t = Ok st' /\ I rest st' /\ R st st' /\ Q st' t.

  Lemma iter_spec : forall ns st, I ns st ->
    exists st', iter f st ns = Ok st' /\ I [] st' /\ R st st' /\ forall t, In t ns -> Q st' t.
  Proof.
    induction ns as [|t ns IH]; intros st HI.
    - exists st. cbn [iter]. repeat split; auto. intros t [].
    - destruct (step st t ns HI) as (st1 & E1 & I1 & R1 & Q1).
      destruct (IH st1 I1) as (st2 & E2 & I2 & R2 & Q2).
      exists st2. cbn [iter]. rewrite E1. cbn [bind]. repeat split; eauto.
      intros x [<-|Hx]; eauto.
  Qed.
End IterSpec.
