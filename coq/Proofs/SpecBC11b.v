(* Property C11, part b: the substitution theorem. Replacing, in every definition, every reference
   to a looped StreamLoop / CellLoop by the stream / cell it is looped to does not change the
   denotation of any key (cur / occ / upd at top-level fuel, errors included), for legal states that
   satisfy LoopInv; consequently close_txn yields the same observations, the same deferred work and
   the (substituted) same next state. *)
From Coq Require Import List ZArith Bool Arith Lia.
Import ListNotations.
From Sodium Require Import Sodium SpecBBase SpecBMono SpecBLegal SpecBClose SpecBStep SpecBC11a.
Local Open Scope nat_scope.

(* ------------------------------------------------------------------ kind-aware resolution *)

(* a stream reference: resolved only if it names a StreamLoop that has been looped *)
Definition res_s (st : state) (x : nat) : nat :=
  match alookup (defs st) x with
  | Some DSLoop => match alookup (loops st) x with Some t => t | None => x end
  | _ => x
  end.

(* a cell reference: resolved only if it names a CellLoop that has been looped *)
Definition res_c (st : state) (x : nat) : nat :=
  match alookup (defs st) x with
  | Some DCLoop => match alookup (loops st) x with Some t => t | None => x end
  | _ => x
  end.

(* the formulation with a simultaneous match is the same function *)
Lemma res_s_spec : forall st x,
    res_s st x = match alookup (defs st) x, alookup (loops st) x with Some DSLoop, Some t => t | _, _ => x end.
Proof.
  intros st x. unfold res_s. destruct (alookup (defs st) x) as [d|]; [|reflexivity].
  destruct d; try reflexivity.
Qed.

Lemma res_c_spec : forall st x,
    res_c st x = match alookup (defs st) x, alookup (loops st) x with Some DCLoop, Some t => t | _, _ => x end.
Proof.
  intros st x. unfold res_c. destruct (alookup (defs st) x) as [d|]; [|reflexivity].
  destruct d; try reflexivity.
Qed.

Definition subst_def (st : state) (d : def) : def :=
  match d with
  | DMap s f => DMap (res_s st s) f
  | DFilter s p => DFilter (res_s st s) p
  | DMerge a b f => DMerge (res_s st a) (res_s st b) f
  | DSnapshot s cs f => DSnapshot (res_s st s) (map (res_c st) cs) f
  | DGate s c => DGate (res_s st s) (res_c st c)
  | DOnce s => DOnce (res_s st s)
  | DUpdates c => DUpdates (res_c st c)
  | DValue c => DValue (res_c st c)
  | DSwitchS c => DSwitchS (res_c st c)
  | DDefer s => DDefer (res_s st s)
  | DSplit s => DSplit (res_s st s)
  | DRouter s sl => DRouter (res_s st s) sl
  | DHold s => DHold (res_s st s)
  | DMapC c f => DMapC (res_c st c) f
  | DLift cs f => DLift (map (res_c st) cs) f
  | DSwitchC c => DSwitchC (res_c st c)
  | DSink _ | DNever | DSLoop | DRoute _ _ | DConst | DCLoop => d
  end.

Definition subst_defs (st : state) : list (nat * def) :=
  map (fun kd => (fst kd, subst_def st (snd kd))) (defs st).

Definition subst_state (st : state) : state :=
  mkState (subst_defs st) (cvals st) (inits st) (linit st) (fired st) (fresh st) (loops st)
          (listeners st) (depth st) (tdone st) (sends st) (posts st) (lazies st).

Lemma res_s_cases : forall st x,
    (exists t, alookup (defs st) x = Some DSLoop /\ alookup (loops st) x = Some t /\ res_s st x = t) \/
    res_s st x = x.
Proof.
  intros st x. unfold res_s. destruct (alookup (defs st) x) as [d|]; [|right; reflexivity].
  destruct d; try (right; reflexivity).
  destruct (alookup (loops st) x) as [t|]; [|right; reflexivity].
  left. exists t. repeat split.
Qed.

Lemma res_c_cases : forall st x,
    (exists t, alookup (defs st) x = Some DCLoop /\ alookup (loops st) x = Some t /\ res_c st x = t) \/
    res_c st x = x.
Proof.
  intros st x. unfold res_c. destruct (alookup (defs st) x) as [d|]; [|right; reflexivity].
  destruct d; try (right; reflexivity).
  destruct (alookup (loops st) x) as [t|]; [|right; reflexivity].
  left. exists t. repeat split.
Qed.

Lemma alookup_map_snd : forall {A B} (g : A -> B) (l : list (nat * A)) h,
    alookup (map (fun kd => (fst kd, g (snd kd))) l) h = option_map g (alookup l h).
Proof.
  intros A B g l h. induction l as [|[k a] t IH]; simpl; [reflexivity|].
  destruct (Nat.eqb h k); [reflexivity | exact IH].
Qed.

Lemma defs_subst : forall st h,
    alookup (defs (subst_state st)) h = option_map (subst_def st) (alookup (defs st) h).
Proof. intros st h. cbn [defs subst_state]. unfold subst_defs. apply alookup_map_snd. Qed.

Lemma F_subst : forall st, F (subst_state st) = F st.
Proof. intros st. rewrite !F_eq. cbn [defs subst_state]. unfold subst_defs. rewrite map_length. reflexivity. Qed.

Lemma cvals_subst : forall st, cvals (subst_state st) = cvals st. Proof. reflexivity. Qed.
Lemma inits_subst : forall st, inits (subst_state st) = inits st. Proof. reflexivity. Qed.
Lemma linit_subst : forall st, linit (subst_state st) = linit st. Proof. reflexivity. Qed.
Lemma lazies_subst : forall st, lazies (subst_state st) = lazies st. Proof. reflexivity. Qed.
Lemma loops_subst : forall st, loops (subst_state st) = loops st. Proof. reflexivity. Qed.
Lemma fired_subst : forall st, fired (subst_state st) = fired st. Proof. reflexivity. Qed.
Lemma fresh_subst : forall st, fresh (subst_state st) = fresh st. Proof. reflexivity. Qed.
Lemma listeners_subst : forall st, listeners (subst_state st) = listeners st. Proof. reflexivity. Qed.

Lemma emap_map : forall {A B C} (f : B -> ev C) (g : A -> B) l, emap f (map g l) = emap (fun x => f (g x)) l.
Proof.
  intros A B C f g l. induction l as [|x t IH]; [reflexivity|].
  simpl map. rewrite !emap_cons. rewrite IH. reflexivity.
Qed.

Lemma is_cell_subst : forall st d, is_cell (subst_def st d) = is_cell d.
Proof. intros st d. destruct d; reflexivity. Qed.

(* ------------------------------------------------------------------ cur *)

Section CurSubst.
  Variable st : state.
  Variable rc : nat -> nat.
  Hypothesis Hb : forall h d, alookup (defs st) h = Some d -> rc h < F st.
  Hypothesis Hok : forall h, cur_ok st rc h.
  Hypothesis Hinv : LoopInv st.

  (* in the original state, reading a reference or its resolution is the same *)
  Lemma cur_res_c_orig : forall n c, rc c < n -> cur st n (res_c st c) = cur st n c.
  Proof.
    intros n c Hc. destruct (res_c_cases st c) as [(t & Hd & Hl & ->) | ->]; [|reflexivity].
    destruct n as [|n]; [lia|].
    destruct (alookup (cvals st) c) as [v|] eqn:Ev.
    - rewrite (cur_resolved _ _ _ _ Ev). apply cur_resolved. exact (Hinv c t v Hd Hl Ev).
    - rewrite (cloop_cur_S _ _ _ _ Hd Hl Ev).
      pose proof (Hok c) as Hc'. unfold cur_ok in Hc'. rewrite Ev, Hd, Hl in Hc'.
      apply (cur_indep st rc Hb Hok); lia.
  Qed.

  Lemma rc_res_c : forall n c, rc c < n -> alookup (cvals st) c = None -> rc (res_c st c) < n.
  Proof.
    intros n c Hc Ev. destruct (res_c_cases st c) as [(t & Hd & Hl & ->) | ->]; [|exact Hc].
    pose proof (Hok c) as Hc'. unfold cur_ok in Hc'. rewrite Ev, Hd, Hl in Hc'. lia.
  Qed.

  (* a resolved reference read in the substituted state = the reference read in the original state *)
  Lemma cur_res_c_step : forall n,
      (forall h, rc h < n -> cur (subst_state st) n h = cur st n h) ->
      forall c, rc c < n -> cur (subst_state st) n (res_c st c) = cur st n c.
  Proof.
    intros n IH c Hc. destruct (alookup (cvals st) c) as [v|] eqn:Ev.
    - destruct n as [|n]; [lia|]. rewrite (cur_resolved _ _ _ _ Ev).
      apply cur_resolved. rewrite cvals_subst.
      destruct (res_c_cases st c) as [(t & Hd & Hl & ->) | ->]; [exact (Hinv c t v Hd Hl Ev) | exact Ev].
    - rewrite IH by (apply rc_res_c; assumption). apply cur_res_c_orig. exact Hc.
  Qed.

  Lemma cur_subst_aux : forall n h, rc h < n -> cur (subst_state st) n h = cur st n h.
  Proof.
    induction n as [|n IH]; intros h Hh; [lia|].
    pose proof (cur_res_c_step n IH) as Hres.
    rewrite !cur_S. rewrite cvals_subst, inits_subst, linit_subst, lazies_subst, loops_subst.
    pose proof (Hok h) as Hc. unfold cur_ok in Hc.
    destruct (alookup (cvals st) h) as [v0|]; [reflexivity|].
    unfold def_of. rewrite defs_subst.
    destruct (alookup (defs st) h) as [d|] eqn:Ed; [|reflexivity].
    pose proof (Hb h d Ed) as HbF.
    cbn [option_map ebind]. destruct d; cbn [subst_def]; try reflexivity.
    - (* DHold *)
      destruct (alookup (inits st) h); [reflexivity|].
      destruct (alookup (linit st) h) as [z|]; [|reflexivity].
      destruct (alookup (lazies st) z) as [[[v1|c'] z']|]; try reflexivity.
      apply IH; lia.
    - (* DMapC *) rewrite Hres by lia. reflexivity.
    - (* DLift *)
      rewrite emap_map.
      rewrite (emap_ext (fun x => cur (subst_state st) n (res_c st x)) (cur st n) cs); [reflexivity|].
      intros x Hin. specialize (Hc x Hin). apply Hres; lia.
    - (* DSwitchC *)
      destruct Hc as [Hc1 Hc2]. rewrite Hres by lia.
      destruct (cur st n c) as [v|e] eqn:E; [|reflexivity]. cbn [ebind].
      destruct v; try reflexivity.
      assert (E2 : cur st n c = cur st (F st) c) by (apply (cur_indep_F st rc Hb Hok); lia).
      rewrite E in E2. specialize (Hc2 h0 (eq_sym E2)). apply IH; lia.
    - (* DCLoop *)
      destruct (alookup (loops st) h) as [t|]; [|reflexivity]. apply IH; lia.
  Qed.

  Theorem cur_subst_F : forall h, cur (subst_state st) (F st) h = cur st (F st) h.
  Proof.
    intros h. destruct (alookup (defs st) h) as [d|] eqn:Ed.
    - apply cur_subst_aux. exact (Hb h d Ed).
    - rewrite F_eq, !cur_S. rewrite cvals_subst. destruct (alookup (cvals st) h); [reflexivity|].
      unfold def_of. rewrite defs_subst, Ed. reflexivity.
  Qed.

  (* at top-level fuel a cell reference and its resolution read the same, in the original state *)
  Lemma cur_res_c_orig_F : forall c, cur st (F st) (res_c st c) = cur st (F st) c.
  Proof.
    intros c. destruct (res_c_cases st c) as [(t & Hd & Hl & E) | ->]; [|reflexivity].
    apply cur_res_c_orig. exact (Hb c DCLoop Hd).
  Qed.

  Theorem cur_res_c_F : forall c, cur (subst_state st) (F st) (res_c st c) = cur st (F st) c.
  Proof. intros c. rewrite cur_subst_F. apply cur_res_c_orig_F. Qed.
End CurSubst.

(* ------------------------------------------------------------------ occ / upd *)

Section OccSubst.
  Variable st : state.
  Variable inj : list (nat * val).
  Variables rc ro : nat -> nat.
  Hypothesis HL : LegalR st inj rc ro.
  Hypothesis Hinv : LoopInv st.

  Let Hbc := proj1 HL.
  Let Hbo := proj1 (proj2 HL).
  Let Hc := proj1 (proj2 (proj2 HL)).
  Let Ho := proj2 (proj2 (proj2 HL)).

  Lemma occ_res_s_orig : forall n a, ro a < n -> occ st inj n (res_s st a) = occ st inj n a.
  Proof.
    intros n a Ha. destruct (res_s_cases st a) as [(t & Hd & Hl & ->) | ->]; [|reflexivity].
    destruct n as [|n]; [lia|]. rewrite (sloop_occ_S _ _ _ _ _ Hd Hl).
    pose proof (Ho a) as Ha'. unfold occ_ok in Ha'. rewrite Hd, Hl in Ha'.
    apply (occ_indep st inj ro Hbo Ho); lia.
  Qed.

  Lemma upd_res_c_orig : forall n c, ro c < n -> upd st inj n (res_c st c) = upd st inj n c.
  Proof.
    intros n c Hcn. destruct (res_c_cases st c) as [(t & Hd & Hl & ->) | ->]; [|reflexivity].
    destruct n as [|n]; [lia|]. rewrite (cloop_upd_S _ _ _ _ _ Hd Hl).
    pose proof (Ho c) as Ha'. unfold occ_ok in Ha'. rewrite Hd, Hl in Ha'.
    apply (upd_indep st inj ro Hbo Ho); lia.
  Qed.

  Lemma ro_res_s : forall n a, ro a < n -> ro (res_s st a) < n.
  Proof.
    intros n a Ha. destruct (res_s_cases st a) as [(t & Hd & Hl & ->) | ->]; [|exact Ha].
    pose proof (Ho a) as Ha'. unfold occ_ok in Ha'. rewrite Hd, Hl in Ha'. lia.
  Qed.

  Lemma ro_res_c : forall n c, ro c < n -> ro (res_c st c) < n.
  Proof.
    intros n c Ha. destruct (res_c_cases st c) as [(t & Hd & Hl & ->) | ->]; [|exact Ha].
    pose proof (Ho c) as Ha'. unfold occ_ok in Ha'. rewrite Hd, Hl in Ha'. lia.
  Qed.

  Lemma occ_upd_subst_aux : forall n,
      (forall h, ro h < n -> occ (subst_state st) inj n h = occ st inj n h) /\
      (forall h, ro h < n -> upd (subst_state st) inj n h = upd st inj n h).
  Proof.
    induction n as [|n [IHo IHu]]; [split; intros; lia|].
    assert (Hrs : forall a, ro a < n -> occ (subst_state st) inj n (res_s st a) = occ st inj n a).
    { intros a Ha. rewrite IHo by (apply ro_res_s; exact Ha). apply occ_res_s_orig. exact Ha. }
    assert (Hrc : forall c, ro c < n -> upd (subst_state st) inj n (res_c st c) = upd st inj n c).
    { intros c Ha. rewrite IHu by (apply ro_res_c; exact Ha). apply upd_res_c_orig. exact Ha. }
    pose proof (cur_res_c_F st rc Hbc Hc Hinv) as Hcr.
    pose proof (cur_subst_F st rc Hbc Hc Hinv) as Hcs.
    split; intros h Hh.
    - rewrite !occ_S. rewrite F_subst, fired_subst, fresh_subst, loops_subst.
      pose proof (Ho h) as Hk. unfold occ_ok in Hk.
      unfold def_of at 1 3. rewrite defs_subst.
      destruct (alookup (defs st) h) as [d|] eqn:Ed; [|reflexivity].
      cbn [option_map ebind]. destruct d; cbn [subst_def]; try reflexivity.
      + (* DMap *) rewrite Hrs by lia. reflexivity.
      + (* DFilter *) rewrite Hrs by lia. reflexivity.
      + (* DMerge *) destruct Hk as [Hk1 Hk2]. rewrite !Hrs by lia. reflexivity.
      + (* DSnapshot *) rewrite Hrs by lia. rewrite emap_map.
        rewrite (emap_ext (fun x => cur (subst_state st) (F st) (res_c st x)) (cur st (F st)) cs (fun x _ => Hcr x)).
        reflexivity.
      + (* DGate *) rewrite Hrs by lia. rewrite Hcr. reflexivity.
      + (* DOnce *) destruct (amem (fired st) h); [reflexivity|]. specialize (Hk eq_refl). apply Hrs; lia.
      + (* DUpdates *) apply Hrc; lia.
      + (* DValue *) rewrite Hrc by lia. rewrite Hcr. reflexivity.
      + (* DSwitchS *) rewrite Hcr.
        destruct (cur st (F st) c) as [v|e] eqn:E; [|reflexivity]. cbn [ebind].
        destruct v; try reflexivity. specialize (Hk h0 eq_refl). apply IHo; lia.
      + (* DSLoop *) destruct (alookup (loops st) h) as [t|]; [|reflexivity]. apply IHo; lia.
      + (* DRouter *) apply Hrs; lia.
      + (* DRoute *) unfold def_of. rewrite defs_subst.
        destruct (alookup (defs st) r) as [dr|]; [|reflexivity]. cbn [option_map ebind].
        destruct dr; cbn [subst_def]; try reflexivity. rewrite Hrs by lia. reflexivity.
    - rewrite !upd_S. rewrite F_subst, loops_subst.
      pose proof (Ho h) as Hk. unfold occ_ok in Hk.
      unfold def_of. rewrite defs_subst.
      destruct (alookup (defs st) h) as [d|] eqn:Ed; [|reflexivity].
      pose proof (Hbo h d Ed) as HbF.
      cbn [option_map ebind]. destruct d; cbn [subst_def]; try reflexivity.
      + (* DHold *) apply Hrs; lia.
      + (* DMapC *) rewrite Hrc by lia. reflexivity.
      + (* DLift *)
        rewrite !emap_map.
        assert (E1 : emap (fun x => upd (subst_state st) inj n (res_c st x)) cs = emap (upd st inj n) cs).
        { apply emap_ext. intros x Hin. specialize (Hk x Hin). apply Hrc; lia. }
        rewrite E1. destruct (emap (upd st inj n) cs) as [us|e]; [|reflexivity]. cbn [ebind].
        destruct (existsb _ us); [|reflexivity].
        assert (E2 : emap (fun x => elet o <- upd (subst_state st) inj n (res_c st x);
                                    match o with Some v => EV v | None => cur (subst_state st) (F st) (res_c st x) end) cs =
                     emap (fun c' => elet o <- upd st inj n c';
                                     match o with Some v => EV v | None => cur st (F st) c' end) cs).
        { apply emap_ext. intros x Hin. specialize (Hk x Hin). rewrite Hrc by lia. rewrite Hcr. reflexivity. }
        rewrite E2. reflexivity.
      + (* DSwitchC *)
        destruct Hk as [Hk1 [Hk2 Hk3]]. rewrite Hrc by lia. rewrite Hcr.
        destruct (upd st inj n c) as [o|e] eqn:E; [|reflexivity]. cbn [ebind].
        assert (E2 : upd st inj n c = upd st inj (F st) c) by (apply (upd_indep_F st inj ro Hbo Ho); lia).
        rewrite E in E2.
        destruct o as [v|].
        * destruct v; try reflexivity. specialize (Hk2 h0 (eq_sym E2)).
          rewrite IHu by lia. rewrite Hcs. reflexivity.
        * destruct (cur st (F st) c) as [v|e] eqn:Ec; [|reflexivity]. cbn [ebind].
          destruct v; try reflexivity. specialize (Hk3 h0 eq_refl). apply IHu; lia.
      + (* DCLoop *) destruct (alookup (loops st) h) as [t|]; [|reflexivity]. apply IHu; lia.
  Qed.

  Theorem occ_subst_F : forall h, occ (subst_state st) inj (F st) h = occ st inj (F st) h.
  Proof.
    intros h. destruct (alookup (defs st) h) as [d|] eqn:Ed.
    - apply (proj1 (occ_upd_subst_aux (F st))). exact (Hbo h d Ed).
    - rewrite F_eq, !occ_S. unfold def_of. rewrite defs_subst, Ed. reflexivity.
  Qed.

  Theorem upd_subst_F : forall h, upd (subst_state st) inj (F st) h = upd st inj (F st) h.
  Proof.
    intros h. destruct (alookup (defs st) h) as [d|] eqn:Ed.
    - apply (proj2 (occ_upd_subst_aux (F st))). exact (Hbo h d Ed).
    - rewrite F_eq, !upd_S. unfold def_of. rewrite defs_subst, Ed. reflexivity.
  Qed.

  (* references and their resolutions denote the same thing in the original state *)
  Lemma occ_res_s_orig_F : forall a, occ st inj (F st) (res_s st a) = occ st inj (F st) a.
  Proof.
    intros a. destruct (res_s_cases st a) as [(t & Hd & Hl & E) | ->]; [|reflexivity].
    apply occ_res_s_orig. exact (Hbo a DSLoop Hd).
  Qed.

  Lemma upd_res_c_orig_F : forall c, upd st inj (F st) (res_c st c) = upd st inj (F st) c.
  Proof.
    intros c. destruct (res_c_cases st c) as [(t & Hd & Hl & E) | ->]; [|reflexivity].
    apply upd_res_c_orig. exact (Hbo c DCLoop Hd).
  Qed.

  Theorem occ_res_s_F : forall a, occ (subst_state st) inj (F st) (res_s st a) = occ st inj (F st) a.
  Proof. intros a. rewrite occ_subst_F. apply occ_res_s_orig_F. Qed.

  Theorem upd_res_c_F : forall c, upd (subst_state st) inj (F st) (res_c st c) = upd st inj (F st) c.
  Proof. intros c. rewrite upd_subst_F. apply upd_res_c_orig_F. Qed.
End OccSubst.

(* ------------------------------------------------------------------ the packaged statement *)

Theorem loop_substitution : forall st inj rc ro,
    LegalR st inj rc ro -> LoopInv st ->
    F (subst_state st) = F st /\
    forall h,
      cur (subst_state st) (F st) h = cur st (F st) h /\
      occ (subst_state st) inj (F st) h = occ st inj (F st) h /\
      upd (subst_state st) inj (F st) h = upd st inj (F st) h.
Proof.
  intros st inj rc ro HL Hinv. split; [apply F_subst|]. intros h. split; [|split].
  - destruct HL as (Hbc & _ & Hc & _). exact (cur_subst_F st rc Hbc Hc Hinv h).
  - exact (occ_subst_F st inj rc ro HL Hinv h).
  - exact (upd_subst_F st inj rc ro HL Hinv h).
Qed.

Theorem loop_substitution_Legal : forall st inj,
    Legal st inj -> LoopInv st ->
    forall h,
      cur (subst_state st) (F (subst_state st)) h = cur st (F st) h /\
      occ (subst_state st) inj (F (subst_state st)) h = occ st inj (F st) h /\
      upd (subst_state st) inj (F (subst_state st)) h = upd st inj (F st) h.
Proof.
  intros st inj (rc & ro & HL) Hinv h. rewrite F_subst.
  exact (proj2 (loop_substitution st inj rc ro HL Hinv) h).
Qed.
