(* C15: sinks inject exactly what was sent; coalescing folds in send order; a cell sink is a hold over a sink. *)
From Coq Require Import List ZArith Bool Arith Lia Permutation.
Import ListNotations.
From Sodium Require Import Sodium SpecABase SpecA14 SpecA12.
Open Scope nat_scope.

(* ------------------------------------------------------------------ the occurrence of a sink *)

Lemma occ_sink : forall st inj f s co,
    alookup (defs st) s = Some (DSink co) ->
    occ st inj (S f) s = EV (coalesce co (injected inj s)).
Proof.
  intros st inj f s co H. rewrite occ_S. unfold def_of. rewrite H. reflexivity.
Qed.

Lemma coalesce_nil : forall co, coalesce co [] = None.
Proof. reflexivity. Qed.

Lemma coalesce_some : forall g v1 vs, coalesce (Some g) (v1 :: vs) = Some (fold_left (app2 g) vs v1).
Proof. reflexivity. Qed.

Lemma coalesce_none : forall vs,
    coalesce None vs = match vs with [] => None | v :: _ => Some (last vs v) end.
Proof. intros [|v t]; reflexivity. Qed.

Lemma last_nonempty : forall A (l : list A) d d', l <> [] -> last l d = last l d'.
Proof.
  induction l as [|x t IH]; intros d d' H; [congruence|].
  destruct t as [|y t']; [reflexivity|]. cbn [last]. cbn [last] in IH. apply IH. discriminate.
Qed.

Lemma coalesce_none_last : forall vs d, vs <> [] -> coalesce None vs = Some (last vs d).
Proof.
  intros [|v t] d H; [congruence|]. rewrite coalesce_none. f_equal. apply last_nonempty. discriminate.
Qed.

(* the transliteration of Stream::_send: one send folds into the pending firing *)
Definition send1 (co : option f2) (firing : option val) (a : val) : option val :=
  match co with
  | Some g => match firing with Some f => Some (app2 g f a) | None => Some a end
  | None => Some a
  end.

Lemma send1_fold_some : forall g vs v, fold_left (send1 (Some g)) vs (Some v) = Some (fold_left (app2 g) vs v).
Proof. induction vs as [|x t IH]; intros v; cbn; [reflexivity | apply IH]. Qed.

Lemma send1_fold_none : forall vs v, fold_left (send1 None) vs (Some v) = Some (last vs v).
Proof.
  induction vs as [|x t IH]; intros v; [reflexivity|].
  cbn [fold_left send1]. rewrite IH. destruct t as [|y t']; [reflexivity|].
  f_equal. change (last (x :: y :: t') v) with (last (y :: t') v). apply last_nonempty. discriminate.
Qed.

Lemma send1_fold : forall co vs, fold_left (send1 co) vs None = coalesce co vs.
Proof.
  intros co [|v t]; [reflexivity|]. destruct co as [g|].
  - cbn [fold_left send1]. rewrite send1_fold_some. reflexivity.
  - cbn [fold_left send1]. rewrite send1_fold_none. cbn [coalesce].
    f_equal. destruct t; reflexivity.
Qed.

(* ------------------------------------------------------------------ sends accumulate in order *)

Lemma injected_app : forall a b s, injected (a ++ b) s = injected a s ++ injected b s.
Proof. intros; unfold injected. rewrite filter_app, map_app. reflexivity. Qed.

(* a script none of whose steps closes the outermost transaction *)
Fixpoint stays_open (ch : nat -> list nat) (i : nat) (st : state) (ops : list op) : Prop :=
  match ops with
  | [] => True
  | o :: t => closes st o = false /\
              match step (ch i) st o with
              | EV (st1, _, _) => stays_open ch (S i) st1 t
              | EErr _ => True
              end
  end.

Lemma open_run_sends : forall ch ops i st st' os,
    stays_open ch i st ops -> run ch i st ops = EV (st', os) ->
    sends st' = sends st ++ flat_map sent ops /\ posts st' = posts st ++ flat_map posted ops /\
    fired st' = fired st /\ Forall passive os.
Proof.
  induction ops as [|o t IH]; intros i st st' os Ho H; cbn [run] in H.
  - injection H as <- <-. cbn. rewrite !app_nil_r. auto.
  - destruct Ho as [Hc Ho]. ebind_inv H r Er. ebind_inv H r' Er'. injection H as <- <-.
    destruct r as [[s1 o1] a1], r' as [s2 o2]. rewrite Er in Ho. prj_in Er'. prj.
    destruct (step_open _ _ _ _ _ _ Hc Er) as (_ & Hp & _ & Hf & Hs & Hps & _).
    destruct (IH _ _ _ _ Ho Er') as (Hs2 & Hp2 & Hf2 & Hpa).
    cbn [flat_map]. rewrite Hs2, Hp2, Hf2, Hs, Hps, Hf, <- !app_assoc.
    repeat split; auto. apply Forall_app; auto.
Qed.

Lemma stays_open_app : forall ch l1 l2 i st,
    stays_open ch i st l1 ->
    (forall st1 os1, run ch i st l1 = EV (st1, os1) -> stays_open ch (i + length l1) st1 l2) ->
    stays_open ch i st (l1 ++ l2).
Proof.
  induction l1 as [|o t IH]; intros l2 i st H1 H2; cbn [app].
  - specialize (H2 st [] eq_refl). cbn [length] in H2. rewrite Nat.add_0_r in H2. exact H2.
  - destruct H1 as [Hc H1]. split; [exact Hc|].
    destruct (step (ch i) st o) as [[[s1 o1] a1]|e] eqn:Es; [|exact I].
    apply IH; [exact H1|]. intros st1 os1 Hr.
    replace (S i + length t) with (i + length (o :: t)) by (cbn; lia).
    apply (H2 st1 (o1 ++ os1)). cbn [run]. rewrite Es. cbn [ebind fst snd]. rewrite Hr. reflexivity.
Qed.

(* inside an open transaction a well-bracketed script never closes it *)
Lemma nested_stays_open : forall ops, nested ops ->
    forall ch i st, depth st >= 1 -> stays_open ch i st ops.
Proof.
  induction 1 as [|o Hb|l Hl IH|l1 l2 H1 IH1 H2 IH2]; intros ch i st Hd.
  - exact I.
  - cbn [stays_open]. split.
    + destruct o; try discriminate Hb; cbn; apply Nat.eqb_neq; lia.
    + destruct (step (ch i) st o) as [[[s1 o1] a1]|e]; exact I.
  - cbn [stays_open]. split; [reflexivity|]. cbn [step].
    apply stays_open_app.
    + apply IH. prj. lia.
    + intros st1 os1 Hr. apply run_nested_depth in Hr; [|exact Hl]. prj_in Hr.
      cbn [stays_open]. split.
      * cbn. apply Nat.eqb_neq. lia.
      * destruct (step _ st1 OEnd) as [[[s2 o2] a2]|e]; exact I.
  - apply stays_open_app; [apply IH1; exact Hd|].
    intros st1 os1 Hr. apply IH2. apply run_nested_depth in Hr; [|exact H1]. lia.
Qed.

(* the sends of a whole closure transaction: everything sent between the outermost OBegin and its OEnd is
   injected, in send order, whatever the nesting *)
Lemma txn_injects_sends : forall ch i st ops st1 os1,
    quiescent st -> nested ops ->
    run ch i st (OBegin :: ops) = EV (st1, os1) ->
    depth st1 = 1 /\ sends st1 = flat_map sent ops /\ posts st1 = flat_map posted ops /\
    closes st1 OEnd = true /\ Forall passive os1 /\
    forall ch', step ch' st1 OEnd =
                (elet e <- end_outer ch' st1; EV (fst (fst e), snd (fst e), snd e)) /\
                end_outer ch' st1 =
                (elet r <- close_txn st1 (flat_map sent ops) (flat_map posted ops);
                 run_deferred 200 ch' (r_state r) (r_deferred r) (r_obs r)).
Proof.
  intros ch i st ops st1 os1 (Q1 & Q2 & Q3 & _) Hn H.
  cbn [run step] in H. cbn [ebind fst snd] in H. ebind_inv H r' Er'. injection H as <- <-. destruct r' as [s2 o2]. prj.
  assert (Hop : stays_open ch (S i) (set_depth st (S (depth st))) ops) by (apply nested_stays_open; [exact Hn | prj; lia]).
  pose proof (run_nested_depth _ Hn _ _ _ _ _ Er') as Hd. prj_in Hd.
  destruct (open_run_sends _ _ _ _ _ _ Hop Er') as (Hs & Hp & _ & Hpa). prj_in Hs. prj_in Hp.
  rewrite Q2 in Hs. rewrite Q3 in Hp. cbn [app] in Hs, Hp. rewrite Q1 in Hd.
  assert (Hc : closes s2 OEnd = true) by (cbn; rewrite Hd; reflexivity).
  repeat split; auto.
  - rewrite step_closing by exact Hc. cbn [prelude ebind fst snd]. reflexivity.
  - unfold end_outer. rewrite Hs, Hp. reflexivity.
Qed.

(* ------------------------------------------------------------------ cells: what close_txn commits *)

Lemma alookup_app : forall A (a b : list (nat * A)) k,
    alookup (a ++ b) k = match alookup a k with Some v => Some v | None => alookup b k end.
Proof.
  induction a as [|[k' v'] t IH]; intros b k; cbn; [reflexivity|].
  destruct (Nat.eqb k k'); [reflexivity | apply IH].
Qed.

Lemma alookup_filter_snd : forall A (p : A -> bool) (l : list (nat * A)) c d,
    alookup l c = Some d -> p d = true -> alookup (filter (fun kd => p (snd kd)) l) c = Some d.
Proof.
  induction l as [|[k v] t IH]; intros c d H Hp; cbn in H; [discriminate|].
  cbn [filter snd]. destruct (Nat.eqb c k) eqn:E.
  - injection H as ->. rewrite Hp. cbn. rewrite E. reflexivity.
  - destruct (p v); [cbn; rewrite E|]; apply IH; auto.
Qed.

Lemma alookup_concat_absent : forall (gk : nat -> ev (list (nat * val))) (l : list (nat * def)) nv c,
    (forall k y, gk k = EV y -> y = [] \/ exists v, y = [(k, v)]) ->
    Forall2 (fun kd y => gk (fst kd) = EV y) l nv ->
    gk c = EV [] -> alookup (concat nv) c = None.
Proof.
  intros gk l nv c Hshape HF Hc. induction HF as [|[k dk] y l nv Hy HF IH]; [reflexivity|].
  cbn [fst] in Hy. cbn [concat]. rewrite alookup_app.
  destruct (Hshape _ _ Hy) as [->|[v ->]]; [exact IH|].
  cbn. destruct (Nat.eqb c k) eqn:E; [|exact IH].
  apply Nat.eqb_eq in E; subst k. rewrite Hc in Hy. discriminate.
Qed.

Lemma alookup_concat_keyed : forall (gk : nat -> ev (list (nat * val))) (l : list (nat * def)) nv c d,
    (forall k y, gk k = EV y -> y = [] \/ exists v, y = [(k, v)]) ->
    Forall2 (fun kd y => gk (fst kd) = EV y) l nv ->
    alookup l c = Some d ->
    exists y, gk c = EV y /\ alookup (concat nv) c = alookup y c.
Proof.
  intros gk l nv c d Hshape HF. induction HF as [|[k dk] y l nv Hy HF IH]; intros Hl; cbn in Hl; [discriminate|].
  cbn [fst] in Hy. cbn [concat]. rewrite alookup_app. destruct (Nat.eqb c k) eqn:E.
  - apply Nat.eqb_eq in E; subst k. exists y. split; [exact Hy|].
    destruct (Hshape _ _ Hy) as [->|[v ->]].
    + cbn. eapply alookup_concat_absent; eauto.
    + cbn. rewrite Nat.eqb_refl. reflexivity.
  - destruct (IH Hl) as (y' & Hy' & Hal). exists y'. split; [exact Hy'|].
    destruct (Hshape _ _ Hy) as [->|[v ->]]; cbn; [exact Hal|]. rewrite E. exact Hal.
Qed.

(* keys of the committed values are keys of cell definitions *)
Lemma concat_keys_sub : forall (gk : nat -> ev (list (nat * val))) (l : list (nat * def)) nv c,
    (forall k y, gk k = EV y -> y = [] \/ exists v, y = [(k, v)]) ->
    Forall2 (fun kd y => gk (fst kd) = EV y) l nv ->
    In c (keys (concat nv)) -> In c (keys l).
Proof.
  intros gk l nv c Hshape HF. induction HF as [|[k dk] y l nv Hy HF IH]; intros Hin; [destruct Hin|].
  cbn [fst] in Hy. cbn [concat] in Hin. unfold keys in Hin. rewrite map_app in Hin.
  apply in_app_or in Hin as [Hin|Hin].
  - destruct (Hshape _ _ Hy) as [->|[v ->]]; [destruct Hin|]. cbn in Hin. left. cbn. tauto.
  - right. apply IH. exact Hin.
Qed.

Definition commit_of (st : state) (inj : list (nat * val)) (k : nat) : ev (list (nat * val)) :=
  elet u <- upd st inj (F st) k;
  match u with
  | Some v => EV [(k, v)]
  | None => match cur st (F st) k with
            | EV v => EV [(k, v)]
            | EErr SampledBeforeLoop => EV []
            | EErr e => EErr e
            end
  end.

Lemma commit_of_shape : forall st inj k y, commit_of st inj k = EV y -> y = [] \/ exists v, y = [(k, v)].
Proof.
  intros st inj k y H. unfold commit_of in H. ebind_inv H u Eu. destruct u as [v|].
  - injection H as <-. eauto.
  - destruct (cur st (F st) k) as [v|[]]; try discriminate H; injection H as <-; eauto.
Qed.

(* the value close_txn commits for a cell: its update if it has one, else its current value *)
Lemma close_cvals : forall st inj ps r c d,
    close_txn st inj ps = EV r -> alookup (defs st) c = Some d -> is_cell d = true ->
    alookup (cvals (r_state r)) c =
    match upd st inj (F st) c with
    | EV (Some v) => Some v
    | _ => match cur st (F st) c with EV v => Some v | EErr _ => None end
    end.
Proof.
  intros st inj ps r c d H Hd Hc.
  apply close_txn_inv in H as (calls & nv & lzs & onces & defers & _ & E2 & _ & _ & _ & ->).
  unfold closed_state; prj.
  unfold newvals_of in E2. apply emap_Forall2 in E2.
  destruct (alookup_concat_keyed (commit_of st inj) _ nv c d (commit_of_shape st inj) E2) as (y & Hy & ->).
  { apply alookup_filter_snd; assumption. }
  unfold commit_of in Hy. destruct (upd st inj (F st) c) as [[v|]|e]; cbn [ebind] in Hy.
  - injection Hy as <-. cbn. rewrite Nat.eqb_refl. reflexivity.
  - destruct (cur st (F st) c) as [v|[]]; try discriminate Hy; injection Hy as <-; cbn; rewrite ?Nat.eqb_refl; reflexivity.
  - discriminate.
Qed.

Lemma close_cvals_absent : forall st inj ps r c,
    close_txn st inj ps = EV r -> alookup (defs st) c = None -> alookup (cvals (r_state r)) c = None.
Proof.
  intros st inj ps r c H Hd.
  apply close_txn_inv in H as (calls & nv & lzs & onces & defers & _ & E2 & _ & _ & _ & ->).
  unfold closed_state; prj.
  unfold newvals_of in E2. apply emap_Forall2 in E2.
  apply alookup_None. intros Hin.
  apply (concat_keys_sub (commit_of st inj) _ nv c (commit_of_shape st inj) E2) in Hin.
  apply keys_filter_sub in Hin. apply alookup_None in Hd. contradiction.
Qed.

(* ------------------------------------------------------------------ a cell sink = hold over a sink *)

Lemma upd_hold_sink : forall st inj c k co,
    alookup (defs st) c = Some (DHold k) -> alookup (defs st) k = Some (DSink co) ->
    upd st inj (F st) c = EV (coalesce co (injected inj k)).
Proof.
  intros st inj c k co Hc Hk. unfold F. rewrite upd_S. unfold def_of at 1. rewrite Hc. cbn [ebind].
  apply occ_sink. exact Hk.
Qed.

(* before any send: the initial value *)
Lemma hold_initial : forall st c k v0 st1 os f,
    alookup (cvals st) c = None ->
    body st (OHold c k v0) = EV (st1, os) ->
    cur st1 (S f) c = EV v0 /\ os = [].
Proof.
  intros st c k v0 st1 os f Hcv H. cbn [body] in H. injection H as <- <-. split; [|reflexivity].
  rewrite cur_S. prj. rewrite Hcv. unfold def_of. prj. rewrite alookup_aset, Nat.eqb_refl. cbn [ebind].
  rewrite alookup_aset, Nat.eqb_refl. reflexivity.
Qed.

(* the commit of a cell sink: the coalesced sends if there were any, else what it was *)
Lemma cell_sink_commit : forall st inj ps r c k co,
    close_txn st inj ps = EV r ->
    alookup (defs st) c = Some (DHold k) -> alookup (defs st) k = Some (DSink co) ->
    alookup (cvals (r_state r)) c =
    match coalesce co (injected inj k) with
    | Some v => Some v
    | None => match cur st (F st) c with EV v => Some v | EErr _ => None end
    end.
Proof.
  intros st inj ps r c k co H Hc Hk.
  rewrite (close_cvals _ _ _ _ c (DHold k) H Hc eq_refl).
  rewrite (upd_hold_sink _ _ _ _ _ Hc Hk). destruct (coalesce co (injected inj k)); reflexivity.
Qed.

Lemma cell_sink_last_sent : forall st inj ps r c k d,
    close_txn st inj ps = EV r ->
    alookup (defs st) c = Some (DHold k) -> alookup (defs st) k = Some (DSink None) ->
    injected inj k <> [] ->
    alookup (cvals (r_state r)) c = Some (last (injected inj k) d) /\
    forall f, cur (r_state r) (S f) c = EV (last (injected inj k) d).
Proof.
  intros st inj ps r c k d H Hc Hk Hne.
  pose proof (cell_sink_commit _ _ _ _ _ _ _ H Hc Hk) as E.
  rewrite (coalesce_none_last _ d Hne) in E. split; [exact E|].
  intros f. rewrite cur_S, E. reflexivity.
Qed.

Lemma cell_sink_keeps : forall st inj ps r c k co v,
    close_txn st inj ps = EV r ->
    alookup (defs st) c = Some (DHold k) -> alookup (defs st) k = Some (DSink co) ->
    injected inj k = [] -> alookup (cvals st) c = Some v ->
    alookup (cvals (r_state r)) c = Some v.
Proof.
  intros st inj ps r c k co v H Hc Hk Hno Hv.
  rewrite (cell_sink_commit _ _ _ _ _ _ _ H Hc Hk), Hno. cbn [coalesce].
  unfold F. rewrite cur_S, Hv. reflexivity.
Qed.

(* the sources of deferred events are the defer / split definitions *)
Lemma Forall2_In_r : forall A B (R : A -> B -> Prop) l ys y,
    Forall2 R l ys -> In y ys -> exists x, In x l /\ R x y.
Proof.
  induction 1 as [|x0 y0 l ys H0 HF IH]; intros Hin; [destruct Hin|].
  destruct Hin as [<-|Hin]; [exists x0; split; [left; reflexivity | exact H0]|].
  destruct (IH Hin) as (x & Hx & HR). exists x; split; [right; exact Hx | exact HR].
Qed.

Lemma deferred_sources : forall st inj ps r h v,
    close_txn st inj ps = EV r -> In (DEvent h v) (r_deferred r) ->
    exists a, In (h, DDefer a) (defs st) \/ In (h, DSplit a) (defs st).
Proof.
  intros st inj ps r h v H Hin.
  apply close_txn_inv in H as (calls & nv & lzs & onces & defers & _ & _ & _ & _ & E5 & ->). prj_in Hin.
  apply in_app_or in Hin as [Hin|Hin].
  - apply in_concat in Hin as (y & Hy & Hd). unfold defers_of in E5. apply emap_Forall2 in E5.
    destruct (Forall2_In_r _ _ _ _ _ _ E5 Hy) as ([k dk] & Hk & HR). cbn [fst snd] in HR.
    apply in_rev in Hk.
    destruct dk; try (injection HR as <-; destruct Hd).
    + ebind_inv HR o Eo. injection HR as <-. destruct o as [w|]; [|destruct Hd].
      destruct Hd as [Hd|[]]. injection Hd as <- <-. exists s. left; exact Hk.
    + ebind_inv HR o Eo. injection HR as <-. exists s. right.
      destruct o as [w|]; [|destruct Hd].
      assert (Hh : h = k).
      { destruct w; try (destruct Hd as [Hd|[]]; injection Hd as <- <-; reflexivity).
        apply in_map_iff in Hd as (x & Hx & _). injection Hx as <- <-. reflexivity. }
      subst h. exact Hk.
  - unfold posts_items in Hin. apply in_map_iff in Hin as (x & Hx & _). discriminate.
Qed.

Definition event_not_on (k : nat) (d : ditem) : Prop :=
  match d with DEvent h _ => h <> k | DPost _ _ => True end.

Lemma deferred_not_on_sink : forall st inj ps r k co,
    NoDup (keys (defs st)) -> alookup (defs st) k = Some (DSink co) ->
    close_txn st inj ps = EV r -> Forall (event_not_on k) (r_deferred r).
Proof.
  intros st inj ps r k co ND Hk H. rewrite Forall_forall. intros [h v|kk cs] Hin; [|exact I].
  cbn. intros ->. destruct (deferred_sources _ _ _ _ _ _ H Hin) as (a & [Ha|Ha]);
    apply In_alookup_NoDup in Ha; auto; congruence.
Qed.

(* once committed, a cell sink keeps its value through the deferred transactions of the step *)
Lemma cell_sink_stable_deferred : forall f ch st q acc st' os a c k co v,
    NoDup (keys (defs st)) ->
    alookup (defs st) c = Some (DHold k) -> alookup (defs st) k = Some (DSink co) ->
    alookup (cvals st) c = Some v -> Forall (event_not_on k) q ->
    run_deferred f ch st q acc = EV (st', os, a) ->
    defs st' = defs st /\ alookup (cvals st') c = Some v.
Proof.
  intros f ch st q acc st' os a c k co v ND Hc Hk Hv HQ H.
  pose proof (run_deferred_inv
                (fun s => defs s = defs st /\ alookup (cvals s) c = Some v)
                (event_not_on k) (fun _ => True)) as Hinv.
  eapply Hinv in H as [HP _]; [exact HP | | | split; [reflexivity | exact Hv] | exact HQ | ].
  - intros s h w r [Hd Hcv] Hsrc Hr. split; [|split].
    + destruct (close_txn_frame _ _ _ _ Hr) as (Fd & _). split; [congruence|].
      eapply cell_sink_keeps; eauto; try (rewrite Hd; eassumption).
      cbn. cbn in Hsrc. destruct (Nat.eqb h k) eqn:E; [apply Nat.eqb_eq in E; congruence | reflexivity].
    + eapply (deferred_not_on_sink s [(h, w)] [] r k co); [rewrite Hd; exact ND | rewrite Hd; exact Hk | exact Hr].
    + rewrite Forall_forall; intros; exact I.
  - intros; exact I.
  - rewrite Forall_forall; intros; exact I.
Qed.

(* a whole step that sends to the sink of a cell sink, outside any transaction: afterwards the cell holds
   the value sent *)
Lemma cell_sink_send_step : forall ch st c k v st' os a,
    quiescent st -> NoDup (keys (defs st)) ->
    alookup (defs st) c = Some (DHold k) -> alookup (defs st) k = Some (DSink None) ->
    step ch st (OSend k v) = EV (st', os, a) ->
    alookup (cvals st') c = Some v /\ (forall f, cur st' (S f) c = EV v).
Proof.
  intros ch st c k v st' os a (Q1 & Q2 & _) ND Hc Hk H.
  assert (C : closes st (OSend k v) = true) by (cbn; rewrite Q1; reflexivity).
  rewrite step_closing in H by exact C. cbn [prelude body ebind fst snd] in H.
  ebind_inv H e Ee. injection H as <- <- <-. destruct e as [[s2 o2] a2]. prj.
  unfold end_outer in Ee. prj_in Ee. rewrite Q2 in Ee. cbn [app] in Ee. ebind_inv Ee r Er.
  set (stA := mkState _ _ _ _ _ _ _ _ _ _ _ _ _) in *.
  assert (HcA : alookup (defs stA) c = Some (DHold k)) by exact Hc.
  assert (HkA : alookup (defs stA) k = Some (DSink None)) by exact Hk.
  assert (Hne : injected [(k, v)] k <> []) by (cbn; rewrite Nat.eqb_refl; discriminate).
  destruct (cell_sink_last_sent _ _ _ _ _ _ v Er HcA HkA Hne) as [Hcv _].
  assert (Hl : last (injected [(k, v)] k) v = v) by (cbn; rewrite Nat.eqb_refl; reflexivity).
  rewrite Hl in Hcv.
  destruct (close_txn_frame _ _ _ _ Er) as (Fd & _).
  assert (E : alookup (cvals s2) c = Some v).
  { eapply cell_sink_stable_deferred in Ee as [_ E]; [exact E | | | | exact Hcv | ].
    - rewrite Fd. exact ND.
    - rewrite Fd. exact HcA.
    - rewrite Fd. exact HkA.
    - eapply deferred_not_on_sink; [| |exact Er]; [exact ND | exact HkA]. }
  split; [exact E|]. intros f. rewrite cur_S, E. reflexivity.
Qed.

(* the two definitions the driver creates for a cell sink, each its own transaction, on fresh slots *)
Lemma cell_sink_created : forall ch i st k c v0 st2 os,
    quiescent st -> NoDup (keys (defs st)) -> k <> c ->
    alookup (defs st) c = None -> alookup (cvals st) c = None ->
    run ch i st [ODef k (DSink None); OHold c k v0] = EV (st2, os) ->
    alookup (defs st2) c = Some (DHold k) /\ alookup (defs st2) k = Some (DSink None) /\
    alookup (cvals st2) c = Some v0 /\ (forall f, cur st2 (S f) c = EV v0) /\ quiescent st2.
Proof.
  intros ch i st k c v0 st2 os Hq ND Hkc Hdc Hcc H.
  cbn [run] in H. ebind_inv H r1 E1. ebind_inv H r2 E2. injection H as <- <-.
  destruct r1 as [[s1 o1] a1]. prj_in E2. ebind_inv E2 r3 E3. cbn [run ebind] in E2. injection E2 as <-.
  destruct r3 as [[s3 o3] a3]. prj.
  destruct Hq as (Q1 & Q2 & Q3 & Q4 & Q5 & Q6).
  (* first step: define the sink *)
  assert (C1 : closes st (ODef k (DSink None)) = true) by (cbn; rewrite Q1; reflexivity).
  pose proof (step_closing_quiescent _ _ _ _ _ _ C1 E1) as Hq1.
  rewrite step_closing in E1 by exact C1. cbn [prelude body ebind fst snd] in E1.
  ebind_inv E1 e1 Ee1. injection E1 as <- <- <-. destruct e1 as [[s1 o1'] a1']. prj_in Hq1. prj_in E3.
  unfold end_outer in Ee1. ebind_inv Ee1 r Er.
  set (stA := with_defs (set_depth st 1) k (DSink None)) in *.
  assert (NDA : NoDup (keys (defs stA))) by (subst stA; prj; apply NoDup_keys_aset; exact ND).
  assert (HdA : alookup (defs stA) c = None).
  { subst stA. prj. rewrite alookup_aset. destruct (Nat.eqb c k) eqn:E; [apply Nat.eqb_eq in E; congruence | exact Hdc]. }
  assert (HkA : alookup (defs stA) k = Some (DSink None)).
  { subst stA. prj. rewrite alookup_aset, Nat.eqb_refl. reflexivity. }
  pose proof (close_cvals_absent _ _ _ _ c Er HdA) as Hc1.
  destruct (close_txn_frame _ _ _ _ Er) as (Fd & _).
  assert (Hinv : defs s1 = defs stA /\ alookup (cvals s1) c = None).
  { pose proof (run_deferred_inv
                  (fun s => defs s = defs stA /\ alookup (cvals s) c = None) (fun _ => True) (fun _ => True)) as Hinv.
    eapply Hinv in Ee1 as [HP _]; [exact HP | | | split; assumption | | ].
    - intros s h v r' [Hd Hcv] _ Hr'. split; [|split; rewrite Forall_forall; intros; exact I].
      destruct (close_txn_frame _ _ _ _ Hr') as (Fd' & _). split; [congruence|].
      eapply close_cvals_absent; eauto. rewrite Hd. exact HdA.
    - intros; exact I.
    - rewrite Forall_forall; intros; exact I.
    - rewrite Forall_forall; intros; exact I. }
  destruct Hinv as [Hd1 Hcv1].
  (* second step: the hold *)
  destruct Hq1 as (R1 & R2 & R3 & R4 & R5 & R6).
  assert (C2 : closes s1 (OHold c k v0) = true) by (cbn; rewrite R1; reflexivity).
  pose proof (step_closing_quiescent _ _ _ _ _ _ C2 E3) as Hq3.
  rewrite step_closing in E3 by exact C2. cbn [prelude ebind fst snd] in E3.
  ebind_inv E3 b Eb. ebind_inv E3 e3 Ee3. injection E3 as <- <- <-. destruct b as [sB oB], e3 as [[s3 o3'] a3']. prj.
  prj_in Ee3. prj_in Hq3.
  pose proof (hold_initial (set_depth s1 1) c k v0 sB oB (S (length (defs sB))) Hcv1 Eb) as [HcurB _].
  cbn [body] in Eb. injection Eb as <- <-.
  set (stB := mkState _ _ _ _ _ _ _ _ _ _ _ _ _) in *.
  assert (NDB : NoDup (keys (defs stB))).
  { subst stB. prj. apply NoDup_keys_aset. rewrite Hd1. exact NDA. }
  assert (HcB : alookup (defs stB) c = Some (DHold k)).
  { subst stB. prj. rewrite alookup_aset, Nat.eqb_refl. reflexivity. }
  assert (HkB : alookup (defs stB) k = Some (DSink None)).
  { subst stB. prj. rewrite alookup_aset. destruct (Nat.eqb k c) eqn:E; [apply Nat.eqb_eq in E; congruence|].
    rewrite Hd1. exact HkA. }
  assert (HsB : sends stB = []) by (subst stB; prj; exact R2).
  unfold end_outer in Ee3. ebind_inv Ee3 r' Er'. rewrite HsB in Er'.
  pose proof (cell_sink_commit _ _ _ _ _ _ _ Er' HcB HkB) as Hcommit. cbn [injected filter map coalesce] in Hcommit.
  fold (F stB) in HcurB. rewrite HcurB in Hcommit.
  destruct (close_txn_frame _ _ _ _ Er') as (Fd' & _).
  eapply cell_sink_stable_deferred in Ee3 as [HdF HcF]; [ | | | | exact Hcommit | ].
  - repeat split; try apply Hq3; try congruence.
    intros f. rewrite cur_S, HcF. reflexivity.
  - rewrite Fd'. exact NDB.
  - rewrite Fd'. exact HcB.
  - rewrite Fd'. exact HkB.
  - eapply deferred_not_on_sink; [| |exact Er']; [exact NDB | exact HkB].
Qed.

(* ------------------------------------------------------------------ the values sent to one sink, in order *)

Definition values_sent_to (s : nat) (ops : list op) : list val :=
  flat_map (fun o => match o with OSend h v => if Nat.eqb h s then [v] else [] | _ => [] end) ops.

Lemma injected_sent : forall s ops, injected (flat_map sent ops) s = values_sent_to s ops.
Proof.
  induction ops as [|o t IH]; [reflexivity|].
  cbn [flat_map]. rewrite injected_app. unfold values_sent_to in *. cbn [flat_map]. rewrite IH. f_equal.
  destruct o; try reflexivity. cbn. destruct (Nat.eqb h s); reflexivity.
Qed.

Lemma open_run_injected : forall ch ops i st st' os s,
    stays_open ch i st ops -> run ch i st ops = EV (st', os) ->
    injected (sends st') s = injected (sends st) s ++ values_sent_to s ops.
Proof.
  intros ch ops i st st' os s Ho H. destruct (open_run_sends _ _ _ _ _ _ Ho H) as (Hs & _).
  rewrite Hs, injected_app, injected_sent. reflexivity.
Qed.

(* the fresh-slot hypothesis is needed: a reused cell key keeps its committed value *)
Lemma reused_slot_stale :
  exists st' os,
    run (fun _ => []) 0 init_state
        [ODef 0 (DSink None); OConst 5 (VInt 1); OHold 5 0 (VInt 2); OSample 5] = EV (st', os) /\
    os = [BSample 5 (VInt 1)].
Proof. eexists; eexists; split; [vm_compute; reflexivity | reflexivity]. Qed.
