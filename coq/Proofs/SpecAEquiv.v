(* The denotation of a transaction reads the tables of the state only through [alookup] / [amem]:
   lookup-equivalent states have the same [cur], [occ], [upd]. *)
From Coq Require Import List ZArith Bool Arith Lia Permutation.
Import ListNotations.
From Sodium Require Import Sodium SpecABase SpecA14.
Open Scope nat_scope.

Record steq (st st' : state) : Prop := mkSteq {
  eq_defs : forall k, alookup (defs st) k = alookup (defs st') k;
  eq_cvals : forall k, alookup (cvals st) k = alookup (cvals st') k;
  eq_inits : forall k, alookup (inits st) k = alookup (inits st') k;
  eq_linit : forall k, alookup (linit st) k = alookup (linit st') k;
  eq_lazies : forall k, alookup (lazies st) k = alookup (lazies st') k;
  eq_loops : forall k, alookup (loops st) k = alookup (loops st') k;
  eq_fired : forall k, amem (fired st) k = amem (fired st') k;
  eq_fresh : forall k, amem (fresh st) k = amem (fresh st') k;
  eq_len : length (defs st) = length (defs st')
}.

Lemma steq_refl : forall st, steq st st.
Proof. intros; constructor; reflexivity. Qed.

Lemma steq_sym : forall a b, steq a b -> steq b a.
Proof. intros a b []; constructor; intros; symmetry; auto. Qed.

Lemma steq_trans : forall a b c, steq a b -> steq b c -> steq a c.
Proof. intros a b c [] []; constructor; intros; etransitivity; eauto. Qed.

Lemma steq_F : forall st st', steq st st' -> F st = F st'.
Proof. intros st st' H. unfold F. rewrite (eq_len _ _ H). reflexivity. Qed.

Lemma cur_steq : forall st st', steq st st' -> forall f c, cur st f c = cur st' f c.
Proof.
  intros st st' H. induction f as [|f IH]; intros c; [reflexivity|].
  rewrite !cur_S. rewrite <- (eq_cvals _ _ H c). destruct (alookup (cvals st) c); [reflexivity|].
  unfold def_of. rewrite <- (eq_defs _ _ H c). destruct (alookup (defs st) c) as [d|]; [|reflexivity].
  cbn [ebind]. destruct d; try reflexivity.
  - rewrite <- (eq_inits _ _ H c). destruct (alookup (inits st) c); [reflexivity|].
    rewrite <- (eq_linit _ _ H c). destruct (alookup (linit st) c) as [z|]; [|reflexivity].
    rewrite <- (eq_lazies _ _ H z). destruct (alookup (lazies st) z) as [[[v|c'] n]|]; try reflexivity. apply IH.
  - rewrite IH. reflexivity.
  - rewrite (emap_ext _ _ (cur st f) (cur st' f) cs (fun x _ => IH x)). reflexivity.
  - rewrite IH. destruct (cur st' f c0) as [v|e]; [|reflexivity]. cbn [ebind]. destruct v; try reflexivity. apply IH.
  - rewrite <- (eq_loops _ _ H c). destruct (alookup (loops st) c); [apply IH | reflexivity].
Qed.

Lemma occ_upd_steq : forall st st' inj, steq st st' ->
    forall f, (forall s, occ st inj f s = occ st' inj f s) /\ (forall c, upd st inj f c = upd st' inj f c).
Proof.
  intros st st' inj H.
  assert (HF : F st = F st') by (apply steq_F; exact H).
  assert (Hcur : forall c, cur st (F st) c = cur st' (F st') c) by (intros c; rewrite HF; apply cur_steq; exact H).
  assert (Hcurs : forall cs, emap (cur st (F st)) cs = emap (cur st' (F st')) cs)
    by (intros cs; apply emap_ext; intros; apply Hcur).
  induction f as [|f [IHo IHu]]; [split; reflexivity|].
  split.
  - intros s. rewrite !occ_S. unfold def_of. rewrite <- (eq_defs _ _ H s).
    destruct (alookup (defs st) s) as [d|]; [|reflexivity]. cbn [ebind].
    destruct d; try reflexivity.
    + rewrite IHo. reflexivity.
    + rewrite IHo. reflexivity.
    + rewrite !IHo. reflexivity.
    + rewrite IHo. destruct (occ st' inj f s0) as [[v|]|e]; try reflexivity. cbn [ebind]. rewrite Hcurs. reflexivity.
    + rewrite IHo. destruct (occ st' inj f s0) as [[v|]|e]; try reflexivity. cbn [ebind]. rewrite Hcur. reflexivity.
    + rewrite <- (eq_fired _ _ H s). destruct (amem (fired st) s); [reflexivity | apply IHo].
    + apply IHu.
    + rewrite IHu. rewrite <- (eq_fresh _ _ H s).
      destruct (upd st' inj f c) as [[v|]|e]; try reflexivity. cbn [ebind].
      destruct (amem (fresh st) s); [|reflexivity]. rewrite Hcur. reflexivity.
    + rewrite Hcur. destruct (cur st' (F st') c) as [v|e]; [|reflexivity]. cbn [ebind].
      destruct v; try reflexivity. apply IHo.
    + rewrite <- (eq_loops _ _ H s). destruct (alookup (loops st) s); [apply IHo | reflexivity].
    + apply IHo.
    + rewrite <- (eq_defs _ _ H r). destruct (alookup (defs st) r) as [dr|]; [|reflexivity]. cbn [ebind].
      destruct dr; try reflexivity. rewrite IHo. reflexivity.
  - intros c. rewrite !upd_S. unfold def_of. rewrite <- (eq_defs _ _ H c).
    destruct (alookup (defs st) c) as [d|]; [|reflexivity]. cbn [ebind].
    destruct d; try reflexivity.
    + apply IHo.
    + rewrite IHu. reflexivity.
    + rewrite (emap_ext _ _ (upd st inj f) (upd st' inj f) cs (fun x _ => IHu x)).
      destruct (emap (upd st' inj f) cs) as [us|e]; [|reflexivity]. cbn [ebind].
      destruct (existsb _ us); [|reflexivity].
      rewrite (emap_ext _ _
                 (fun c' => elet o <- upd st inj f c'; match o with Some v => EV v | None => cur st (F st) c' end)
                 (fun c' => elet o <- upd st' inj f c'; match o with Some v => EV v | None => cur st' (F st') c' end) cs).
      * reflexivity.
      * intros x _. rewrite IHu, Hcur. reflexivity.
    + rewrite IHu. destruct (upd st' inj f c0) as [[v|]|e]; try reflexivity; cbn [ebind].
      * destruct v; try reflexivity. rewrite IHu. destruct (upd st' inj f h) as [[w|]|e]; try reflexivity.
        cbn [ebind]. rewrite Hcur. reflexivity.
      * rewrite Hcur. destruct (cur st' (F st') c0) as [v|e]; [|reflexivity]. cbn [ebind].
        destruct v; try reflexivity. apply IHu.
    + rewrite <- (eq_loops _ _ H c). destruct (alookup (loops st) c); [apply IHu | reflexivity].
Qed.

Lemma occ_steq : forall st st' inj, steq st st' -> forall f s, occ st inj f s = occ st' inj f s.
Proof. intros st st' inj H f. apply (occ_upd_steq st st' inj H f). Qed.

Lemma upd_steq : forall st st' inj, steq st st' -> forall f c, upd st inj f c = upd st' inj f c.
Proof. intros st st' inj H f. apply (occ_upd_steq st st' inj H f). Qed.

(* ------------------------------------------------------------------ states with the same tables *)

(* the transaction reads neither the depth nor the sends / posts fields *)
Lemma close_txn_same_tables : forall st st' inj ps,
    defs st' = defs st -> cvals st' = cvals st -> inits st' = inits st -> linit st' = linit st ->
    fired st' = fired st -> fresh st' = fresh st -> loops st' = loops st -> listeners st' = listeners st ->
    tdone st' = tdone st -> lazies st' = lazies st ->
    close_txn st' inj ps = close_txn st inj ps.
Proof.
  intros st st' inj ps Hd Hc Hi Hli Hf Hfr Hlo Hls Ht Hlz.
  assert (H : steq st' st) by (constructor; intros; congruence).
  assert (HF : F st' = F st) by (apply steq_F; exact H).
  assert (Hocc : forall s, occ st' inj (F st') s = occ st inj (F st) s) by (intros; rewrite HF; apply occ_steq; exact H).
  assert (Hupd : forall s, upd st' inj (F st') s = upd st inj (F st) s) by (intros; rewrite HF; apply upd_steq; exact H).
  assert (Hcur : forall s, cur st' (F st') s = cur st (F st) s) by (intros; rewrite HF; apply cur_steq; exact H).
  rewrite !close_txn_eq.
  assert (E1 : calls_of st' inj = calls_of st inj).
  { unfold calls_of. rewrite Hls. apply emap_ext. intros x _. rewrite Hocc. reflexivity. }
  assert (E2 : newvals_of st' inj = newvals_of st inj).
  { unfold newvals_of. rewrite Hd. apply emap_ext. intros x _. rewrite Hupd, Hcur. reflexivity. }
  assert (E3 : lzs_of st' = lzs_of st).
  { unfold lzs_of. rewrite Hlz. apply emap_ext. intros x _. destruct (fst (snd x)); [reflexivity|].
    rewrite Hcur. reflexivity. }
  assert (E4 : onces_of st' inj = onces_of st inj).
  { unfold onces_of. rewrite Hd. apply emap_ext. intros x _. destruct (snd x); try reflexivity.
    rewrite Hocc. reflexivity. }
  assert (E5 : defers_of st' inj = defers_of st inj).
  { unfold defers_of. rewrite Hd. apply emap_ext. intros x _. destruct (snd x); try reflexivity;
      rewrite Hocc; reflexivity. }
  rewrite E1, E2, E3, E4, E5. unfold closed_state. rewrite Hd, Hf, Hlo, Hls, Ht. reflexivity.
Qed.

Lemma close_txn_ignores_sends : forall st d s p inj ps,
    close_txn (mkState (defs st) (cvals st) (inits st) (linit st) (fired st) (fresh st) (loops st)
                       (listeners st) d (tdone st) s p (lazies st)) inj ps
    = close_txn st inj ps.
Proof. intros. apply close_txn_same_tables; reflexivity. Qed.

Lemma occ_ignores_sends : forall st d s p inj f h,
    occ (mkState (defs st) (cvals st) (inits st) (linit st) (fired st) (fresh st) (loops st)
                 (listeners st) d (tdone st) s p (lazies st)) inj f h
    = occ st inj f h.
Proof. intros. apply occ_steq. constructor; reflexivity. Qed.
