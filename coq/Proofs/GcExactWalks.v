(* C08 exactness proof: characterisation of the recursive collector walks.
   Part 1: the generic guarded walk (reset1, reset2 are instances). *)
From Coq Require Import List Arith Bool Lia.
Import ListNotations.
From Sodium Require Import Gc GcExactBase.

Definition eir (st : gstate) : Prop :=
  forall u t, u < nobjs st -> In t (edges (get st u)) -> t < nobjs st.

Section GWalk.
  Variable gd : gobj -> bool.
  Variable en : gobj -> gobj.
  Variable w : nat -> gstate -> nat -> res gstate.
  Hypothesis gd_en : forall o, gd (en o) = false.
  Hypothesis en_edges : forall o, edges (en o) = edges o.
  Hypothesis w_S : forall f st s, w (S f) st s =
    if gd (get st s) then iter (w f) (count_trace (set st s (en (get st s))) s) (edges (get st s))
    else Ok st.

  (* st' is st where some guarded objects, all in S, were entered; entered objects have all
     their children un-guarded in st' *)
  Definition GR (S : nat -> Prop) (st st' : gstate) : Prop :=
    nobjs st' = nobjs st /\ roots st' = roots st /\ to_be_freed st' = to_be_freed st /\
    forall v, get st' v = get st v \/
      (gd (get st v) = true /\ get st' v = en (get st v) /\ S v /\
       forall t, In t (edges (get st v)) -> gd (get st' t) = false).

  Lemma GR_refl S st : GR S st st.
  Proof. repeat split; auto. Qed.

  Lemma GR_edges S st st' v : GR S st st' -> edges (get st' v) = edges (get st v).
  Proof. intros (_ & _ & _ & H). destruct (H v) as [->|(_ & -> & _)]; auto. Qed.

  Lemma GR_off S st st' v : GR S st st' -> gd (get st v) = false -> get st' v = get st v.
  Proof. intros (_ & _ & _ & H) G. destruct (H v) as [|(G' & _)]; auto. congruence. Qed.

  Lemma GR_off' S st st' v : GR S st st' -> gd (get st v) = false -> gd (get st' v) = false.
  Proof. intros H G. rewrite (GR_off _ _ _ _ H G). auto. Qed.

  Lemma GR_trans S a b c : GR S a b -> GR S b c -> GR S a c.
  Proof.
    intros Hab Hbc. pose proof Hab as (N1 & R1 & T1 & H1). pose proof Hbc as (N2 & R2 & T2 & H2).
    split; [congruence|]. split; [congruence|]. split; [congruence|]. intros v.
    destruct (H1 v) as [E1|(G1 & E1 & S1 & C1)].
    - destruct (H2 v) as [E2|(G2 & E2 & S2 & C2)].
      + left; congruence.
      + right. rewrite E1 in *. repeat split; auto.
    - right. repeat split; auto.
      + rewrite <- E1. apply (GR_off S b c v Hbc). rewrite E1. apply gd_en.
      + intros t Ht. apply (GR_off' S b c t Hbc). auto.
  Qed.

  Lemma GR_weaken (S S' : nat -> Prop) st st' : (forall v, S v -> S' v) -> GR S st st' -> GR S' st st'.
  Proof.
    intros Sub (N & R & T & H). repeat split; auto. intros v.
    destruct (H v) as [|(A & B & C & D)]; [left; auto|right; repeat split; auto].
  Qed.

  Lemma GR_count S st st' : GR S st st' -> count gd st' <= count gd st.
  Proof.
    intros (N & _ & _ & H). unfold count. rewrite N. apply sumf_le. intros i _.
    destruct (H i) as [->|(G & -> & _)]; [lia|]. rewrite gd_en, G. lia.
  Qed.

  Lemma GR_eir S st st' : GR S st st' -> eir st -> eir st'.
  Proof.
    intros H Ei u t Hu Hin. pose proof H as (N & _). rewrite N in *.
    rewrite (GR_edges _ _ _ _ H) in Hin. eauto.
  Qed.

  Lemma GR_reach S st st' a b : GR S st st' -> reach (E st') a b -> reach (E st) a b.
  Proof.
    intros H. apply reach_mono. intros u t. unfold E. rewrite (GR_edges _ _ _ _ H). auto.
  Qed.

  Theorem gwalk_spec : forall fuel st s,
    count gd st < fuel -> eir st -> s < nobjs st ->
    exists st', w fuel st s = Ok st' /\ GR (reach (E st) s) st st' /\ gd (get st' s) = false.
  Proof.
    induction fuel as [|f IH]; intros st s Hc Ei Hs; [lia|].
    rewrite w_S. destruct (gd (get st s)) eqn:G.
    2:{ exists st. repeat split; auto. }
    remember (get st s) as o eqn:Ho.
    remember (count_trace (set st s (en o)) s) as st1 eqn:Hst1.
    assert (N1 : nobjs st1 = nobjs st) by (subst st1; rewrite nobjs_count_trace, nobjs_set; auto).
    assert (G1s : get st1 s = en o) by (subst st1; rewrite get_count_trace, get_set_same; auto).
    assert (G1o : forall v, v <> s -> get st1 v = get st v)
      by (intros; subst st1; rewrite get_count_trace, get_set_other; auto).
    assert (C1 : count gd st1 < f).
    { pose proof (count_set gd st s (en o) Hs) as X. rewrite <- Ho, G, gd_en in X.
      subst st1. unfold count in *. rewrite nobjs_count_trace.
      change (fun u => if gd (get (count_trace (set st s (en o)) s) u) then 1 else 0)
        with (fun u => if gd (get (set st s (en o)) u) then 1 else 0). lia. }
    assert (E1 : forall v, edges (get st1 v) = edges (get st v)).
    { intros v. destruct (Nat.eq_dec v s) as [->|Ne]; [rewrite G1s, en_edges, Ho; auto|rewrite G1o; auto]. }
    assert (Ei1 : eir st1).
    { intros u t Hu Hin. rewrite N1 in *. rewrite E1 in Hin. eauto. }
    set (Sr := reach (E st) s).
    set (Inv := fun (rest : list nat) (st2 : gstate) => (forall t, In t rest -> In t (edges o)) /\ GR Sr st1 st2).
    set (Q := fun (st2 : gstate) (t : nat) => gd (get st2 t) = false).
    assert (Qm : forall a b t, GR Sr a b -> Q a t -> Q b t).
    { intros a b t Hab Hq. eapply GR_off'; eauto. }
    assert (Step : forall st2 t rest, Inv (t :: rest) st2 ->
              exists st3, w f st2 t = Ok st3 /\ Inv rest st3 /\ GR Sr st2 st3 /\ Q st3 t).
    { intros st2 t rest (Hr & G12).
      assert (Hto : In t (edges o)) by (apply Hr; left; auto).
      assert (Ht : t < nobjs st2).
      { destruct G12 as (-> & _). rewrite N1. apply (Ei s t Hs). rewrite <- Ho; auto. }
      destruct (IH st2 t) as (st3 & Eq3 & G23 & Q3); auto.
      { pose proof (GR_count _ _ _ G12). lia. }
      { eapply GR_eir; eauto. }
      assert (G23' : GR Sr st2 st3).
      { eapply GR_weaken; [|exact G23]. intros v Hv. unfold Sr.
        apply (GR_reach _ _ _ _ _ G12) in Hv.
        eapply reach_step with (t := t).
        - unfold E. rewrite <- Ho. exact Hto.
        - revert Hv. apply reach_mono. intros u x. unfold E. rewrite E1. auto. }
      exists st3. split; [exact Eq3|].
      split; [split; [intros x Hx; apply Hr; right; auto | eapply GR_trans; eauto]|].
      split; [exact G23'|exact Q3]. }
    destruct (iter_spec (w f) Inv (GR Sr) Q (GR_refl Sr) (GR_trans Sr) Qm Step (edges o) st1)
      as (st' & Eq & (_ & GR1) & _ & Qs).
    { split; [auto|apply GR_refl]. }
    exists st'. split; [exact Eq|].
      pose proof GR1 as (N' & R' & T' & H').
      split.
      + split; [congruence|]. split; [subst st1; exact R'|]. split; [subst st1; exact T'|].
        intros v. destruct (Nat.eq_dec v s) as [->|Ne].
        * right. rewrite <- Ho. split; auto. split.
          { rewrite <- G1s. eapply GR_off; eauto. rewrite G1s; apply gd_en. }
          split; [apply reach_refl|]. intros t Ht. apply Qs; auto.
        * destruct (H' v) as [Ev|(A & B & C & D)].
          { left. rewrite Ev. apply G1o; auto. }
          { right. rewrite (G1o v Ne) in *. repeat split; auto. }
      + rewrite <- (gd_en o), <- G1s. f_equal. eapply GR_off; eauto. rewrite G1s; apply gd_en.
  Qed.

  Definition reachs (e : nat -> list nat) (rs : list nat) (v : nat) : Prop :=
    exists r, In r rs /\ reach e r v.

  Theorem gwalks_spec : forall fuel rs st,
    count gd st < fuel -> eir st -> (forall r, In r rs -> r < nobjs st) ->
    exists st', iter (w fuel) st rs = Ok st' /\ GR (reachs (E st) rs) st st' /\
                forall r, In r rs -> gd (get st' r) = false.
  Proof.
    intros fuel rs st Hc Ei Hr.
    set (Sr := reachs (E st) rs).
    set (Inv := fun (rest : list nat) (st2 : gstate) => (forall t, In t rest -> In t rs) /\ GR Sr st st2).
    set (Q := fun (st2 : gstate) (t : nat) => gd (get st2 t) = false).
    assert (Qm : forall a b t, GR Sr a b -> Q a t -> Q b t).
    { intros a b t Hab Hq. eapply GR_off'; eauto. }
    assert (Step : forall st2 t rest, Inv (t :: rest) st2 ->
              exists st3, w fuel st2 t = Ok st3 /\ Inv rest st3 /\ GR Sr st2 st3 /\ Q st3 t).
    { intros st2 t rest (Hin & G12).
      assert (Ht : In t rs) by (apply Hin; left; auto).
      destruct (gwalk_spec fuel st2 t) as (st3 & Eq3 & G23 & Q3).
      { pose proof (GR_count _ _ _ G12). lia. }
      { eapply GR_eir; eauto. }
      { destruct G12 as (-> & _). auto. }
      assert (G23' : GR Sr st2 st3).
      { eapply GR_weaken; [|exact G23]. intros v Hv. exists t. split; auto.
        eapply GR_reach; eauto. }
      exists st3. split; [exact Eq3|].
      split; [split; [intros x Hx; apply Hin; right; auto | eapply GR_trans; eauto]|].
      split; [exact G23'|exact Q3]. }
    destruct (iter_spec (w fuel) Inv (GR Sr) Q (GR_refl Sr) (GR_trans Sr) Qm Step rs st)
      as (st' & Eq & (_ & GR1) & _ & Qs).
    { split; [auto|apply GR_refl]. }
    exists st'. auto.
  Qed.

  (* if everything reachable from rs is guarded, everything reachable is entered *)
  Lemma GR_closed rs st st' :
    GR (reachs (E st) rs) st st' -> (forall r, In r rs -> gd (get st' r) = false) ->
    (forall v, reachs (E st) rs v -> gd (get st v) = true) ->
    forall v, reachs (E st) rs v -> get st' v = en (get st v).
  Proof.
    intros G Q All.
    assert (C : forall a b, reach (E st) a b -> (reachs (E st) rs a /\ gd (get st' a) = false) ->
                            (reachs (E st) rs b /\ gd (get st' b) = false)).
    { intros a b Rab. apply (reach_closed (E st) (fun x => reachs (E st) rs x /\ gd (get st' x) = false) a b); [|exact Rab].
      intros u t (Ru & Pu) Hin. split.
      - destruct Ru as (r & Hr & Rr). exists r. split; auto. eapply reach_last; eauto.
      - pose proof G as (_ & _ & _ & H). destruct (H u) as [Eu|(_ & _ & _ & Cl)].
        + rewrite Eu, (All u Ru) in Pu. discriminate.
        + apply Cl. exact Hin. }
    intros v (r & Hr & Rv).
    destruct (C r v Rv) as (Rv' & Pv).
    { split; [exists r; split; [auto|apply reach_refl]|auto]. }
    pose proof G as (_ & _ & _ & H). destruct (H v) as [Ev|(_ & Ev & _)]; auto.
    rewrite Ev, (All v Rv') in Pv. discriminate.
  Qed.
End GWalk.

(* ---- instances: reset1 / reset2 ---- *)
Definition r1_gd (o : gobj) : bool := negb (visited o).
Definition r1_en (o : gobj) : gobj := set_adj (set_visited o true) 0.
Definition r2_gd (o : gobj) : bool := visited o.
Definition r2_en (o : gobj) : gobj := set_visited o false.

Lemma reset1_S f st s : reset1 (S f) st s =
  if r1_gd (get st s) then iter (reset1 f) (count_trace (set st s (r1_en (get st s))) s) (edges (get st s))
  else Ok st.
Proof. cbn [reset1]. unfold r1_gd, r1_en. destruct (visited (get st s)); reflexivity. Qed.

Lemma reset2_S f st s : reset2 (S f) st s =
  if r2_gd (get st s) then iter (reset2 f) (count_trace (set st s (r2_en (get st s))) s) (edges (get st s))
  else Ok st.
Proof. cbn [reset2]. unfold r2_gd, r2_en. destruct (visited (get st s)); reflexivity. Qed.

Definition reset1s_spec := gwalks_spec r1_gd r1_en reset1 (fun o => eq_refl) (fun o => eq_refl) reset1_S.
Definition reset2s_spec := gwalks_spec r2_gd r2_en reset2 (fun o => eq_refl) (fun o => eq_refl) reset2_S.

(* reset1 then reset2 over the same root list, from a state with no visited flags:
   the objects reachable from rs get adj := 0, nothing else changes *)
Theorem reset12_spec fuel rs st :
  nobjs st < fuel -> eir st -> (forall r, In r rs -> r < nobjs st) ->
  (forall v, visited (get st v) = false) ->
  exists st1 st2, iter (reset1 fuel) st rs = Ok st1 /\ iter (reset2 fuel) st1 rs = Ok st2 /\
    nobjs st1 = nobjs st /\
    nobjs st2 = nobjs st /\ roots st2 = roots st /\ to_be_freed st2 = to_be_freed st /\
    forall v, (get st2 v = get st v /\ (reachs (E st) rs v -> adj (get st v) = 0)) \/
              (get st2 v = set_adj (get st v) 0 /\ reachs (E st) rs v).
Proof.
  intros Hf Ei Hr Hv.
  destruct (reset1s_spec fuel rs st) as (st1 & Eq1 & G1 & Q1); auto.
  { pose proof (count_le_nobjs r1_gd st). lia. }
  pose proof G1 as (N1 & R1 & T1 & H1).
  assert (Ei1 : eir st1) by (eapply GR_eir; eauto; reflexivity).
  destruct (reset2s_spec fuel rs st1) as (st2 & Eq2 & G2 & Q2); auto.
  { pose proof (count_le_nobjs r2_gd st1). lia. }
  { intros r Hin. rewrite N1. auto. }
  pose proof G2 as (N2 & R2 & T2 & H2).
  exists st1, st2. split; [auto|]. split; [auto|]. split; [auto|]. split; [congruence|].
  split; [congruence|]. split; [congruence|].
  assert (Cl1 : forall v, reachs (E st) rs v -> get st1 v = r1_en (get st v)).
  { apply (GR_closed r1_gd r1_en); auto. intros v _. unfold r1_gd. rewrite Hv. reflexivity. }
  assert (RE : forall v, reachs (E st1) rs v <-> reachs (E st) rs v).
  { intros v. split; intros (r & Hin & Rv); exists r; split; auto; revert Rv; apply reach_mono;
      intros u t; unfold E; rewrite (GR_edges r1_gd r1_en (fun o => eq_refl) _ _ _ u G1); auto. }
  assert (Cl2 : forall v, reachs (E st1) rs v -> get st2 v = r2_en (get st1 v)).
  { apply (GR_closed r2_gd r2_en); auto. intros v Rv. apply RE in Rv. rewrite (Cl1 v Rv). reflexivity. }
  intros v. destruct (H1 v) as [E1|(A1 & E1 & S1 & _)].
  - left. assert (E2 : get st2 v = get st1 v).
    { eapply (GR_off r2_gd r2_en); eauto. unfold r2_gd. rewrite E1. apply Hv. }
    split; [congruence|]. intros Rv. pose proof (Cl1 v Rv) as X. rewrite E1 in X.
    rewrite X at 1. reflexivity.
  - right. split; auto. rewrite (Cl2 v (proj2 (RE v) S1)), E1.
    unfold r2_en, r1_en, set_visited, set_adj. cbn. rewrite (Hv v).
    destruct (get st v); reflexivity.
Qed.

(* ---- Part 2: mark_gray ---- *)
(* o' agrees with o on every field except adj and col *)
Definition sca (o o' : gobj) : Prop :=
  freed o' = freed o /\ rc o' = rc o /\ visited o' = visited o /\ buffered o' = buffered o /\
  edges o' = edges o /\ dtor_runs o' = dtor_runs o.

Lemma sca_refl o : sca o o.
Proof. unfold sca. auto 10. Qed.
Lemma sca_trans a b c : sca a b -> sca b c -> sca a c.
Proof. unfold sca. intuition congruence. Qed.

Definition nonGray (o : gobj) : bool := negb (color_eqb (col o) Gray).

Definition pot (st : gstate) (v : nat) : nat := adj (get st v) + cnt_in nonGray st v.

Definition MR (S : nat -> Prop) (st st' : gstate) : Prop :=
  nobjs st' = nobjs st /\ roots st' = roots st /\ to_be_freed st' = to_be_freed st /\
  forall v, sca (get st v) (get st' v) /\
    (col (get st' v) = col (get st v) \/
     (col (get st v) <> Gray /\ col (get st' v) = Gray /\ S v /\
      forall t, In t (edges (get st v)) -> col (get st' t) = Gray)).

Lemma MR_refl S st : MR S st st.
Proof. repeat split; auto. Qed.

Lemma MR_edges S st st' v : MR S st st' -> edges (get st' v) = edges (get st v).
Proof. intros (_ & _ & _ & H). destruct (H v) as ((_ & _ & _ & _ & X & _) & _). auto. Qed.

Lemma MR_gray S st st' v : MR S st st' -> col (get st v) = Gray -> col (get st' v) = Gray.
Proof. intros (_ & _ & _ & H) G. destruct (H v) as (_ & [X|(X & _)]); congruence. Qed.

Lemma MR_trans S a b c : MR S a b -> MR S b c -> MR S a c.
Proof.
  intros Hab Hbc. pose proof Hab as (N1 & R1 & T1 & H1). pose proof Hbc as (N2 & R2 & T2 & H2).
  split; [congruence|]. split; [congruence|]. split; [congruence|]. intros v.
  destruct (H1 v) as (S1 & C1). destruct (H2 v) as (S2 & C2).
  split; [eapply sca_trans; eauto|].
  destruct C1 as [E1|(G1 & E1 & X1 & Cl1)].
  - destruct C2 as [E2|(G2 & E2 & X2 & Cl2)].
    + left; congruence.
    + right. rewrite E1 in G2. rewrite (MR_edges S a b v Hab) in Cl2. auto.
  - right. split; auto. split; [eapply MR_gray; eauto|]. split; auto.
    intros t Ht. eapply MR_gray; eauto.
Qed.

Lemma MR_weaken (S S' : nat -> Prop) st st' : (forall v, S v -> S' v) -> MR S st st' -> MR S' st st'.
Proof.
  intros Sub (N & R & T & H). repeat split; auto; try apply H. 
  destruct (H v) as (_ & [X|(A & B & C & D)]); [left; auto|right; auto].
Qed.

Lemma MR_count S st st' : MR S st st' -> count nonGray st' <= count nonGray st.
Proof.
  intros (N & _ & _ & H). unfold count. rewrite N. apply sumf_le. intros i _. unfold nonGray.
  destruct (H i) as (_ & [->|(G & -> & _)]); [lia|]. cbn. destruct (color_eqb _ _); cbn; lia.
Qed.

Lemma MR_eir S st st' : MR S st st' -> eir st -> eir st'.
Proof.
  intros H Ei u t Hu Hin. pose proof H as (N & _). rewrite N in *.
  rewrite (MR_edges _ _ _ _ H) in Hin. eauto.
Qed.

Lemma MR_reach S st st' a b : MR S st st' -> reach (E st') a b -> reach (E st) a b.
Proof. intros H. apply reach_mono. intros u t. unfold E. rewrite (MR_edges _ _ _ _ H). auto. Qed.

Lemma MR_rc S st st' v : MR S st st' -> rc (get st' v) = rc (get st v).
Proof. intros (_ & _ & _ & H). destruct (H v) as ((_ & X & _) & _). auto. Qed.

Lemma pot_eq st st' v :
  nobjs st' = nobjs st ->
  (forall u, col (get st' u) = col (get st u) /\ edges (get st' u) = edges (get st u)) ->
  adj (get st' v) = adj (get st v) -> pot st' v = pot st v.
Proof.
  intros N H A. unfold pot. rewrite A. f_equal. symmetry. apply cnt_in_ext; auto.
  intros u _. destruct (H u) as (C & Ed). unfold nonGray. rewrite C, Ed. auto.
Qed.

Lemma count_ct P st k : count P (count_trace st k) = count P st.
Proof. reflexivity. Qed.
Lemma cnt_in_ct P st k v : cnt_in P (count_trace st k) v = cnt_in P st v.
Proof. reflexivity. Qed.

Definition mg_step (f : nat) : gstate -> nat -> res gstate :=
  fun st t =>
    let ot := get st t in
    let prev := adj ot in
    let st2 := set st t (set_adj ot (S prev)) in
    if Nat.ltb (rc ot) prev then Panic (PAdjLarger t) else mark_gray f st2 t.

Lemma mark_gray_S f st s : mark_gray (S f) st s =
  if color_eqb (col (get st s)) Gray then Ok st
  else iter (mg_step f) (count_trace (set st s (set_col (get st s) Gray)) s) (edges (get st s)).
Proof. reflexivity. Qed.

(* bumping adj of t: an MR step that adds one to pot t *)
Lemma bump_adj S st t :
  t < nobjs st ->
  let st2 := set st t (set_adj (get st t) (Datatypes.S (adj (get st t)))) in
  MR S st st2 /\ forall v, pot st2 v = pot st v + (if Nat.eq_dec t v then 1 else 0).
Proof.
  intros Ht st2.
  assert (G : forall v, sca (get st v) (get st2 v) /\ col (get st2 v) = col (get st v)).
  { intros v. subst st2. destruct (Nat.eq_dec t v) as [<-|Ne].
    - rewrite get_set_same by auto. split; [unfold sca|]; cbn; auto 10.
    - rewrite get_set_other by auto. split; [apply sca_refl|auto]. }
  split.
  - split; [subst st2; apply nobjs_set|]. split; [reflexivity|]. split; [reflexivity|].
    intros v. destruct (G v); auto.
  - intros v. unfold pot. assert (C : cnt_in nonGray st2 v = cnt_in nonGray st v).
    { symmetry. apply cnt_in_ext; [subst st2; apply nobjs_set|]. intros u _.
      destruct (G u) as ((_ & _ & _ & _ & Ed & _) & Cu). unfold nonGray. rewrite Cu, Ed. auto. }
    rewrite C. subst st2. destruct (Nat.eq_dec t v) as [<-|Ne].
    + rewrite get_set_same by auto. cbn. lia.
    + rewrite get_set_other by auto. lia.
Qed.

Theorem mark_gray_spec : forall fuel st s,
  count nonGray st < fuel -> eir st -> s < nobjs st ->
  (forall v, v < nobjs st -> pot st v <= rc (get st v)) ->
  exists st', mark_gray fuel st s = Ok st' /\ MR (reach (E st) s) st st' /\
              col (get st' s) = Gray /\ forall v, pot st' v = pot st v.
Proof.
  induction fuel as [|f IH]; intros st s Hc Ei Hs Hp; [lia|].
  rewrite mark_gray_S. destruct (color_eqb (col (get st s)) Gray) eqn:G.
  { exists st. apply color_eqb_eq in G. split; auto. split; [apply MR_refl|]. auto. }
  apply color_eqb_neq in G.
  remember (get st s) as o eqn:Ho.
  remember (count_trace (set st s (set_col o Gray)) s) as st1 eqn:Hst1.
  assert (N1 : nobjs st1 = nobjs st) by (subst st1; rewrite nobjs_count_trace, nobjs_set; auto).
  assert (G1s : get st1 s = set_col o Gray) by (subst st1; rewrite get_count_trace, get_set_same; auto).
  assert (G1o : forall v, v <> s -> get st1 v = get st v)
    by (intros; subst st1; rewrite get_count_trace, get_set_other; auto).
  assert (NGo : nonGray o = true).
  { unfold nonGray. destruct (color_eqb (col o) Gray) eqn:X; auto. apply color_eqb_eq in X. contradiction. }
  assert (C1 : count nonGray st1 < f).
  { pose proof (count_set nonGray st s (set_col o Gray) Hs) as X. rewrite <- Ho, NGo in X.
    change (nonGray (set_col o Gray)) with false in X. cbv iota in X.
    rewrite Hst1, count_ct. lia. }
  assert (E1 : forall v, edges (get st1 v) = edges (get st v)).
  { intros v. destruct (Nat.eq_dec v s) as [->|Ne]; [rewrite G1s, Ho; auto|rewrite G1o; auto]. }
  assert (Ei1 : eir st1).
  { intros u t Hu Hin. rewrite N1 in *. rewrite E1 in Hin. eauto. }
  assert (P1 : forall v, pot st1 v + cnt (edges o) v = pot st v).
  { intros v. unfold pot.
    pose proof (cnt_in_set nonGray st s (set_col o Gray) v Hs) as X. rewrite <- Ho, NGo in X.
    change (nonGray (set_col o Gray)) with false in X. cbv iota in X.
    rewrite Hst1 at 2. rewrite cnt_in_ct.
    assert (A : adj (get st1 v) = adj (get st v)).
    { destruct (Nat.eq_dec v s) as [->|Ne]; [rewrite G1s, Ho; auto|rewrite G1o; auto]. }
    rewrite A. lia. }
  set (Sr := reach (E st) s).
  set (Inv := fun (rest : list nat) (st2 : gstate) =>
     (forall t, In t rest -> In t (edges o)) /\ MR Sr st1 st2 /\
     forall v, pot st2 v + cnt rest v = pot st v).
  set (Q := fun (st2 : gstate) (t : nat) => col (get st2 t) = Gray).
  assert (Qm : forall a b t, MR Sr a b -> Q a t -> Q b t).
  { intros a b t Hab Hq. eapply MR_gray; eauto. }
  assert (RC1 : forall v, rc (get st1 v) = rc (get st v)).
  { intros v. destruct (Nat.eq_dec v s) as [->|Ne]; [rewrite G1s, Ho; auto|rewrite G1o; auto]. }
  assert (Step : forall st2 t rest, Inv (t :: rest) st2 ->
            exists st3, mg_step f st2 t = Ok st3 /\ Inv rest st3 /\ MR Sr st2 st3 /\ Q st3 t).
  { intros st2 t rest (Hr & G12 & P2).
    assert (Hto : In t (edges o)) by (apply Hr; left; auto).
    pose proof G12 as (N2 & _).
    assert (Ht : t < nobjs st2).
    { rewrite N2, N1. apply (Ei s t Hs). rewrite <- Ho; auto. }
    assert (RC2 : forall v, rc (get st2 v) = rc (get st v)).
    { intros v. rewrite (MR_rc _ _ _ v G12). apply RC1. }
    unfold mg_step. cbv zeta.
    destruct (bump_adj Sr st2 t Ht) as (B1 & B2). cbv zeta in B1, B2.
    remember (set st2 t (set_adj (get st2 t) (S (adj (get st2 t))))) as st2' eqn:Hst2'.
    assert (NP : Nat.ltb (rc (get st2 t)) (adj (get st2 t)) = false).
    { apply Nat.ltb_ge. pose proof (P2 t) as X. rewrite cnt_cons in X.
      destruct (Nat.eq_dec t t); [|congruence].
      pose proof (Hp t ltac:(lia)) as Y. rewrite RC2. unfold pot in X at 1. lia. }
    rewrite NP.
    destruct (IH st2' t) as (st3 & Eq3 & G23 & Q3 & P3).
    { pose proof (MR_count _ _ _ G12). pose proof (MR_count _ _ _ B1). lia. }
    { eapply MR_eir; [exact B1|]. eapply MR_eir; eauto. }
    { destruct B1 as (-> & _). auto. }
    { intros v Hv. pose proof B1 as (N2' & _). rewrite N2', N2, N1 in Hv.
      rewrite B2. rewrite (MR_rc _ _ _ v B1), RC2.
      pose proof (P2 v) as X. rewrite cnt_cons in X. pose proof (Hp v Hv). lia. }
    assert (G23' : MR Sr st2' st3).
    { eapply MR_weaken; [|exact G23]. intros v Hv. unfold Sr.
      apply (MR_reach _ _ _ _ _ B1) in Hv. apply (MR_reach _ _ _ _ _ G12) in Hv.
      eapply reach_step with (t := t).
      - unfold E. rewrite <- Ho. exact Hto.
      - revert Hv. apply reach_mono. intros u x. unfold E. rewrite E1. auto. }
    assert (G23'' : MR Sr st2 st3) by (eapply MR_trans; eauto).
    exists st3. split; [exact Eq3|].
    split; [split; [intros x Hx; apply Hr; right; auto | split; [eapply MR_trans; eauto|]]|].
    - intros v. rewrite P3, B2. pose proof (P2 v) as X. rewrite cnt_cons in X. lia.
    - split; [exact G23''|exact Q3]. }
  destruct (iter_spec (mg_step f) Inv (MR Sr) Q (MR_refl Sr) (MR_trans Sr) Qm Step (edges o) st1)
    as (st' & Eq & (_ & GR1 & P') & _ & Qs).
  { split; [auto|]. split; [apply MR_refl|]. exact P1. }
  exists st'. split; [exact Eq|].
  pose proof GR1 as (N' & R' & T' & H').
  assert (Gs' : col (get st' s) = Gray).
  { eapply MR_gray; eauto. rewrite G1s. reflexivity. }
  split; [|split; [exact Gs'|]].
  - split; [congruence|]. split; [subst st1; exact R'|]. split; [subst st1; exact T'|].
    intros v. destruct (H' v) as (Sv & Cv). destruct (Nat.eq_dec v s) as [->|Ne].
    + split.
      * eapply sca_trans; [|exact Sv]. rewrite G1s, <- Ho. unfold sca; cbn; auto 10.
      * right. rewrite <- Ho. split; auto. split; auto. split; [apply reach_refl|].
        intros t Ht. apply Qs; auto.
    + rewrite (G1o v Ne) in *. split; auto.
  - intros v. pose proof (P' v) as X. cbn [cnt count_occ] in X. unfold cnt in X. cbn in X. lia.
Qed.

(* ---- Part 3: scan / scan_black ---- *)
Definition sco (o o' : gobj) : Prop := sca o o' /\ adj o' = adj o.
Lemma sco_refl o : sco o o.
Proof. split; [apply sca_refl|auto]. Qed.
Lemma sco_trans a b c : sco a b -> sco b c -> sco a c.
Proof. intros (A1 & A2) (B1 & B2). split; [eapply sca_trans; eauto|congruence]. Qed.

Definition isGray (o : gobj) : bool := color_eqb (col o) Gray.
Definition nonBlack (o : gobj) : bool := negb (color_eqb (col o) Black).

(* colour moves of the scan phase: Gray->White (only when adj = rc), anything non-Black -> Black *)
Definition SR (S : nat -> Prop) (st st' : gstate) : Prop :=
  nobjs st' = nobjs st /\ roots st' = roots st /\ to_be_freed st' = to_be_freed st /\
  forall v, sco (get st v) (get st' v) /\
    (col (get st' v) = col (get st v) \/
     (col (get st v) = Gray /\ col (get st' v) = White /\ adj (get st v) = rc (get st v) /\
      forall t, In t (edges (get st v)) -> col (get st' t) <> Gray) \/
     (col (get st v) <> Black /\ col (get st' v) = Black /\ S v /\
      forall t, In t (edges (get st v)) -> col (get st' t) = Black)).

Lemma SR_refl S st : SR S st st.
Proof. repeat split; auto. Qed.

Lemma SR_sco S st st' v : SR S st st' -> sco (get st v) (get st' v).
Proof. intros (_ & _ & _ & H). apply H. Qed.
Lemma SR_edges S st st' v : SR S st st' -> edges (get st' v) = edges (get st v).
Proof. intros H. destruct (SR_sco _ _ _ v H) as ((_ & _ & _ & _ & X & _) & _). auto. Qed.
Lemma SR_adj S st st' v : SR S st st' -> adj (get st' v) = adj (get st v).
Proof. intros H. destruct (SR_sco _ _ _ v H) as (_ & X). auto. Qed.
Lemma SR_rc S st st' v : SR S st st' -> rc (get st' v) = rc (get st v).
Proof. intros H. destruct (SR_sco _ _ _ v H) as ((_ & X & _) & _). auto. Qed.

Lemma SR_black S st st' v : SR S st st' -> col (get st v) = Black -> col (get st' v) = Black.
Proof. intros (_ & _ & _ & H) G. destruct (H v) as (_ & [X|[(X & _)|(X & _)]]); congruence. Qed.
Lemma SR_nongray S st st' v : SR S st st' -> col (get st v) <> Gray -> col (get st' v) <> Gray.
Proof. intros (_ & _ & _ & H) G. destruct (H v) as (_ & [X|[(X & _)|(_ & X & _)]]); congruence. Qed.
Lemma SR_gray_back S st st' v : SR S st st' -> col (get st' v) = Gray -> col (get st v) = Gray.
Proof. intros (_ & _ & _ & H) G. destruct (H v) as (_ & [X|[(_ & X & _)|(_ & X & _)]]); congruence. Qed.

Lemma SR_trans S a b c : SR S a b -> SR S b c -> SR S a c.
Proof.
  intros Hab Hbc. pose proof Hab as (N1 & R1 & T1 & H1). pose proof Hbc as (N2 & R2 & T2 & H2).
  split; [congruence|]. split; [congruence|]. split; [congruence|]. intros v.
  destruct (H1 v) as (S1 & C1). destruct (H2 v) as (S2 & C2).
  split; [eapply sco_trans; eauto|].
  pose proof (SR_edges S a b v Hab) as Ed. pose proof (SR_adj S a b v Hab) as Ad.
  pose proof (SR_rc S a b v Hab) as Rc.
  destruct C1 as [E1|[(G1 & E1 & X1 & Cl1)|(G1 & E1 & X1 & Cl1)]].
  - rewrite E1, Ed, Ad, Rc in C2. exact C2.
  - destruct C2 as [E2|[(G2 & _)|(G2 & E2 & X2 & Cl2)]].
    + right; left. split; auto. split; [congruence|]. split; auto.
      intros t Ht. eapply SR_nongray; eauto.
    + congruence.
    + right; right. split; [congruence|]. split; auto. split; auto. rewrite Ed in Cl2. auto.
  - right; right. split; auto. split; [eapply SR_black; eauto|]. split; auto.
    intros t Ht. eapply SR_black; eauto.
Qed.

Lemma SR_weaken (S S' : nat -> Prop) st st' : (forall v, S v -> S' v) -> SR S st st' -> SR S' st st'.
Proof.
  intros Sub (N & R & T & H). split; auto. split; auto. split; auto. intros v.
  destruct (H v) as (A & [X|[X|(B & C & D & F)]]); split; auto.
  right; right; auto.
Qed.

Lemma SR_count_gray S st st' : SR S st st' -> count isGray st' <= count isGray st.
Proof.
  intros H. pose proof H as (N & _). unfold count. rewrite N. apply sumf_le. intros i _. unfold isGray.
  destruct (color_eqb (col (get st' i)) Gray) eqn:X; [|destruct (color_eqb _ _); lia].
  apply color_eqb_eq in X. apply (SR_gray_back _ _ _ _ H) in X. rewrite X. cbn. lia.
Qed.

Lemma SR_count_nb S st st' : SR S st st' -> count nonBlack st' <= count nonBlack st.
Proof.
  intros H. pose proof H as (N & _). unfold count. rewrite N. apply sumf_le. intros i _. unfold nonBlack.
  destruct (color_eqb (col (get st i)) Black) eqn:X; [|destruct (color_eqb (col (get st' i)) Black); cbn; lia].
  apply color_eqb_eq in X. apply (SR_black _ _ _ _ H) in X. rewrite X. cbn. lia.
Qed.

Lemma SR_eir S st st' : SR S st st' -> eir st -> eir st'.
Proof.
  intros H Ei u t Hu Hin. pose proof H as (N & _). rewrite N in *.
  rewrite (SR_edges _ _ _ _ H) in Hin. eauto.
Qed.

Lemma SR_reach S st st' a b : SR S st st' -> reach (E st') a b -> reach (E st) a b.
Proof. intros H. apply reach_mono. intros u t. unfold E. rewrite (SR_edges _ _ _ _ H). auto. Qed.

Definition sb_step (f : nat) : gstate -> nat -> res gstate :=
  fun st t => if color_eqb (col (get st t)) Black then Ok st else scan_black f st t.

Lemma scan_black_S f st s : scan_black (S f) st s =
  iter (sb_step f) (count_trace (set st s (set_col (get st s) Black)) s) (edges (get st s)).
Proof. reflexivity. Qed.

Theorem scan_black_spec : forall fuel st s,
  count nonBlack st <= fuel -> eir st -> s < nobjs st -> col (get st s) <> Black ->
  exists st', scan_black fuel st s = Ok st' /\ SR (reach (E st) s) st st' /\ col (get st' s) = Black.
Proof.
  induction fuel as [|f IH]; intros st s Hc Ei Hs G.
  { exfalso. assert (count nonBlack st > 0); [|lia]. apply (count_pos nonBlack st s Hs).
    unfold nonBlack. apply color_eqb_neq in G. rewrite G. reflexivity. }
  rewrite scan_black_S.
  remember (get st s) as o eqn:Ho.
  remember (count_trace (set st s (set_col o Black)) s) as st1 eqn:Hst1.
  assert (N1 : nobjs st1 = nobjs st) by (subst st1; rewrite nobjs_count_trace, nobjs_set; auto).
  assert (G1s : get st1 s = set_col o Black) by (subst st1; rewrite get_count_trace, get_set_same; auto).
  assert (G1o : forall v, v <> s -> get st1 v = get st v)
    by (intros; subst st1; rewrite get_count_trace, get_set_other; auto).
  assert (NBo : nonBlack o = true).
  { unfold nonBlack. apply color_eqb_neq in G. rewrite G. reflexivity. }
  assert (C1 : count nonBlack st1 <= f).
  { pose proof (count_set nonBlack st s (set_col o Black) Hs) as X. rewrite <- Ho, NBo in X.
    change (nonBlack (set_col o Black)) with false in X. cbv iota in X.
    rewrite Hst1, count_ct. lia. }
  assert (E1 : forall v, edges (get st1 v) = edges (get st v)).
  { intros v. destruct (Nat.eq_dec v s) as [->|Ne]; [rewrite G1s, Ho; auto|rewrite G1o; auto]. }
  assert (Ei1 : eir st1).
  { intros u t Hu Hin. rewrite N1 in *. rewrite E1 in Hin. eauto. }
  set (Sr := reach (E st) s).
  set (Inv := fun (rest : list nat) (st2 : gstate) =>
     (forall t, In t rest -> In t (edges o)) /\ SR Sr st1 st2).
  set (Q := fun (st2 : gstate) (t : nat) => col (get st2 t) = Black).
  assert (Qm : forall a b t, SR Sr a b -> Q a t -> Q b t).
  { intros a b t Hab Hq. eapply SR_black; eauto. }
  assert (Step : forall st2 t rest, Inv (t :: rest) st2 ->
            exists st3, sb_step f st2 t = Ok st3 /\ Inv rest st3 /\ SR Sr st2 st3 /\ Q st3 t).
  { intros st2 t rest (Hr & G12).
    assert (Hto : In t (edges o)) by (apply Hr; left; auto).
    assert (Hr' : forall x, In x rest -> In x (edges o)) by (intros x Hx; apply Hr; right; auto).
    pose proof G12 as (N2 & _).
    assert (Ht : t < nobjs st2).
    { rewrite N2, N1. apply (Ei s t Hs). rewrite <- Ho; auto. }
    unfold sb_step. destruct (color_eqb (col (get st2 t)) Black) eqn:Bt.
    { apply color_eqb_eq in Bt. exists st2. split; auto. split; [split; auto|].
      split; [apply SR_refl|exact Bt]. }
    apply color_eqb_neq in Bt.
    destruct (IH st2 t) as (st3 & Eq3 & G23 & Q3); auto.
    { pose proof (SR_count_nb _ _ _ G12). lia. }
    { eapply SR_eir; eauto. }
    assert (G23' : SR Sr st2 st3).
    { eapply SR_weaken; [|exact G23]. intros v Hv. unfold Sr.
      apply (SR_reach _ _ _ _ _ G12) in Hv.
      eapply reach_step with (t := t).
      - unfold E. rewrite <- Ho. exact Hto.
      - revert Hv. apply reach_mono. intros u x. unfold E. rewrite E1. auto. }
    exists st3. split; [exact Eq3|]. split; [split; [auto|eapply SR_trans; eauto]|].
    split; [exact G23'|exact Q3]. }
  destruct (iter_spec (sb_step f) Inv (SR Sr) Q (SR_refl Sr) (SR_trans Sr) Qm Step (edges o) st1)
    as (st' & Eq & (_ & GR1) & _ & Qs).
  { split; [auto|apply SR_refl]. }
  exists st'. split; [exact Eq|].
  pose proof GR1 as (N' & R' & T' & H').
  assert (Gs' : col (get st' s) = Black).
  { eapply SR_black; eauto. rewrite G1s. reflexivity. }
  split; [|exact Gs'].
  split; [congruence|]. split; [subst st1; exact R'|]. split; [subst st1; exact T'|].
  intros v. destruct (H' v) as (Sv & Cv). destruct (Nat.eq_dec v s) as [->|Ne].
  - split.
    + eapply sco_trans; [|exact Sv]. rewrite G1s, <- Ho. unfold sco, sca; cbn; auto 10.
    + right; right. rewrite <- Ho. split; auto. split; auto. split; [apply reach_refl|].
      intros t Ht. apply Qs; auto.
  - rewrite (G1o v Ne) in *. split; auto.
Qed.

Lemma scan_S f st s : scan (S f) st s =
  if negb (color_eqb (col (get st s)) Gray) then Ok st
  else if Nat.eqb (adj (get st s)) (rc (get st s))
       then iter (scan f) (count_trace (set st s (set_col (get st s) White)) s) (edges (get st s))
       else scan_black (S f) st s.
Proof. reflexivity. Qed.

(* the gray objects whose count exceeds the internal count: where scan_black starts *)
Definition XS (st : gstate) (x : nat) : Prop :=
  col (get st x) = Gray /\ adj (get st x) <> rc (get st x).
Definition SX (st : gstate) (v : nat) : Prop := exists x, XS st x /\ reach (E st) x v.

Lemma SX_back S st st' v : SR S st st' -> SX st' v -> SX st v.
Proof.
  intros H (x & (G & A) & R). exists x. split.
  - split; [eapply SR_gray_back; eauto|]. rewrite <- (SR_adj _ _ _ x H), <- (SR_rc _ _ _ x H). auto.
  - eapply SR_reach; eauto.
Qed.

Theorem scan_spec : forall fuel st s,
  count isGray st + count nonBlack st < fuel -> eir st -> s < nobjs st ->
  exists st', scan fuel st s = Ok st' /\ SR (SX st) st st' /\ col (get st' s) <> Gray.
Proof.
  induction fuel as [|f IH]; intros st s Hc Ei Hs; [lia|].
  rewrite scan_S. destruct (color_eqb (col (get st s)) Gray) eqn:G; cbn [negb].
  2:{ apply color_eqb_neq in G. exists st. split; auto. split; [apply SR_refl|auto]. }
  apply color_eqb_eq in G.
  destruct (Nat.eqb (adj (get st s)) (rc (get st s))) eqn:AR.
  2:{ apply Nat.eqb_neq in AR.
      destruct (scan_black_spec (S f) st s) as (st' & Eq & G' & B'); auto.
      { lia. } { congruence. }
      exists st'. split; auto. split; [|congruence].
      eapply SR_weaken; [|exact G']. intros v Hv. exists s. split; auto. split; auto. }
  apply Nat.eqb_eq in AR.
  remember (get st s) as o eqn:Ho.
  remember (count_trace (set st s (set_col o White)) s) as st1 eqn:Hst1.
  assert (N1 : nobjs st1 = nobjs st) by (subst st1; rewrite nobjs_count_trace, nobjs_set; auto).
  assert (G1s : get st1 s = set_col o White) by (subst st1; rewrite get_count_trace, get_set_same; auto).
  assert (G1o : forall v, v <> s -> get st1 v = get st v)
    by (intros; subst st1; rewrite get_count_trace, get_set_other; auto).
  assert (Go : isGray o = true) by (unfold isGray; rewrite G; reflexivity).
  assert (NBo : nonBlack o = true) by (unfold nonBlack; rewrite G; reflexivity).
  assert (C1 : count isGray st1 + count nonBlack st1 < f).
  { pose proof (count_set isGray st s (set_col o White) Hs) as X. rewrite <- Ho, Go in X.
    change (isGray (set_col o White)) with false in X. cbv iota in X.
    pose proof (count_set nonBlack st s (set_col o White) Hs) as Y. rewrite <- Ho, NBo in Y.
    change (nonBlack (set_col o White)) with true in Y. cbv iota in Y.
    rewrite Hst1, !count_ct. lia. }
  assert (E1 : forall v, edges (get st1 v) = edges (get st v)).
  { intros v. destruct (Nat.eq_dec v s) as [->|Ne]; [rewrite G1s, Ho; auto|rewrite G1o; auto]. }
  assert (Ei1 : eir st1).
  { intros u t Hu Hin. rewrite N1 in *. rewrite E1 in Hin. eauto. }
  assert (X1 : forall v, SX st1 v -> SX st v).
  { intros v (x & (Gx & Ax) & Rx). assert (Ne : x <> s).
    { intros ->. rewrite G1s in Gx. discriminate. }
    rewrite (G1o x Ne) in *. exists x. split; [split; auto|].
    revert Rx. apply reach_mono. intros u t. unfold E. rewrite E1. auto. }
  set (Sr := SX st).
  set (Inv := fun (rest : list nat) (st2 : gstate) =>
     (forall t, In t rest -> In t (edges o)) /\ SR Sr st1 st2).
  set (Q := fun (st2 : gstate) (t : nat) => col (get st2 t) <> Gray).
  assert (Qm : forall a b t, SR Sr a b -> Q a t -> Q b t).
  { intros a b t Hab Hq. eapply SR_nongray; eauto. }
  assert (Step : forall st2 t rest, Inv (t :: rest) st2 ->
            exists st3, scan f st2 t = Ok st3 /\ Inv rest st3 /\ SR Sr st2 st3 /\ Q st3 t).
  { intros st2 t rest (Hr & G12).
    assert (Hto : In t (edges o)) by (apply Hr; left; auto).
    assert (Hr' : forall x, In x rest -> In x (edges o)) by (intros x Hx; apply Hr; right; auto).
    pose proof G12 as (N2 & _).
    assert (Ht : t < nobjs st2).
    { rewrite N2, N1. apply (Ei s t Hs). rewrite <- Ho; auto. }
    destruct (IH st2 t) as (st3 & Eq3 & G23 & Q3); auto.
    { pose proof (SR_count_nb _ _ _ G12). pose proof (SR_count_gray _ _ _ G12). lia. }
    { eapply SR_eir; eauto. }
    assert (G23' : SR Sr st2 st3).
    { eapply SR_weaken; [|exact G23]. intros v Hv. unfold Sr. apply X1. eapply SX_back; eauto. }
    exists st3. split; [exact Eq3|]. split; [split; [auto|eapply SR_trans; eauto]|].
    split; [exact G23'|exact Q3]. }
  destruct (iter_spec (scan f) Inv (SR Sr) Q (SR_refl Sr) (SR_trans Sr) Qm Step (edges o) st1)
    as (st' & Eq & (_ & GR1) & _ & Qs).
  { split; [auto|apply SR_refl]. }
  exists st'. split; [exact Eq|].
  pose proof GR1 as (N' & R' & T' & H').
  assert (Gs' : col (get st' s) <> Gray).
  { eapply SR_nongray; eauto. rewrite G1s. discriminate. }
  split; [|exact Gs'].
  split; [congruence|]. split; [subst st1; exact R'|]. split; [subst st1; exact T'|].
  intros v. destruct (H' v) as (Sv & Cv). destruct (Nat.eq_dec v s) as [->|Ne].
  - split.
    + eapply sco_trans; [|exact Sv]. rewrite G1s, <- Ho. unfold sco, sca; cbn; auto 10.
    + rewrite G1s in Cv. rewrite <- Ho. cbn [set_col col edges adj rc] in Cv.
      destruct Cv as [Cv|[(Cv & _)|(_ & Cv & Sv' & Cl)]].
      * right; left. split; auto.
      * discriminate.
      * right; right. split; [congruence|]. split; auto.
  - rewrite (G1o v Ne) in *. split; auto.
Qed.

(* ---- Part 4: collect_white ---- *)
Definition isWhite (o : gobj) : bool := color_eqb (col o) White.
Definition enB (o : gobj) : gobj := set_col o Black.
Definition WR := GR isWhite enB.
Definition entered (st st' : gstate) (v : nat) : Prop :=
  isWhite (get st v) = true /\ isWhite (get st' v) = false.

Lemma WR_refl S st : WR S st st.
Proof. apply GR_refl. Qed.
Lemma WR_trans S a b c : WR S a b -> WR S b c -> WR S a c.
Proof. apply GR_trans. reflexivity. Qed.
Lemma WR_off S st st' v : WR S st st' -> isWhite (get st v) = false -> isWhite (get st' v) = false.
Proof. apply GR_off'. Qed.
Lemma WR_back S st st' v : WR S st st' -> isWhite (get st' v) = true -> isWhite (get st v) = true.
Proof.
  intros (_ & _ & _ & H) W. destruct (H v) as [<-|(A & _)]; auto.
Qed.
Lemma WR_edges S st st' v : WR S st st' -> edges (get st' v) = edges (get st v).
Proof. apply GR_edges. reflexivity. Qed.

Definition cw_iter (f : nat) : gstate * list nat -> list nat -> res (gstate * list nat) :=
  fix go (acc : gstate * list nat) (ns : list nat) : res (gstate * list nat) :=
    match ns with
    | [] => Ok acc
    | n :: t => do acc1 <- collect_white f acc n; go acc1 t
    end.
Lemma cw_iter_nil f acc : cw_iter f acc [] = Ok acc.
Proof. reflexivity. Qed.
Lemma cw_iter_cons f acc n t : cw_iter f acc (n :: t) = do acc1 <- collect_white f acc n; cw_iter f acc1 t.
Proof. reflexivity. Qed.

Lemma collect_white_S f st white s : collect_white (S f) (st, white) s =
  if color_eqb (col (get st s)) White then
    do r <- cw_iter f (count_trace (set st s (set_col (get st s) Black)) s, white) (edges (get st s));
    Ok (fst r, snd r ++ [s])
  else Ok (st, white).
Proof. reflexivity. Qed.

Definition cw_post (S : nat -> Prop) (st : gstate) (white : list nat) (r : res (gstate * list nat)) : Prop :=
  exists st' new, r = Ok (st', white ++ new) /\ WR S st st' /\ NoDup new /\
                  forall v, In v new <-> entered st st' v.

Lemma nodup_app {A} (l1 l2 : list A) :
  NoDup l1 -> NoDup l2 -> (forall x, In x l1 -> ~ In x l2) -> NoDup (l1 ++ l2).
Proof.
  induction l1 as [|x l IH]; intros N1 N2 D; cbn [app]; auto.
  inversion N1 as [|? ? Hx N1']; subst. constructor.
  - intros Hin. apply in_app_or in Hin as [Hin|Hin]; [contradiction|]. apply (D x); [left; auto|auto].
  - apply IH; auto. intros y Hy. apply D. right; auto.
Qed.

Lemma entered_compose S a b c new1 new2 :
  WR S a b -> WR S b c -> NoDup new1 -> NoDup new2 ->
  (forall v, In v new1 <-> entered a b v) -> (forall v, In v new2 <-> entered b c v) ->
  NoDup (new1 ++ new2) /\ forall v, In v (new1 ++ new2) <-> entered a c v.
Proof.
  intros Hab Hbc N1 N2 I1 I2. split.
  - apply nodup_app; auto. intros x H1 H2. apply I1 in H1 as (_ & X). apply I2 in H2 as (Y & _). congruence.
  - intros v. rewrite in_app_iff, I1, I2. unfold entered. split.
    + intros [(A & B)|(A & B)].
      * split; auto. eapply WR_off; eauto.
      * split; auto. eapply WR_back; eauto.
    + intros (A & C). destruct (isWhite (get b v)) eqn:B; auto.
Qed.

Theorem collect_white_spec : forall fuel st white s,
  count isWhite st < fuel -> eir st -> s < nobjs st ->
  cw_post (reach (E st) s) st white (collect_white fuel (st, white) s) /\
  (forall st' w', collect_white fuel (st, white) s = Ok (st', w') -> isWhite (get st' s) = false).
Proof.
  induction fuel as [|f IH]; intros st white s Hc Ei Hs; [lia|].
  rewrite collect_white_S. destruct (color_eqb (col (get st s)) White) eqn:G.
  2:{ split.
      - exists st, []. rewrite app_nil_r. split; auto. split; [apply WR_refl|]. split; [constructor|].
        intros v. split; [intros []|]. intros (A & B). congruence.
      - intros st' w' Eq. injection Eq as <- _. exact G. }
  remember (get st s) as o eqn:Ho.
  remember (count_trace (set st s (set_col o Black)) s) as st1 eqn:Hst1.
  assert (N1 : nobjs st1 = nobjs st) by (subst st1; rewrite nobjs_count_trace, nobjs_set; auto).
  assert (G1s : get st1 s = enB o) by (subst st1; rewrite get_count_trace, get_set_same; auto).
  assert (G1o : forall v, v <> s -> get st1 v = get st v)
    by (intros; subst st1; rewrite get_count_trace, get_set_other; auto).
  assert (C1 : count isWhite st1 < f).
  { pose proof (count_set isWhite st s (set_col o Black) Hs) as X. rewrite <- Ho in X.
    unfold isWhite at 2 in X. rewrite G in X.
    change (isWhite (set_col o Black)) with false in X. cbv iota in X.
    rewrite Hst1, count_ct. lia. }
  assert (E1 : forall v, edges (get st1 v) = edges (get st v)).
  { intros v. destruct (Nat.eq_dec v s) as [->|Ne]; [rewrite G1s, Ho; auto|rewrite G1o; auto]. }
  assert (Ei1 : eir st1).
  { intros u t Hu Hin. rewrite N1 in *. rewrite E1 in Hin. eauto. }
  set (Sr := reach (E st) s).
  (* the children loop *)
  assert (L : forall ns st2 w2, (forall t, In t ns -> In t (edges o)) -> WR Sr st1 st2 ->
     exists st3 new, cw_iter f (st2, w2) ns = Ok (st3, w2 ++ new) /\ WR Sr st2 st3 /\ NoDup new /\
       (forall v, In v new <-> entered st2 st3 v) /\ (forall t, In t ns -> isWhite (get st3 t) = false)).
  { induction ns as [|t ns IHns]; intros st2 w2 Hr G12.
    - exists st2, []. rewrite app_nil_r. split; auto. split; [apply WR_refl|]. split; [constructor|].
      split; [|intros t []]. intros v. split; [intros []|]. intros (A & B). congruence.
    - assert (Hto : In t (edges o)) by (apply Hr; left; auto).
      pose proof G12 as (N2 & _).
      assert (Ht : t < nobjs st2). { rewrite N2, N1. apply (Ei s t Hs). rewrite <- Ho; auto. }
      destruct (IH st2 w2 t) as ((st3 & new1 & Eq3 & G23 & ND1 & In1) & Q3); auto.
      { pose proof (GR_count isWhite enB (fun o => eq_refl) _ _ _ G12). lia. }
      { eapply (GR_eir isWhite enB (fun o => eq_refl)); eauto. }
      assert (G23' : WR Sr st2 st3).
      { eapply GR_weaken; [|exact G23]. intros v Hv. unfold Sr.
        apply (GR_reach isWhite enB (fun o => eq_refl) _ _ _ _ _ G12) in Hv.
        eapply reach_step with (t := t).
        - unfold E. rewrite <- Ho. exact Hto.
        - revert Hv. apply reach_mono. intros u x. unfold E. rewrite E1. auto. }
      destruct (IHns st3 (w2 ++ new1)) as (st4 & new2 & Eq4 & G34 & ND2 & In2 & Q4).
      { intros x Hx. apply Hr; right; auto. }
      { eapply WR_trans; eauto. }
      destruct (entered_compose Sr st2 st3 st4 new1 new2) as (ND & InN); auto.
      exists st4, (new1 ++ new2). rewrite cw_iter_cons, Eq3. cbn [bind]. rewrite Eq4, app_assoc.
      split; auto. split; [eapply WR_trans; eauto|]. split; auto. split; auto.
      intros x [<-|Hx]; auto. eapply WR_off; eauto. }
  destruct (L (edges o) st1 white) as (st' & new & Eq & G1' & ND & InN & Qs); auto.
  { apply WR_refl. }
  rewrite Eq. cbn [bind fst snd].
  assert (Ws' : isWhite (get st' s) = false).
  { eapply WR_off; eauto. rewrite G1s. reflexivity. }
  split.
  2:{ intros st'' w' Eq'. injection Eq' as <- _. exact Ws'. }
  exists st', (new ++ [s]). rewrite app_assoc. split; auto.
  pose proof G1' as (N' & R' & T' & H').
  assert (Wst : forall v, v <> s -> isWhite (get st1 v) = isWhite (get st v)).
  { intros v Ne. rewrite G1o; auto. }
  split; [|split].
  - split; [congruence|]. split; [subst st1; exact R'|]. split; [subst st1; exact T'|].
    intros v. destruct (Nat.eq_dec v s) as [->|Ne].
    + right. rewrite <- Ho. split; [exact G|]. split.
      * rewrite <- G1s. eapply GR_off; eauto. rewrite G1s. reflexivity.
      * split; [apply reach_refl|]. intros t Ht. apply Qs; auto.
    + destruct (H' v) as [Ev|(A & B & C & D)].
      * left. rewrite Ev. apply G1o; auto.
      * right. rewrite (G1o v Ne) in *. repeat split; auto.
  - apply nodup_app; auto; [constructor; [intros []|constructor]|].
    intros x Hx [<-|[]]. apply InN in Hx as (A & _). rewrite G1s in A. discriminate.
  - intros v. rewrite in_app_iff, InN. unfold entered. cbn [In]. split.
    + intros [(A & B)|[<-|[]]].
      * assert (Ne : v <> s) by (intros ->; rewrite G1s in A; discriminate).
        rewrite (Wst v Ne) in A. auto.
      * rewrite <- Ho. auto.
    + intros (A & B). destruct (Nat.eq_dec s v) as [->|Ne]; auto.
      left. rewrite Wst; auto.
Qed.

(* ---- Part 5: display_graph only counts ---- *)
Definition dpot (st : gstate) (stack seen : list nat) : nat :=
  length stack +
  sumf (fun u => if existsb (Nat.eqb u) seen then 0 else length (edges (get st u))) (nobjs st).

Lemma sumf_shift h n : sumf h (S n) = h 0 + sumf (fun u => h (S u)) n.
Proof. induction n as [|n IH]; cbn [sumf] in *; [lia|]. rewrite IH. lia. Qed.

Lemma sumf_nedges st : sumf (fun u => length (edges (get st u))) (nobjs st) = nedges st.
Proof.
  unfold nedges, nobjs, get. induction (objs st) as [|x l IH]; [reflexivity|].
  cbn [length fold_right]. rewrite sumf_shift. cbn [nth]. rewrite IH. reflexivity.
Qed.

Theorem display_graph_spec : forall fuel st stack seen,
  dpot st stack seen < fuel ->
  exists st', display_graph fuel st stack seen = Ok st' /\ objs st' = objs st /\
              roots st' = roots st /\ to_be_freed st' = to_be_freed st.
Proof.
  induction fuel as [|f IH]; intros st stack seen Hp; [lia|].
  destruct stack as [|n rest]; cbn [display_graph]; [exists st; auto|].
  destruct (existsb (Nat.eqb n) seen) eqn:Ex.
  - apply IH. unfold dpot in *. cbn [length] in Hp. lia.
  - destruct (IH (count_trace st n) (rev (edges (get st n)) ++ rest) (n :: seen)) as (st' & Eq & A & B & C).
    2:{ exists st'. auto. }
    unfold dpot in *. change (nobjs (count_trace st n)) with (nobjs st).
    rewrite app_length, rev_length. cbn [length] in Hp.
    set (h1 := fun u => if existsb (Nat.eqb u) (n :: seen) then 0 else length (edges (get (count_trace st n) u))).
    set (h0 := fun u => if existsb (Nat.eqb u) seen then 0 else length (edges (get st u))) in *.
    assert (X : sumf h1 (nobjs st) + length (edges (get st n)) <= sumf h0 (nobjs st)); [|lia].
    destruct (Nat.lt_ge_cases n (nobjs st)) as [Lt|Ge].
    + pose proof (sumf_update h1 h0 (nobjs st) n Lt) as U.
      assert (H1n : h1 n = 0). { unfold h1. cbn [existsb]. rewrite Nat.eqb_refl. reflexivity. }
      assert (H0n : h0 n = length (edges (get st n))). { unfold h0. rewrite Ex. reflexivity. }
      rewrite H1n, H0n in U. assert (U' : forall i, i < nobjs st -> i <> n -> h1 i = h0 i); [|specialize (U U'); lia].
      intros i _ Ne. unfold h1, h0. cbn [existsb]. apply Nat.eqb_neq in Ne. rewrite Ne. reflexivity.
    + rewrite (get_oor st n Ge). cbn [edges dummy length]. rewrite Nat.add_0_r.
      apply sumf_le. intros i Hi. unfold h1, h0. cbn [existsb].
      assert (Ne : Nat.eqb i n = false) by (apply Nat.eqb_neq; lia). rewrite Ne. cbn [orb].
      change (get (count_trace st n) i) with (get st i). lia.
Qed.
