(* Any acyclicity witness (rank functions decreasing along instantaneous dependencies, no bound
   required) can be compressed into ranks below [F st]: so [Legal st inj] holds for EVERY state whose
   instantaneous dependency graph is acyclic, and the top-level fuel always suffices for them. *)
From Coq Require Import List ZArith Bool Arith Lia.
Import ListNotations.
From Sodium Require Import Sodium SpecBBase SpecBMono SpecBLegal.
Local Open Scope nat_scope.

Definition count_below (st : state) (r : nat -> nat) (x : nat) : nat :=
  length (filter (fun kd : nat * def => r (fst kd) <? x) (defs st)).

(* defined keys: one more than the number of definitions of strictly smaller rank; others: 0 *)
Definition compress (st : state) (r : nat -> nat) (h : nat) : nat :=
  match alookup (defs st) h with
  | Some _ => S (count_below st r (r h))
  | None => 0
  end.

Lemma filter_length_le : forall {A} (p : A -> bool) l, length (filter p l) <= length l.
Proof. intros A p l. induction l as [|x t IH]; simpl; [lia|]. destruct (p x); simpl; lia. Qed.

Lemma filter_length_mono : forall {A} (p q : A -> bool) l,
    (forall x, p x = true -> q x = true) -> length (filter p l) <= length (filter q l).
Proof.
  intros A p q l Hpq. induction l as [|x t IH]; simpl; [lia|].
  destruct (p x) eqn:Ep.
  - rewrite (Hpq x Ep). simpl. lia.
  - destruct (q x); simpl; lia.
Qed.

Lemma filter_length_strict : forall {A} (p q : A -> bool) l x,
    (forall y, p y = true -> q y = true) -> In x l -> p x = false -> q x = true ->
    length (filter p l) < length (filter q l).
Proof.
  intros A p q l x Hpq. induction l as [|y t IH]; intros Hin Hp Hq; [destruct Hin|].
  simpl. destruct Hin as [->|Hin].
  - rewrite Hp, Hq. simpl. pose proof (filter_length_mono p q t Hpq). lia.
  - specialize (IH Hin Hp Hq). destruct (p y) eqn:Ep.
    + rewrite (Hpq y Ep). simpl. lia.
    + destruct (q y); simpl; lia.
Qed.

Lemma compress_bound : forall st r h, compress st r h < F st.
Proof.
  intros st r h. unfold compress, count_below. rewrite F_eq.
  destruct (alookup (defs st) h); [|lia].
  pose proof (filter_length_le (fun kd : nat * def => r (fst kd) <? r h) (defs st)). lia.
Qed.

Lemma compress_lt : forall st r h d a,
    alookup (defs st) h = Some d -> r a < r h -> compress st r a < compress st r h.
Proof.
  intros st r h d a Hd Hlt. unfold compress. rewrite Hd.
  destruct (alookup (defs st) a) as [da|] eqn:Ea; [|lia].
  apply alookup_In in Ea. unfold count_below. apply -> Nat.succ_lt_mono.
  apply (filter_length_strict _ _ _ (a, da)).
  - intros y Hy. apply Nat.ltb_lt in Hy. apply Nat.ltb_lt. lia.
  - exact Ea.
  - apply Nat.ltb_ge. simpl. lia.
  - apply Nat.ltb_lt. simpl. exact Hlt.
Qed.

Lemma cur_ok_compress : forall st rc h, cur_ok st rc h -> cur_ok st (compress st rc) h.
Proof.
  intros st rc h H. unfold cur_ok in *.
  destruct (alookup (cvals st) h); [exact I|].
  destruct (alookup (defs st) h) as [d|] eqn:Hd; [|exact I].
  assert (L : forall a, rc a < rc h -> compress st rc a < compress st rc h).
  { intros a Ha. exact (compress_lt st rc h d a Hd Ha). }
  destruct d; try exact I.
  - destruct (alookup (inits st) h); [exact I|].
    destruct (alookup (linit st) h) as [z|]; [|exact I].
    destruct (alookup (lazies st) z) as [[[v|c'] i]|]; try exact I. apply L. exact H.
  - apply L. exact H.
  - intros c' Hin. apply L. exact (H c' Hin).
  - destruct H as [H1 H2]. split; [apply L; exact H1|]. intros n E. apply L. exact (H2 n E).
  - destruct (alookup (loops st) h); [apply L; exact H | exact I].
Qed.

Lemma occ_ok_compress : forall st inj ro h, occ_ok st inj ro h -> occ_ok st inj (compress st ro) h.
Proof.
  intros st inj ro h H. unfold occ_ok in *.
  destruct (alookup (defs st) h) as [d|] eqn:Hd; [|exact I].
  assert (L : forall a, ro a < ro h -> compress st ro a < compress st ro h).
  { intros a Ha. exact (compress_lt st ro h d a Hd Ha). }
  destruct d; try exact I; try (apply L; exact H).
  - destruct H as [H1 H2]. split; apply L; assumption.
  - intros E. apply L. exact (H E).
  - intros n E. apply L. exact (H n E).
  - destruct (alookup (loops st) h); [apply L; exact H | exact I].
  - destruct (alookup (defs st) r) as [[]|]; try exact I. apply L. exact H.
  - intros c Hin. apply L. exact (H c Hin).
  - destruct H as [H1 [H2 H3]]. split; [apply L; exact H1|]. split.
    + intros n E. apply L. exact (H2 n E).
    + intros n E. apply L. exact (H3 n E).
  - destruct (alookup (loops st) h); [apply L; exact H | exact I].
Qed.

(* every acyclic state is legal *)
Theorem acyclic_Legal : forall st inj rc ro,
    (forall h, cur_ok st rc h) -> (forall h, occ_ok st inj ro h) ->
    LegalR st inj (compress st rc) (compress st ro).
Proof.
  intros st inj rc ro Hc Ho. split; [intros h d _; apply compress_bound|].
  split; [intros h d _; apply compress_bound|]. split.
  - intros h. apply cur_ok_compress. exact (Hc h).
  - intros h. apply occ_ok_compress. exact (Ho h).
Qed.

Corollary Legal_iff_acyclic : forall st inj,
    Legal st inj <-> exists rc ro, (forall h, cur_ok st rc h) /\ (forall h, occ_ok st inj ro h).
Proof.
  intros st inj. split.
  - intros [rc [ro [_ [_ [Hc Ho]]]]]. exists rc, ro. split; assumption.
  - intros [rc [ro [Hc Ho]]]. exists (compress st rc), (compress st ro). exact (acyclic_Legal _ _ _ _ Hc Ho).
Qed.

(* hence: for acyclic states the result (errors included) is the same for every fuel from the
   compressed rank on, in particular for every fuel >= F st *)
Theorem enough_fuel : forall st inj rc ro,
    (forall h, cur_ok st rc h) -> (forall h, occ_ok st inj ro h) ->
    forall n, F st <= n ->
    (forall c, cur st n c = cur st (F st) c) /\
    (forall s, occ st inj n s = occ st inj (F st) s) /\
    (forall c, upd st inj n c = upd st inj (F st) c).
Proof.
  intros st inj rc ro Hc Ho n Hn.
  destruct (acyclic_Legal st inj rc ro Hc Ho) as [Hb1 [Hb2 [Hc' Ho']]].
  split; [|split].
  - intros c. apply (cur_indep_F st _ Hb1 Hc'). pose proof (compress_bound st rc c). lia.
  - intros s. apply (occ_indep_F st inj _ Hb2 Ho'). pose proof (compress_bound st ro s). lia.
  - intros c. apply (upd_indep_F st inj _ Hb2 Ho'). pose proof (compress_bound st ro c). lia.
Qed.
