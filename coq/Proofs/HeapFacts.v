(* Proofs/HeapFacts.v - the collector theorems lifted to FRP programs (Model/Heap.v):
   every program runs (no panic, no fuel exhaustion), the collector's handle counts are exactly the handles
   the program's slots and listeners hold, releasing everything lets ONE collection free every object, and
   nothing reachable from a held handle is ever freed. *)
From Coq Require Import List Arith Bool Lia.
Import ListNotations.
From Sodium Require Import Gc GcExactBase GcExactInv GcExactMut GcExact GcHeap Heap.

Local Notation cn := (count_occ Nat.eq_dec).

(* ====================================================================================================== *)
(* 1. totality                                                                                            *)
(* ====================================================================================================== *)

(* an invalid operation is skipped, so under WF every operation runs *)
Lemma sstep_any s op : WF s -> exists s', sstep s op = Ok s' /\ WF s'.
Proof.
  intros W. destruct (svalid s op) eqn:V.
  - apply sstep_WF; assumption.
  - exists s. split; [|exact W]. unfold sstep. rewrite V. reflexivity.
Qed.

Lemma srun_any ops : forall s, WF s -> exists s', srun s ops = Ok s' /\ WF s'.
Proof.
  induction ops as [|op ops IH]; intros s W.
  - exists s. split; [reflexivity|exact W].
  - destruct (sstep_any s op W) as (s1 & E1 & W1).
    destruct (IH s1 W1) as (s2 & E2 & W2).
    exists s2. split; [|exact W2]. cbn [srun]. rewrite E1. cbn [bind]. exact E2.
Qed.

Lemma run_ops_any st ops nn :
  WF (hs st) -> exists st', run_ops st ops nn = Ok st' /\ WF (hs st').
Proof.
  intros W. destruct (srun_any ops (hs st) W) as (s' & E & W').
  unfold run_ops. rewrite E. eexists. split; [reflexivity|exact W'].
Qed.

Lemma run_ops_inv st ops nn st' :
  run_ops st ops nn = Ok st' ->
  srun (hs st) ops = Ok (hs st') /\ slots st' = slots st /\ lsn st' = lsn st.
Proof.
  unfold run_ops. destruct (srun (hs st) ops) as [s'| |] eqn:E; intros H; try discriminate.
  injection H as <-. cbn. auto.
Qed.

(* one stage of a lift chain: the last stage owns the user function and its captured handles *)
Definition lift_tm (rest keeps : list slot) : tmpl :=
  match rest with [] => with_keeps t_lift2 3 2 (length keeps) | _ => t_lift2 end.
Definition lift_ar (acc c : slot) (rest keeps : list slot) : list slot :=
  match rest with [] => [acc; c] ++ keeps | _ => [acc; c] end.

Lemma lift_chain_cons st h acc first c t keeps :
  lift_chain st h acc first (c :: t) keeps =
  match run_ops st (inst_ops (lift_tm t keeps) (lift_ar acc c t keeps) (base_of st)) (t_new (lift_tm t keeps)) with
  | Ok st1 =>
    match (if first then Ok st1 else run_ops st1 (drop_slot_ops acc) []) with
    | Ok st2 => lift_chain st2 h (inst_slot (lift_tm t keeps) (lift_ar acc c t keeps) (base_of st)) false t keeps
    | Panic e => Panic e
    | OutOfFuel => OutOfFuel
    end
  | Panic e => Panic e
  | OutOfFuel => OutOfFuel
  end.
Proof. reflexivity. Qed.

Lemma lift_chain_any h keeps : forall rest st acc first,
  WF (hs st) -> exists st', lift_chain st h acc first rest keeps = Ok st' /\ WF (hs st').
Proof.
  induction rest as [|c rest IH]; intros st acc first W.
  - cbn [lift_chain]. eexists. split; [reflexivity|exact W].
  - rewrite lift_chain_cons.
    destruct (run_ops_any st (inst_ops (lift_tm rest keeps) (lift_ar acc c rest keeps) (base_of st))
                (t_new (lift_tm rest keeps)) W) as (st1 & E1 & W1).
    rewrite E1.
    assert (X : exists st2, (if first then Ok st1 else run_ops st1 (drop_slot_ops acc) []) = Ok st2 /\ WF (hs st2)).
    { destruct first; [eexists; split; [reflexivity|exact W1]|]. apply run_ops_any. exact W1. }
    destruct X as (st2 & E2 & W2). rewrite E2. apply IH. exact W2.
Qed.

Theorem hstep_total : forall st op, WF (hs st) -> exists st', hstep st op = Ok st' /\ WF (hs st').
Proof.
  intros st op W.
  assert (Same : exists st', Ok st = Ok st' /\ WF (hs st')) by (exists st; split; [reflexivity|exact W]).
  destruct op as [h p args keeps|h args keeps|h c|l t|l s strong|l c strong|l|l|h h'|h| |]; cbn [hstep].
  - destruct (lookups (slots st) args) as [sl|]; [|exact Same].
    destruct (lookups (slots st) keeps) as [kl|]; [|exact Same].
    destruct (free_slot st h && arity_ok p (length args)); [|exact Same].
    unfold def_slot.
    match goal with |- context [run_ops st ?o ?n] => destruct (run_ops_any st o n W) as (st1 & E1 & W1) end.
    rewrite E1. eexists. split; [reflexivity|exact W1].
  - destruct (lookups (slots st) args) as [[|a [|b rest]]|]; try exact Same.
    destruct (lookups (slots st) keeps) as [kl|]; [|exact Same].
    destruct (free_slot st h); [|exact Same]. apply lift_chain_any. exact W.
  - destruct (lookup (slots st) c) as [sc|]; [|exact Same].
    destruct (free_slot st h); [|exact Same].
    destruct (run_ops_any st [GClone (s_upd sc)] [] W) as (st1 & E1 & W1).
    rewrite E1. eexists. split; [reflexivity|exact W1].
  - destruct (lookup (slots st) l) as [sl|]; [|exact Same].
    destruct (lookup (slots st) t) as [stg|]; [|exact Same].
    destruct (s_open sl); [|exact Same].
    match goal with |- context [run_ops st ?o ?n] => destruct (run_ops_any st o n W) as (st1 & E1 & W1) end.
    rewrite E1. eexists. split; [reflexivity|exact W1].
  - destruct (lookup (slots st) s) as [ss|]; [|exact Same].
    destruct (free_listener st l); [|exact Same].
    match goal with |- context [run_ops st ?o ?n] => destruct (run_ops_any st o n W) as (st1 & E1 & W1) end.
    rewrite E1. eexists. split; [reflexivity|exact W1].
  - destruct (lookup (slots st) c) as [sc|]; [|exact Same].
    destruct (free_listener st l); [|exact Same].
    match goal with |- context [run_ops st ?o ?n] => destruct (run_ops_any st o n W) as (st1 & E1 & W1) end.
    rewrite E1. eexists. split; [reflexivity|exact W1].
  - destruct (lookup (lsn st) l) as [r|]; [|exact Same].
    destruct (l_held r || l_ka r); [|exact Same].
    match goal with |- context [run_ops st ?o ?n] => destruct (run_ops_any st o n W) as (st1 & E1 & W1) end.
    rewrite E1. eexists. split; [reflexivity|exact W1].
  - destruct (lookup (lsn st) l) as [r|]; [|exact Same].
    destruct (l_held r); [|exact Same].
    match goal with |- context [run_ops st ?o ?n] => destruct (run_ops_any st o n W) as (st1 & E1 & W1) end.
    rewrite E1. eexists. split; [reflexivity|exact W1].
  - destruct (lookup (slots st) h) as [s|]; [|exact Same].
    destruct (free_slot st h'); [|exact Same].
    match goal with |- context [run_ops st ?o ?n] => destruct (run_ops_any st o n W) as (st1 & E1 & W1) end.
    rewrite E1. eexists. split; [reflexivity|exact W1].
  - destruct (lookup (slots st) h) as [s|]; [|exact Same].
    match goal with |- context [run_ops st ?o ?n] => destruct (run_ops_any st o n W) as (st1 & E1 & W1) end.
    rewrite E1. eexists. split; [reflexivity|exact W1].
  - apply run_ops_any. exact W.
  - exact Same.
Qed.
Print Assumptions hstep_total.

Lemma hrun_any ops : forall st, WF (hs st) -> exists st', hrun st ops = Ok st' /\ WF (hs st').
Proof.
  induction ops as [|op ops IH]; intros st W.
  - exists st. split; [reflexivity|exact W].
  - destruct (hstep_total st op W) as (st1 & E1 & W1).
    destruct (IH st1 W1) as (st2 & E2 & W2).
    exists st2. split; [|exact W2]. cbn [hrun]. rewrite E1. exact E2.
Qed.

Theorem hrun_total : forall ops, exists st, hrun hinit ops = Ok st /\ WF (hs st).
Proof. intros ops. apply hrun_any. exact WF_init. Qed.
Print Assumptions hrun_total.

Lemma hstep_WF st op st' : WF (hs st) -> hstep st op = Ok st' -> WF (hs st').
Proof.
  intros W E. destruct (hstep_total st op W) as (st2 & E2 & W2). rewrite E in E2. injection E2 as <-. exact W2.
Qed.

Lemma hrun_WF ops : forall st st', WF (hs st) -> hrun st ops = Ok st' -> WF (hs st').
Proof.
  intros st st' W E. destruct (hrun_any ops st W) as (st2 & E2 & W2). rewrite E in E2. injection E2 as <-. exact W2.
Qed.

Lemma srun_WF ops s s' : WF s -> srun s ops = Ok s' -> WF s'.
Proof.
  intros W E. destruct (srun_any ops s W) as (s2 & E2 & W2). rewrite E in E2. injection E2 as <-. exact W2.
Qed.

(* ====================================================================================================== *)
(* 2. handle accounting                                                                                   *)
(* ====================================================================================================== *)

(* ---- the handle counts evolve independently of the rest of the collector state ---- *)
Definition ext_step (e : list nat) (op : gop) : list nat :=
  match op with
  | GCreate => e ++ [1]
  | GClone o => if Nat.ltb 0 (nth o e 0) then upd_nat e o (S (nth o e 0)) else e
  | GDrop o => if Nat.ltb 0 (nth o e 0) then upd_nat e o (pred (nth o e 0)) else e
  | _ => e
  end.

Definition ext_run (e : list nat) (ops : list gop) : list nat := fold_left ext_step ops e.

Lemma sstep_ext s op s' : sstep s op = Ok s' -> ext s' = ext_step (ext s) op.
Proof.
  unfold sstep. destruct (svalid s op) eqn:V; cbn [negb].
  - intros H. apply bind_ok in H as (g1 & _ & H). injection H as <-. cbn [ext].
    destruct op; cbn [ext_step svalid] in *; try reflexivity; unfold ext_of in *; rewrite V; reflexivity.
  - intros H. injection H as <-.
    destruct op; cbn [ext_step svalid] in *; try reflexivity; try discriminate;
      unfold ext_of in *; rewrite V; reflexivity.
Qed.

Lemma srun_ext ops : forall s s', srun s ops = Ok s' -> ext s' = ext_run (ext s) ops.
Proof.
  induction ops as [|op ops IH]; intros s s' H.
  - cbn in H. injection H as <-. reflexivity.
  - cbn [srun] in H. apply bind_ok in H as (s1 & E1 & H).
    unfold ext_run. cbn [fold_left]. rewrite <- (sstep_ext _ _ _ E1). apply IH. exact H.
Qed.

Lemma ext_run_app e a b : ext_run e (a ++ b) = ext_run (ext_run e a) b.
Proof. unfold ext_run. apply fold_left_app. Qed.

Lemma ext_run_cons e op ops : ext_run e (op :: ops) = ext_run (ext_step e op) ops.
Proof. reflexivity. Qed.

Lemma pos_in_range e k : 0 < nth k e 0 -> k < length e.
Proof.
  intros P. destruct (Nat.lt_ge_cases k (length e)) as [L|G]; [exact L|].
  rewrite nth_overflow in P by exact G. lia.
Qed.

Lemma nth_ext_clone e k o :
  nth o (ext_step e (GClone k)) 0 = if (o =? k) && (0 <? nth k e 0) then S (nth o e 0) else nth o e 0.
Proof.
  cbn [ext_step]. destruct (Nat.ltb_spec 0 (nth k e 0)) as [P|P].
  - pose proof (pos_in_range e k P) as L.
    destruct (Nat.eqb_spec o k) as [->|N]; cbn [andb].
    + rewrite nth_upd_nat_same by exact L. reflexivity.
    + rewrite nth_upd_nat_other by (intros X; apply N; symmetry; exact X). reflexivity.
  - rewrite andb_false_r. reflexivity.
Qed.

Lemma nth_ext_drop e k o :
  nth o (ext_step e (GDrop k)) 0 = nth o e 0 - (if o =? k then 1 else 0).
Proof.
  cbn [ext_step]. destruct (Nat.ltb_spec 0 (nth k e 0)) as [P|P].
  - pose proof (pos_in_range e k P) as L.
    destruct (Nat.eqb_spec o k) as [->|N].
    + rewrite nth_upd_nat_same by exact L. lia.
    + rewrite nth_upd_nat_other by (intros X; apply N; symmetry; exact X). lia.
  - destruct (Nat.eqb_spec o k) as [->|N]; lia.
Qed.

Lemma length_ext_step e op :
  length (ext_step e op) = length e + match op with GCreate => 1 | _ => 0 end.
Proof.
  destruct op; cbn [ext_step]; try lia.
  - rewrite app_length. reflexivity.
  - destruct (0 <? nth o e 0); [rewrite upd_nat_length|]; lia.
  - destruct (0 <? nth o e 0); [rewrite upd_nat_length|]; lia.
Qed.

Lemma ext_run_creates n : forall e, ext_run e (repeat GCreate n) = e ++ repeat 1 n.
Proof.
  induction n as [|n IH]; intros e; cbn [repeat].
  - rewrite app_nil_r. reflexivity.
  - rewrite ext_run_cons. cbn [ext_step]. rewrite IH, <- app_assoc. reflexivity.
Qed.

Lemma nth_repeat1 n : forall i, nth i (repeat 1 n) 0 = if i <? n then 1 else 0.
Proof.
  induction n as [|n IH]; intros [|i]; cbn [repeat nth]; try reflexivity.
  rewrite IH. reflexivity.
Qed.

Lemma nth_app_repeat e n o :
  nth o (e ++ repeat 1 n) 0 = nth o e 0 + (if (length e <=? o) && (o <? length e + n) then 1 else 0).
Proof.
  destruct (Nat.leb_spec (length e) o) as [G|L]; cbn [andb].
  - rewrite app_nth2 by exact G. rewrite (nth_overflow e) by exact G. rewrite nth_repeat1.
    destruct (Nat.ltb_spec (o - length e) n); destruct (Nat.ltb_spec o (length e + n)); lia.
  - rewrite app_nth1 by exact L. lia.
Qed.

Lemma ext_run_edges {A} (f h : A -> nat) l e : ext_run e (map (fun x => GAddEdge (f x) (h x)) l) = e.
Proof. induction l as [|x l IH]; [reflexivity|]. cbn [map]. rewrite ext_run_cons. exact IH. Qed.

Lemma ext_run_drops l : forall e,
  length (ext_run e (map GDrop l)) = length e /\
  forall o, nth o (ext_run e (map GDrop l)) 0 = nth o e 0 - cn l o.
Proof.
  induction l as [|k l IH]; intros e; cbn [map].
  - split; [reflexivity|]. intros o. cbn. lia.
  - rewrite ext_run_cons. destruct (IH (ext_step e (GDrop k))) as (L & N). split.
    + rewrite L, length_ext_step. lia.
    + intros o. rewrite N, nth_ext_drop. cbn [count_occ].
      destruct (Nat.eqb_spec o k) as [E|Ne']; destruct (Nat.eq_dec k o) as [E2|Ne]; lia.
Qed.

Lemma ext_run_clones l : forall e,
  length (ext_run e (map GClone l)) = length e /\
  forall o, nth o (ext_run e (map GClone l)) 0 = if nth o e 0 =? 0 then 0 else nth o e 0 + cn l o.
Proof.
  induction l as [|k l IH]; intros e; cbn [map].
  - split; [reflexivity|]. intros o. cbn. destruct (Nat.eqb_spec (nth o e 0) 0); lia.
  - rewrite ext_run_cons. destruct (IH (ext_step e (GClone k))) as (L & N). split.
    + rewrite L, length_ext_step. lia.
    + intros o. rewrite N, nth_ext_clone. cbn [count_occ].
      destruct (Nat.eqb_spec o k) as [E|Ne']; destruct (Nat.eq_dec k o) as [E2|Ne]; cbn [andb]; try lia.
      rewrite <- E.
      destruct (Nat.ltb_spec 0 (nth o e 0)); destruct (Nat.eqb_spec (nth o e 0) 0); cbn; lia.
Qed.

(* cloning handles that are all held adds exactly their multiplicities *)
Lemma ext_run_clones_held l e :
  (forall k, In k l -> 0 < nth k e 0) ->
  length (ext_run e (map GClone l)) = length e /\
  forall o, nth o (ext_run e (map GClone l)) 0 = nth o e 0 + cn l o.
Proof.
  intros P. destruct (ext_run_clones l e) as (L & N). split; [exact L|].
  intros o. rewrite N. destruct (Nat.eqb_spec (nth o e 0) 0) as [Z|NZ]; [|reflexivity].
  destruct (cn l o) as [|c] eqn:C; [lia|].
  assert (In o l) as I by (apply (count_occ_In Nat.eq_dec); lia).
  apply P in I. lia.
Qed.

(* ---- counting occurrences ---- *)
Lemma memb_In l k : memb l k = true <-> In k l.
Proof.
  unfold memb. rewrite existsb_exists. split.
  - intros (x & I & E). apply Nat.eqb_eq in E. subst x. exact I.
  - intros I. exists k. split; [exact I|apply Nat.eqb_refl].
Qed.

Lemma memb_cn l k : memb l k = false -> cn l k = 0.
Proof.
  intros M. apply count_occ_not_In. intros I. apply memb_In in I. rewrite I in M. discriminate.
Qed.

Lemma cn_map_add base l o : cn (map (fun k => base + k) l) o = if base <=? o then cn l (o - base) else 0.
Proof.
  induction l as [|x l IH]; cbn [map count_occ].
  - destruct (base <=? o); reflexivity.
  - rewrite IH.
    destruct (Nat.leb_spec base o); destruct (Nat.eq_dec (base + x) o); destruct (Nat.eq_dec x (o - base)); lia.
Qed.

Lemma cn_filter_seq f n : forall a k,
  cn (filter f (seq a n)) k = if (a <=? k) && (k <? a + n) && f k then 1 else 0.
Proof.
  induction n as [|n IH]; intros a k; cbn [seq filter].
  - cbn [count_occ]. destruct (Nat.leb_spec a k); destruct (Nat.ltb_spec k (a + 0)); cbn [andb]; try reflexivity; lia.
  - destruct (Nat.eq_dec a k) as [E|N].
    + subst k. destruct (f a) eqn:Fa; cbn [count_occ]; rewrite ?IH; rewrite ?Fa.
      * destruct (Nat.eq_dec a a) as [_|X]; [|contradiction].
        destruct (Nat.leb_spec (S a) a); [lia|]. destruct (Nat.leb_spec a a); [|lia].
        destruct (Nat.ltb_spec a (a + S n)); [|lia]. reflexivity.
      * rewrite !andb_false_r. reflexivity.
    + destruct (f a) eqn:Fa; cbn [count_occ]; rewrite ?IH.
      * destruct (Nat.eq_dec a k) as [X|_]; [contradiction|].
        destruct (Nat.leb_spec (S a) k); destruct (Nat.leb_spec a k); destruct (Nat.ltb_spec k (S a + n));
          destruct (Nat.ltb_spec k (a + S n)); cbn [andb]; try reflexivity; lia.
      * destruct (Nat.leb_spec (S a) k); destruct (Nat.leb_spec a k); destruct (Nat.ltb_spec k (S a + n));
          destruct (Nat.ltb_spec k (a + S n)); cbn [andb]; try reflexivity; lia.
Qed.

(* ---- side conditions on templates ---- *)
Definition tref_eqb (a b : tref) : bool :=
  match a, b with
  | RNode i, RNode j => i =? j
  | RUpd i, RUpd j => i =? j
  | RNew i, RNew j => i =? j
  | _, _ => false
  end.

Lemma tref_eqb_eq a b : tref_eqb a b = true -> a = b.
Proof.
  destruct a as [i|i|i], b as [j|j|j]; cbn [tref_eqb]; intros H; try discriminate;
    apply Nat.eqb_eq in H; subst; reflexivity.
Qed.

Fixpoint nodupb (l : list nat) : bool :=
  match l with [] => true | x :: t => negb (memb t x) && nodupb t end.

Lemma nodupb_NoDup l : nodupb l = true -> NoDup l.
Proof.
  induction l as [|x l IH]; cbn [nodupb]; intros H; [constructor|].
  apply andb_true_iff in H as (H1 & H2). constructor; [|apply IH; exact H2].
  intros I. apply memb_In in I. rewrite I in H1. discriminate.
Qed.

(* an argument reference that exists *)
Definition ref_arg (nargs : nat) (r : tref) : bool :=
  match r with RNode i => i <? nargs | RUpd i => i <? nargs | RNew _ => false end.
(* a reference to something the resulting slot holds a (real or ghost) handle on *)
Definition ref_held (t : tmpl) (r : tref) : bool :=
  match r with
  | RNew k => memb (t_keep t ++ t_ghost t) k
  | _ => existsb (tref_eqb r) (t_gclone t)
  end.

Definition tmpl_okb (t : tmpl) (nargs : nat) : bool :=
  nodupb (t_keep t ++ t_ghost t)
  && forallb (fun k => k <? length (t_new t)) (t_keep t ++ t_ghost t)
  && forallb (ref_arg nargs) (t_gclone t)
  && ref_held t (t_node t) && ref_held t (t_upd t).

Record tmpl_ok (t : tmpl) (nargs : nat) : Prop := {
  ok_nodup : NoDup (t_keep t ++ t_ghost t);
  ok_range : forall k, In k (t_keep t ++ t_ghost t) -> k < length (t_new t);
  ok_gclone : forall r, In r (t_gclone t) -> ref_arg nargs r = true;
  ok_node : ref_held t (t_node t) = true;
  ok_upd : ref_held t (t_upd t) = true
}.

Lemma tmpl_okb_ok t n : tmpl_okb t n = true -> tmpl_ok t n.
Proof.
  unfold tmpl_okb. intros H.
  apply andb_true_iff in H as (H & H5). apply andb_true_iff in H as (H & H4).
  apply andb_true_iff in H as (H & H3). apply andb_true_iff in H as (H1 & H2).
  constructor.
  - apply nodupb_NoDup. exact H1.
  - intros k Hk. rewrite forallb_forall in H2. apply Nat.ltb_lt. apply H2. exact Hk.
  - intros r Hr. rewrite forallb_forall in H3. apply H3. exact Hr.
  - exact H4.
  - exact H5.
Qed.

Lemma tmpl_of_ok p n : arity_ok p n = true -> tmpl_ok (tmpl_of p n) n.
Proof.
  intros A. apply tmpl_okb_ok.
  destruct p; cbn [arity_ok] in A; try (apply Nat.eqb_eq in A; subst n); reflexivity.
Qed.

(* more arguments never hurt, and captured handles only add edges *)
Lemma ref_arg_mono n m r : n <= m -> ref_arg n r = true -> ref_arg m r = true.
Proof.
  intros Le. destruct r as [i|i|k]; cbn [ref_arg]; intros H; try discriminate;
    apply Nat.ltb_lt in H; apply Nat.ltb_lt; lia.
Qed.

Lemma tmpl_ok_mono t n m : n <= m -> tmpl_ok t n -> tmpl_ok t m.
Proof.
  intros Le [K1 K2 K3 K4 K5]. constructor; try assumption.
  intros r Hr. apply (ref_arg_mono n m r Le). apply K3. exact Hr.
Qed.

Lemma tmpl_ok_with_keeps t owner first nk n : tmpl_ok t n -> tmpl_ok (with_keeps t owner first nk) n.
Proof. intros [K1 K2 K3 K4 K5]. constructor; assumption. Qed.

Lemma tmpl_with_ok p n nk : arity_ok p n = true -> tmpl_ok (tmpl_with p n nk) (n + nk).
Proof.
  intros A. apply (tmpl_ok_mono _ n); [lia|]. unfold tmpl_with.
  destruct (fun_owner p); [apply tmpl_ok_with_keeps|]; apply tmpl_of_ok; exact A.
Qed.

Lemma t_lift2_ok : tmpl_ok t_lift2 2.
Proof. apply tmpl_okb_ok. reflexivity. Qed.

Lemma lift_tm_ok rest keeps : tmpl_ok (lift_tm rest keeps) 2.
Proof. unfold lift_tm. destruct rest; [apply tmpl_ok_with_keeps|]; exact t_lift2_ok. Qed.
Lemma lift_tm_gclone rest keeps : t_gclone (lift_tm rest keeps) = [].
Proof. unfold lift_tm. destruct rest; reflexivity. Qed.
Lemma t_listen_ok : tmpl_ok t_listen 1.
Proof. apply tmpl_okb_ok. reflexivity. Qed.
Lemma t_listen_c_ok : tmpl_ok t_listen_c 1.
Proof. apply tmpl_okb_ok. reflexivity. Qed.

Definition slot_ok (s : slot) : Prop :=
  In (s_node s) (s_h s ++ s_g s) /\ In (s_upd s) (s_h s ++ s_g s).

Lemma ref_held_in t args base r :
  ref_held t r = true ->
  In (resolve args base r) (s_h (inst_slot t args base) ++ s_g (inst_slot t args base)).
Proof.
  cbn [inst_slot s_h s_g]. intros H.
  assert (G : (exists k, r = RNew k /\ In k (t_keep t ++ t_ghost t)) \/ In r (t_gclone t)).
  { destruct r as [i|i|k]; cbn [ref_held] in H.
    - right. apply existsb_exists in H as (x & I & E). apply tref_eqb_eq in E. subst x. exact I.
    - right. apply existsb_exists in H as (x & I & E). apply tref_eqb_eq in E. subst x. exact I.
    - left. exists k. split; [reflexivity|]. apply memb_In. exact H. }
  destruct G as [(k & -> & I)|I].
  - cbn [resolve]. apply in_app_or in I as [I|I].
    + apply in_or_app. left. apply (in_map (fun k => base + k)). exact I.
    + apply in_or_app. right. apply in_or_app. left. apply (in_map (fun k => base + k)). exact I.
  - apply in_or_app. right. apply in_or_app. right. apply (in_map (resolve args base)). exact I.
Qed.

Lemma inst_slot_ok t n args base : tmpl_ok t n -> slot_ok (inst_slot t args base).
Proof.
  intros K. split.
  - apply (ref_held_in t args base (t_node t)). apply (ok_node _ _ K).
  - apply (ref_held_in t args base (t_upd t)). apply (ok_upd _ _ K).
Qed.

(* ---- the effect of one template instance on the handle counts ---- *)
Lemma inst_ext t args e :
  NoDup (t_keep t ++ t_ghost t) ->
  (forall k, In k (t_keep t ++ t_ghost t) -> k < length (t_new t)) ->
  (forall r, In r (t_gclone t) -> 0 < nth (resolve args (length e) r) e 0) ->
  length (ext_run e (inst_ops t args (length e))) = length e + length (t_new t) /\
  forall o, nth o (ext_run e (inst_ops t args (length e))) 0 =
            nth o e 0 + cn (s_h (inst_slot t args (length e))) o + cn (s_g (inst_slot t args (length e))) o.
Proof.
  intros ND RG GC. set (base := length e). set (n := length (t_new t)).
  unfold inst_ops. rewrite !ext_run_app, ext_run_creates, ext_run_edges. fold n.
  rewrite <- (map_map (fun k => base + k) GDrop), <- (map_map (resolve args base) GClone).
  set (fl := filter (fun k => negb (memb (t_keep t) k) && negb (memb (t_ghost t) k)) (seq 0 n)).
  destruct (ext_run_drops (map (fun k => base + k) fl) (e ++ repeat 1 n)) as (L2 & N2).
  set (e2 := ext_run (e ++ repeat 1 n) (map GDrop (map (fun k => base + k) fl))) in *.
  destruct (ext_run_clones_held (map (resolve args base) (t_gclone t)) e2) as (L3 & N3).
  { intros k Hk. apply in_map_iff in Hk as (r & <- & Hr). specialize (GC r Hr). fold base in GC.
    pose proof (pos_in_range _ _ GC) as Lt. fold base in Lt.
    rewrite N2, nth_app_repeat, cn_map_add. fold base.
    destruct (Nat.leb_spec base (resolve args base r)); lia. }
  split.
  - rewrite L3, L2, app_length, repeat_length. reflexivity.
  - intros o. rewrite N3, N2, nth_app_repeat. cbn [inst_slot s_h s_g]. rewrite count_occ_app.
    rewrite !cn_map_add. unfold fl. rewrite cn_filter_seq. fold base.
    destruct (Nat.leb_spec base o) as [G|Lt]; cbn [andb]; [|lia].
    set (k := o - base).
    pose proof (proj1 (NoDup_count_occ Nat.eq_dec _) ND k) as C1. rewrite count_occ_app in C1.
    assert (C2 : n <= k -> cn (t_keep t) k = 0 /\ cn (t_ghost t) k = 0).
    { intros Ge. split; apply count_occ_not_In; intros I; assert (k < n); try lia; apply RG; apply in_or_app; auto. }
    assert (C3 : forall l, memb l k = true -> 0 < cn l k).
    { intros l M. apply memb_In in M. apply (count_occ_In Nat.eq_dec). exact M. }
    destruct (Nat.ltb_spec o (base + n)) as [Lt|Ge]; destruct (Nat.ltb_spec k (0 + n)) as [Lt'|Ge']; try lia.
    + destruct (memb (t_keep t) k) eqn:M1; destruct (memb (t_ghost t) k) eqn:M2; cbn [negb andb];
        try (apply C3 in M1); try (apply C3 in M2); try (apply memb_cn in M1); try (apply memb_cn in M2).
      all: cbn [Nat.leb andb]; lia.
    + rewrite andb_false_r. cbn [andb]. destruct C2 as (Z1 & Z2); [lia|]. lia.
Qed.

(* ---- tables ---- *)
Section Tables.
  Context {A : Type}.
  Implicit Types (l : list (nat * A)).

  Lemma lookup_remove_key l k k' : lookup (remove_key l k) k' = if k' =? k then None else lookup l k'.
  Proof.
    induction l as [|[a v] l IH]; unfold remove_key; cbn [filter lookup fst].
    - destruct (k' =? k); reflexivity.
    - fold (remove_key l k). destruct (Nat.eqb_spec a k) as [E|N]; cbn [negb].
      + subst a. rewrite IH. destruct (Nat.eqb_spec k' k); reflexivity.
      + cbn [lookup]. rewrite IH.
        destruct (Nat.eqb_spec k' a) as [E|N']; destruct (Nat.eqb_spec k' k) as [E'|N'']; try reflexivity.
        subst. contradiction.
  Qed.

  Lemma lookup_set_key l k v k' : lookup (set_key l k v) k' = if k' =? k then Some v else lookup l k'.
  Proof.
    unfold set_key. cbn [lookup]. destruct (Nat.eqb_spec k' k) as [E|N]; [reflexivity|].
    rewrite lookup_remove_key. destruct (Nat.eqb_spec k' k); [contradiction|reflexivity].
  Qed.

  Lemma lookup_None_keys l k : lookup l k = None <-> ~ In k (map fst l).
  Proof.
    induction l as [|[a v] l IH]; cbn [lookup map fst In].
    - split; [intros _ []|reflexivity].
    - destruct (Nat.eqb_spec k a) as [E|N].
      + split; [discriminate|]. intros X. exfalso. apply X. left. symmetry. exact E.
      + rewrite IH. split.
        * intros X [Y|Y]; [apply N; symmetry; exact Y|apply X; exact Y].
        * intros X Y. apply X. right. exact Y.
  Qed.

  Lemma lookup_In l k v : lookup l k = Some v -> In (k, v) l.
  Proof.
    induction l as [|[a w] l IH]; cbn [lookup]; [discriminate|].
    destruct (Nat.eqb_spec k a) as [E|N]; intros H.
    - injection H as <-. subst a. left. reflexivity.
    - right. apply IH. exact H.
  Qed.

  Lemma In_lookup l k v : NoDup (map fst l) -> In (k, v) l -> lookup l k = Some v.
  Proof.
    induction l as [|[a w] l IH]; cbn [lookup map fst]; intros ND I; [destruct I|].
    inversion ND as [|x y NI ND' Ex]; subst.
    destruct I as [I|I].
    - injection I as -> ->. rewrite Nat.eqb_refl. reflexivity.
    - destruct (Nat.eqb_spec k a) as [E|N]; [|apply IH; assumption].
      subst a. exfalso. apply NI. apply (in_map fst) in I. exact I.
  Qed.

  Lemma remove_key_none l k : lookup l k = None -> remove_key l k = l.
  Proof.
    induction l as [|[a v] l IH]; unfold remove_key; cbn [filter lookup fst]; [reflexivity|].
    fold (remove_key l k). destruct (Nat.eqb_spec k a) as [E|N]; [discriminate|].
    intros H. destruct (Nat.eqb_spec a k) as [E'|N']; [subst; contradiction|].
    cbn [negb]. rewrite (IH H). reflexivity.
  Qed.

  Lemma keys_remove_key l k x : In x (map fst (remove_key l k)) <-> x <> k /\ In x (map fst l).
  Proof.
    destruct (lookup (remove_key l k) x) as [v|] eqn:E1.
    - rewrite lookup_remove_key in E1. destruct (Nat.eqb_spec x k) as [E|N]; [discriminate|].
      split; intros _.
      + split; [exact N|]. apply lookup_In in E1. apply (in_map fst) in E1. exact E1.
      + assert (L : lookup (remove_key l k) x = Some v).
        { rewrite lookup_remove_key. destruct (Nat.eqb_spec x k); [contradiction|exact E1]. }
        apply lookup_In in L. apply (in_map fst) in L. exact L.
    - pose proof (proj1 (lookup_None_keys _ _) E1) as X. split; [intros Y; contradiction|].
      intros (N & I). exfalso. rewrite lookup_remove_key in E1.
      destruct (Nat.eqb_spec x k); [contradiction|]. apply lookup_None_keys in E1. contradiction.
  Qed.

  Lemma NoDup_remove_key l k : NoDup (map fst l) -> NoDup (map fst (remove_key l k)).
  Proof.
    induction l as [|[a v] l IH]; unfold remove_key; cbn [filter map fst]; intros ND; [constructor|].
    fold (remove_key l k). inversion ND as [|x y NI ND' Ex]; subst.
    destruct (negb (a =? k)); [|apply IH; exact ND'].
    cbn [map fst]. constructor; [|apply IH; exact ND'].
    intros I. apply keys_remove_key in I as (_ & I). contradiction.
  Qed.

  Lemma NoDup_set_key l k v : NoDup (map fst l) -> NoDup (map fst (set_key l k v)).
  Proof.
    intros ND. unfold set_key. cbn [map fst]. constructor; [|apply NoDup_remove_key; exact ND].
    intros I. apply keys_remove_key in I as (N & _). apply N. reflexivity.
  Qed.

  Lemma cn_flat_split (f : nat * A -> list nat) l k v o :
    NoDup (map fst l) -> lookup l k = Some v ->
    cn (flat_map f l) o = cn (f (k, v)) o + cn (flat_map f (remove_key l k)) o.
  Proof.
    induction l as [|[a w] l IH]; cbn [lookup map fst]; intros ND H; [discriminate|].
    inversion ND as [|x y NI ND' Ex]; subst.
    unfold remove_key. cbn [filter fst flat_map]. fold (remove_key l k). rewrite count_occ_app.
    destruct (Nat.eqb_spec k a) as [E|N].
    - injection H as <-. subst a. rewrite Nat.eqb_refl. cbn [negb].
      rewrite remove_key_none; [reflexivity|]. apply lookup_None_keys. exact NI.
    - destruct (Nat.eqb_spec a k) as [E'|N']; [subst; contradiction|]. cbn [negb flat_map].
      rewrite count_occ_app, (IH ND' H). lia.
  Qed.
End Tables.

(* ---- the invariant of program states ---- *)
Definition Tracked (st : hstate) : Prop :=
  forall o, ext_of (hs st) o = count_occ Nat.eq_dec (held st) o.

Definition sl_h (l : list (nat * slot)) : list nat := flat_map (fun kv => s_h (snd kv) ++ s_g (snd kv)) l.
Definition ls_h (l : list (nat * lrec)) : list nat := flat_map (fun kv => listener_handles (snd kv)) l.

Lemma held_eq st : held st = sl_h (slots st) ++ ls_h (lsn st).
Proof. reflexivity. Qed.

Record TInv (st : hstate) : Prop := {
  ti_tracked : Tracked st;
  ti_slots : NoDup (map fst (slots st));
  ti_lsn : NoDup (map fst (lsn st));
  ti_ok : forall k s, lookup (slots st) k = Some s -> slot_ok s
}.

Lemma TInv_init : TInv hinit.
Proof.
  constructor.
  - intros o. cbn. destruct o; reflexivity.
  - constructor.
  - constructor.
  - intros k s H. discriminate H.
Qed.

Lemma held_slot_pos st k s x :
  Tracked st -> lookup (slots st) k = Some s -> In x (s_h s ++ s_g s) -> 0 < nth x (ext (hs st)) 0.
Proof.
  intros T L I. specialize (T x). unfold ext_of in T. rewrite T.
  apply (count_occ_In Nat.eq_dec). rewrite held_eq. apply in_or_app. left.
  unfold sl_h. apply in_flat_map. exists (k, s). split; [apply lookup_In; exact L|exact I].
Qed.

Lemma held_listener_pos st k r :
  Tracked st -> lookup (lsn st) k = Some r -> l_held r || l_ka r = true -> 0 < nth (l_id r) (ext (hs st)) 0.
Proof.
  intros T L I. specialize (T (l_id r)). unfold ext_of in T. rewrite T.
  apply (count_occ_In Nat.eq_dec). rewrite held_eq. apply in_or_app. right.
  unfold ls_h. apply in_flat_map. exists (k, r). split; [apply lookup_In; exact L|].
  cbn [snd]. unfold listener_handles. destruct (l_held r); [left; reflexivity|].
  destruct (l_ka r); [left; reflexivity|discriminate].
Qed.

Lemma lookups_spec sl : forall ks l,
  lookups sl ks = Some l ->
  length l = length ks /\ forall i, i < length l -> exists k, lookup sl k = Some (nth i l dummy_slot).
Proof.
  induction ks as [|k ks IH]; intros l H; cbn [lookups] in H.
  - injection H as <-. split; [reflexivity|]. intros i Hi. cbn in Hi. lia.
  - destruct (lookup sl k) as [s|] eqn:E; [|discriminate].
    destruct (lookups sl ks) as [r|]; [|discriminate]. injection H as <-.
    destruct (IH r eq_refl) as (Len & Nth). split; [cbn [length]; rewrite Len; reflexivity|].
    intros [|i] Hi; cbn [nth].
    + exists k. exact E.
    + apply Nth. cbn [length] in Hi. lia.
Qed.

Lemma lookups_app sl : forall a b la lb,
  lookups sl a = Some la -> lookups sl b = Some lb -> lookups sl (a ++ b) = Some (la ++ lb).
Proof.
  induction a as [|k a IH]; intros b la lb Ha Hb; cbn [lookups app] in *.
  - injection Ha as <-. exact Hb.
  - destruct (lookup sl k) as [s|]; [|discriminate].
    destruct (lookups sl a) as [r|] eqn:Er; [|discriminate]. injection Ha as <-.
    rewrite (IH b r lb eq_refl Hb). reflexivity.
Qed.

Lemma run_ops_ext st ops nn st1 :
  run_ops st ops nn = Ok st1 ->
  ext (hs st1) = ext_run (ext (hs st)) ops /\ slots st1 = slots st /\ lsn st1 = lsn st.
Proof.
  intros H. apply run_ops_inv in H as (R & S & L). split; [|split; assumption].
  apply srun_ext. exact R.
Qed.

(* binding, re-binding and removing entries *)
Lemma with_slot_inv st h s :
  NoDup (map fst (slots st)) -> NoDup (map fst (lsn st)) ->
  (forall k s', lookup (slots st) k = Some s' -> slot_ok s') -> slot_ok s ->
  (forall o, ext_of (hs st) o = cn (sl_h (remove_key (slots st) h)) o + cn (ls_h (lsn st)) o + cn (s_h s ++ s_g s) o) ->
  TInv (with_slot st h s).
Proof.
  intros N1 N2 OK Os T. constructor; cbn [with_slot slots lsn hs].
  - intros o. cbn [with_slot hs]. rewrite T, held_eq. cbn [with_slot slots lsn].
    unfold set_key, sl_h. cbn [flat_map snd]. rewrite !count_occ_app. fold (sl_h (remove_key (slots st) h)). lia.
  - apply NoDup_set_key. exact N1.
  - exact N2.
  - intros k s' H. rewrite lookup_set_key in H. destruct (k =? h); [injection H as <-; exact Os|].
    apply (OK k). exact H.
Qed.

Lemma without_slot_inv st h :
  NoDup (map fst (slots st)) -> NoDup (map fst (lsn st)) ->
  (forall k s', lookup (slots st) k = Some s' -> slot_ok s') ->
  (forall o, ext_of (hs st) o = cn (sl_h (remove_key (slots st) h)) o + cn (ls_h (lsn st)) o) ->
  TInv (without_slot st h).
Proof.
  intros N1 N2 OK T. constructor; cbn [without_slot slots lsn hs].
  - intros o. cbn [without_slot hs]. rewrite T, held_eq. cbn [without_slot slots lsn].
    rewrite count_occ_app. reflexivity.
  - apply NoDup_remove_key. exact N1.
  - exact N2.
  - intros k s' H. rewrite lookup_remove_key in H. destruct (k =? h); [discriminate|].
    apply (OK k). exact H.
Qed.

Lemma with_listener_inv st l r :
  NoDup (map fst (slots st)) -> NoDup (map fst (lsn st)) ->
  (forall k s', lookup (slots st) k = Some s' -> slot_ok s') ->
  (forall o, ext_of (hs st) o = cn (sl_h (slots st)) o + cn (ls_h (remove_key (lsn st) l)) o + cn (listener_handles r) o) ->
  TInv (with_listener st l r).
Proof.
  intros N1 N2 OK T. constructor; cbn [with_listener slots lsn hs].
  - intros o. cbn [with_listener hs]. rewrite T, held_eq. cbn [with_listener slots lsn].
    unfold set_key, ls_h. cbn [flat_map snd]. rewrite !count_occ_app. fold (ls_h (remove_key (lsn st) l)). lia.
  - exact N1.
  - apply NoDup_set_key. exact N2.
  - exact OK.
Qed.

(* what Tracked says once the state after a [run_ops] is expressed through the state before *)
Lemma tracked_split st o :
  Tracked st -> nth o (ext (hs st)) 0 = cn (sl_h (slots st)) o + cn (ls_h (lsn st)) o.
Proof. intros T. specialize (T o). unfold ext_of in T. rewrite T, held_eq, count_occ_app. reflexivity. Qed.

Lemma free_slot_none st h : free_slot st h = true -> lookup (slots st) h = None.
Proof. unfold free_slot. destruct (lookup (slots st) h); [discriminate|reflexivity]. Qed.
Lemma free_listener_none st l : free_listener st l = true -> lookup (lsn st) l = None.
Proof. unfold free_listener. destruct (lookup (lsn st) l); [discriminate|reflexivity]. Qed.

Lemma WF_len st : WF (hs st) -> base_of st = length (ext (hs st)).
Proof. intros W. unfold base_of. destruct (WF_facts _ W) as (L & _). symmetry. exact L. Qed.

(* the arguments of a template instance are held *)
Lemma gclone_pos st args sl base r :
  Tracked st -> (forall k s, lookup (slots st) k = Some s -> slot_ok s) ->
  lookups (slots st) args = Some sl -> ref_arg (length args) r = true ->
  0 < nth (resolve sl base r) (ext (hs st)) 0.
Proof.
  intros T OK L R. destruct (lookups_spec _ _ _ L) as (Len & Nth).
  destruct r as [i|i|k]; cbn [ref_arg resolve] in *; try discriminate;
    apply Nat.ltb_lt in R; rewrite <- Len in R; destruct (Nth i R) as (k & Lk);
    destruct (OK k _ Lk) as (On & Ou).
  - apply (held_slot_pos st k _ _ T Lk On).
  - apply (held_slot_pos st k _ _ T Lk Ou).
Qed.

(* a template instance bound to a fresh slot *)
Lemma def_slot_inv st h t args sl open st' :
  WF (hs st) -> TInv st -> free_slot st h = true -> tmpl_ok t (length args) ->
  lookups (slots st) args = Some sl ->
  def_slot st h t sl open = Ok st' -> TInv st'.
Proof.
  intros W I F K L H. destruct I as [T N1 N2 OK].
  unfold def_slot in H. rewrite (WF_len st W) in H.
  destruct (run_ops st (inst_ops t sl (length (ext (hs st)))) (t_new t)) as [st1| |] eqn:R; try discriminate.
  injection H as <-. apply run_ops_ext in R as (E & S & Ls).
  destruct (inst_ext t sl (ext (hs st)) (ok_nodup _ _ K) (ok_range _ _ K)) as (_ & Nx).
  { intros r Hr. apply (gclone_pos st args sl _ r T OK L). apply (ok_gclone _ _ K). exact Hr. }
  apply with_slot_inv; rewrite ?S, ?Ls; try assumption.
  - apply (inst_slot_ok t (length args) sl (length (ext (hs st))) K).
  - intros o. unfold ext_of. rewrite E, Nx.
    rewrite (remove_key_none _ _ (free_slot_none _ _ F)), (tracked_split st o T), count_occ_app.
    cbn [inst_slot s_h s_g]. lia.
Qed.

Lemma TInv_same st st1 :
  slots st1 = slots st -> lsn st1 = lsn st -> ext (hs st1) = ext (hs st) -> TInv st -> TInv st1.
Proof.
  intros S L E [T N1 N2 OK]. constructor; rewrite ?S, ?L; try assumption.
  intros o. unfold ext_of. rewrite E, held_eq, S, L. apply T.
Qed.

Lemma run_ops_WF st ops nn st1 : WF (hs st) -> run_ops st ops nn = Ok st1 -> WF (hs st1).
Proof. intros W H. apply run_ops_inv in H as (R & _). apply (srun_WF _ _ _ W R). Qed.

(* lift2 .. lift6 *)
Lemma lift_chain_inv h keeps : forall rest st acc st',
  WF (hs st) -> NoDup (map fst (slots st)) -> NoDup (map fst (lsn st)) ->
  (forall k s, lookup (slots st) k = Some s -> slot_ok s) ->
  free_slot st h = true -> slot_ok acc ->
  (forall o, nth o (ext (hs st)) 0 = cn (sl_h (slots st)) o + cn (ls_h (lsn st)) o + cn (s_h acc ++ s_g acc) o) ->
  lift_chain st h acc false rest keeps = Ok st' -> TInv st'.
Proof.
  induction rest as [|c rest IH]; intros st acc st' W N1 N2 OK F Oa T H.
  - cbn [lift_chain] in H. injection H as <-. apply with_slot_inv; try assumption.
    intros o. unfold ext_of. rewrite T, (remove_key_none _ _ (free_slot_none _ _ F)). reflexivity.
  - rewrite lift_chain_cons, (WF_len st W) in H.
    set (tm := lift_tm rest keeps) in *. set (ar := lift_ar acc c rest keeps) in *.
    destruct (run_ops st (inst_ops tm ar (length (ext (hs st)))) (t_new tm)) as [st1| |] eqn:R1;
      try discriminate.
    destruct (run_ops st1 (drop_slot_ops acc) []) as [st2| |] eqn:R2; try discriminate.
    pose proof (run_ops_WF _ _ _ _ W R1) as W1. pose proof (run_ops_WF _ _ _ _ W1 R2) as W2.
    apply run_ops_ext in R1 as (E1 & S1 & L1). apply run_ops_ext in R2 as (E2 & S2 & L2).
    destruct (inst_ext tm ar (ext (hs st)) (ok_nodup _ _ (lift_tm_ok rest keeps)) (ok_range _ _ (lift_tm_ok rest keeps)))
      as (_ & Nx); [unfold tm; rewrite lift_tm_gclone; intros r []|].
    refine (IH st2 _ st' W2 _ _ _ _ _ _ H); rewrite ?S2, ?L2, ?S1, ?L1; try assumption.
    + unfold free_slot. rewrite S2, S1. exact F.
    + apply (inst_slot_ok tm 2 _ _ (lift_tm_ok rest keeps)).
    + intros o. rewrite E2. unfold drop_slot_ops. rewrite <- map_app.
      destruct (ext_run_drops (s_h acc ++ s_g acc) (ext (hs st1))) as (_ & Nd). rewrite Nd, E1, Nx, T.
      rewrite (count_occ_app _ (s_h (inst_slot _ _ _))). lia.
Qed.

Lemma hlift_inv st h a b rest keeps st' :
  WF (hs st) -> TInv st -> free_slot st h = true ->
  lift_chain st h a true (b :: rest) keeps = Ok st' -> TInv st'.
Proof.
  intros W [T N1 N2 OK] F H. rewrite lift_chain_cons, (WF_len st W) in H.
  set (tm := lift_tm rest keeps) in *. set (ar := lift_ar a b rest keeps) in *.
  destruct (run_ops st (inst_ops tm ar (length (ext (hs st)))) (t_new tm)) as [st1| |] eqn:R1;
    try discriminate.
  pose proof (run_ops_WF _ _ _ _ W R1) as W1. apply run_ops_ext in R1 as (E1 & S1 & L1).
  destruct (inst_ext tm ar (ext (hs st)) (ok_nodup _ _ (lift_tm_ok rest keeps)) (ok_range _ _ (lift_tm_ok rest keeps)))
    as (_ & Nx); [unfold tm; rewrite lift_tm_gclone; intros r []|].
  refine (lift_chain_inv h keeps rest st1 _ st' W1 _ _ _ _ _ _ H); rewrite ?S1, ?L1; try assumption.
  - unfold free_slot. rewrite S1. exact F.
  - apply (inst_slot_ok tm 2 _ _ (lift_tm_ok rest keeps)).
  - intros o. rewrite E1, Nx, (tracked_split st o T), (count_occ_app _ (s_h (inst_slot _ _ _))). lia.
Qed.

(* listeners: a template instance, extra clones of handles of the instance, bound to a fresh listener *)
Lemma listen_inv st l t args sl extra r nn st1 :
  WF (hs st) -> TInv st -> free_listener st l = true -> tmpl_ok t (length args) ->
  lookups (slots st) args = Some sl ->
  (forall x, In x extra ->
     In x (s_h (inst_slot t sl (length (ext (hs st)))) ++ s_g (inst_slot t sl (length (ext (hs st)))))) ->
  (forall o, cn (listener_handles r) o =
             cn (s_h (inst_slot t sl (length (ext (hs st)))) ++ s_g (inst_slot t sl (length (ext (hs st))))) o
             + cn extra o) ->
  run_ops st (inst_ops t sl (length (ext (hs st))) ++ map GClone extra) nn = Ok st1 ->
  TInv (with_listener st1 l r).
Proof.
  intros W [T N1 N2 OK] F K L X C R. apply run_ops_ext in R as (E & S & Ls).
  destruct (inst_ext t sl (ext (hs st)) (ok_nodup _ _ K) (ok_range _ _ K)) as (_ & Nx).
  { intros r0 Hr. apply (gclone_pos st args sl _ r0 T OK L). apply (ok_gclone _ _ K). exact Hr. }
  rewrite ext_run_app in E.
  destruct (ext_run_clones_held extra (ext_run (ext (hs st)) (inst_ops t sl (length (ext (hs st)))))) as (_ & Nc).
  { intros k Hk. apply X in Hk. rewrite Nx. apply (count_occ_In Nat.eq_dec) in Hk. rewrite count_occ_app in Hk. lia. }
  apply with_listener_inv; rewrite ?S, ?Ls; try assumption.
  intros o. unfold ext_of. rewrite E, Nc, Nx, C, (remove_key_none _ _ (free_listener_none _ _ F)).
  rewrite (tracked_split st o T), count_occ_app. lia.
Qed.

Lemma cn_single x o : cn [x] o = if o =? x then 1 else 0.
Proof. cbn [count_occ]. destruct (Nat.eq_dec x o); destruct (Nat.eqb_spec o x); try reflexivity; subst; contradiction. Qed.

Lemma sl_h_split l k s o :
  NoDup (map fst l) -> lookup l k = Some s -> cn (sl_h l) o = cn (s_h s ++ s_g s) o + cn (sl_h (remove_key l k)) o.
Proof. intros N L. unfold sl_h. rewrite (cn_flat_split _ l k s o N L). reflexivity. Qed.

Lemma ls_h_split l k r o :
  NoDup (map fst l) -> lookup l k = Some r -> cn (ls_h l) o = cn (listener_handles r) o + cn (ls_h (remove_key l k)) o.
Proof. intros N L. unfold ls_h. rewrite (cn_flat_split _ l k r o N L). reflexivity. Qed.

(* ---- every operation preserves the invariant ---- *)
Theorem hstep_TInv st op st' : WF (hs st) -> TInv st -> hstep st op = Ok st' -> TInv st'.
Proof.
  intros W I H. pose proof I as [T N1 N2 OK].
  destruct op as [h p args keeps|h args keeps|h c|l t|l s strong|l c strong|l|l|h h'|h| |]; cbn [hstep] in H.
  - (* HDef *)
    destruct (lookups (slots st) args) as [sl|] eqn:L; [|injection H as <-; exact I].
    destruct (lookups (slots st) keeps) as [kl|] eqn:Lk; [|injection H as <-; exact I].
    destruct (free_slot st h) eqn:F; cbn [andb] in H; [|injection H as <-; exact I].
    destruct (arity_ok p (length args)) eqn:A; [|injection H as <-; exact I].
    pose proof (tmpl_with_ok p (length args) (length keeps) A) as K. rewrite <- app_length in K.
    apply (def_slot_inv st h _ (args ++ keeps) (sl ++ kl) _ st' W I F K (lookups_app _ _ _ _ _ L Lk) H).
  - (* HLift *)
    destruct (lookups (slots st) args) as [[|a [|b rest]]|]; try (injection H as <-; exact I).
    destruct (lookups (slots st) keeps) as [kl|]; [|injection H as <-; exact I].
    destruct (free_slot st h) eqn:F; [|injection H as <-; exact I].
    apply (hlift_inv st h a b rest kl st' W I F H).
  - (* HUpdates *)
    destruct (lookup (slots st) c) as [sc|] eqn:L; [|injection H as <-; exact I].
    destruct (free_slot st h) eqn:F; [|injection H as <-; exact I].
    destruct (run_ops st [GClone (s_upd sc)] []) as [st1| |] eqn:R; try discriminate.
    injection H as <-. apply run_ops_ext in R as (E & S & Ls).
    destruct (ext_run_clones_held [s_upd sc] (ext (hs st))) as (_ & Nc).
    { intros k [<-|[]]. apply (held_slot_pos st c sc _ T L). apply (OK c sc L). }
    apply with_slot_inv; rewrite ?S, ?Ls; try assumption.
    + split; cbn; left; reflexivity.
    + intros o. unfold ext_of. rewrite E. change [GClone (s_upd sc)] with (map GClone [s_upd sc]).
      rewrite Nc, (remove_key_none _ _ (free_slot_none _ _ F)), (tracked_split st o T). cbn [s_h s_g app]. lia.
  - (* HLoop *)
    destruct (lookup (slots st) l) as [sl|] eqn:L; [|injection H as <-; exact I].
    destruct (lookup (slots st) t) as [stg|] eqn:L'; [|injection H as <-; exact I].
    destruct (s_open sl); [|injection H as <-; exact I].
    match type of H with context [run_ops st ?o ?n] => destruct (run_ops st o n) as [st1| |] eqn:R; try discriminate end.
    injection H as <-. apply run_ops_ext in R as (E & S & Ls). cbn in E.
    apply with_slot_inv; rewrite ?S, ?Ls; try assumption.
    + apply (OK l sl L).
    + intros o. unfold ext_of. rewrite E, (tracked_split st o T). cbn [s_h s_g].
      rewrite (sl_h_split _ l sl o N1 L). lia.
  - (* HListen *)
    destruct (lookup (slots st) s) as [ss|] eqn:L; [|injection H as <-; exact I].
    destruct (free_listener st l) eqn:F; [|injection H as <-; exact I].
    rewrite (WF_len st W) in H.
    match type of H with context [run_ops st ?o ?n] => destruct (run_ops st o n) as [st1| |] eqn:R; try discriminate end.
    injection H as <-.
    assert (Lk : lookups (slots st) [s] = Some [ss]) by (cbn [lookups]; rewrite L; reflexivity).
    apply (listen_inv st l t_listen [s] [ss] (if strong then [length (ext (hs st)) + 1] else []) _ (t_new t_listen) st1 W I F t_listen_ok Lk).
    + intros x Hx. destruct strong; [|destruct Hx]. destruct Hx as [<-|[]]. cbn. left. reflexivity.
    + intros o. cbn [listener_handles l_held l_ka l_id inst_slot t_listen t_keep t_ghost t_gclone s_h s_g map app].
      destruct strong; cbn [count_occ]; destruct (Nat.eq_dec (length (ext (hs st)) + 1) o); lia.
    + destruct strong; exact R.
  - (* HListenC *)
    destruct (lookup (slots st) c) as [sc|] eqn:L; [|injection H as <-; exact I].
    destruct (free_listener st l) eqn:F; [|injection H as <-; exact I].
    rewrite (WF_len st W) in H.
    match type of H with context [run_ops st ?o ?n] => destruct (run_ops st o n) as [st1| |] eqn:R; try discriminate end.
    injection H as <-.
    assert (Lk : lookups (slots st) [c] = Some [sc]) by (cbn [lookups]; rewrite L; reflexivity).
    apply (listen_inv st l t_listen_c [c] [sc] (if strong then [length (ext (hs st)) + 4] else []) _ (t_new t_listen_c) st1 W I F t_listen_c_ok Lk).
    + intros x Hx. destruct strong; [|destruct Hx]. destruct Hx as [<-|[]]. cbn. left. reflexivity.
    + intros o. cbn [listener_handles l_held l_ka l_id inst_slot t_listen_c t_keep t_ghost t_gclone s_h s_g map app].
      destruct strong; cbn [count_occ]; destruct (Nat.eq_dec (length (ext (hs st)) + 4) o); lia.
    + destruct strong; exact R.
  - (* HUnlisten *)
    destruct (lookup (lsn st) l) as [r|] eqn:L; [|injection H as <-; exact I].
    destruct (l_held r || l_ka r) eqn:HK; [|injection H as <-; exact I].
    match type of H with context [run_ops st ?o ?n] => destruct (run_ops st o n) as [st1| |] eqn:R; try discriminate end.
    injection H as <-. apply run_ops_ext in R as (E & S & Ls).
    assert (E' : ext (hs st1) = ext_run (ext (hs st)) (map GDrop (if l_ka r then [l_id r] else []))).
    { rewrite E, ext_run_app. destruct (l_att r), (l_ka r); reflexivity. }
    destruct (ext_run_drops (if l_ka r then [l_id r] else []) (ext (hs st))) as (_ & Nd).
    apply with_listener_inv; rewrite ?S, ?Ls; try assumption.
    intros o. unfold ext_of. rewrite E', Nd, (tracked_split st o T).
    rewrite (ls_h_split _ l r o N2 L).
    unfold listener_handles. cbn [l_held l_ka l_id]. rewrite !count_occ_app.
    destruct (l_held r), (l_ka r); cbn [count_occ]; try discriminate; destruct (Nat.eq_dec (l_id r) o); lia.
  - (* HDropL *)
    destruct (lookup (lsn st) l) as [r|] eqn:L; [|injection H as <-; exact I].
    destruct (l_held r) eqn:HK; [|injection H as <-; exact I].
    match type of H with context [run_ops st ?o ?n] => destruct (run_ops st o n) as [st1| |] eqn:R; try discriminate end.
    injection H as <-. apply run_ops_ext in R as (E & S & Ls).
    change [GDrop (l_id r)] with (map GDrop [l_id r]) in E.
    destruct (ext_run_drops [l_id r] (ext (hs st))) as (_ & Nd).
    apply with_listener_inv; rewrite ?S, ?Ls; try assumption.
    intros o. unfold ext_of. rewrite E, Nd, (tracked_split st o T).
    rewrite (ls_h_split _ l r o N2 L).
    unfold listener_handles. cbn [l_held l_ka l_id]. rewrite HK, !count_occ_app.
    destruct (l_ka r); cbn [count_occ]; destruct (Nat.eq_dec (l_id r) o); lia.
  - (* HClone *)
    destruct (lookup (slots st) h) as [s|] eqn:L; [|injection H as <-; exact I].
    destruct (free_slot st h') eqn:F; [|injection H as <-; exact I].
    set (s' := if (s_node s =? s_upd s) && negb (length (s_g s) =? 0)
               then mkSlot (s_node s) (s_upd s) [s_node s] [] false
               else mkSlot (s_node s) (s_upd s) (s_h s) (s_g s) false) in *.
    destruct (OK h s L) as (On & Ou).
    assert (P : slot_ok s' /\ forall x, In x (s_h s' ++ s_g s') -> In x (s_h s ++ s_g s)).
    { subst s'. destruct (Nat.eqb_spec (s_node s) (s_upd s)) as [Eq|Ne]; cbn [andb].
      - destruct (negb (length (s_g s) =? 0)).
        + split; [split; cbn [s_node s_upd s_h s_g app]; [left; reflexivity|left; exact Eq]|].
          cbn [s_h s_g app]. intros x [<-|[]]. exact On.
        + split; [split; cbn [s_node s_upd s_h s_g]; assumption|]. cbn [s_h s_g]. intros x Hx. exact Hx.
      - split; [split; cbn [s_node s_upd s_h s_g]; assumption|]. cbn [s_h s_g]. intros x Hx. exact Hx. }
    destruct P as (Os' & Sub).
    destruct (run_ops st (clone_slot_ops s') []) as [st1| |] eqn:R; try discriminate.
    injection H as <-. apply run_ops_ext in R as (E & S & Ls).
    unfold clone_slot_ops in E. rewrite <- map_app in E.
    destruct (ext_run_clones_held (s_h s' ++ s_g s') (ext (hs st))) as (_ & Nc).
    { intros k Hk. apply (held_slot_pos st h s _ T L). apply Sub. exact Hk. }
    apply with_slot_inv; rewrite ?S, ?Ls; try assumption.
    intros o. unfold ext_of. rewrite E, Nc, (remove_key_none _ _ (free_slot_none _ _ F)), (tracked_split st o T). lia.
  - (* HDrop *)
    destruct (lookup (slots st) h) as [s|] eqn:L; [|injection H as <-; exact I].
    destruct (run_ops st (drop_slot_ops s) []) as [st1| |] eqn:R; try discriminate.
    injection H as <-. apply run_ops_ext in R as (E & S & Ls).
    unfold drop_slot_ops in E. rewrite <- map_app in E.
    destruct (ext_run_drops (s_h s ++ s_g s) (ext (hs st))) as (_ & Nd).
    apply without_slot_inv; rewrite ?S, ?Ls; try assumption.
    intros o. unfold ext_of. rewrite E, Nd, (tracked_split st o T).
    rewrite (sl_h_split _ h s o N1 L). lia.
  - (* HCollect *)
    apply run_ops_ext in H as (E & S & Ls). apply (TInv_same st st' S Ls E I).
  - injection H as <-. exact I.
Qed.

Lemma hrun_TInv ops : forall st st', WF (hs st) -> TInv st -> hrun st ops = Ok st' -> TInv st'.
Proof.
  induction ops as [|op ops IH]; intros st st' W I H; cbn [hrun] in H.
  - injection H as <-. exact I.
  - destruct (hstep st op) as [st1| |] eqn:E; try discriminate.
    apply (IH st1 st' (hstep_WF _ _ _ W E) (hstep_TInv _ _ _ W I E) H).
Qed.

Theorem hrun_tracked : forall ops st, hrun hinit ops = Ok st -> Tracked st.
Proof.
  intros ops st H. apply ti_tracked. apply (hrun_TInv ops hinit st WF_init TInv_init H).
Qed.
Print Assumptions hrun_tracked.

(* ====================================================================================================== *)
(* 4. no premature reclamation                                                                            *)
(* ====================================================================================================== *)
Lemma held_reach_live st h o :
  Tracked st -> In h (held st) -> reach (E (g (hs st))) h o -> live (hs st) o.
Proof.
  intros T I R. apply live_glive. exists h. split; [|exact R].
  rewrite (T h). apply (count_occ_In Nat.eq_dec). exact I.
Qed.

Theorem program_held_never_freed : forall ops st,
    hrun hinit ops = Ok st ->
    forall h o, In h (held st) -> reach (E (g (hs st))) h o -> freed (get (g (hs st)) o) = false.
Proof.
  intros ops st H h o I R.
  apply live_not_freed; [apply (hrun_WF ops hinit st WF_init H)|].
  apply (held_reach_live st h o (hrun_tracked ops st H) I R).
Qed.
Print Assumptions program_held_never_freed.

(* ====================================================================================================== *)
(* 3. no leak                                                                                             *)
(* ====================================================================================================== *)
Definition kaclear (st : hstate) (k : nat) : Prop := forall r, lookup (lsn st) k = Some r -> l_ka r = false.
Definition heldclear (st : hstate) (k : nat) : Prop := forall r, lookup (lsn st) k = Some r -> l_held r = false.
Definition nonew {A} (l l' : list (nat * A)) : Prop := forall k, lookup l k = None -> lookup l' k = None.

Lemma nonew_refl {A} (l : list (nat * A)) : nonew l l.
Proof. intros k H. exact H. Qed.
Lemma nonew_trans {A} (a b c : list (nat * A)) : nonew a b -> nonew b c -> nonew a c.
Proof. intros X Y k H. apply Y. apply X. exact H. Qed.

Lemma unlisten_spec st l st' :
  hstep st (HUnlisten l) = Ok st' ->
  slots st' = slots st /\ nonew (lsn st) (lsn st') /\ kaclear st' l /\
  (forall k, kaclear st k -> kaclear st' k) /\ (forall k, heldclear st k -> heldclear st' k).
Proof.
  intros H. cbn [hstep] in H.
  destruct (lookup (lsn st) l) as [r|] eqn:L.
  - destruct (l_held r || l_ka r) eqn:HK.
    + match type of H with context [run_ops st ?o ?n] => destruct (run_ops st o n) as [st1| |] eqn:R; try discriminate end.
      injection H as <-. apply run_ops_inv in R as (_ & S & Ls).
      unfold kaclear, heldclear. cbn [with_listener slots lsn]. rewrite Ls.
      split; [exact S|]. split; [|split; [|split]].
      * intros k Hk. rewrite lookup_set_key. destruct (Nat.eqb_spec k l) as [E|N]; [|exact Hk].
        subst k. rewrite L in Hk. discriminate.
      * intros r0 H0. cbn [lsn] in H0. rewrite lookup_set_key, Nat.eqb_refl in H0. injection H0 as <-. reflexivity.
      * intros k C r0 H0. cbn [lsn] in H0. rewrite lookup_set_key in H0.
        destruct (k =? l); [injection H0 as <-; reflexivity|]. apply (C r0 H0).
      * intros k C r0 H0. cbn [lsn] in H0. rewrite lookup_set_key in H0.
        destruct (Nat.eqb_spec k l) as [E|N]; [|apply (C r0 H0)].
        injection H0 as <-. cbn [l_held]. subst k. apply (C r L).
    + injection H as <-. split; [reflexivity|]. split; [apply nonew_refl|]. split; [|split; intros k C; exact C].
      intros r0 H0. rewrite L in H0. injection H0 as <-. apply orb_false_iff in HK as (_ & HK). exact HK.
  - injection H as <-. split; [reflexivity|]. split; [apply nonew_refl|]. split; [|split; intros k C; exact C].
    intros r0 H0. rewrite L in H0. discriminate.
Qed.

Lemma dropl_spec st l st' :
  hstep st (HDropL l) = Ok st' ->
  slots st' = slots st /\ nonew (lsn st) (lsn st') /\ heldclear st' l /\
  (forall k, kaclear st k -> kaclear st' k) /\ (forall k, heldclear st k -> heldclear st' k).
Proof.
  intros H. cbn [hstep] in H.
  destruct (lookup (lsn st) l) as [r|] eqn:L.
  - destruct (l_held r) eqn:HK.
    + match type of H with context [run_ops st ?o ?n] => destruct (run_ops st o n) as [st1| |] eqn:R; try discriminate end.
      injection H as <-. apply run_ops_inv in R as (_ & S & Ls).
      unfold kaclear, heldclear. cbn [with_listener slots lsn]. rewrite Ls.
      split; [exact S|]. split; [|split; [|split]].
      * intros k Hk. rewrite lookup_set_key. destruct (Nat.eqb_spec k l) as [E|N]; [|exact Hk].
        subst k. rewrite L in Hk. discriminate.
      * intros r0 H0. cbn [lsn] in H0. rewrite lookup_set_key, Nat.eqb_refl in H0. injection H0 as <-. reflexivity.
      * intros k C r0 H0. cbn [lsn] in H0. rewrite lookup_set_key in H0.
        destruct (Nat.eqb_spec k l) as [E|N]; [|apply (C r0 H0)].
        injection H0 as <-. cbn [l_ka]. subst k. apply (C r L).
      * intros k C r0 H0. cbn [lsn] in H0. rewrite lookup_set_key in H0.
        destruct (k =? l); [injection H0 as <-; reflexivity|]. apply (C r0 H0).
    + injection H as <-. split; [reflexivity|]. split; [apply nonew_refl|]. split; [|split; intros k C; exact C].
      intros r0 H0. rewrite L in H0. injection H0 as <-. exact HK.
  - injection H as <-. split; [reflexivity|]. split; [apply nonew_refl|]. split; [|split; intros k C; exact C].
    intros r0 H0. rewrite L in H0. discriminate.
Qed.

Lemma drop_spec st h st' :
  hstep st (HDrop h) = Ok st' ->
  lsn st' = lsn st /\ lookup (slots st') h = None /\ nonew (slots st) (slots st').
Proof.
  intros H. cbn [hstep] in H.
  destruct (lookup (slots st) h) as [s|] eqn:L.
  - destruct (run_ops st (drop_slot_ops s) []) as [st1| |] eqn:R; try discriminate.
    injection H as <-. apply run_ops_inv in R as (_ & S & Ls). cbn [without_slot slots lsn]. rewrite S.
    split; [exact Ls|]. split.
    + rewrite lookup_remove_key, Nat.eqb_refl. reflexivity.
    + intros k Hk. rewrite lookup_remove_key. destruct (k =? h); [reflexivity|exact Hk].
  - injection H as <-. split; [reflexivity|]. split; [exact L|apply nonew_refl].
Qed.

Lemma run_unlistens ks : forall st st',
  hrun st (map HUnlisten ks) = Ok st' ->
  slots st' = slots st /\ nonew (lsn st) (lsn st') /\ (forall k, In k ks -> kaclear st' k) /\
  (forall k, kaclear st k -> kaclear st' k) /\ (forall k, heldclear st k -> heldclear st' k).
Proof.
  induction ks as [|l ks IH]; intros st st' H; cbn [map hrun] in H.
  - injection H as <-. split; [reflexivity|]. split; [apply nonew_refl|]. split; [intros k []|].
    split; intros k C; exact C.
  - destruct (hstep st (HUnlisten l)) as [st1| |] eqn:E; try discriminate.
    destruct (unlisten_spec _ _ _ E) as (S1 & Nn1 & C1 & K1 & H1).
    destruct (IH st1 st' H) as (S2 & Nn2 & C2 & K2 & H2).
    split; [rewrite S2; exact S1|]. split; [apply (nonew_trans _ _ _ Nn1 Nn2)|]. split; [|split].
    + intros k [<-|Hk]; [apply K2; exact C1|apply C2; exact Hk].
    + intros k C. apply K2. apply K1. exact C.
    + intros k C. apply H2. apply H1. exact C.
Qed.

Lemma run_dropls ks : forall st st',
  hrun st (map HDropL ks) = Ok st' ->
  slots st' = slots st /\ nonew (lsn st) (lsn st') /\ (forall k, In k ks -> heldclear st' k) /\
  (forall k, kaclear st k -> kaclear st' k) /\ (forall k, heldclear st k -> heldclear st' k).
Proof.
  induction ks as [|l ks IH]; intros st st' H; cbn [map hrun] in H.
  - injection H as <-. split; [reflexivity|]. split; [apply nonew_refl|]. split; [intros k []|].
    split; intros k C; exact C.
  - destruct (hstep st (HDropL l)) as [st1| |] eqn:E; try discriminate.
    destruct (dropl_spec _ _ _ E) as (S1 & Nn1 & C1 & K1 & H1).
    destruct (IH st1 st' H) as (S2 & Nn2 & C2 & K2 & H2).
    split; [rewrite S2; exact S1|]. split; [apply (nonew_trans _ _ _ Nn1 Nn2)|]. split; [|split].
    + intros k [<-|Hk]; [apply H2; exact C1|apply C2; exact Hk].
    + intros k C. apply K2. apply K1. exact C.
    + intros k C. apply H2. apply H1. exact C.
Qed.

Lemma run_drops ks : forall st st',
  hrun st (map HDrop ks) = Ok st' ->
  lsn st' = lsn st /\ nonew (slots st) (slots st') /\ (forall k, In k ks -> lookup (slots st') k = None).
Proof.
  induction ks as [|h ks IH]; intros st st' H; cbn [map hrun] in H.
  - injection H as <-. split; [reflexivity|]. split; [apply nonew_refl|intros k []].
  - destruct (hstep st (HDrop h)) as [st1| |] eqn:E; try discriminate.
    destruct (drop_spec _ _ _ E) as (L1 & C1 & Nn1).
    destruct (IH st1 st' H) as (L2 & Nn2 & C2).
    split; [rewrite L2; exact L1|]. split; [apply (nonew_trans _ _ _ Nn1 Nn2)|].
    intros k [<-|Hk]; [apply Nn2; exact C1|apply C2; exact Hk].
Qed.

Lemma hrun_app a : forall b st st',
  hrun st (a ++ b) = Ok st' -> exists st1, hrun st a = Ok st1 /\ hrun st1 b = Ok st'.
Proof.
  induction a as [|op a IH]; intros b st st' H; cbn [app hrun] in *.
  - exists st. split; [reflexivity|exact H].
  - destruct (hstep st op) as [st1| |]; try discriminate. apply IH. exact H.
Qed.

Lemma all_none_nil {A} (l : list (nat * A)) : (forall k, lookup l k = None) -> l = [].
Proof.
  destruct l as [|[a v] l]; [reflexivity|]. intros H. specialize (H a). cbn [lookup] in H.
  rewrite Nat.eqb_refl in H. discriminate.
Qed.

Lemma flat_map_nil {A B} (f : A -> list B) l : (forall x, In x l -> f x = []) -> flat_map f l = [].
Proof.
  induction l as [|x l IH]; intros H; [reflexivity|]. cbn [flat_map].
  rewrite (H x (or_introl eq_refl)), IH; [reflexivity|]. intros y Hy. apply H. right. exact Hy.
Qed.

(* releasing everything leaves no handle *)
Lemma teardown_releases st st' :
  WF (hs st) -> TInv st -> hrun st (teardown st) = Ok st' -> held st' = [].
Proof.
  intros W I H. pose proof (hrun_TInv _ _ _ W I H) as I'.
  unfold teardown in H.
  rewrite <- (map_map fst HUnlisten), <- (map_map fst HDropL), <- (map_map fst HDrop) in H.
  apply hrun_app in H as (st1 & H1 & H). apply hrun_app in H as (st2 & H2 & H3).
  destruct (run_unlistens _ _ _ H1) as (S1 & Nn1 & C1 & _ & _).
  destruct (run_dropls _ _ _ H2) as (S2 & Nn2 & C2 & K2 & _).
  destruct (run_drops _ _ _ H3) as (L3 & Nn3 & C3).
  rewrite held_eq.
  assert (Z1 : slots st' = []).
  { apply all_none_nil. intros k.
    destruct (lookup (slots st) k) as [s|] eqn:Lk.
    - apply C3. apply lookup_In in Lk. apply (in_map fst) in Lk. exact Lk.
    - apply Nn3. rewrite S2, S1. exact Lk. }
  assert (Z2 : ls_h (lsn st') = []).
  { unfold ls_h. apply flat_map_nil. intros [k r] Hkr. cbn [snd].
    apply (In_lookup _ _ _ (ti_lsn _ I')) in Hkr. rewrite L3 in Hkr.
    assert (Hk : In k (map fst (lsn st))).
    { destruct (lookup (lsn st) k) as [r0|] eqn:Lk.
      - apply lookup_In in Lk. apply (in_map fst) in Lk. exact Lk.
      - apply Nn1 in Lk. apply Nn2 in Lk. rewrite Lk in Hkr. discriminate. }
    unfold listener_handles. rewrite (C2 k Hk r Hkr), (K2 k (C1 k Hk) r Hkr). reflexivity. }
  rewrite Z1, Z2. reflexivity.
Qed.

Theorem program_teardown_frees_all : forall ops st,
    hrun hinit ops = Ok st ->
    exists st' st'', hrun st (teardown st) = Ok st' /\ held st' = [] /\ hstep st' HCollect = Ok st'' /\
      forall o, o < nobjs (g (hs st'')) -> freed (get (g (hs st'')) o) = true.
Proof.
  intros ops st H.
  pose proof (hrun_WF ops hinit st WF_init H) as W.
  pose proof (hrun_TInv ops hinit st WF_init TInv_init H) as I.
  destruct (hrun_any (teardown st) st W) as (st' & H' & W').
  pose proof (hrun_TInv _ _ _ W I H') as I'.
  pose proof (teardown_releases st st' W I H') as Z.
  destruct (hstep_total st' HCollect W') as (st'' & H'' & W'').
  exists st', st''. split; [exact H'|]. split; [exact Z|]. split; [exact H''|].
  cbn [hstep] in H''. apply run_ops_inv in H'' as (R & _ & _).
  cbn [srun] in R. apply bind_ok in R as (s2 & E2 & R). injection R as R. rewrite <- R.
  destruct (collect_exact _ _ W' E2) as (_ & _ & _ & Nb & _).
  intros o Ho. rewrite Nb in Ho. apply (no_handles_all_freed (hs st') s2 W'); [|exact E2|exact Ho].
  intros x. rewrite (ti_tracked _ I' x), Z. reflexivity.
Qed.
Print Assumptions program_teardown_frees_all.

