(* C03 (glitch freedom) at the level of EngineScript.estep: a transaction over a well-formed ranked
   graph computes, for every node, the denotation `den` (a function of the graph's dependency
   structure and of the fired sources only), runs every update at most once and after the updates of
   its dependencies, and returns the graph to rest.  Hence the result does not depend on the order
   in which the sources were sent, nor on the registration order inside any dependents list.
   The original algorithm (orig = true) is refuted on a concrete six-node graph. *)
From Coq Require Import List Arith Lia Bool Permutation.
Import ListNotations.
From Sodium Require Import Engine EngineScript EngineSafe EngineFuel EngineLog.

Section Poly.
Context {Val : Type}.
(* ---------------- lists and graphs ---------------- *)
Lemma map_nth_seq {A} (l : list A) d : map (fun n => nth n l d) (seq 0 (length l)) = l.
Proof.
  induction l as [|x l IH]; simpl; auto. f_equal.
  rewrite <- seq_shift, map_map. exact IH.
Qed.

Lemma map_get_seq {A} (f : node Val -> A) (gr : graph Val) : map f gr = map (fun n => f (get gr n)) (seq 0 (length gr)).
Proof.
  rewrite <- (map_map (get gr) f). unfold get. rewrite map_nth_seq. reflexivity.
Qed.

Lemma graph_ext (a b : graph Val) : length a = length b -> (forall n, n < length a -> get a n = get b n) -> a = b.
Proof.
  intros L H. unfold get in H. eapply nth_ext; eauto.
Qed.

Lemma set_out (gr : graph Val) n x : length gr <= n -> set gr n x = gr.
Proof.
  revert n; induction gr as [|y t IH]; intros [|k] H; simpl in *; auto; try lia. rewrite IH; auto; lia.
Qed.

Lemma get_default (gr : graph Val) n : length gr <= n ->
  get gr n = {| deps := []; dependents := []; visited := true; done := true; changed := false; fire := None |}.
Proof. intros H. unfold get. apply nth_overflow. exact H. Qed.

Lemma get_app_l (gr : graph Val) l n : n < length gr -> get (gr ++ l) n = get gr n.
Proof. intros H. unfold get. apply app_nth1. exact H. Qed.

Lemma get_app_new (gr : graph Val) x : get (gr ++ [x]) (length gr) = x.
Proof. unfold get. rewrite app_nth2 by lia. rewrite Nat.sub_diag. reflexivity. Qed.

Lemma existsb_map {A B} (f : A -> B) (p : B -> bool) l : existsb p (map f l) = existsb (fun x => p (f x)) l.
Proof. induction l as [|x l IH]; simpl; auto. rewrite IH. reflexivity. Qed.

(* ---------------- well-formed graphs ---------------- *)
Definition rest (x : node Val) := visited x = false /\ done x = false /\ changed x = false /\ fire x = None.
Definition at_rest (gr : graph Val) := forall n, n < length gr -> rest (get gr n).
Definition deps_in_range (gr : graph Val) := forall n d, In d (deps (get gr n)) -> d < length gr.
Definition dependents_in_range (gr : graph Val) := forall n m, In m (dependents (get gr n)) -> m < length gr.
(* every dependency edge is registered in the dependents list of its target *)
Definition complete (gr : graph Val) := forall n d, In d (deps (get gr n)) -> In n (dependents (get gr d)).
Definition wf (gr : graph Val) := at_rest gr /\ deps_in_range gr /\ dependents_in_range gr /\ complete gr.
(* acyclic, as witnessed by a rank function (which may as well be bounded by the number of nodes) *)
Definition ranked (gr : graph Val) :=
  exists rank : nat -> nat, forall n d, In d (deps (get gr n)) -> rank d < rank n.
Definition ranked_b (gr : graph Val) :=
  exists rank : nat -> nat, (forall n d, In d (deps (get gr n)) -> rank d < rank n) /\
                            (forall n, n < length gr -> rank n < length gr).
(* a firing list: distinct source nodes with their values *)
Definition sources (gr : graph Val) (fs : list (nat * Val)) :=
  NoDup (map fst fs) /\ forall n v, In (n, v) fs -> n < length gr /\ deps (get gr n) = [].

Definition cln (x : node Val) : node Val :=
  {| deps := deps x; dependents := dependents x; visited := false; done := false; changed := false; fire := None |}.

Lemma get_cleanup (gr : graph Val) n : n < length gr -> get (cleanup gr) n = cln (get gr n).
Proof.
  intros Hn. change (cleanup gr) with (map cln gr). unfold get.
  rewrite (nth_indep (map cln gr) _ (cln (get gr 0))) by (rewrite map_length; auto).
  rewrite map_nth. f_equal. apply nth_indep. exact Hn.
Qed.

Lemma at_rest_cleanup (gr : graph Val) : at_rest gr -> cleanup gr = gr.
Proof.
  intros R. apply graph_ext; [unfold cleanup; apply map_length|].
  intros n Hn. unfold cleanup in Hn. rewrite map_length in Hn. rewrite get_cleanup by auto.
  destruct (R n Hn) as (A & B & C & E). unfold cln. destruct (get gr n); simpl in *; subst. reflexivity.
Qed.

(* ---------------- the denotation ---------------- *)
Definition lookup (fs : list (nat * Val)) (n : nat) : option Val :=
  match find (fun nv => Nat.eqb (fst nv) n) fs with Some nv => Some (snd nv) | None => None end.

Fixpoint denf (F : rule Val) (fuel : nat) (gr : graph Val) (fs : list (nat * Val)) (n : nat) : option Val :=
  match fuel with 0 => None | S f =>
    match deps (get gr n) with
    | [] => lookup fs n
    | ds => let ins := map (denf F f gr fs) ds in if existsb is_some ins then F n ins else None
    end
  end.


Lemma lookup_cons m v fs n : lookup ((m, v) :: fs) n = if Nat.eqb m n then Some v else lookup fs n.
Proof. unfold lookup. simpl. destruct (Nat.eqb m n); reflexivity. Qed.

Lemma lookup_none fs n : ~ In n (map fst fs) -> lookup fs n = None.
Proof.
  induction fs as [|[m v] fs IH]; intros H; [reflexivity|]. rewrite lookup_cons.
  destruct (Nat.eqb_spec m n) as [->|Ne]; [exfalso; apply H; simpl; auto|]. apply IH. intros C; apply H; simpl; auto.
Qed.

Lemma lookup_some fs n v : lookup fs n = Some v -> In (n, v) fs.
Proof.
  induction fs as [|[m w] fs IH]; [discriminate|]. rewrite lookup_cons.
  destruct (Nat.eqb_spec m n) as [->|Ne]; [intros E; injection E as <-; simpl; auto | intros E; simpl; auto].
Qed.

Lemma lookup_in fs n v : NoDup (map fst fs) -> In (n, v) fs -> lookup fs n = Some v.
Proof.
  induction fs as [|[m w] fs IH]; intros ND H; [contradiction|]. rewrite lookup_cons. simpl in ND.
  apply NoDup_cons_iff in ND as [Nin ND].
  destruct H as [E|H].
  - injection E as -> ->. rewrite Nat.eqb_refl. reflexivity.
  - destruct (Nat.eqb_spec m n) as [->|Ne]; [|apply IH; auto].
    exfalso. apply Nin. apply in_map_iff. exists (n, v); auto.
Qed.

(* for distinct keys the lookup does not depend on the order of the firing list *)
Lemma lookup_perm fs fs' n : NoDup (map fst fs) -> Permutation fs fs' -> lookup fs n = lookup fs' n.
Proof.
  intros ND Pm.
  assert (ND' : NoDup (map fst fs')) by (eapply Permutation_NoDup; [apply Permutation_map; exact Pm | exact ND]).
  destruct (lookup fs n) as [v|] eqn:E.
  - symmetry. apply lookup_in; auto. eapply Permutation_in; [exact Pm|]. apply lookup_some; auto.
  - destruct (lookup fs' n) as [v|] eqn:E'; auto.
    apply lookup_some in E'. apply (Permutation_in _ (Permutation_sym Pm)) in E'.
    rewrite (lookup_in _ _ _ ND E') in E. discriminate.
Qed.

(* the denotation reads nothing but the dependency lists *)
Lemma denf_deps_only (F : rule Val) f (gr gr' : graph Val) (fs fs' : list (nat * Val)) :
  (forall n, deps (get gr' n) = deps (get gr n)) -> (forall n, lookup fs' n = lookup fs n) ->
  forall n, denf F f gr' fs' n = denf F f gr fs n.
Proof.
  intros HD HL. induction f as [|f IH]; intros n; cbn [denf]; auto.
  rewrite HD. destruct (deps (get gr n)) as [|d0 ds]; [apply HL|].
  cbv zeta. rewrite (map_ext _ _ IH). reflexivity.
Qed.

Lemma denf_stable (F : rule Val) (gr : graph Val) (fs : list (nat * Val)) (rank : nat -> nat) :
  (forall n d, In d (deps (get gr n)) -> rank d < rank n) ->
  forall f1 f2 n, rank n < f1 -> rank n < f2 -> denf F f1 gr fs n = denf F f2 gr fs n.
Proof.
  intros RK. induction f1 as [|f1 IH]; intros f2 n H1 H2; [lia|]. destruct f2 as [|f2]; [lia|]. cbn [denf].
  destruct (deps (get gr n)) as [|d0 ds] eqn:Dn; auto. cbv zeta.
  assert (E : map (denf F f1 gr fs) (d0 :: ds) = map (denf F f2 gr fs) (d0 :: ds)).
  { apply map_ext_in. intros d Hd. rewrite <- Dn in Hd. apply RK in Hd. apply IH; lia. }
  rewrite E. reflexivity.
Qed.

(* ---------------- one transaction ---------------- *)
Definition fired (x : node Val) (v : Val) : node Val :=
  {| deps := deps x; dependents := dependents x; visited := visited x; done := done x; changed := true; fire := Some v |}.
Definition fire_all (fs : list (nat * Val)) (gr : graph Val) : graph Val :=
  fold_left (fun g nv => fire_source g (fst nv) (snd nv)) fs gr.

Arguments fire_all : simpl never.

Lemma fire_all_spec (fs : list (nat * Val)) : forall gr : graph Val, NoDup (map fst fs) -> (forall n v, In (n, v) fs -> n < length gr) ->
  length (fire_all fs gr) = length gr /\
  forall n, get (fire_all fs gr) n = match lookup fs n with Some v => fired (get gr n) v | None => get gr n end.
Proof.
  induction fs as [|[m v] fs IH]; intros gr ND R.
  - split; auto.
  - simpl in ND. apply NoDup_cons_iff in ND as [Nin ND].
    change (fire_all ((m, v) :: fs) gr) with (fire_all fs (fire_source gr m v)).
    assert (Hm : m < length gr) by (apply (R m v); simpl; auto).
    assert (L1 : length (fire_source gr m v) = length gr) by (unfold fire_source; apply set_length).
    destruct (IH (fire_source gr m v) ND) as [L G].
    { intros n w H. rewrite L1. apply (R n w). simpl; auto. }
    split; [congruence|]. intros n. rewrite G, lookup_cons.
    destruct (Nat.eqb_spec m n) as [->|Ne].
    + rewrite lookup_none by auto. unfold fire_source. rewrite get_set_same by auto. reflexivity.
    + unfold fire_source. rewrite get_set_other by auto. reflexivity.
Qed.

Definition Dof (gr : graph Val) (n : nat) : list nat := deps (get gr n).
Definition Dtsof (gr : graph Val) (n : nat) : list nat := dependents (get gr n).

Lemma cln_rest (x y : node Val) : rest y -> deps x = deps y -> dependents x = dependents y -> cln x = y.
Proof.
  intros (A & B & C & E) H1 H2. unfold cln. rewrite H1, H2. destruct y; simpl in *; subst. reflexivity.
Qed.

Section Txn.
  Variable F : rule Val.
  Variable gr : graph Val.
  Variable fs : list (nat * Val).
  Variable rank : nat -> nat.
  Hypothesis Hwf : wf gr.
  Hypothesis rank_ok : forall n d, In d (deps (get gr n)) -> rank d < rank n.
  Hypothesis rank_bound : forall n, n < length gr -> rank n < length gr.
  Hypothesis Hsrc : sources gr fs.

  Local Notation N := (length gr).
  Local Notation gr1 := (fire_all fs gr).
  Definition init_st : st Val := {| g := fire_all fs gr; queue := map fst fs; log := [] |}.

  Lemma txn_D_range : forall n d, In d (Dof gr n) -> d < N.
  Proof. destruct Hwf as (_ & A & _). exact A. Qed.
  Lemma txn_Dts_range : forall n d, In d (Dtsof gr n) -> d < N.
  Proof. destruct Hwf as (_ & _ & A & _). exact A. Qed.
  Lemma txn_Dts_complete : forall n d, n < N -> In d (Dof gr n) -> In n (Dtsof gr d).
  Proof. destruct Hwf as (_ & _ & _ & A). intros n d _. apply A. Qed.
  Lemma txn_rank_ok : forall n d, In d (Dof gr n) -> rank d < rank n.
  Proof. exact rank_ok. Qed.

  Lemma src_range : forall n v, In (n, v) fs -> n < N.
  Proof. intros n v H. apply (proj2 Hsrc n v H). Qed.

  Lemma gr1_length : length gr1 = N.
  Proof. apply fire_all_spec; [apply Hsrc | apply src_range]. Qed.

  Lemma gr1_get n : get gr1 n = match lookup fs n with Some v => fired (get gr n) v | None => get gr n end.
  Proof. apply fire_all_spec; [apply Hsrc | apply src_range]. Qed.

  Lemma lookup_source n v : lookup fs n = Some v -> n < N /\ Dof gr n = [].
  Proof. intros H. apply lookup_some in H. apply (proj2 Hsrc n v H). Qed.

  Lemma gr1_flags n : n < N ->
    visited (get gr1 n) = false /\ done (get gr1 n) = false /\
    deps (get gr1 n) = Dof gr n /\ dependents (get gr1 n) = Dtsof gr n /\
    fire (get gr1 n) = lookup fs n /\ changed (get gr1 n) = is_some (lookup fs n).
  Proof.
    intros Hn. destruct Hwf as (R & _). destruct (R n Hn) as (A & B & C & E).
    rewrite gr1_get. destruct (lookup fs n); simpl; auto 10.
  Qed.

  Lemma init_good : Good F (Dof gr) (Dtsof gr) N init_st.
  Proof.
    unfold Good, NoPend, Cov, SrcQ, CovAt, pend, init_st; simpl. split; [|split; [|split; [|split]]].
    - split; [apply gr1_length|]. intros n Hn. destruct (gr1_flags n Hn) as (_ & _ & A & B & _). auto.
    - split.
      + intros n Hn Dn. destruct (gr1_flags n Hn) as (_ & B & _). congruence.
      + intros n Hn _ NE. destruct (gr1_flags n Hn) as (_ & _ & _ & _ & A & B).
        rewrite A, B. destruct (lookup fs n) as [v|] eqn:E; auto.
        exfalso. apply NE. apply (lookup_source n v E).
    - intros p Hp [V _]. destruct (gr1_flags p Hp) as (A & _). congruence.
    - intros k Hk Dk. destruct (gr1_flags k Hk) as (_ & B & _). congruence.
    - intros k Hk Ck _. destruct (gr1_flags k Hk) as (_ & _ & _ & _ & _ & B). rewrite B in Ck.
      destruct (lookup fs k) as [v|] eqn:E; [|discriminate].
      apply lookup_some in E. apply in_map_iff. exists (k, v); auto.
  Qed.

  (* a fixpoint over the fired sources is the denotation *)
  Lemma fixpoint_is_den (gr' : graph Val) :
    Fixpoint_ok F (Dof gr) N gr' ->
    (forall n, n < N -> Dof gr n = [] -> fire (get gr' n) = lookup fs n /\ changed (get gr' n) = is_some (lookup fs n)) ->
    forall n, n < N ->
      fire (get gr' n) = denf F (S N) gr fs n /\ changed (get gr' n) = is_some (denf F (S N) gr fs n).
  Proof.
    intros Fx Src n. remember (rank n) as r eqn:Hr. revert n Hr.
    induction r as [r IHr] using lt_wf_ind. intros n Hr Hn.
    cbn [denf]. destruct (deps (get gr n)) as [|d0 ds] eqn:Dn; [apply Src; auto|]. cbv zeta.
    assert (NE : Dof gr n <> []) by (unfold Dof; rewrite Dn; discriminate).
    destruct (Fx n Hn NE) as [A B]. unfold Dof in A at 1 2. rewrite Dn in A.
    assert (Eq : forall d, In d (d0 :: ds) ->
               fire (get gr' d) = denf F N gr fs d /\ changed (get gr' d) = is_some (denf F N gr fs d)).
    { intros d Hd. rewrite <- Dn in Hd. pose proof (txn_D_range n d Hd) as HdN. pose proof (rank_ok n d Hd) as Rd.
      rewrite (denf_stable F gr fs rank rank_ok N (S N) d) by (pose proof (rank_bound d HdN); lia).
      apply (IHr (rank d)); auto. lia. }
    assert (E1 : existsb (fun d => changed (get gr' d)) (d0 :: ds) = existsb is_some (map (denf F N gr fs) (d0 :: ds))).
    { rewrite existsb_map. apply existsb_ext_in. intros d Hd. apply Eq; auto. }
    assert (E2 : map (fun d => fire (get gr' d)) (d0 :: ds) = map (denf F N gr fs) (d0 :: ds)).
    { apply map_ext_in. intros d Hd. apply Eq; auto. }
    rewrite E1, E2 in A. split; [exact A|]. rewrite B, A. reflexivity.
  Qed.

  (* the whole transaction, for any rule *)
  Lemma txn_run :
    exists s', drain F false (S (S N)) (S (S (N + N))) init_st = Some s' /\
      cleanup (g s') = gr /\
      map fire (g s') = map (denf F (S N) gr fs) (seq 0 N) /\
      NoDup (rev (log s')) /\
      (forall n, In n (rev (log s')) <->
                 (n < N /\ Dof gr n <> [] /\ exists d, In d (Dof gr n) /\ denf F (S N) gr fs d <> None)) /\
      Settled (Dof gr) (rev (log s')).
  Proof.
    pose proof init_good as Gd.
    assert (L0 : length (g init_st) = N) by apply gr1_length.
    destruct (drain F false (S (S N)) (S (S (N + N))) init_st) as [s'|] eqn:E.
    2:{ exfalso. revert E. apply drain_fuel; pose proof (unvis_le_length (g init_st)); lia. }
    exists s'. split; auto.
    destruct (drain_good F (Dof gr) (Dtsof gr) rank N txn_rank_ok txn_D_range txn_Dts_range _ _ _ _ Gd E) as ((Sh' & _) & _ & _).
    destruct (drain_fixpoint F (Dof gr) (Dtsof gr) rank N txn_rank_ok txn_D_range txn_Dts_range txn_Dts_complete _ _ _ _ Gd E) as [Fx Src].
    assert (ND0 : forall n, n < N -> done (get (g init_st) n) = false).
    { intros n Hn. apply (gr1_flags n Hn). }
    destruct (drain_log_spec F (Dof gr) (Dtsof gr) rank N txn_rank_ok txn_D_range txn_Dts_range txn_Dts_complete _ _ _ _ Gd eq_refl ND0 E)
      as (NDl & Iff & _ & St).
    assert (Den : forall n, n < N ->
              fire (get (g s') n) = denf F (S N) gr fs n /\ changed (get (g s') n) = is_some (denf F (S N) gr fs n)).
    { apply fixpoint_is_den; auto. intros n Hn Dn. destruct (Src n Hn Dn) as [A B]. rewrite A, B.
      simpl. destruct (gr1_flags n Hn) as (_ & _ & _ & _ & A' & B'). auto. }
    destruct Sh' as [L' Sh'].
    split; [|split; [|split; [|split]]].
    - apply graph_ext; [unfold cleanup; rewrite map_length; auto|].
      intros n Hn. unfold cleanup in Hn. rewrite map_length, L' in Hn. rewrite get_cleanup by lia.
      destruct Hwf as (R & _). apply cln_rest; [apply R; auto | apply Sh'; auto | apply Sh'; auto].
    - rewrite map_get_seq, L'. apply map_ext_in. intros n Hn. apply in_seq in Hn. apply Den. lia.
    - apply NoDup_rev. exact NDl.
    - intros n. rewrite <- in_rev, Iff. split; intros (Hn & NE & d & Hd & Cd); (split; [auto|split; [auto|exists d; split; auto]]).
      + destruct (Den d (txn_D_range n d Hd)) as [_ B]. rewrite B in Cd. destruct (denf F (S N) gr fs d); [discriminate|discriminate].
      + destruct (Den d (txn_D_range n d Hd)) as [_ B]. rewrite B. destruct (denf F (S N) gr fs d); [reflexivity|contradiction].
    - exact St.
  Qed.
End Txn.

(* ---------------- any rank function can be compressed below the number of nodes ---------------- *)
Fixpoint hf (gr : graph Val) (fuel n : nat) : nat :=
  match fuel with 0 => 0 | S f =>
    match deps (get gr n) with [] => 0 | ds => S (list_max (map (hf gr f) ds)) end
  end.

Lemma hf_stable (gr : graph Val) (rank : nat -> nat) :
  (forall n d, In d (deps (get gr n)) -> rank d < rank n) ->
  forall f1 f2 n, rank n < f1 -> rank n < f2 -> hf gr f1 n = hf gr f2 n.
Proof.
  intros RK. induction f1 as [|f1 IH]; intros f2 n H1 H2; [lia|]. destruct f2 as [|f2]; [lia|]. cbn [hf].
  destruct (deps (get gr n)) as [|d0 ds] eqn:Dn; auto.
  assert (E : map (hf gr f1) (d0 :: ds) = map (hf gr f2) (d0 :: ds)).
  { apply map_ext_in. intros d Hd. rewrite <- Dn in Hd. apply RK in Hd. apply IH; lia. }
  rewrite E. reflexivity.
Qed.

Lemma list_max_in l : l <> [] -> In (list_max l) l.
Proof.
  induction l as [|x l IH]; intros NE; [contradiction|]. cbn [list_max fold_right].
  change (fold_right Nat.max 0 l) with (list_max l).
  destruct l as [|y l']; [simpl; left; lia|].
  assert (H : In (list_max (y :: l')) (y :: l')) by (apply IH; discriminate).
  destruct (Nat.max_spec x (list_max (y :: l'))) as [[_ ->]|[_ ->]]; [right; exact H | left; reflexivity].
Qed.

Lemma list_max_ge l x : In x l -> x <= list_max l.
Proof.
  intros H. pose proof (proj1 (list_max_le l (list_max l)) (Nat.le_refl _)) as Fa.
  rewrite Forall_forall in Fa. apply Fa; auto.
Qed.

Lemma ranked_bounded (gr : graph Val) : ranked gr -> deps_in_range gr -> ranked_b gr.
Proof.
  intros [rank RK] DR. exists (fun n => hf gr (S (rank n)) n).
  assert (Step : forall n d, In d (deps (get gr n)) -> hf gr (S (rank d)) d < hf gr (S (rank n)) n).
  { intros n d Hd. pose proof (RK n d Hd) as Rd.
    rewrite (hf_stable gr rank RK (S (rank d)) (rank n) d) by lia.
    remember (rank n) as rn eqn:Hrn. cbn [hf].
    destruct (deps (get gr n)) as [|d0 ds] eqn:Dn; [contradiction|]. subst rn.
    assert (hf gr (rank n) d <= list_max (map (hf gr (rank n)) (d0 :: ds))) by (apply list_max_ge; apply in_map; exact Hd).
    lia. }
  split; [exact Step|].
  assert (Path : forall r n, rank n = r -> n < length gr ->
            exists l, NoDup l /\ (forall x, In x l -> x < length gr /\ rank x <= rank n) /\
                      length l = S (hf gr (S (rank n)) n)).
  { induction r as [r IHr] using lt_wf_ind. intros n Hr Hn.
    destruct (deps (get gr n)) as [|d0 ds] eqn:Dn.
    - exists [n]. split; [constructor; [intros []|constructor]|]. split.
      + intros x [<-|[]]. split; auto.
      + cbn [hf]. rewrite Dn. reflexivity.
    - assert (NEm : map (hf gr (rank n)) (d0 :: ds) <> []) by discriminate.
      pose proof (list_max_in _ NEm) as Hin. apply in_map_iff in Hin as (d & Ed & Hd).
      rewrite <- Dn in Hd. pose proof (RK n d Hd) as Rd. pose proof (DR n d Hd) as HdN.
      destruct (IHr (rank d) ltac:(lia) d eq_refl HdN) as (l & NDl & El & Ll).
      exists (n :: l). split; [|split].
      + constructor; auto. intros Hnl. apply El in Hnl. lia.
      + intros x [<-|Hx]; [split; auto|]. apply El in Hx. split; [apply Hx|lia].
      + cbn [length]. rewrite Ll. f_equal.
        rewrite (hf_stable gr rank RK (S (rank d)) (rank n) d) by lia. rewrite Ed.
        remember (rank n) as rn eqn:Hrn. cbn [hf]. rewrite Dn. reflexivity. }
  intros n Hn. destruct (Path (rank n) n eq_refl Hn) as (l & NDl & El & Ll).
  assert (Inc : incl l (seq 0 (length gr))) by (intros x Hx; apply in_seq; apply El in Hx; lia).
  pose proof (NoDup_incl_length NDl Inc) as Le. rewrite seq_length in Le. lia.
Qed.
End Poly.
Arguments fire_all : simpl never.

(* the value node n fires in a transaction that sends fs, None if it does not fire *)
Definition den (gr : graph nat) (fs : list (nat * nat)) (n : nat) : option nat := denf Fmix (S (length gr)) gr fs n.

(* ---------------- C03 for EngineScript.estep ---------------- *)
Lemma in_range_spec {Val} (gr : graph Val) l : in_range gr l = true <-> forall d, In d l -> d < length gr.
Proof.
  unfold in_range. rewrite forallb_forall. split; intros H d Hd; specialize (H d Hd); [apply Nat.ltb_lt|apply Nat.ltb_lt]; auto.
Qed.

(* the update log of a transaction, oldest first: every node is updated at most once, exactly the
   derived nodes one of whose dependencies fires, and never before one of its dependencies *)
Definition once_spec (gr : graph nat) (fs : list (nat * nat)) (lg : list nat) :=
  NoDup lg /\
  (forall n, In n lg <-> (n < length gr /\ deps (get gr n) <> [] /\
                          exists d, In d (deps (get gr n)) /\ den gr fs d <> None)) /\
  (forall l1 n l2, lg = l1 ++ n :: l2 -> forall d, In d (deps (get gr n)) -> ~ In d l2).

Theorem C03_txn gr fs : wf gr -> ranked gr -> sources gr fs ->
  exists lg, estep false gr (ETxn fs) = (gr, Some (lg, map (den gr fs) (seq 0 (length gr)))) /\
             once_spec gr fs lg.
Proof.
  intros Hwf Hr Hs.
  destruct (ranked_bounded gr Hr (proj1 (proj2 Hwf))) as (rank & RK & RB).
  destruct (txn_run Fmix gr fs rank Hwf RK RB Hs) as (s' & E & Cl & Fi & ND & Iff & St).
  exists (rev (log s')). split; [|split; [exact ND|split; [exact Iff|exact St]]].
  unfold estep.
  assert (IR : in_range gr (map fst fs) = true).
  { apply in_range_spec. intros d Hd. apply in_map_iff in Hd as ([n v] & <- & Hin). apply (proj2 Hs n v Hin). }
  rewrite IR. cbv zeta. unfold init_st, fire_all in E. rewrite E. rewrite Cl, Fi. reflexivity.
Qed.

(* final firings are the denotation; the graph is back at rest, unchanged *)
Theorem C03_final gr fs : wf gr -> ranked gr -> sources gr fs ->
  exists lg, estep false gr (ETxn fs) = (gr, Some (lg, map (den gr fs) (seq 0 (length gr)))).
Proof. intros A B C. destruct (C03_txn gr fs A B C) as (lg & E & _). exists lg; exact E. Qed.

Theorem C03_once gr fs gr' lg fires : wf gr -> ranked gr -> sources gr fs ->
  estep false gr (ETxn fs) = (gr', Some (lg, fires)) -> once_spec gr fs lg.
Proof.
  intros A B C E. destruct (C03_txn gr fs A B C) as (lg' & E' & O). rewrite E' in E.
  injection E as _ <- _. exact O.
Qed.

(* any other order of the firing list, and any other graph with the same dependency lists (whatever
   the order - or multiplicity - inside its dependents lists): same firings, same set of updates *)
Theorem C03_order_independent gr fs gr2 fs2 :
  wf gr -> ranked gr -> sources gr fs ->
  wf gr2 -> map deps gr2 = map deps gr -> Permutation fs fs2 ->
  exists lg lg2 fires,
    estep false gr (ETxn fs) = (gr, Some (lg, fires)) /\
    estep false gr2 (ETxn fs2) = (gr2, Some (lg2, fires)) /\
    Permutation lg lg2.
Proof.
  intros W1 R1 S1 W2 ED Pm.
  assert (EL : length gr2 = length gr).
  { rewrite <- (map_length deps gr2), ED. apply map_length. }
  assert (EDn : forall n, deps (get gr2 n) = deps (get gr n)).
  { intros n. destruct (lt_dec n (length gr)) as [Hn|Hn].
    - unfold get. rewrite <- (map_nth deps gr2), <- (map_nth deps gr), ED. reflexivity.
    - rewrite !get_default by lia. reflexivity. }
  assert (R2 : ranked gr2).
  { destruct R1 as [rank RK]. exists rank. intros n d. rewrite EDn. apply RK. }
  assert (S2 : sources gr2 fs2).
  { destruct S1 as [ND Sr]. split.
    - eapply Permutation_NoDup; [apply Permutation_map; exact Pm | exact ND].
    - intros n v H. apply (Permutation_in _ (Permutation_sym Pm)) in H. rewrite EL, EDn. apply Sr with v; auto. }
  assert (Eden : forall n, den gr2 fs2 n = den gr fs n).
  { intros n. unfold den. rewrite EL. apply denf_deps_only; auto.
    intros k. symmetry. apply lookup_perm; [apply S1 | exact Pm]. }
  destruct (C03_txn gr fs W1 R1 S1) as (lg & E1 & ND1 & Iff1 & _).
  destruct (C03_txn gr2 fs2 W2 R2 S2) as (lg2 & E2 & ND2 & Iff2 & _).
  exists lg, lg2, (map (den gr fs) (seq 0 (length gr))). split; [exact E1|]. split.
  - rewrite E2, EL. rewrite (map_ext _ _ Eden). reflexivity.
  - apply NoDup_Permutation; auto. intros n. rewrite Iff1, Iff2, EL, EDn.
    split; intros (A & B & d & Hd & Nd); (split; [auto|split; [auto|exists d; split; auto]]).
    + rewrite Eden; auto.
    + rewrite <- Eden; auto.
Qed.

Print Assumptions C03_txn.
Print Assumptions C03_final.
Print Assumptions C03_once.
Print Assumptions C03_order_independent.

(* den satisfies the equation it was meant to: a fired source yields its value; a derived node
   yields its rule applied to the denotations of its dependencies iff one of them fires *)
Theorem den_unfold gr fs n : deps_in_range gr -> ranked gr -> n < length gr ->
  den gr fs n = match deps (get gr n) with
                | [] => lookup fs n
                | ds => if existsb is_some (map (den gr fs) ds) then Fmix n (map (den gr fs) ds) else None
                end.
Proof.
  intros DR Rk Hn. destruct (ranked_bounded gr Rk DR) as (rank & RK & RB).
  unfold den. cbn [denf]. destruct (deps (get gr n)) as [|d0 ds] eqn:Dn; auto. cbv zeta.
  assert (E : map (denf Fmix (length gr) gr fs) (d0 :: ds) = map (denf Fmix (S (length gr)) gr fs) (d0 :: ds)).
  { apply map_ext_in. intros d Hd. rewrite <- Dn in Hd. pose proof (RB d (DR n d Hd)).
    apply (denf_stable Fmix gr fs rank RK); lia. }
  rewrite E. reflexivity.
Qed.

(* the special case asked for: the same graph with every dependents list permuted *)
Lemma wf_perm_dependents (gr gr2 : graph nat) :
  wf gr -> at_rest gr2 -> map deps gr2 = map deps gr ->
  (forall n, Permutation (dependents (get gr2 n)) (dependents (get gr n))) -> wf gr2.
Proof.
  intros (R & DR & TR & C) R2 ED Pm.
  assert (EL : length gr2 = length gr).
  { rewrite <- (map_length deps gr2), ED. apply map_length. }
  assert (EDn : forall n, deps (get gr2 n) = deps (get gr n)).
  { intros n. destruct (lt_dec n (length gr)) as [Hn|Hn].
    - unfold get. rewrite <- (map_nth deps gr2), <- (map_nth deps gr), ED. reflexivity.
    - rewrite !get_default by lia. reflexivity. }
  split; auto. split; [|split].
  - intros n d. rewrite EDn, EL. apply DR.
  - intros n m Hm. rewrite EL. apply (TR n). eapply Permutation_in; [apply Pm | exact Hm].
  - intros n d. rewrite EDn. intros Hd. eapply Permutation_in; [apply Permutation_sym; apply Pm | apply C; auto].
Qed.

Corollary C03_dependents_order_independent gr fs gr2 fs2 :
  wf gr -> ranked gr -> sources gr fs ->
  at_rest gr2 -> map deps gr2 = map deps gr ->
  (forall n, Permutation (dependents (get gr2 n)) (dependents (get gr n))) -> Permutation fs fs2 ->
  exists lg lg2 fires,
    estep false gr (ETxn fs) = (gr, Some (lg, fires)) /\
    estep false gr2 (ETxn fs2) = (gr2, Some (lg2, fires)) /\
    Permutation lg lg2.
Proof.
  intros W1 R1 S1 R2 ED PmD Pm. apply C03_order_independent; auto. eapply wf_perm_dependents; eauto.
Qed.

Print Assumptions den_unfold.
Print Assumptions C03_dependents_order_independent.

(* ---------------- building graphs: ENode and EAddDep keep the hypotheses ---------------- *)
Definition with_dependent (x : node nat) (n : nat) : node nat :=
  {| deps := deps x; dependents := dependents x ++ [n]; visited := visited x; done := done x;
     changed := changed x; fire := fire x |}.
(* equal up to the dependents list *)
Definition same_but_dependents (x y : node nat) :=
  deps x = deps y /\ visited x = visited y /\ done x = done y /\ changed x = changed y /\ fire x = fire y.

Lemma add_dependent_get (g : graph nat) d n k : d < length g ->
  get (add_dependent g d n) k = if Nat.eqb d k then with_dependent (get g d) n else get g k.
Proof.
  intros H. unfold add_dependent. destruct (Nat.eqb_spec d k) as [->|Ne]; [rewrite get_set_same | rewrite get_set_other]; auto.
Qed.

Lemma add_dependents_spec n ds : forall g0 : graph nat, (forall d, In d ds -> d < length g0) ->
  length (fold_left (fun g d => add_dependent g d n) ds g0) = length g0 /\
  forall k, same_but_dependents (get (fold_left (fun g d => add_dependent g d n) ds g0) k) (get g0 k) /\
            forall j, In j (dependents (get (fold_left (fun g d => add_dependent g d n) ds g0) k)) <->
                      In j (dependents (get g0 k)) \/ (j = n /\ In k ds).
Proof.
  induction ds as [|d ds IH]; intros g0 R.
  - simpl. split; auto. intros k. split; [unfold same_but_dependents; auto 10|]. intros j. tauto.
  - cbn [fold_left].
    assert (Hd : d < length g0) by (apply R; simpl; auto).
    assert (L1 : length (add_dependent g0 d n) = length g0) by (unfold add_dependent; apply set_length).
    destruct (IH (add_dependent g0 d n)) as [L G].
    { intros x Hx. rewrite L1. apply R; simpl; auto. }
    split; [congruence|]. intros k. destruct (G k) as [(A1 & A2 & A3 & A4 & A5) B].
    rewrite add_dependent_get in A1, A2, A3, A4, A5 by auto.
    split.
    + unfold same_but_dependents. destruct (Nat.eqb_spec d k) as [->|Ne]; simpl in *; auto 10.
    + intros j. rewrite B, add_dependent_get by auto.
      destruct (Nat.eqb_spec d k) as [->|Ne]; simpl.
      * rewrite in_app_iff. simpl. intuition.
      * intuition.
Qed.

Definition dflt : node nat := {| deps := []; dependents := []; visited := true; done := true; changed := false; fire := None |}.

Lemma get_snoc_cases (gr : graph nat) x k :
  (k < length gr /\ get (gr ++ [x]) k = get gr k) \/
  (k = length gr /\ get (gr ++ [x]) k = x) \/
  (length gr < k /\ get (gr ++ [x]) k = dflt).
Proof.
  destruct (lt_eq_lt_dec k (length gr)) as [[Lt|Eq]|Gt].
  - left. split; auto. apply get_app_l; auto.
  - right; left. split; auto. subst k. apply get_app_new.
  - right; right. split; auto. apply get_default. rewrite app_length. simpl. lia.
Qed.

Definition new_node (gr : graph nat) (ds : list nat) : graph nat :=
  fold_left (fun g d => add_dependent g d (length gr)) ds (gr ++ [mknode ds]).

Lemma estep_ENode o gr ds : estep o gr (ENode ds) = if in_range gr ds then (new_node gr ds, None) else (gr, None).
Proof. reflexivity. Qed.
Lemma estep_EAddDep o gr n m : estep o gr (EAddDep n m) = if in_range gr [n; m] then (add_dep gr n m, None) else (gr, None).
Proof. reflexivity. Qed.

Lemma new_node_spec (gr : graph nat) ds : in_range gr ds = true ->
  length (new_node gr ds) = S (length gr) /\
  forall k, same_but_dependents (get (new_node gr ds) k) (get (gr ++ [mknode ds]) k) /\
            forall j, In j (dependents (get (new_node gr ds) k)) <->
                      In j (dependents (get (gr ++ [mknode ds]) k)) \/ (j = length gr /\ In k ds).
Proof.
  intros IR. rewrite in_range_spec in IR.
  destruct (add_dependents_spec (length gr) ds (gr ++ [mknode ds])) as [L G].
  { intros d Hd. rewrite app_length. simpl. specialize (IR d Hd). lia. }
  split; [unfold new_node; rewrite L, app_length; simpl; lia | exact G].
Qed.

Theorem wf_ENode (gr : graph nat) ds : wf gr -> in_range gr ds = true -> wf (new_node gr ds).
Proof.
  intros (R & DR & TR & C) IR. destruct (new_node_spec gr ds IR) as [L G]. rewrite in_range_spec in IR.
  split; [|split; [|split]].
  - intros k Hk. destruct (G k) as [(A1 & A2 & A3 & A4 & A5) _]. unfold rest. rewrite A2, A3, A4, A5.
    destruct (get_snoc_cases gr (mknode ds) k) as [[Hl ->]|[[He ->]|[Hg _]]]; [apply R; auto | unfold mknode; simpl; auto | lia].
  - intros k d. destruct (G k) as [(A1 & _) _]. rewrite A1, L.
    destruct (get_snoc_cases gr (mknode ds) k) as [[Hl ->]|[[He ->]|[Hg ->]]]; simpl.
    + intros Hd. specialize (DR k d Hd). lia.
    + intros Hd. specialize (IR d Hd). lia.
    + intros [].
  - intros k m. destruct (G k) as [_ B]. rewrite B, L. intros [Hm|[-> _]]; [|lia]. revert Hm.
    destruct (get_snoc_cases gr (mknode ds) k) as [[Hl ->]|[[He ->]|[Hg ->]]]; simpl.
    + intros Hm. specialize (TR k m Hm). lia.
    + intros [].
    + intros [].
  - intros k d. destruct (G k) as [(A1 & _) _]. destruct (G d) as [_ B]. rewrite A1, B.
    destruct (get_snoc_cases gr (mknode ds) k) as [[Hl ->]|[[He ->]|[Hg ->]]]; simpl.
    + intros Hd. left. rewrite get_app_l by (eapply DR; eauto). apply C; auto.
    + intros Hd. right. split; auto.
    + intros [].
Qed.

Theorem ranked_ENode (gr : graph nat) ds : wf gr -> in_range gr ds = true -> ranked gr -> ranked (new_node gr ds).
Proof.
  intros (_ & DR & _) IR [rank RK]. destruct (new_node_spec gr ds IR) as [L G]. rewrite in_range_spec in IR.
  exists (fun k => if Nat.eqb k (length gr) then S (list_max (map rank ds)) else rank k).
  intros k d. destruct (G k) as [(A1 & _) _]. rewrite A1.
  destruct (get_snoc_cases gr (mknode ds) k) as [[Hl ->]|[[He ->]|[Hg ->]]]; simpl.
  - intros Hd. pose proof (DR k d Hd) as HdN.
    destruct (Nat.eqb_spec d (length gr)); [lia|]. destruct (Nat.eqb_spec k (length gr)); [lia|]. apply RK; auto.
  - intros Hd. pose proof (IR d Hd) as HdN.
    destruct (Nat.eqb_spec d (length gr)); [lia|]. rewrite He, Nat.eqb_refl.
    assert (rank d <= list_max (map rank ds)) by (apply list_max_ge; apply in_map; auto). lia.
  - intros [].
Qed.

Lemma add_dep_spec (gr : graph nat) n m : n < length gr -> m < length gr ->
  length (add_dep gr n m) = length gr /\
  forall k, deps (get (add_dep gr n m) k) = (if Nat.eqb n k then deps (get gr k) ++ [m] else deps (get gr k)) /\
            dependents (get (add_dep gr n m) k) = (if Nat.eqb m k then dependents (get gr k) ++ [n] else dependents (get gr k)) /\
            visited (get (add_dep gr n m) k) = visited (get gr k) /\ done (get (add_dep gr n m) k) = done (get gr k) /\
            changed (get (add_dep gr n m) k) = changed (get gr k) /\ fire (get (add_dep gr n m) k) = fire (get gr k).
Proof.
  intros Hn Hm. unfold add_dep. split; [unfold add_dependent; rewrite !set_length; reflexivity|].
  intros k. rewrite add_dependent_get by (rewrite set_length; auto).
  destruct (Nat.eqb_spec m k) as [->|Nm]; destruct (Nat.eqb_spec n k) as [->|Nn]; simpl;
    repeat first [rewrite get_set_same by auto | rewrite get_set_other by auto]; simpl; auto 10.
Qed.

Theorem wf_EAddDep (gr : graph nat) n m : wf gr -> in_range gr [n; m] = true -> wf (add_dep gr n m).
Proof.
  intros (R & DR & TR & C) IR. rewrite in_range_spec in IR.
  assert (Hn : n < length gr) by (apply IR; simpl; auto).
  assert (Hm : m < length gr) by (apply IR; simpl; auto).
  destruct (add_dep_spec gr n m Hn Hm) as [L G].
  assert (Keep : forall d j, In j (dependents (get gr d)) -> In j (dependents (get (add_dep gr n m) d))).
  { intros d j Hj. destruct (G d) as (_ & B & _). rewrite B. destruct (Nat.eqb m d); [apply in_or_app; auto|auto]. }
  split; [|split; [|split]].
  - intros k Hk. rewrite L in Hk. destruct (G k) as (_ & _ & A2 & A3 & A4 & A5). unfold rest. rewrite A2, A3, A4, A5. apply R; auto.
  - intros k d. destruct (G k) as (A & _). rewrite A, L. destruct (Nat.eqb n k); [|apply DR].
    intros Hd. apply in_app_or in Hd as [Hd|[<-|[]]]; [eapply DR; eauto | auto].
  - intros k j. destruct (G k) as (_ & B & _). rewrite B, L. destruct (Nat.eqb m k); [|apply TR].
    intros Hj. apply in_app_or in Hj as [Hj|[<-|[]]]; [eapply TR; eauto | auto].
  - intros k d. destruct (G k) as (A & _). rewrite A. destruct (Nat.eqb_spec n k) as [->|Ne].
    + intros Hd. apply in_app_or in Hd as [Hd|[<-|[]]]; [apply Keep; apply C; auto|].
      destruct (G m) as (_ & B & _). rewrite B, Nat.eqb_refl. apply in_or_app; right; simpl; auto.
    + intros Hd. apply Keep. apply C; auto.
Qed.

(* a new edge that respects some rank function of the graph keeps it ranked *)
Theorem ranked_EAddDep (gr : graph nat) n m (rank : nat -> nat) : in_range gr [n; m] = true ->
  (forall k d, In d (deps (get gr k)) -> rank d < rank k) -> rank m < rank n -> ranked (add_dep gr n m).
Proof.
  intros IR RK Hr. rewrite in_range_spec in IR.
  assert (Hn : n < length gr) by (apply IR; simpl; auto).
  assert (Hm : m < length gr) by (apply IR; simpl; auto).
  destruct (add_dep_spec gr n m Hn Hm) as [L G]. exists rank.
  intros k d. destruct (G k) as (A & _). rewrite A. destruct (Nat.eqb_spec n k) as [->|Ne]; [|apply RK].
  intros Hd. apply in_app_or in Hd as [Hd|[<-|[]]]; [apply RK; auto | auto].
Qed.

Definition is_build (op : eop) : bool := match op with ETxn _ => false | _ => true end.

(* ENode / EAddDep steps preserve rest, range and completeness; ENode preserves rankedness, EAddDep
   preserves it when the result is ranked (ranked_EAddDep gives a sufficient condition) *)
Theorem wf_estep_build o gr op : is_build op = true -> wf gr -> wf (fst (estep o gr op)).
Proof.
  intros B W. destruct op as [ds|n m|fs]; [| |discriminate].
  - rewrite estep_ENode. destruct (in_range gr ds) eqn:IR; simpl; auto. apply wf_ENode; auto.
  - rewrite estep_EAddDep. destruct (in_range gr [n; m]) eqn:IR; simpl; auto. apply wf_EAddDep; auto.
Qed.

Theorem ranked_estep_build o gr op : is_build op = true -> wf gr -> ranked gr ->
  (forall n m, op = EAddDep n m -> in_range gr [n; m] = true -> ranked (add_dep gr n m)) ->
  ranked (fst (estep o gr op)).
Proof.
  intros B W Rk H. destruct op as [ds|n m|fs]; [| |discriminate].
  - rewrite estep_ENode. destruct (in_range gr ds) eqn:IR; simpl; auto. apply ranked_ENode; auto.
  - rewrite estep_EAddDep. destruct (in_range gr [n; m]) eqn:IR; simpl; auto.
Qed.

Definition run_script (orig : bool) (gr : graph nat) (ops : list eop) : graph nat :=
  fold_left (fun g op => fst (estep orig g op)) ops gr.

Lemma wf_nil : wf ([] : graph nat).
Proof.
  split; [intros n Hn; simpl in Hn; lia|]. split; [|split]; intros n d; rewrite get_default by (simpl; lia); intros [].
Qed.

Theorem wf_run_script o ops : forall gr, forallb is_build ops = true -> wf gr -> wf (run_script o gr ops).
Proof.
  induction ops as [|op ops IH]; intros gr B W; [exact W|]. simpl in B. apply andb_prop in B as [B1 B2].
  unfold run_script. cbn [fold_left]. apply IH; auto. apply wf_estep_build; auto.
Qed.

Print Assumptions wf_estep_build.
Print Assumptions ranked_estep_build.
Print Assumptions ranked_EAddDep.

(* ---------------- (6) non-vacuity: a six-node graph built by a script ---------------- *)
(* s1=0 s2=1 x1=2(s1) x2=3(s2) d=4(x1,x2) n=5(s2) and then n.add_dependency(d): the shape of finding D1 *)
Definition ex_ops : list eop :=
  [ENode []; ENode []; ENode [0]; ENode [1]; ENode [2; 3]; ENode [1]; EAddDep 5 4].
Definition Gex : graph nat := run_script false [] ex_ops.
Definition ex_fs : list (nat * nat) := [(0, 1); (1, 2)].

Lemma Gex_eq : Gex =
  [ mk [] [2] false None; mk [] [3; 5] false None; mk [0] [4] false None; mk [1] [4] false None;
    mk [2; 3] [5] false None; mk [1; 4] [] false None ].
Proof. vm_compute. reflexivity. Qed.

Example Gex_wf : wf Gex.
Proof. apply wf_run_script; [reflexivity | apply wf_nil]. Qed.

Example Gex_ranked : ranked Gex.
Proof.
  exists (fun n => n). intros n d. rewrite Gex_eq.
  do 6 (destruct n as [|n]; [simpl; intuition lia|]).
  rewrite get_default by (simpl; lia). intros [].
Qed.

Example Gex_sources : sources Gex ex_fs.
Proof.
  split.
  - simpl. repeat constructor; simpl; intuition lia.
  - intros n v H. rewrite Gex_eq. simpl in H. destruct H as [E|[E|[]]]; injection E as <- <-; simpl; split; auto; lia.
Qed.

(* the theorem applies ... *)
Example C03_example_thm :
  exists lg, estep false Gex (ETxn ex_fs) = (Gex, Some (lg, map (den Gex ex_fs) (seq 0 6))) /\ once_spec Gex ex_fs lg.
Proof. exact (C03_txn Gex ex_fs Gex_wf Gex_ranked Gex_sources). Qed.

(* ... and this is what it says, evaluated *)
Example C03_example_eval :
  estep false Gex (ETxn ex_fs) = (Gex, Some ([2; 3; 4; 5], [Some 1; Some 2; Some 4; Some 6; Some 26; Some 41])) /\
  estep false Gex (ETxn (rev ex_fs)) = (Gex, Some ([3; 2; 4; 5], [Some 1; Some 2; Some 4; Some 6; Some 26; Some 41])) /\
  map (den Gex ex_fs) (seq 0 6) = [Some 1; Some 2; Some 4; Some 6; Some 26; Some 41].
Proof. vm_compute. auto. Qed.

(* ---------------- (5) the algorithm as originally found is not glitch free ---------------- *)
(* On the same well-formed ranked graph and firing list the original algorithm (dependents are walked
   even when the node was entered as a dependency) updates node 5 before its dependency 4 and leaves
   it with a firing computed from a partial input: 14 instead of den = 41. *)
Theorem C03_original_refuted :
  exists gr fs, wf gr /\ ranked gr /\ sources gr fs /\
    exists gr' lg fires, estep true gr (ETxn fs) = (gr', Some (lg, fires)) /\
      nth 5 fires None = Some 14 /\ den gr fs 5 = Some 41 /\
      fires <> map (den gr fs) (seq 0 (length gr)) /\
      lg = [2; 5; 3; 4] /\ In 4 (deps (get gr 5)).
Proof.
  exists Gex, ex_fs. split; [exact Gex_wf|]. split; [exact Gex_ranked|]. split; [exact Gex_sources|].
  eexists. eexists. eexists. split; [vm_compute; reflexivity|].
  split; [reflexivity|]. split; [vm_compute; reflexivity|]. split; [vm_compute; discriminate|].
  split; [reflexivity|]. vm_compute. auto.
Qed.

(* the same at engine level, on EngineSafe's witness (rule Fsum, graph G0, queue [0;1]):
   node 5 ends with 502 under the original algorithm, 1405 under the repaired one in both orders *)
Example C03_original_refuted_engine :
  option_map (fun r => nth 5 (fst r) None) (final true [0; 1]) = Some (Some 502) /\
  option_map (fun r => nth 5 (fst r) None) (final false [0; 1]) = Some (Some 1405) /\
  option_map (fun r => nth 5 (fst r) None) (final false [1; 0]) = Some (Some 1405).
Proof. vm_compute. auto. Qed.

Print Assumptions C03_example_thm.
Print Assumptions C03_example_eval.
Print Assumptions C03_original_refuted.
Print Assumptions C03_original_refuted_engine.
