(* C03 (glitch freedom) at the level of EngineScript.estep: a transaction over a well-formed ranked
   graph computes, for every node, the denotation `den` (a function of the graph's dependency
   structure, of its demands and of the fired sources only), runs every update at most once and after
   the updates of its static dependencies and of the nodes it demands, and returns the graph to rest.
   Hence the result does not depend on the order in which the sources were sent, nor on the
   registration order inside any dependents list.
   The original algorithm (orig = true) is refuted on a concrete six-node graph. *)
From Coq Require Import List Arith Lia Bool Permutation.
Import ListNotations.
From Sodium Require Import Engine EngineScript EngineSafe EngineFuel EngineLog.

Section Poly.
Context {Val : Type}.
(* ---------------- lists and graphs ---------------- *)
Lemma map_nth_seq {A} (l : list A) d : map (fun n => nth n l d) (seq 0 (length l)) = l.
Proof.
  induction l as [|x l IH]; simpl; auto. f_equal.
  rewrite <- seq_shift, map_map. exact IH.
Qed.

Lemma map_get_seq {A} (f : node Val -> A) (gr : graph Val) : map f gr = map (fun n => f (get gr n)) (seq 0 (length gr)).
Proof.
  rewrite <- (map_map (get gr) f). unfold get. rewrite map_nth_seq. reflexivity.
Qed.

Lemma graph_ext (a b : graph Val) : length a = length b -> (forall n, n < length a -> get a n = get b n) -> a = b.
Proof.
  intros L H. unfold get in H. eapply nth_ext; eauto.
Qed.

Lemma set_out (gr : graph Val) n x : length gr <= n -> set gr n x = gr.
Proof.
  revert n; induction gr as [|y t IH]; intros [|k] H; simpl in *; auto; try lia. rewrite IH; auto; lia.
Qed.

Lemma get_default (gr : graph Val) n : length gr <= n ->
  get gr n = {| deps := []; dem := []; dependents := []; visited := true; done := true; changed := false; fire := None |}.
Proof. intros H. unfold get. apply nth_overflow. exact H. Qed.

Lemma get_app_l (gr : graph Val) l n : n < length gr -> get (gr ++ l) n = get gr n.
Proof. intros H. unfold get. apply app_nth1. exact H. Qed.

Lemma get_app_new (gr : graph Val) x : get (gr ++ [x]) (length gr) = x.
Proof. unfold get. rewrite app_nth2 by lia. rewrite Nat.sub_diag. reflexivity. Qed.

(* ---------------- well-formed graphs ---------------- *)
Definition rest (x : node Val) := visited x = false /\ done x = false /\ changed x = false /\ fire x = None.
Definition at_rest (gr : graph Val) := forall n, n < length gr -> rest (get gr n).
Definition deps_in_range (gr : graph Val) := forall n d, In d (deps (get gr n)) -> d < length gr.
Definition dem_in_range (gr : graph Val) := forall n d, In d (dem (get gr n)) -> d < length gr.
Definition dependents_in_range (gr : graph Val) := forall n m, In m (dependents (get gr n)) -> m < length gr.
(* every static dependency edge is registered in the dependents list of its target *)
Definition complete (gr : graph Val) := forall n d, In d (deps (get gr n)) -> In n (dependents (get gr d)).
Definition wf (gr : graph Val) := at_rest gr /\ deps_in_range gr /\ dem_in_range gr /\ dependents_in_range gr /\ complete gr.
(* the potential graph (static dependencies and potential demand targets) is acyclic, as witnessed by a
   rank function (which may as well be bounded by the number of nodes) *)
Definition pot (gr : graph Val) (n : nat) : list nat := deps (get gr n) ++ dem (get gr n).
Definition ranked (gr : graph Val) :=
  exists rank : nat -> nat, forall n d, In d (pot gr n) -> rank d < rank n.
(* a firing list: distinct source nodes with their values *)
Definition sources (gr : graph Val) (fs : list (nat * Val)) :=
  NoDup (map fst fs) /\ forall n v, In (n, v) fs -> n < length gr /\ deps (get gr n) = [].

Definition cln (x : node Val) : node Val :=
  {| deps := deps x; dem := dem x; dependents := dependents x; visited := false; done := false; changed := false; fire := None |}.

Lemma get_cleanup (gr : graph Val) n : n < length gr -> get (cleanup gr) n = cln (get gr n).
Proof.
  intros Hn. change (cleanup gr) with (map cln gr). unfold get.
  rewrite (nth_indep (map cln gr) _ (cln (get gr 0))) by (rewrite map_length; auto).
  rewrite map_nth. f_equal. apply nth_indep. exact Hn.
Qed.

Lemma at_rest_cleanup (gr : graph Val) : at_rest gr -> cleanup gr = gr.
Proof.
  intros R. apply graph_ext; [unfold cleanup; apply map_length|].
  intros n Hn. unfold cleanup in Hn. rewrite map_length in Hn. rewrite get_cleanup by auto.
  destruct (R n Hn) as (A & B & C & E). unfold cln. destruct (get gr n); simpl in *; subst. reflexivity.
Qed.

(* ---------------- the denotation ---------------- *)
Definition lookup (fs : list (nat * Val)) (n : nat) : option Val :=
  match find (fun nv => Nat.eqb (fst nv) n) fs with Some nv => Some (snd nv) | None => None end.

(* a fired source yields its value; a derived node yields its rule applied to the denotations of its
   static dependencies and of the nodes it demands given these, iff one of all these fires *)
Fixpoint denf (F : rule Val) (Dm : demand Val) (fuel : nat) (gr : graph Val) (fs : list (nat * Val)) (n : nat) : option Val :=
  match fuel with 0 => None | S f =>
    match deps (get gr n) with
    | [] => lookup fs n
    | ds => let ins := map (denf F Dm f gr fs) ds in
            let ex := Dm n ins in
            if existsb is_some (map (denf F Dm f gr fs) (ds ++ ex)) then F n ins (map (denf F Dm f gr fs) ex) else None
    end
  end.

Lemma lookup_cons m v fs n : lookup ((m, v) :: fs) n = if Nat.eqb m n then Some v else lookup fs n.
Proof. unfold lookup. simpl. destruct (Nat.eqb m n); reflexivity. Qed.

Lemma lookup_none fs n : ~ In n (map fst fs) -> lookup fs n = None.
Proof.
  induction fs as [|[m v] fs IH]; intros H; [reflexivity|]. rewrite lookup_cons.
  destruct (Nat.eqb_spec m n) as [->|Ne]; [exfalso; apply H; simpl; auto|]. apply IH. intros C; apply H; simpl; auto.
Qed.

Lemma lookup_some fs n v : lookup fs n = Some v -> In (n, v) fs.
Proof.
  induction fs as [|[m w] fs IH]; [discriminate|]. rewrite lookup_cons.
  destruct (Nat.eqb_spec m n) as [->|Ne]; [intros E; injection E as <-; simpl; auto | intros E; simpl; auto].
Qed.

Lemma lookup_in fs n v : NoDup (map fst fs) -> In (n, v) fs -> lookup fs n = Some v.
Proof.
  induction fs as [|[m w] fs IH]; intros ND H; [contradiction|]. rewrite lookup_cons. simpl in ND.
  apply NoDup_cons_iff in ND as [Nin ND].
  destruct H as [E|H].
  - injection E as -> ->. rewrite Nat.eqb_refl. reflexivity.
  - destruct (Nat.eqb_spec m n) as [->|Ne]; [|apply IH; auto].
    exfalso. apply Nin. apply in_map_iff. exists (n, v); auto.
Qed.

(* for distinct keys the lookup does not depend on the order of the firing list *)
Lemma lookup_perm fs fs' n : NoDup (map fst fs) -> Permutation fs fs' -> lookup fs n = lookup fs' n.
Proof.
  intros ND Pm.
  assert (ND' : NoDup (map fst fs')) by (eapply Permutation_NoDup; [apply Permutation_map; exact Pm | exact ND]).
  destruct (lookup fs n) as [v|] eqn:E.
  - symmetry. apply lookup_in; auto. eapply Permutation_in; [exact Pm|]. apply lookup_some; auto.
  - destruct (lookup fs' n) as [v|] eqn:E'; auto.
    apply lookup_some in E'. apply (Permutation_in _ (Permutation_sym Pm)) in E'.
    rewrite (lookup_in _ _ _ ND E') in E. discriminate.
Qed.

(* the denotation reads nothing but the dependency lists and the demand function *)
Lemma denf_deps_only (F : rule Val) (Dm Dm' : demand Val) f (gr gr' : graph Val) (fs fs' : list (nat * Val)) :
  (forall n, deps (get gr' n) = deps (get gr n)) -> (forall n ins, Dm' n ins = Dm n ins) ->
  (forall n, lookup fs' n = lookup fs n) ->
  forall n, denf F Dm' f gr' fs' n = denf F Dm f gr fs n.
Proof.
  intros HD HM HL. induction f as [|f IH]; intros n; cbn [denf]; auto.
  rewrite HD. destruct (deps (get gr n)) as [|d0 ds]; [apply HL|].
  cbv zeta. rewrite (map_ext _ _ IH), HM. rewrite (map_ext _ _ IH). rewrite (map_ext _ _ IH). reflexivity.
Qed.

(* with demands that are statically within the ranked potential demands, the denotation does not depend
   on the fuel once it exceeds the rank *)
Lemma denf_stable (F : rule Val) (Dm : demand Val) (gr : graph Val) (fs : list (nat * Val))
      (Dem : nat -> list nat) (rank : nat -> nat) :
  (forall n d, In d (deps (get gr n) ++ Dem n) -> rank d < rank n) ->
  (forall n ins, incl (Dm n ins) (Dem n)) ->
  forall f1 f2 n, rank n < f1 -> rank n < f2 -> denf F Dm f1 gr fs n = denf F Dm f2 gr fs n.
Proof.
  intros RK Sub. induction f1 as [|f1 IH]; intros f2 n H1 H2; [lia|]. destruct f2 as [|f2]; [lia|]. cbn [denf].
  destruct (deps (get gr n)) as [|d0 ds] eqn:Dn; auto. cbv zeta.
  assert (E : map (denf F Dm f1 gr fs) (d0 :: ds) = map (denf F Dm f2 gr fs) (d0 :: ds)).
  { apply map_ext_in. intros d Hd. rewrite <- Dn in Hd. assert (rank d < rank n) by (apply RK; apply in_or_app; auto). apply IH; lia. }
  rewrite E.
  assert (E2 : forall l, incl l (Dem n) -> map (denf F Dm f1 gr fs) l = map (denf F Dm f2 gr fs) l).
  { intros l Hl. apply map_ext_in. intros d Hd. assert (rank d < rank n) by (apply RK; apply in_or_app; right; apply Hl; exact Hd). apply IH; lia. }
  rewrite (E2 _ (Sub n _)). rewrite !map_app, E, (E2 _ (Sub n _)). reflexivity.
Qed.

(* ---------------- one transaction ---------------- *)
Definition fired (x : node Val) (v : Val) : node Val :=
  {| deps := deps x; dem := dem x; dependents := dependents x; visited := visited x; done := done x; changed := true; fire := Some v |}.
Definition fire_all (fs : list (nat * Val)) (gr : graph Val) : graph Val :=
  fold_left (fun g nv => fire_source g (fst nv) (snd nv)) fs gr.

Arguments fire_all : simpl never.

Lemma fire_all_spec (fs : list (nat * Val)) : forall gr : graph Val, NoDup (map fst fs) -> (forall n v, In (n, v) fs -> n < length gr) ->
  length (fire_all fs gr) = length gr /\
  forall n, get (fire_all fs gr) n = match lookup fs n with Some v => fired (get gr n) v | None => get gr n end.
Proof.
  induction fs as [|[m v] fs IH]; intros gr ND R.
  - split; auto.
  - simpl in ND. apply NoDup_cons_iff in ND as [Nin ND].
    change (fire_all ((m, v) :: fs) gr) with (fire_all fs (fire_source gr m v)).
    assert (Hm : m < length gr) by (apply (R m v); simpl; auto).
    assert (L1 : length (fire_source gr m v) = length gr) by (unfold fire_source; apply set_length).
    destruct (IH (fire_source gr m v) ND) as [L G].
    { intros n w H. rewrite L1. apply (R n w). simpl; auto. }
    split; [congruence|]. intros n. rewrite G, lookup_cons.
    destruct (Nat.eqb_spec m n) as [->|Ne].
    + rewrite lookup_none by auto. unfold fire_source. rewrite get_set_same by auto. reflexivity.
    + unfold fire_source. rewrite get_set_other by auto. reflexivity.
Qed.

Definition Dof (gr : graph Val) (n : nat) : list nat := deps (get gr n).
Definition Dtsof (gr : graph Val) (n : nat) : list nat := dependents (get gr n).

Lemma cln_rest (x y : node Val) : rest y -> deps x = deps y -> dem x = dem y -> dependents x = dependents y -> cln x = y.
Proof.
  intros (A & B & C & E) H1 H2 H3. unfold cln. rewrite H1, H2, H3. destruct y; simpl in *; subst. reflexivity.
Qed.

(* the engine never touches the static data of a node *)
Lemma dem_set_eq (gr : graph Val) n x m : dem x = dem (get gr n) -> dem (get (set gr n x) m) = dem (get gr m).
Proof.
  intros H. destruct (Nat.eq_dec n m) as [->|Ne]; [|rewrite get_set_other; auto].
  destruct (lt_dec m (length gr)) as [Lt|Ge]; [rewrite get_set_same; auto|].
  rewrite set_out by lia. reflexivity.
Qed.

Section Dem.
  Variable F : rule Val.
  Variable Dm : demand Val.
  Variable orig : bool.

  Lemma mark_dem (s : st Val) n v d m : dem (get (g (mark s n v d)) m) = dem (get (g s) m).
  Proof. unfold mark; cbn [g]. apply dem_set_eq. reflexivity. Qed.

  Lemma run_update_dem (s : st Val) n ex m : dem (get (g (run_update F s n ex)) m) = dem (get (g s) m).
  Proof. unfold run_update; cbn [g]. apply dem_set_eq. reflexivity. Qed.

  Lemma update_node_dem : forall fuel s n b s',
    update_node F Dm orig fuel s n b = Some s' -> forall m, dem (get (g s') m) = dem (get (g s) m).
  Proof.
    induction fuel as [|f IH]; intros s n b s' E m; [discriminate|].
    cbn [update_node] in E. destruct (visited (get (g s) n)); [injection E as <-; reflexivity|]. cbv zeta in E.
    pose (P := fun (a0 a : st Val) => forall k, dem (get (g a) k) = dem (get (g a0) k)).
    assert (Fold : forall l a0 r,
              fold_left (fun acc d => match acc with None => None | Some a =>
                  if visited (get (g a) d) then Some a else update_node F Dm orig f a d true end) l (Some a0) = Some r -> P a0 r).
    { intros l a0 r Er.
      apply (fold_opt_inv (P a0) (fun a d => if visited (get (g a) d) then Some a else update_node F Dm orig f a d true) l a0 r); auto.
      - intros k; reflexivity.
      - intros a d a' _ Pa Ea k. destruct (visited (get (g a) d)); [injection Ea as <-; apply Pa|].
        rewrite (IH a d true a' Ea). apply Pa. }
    match type of E with match ?T with _ => _ end = _ => destruct T as [s2|] eqn:EB end; [|discriminate].
    match type of E with match ?T with _ => _ end = _ => destruct T as [s2'|] eqn:EB' end; [|discriminate].
    pose proof (Fold _ _ _ EB) as P2. pose proof (Fold _ _ _ EB') as P2'.
    remember (Dm n (fires_of (g s2) (deps (get (g s) n)))) as ex eqn:Hex.
    remember (if existsb (fun d => changed (get (g s2') d)) (deps (get (g s) n) ++ ex) then run_update F s2' n ex else s2') as s3 eqn:Hs3.
    remember (mark s3 n true true) as s4 eqn:Hs4.
    assert (P4 : forall k, dem (get (g s4) k) = dem (get (g s) k)).
    { intros k. rewrite Hs4, mark_dem, Hs3.
      destruct (existsb _ _); [rewrite run_update_dem|]; rewrite P2', P2, mark_dem; reflexivity. }
    destruct (changed (get (g s4) n)); [|injection E as <-; apply P4].
    destruct (b && negb orig); [injection E as <-; apply P4|].
    rewrite <- P4.
    apply (fold_opt_inv (fun a => forall k, dem (get (g a) k) = dem (get (g s4) k))
             (fun a x => update_node F Dm orig f a x false) (dependents (get (g s4) n)) s4 s'); auto.
    intros a x a' _ Pa Ea k. rewrite (IH a x false a' Ea). apply Pa.
  Qed.

  Lemma drain_dem : forall rounds fuel s s',
    drain F Dm orig rounds fuel s = Some s' -> forall m, dem (get (g s') m) = dem (get (g s) m).
  Proof.
    induction rounds as [|r IH]; intros fuel s s' E m; [discriminate|].
    cbn [drain] in E. destruct (queue s) as [|q0 qs] eqn:Q; [injection E as <-; reflexivity|]. rewrite <- Q in E.
    match type of E with match ?T with _ => _ end = _ => destruct T as [s1|] eqn:EF end; [|discriminate].
    rewrite (IH fuel s1 s' E).
    apply (fold_opt_inv (fun a => forall k, dem (get (g a) k) = dem (get (g s) k))
             (fun a x => update_node F Dm orig fuel a x false) (queue s) {| g := g s; queue := []; log := log s |} s1); auto.
    intros a x a' _ Pa Ea k. rewrite (update_node_dem fuel a x false a' Ea). apply Pa.
  Qed.
End Dem.

(* ONE TRANSACTION, for any rule, any demand function and ANY SOLUTION `den` of the equations of the graph
   over the fired sources whose demands lie within a ranked set of potential demands `Dem` (the `dem`
   fields of the nodes, or any other over-approximation of the demands at the solution) *)
Section Txn.
  Variable F : rule Val.
  Variable Dm : demand Val.
  Variable gr : graph Val.
  Variable fs : list (nat * Val).
  Variable Dem : nat -> list nat.
  Variable rank : nat -> nat.
  Variable den : nat -> option Val.
  Hypothesis Hwf : wf gr.
  Hypothesis rank_ok : forall n d, In d (deps (get gr n) ++ Dem n) -> rank d < rank n.
  Hypothesis Dem_range : forall n d, In d (Dem n) -> d < length gr.
  Hypothesis Hsrc : sources gr fs.
  Hypothesis den_src : forall n, n < length gr -> deps (get gr n) = [] -> den n = lookup fs n.
  Hypothesis den_eq : forall n, n < length gr -> deps (get gr n) <> [] ->
    den n = (if existsb is_some (map den (deps (get gr n) ++ Dm n (map den (deps (get gr n)))))
             then F n (map den (deps (get gr n))) (map den (Dm n (map den (deps (get gr n))))) else None).
  Hypothesis Dm_den : forall n, n < length gr -> incl (Dm n (map den (deps (get gr n)))) (Dem n).
  Hypothesis Dm_quiet : forall n ins, existsb is_some ins = false -> Dm n ins = [].

  Local Notation N := (length gr).
  Local Notation gr1 := (fire_all fs gr).
  Definition init_st : st Val := {| g := fire_all fs gr; queue := map fst fs; log := [] |}.

  Lemma txn_D_range : forall n d, In d (Dof gr n) -> d < N.
  Proof. destruct Hwf as (_ & A & _). exact A. Qed.
  Lemma txn_Dts_range : forall n d, In d (Dtsof gr n) -> d < N.
  Proof. destruct Hwf as (_ & _ & _ & A & _). exact A. Qed.
  Lemma txn_Dts_complete : forall n d, n < N -> In d (Dof gr n) -> In n (Dtsof gr d).
  Proof. destruct Hwf as (_ & _ & _ & _ & A). intros n d _. apply A. Qed.

  Lemma src_range : forall n v, In (n, v) fs -> n < N.
  Proof. intros n v H. apply (proj2 Hsrc n v H). Qed.

  Lemma gr1_length : length gr1 = N.
  Proof. apply fire_all_spec; [apply Hsrc | apply src_range]. Qed.

  Lemma gr1_get n : get gr1 n = match lookup fs n with Some v => fired (get gr n) v | None => get gr n end.
  Proof. apply fire_all_spec; [apply Hsrc | apply src_range]. Qed.

  Lemma lookup_source n v : lookup fs n = Some v -> n < N /\ Dof gr n = [].
  Proof. intros H. apply lookup_some in H. apply (proj2 Hsrc n v H). Qed.

  Lemma gr1_flags n : n < N ->
    visited (get gr1 n) = false /\ done (get gr1 n) = false /\
    deps (get gr1 n) = Dof gr n /\ dependents (get gr1 n) = Dtsof gr n /\
    fire (get gr1 n) = lookup fs n /\ changed (get gr1 n) = is_some (lookup fs n).
  Proof.
    intros Hn. destruct Hwf as (R & _). destruct (R n Hn) as (A & B & C & E).
    rewrite gr1_get. destruct (lookup fs n); simpl; auto 10.
  Qed.

  Lemma gr1_dem n : dem (get gr1 n) = dem (get gr n).
  Proof. rewrite gr1_get. destruct (lookup fs n); reflexivity. Qed.

  Lemma init_good : Good F Dm (Dof gr) (Dtsof gr) N den init_st.
  Proof.
    unfold Good, NoPend, Cov, SrcQ, CovAt, SrcOK, pend, init_st; simpl. split; [|split; [|split; [|split; [|split]]]].
    - split; [apply gr1_length|]. intros n Hn. destruct (gr1_flags n Hn) as (_ & _ & A & B & _). auto.
    - split.
      + intros n Hn Dn. destruct (gr1_flags n Hn) as (_ & B & _). congruence.
      + intros n Hn _ NE. destruct (gr1_flags n Hn) as (_ & _ & _ & _ & A & B).
        rewrite A, B. destruct (lookup fs n) as [v|] eqn:E; auto.
        exfalso. apply NE. apply (lookup_source n v E).
    - intros p Hp [V _]. destruct (gr1_flags p Hp) as (A & _). congruence.
    - intros k Hk Dk. destruct (gr1_flags k Hk) as (_ & B & _). congruence.
    - intros k Hk Ck _. destruct (gr1_flags k Hk) as (_ & _ & _ & _ & _ & B). rewrite B in Ck.
      destruct (lookup fs k) as [v|] eqn:E; [|discriminate].
      apply lookup_some in E. apply in_map_iff. exists (k, v); auto.
    - intros n Hn Dn. destruct (gr1_flags n Hn) as (_ & _ & _ & _ & A & B).
      rewrite A, B, (den_src n Hn Dn). auto.
  Qed.

  (* the nodes n demands in this transaction *)
  Definition demanded (n : nat) : list nat := Dm n (map den (Dof gr n)).

  (* the whole transaction *)
  Lemma txn_run :
    exists s', drain F Dm false (S (S N)) (S (S (N + N))) init_st = Some s' /\
      cleanup (g s') = gr /\
      map fire (g s') = map den (seq 0 N) /\
      NoDup (rev (log s')) /\
      (forall n, In n (rev (log s')) <->
                 (n < N /\ Dof gr n <> [] /\ exists d, In d (Dof gr n ++ demanded n) /\ den d <> None)) /\
      (forall l1 n l2, rev (log s') = l1 ++ n :: l2 -> forall d, In d (Dof gr n ++ demanded n) -> ~ In d l2).
  Proof.
    pose proof init_good as Gd.
    assert (L0 : length (g init_st) = N) by apply gr1_length.
    destruct (drain F Dm false (S (S N)) (S (S (N + N))) init_st) as [s'|] eqn:E.
    2:{ exfalso. revert E. apply drain_fuel; pose proof (unvis_le_length (g init_st)); lia. }
    exists s'. split; auto.
    destruct (drain_good F Dm (Dof gr) Dem (Dtsof gr) rank N den rank_ok txn_D_range Dem_range txn_Dts_range den_eq Dm_den Dm_quiet
                _ _ _ _ Gd E) as ((Sh' & _) & _ & _).
    destruct (drain_fixpoint F Dm (Dof gr) Dem (Dtsof gr) rank N den rank_ok txn_D_range Dem_range txn_Dts_range den_eq Dm_den Dm_quiet
                txn_Dts_complete _ _ _ _ Gd E) as (_ & _ & Den).
    assert (ND0 : forall n, n < N -> done (get (g init_st) n) = false).
    { intros n Hn. apply (gr1_flags n Hn). }
    destruct (drain_log_spec F Dm (Dof gr) Dem (Dtsof gr) rank N den rank_ok txn_D_range Dem_range txn_Dts_range den_eq Dm_den Dm_quiet
                txn_Dts_complete _ _ _ _ Gd eq_refl ND0 E) as (NDl & Iff & _ & St).
    assert (Ein : forall n, inp Dm (Dof gr) (g s') n = Dof gr n ++ demanded n).
    { intros n. unfold inp, exs_of, ins_of, demanded, fires_of. f_equal. f_equal.
      apply map_ext_in. intros d Hd. apply Den. apply (txn_D_range n d Hd). }
    assert (InpR : forall n d, n < N -> In d (Dof gr n ++ demanded n) -> d < N).
    { intros n d Hn Hd. apply in_app_or in Hd as [Hd|Hd]; [apply (txn_D_range n d Hd)|].
      apply (Dem_range n). apply (Dm_den n Hn). exact Hd. }
    destruct Sh' as [L' Sh'].
    split; [|split; [|split; [|split]]].
    - apply graph_ext; [unfold cleanup; rewrite map_length; auto|].
      intros n Hn. unfold cleanup in Hn. rewrite map_length, L' in Hn. rewrite get_cleanup by lia.
      destruct Hwf as (R & _). apply cln_rest; [apply R; auto | apply Sh'; auto | | apply Sh'; auto].
      rewrite (drain_dem F Dm false _ _ _ _ E). apply gr1_dem.
    - rewrite map_get_seq, L'. apply map_ext_in. intros n Hn. apply in_seq in Hn. apply Den. lia.
    - apply NoDup_rev. exact NDl.
    - intros n. rewrite <- in_rev, Iff. rewrite Ein.
      split; intros (Hn & NE & d & Hd & Cd); (split; [auto|split; [auto|exists d; split; auto]]).
      + destruct (Den d (InpR n d Hn Hd)) as [_ B]. rewrite B in Cd. destruct (den d); [discriminate|discriminate].
      + destruct (Den d (InpR n d Hn Hd)) as [_ B]. rewrite B. destruct (den d); [reflexivity|contradiction].
    - intros l1 n l2 El d Hd. apply (St l1 n l2 El d). rewrite Ein. exact Hd.
  Qed.
End Txn.

(* ---------------- any rank function can be compressed below the number of nodes ---------------- *)
(* E: the edges of a graph over the nodes below N *)
Fixpoint hf (E : nat -> list nat) (fuel n : nat) : nat :=
  match fuel with 0 => 0 | S f =>
    match E n with [] => 0 | ds => S (list_max (map (hf E f) ds)) end
  end.

Lemma hf_stable (E : nat -> list nat) (rank : nat -> nat) :
  (forall n d, In d (E n) -> rank d < rank n) ->
  forall f1 f2 n, rank n < f1 -> rank n < f2 -> hf E f1 n = hf E f2 n.
Proof.
  intros RK. induction f1 as [|f1 IH]; intros f2 n H1 H2; [lia|]. destruct f2 as [|f2]; [lia|]. cbn [hf].
  destruct (E n) as [|d0 ds] eqn:Dn; auto.
  assert (Eq : map (hf E f1) (d0 :: ds) = map (hf E f2) (d0 :: ds)).
  { apply map_ext_in. intros d Hd. rewrite <- Dn in Hd. apply RK in Hd. apply IH; lia. }
  rewrite Eq. reflexivity.
Qed.

Lemma list_max_in l : l <> [] -> In (list_max l) l.
Proof.
  induction l as [|x l IH]; intros NE; [contradiction|]. cbn [list_max fold_right].
  change (fold_right Nat.max 0 l) with (list_max l).
  destruct l as [|y l']; [simpl; left; lia|].
  assert (H : In (list_max (y :: l')) (y :: l')) by (apply IH; discriminate).
  destruct (Nat.max_spec x (list_max (y :: l'))) as [[_ ->]|[_ ->]]; [right; exact H | left; reflexivity].
Qed.

Lemma list_max_ge l x : In x l -> x <= list_max l.
Proof.
  intros H. pose proof (proj1 (list_max_le l (list_max l)) (Nat.le_refl _)) as Fa.
  rewrite Forall_forall in Fa. apply Fa; auto.
Qed.

(* a rank below the size of any set K of nodes closed under the edges *)
Lemma height_bound (E : nat -> list nat) (K : list nat) (rank : nat -> nat) :
  (forall n d, In d (E n) -> rank d < rank n) ->
  (forall n d, In n K -> In d (E n) -> In d K) ->
  exists h : nat -> nat,
    (forall n d, In d (E n) -> h d < h n) /\ (forall n, In n K -> h n < length K).
Proof.
  intros RK Cl. exists (fun n => hf E (S (rank n)) n).
  assert (Step : forall n d, In d (E n) -> hf E (S (rank d)) d < hf E (S (rank n)) n).
  { intros n d Hd. pose proof (RK n d Hd) as Rd.
    rewrite (hf_stable E rank RK (S (rank d)) (rank n) d) by lia.
    remember (rank n) as rn eqn:Hrn. cbn [hf].
    destruct (E n) as [|d0 ds] eqn:Dn; [contradiction|]. subst rn.
    assert (hf E (rank n) d <= list_max (map (hf E (rank n)) (d0 :: ds))) by (apply list_max_ge; apply in_map; exact Hd).
    lia. }
  split; [exact Step|].
  assert (Path : forall r n, rank n = r -> In n K ->
            exists l, NoDup l /\ (forall x, In x l -> In x K /\ rank x <= rank n) /\
                      length l = S (hf E (S (rank n)) n)).
  { induction r as [r IHr] using lt_wf_ind. intros n Hr Hn.
    destruct (E n) as [|d0 ds] eqn:Dn.
    - exists [n]. split; [constructor; [intros []|constructor]|]. split.
      + intros x [<-|[]]. split; auto.
      + cbn [hf]. rewrite Dn. reflexivity.
    - assert (NEm : map (hf E (rank n)) (d0 :: ds) <> []) by discriminate.
      pose proof (list_max_in _ NEm) as Hin. apply in_map_iff in Hin as (d & Ed & Hd).
      rewrite <- Dn in Hd. pose proof (RK n d Hd) as Rd. pose proof (Cl n d Hn Hd) as HdK.
      destruct (IHr (rank d) ltac:(lia) d eq_refl HdK) as (l & NDl & El & Ll).
      exists (n :: l). split; [|split].
      + constructor; auto. intros Hnl. apply El in Hnl. lia.
      + intros x [<-|Hx]; [split; auto|]. apply El in Hx. split; [apply Hx|lia].
      + cbn [length]. rewrite Ll. f_equal.
        rewrite (hf_stable E rank RK (S (rank d)) (rank n) d) by lia. rewrite Ed.
        remember (rank n) as rn eqn:Hrn. cbn [hf]. rewrite Dn. reflexivity. }
  intros n Hn. destruct (Path (rank n) n eq_refl Hn) as (l & NDl & El & Ll).
  assert (Inc : incl l K) by (intros x Hx; apply El in Hx; apply Hx).
  pose proof (NoDup_incl_length NDl Inc) as Le. lia.
Qed.

Lemma edges_bounded (E : nat -> list nat) (N : nat) :
  (exists rank : nat -> nat, forall n d, In d (E n) -> rank d < rank n) ->
  (forall n d, In d (E n) -> d < N) ->
  exists rank : nat -> nat, (forall n d, In d (E n) -> rank d < rank n) /\ (forall n, n < N -> rank n < N).
Proof.
  intros [rank RK] DR.
  destruct (height_bound E (seq 0 N) rank RK) as (h & Hh & Hb).
  { intros n d _ Hd. apply in_seq. specialize (DR n d Hd). lia. }
  exists h. split; [exact Hh|]. intros n Hn. specialize (Hb n). rewrite seq_length in Hb. apply Hb. apply in_seq. lia.
Qed.

Definition ranked_b (gr : graph Val) :=
  exists rank : nat -> nat, (forall n d, In d (pot gr n) -> rank d < rank n) /\
                            (forall n, n < length gr -> rank n < length gr).

Lemma ranked_bounded (gr : graph Val) : ranked gr -> deps_in_range gr -> dem_in_range gr -> ranked_b gr.
Proof.
  intros Rk DR MR. apply (edges_bounded (pot gr) (length gr) Rk).
  intros n d Hd. unfold pot in Hd. apply in_app_or in Hd as [Hd|Hd]; [eapply DR; eauto | eapply MR; eauto].
Qed.

(* ONE TRANSACTION with demands that are, for every input whatsoever, among statically known potential
   demand targets Dem (for instance those recorded in the graph): the solution is the executable
   denotation denf *)
Section TxnStatic.
  Variable F : rule Val.
  Variable Dm : demand Val.
  Variable gr : graph Val.
  Variable fs : list (nat * Val).
  Variable Dem : nat -> list nat.
  Hypothesis Hwf : wf gr.
  Hypothesis Hrk : exists rank : nat -> nat, forall n d, In d (deps (get gr n) ++ Dem n) -> rank d < rank n.
  Hypothesis Dem_range : forall n d, In d (Dem n) -> d < length gr.
  Hypothesis Hsrc : sources gr fs.
  Hypothesis Dm_sub : forall n ins, incl (Dm n ins) (Dem n).
  Hypothesis Dm_quiet : forall n ins, existsb is_some ins = false -> Dm n ins = [].

  Local Notation N := (length gr).
  Local Notation DEN := (denf F Dm (S N) gr fs).

  (* the fixpoint equation of the denotation *)
  Lemma denf_unfold n :
    DEN n = match deps (get gr n) with
            | [] => lookup fs n
            | ds => if existsb is_some (map DEN (ds ++ Dm n (map DEN ds)))
                    then F n (map DEN ds) (map DEN (Dm n (map DEN ds))) else None
            end.
  Proof.
    destruct Hwf as (_ & DR & _).
    destruct (edges_bounded (fun k => deps (get gr k) ++ Dem k) N Hrk) as (rank & RK & RB).
    { intros k d Hd. apply in_app_or in Hd as [Hd|Hd]; [eapply DR; eauto | eapply Dem_range; eauto]. }
    cbn [denf]. destruct (deps (get gr n)) as [|d0 ds] eqn:Dn; auto. cbv zeta.
    assert (St : forall l, (forall d, In d l -> d < N) -> map (denf F Dm N gr fs) l = map DEN l).
    { intros l Hl. apply map_ext_in. intros d Hd. pose proof (RB d (Hl d Hd)).
      apply (denf_stable F Dm gr fs Dem rank RK Dm_sub); lia. }
    assert (E : map (denf F Dm N gr fs) (d0 :: ds) = map DEN (d0 :: ds)).
    { apply St. intros d Hd. rewrite <- Dn in Hd. eapply DR; eauto. }
    rewrite E.
    assert (E2 : map (denf F Dm N gr fs) (Dm n (map DEN (d0 :: ds))) = map DEN (Dm n (map DEN (d0 :: ds)))).
    { apply St. intros d Hd. apply Dm_sub in Hd. eapply Dem_range; eauto. }
    rewrite !map_app, E, E2. reflexivity.
  Qed.

  Lemma txn_run_denf :
    exists s', drain F Dm false (S (S N)) (S (S (N + N))) (init_st gr fs) = Some s' /\
      cleanup (g s') = gr /\
      map fire (g s') = map DEN (seq 0 N) /\
      NoDup (rev (log s')) /\
      (forall n, In n (rev (log s')) <->
                 (n < N /\ Dof gr n <> [] /\ exists d, In d (Dof gr n ++ demanded Dm gr DEN n) /\ DEN d <> None)) /\
      (forall l1 n l2, rev (log s') = l1 ++ n :: l2 -> forall d, In d (Dof gr n ++ demanded Dm gr DEN n) -> ~ In d l2).
  Proof.
    destruct Hrk as [rank RK].
    apply (txn_run F Dm gr fs Dem rank DEN Hwf RK Dem_range Hsrc).
    - intros n Hn Dn. rewrite denf_unfold, Dn. reflexivity.
    - intros n Hn NE. rewrite denf_unfold at 1. destruct (deps (get gr n)) as [|d0 ds]; [contradiction|]. reflexivity.
    - intros n Hn. apply Dm_sub.
    - exact Dm_quiet.
  Qed.
End TxnStatic.
End Poly.
Arguments fire_all : simpl never.

(* ---------------- the demand function of the scripts ---------------- *)
Lemma sDm_sub gr n ins : incl (sDm gr n ins) (dem (get gr n)).
Proof. unfold sDm. destruct (is_some (nth 0 ins None)); [apply incl_refl | intros d []]. Qed.

Lemma sDm_quiet gr n ins : existsb is_some ins = false -> sDm gr n ins = [].
Proof.
  intros H. unfold sDm. destruct ins as [|o ins]; [reflexivity|]. cbn [nth]. cbn [existsb] in H.
  apply orb_false_elim in H as [H _]. rewrite H. reflexivity.
Qed.

(* the value node n fires in a transaction that sends fs, None if it does not fire *)
Definition den (gr : graph nat) (fs : list (nat * nat)) (n : nat) : option nat :=
  denf Fscript (sDm gr) (S (length gr)) gr fs n.
(* the nodes that node n demands in that transaction: all its potential targets if its first static
   dependency fires *)
Definition sdemanded (gr : graph nat) (fs : list (nat * nat)) (n : nat) : list nat :=
  sDm gr n (map (den gr fs) (deps (get gr n))).

(* ---------------- C03 for EngineScript.estep ---------------- *)
Lemma in_range_spec {Val} (gr : graph Val) l : in_range gr l = true <-> forall d, In d l -> d < length gr.
Proof.
  unfold in_range. rewrite forallb_forall. split; intros H d Hd; specialize (H d Hd); [apply Nat.ltb_lt|apply Nat.ltb_lt]; auto.
Qed.

(* the update log of a transaction, oldest first: every node is updated at most once, exactly the
   derived nodes one of whose static dependencies or demanded nodes fires, and never before one of these *)
Definition once_spec (gr : graph nat) (fs : list (nat * nat)) (lg : list nat) :=
  NoDup lg /\
  (forall n, In n lg <-> (n < length gr /\ deps (get gr n) <> [] /\
                          exists d, In d (deps (get gr n) ++ sdemanded gr fs n) /\ den gr fs d <> None)) /\
  (forall l1 n l2, lg = l1 ++ n :: l2 -> forall d, In d (deps (get gr n) ++ sdemanded gr fs n) -> ~ In d l2).

Theorem C03_txn gr fs : wf gr -> ranked gr -> sources gr fs ->
  exists lg, estep false gr (ETxn fs) = (gr, Some (lg, map (den gr fs) (seq 0 (length gr)))) /\
             once_spec gr fs lg.
Proof.
  intros Hwf Hr Hs.
  destruct (txn_run_denf Fscript (sDm gr) gr fs (fun k => dem (get gr k)) Hwf Hr (proj1 (proj2 (proj2 Hwf))) Hs (sDm_sub gr) (sDm_quiet gr))
    as (s' & E & Cl & Fi & ND & Iff & St).
  exists (rev (log s')). split; [|split; [exact ND|split; [exact Iff|exact St]]].
  unfold estep.
  assert (IR : in_range gr (map fst fs) = true).
  { apply in_range_spec. intros d Hd. apply in_map_iff in Hd as ([n v] & <- & Hin). apply (proj2 Hs n v Hin). }
  rewrite IR. cbv zeta. unfold init_st, fire_all in E. rewrite E. rewrite Cl, Fi. reflexivity.
Qed.

(* final firings are the denotation; the graph is back at rest, unchanged *)
Theorem C03_final gr fs : wf gr -> ranked gr -> sources gr fs ->
  exists lg, estep false gr (ETxn fs) = (gr, Some (lg, map (den gr fs) (seq 0 (length gr)))).
Proof. intros A B C. destruct (C03_txn gr fs A B C) as (lg & E & _). exists lg; exact E. Qed.

Theorem C03_once gr fs gr' lg fires : wf gr -> ranked gr -> sources gr fs ->
  estep false gr (ETxn fs) = (gr', Some (lg, fires)) -> once_spec gr fs lg.
Proof.
  intros A B C E. destruct (C03_txn gr fs A B C) as (lg' & E' & O). rewrite E' in E.
  injection E as _ <- _. exact O.
Qed.

Lemma map_field_get {A} (f : node nat -> A) (gr gr2 : graph nat) :
  map f gr2 = map f gr -> forall n, f (get gr2 n) = f (get gr n).
Proof.
  intros E n.
  assert (EL : length gr2 = length gr) by (rewrite <- (map_length f gr2), E; apply map_length).
  destruct (lt_dec n (length gr)) as [Hn|Hn].
  - unfold get. rewrite <- (map_nth f gr2), <- (map_nth f gr), E. reflexivity.
  - rewrite !get_default by lia. reflexivity.
Qed.

(* any other order of the firing list, and any other graph with the same dependency and potential-demand
   lists (whatever the order - or multiplicity - inside its dependents lists): same firings, same set of
   updates *)
Theorem C03_order_independent gr fs gr2 fs2 :
  wf gr -> ranked gr -> sources gr fs ->
  wf gr2 -> map deps gr2 = map deps gr -> map dem gr2 = map dem gr -> Permutation fs fs2 ->
  exists lg lg2 fires,
    estep false gr (ETxn fs) = (gr, Some (lg, fires)) /\
    estep false gr2 (ETxn fs2) = (gr2, Some (lg2, fires)) /\
    Permutation lg lg2.
Proof.
  intros W1 R1 S1 W2 ED EM Pm.
  assert (EL : length gr2 = length gr).
  { rewrite <- (map_length deps gr2), ED. apply map_length. }
  assert (EDn : forall n, deps (get gr2 n) = deps (get gr n)) by (apply map_field_get; exact ED).
  assert (EMn : forall n, dem (get gr2 n) = dem (get gr n)) by (apply map_field_get; exact EM).
  assert (R2 : ranked gr2).
  { destruct R1 as [rank RK]. exists rank. intros n d. unfold pot. rewrite EDn, EMn. apply RK. }
  assert (S2 : sources gr2 fs2).
  { destruct S1 as [ND Sr]. split.
    - eapply Permutation_NoDup; [apply Permutation_map; exact Pm | exact ND].
    - intros n v H. apply (Permutation_in _ (Permutation_sym Pm)) in H. rewrite EL, EDn. apply Sr with v; auto. }
  assert (EDm : forall n ins, sDm gr2 n ins = sDm gr n ins).
  { intros n ins. unfold sDm. rewrite EMn. reflexivity. }
  assert (Eden : forall n, den gr2 fs2 n = den gr fs n).
  { intros n. unfold den. rewrite EL. apply denf_deps_only; auto.
    intros k. symmetry. apply lookup_perm; [apply S1 | exact Pm]. }
  assert (Edem : forall n, sdemanded gr2 fs2 n = sdemanded gr fs n).
  { intros n. unfold sdemanded. rewrite EDm, EDn. rewrite (map_ext _ _ Eden). reflexivity. }
  destruct (C03_txn gr fs W1 R1 S1) as (lg & E1 & ND1 & Iff1 & _).
  destruct (C03_txn gr2 fs2 W2 R2 S2) as (lg2 & E2 & ND2 & Iff2 & _).
  exists lg, lg2, (map (den gr fs) (seq 0 (length gr))). split; [exact E1|]. split.
  - rewrite E2, EL. rewrite (map_ext _ _ Eden). reflexivity.
  - apply NoDup_Permutation; auto. intros n. rewrite Iff1, Iff2, EL, EDn, Edem.
    split; intros (A & B & d & Hd & Nd); (split; [auto|split; [auto|exists d; split; auto]]).
    + rewrite Eden; auto.
    + rewrite <- Eden; auto.
Qed.

Print Assumptions C03_txn.
Print Assumptions C03_final.
Print Assumptions C03_once.
Print Assumptions C03_order_independent.

(* den satisfies the equation it was meant to: a fired source yields its value; a derived node yields its
   rule applied to the denotations of its static dependencies followed by those of the nodes it demands,
   iff one of them fires *)
Theorem den_unfold gr fs n : wf gr -> ranked gr ->
  den gr fs n = match deps (get gr n) with
                | [] => lookup fs n
                | ds => if existsb is_some (map (den gr fs) (ds ++ sdemanded gr fs n))
                        then Fmix n (map (den gr fs) (ds ++ sdemanded gr fs n)) else None
                end.
Proof.
  intros Hwf Rk. unfold den at 1.
  rewrite (denf_unfold Fscript (sDm gr) gr fs (fun k => dem (get gr k)) Hwf Rk (proj1 (proj2 (proj2 Hwf))) (sDm_sub gr)).
  unfold sdemanded. destruct (deps (get gr n)) as [|d0 ds]; [reflexivity|].
  unfold Fscript. rewrite <- map_app. reflexivity.
Qed.

(* the special case asked for: the same graph with every dependents list permuted *)
Lemma wf_perm_dependents (gr gr2 : graph nat) :
  wf gr -> at_rest gr2 -> map deps gr2 = map deps gr -> map dem gr2 = map dem gr ->
  (forall n, Permutation (dependents (get gr2 n)) (dependents (get gr n))) -> wf gr2.
Proof.
  intros (R & DR & MR & TR & C) R2 ED EM Pm.
  assert (EL : length gr2 = length gr).
  { rewrite <- (map_length deps gr2), ED. apply map_length. }
  assert (EDn : forall n, deps (get gr2 n) = deps (get gr n)) by (apply map_field_get; exact ED).
  assert (EMn : forall n, dem (get gr2 n) = dem (get gr n)) by (apply map_field_get; exact EM).
  split; auto. split; [|split; [|split]].
  - intros n d. rewrite EDn, EL. apply DR.
  - intros n d. rewrite EMn, EL. apply MR.
  - intros n m Hm. rewrite EL. apply (TR n). eapply Permutation_in; [apply Pm | exact Hm].
  - intros n d. rewrite EDn. intros Hd. eapply Permutation_in; [apply Permutation_sym; apply Pm | apply C; auto].
Qed.

Corollary C03_dependents_order_independent gr fs gr2 fs2 :
  wf gr -> ranked gr -> sources gr fs ->
  at_rest gr2 -> map deps gr2 = map deps gr -> map dem gr2 = map dem gr ->
  (forall n, Permutation (dependents (get gr2 n)) (dependents (get gr n))) -> Permutation fs fs2 ->
  exists lg lg2 fires,
    estep false gr (ETxn fs) = (gr, Some (lg, fires)) /\
    estep false gr2 (ETxn fs2) = (gr2, Some (lg2, fires)) /\
    Permutation lg lg2.
Proof.
  intros W1 R1 S1 R2 ED EM PmD Pm. apply C03_order_independent; auto. eapply wf_perm_dependents; eauto.
Qed.

Print Assumptions den_unfold.
Print Assumptions C03_dependents_order_independent.

(* ---------------- building graphs: ENode, ENodeD and EAddDep keep the hypotheses ---------------- *)
Definition with_dependent (x : node nat) (n : nat) : node nat :=
  {| deps := deps x; dem := dem x; dependents := dependents x ++ [n]; visited := visited x; done := done x;
     changed := changed x; fire := fire x |}.
(* equal up to the dependents list *)
Definition same_but_dependents (x y : node nat) :=
  deps x = deps y /\ dem x = dem y /\ visited x = visited y /\ done x = done y /\ changed x = changed y /\ fire x = fire y.

Lemma add_dependent_get (g : graph nat) d n k : d < length g ->
  get (add_dependent g d n) k = if Nat.eqb d k then with_dependent (get g d) n else get g k.
Proof.
  intros H. unfold add_dependent. destruct (Nat.eqb_spec d k) as [->|Ne]; [rewrite get_set_same | rewrite get_set_other]; auto.
Qed.

Lemma add_dependents_spec n ds : forall g0 : graph nat, (forall d, In d ds -> d < length g0) ->
  length (fold_left (fun g d => add_dependent g d n) ds g0) = length g0 /\
  forall k, same_but_dependents (get (fold_left (fun g d => add_dependent g d n) ds g0) k) (get g0 k) /\
            forall j, In j (dependents (get (fold_left (fun g d => add_dependent g d n) ds g0) k)) <->
                      In j (dependents (get g0 k)) \/ (j = n /\ In k ds).
Proof.
  induction ds as [|d ds IH]; intros g0 R.
  - simpl. split; auto. intros k. split; [unfold same_but_dependents; auto 10|]. intros j. tauto.
  - cbn [fold_left].
    assert (Hd : d < length g0) by (apply R; simpl; auto).
    assert (L1 : length (add_dependent g0 d n) = length g0) by (unfold add_dependent; apply set_length).
    destruct (IH (add_dependent g0 d n)) as [L G].
    { intros x Hx. rewrite L1. apply R; simpl; auto. }
    split; [congruence|]. intros k. destruct (G k) as [(A1 & A0 & A2 & A3 & A4 & A5) B].
    rewrite add_dependent_get in A1, A0, A2, A3, A4, A5 by auto.
    split.
    + unfold same_but_dependents. destruct (Nat.eqb_spec d k) as [->|Ne]; simpl in *; auto 10.
    + intros j. rewrite B, add_dependent_get by auto.
      destruct (Nat.eqb_spec d k) as [->|Ne]; simpl.
      * rewrite in_app_iff. simpl. intuition.
      * intuition.
Qed.

Definition dflt : node nat := {| deps := []; dem := []; dependents := []; visited := true; done := true; changed := false; fire := None |}.

Lemma get_snoc_cases (gr : graph nat) x k :
  (k < length gr /\ get (gr ++ [x]) k = get gr k) \/
  (k = length gr /\ get (gr ++ [x]) k = x) \/
  (length gr < k /\ get (gr ++ [x]) k = dflt).
Proof.
  destruct (lt_eq_lt_dec k (length gr)) as [[Lt|Eq]|Gt].
  - left. split; auto. apply get_app_l; auto.
  - right; left. split; auto. subst k. apply get_app_new.
  - right; right. split; auto. apply get_default. rewrite app_length. simpl. lia.
Qed.

(* a new node with static dependencies ds and potential demand targets dm *)
Definition new_node (gr : graph nat) (ds dm : list nat) : graph nat :=
  fold_left (fun g d => add_dependent g d (length gr)) ds (gr ++ [mknode ds dm]).

Lemma estep_ENode o gr ds : estep o gr (ENode ds) = if in_range gr ds then (new_node gr ds [], None) else (gr, None).
Proof. reflexivity. Qed.
Lemma estep_ENodeD o gr ds dm :
  estep o gr (ENodeD ds dm) = if in_range gr (ds ++ dm) then (new_node gr ds dm, None) else (gr, None).
Proof. reflexivity. Qed.
(* ENode ds = ENodeD ds [] *)
Lemma estep_ENode_ENodeD o gr ds : estep o gr (ENode ds) = estep o gr (ENodeD ds []).
Proof. rewrite estep_ENode, estep_ENodeD, app_nil_r. reflexivity. Qed.
Lemma estep_EAddDep o gr n m : estep o gr (EAddDep n m) = if in_range gr [n; m] then (add_dep gr n m, None) else (gr, None).
Proof. reflexivity. Qed.

Lemma in_range_app {Val} (gr : graph Val) l1 l2 : in_range gr (l1 ++ l2) = in_range gr l1 && in_range gr l2.
Proof. unfold in_range. apply forallb_app. Qed.

Lemma new_node_spec (gr : graph nat) ds dm : in_range gr ds = true ->
  length (new_node gr ds dm) = S (length gr) /\
  forall k, same_but_dependents (get (new_node gr ds dm) k) (get (gr ++ [mknode ds dm]) k) /\
            forall j, In j (dependents (get (new_node gr ds dm) k)) <->
                      In j (dependents (get (gr ++ [mknode ds dm]) k)) \/ (j = length gr /\ In k ds).
Proof.
  intros IR. rewrite in_range_spec in IR.
  destruct (add_dependents_spec (length gr) ds (gr ++ [mknode ds dm])) as [L G].
  { intros d Hd. rewrite app_length. simpl. specialize (IR d Hd). lia. }
  split; [unfold new_node; rewrite L, app_length; simpl; lia | exact G].
Qed.

Theorem wf_ENodeD (gr : graph nat) ds dm : wf gr -> in_range gr (ds ++ dm) = true -> wf (new_node gr ds dm).
Proof.
  intros (R & DR & MR & TR & C) IRa. rewrite in_range_app in IRa. apply andb_prop in IRa as [IR IRm].
  destruct (new_node_spec gr ds dm IR) as [L G]. rewrite in_range_spec in IR, IRm.
  split; [|split; [|split; [|split]]].
  - intros k Hk. destruct (G k) as [(A1 & A0 & A2 & A3 & A4 & A5) _]. unfold rest. rewrite A2, A3, A4, A5.
    destruct (get_snoc_cases gr (mknode ds dm) k) as [[Hl ->]|[[He ->]|[Hg _]]]; [apply R; auto | unfold mknode; simpl; auto | lia].
  - intros k d. destruct (G k) as [(A1 & _) _]. rewrite A1, L.
    destruct (get_snoc_cases gr (mknode ds dm) k) as [[Hl ->]|[[He ->]|[Hg ->]]]; simpl.
    + intros Hd. specialize (DR k d Hd). lia.
    + intros Hd. specialize (IR d Hd). lia.
    + intros [].
  - intros k d. destruct (G k) as [(_ & A0 & _) _]. rewrite A0, L.
    destruct (get_snoc_cases gr (mknode ds dm) k) as [[Hl ->]|[[He ->]|[Hg ->]]]; simpl.
    + intros Hd. specialize (MR k d Hd). lia.
    + intros Hd. specialize (IRm d Hd). lia.
    + intros [].
  - intros k m. destruct (G k) as [_ B]. rewrite B, L. intros [Hm|[-> _]]; [|lia]. revert Hm.
    destruct (get_snoc_cases gr (mknode ds dm) k) as [[Hl ->]|[[He ->]|[Hg ->]]]; simpl.
    + intros Hm. specialize (TR k m Hm). lia.
    + intros [].
    + intros [].
  - intros k d. destruct (G k) as [(A1 & _) _]. destruct (G d) as [_ B]. rewrite A1, B.
    destruct (get_snoc_cases gr (mknode ds dm) k) as [[Hl ->]|[[He ->]|[Hg ->]]]; simpl.
    + intros Hd. left. rewrite get_app_l by (eapply DR; eauto). apply C; auto.
    + intros Hd. right. split; auto.
    + intros [].
Qed.

Theorem wf_ENode (gr : graph nat) ds : wf gr -> in_range gr ds = true -> wf (new_node gr ds []).
Proof. intros W IR. apply wf_ENodeD; auto. rewrite app_nil_r. exact IR. Qed.

(* a new node sits above its static dependencies and its potential demand targets *)
Theorem ranked_ENodeD (gr : graph nat) ds dm : wf gr -> in_range gr (ds ++ dm) = true -> ranked gr -> ranked (new_node gr ds dm).
Proof.
  intros (_ & DR & MR & _) IRa [rank RK]. pose proof IRa as IRb. rewrite in_range_app in IRb. apply andb_prop in IRb as [IR _].
  destruct (new_node_spec gr ds dm IR) as [L G]. rewrite in_range_spec in IRa.
  exists (fun k => if Nat.eqb k (length gr) then S (list_max (map rank (ds ++ dm))) else rank k).
  intros k d. unfold pot. destruct (G k) as [(A1 & A0 & _) _]. rewrite A1, A0.
  destruct (get_snoc_cases gr (mknode ds dm) k) as [[Hl ->]|[[He ->]|[Hg ->]]]; simpl.
  - intros Hd.
    assert (HdN : d < length gr) by (apply in_app_or in Hd as [Hd|Hd]; [eapply DR; eauto | eapply MR; eauto]).
    destruct (Nat.eqb_spec d (length gr)); [lia|]. destruct (Nat.eqb_spec k (length gr)); [lia|]. apply RK; auto.
  - intros Hd. pose proof (IRa d Hd) as HdN.
    destruct (Nat.eqb_spec d (length gr)); [lia|]. rewrite He, Nat.eqb_refl.
    assert (rank d <= list_max (map rank (ds ++ dm))) by (apply list_max_ge; apply in_map; auto). lia.
  - intros [].
Qed.

Theorem ranked_ENode (gr : graph nat) ds : wf gr -> in_range gr ds = true -> ranked gr -> ranked (new_node gr ds []).
Proof. intros W IR. apply ranked_ENodeD; auto. rewrite app_nil_r. exact IR. Qed.

Lemma add_dep_spec (gr : graph nat) n m : n < length gr -> m < length gr ->
  length (add_dep gr n m) = length gr /\
  forall k, deps (get (add_dep gr n m) k) = (if Nat.eqb n k then deps (get gr k) ++ [m] else deps (get gr k)) /\
            dependents (get (add_dep gr n m) k) = (if Nat.eqb m k then dependents (get gr k) ++ [n] else dependents (get gr k)) /\
            dem (get (add_dep gr n m) k) = dem (get gr k) /\
            visited (get (add_dep gr n m) k) = visited (get gr k) /\ done (get (add_dep gr n m) k) = done (get gr k) /\
            changed (get (add_dep gr n m) k) = changed (get gr k) /\ fire (get (add_dep gr n m) k) = fire (get gr k).
Proof.
  intros Hn Hm. unfold add_dep. split; [unfold add_dependent; rewrite !set_length; reflexivity|].
  intros k. rewrite add_dependent_get by (rewrite set_length; auto).
  destruct (Nat.eqb_spec m k) as [->|Nm]; destruct (Nat.eqb_spec n k) as [->|Nn]; simpl;
    repeat first [rewrite get_set_same by auto | rewrite get_set_other by auto]; simpl; auto 10.
Qed.

Theorem wf_EAddDep (gr : graph nat) n m : wf gr -> in_range gr [n; m] = true -> wf (add_dep gr n m).
Proof.
  intros (R & DR & MR & TR & C) IR. rewrite in_range_spec in IR.
  assert (Hn : n < length gr) by (apply IR; simpl; auto).
  assert (Hm : m < length gr) by (apply IR; simpl; auto).
  destruct (add_dep_spec gr n m Hn Hm) as [L G].
  assert (Keep : forall d j, In j (dependents (get gr d)) -> In j (dependents (get (add_dep gr n m) d))).
  { intros d j Hj. destruct (G d) as (_ & B & _). rewrite B. destruct (Nat.eqb m d); [apply in_or_app; auto|auto]. }
  split; [|split; [|split; [|split]]].
  - intros k Hk. rewrite L in Hk. destruct (G k) as (_ & _ & _ & A2 & A3 & A4 & A5). unfold rest. rewrite A2, A3, A4, A5. apply R; auto.
  - intros k d. destruct (G k) as (A & _). rewrite A, L. destruct (Nat.eqb n k); [|apply DR].
    intros Hd. apply in_app_or in Hd as [Hd|[<-|[]]]; [eapply DR; eauto | auto].
  - intros k d. destruct (G k) as (_ & _ & A & _). rewrite A, L. apply MR.
  - intros k j. destruct (G k) as (_ & B & _). rewrite B, L. destruct (Nat.eqb m k); [|apply TR].
    intros Hj. apply in_app_or in Hj as [Hj|[<-|[]]]; [eapply TR; eauto | auto].
  - intros k d. destruct (G k) as (A & _). rewrite A. destruct (Nat.eqb_spec n k) as [->|Ne].
    + intros Hd. apply in_app_or in Hd as [Hd|[<-|[]]]; [apply Keep; apply C; auto|].
      destruct (G m) as (_ & B & _). rewrite B, Nat.eqb_refl. apply in_or_app; right; simpl; auto.
    + intros Hd. apply Keep. apply C; auto.
Qed.

(* a new edge that respects some rank function of the graph keeps it ranked *)
Theorem ranked_EAddDep (gr : graph nat) n m (rank : nat -> nat) : in_range gr [n; m] = true ->
  (forall k d, In d (pot gr k) -> rank d < rank k) -> rank m < rank n -> ranked (add_dep gr n m).
Proof.
  intros IR RK Hr. rewrite in_range_spec in IR.
  assert (Hn : n < length gr) by (apply IR; simpl; auto).
  assert (Hm : m < length gr) by (apply IR; simpl; auto).
  destruct (add_dep_spec gr n m Hn Hm) as [L G]. exists rank.
  intros k d. unfold pot. destruct (G k) as (A & _ & B & _). rewrite A, B. destruct (Nat.eqb_spec n k) as [->|Ne]; [|apply RK].
  intros Hd. apply in_app_or in Hd as [Hd|Hd]; [|apply RK; unfold pot; apply in_or_app; auto].
  apply in_app_or in Hd as [Hd|[<-|[]]]; [apply RK; unfold pot; apply in_or_app; auto | auto].
Qed.

Definition is_build (op : eop) : bool := match op with ETxn _ => false | _ => true end.

(* ENode / ENodeD / EAddDep steps preserve rest, range and completeness; ENode and ENodeD preserve
   rankedness, EAddDep preserves it when the result is ranked (ranked_EAddDep gives a sufficient condition) *)
Theorem wf_estep_build o gr op : is_build op = true -> wf gr -> wf (fst (estep o gr op)).
Proof.
  intros B W. destruct op as [ds|ds dm|n m|fs]; [| | |discriminate].
  - rewrite estep_ENode. destruct (in_range gr ds) eqn:IR; simpl; auto. apply wf_ENode; auto.
  - rewrite estep_ENodeD. destruct (in_range gr (ds ++ dm)) eqn:IR; simpl; auto. apply wf_ENodeD; auto.
  - rewrite estep_EAddDep. destruct (in_range gr [n; m]) eqn:IR; simpl; auto. apply wf_EAddDep; auto.
Qed.

Theorem ranked_estep_build o gr op : is_build op = true -> wf gr -> ranked gr ->
  (forall n m, op = EAddDep n m -> in_range gr [n; m] = true -> ranked (add_dep gr n m)) ->
  ranked (fst (estep o gr op)).
Proof.
  intros B W Rk H. destruct op as [ds|ds dm|n m|fs]; [| | |discriminate].
  - rewrite estep_ENode. destruct (in_range gr ds) eqn:IR; simpl; auto. apply ranked_ENode; auto.
  - rewrite estep_ENodeD. destruct (in_range gr (ds ++ dm)) eqn:IR; simpl; auto. apply ranked_ENodeD; auto.
  - rewrite estep_EAddDep. destruct (in_range gr [n; m]) eqn:IR; simpl; auto.
Qed.

Definition run_script (orig : bool) (gr : graph nat) (ops : list eop) : graph nat :=
  fold_left (fun g op => fst (estep orig g op)) ops gr.

Lemma wf_nil : wf ([] : graph nat).
Proof.
  split; [intros n Hn; simpl in Hn; lia|]. split; [|split; [|split]]; intros n d; rewrite get_default by (simpl; lia); intros [].
Qed.

Theorem wf_run_script o ops : forall gr, forallb is_build ops = true -> wf gr -> wf (run_script o gr ops).
Proof.
  induction ops as [|op ops IH]; intros gr B W; [exact W|]. simpl in B. apply andb_prop in B as [B1 B2].
  unfold run_script. cbn [fold_left]. apply IH; auto. apply wf_estep_build; auto.
Qed.

Print Assumptions wf_estep_build.
Print Assumptions ranked_estep_build.
Print Assumptions ranked_EAddDep.

(* ---------------- (6) non-vacuity: a six-node graph built by a script ---------------- *)
(* s1=0 s2=1 x1=2(s1) x2=3(s2) d=4(x1,x2) n=5(s2) and then n.add_dependency(d): the shape of finding D1 *)
Definition ex_ops : list eop :=
  [ENode []; ENode []; ENode [0]; ENode [1]; ENode [2; 3]; ENode [1]; EAddDep 5 4].
Definition Gex : graph nat := run_script false [] ex_ops.
Definition ex_fs : list (nat * nat) := [(0, 1); (1, 2)].

Lemma Gex_eq : Gex =
  [ mk [] [2] false None; mk [] [3; 5] false None; mk [0] [4] false None; mk [1] [4] false None;
    mk [2; 3] [5] false None; mk [1; 4] [] false None ].
Proof. vm_compute. reflexivity. Qed.

Example Gex_wf : wf Gex.
Proof. apply wf_run_script; [reflexivity | apply wf_nil]. Qed.

Example Gex_ranked : ranked Gex.
Proof.
  exists (fun n => n). intros n d. rewrite Gex_eq. unfold pot.
  do 6 (destruct n as [|n]; [simpl; intuition lia|]).
  rewrite get_default by (simpl; lia). intros [].
Qed.

Example Gex_sources : sources Gex ex_fs.
Proof.
  split.
  - simpl. repeat constructor; simpl; intuition lia.
  - intros n v H. rewrite Gex_eq. simpl in H. destruct H as [E|[E|[]]]; injection E as <- <-; simpl; split; auto; lia.
Qed.

(* the theorem applies ... *)
Example C03_example_thm :
  exists lg, estep false Gex (ETxn ex_fs) = (Gex, Some (lg, map (den Gex ex_fs) (seq 0 6))) /\ once_spec Gex ex_fs lg.
Proof. exact (C03_txn Gex ex_fs Gex_wf Gex_ranked Gex_sources). Qed.

(* ... and this is what it says, evaluated *)
Example C03_example_eval :
  estep false Gex (ETxn ex_fs) = (Gex, Some ([2; 3; 4; 5], [Some 1; Some 2; Some 4; Some 6; Some 26; Some 41])) /\
  estep false Gex (ETxn (rev ex_fs)) = (Gex, Some ([3; 2; 4; 5], [Some 1; Some 2; Some 4; Some 6; Some 26; Some 41])) /\
  map (den Gex ex_fs) (seq 0 6) = [Some 1; Some 2; Some 4; Some 6; Some 26; Some 41].
Proof. vm_compute. auto. Qed.

(* ---------------- (6') non-vacuity with a DEMANDING node ---------------- *)
(* sources 0 and 1; 2 = node(1); 3 = ENodeD [0] [2]: depends on 0 and, when 0 fires, demands 2 from inside
   its update; 4 = node(3); 5 = ENodeD [1] [4] (demands the downstream node 4 when 1 fires).
   With the queue order [0; 1] node 3 is reached, as a dependent of 0, BEFORE node 2 has been visited: only
   the demand brings 2 (and, through it, the source 1) up to date in time. *)
Definition exD_ops : list eop :=
  [ENode []; ENode []; ENode [1]; ENodeD [0] [2]; ENode [3]; ENodeD [1] [4]].
Definition GexD : graph nat := run_script false [] exD_ops.
Definition exD_fs : list (nat * nat) := [(0, 5); (1, 7)].

Example GexD_wf : wf GexD.
Proof. apply wf_run_script; [reflexivity | apply wf_nil]. Qed.

Example GexD_ranked : ranked GexD.
Proof.
  exists (fun n => n). intros n d. unfold pot.
  do 6 (destruct n as [|n]; [vm_compute; intuition lia|]).
  rewrite get_default by (vm_compute; lia). intros [].
Qed.

Example GexD_sources : sources GexD exD_fs.
Proof.
  split.
  - simpl. repeat constructor; simpl; intuition lia.
  - intros n v H. simpl in H. destruct H as [E|[E|[]]]; injection E as <- <-; vm_compute; split; auto; lia.
Qed.

Example C03_demand_example_thm :
  exists lg, estep false GexD (ETxn exD_fs) = (GexD, Some (lg, map (den GexD exD_fs) (seq 0 6))) /\ once_spec GexD exD_fs lg.
Proof. exact (C03_txn GexD exD_fs GexD_wf GexD_ranked GexD_sources). Qed.

(* ... evaluated: the update log starts with node 2, demanded by node 3 before node 3's own update; in
   both queue orders the same firings.  When only the source 1 fires, node 3 demands nothing and is not
   updated; when only 0 fires, node 3 demands 2, which does not fire *)
Example C03_demand_example_eval :
  snd (estep false GexD (ETxn exD_fs)) = Some ([2; 3; 4; 5], [Some 5; Some 7; Some 10; Some 32; Some 37; Some 67]) /\
  snd (estep false GexD (ETxn (rev exD_fs))) = Some ([2; 3; 4; 5], [Some 5; Some 7; Some 10; Some 32; Some 37; Some 67]) /\
  map (sdemanded GexD exD_fs) (seq 0 6) = [[]; []; []; [2]; []; [4]] /\
  snd (estep false GexD (ETxn [(1, 7)])) = Some ([2; 5], [None; Some 7; Some 10; None; None; Some 29]) /\
  snd (estep false GexD (ETxn [(0, 5)])) = Some ([3; 4], [Some 5; None; None; Some 21; Some 26; None]).
Proof. vm_compute. auto 10. Qed.

(* ---------------- (5) the algorithm as originally found is not glitch free ---------------- *)
(* On the same well-formed ranked graph and firing list the original algorithm (dependents are walked
   even when the node was entered as a dependency) updates node 5 before its dependency 4 and leaves
   it with a firing computed from a partial input: 14 instead of den = 41. *)
Theorem C03_original_refuted :
  exists gr fs, wf gr /\ ranked gr /\ sources gr fs /\
    exists gr' lg fires, estep true gr (ETxn fs) = (gr', Some (lg, fires)) /\
      nth 5 fires None = Some 14 /\ den gr fs 5 = Some 41 /\
      fires <> map (den gr fs) (seq 0 (length gr)) /\
      lg = [2; 5; 3; 4] /\ In 4 (deps (get gr 5)).
Proof.
  exists Gex, ex_fs. split; [exact Gex_wf|]. split; [exact Gex_ranked|]. split; [exact Gex_sources|].
  eexists. eexists. eexists. split; [vm_compute; reflexivity|].
  split; [reflexivity|]. split; [vm_compute; reflexivity|]. split; [vm_compute; discriminate|].
  split; [reflexivity|]. vm_compute. auto.
Qed.

(* the same at engine level, on EngineSafe's witness (rule Fsum, graph G0, queue [0;1]):
   node 5 ends with 502 under the original algorithm, 1405 under the repaired one in both orders *)
Example C03_original_refuted_engine :
  option_map (fun r => nth 5 (fst r) None) (final true [0; 1]) = Some (Some 502) /\
  option_map (fun r => nth 5 (fst r) None) (final false [0; 1]) = Some (Some 1405) /\
  option_map (fun r => nth 5 (fst r) None) (final false [1; 0]) = Some (Some 1405).
Proof. vm_compute. auto. Qed.

(* with demanding nodes the original algorithm also goes wrong: the source 1, entered as a dependency
   of the demanded node 2 from inside node 3's update, walks its dependents; node 5 then demands node 4
   while node 3 is still pending, and node 4 is never updated *)
Example C03_original_refuted_demand :
  snd (estep true GexD (ETxn exD_fs)) = Some ([5; 2; 3], [Some 5; Some 7; Some 10; Some 32; None; Some 29]) /\
  den GexD exD_fs 4 = Some 37.
Proof. vm_compute. auto. Qed.

Print Assumptions C03_example_thm.
Print Assumptions C03_example_eval.
Print Assumptions C03_demand_example_thm.
Print Assumptions C03_demand_example_eval.
Print Assumptions C03_original_refuted.
Print Assumptions C03_original_refuted_engine.
