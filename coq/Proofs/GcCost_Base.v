(* Basic facts used by Proofs/GcCost.v (property C16): result monad, heap get/set, weighted guard
   counts, generic iteration lemmas, the frame relation preserved by every collector walk. *)
From Coq Require Import List Arith Bool Lia.
Import ListNotations.
From Sodium Require Import Gc.

(* ---------- the result monad ---------- *)

Lemma bind_ok {A B} (r : res A) (k : A -> res B) (b : B) :
  bind r k = Ok b -> exists a, r = Ok a /\ k a = Ok b.
Proof. destruct r as [a|e|]; simpl; intros H; try discriminate. exists a; auto. Qed.

Lemma bind_not_oof {A B} (r : res A) (k : A -> res B) :
  r <> OutOfFuel -> (forall a, r = Ok a -> k a <> OutOfFuel) -> bind r k <> OutOfFuel.
Proof. destruct r as [a|e|]; simpl; intros H1 H2; auto. discriminate. Qed.

Definition map_res {A B} (f : A -> B) (r : res A) : res B :=
  match r with Ok a => Ok (f a) | Panic e => Panic e | OutOfFuel => OutOfFuel end.

(* ---------- generic iteration ---------- *)

Section GIter.
  Context {S : Type}.
  Fixpoint giter (f : S -> nat -> res S) (a : S) (ns : list nat) : res S :=
    match ns with
    | [] => Ok a
    | n :: t => do a1 <- f a n; giter f a1 t
    end.

  Lemma giter_inv (I : S -> Prop) f ns :
    (forall a t a', In t ns -> I a -> f a t = Ok a' -> I a') ->
    forall a a', I a -> giter f a ns = Ok a' -> I a'.
  Proof.
    induction ns as [|n t IH]; intros Hst a a' Ha E; simpl in E.
    - injection E as <-. exact Ha.
    - apply bind_ok in E as (a1 & E1 & E2).
      apply (IH (fun a0 t0 a0' Hin => Hst a0 t0 a0' (or_intror Hin)) a1 a'); auto.
      apply (Hst a n a1); simpl; auto.
  Qed.

  Lemma giter_not_oof (I : S -> Prop) f ns :
    (forall a t a', In t ns -> I a -> f a t = Ok a' -> I a') ->
    (forall a t, In t ns -> I a -> f a t <> OutOfFuel) ->
    forall a, I a -> giter f a ns <> OutOfFuel.
  Proof.
    induction ns as [|n t IH]; intros Hst Hno a Ha; simpl.
    - discriminate.
    - apply bind_not_oof.
      + apply Hno; simpl; auto.
      + intros a1 E1. apply IH.
        * intros a0 t0 a0' Hin. apply Hst. right; exact Hin.
        * intros a0 t0 Hin. apply Hno. right; exact Hin.
        * apply (Hst a n a1); simpl; auto.
  Qed.

  Lemma giter_ext f f' ns : (forall a t, f a t = f' a t) -> forall a, giter f a ns = giter f' a ns.
  Proof.
    intros Hext. induction ns as [|n t IH]; intros a; simpl; auto.
    rewrite Hext. destruct (f' a n) as [a1|e|]; simpl; auto.
  Qed.
End GIter.

Lemma iter_giter f st ns : iter f st ns = giter f st ns.
Proof.
  revert st; induction ns as [|n t IH]; intros st; simpl; auto.
  destruct (f st n) as [st1|e|]; simpl; auto.
Qed.

(* ---------- heap update ---------- *)

Lemma upd_length h n o : length (upd h n o) = length h.
Proof. revert n; induction h as [|x t IH]; intros [|k]; simpl; auto. Qed.

Lemma nth_upd_same h n o : n < length h -> nth n (upd h n o) dummy = o.
Proof.
  revert n; induction h as [|x t IH]; intros [|k] Hn; simpl in *; try lia; auto.
  apply IH; lia.
Qed.

Lemma nth_upd_other h n o i : i <> n -> nth i (upd h n o) dummy = nth i h dummy.
Proof.
  revert n i; induction h as [|x t IH]; intros [|k] [|j] Hne; simpl; auto; try lia.
Qed.

Lemma upd_oor h n o : length h <= n -> upd h n o = h.
Proof.
  revert n; induction h as [|x t IH]; intros [|k] Hn; simpl in *; auto; try lia.
  f_equal. apply IH; lia.
Qed.

Lemma nobjs_set st s o : nobjs (set st s o) = nobjs st.
Proof. unfold nobjs, set; simpl. apply upd_length. Qed.

Lemma get_set_same st s o : s < nobjs st -> get (set st s o) s = o.
Proof. unfold get, set, nobjs; simpl. apply nth_upd_same. Qed.

Lemma get_set_other st s o i : i <> s -> get (set st s o) i = get st i.
Proof. unfold get, set; simpl. apply nth_upd_other. Qed.

Lemma set_oor st s o : nobjs st <= s -> set st s o = st.
Proof.
  destruct st as [h r tb tc te]. unfold set, nobjs; simpl. intros Hs. f_equal. apply upd_oor; auto.
Qed.

Lemma get_oor st s : nobjs st <= s -> get st s = dummy.
Proof. unfold get, nobjs. apply nth_overflow. Qed.

Lemma get_set st s o i :
  get (set st s o) i = if (Nat.eqb i s && Nat.ltb s (nobjs st))%bool then o else get st i.
Proof.
  destruct (Nat.eqb_spec i s) as [->|Hne]; simpl.
  - destruct (Nat.ltb_spec s (nobjs st)) as [Hlt|Hge].
    + apply get_set_same; auto.
    + rewrite set_oor; auto.
  - apply get_set_other; auto.
Qed.

(* a field of [get (set st s o) i], when [o] keeps that field *)
Lemma get_set_field {A} (fld : gobj -> A) st s o i :
  fld o = fld (get st s) -> fld (get (set st s o) i) = fld (get st i).
Proof.
  intros Hf. rewrite get_set.
  destruct (Nat.eqb_spec i s) as [->|Hne]; simpl; auto.
  destruct (Nat.ltb s (nobjs st)); auto.
Qed.

(* ---------- weighted guard counts ---------- *)

Definition wsum (w : gobj -> nat) (p : gobj -> bool) (l : list gobj) : nat :=
  list_sum (map (fun o => if p o then w o else 0) l).
Definition wcnt (w : gobj -> nat) (p : gobj -> bool) (st : gstate) : nat := wsum w p (objs st).

Definition one (_ : gobj) : nat := 1.
Definition elen (o : gobj) : nat := length (edges o).
Definition ptrue (_ : gobj) : bool := true.

Definition cnt (p : gobj -> bool) (st : gstate) : nat := wcnt one p st.
Definition ecnt (p : gobj -> bool) (st : gstate) : nat := wcnt elen p st.

Lemma wsum_le_true w p l : wsum w p l <= wsum w ptrue l.
Proof.
  unfold wsum, ptrue. induction l as [|x t IH]; simpl; auto.
  destruct (p x); lia.
Qed.

Lemma wsum_one_true l : wsum one ptrue l = length l.
Proof. unfold wsum. induction l as [|x t IH]; simpl; auto. Qed.

Lemma wsum_elen_true l : wsum elen ptrue l = fold_right (fun o a => length (edges o) + a) 0 l.
Proof. unfold wsum. induction l as [|x t IH]; simpl; auto. Qed.

Lemma cnt_le_nobjs p st : cnt p st <= nobjs st.
Proof. unfold cnt, wcnt, nobjs. rewrite <- wsum_one_true. apply wsum_le_true. Qed.

Lemma ecnt_le_nedges p st : ecnt p st <= nedges st.
Proof. unfold ecnt, wcnt, nedges. rewrite <- wsum_elen_true. apply wsum_le_true. Qed.

Lemma wsum_mono w p l : forall l',
  length l' = length l ->
  (forall i, p (nth i l' dummy) = true ->
             p (nth i l dummy) = true /\ w (nth i l' dummy) = w (nth i l dummy)) ->
  wsum w p l' <= wsum w p l.
Proof.
  unfold wsum. induction l as [|x t IH]; intros [|x' t'] Hlen Hpt; simpl in *; try discriminate; auto.
  assert (Hrest : list_sum (map (fun o => if p o then w o else 0) t')
                  <= list_sum (map (fun o => if p o then w o else 0) t)).
  { apply IH; [lia|]. intros i. exact (Hpt (S i)). }
  pose proof (Hpt 0) as H0. simpl in H0.
  destruct (p x') eqn:Hp'.
  - destruct (H0 eq_refl) as [Hp Hw]. rewrite Hp, Hw. lia.
  - lia.
Qed.

Lemma wsum_upd w p h : forall n o,
  n < length h -> p (nth n h dummy) = true -> p o = false ->
  wsum w p (upd h n o) + w (nth n h dummy) = wsum w p h.
Proof.
  unfold wsum. induction h as [|x t IH]; intros [|k] o Hn Hp Ho; simpl in *; try lia.
  - rewrite Hp, Ho. lia.
  - rewrite <- (IH k o); auto; lia.
Qed.

Lemma wsum_pos w p h n : n < length h -> p (nth n h dummy) = true -> w (nth n h dummy) <= wsum w p h.
Proof.
  unfold wsum. revert n; induction h as [|x t IH]; intros [|k] Hn Hp; simpl in *; try lia.
  - rewrite Hp. lia.
  - assert (Hk : k < length t) by lia. specialize (IH k Hk Hp). lia.
Qed.

Lemma wsum_split w p l : wsum w p l + wsum w (fun o => negb (p o)) l = wsum w ptrue l.
Proof.
  unfold wsum, ptrue. induction l as [|x t IH]; simpl; auto.
  destruct (p x); simpl; lia.
Qed.

(* ---------- frame and monotonicity relations ---------- *)

(* what every walk (and every mutator-side reference-count operation) leaves alone *)
Definition frame (st st' : gstate) : Prop :=
  nobjs st' = nobjs st /\
  forall i, edges (get st' i) = edges (get st i) /\ freed (get st' i) = freed (get st i).

Definition mono (p : gobj -> bool) (st st' : gstate) : Prop :=
  forall i, p (get st' i) = true -> p (get st i) = true.

Lemma frame_refl st : frame st st.
Proof. split; auto. Qed.

Lemma frame_trans a b c : frame a b -> frame b c -> frame a c.
Proof.
  intros [N1 P1] [N2 P2]. split; [congruence|].
  intros i. destruct (P1 i) as [E1 F1]. destruct (P2 i) as [E2 F2]. split; congruence.
Qed.

Lemma mono_refl p st : mono p st st.
Proof. intros i H; exact H. Qed.

Lemma mono_trans p a b c : mono p a b -> mono p b c -> mono p a c.
Proof. intros H1 H2 i H. apply H1, H2, H. Qed.

Lemma wcnt_mono w p st st' :
  nobjs st' = nobjs st -> mono p st st' ->
  (forall i, w (get st' i) = w (get st i)) ->
  wcnt w p st' <= wcnt w p st.
Proof.
  intros Hn Hm Hw. unfold wcnt. apply wsum_mono; auto.
  intros i Hp. split; [apply Hm; exact Hp | apply Hw].
Qed.

Lemma cnt_mono p st st' : nobjs st' = nobjs st -> mono p st st' -> cnt p st' <= cnt p st.
Proof. intros Hn Hm. apply wcnt_mono; auto. Qed.

Lemma ecnt_mono p st st' : frame st st' -> mono p st st' -> ecnt p st' <= ecnt p st.
Proof.
  intros [Hn Hf] Hm. apply wcnt_mono; auto.
  intros i. unfold elen. destruct (Hf i) as [E _]. rewrite E. reflexivity.
Qed.

Lemma nedges_wcnt st : nedges st = wcnt elen ptrue st.
Proof. unfold nedges, wcnt. symmetry. apply wsum_elen_true. Qed.

Lemma frame_nedges st st' : frame st st' -> nedges st' = nedges st.
Proof.
  intros F. rewrite !nedges_wcnt.
  assert (H1 : wcnt elen ptrue st' <= wcnt elen ptrue st).
  { apply (ecnt_mono ptrue); auto. intros i _. reflexivity. }
  assert (H2 : wcnt elen ptrue st <= wcnt elen ptrue st').
  { destruct F as [Hn Hf]. apply wcnt_mono; auto.
    - intros i _. reflexivity.
    - intros i. unfold elen. destruct (Hf i) as [E _]. rewrite E. reflexivity. }
  lia.
Qed.

Lemma frame_set st s o :
  edges o = edges (get st s) -> freed o = freed (get st s) -> frame st (set st s o).
Proof.
  intros He Hf. split; [apply nobjs_set|].
  intros i. split; [apply (get_set_field edges) | apply (get_set_field freed)]; auto.
Qed.

Lemma wcnt_set_off w p st s o :
  s < nobjs st -> p (get st s) = true -> p o = false ->
  wcnt w p (set st s o) + w (get st s) = wcnt w p st.
Proof. intros Hs Hp Ho. unfold wcnt, get, set; simpl. apply wsum_upd; auto. Qed.

Lemma mono_set p st s o : (p o = true -> p (get st s) = true) -> mono p st (set st s o).
Proof.
  intros H i. rewrite get_set.
  destruct (Nat.eqb_spec i s) as [->|Hne]; simpl; auto.
  destruct (Nat.ltb s (nobjs st)); auto.
Qed.

(* ---------- well-formedness: ids in range ---------- *)

Definition edges_ok (st : gstate) : Prop :=
  Forall (fun o => Forall (fun t => t < nobjs st) (edges o)) (objs st).
Definition roots_ok (st : gstate) : Prop := Forall (fun r => r < nobjs st) (roots st).
Definition wf (st : gstate) : Prop := edges_ok st /\ roots_ok st.

Definition edges_okP (st : gstate) : Prop := forall i t, In t (edges (get st i)) -> t < nobjs st.

Lemma edges_ok_P st : edges_ok st <-> edges_okP st.
Proof.
  unfold edges_ok, edges_okP. split.
  - intros H i t Hin. destruct (Nat.lt_ge_cases i (nobjs st)) as [Hlt|Hge].
    + rewrite Forall_forall in H. specialize (H (get st i)).
      assert (Hi : In (get st i) (objs st)) by (apply nth_In; exact Hlt).
      specialize (H Hi). rewrite Forall_forall in H. apply H; auto.
    + rewrite get_oor in Hin by auto. simpl in Hin. contradiction.
  - intros H. apply Forall_forall. intros o Ho. apply Forall_forall. intros t Ht.
    destruct (In_nth _ _ dummy Ho) as (i & Hi & E). apply (H i). unfold get. rewrite E. exact Ht.
Qed.

Lemma frame_edges_okP st st' : frame st st' -> edges_okP st -> edges_okP st'.
Proof.
  intros [Hn Hf] H i t Hin. destruct (Hf i) as [E _]. rewrite E in Hin. rewrite Hn. eapply H; eauto.
Qed.

Lemma frame_edges_ok st st' : frame st st' -> edges_ok st -> edges_ok st'.
Proof. rewrite !edges_ok_P. apply frame_edges_okP. Qed.
