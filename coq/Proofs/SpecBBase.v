(* Basic facts about the denotational specification Spec/Sodium.v: one-step unfolding equations of
   cur / occ / upd, fuel monotonicity, fuel independence for legal (acyclic) states, and the
   anatomy of close_txn. Everything else (Proofs/SpecB*.v) builds on these and never unfolds the
   fixpoints again. *)
From Coq Require Import List ZArith Bool Arith Lia.
Import ListNotations.
From Sodium Require Import Sodium.
Local Open Scope nat_scope.

(* ------------------------------------------------------------------ ev / emap *)

Lemma ebind_EV : forall {A B} (x : ev A) (k : A -> ev B) b,
    ebind x k = EV b -> exists a, x = EV a /\ k a = EV b.
Proof. intros A B x k b H. destruct x as [a|e]; [exists a; split; [reflexivity|exact H] | discriminate H]. Qed.

Lemma emap_cons : forall {A B} (f : A -> ev B) x t,
    emap f (x :: t) = elet y <- f x; elet ys <- emap f t; EV (y :: ys).
Proof. reflexivity. Qed.

Lemma emap_EV_iff : forall {A B} (f : A -> ev B) l ys,
    emap f l = EV ys <-> Forall2 (fun x y => f x = EV y) l ys.
Proof.
  intros A B f l. induction l as [|x t IH]; intros ys.
  - simpl. split.
    + intros H. injection H as <-. constructor.
    + intros H. inversion H. reflexivity.
  - rewrite emap_cons. split.
    + intros H. apply ebind_EV in H. destruct H as [y [Hy H]].
      apply ebind_EV in H. destruct H as [ys' [Hys H]]. injection H as <-.
      constructor; [exact Hy | apply IH; exact Hys].
    + intros H. inversion H as [|x0 y l0 ys' Hy Hys]; subst.
      rewrite Hy. apply IH in Hys. rewrite Hys. reflexivity.
Qed.

Lemma emap_ext_EV : forall {A B} (f g : A -> ev B) l ys,
    (forall x y, In x l -> f x = EV y -> g x = EV y) -> emap f l = EV ys -> emap g l = EV ys.
Proof.
  intros A B f g l. induction l as [|x t IH]; intros ys Hfg H.
  - exact H.
  - rewrite emap_cons in H |- *. apply ebind_EV in H. destruct H as [y [Hy H]].
    apply ebind_EV in H. destruct H as [ys' [Hys H]].
    rewrite (Hfg x y (or_introl eq_refl) Hy).
    rewrite (IH ys' (fun x0 y0 Hin => Hfg x0 y0 (or_intror Hin)) Hys). exact H.
Qed.

Lemma emap_ext : forall {A B} (f g : A -> ev B) l,
    (forall x, In x l -> f x = g x) -> emap f l = emap g l.
Proof.
  intros A B f g l. induction l as [|x t IH]; intros Hfg.
  - reflexivity.
  - rewrite !emap_cons. rewrite (Hfg x (or_introl eq_refl)).
    rewrite (IH (fun x0 Hin => Hfg x0 (or_intror Hin))). reflexivity.
Qed.

Lemma emap_In : forall {A B} (f : A -> ev B) l ys x,
    emap f l = EV ys -> In x l -> exists y, f x = EV y /\ In y ys.
Proof.
  intros A B f l ys x H. apply emap_EV_iff in H. induction H as [|x0 y l0 ys0 Hy Hr IH]; intros Hin.
  - destruct Hin.
  - destruct Hin as [<-|Hin].
    + exists y. split; [exact Hy | left; reflexivity].
    + destruct (IH Hin) as [y' [H1 H2]]. exists y'. split; [exact H1 | right; exact H2].
Qed.

Lemma emap_length : forall {A B} (f : A -> ev B) l ys, emap f l = EV ys -> length ys = length l.
Proof.
  intros A B f l ys H. apply emap_EV_iff in H. induction H; simpl; [reflexivity | f_equal; assumption].
Qed.

Lemma emap_map_EV : forall {A B} (f : A -> ev B) (g : A -> B) l,
    (forall x, In x l -> f x = EV (g x)) -> emap f l = EV (map g l).
Proof.
  intros A B f g l. induction l as [|x t IH]; intros H.
  - reflexivity.
  - rewrite emap_cons. rewrite (H x (or_introl eq_refl)).
    rewrite (IH (fun x0 Hin => H x0 (or_intror Hin))). reflexivity.
Qed.

(* ------------------------------------------------------------------ association lists *)

Lemma alookup_In : forall {A} (l : list (nat * A)) k v, alookup l k = Some v -> In (k, v) l.
Proof.
  intros A l k v. induction l as [|[k' v'] t IH]; simpl; intros H.
  - discriminate H.
  - destruct (Nat.eqb k k') eqn:E.
    + apply Nat.eqb_eq in E. injection H as <-. subst. left. reflexivity.
    + right. apply IH. exact H.
Qed.

Lemma alookup_None_notin : forall {A} (l : list (nat * A)) k, alookup l k = None -> ~ In k (map fst l).
Proof.
  intros A l k. induction l as [|[k' v'] t IH]; simpl; intros H.
  - intros [].
  - destruct (Nat.eqb k k') eqn:E; [discriminate H|].
    apply Nat.eqb_neq in E. intros [Hq|Hin]; [congruence | exact (IH H Hin)].
Qed.

Lemma alookup_notin_None : forall {A} (l : list (nat * A)) k, ~ In k (map fst l) -> alookup l k = None.
Proof.
  intros A l k. induction l as [|[k' v'] t IH]; simpl; intros H.
  - reflexivity.
  - destruct (Nat.eqb k k') eqn:E.
    + apply Nat.eqb_eq in E. exfalso. apply H. left. symmetry. exact E.
    + apply IH. intros Hin. apply H. right. exact Hin.
Qed.

Lemma alookup_filter_neq : forall {A} (l : list (nat * A)) k k',
    k <> k' -> alookup (filter (fun kv => negb (Nat.eqb (fst kv) k')) l) k = alookup l k.
Proof.
  intros A l k k' Hne. induction l as [|[k0 v0] t IH]; simpl.
  - reflexivity.
  - destruct (Nat.eqb k0 k') eqn:E0; simpl.
    + apply Nat.eqb_eq in E0. subst k0.
      destruct (Nat.eqb k k') eqn:E; [apply Nat.eqb_eq in E; congruence | exact IH].
    + rewrite IH. reflexivity.
Qed.

Lemma alookup_filter_eq : forall {A} (l : list (nat * A)) k,
    alookup (filter (fun kv => negb (Nat.eqb (fst kv) k)) l) k = None.
Proof.
  intros A l k. induction l as [|[k0 v0] t IH]; simpl.
  - reflexivity.
  - destruct (Nat.eqb k0 k) eqn:E0; simpl.
    + exact IH.
    + rewrite Nat.eqb_sym, E0. exact IH.
Qed.

Lemma alookup_aset_eq : forall {A} (l : list (nat * A)) k v, alookup (aset l k v) k = Some v.
Proof. intros A l k v. unfold aset. simpl. rewrite Nat.eqb_refl. reflexivity. Qed.

Lemma alookup_aset_neq : forall {A} (l : list (nat * A)) k k' v,
    k <> k' -> alookup (aset l k' v) k = alookup l k.
Proof.
  intros A l k k' v Hne. unfold aset. simpl.
  destruct (Nat.eqb k k') eqn:E; [apply Nat.eqb_eq in E; congruence|].
  apply alookup_filter_neq. exact Hne.
Qed.

Lemma amem_In : forall l k, amem l k = true <-> In k l.
Proof.
  intros l k. unfold amem. rewrite existsb_exists. split.
  - intros [x [Hin E]]. apply Nat.eqb_eq in E. subst. exact Hin.
  - intros Hin. exists k. split; [exact Hin | apply Nat.eqb_refl].
Qed.

(* ------------------------------------------------------------------ one-step unfolding *)

Lemma cur_0 : forall st c, cur st 0 c = EErr Illegal.
Proof. reflexivity. Qed.

Lemma cur_S : forall st f c,
    cur st (S f) c =
    match alookup (cvals st) c with
    | Some v => EV v
    | None =>
      elet d <- def_of st c;
      match d with
      | DHold _ =>
        match alookup (inits st) c with
        | Some v => EV v
        | None =>
          match alookup (linit st) c with
          | Some z => match alookup (lazies st) z with
                      | Some (LzVal v, _) => EV v
                      | Some (LzCell c', _) => cur st f c'
                      | None => EErr Illegal
                      end
          | None => EErr Illegal
          end
        end
      | DMapC c' g => elet v <- cur st f c'; EV (app1 g v)
      | DLift cs g => elet vs <- emap (cur st f) cs; EV (appN g vs)
      | DSwitchC c' => elet v <- cur st f c'; match v with VRef n => cur st f n | _ => EErr Illegal end
      | DCLoop => match alookup (loops st) c with Some t => cur st f t | None => EErr SampledBeforeLoop end
      | _ => EErr Illegal
      end
    end.
Proof. reflexivity. Qed.

Lemma occ_0 : forall st inj s, occ st inj 0 s = EErr Illegal.
Proof. reflexivity. Qed.
Lemma upd_0 : forall st inj s, upd st inj 0 s = EErr Illegal.
Proof. reflexivity. Qed.

Lemma occ_S : forall st inj f s,
    occ st inj (S f) s =
    elet d <- def_of st s;
    match d with
    | DSink co => EV (coalesce co (injected inj s))
    | DNever => EV None
    | DMap a g => elet o <- occ st inj f a; EV (option_map (app1 g) o)
    | DFilter a p => elet o <- occ st inj f a;
                     EV (match o with Some v => if appP p v then Some v else None | None => None end)
    | DMerge a b g =>
      elet x <- occ st inj f a; elet y <- occ st inj f b;
      EV (match x, y with
          | Some u, Some w => Some (app2 g u w)
          | Some u, None => Some u
          | None, Some w => Some w
          | None, None => None
          end)
    | DSnapshot a cs g =>
      elet o <- occ st inj f a;
      match o with
      | None => EV None
      | Some v => elet vs <- emap (cur st (F st)) cs; EV (Some (appN g (v :: vs)))
      end
    | DGate a c =>
      elet o <- occ st inj f a;
      match o with
      | None => EV None
      | Some v => elet b <- cur st (F st) c; EV (if truthy b then Some v else None)
      end
    | DOnce a => if amem (fired st) s then EV None else occ st inj f a
    | DUpdates c => upd st inj f c
    | DValue c =>
      elet u <- upd st inj f c;
      if amem (fresh st) s
      then match u with Some v => EV (Some v) | None => elet v <- cur st (F st) c; EV (Some v) end
      else EV u
    | DSwitchS c => elet v <- cur st (F st) c; match v with VRef n => occ st inj f n | _ => EErr Illegal end
    | DSLoop => match alookup (loops st) s with Some t => occ st inj f t | None => EV None end
    | DDefer _ | DSplit _ => EV (coalesce None (injected inj s))
    | DRouter a _ => occ st inj f a
    | DRoute r k =>
      elet dr <- def_of st r;
      match dr with
      | DRouter a sl =>
        elet o <- occ st inj f a;
        EV (match o with
            | Some v => if existsb (Z.eqb k) (app_sel sl v) then Some v else None
            | None => None
            end)
      | _ => EErr Illegal
      end
    | _ => EErr Illegal
    end.
Proof. reflexivity. Qed.

Lemma upd_S : forall st inj f c,
    upd st inj (S f) c =
    elet d <- def_of st c;
    match d with
    | DHold a => occ st inj f a
    | DConst => EV None
    | DMapC c' g => elet o <- upd st inj f c'; EV (option_map (app1 g) o)
    | DLift cs g =>
      elet us <- emap (upd st inj f) cs;
      if existsb (fun o => match o with Some _ => true | None => false end) us
      then elet vs <- emap (fun c' => elet o <- upd st inj f c';
                                      match o with Some v => EV v | None => cur st (F st) c' end) cs;
           EV (Some (appN g vs))
      else EV None
    | DSwitchC c' =>
      elet o <- upd st inj f c';
      match o with
      | Some (VRef n) =>
        elet u <- upd st inj f n;
        match u with Some v => EV (Some v) | None => elet v <- cur st (F st) n; EV (Some v) end
      | Some _ => EErr Illegal
      | None => elet v <- cur st (F st) c'; match v with VRef i => upd st inj f i | _ => EErr Illegal end
      end
    | DCLoop => match alookup (loops st) c with Some t => upd st inj f t | None => EV None end
    | _ => EErr Illegal
    end.
Proof. reflexivity. Qed.

Global Arguments cur : simpl never.
Global Arguments occ : simpl never.
Global Arguments upd : simpl never.
Global Arguments F : simpl never.

Lemma def_of_Some : forall st h d, alookup (defs st) h = Some d -> def_of st h = EV d.
Proof. intros st h d H. unfold def_of. rewrite H. reflexivity. Qed.

Lemma def_of_EV : forall st h d, def_of st h = EV d -> alookup (defs st) h = Some d.
Proof. intros st h d. unfold def_of. destruct (alookup (defs st) h); intros H; [injection H as <-; reflexivity | discriminate H]. Qed.

Lemma F_eq : forall st, F st = S (S (length (defs st))).
Proof. reflexivity. Qed.
