(* Facts about Model/Threads.v (property C20). *)
From Coq Require Import List ZArith Bool Arith.
Import ListNotations.
From Sodium Require Import Sodium Threads.
Open Scope Z_scope.

(* running a concatenation = running the parts one after the other: blocks that do not overlap cannot
   influence each other except through the state the earlier one leaves *)
Lemma run_ops_app st a b :
  run_ops st (a ++ b) =
  match run_ops st a with
  | Some (st1, o1) => match run_ops st1 b with
                      | Some (st2, o2) => Some (st2, o1 ++ o2)
                      | None => None
                      end
  | None => None
  end.
Proof.
  revert st. induction a as [|o a IH]; intros st; cbn [app run_ops].
  - destruct (run_ops st b) as [[st2 o2]|]; reflexivity.
  - destruct (step [] st o) as [[[st1 os] cs]|e]; [|reflexivity].
    rewrite IH. destruct (run_ops st1 a) as [[st2 o1]|]; [|reflexivity].
    destruct (run_ops st2 b) as [[st3 o2]|]; reflexivity.
Qed.

Fixpoint run_blocks (st : state) (blocks : list (list op)) : option (state * list (list obs)) :=
  match blocks with
  | [] => Some (st, [])
  | b :: bs =>
    match run_ops st b with
    | Some (st1, o1) => match run_blocks st1 bs with
                        | Some (st2, o2) => Some (st2, o1 ++ o2)
                        | None => None
                        end
    | None => None
    end
  end.

Lemma run_ops_concat blocks : forall st, run_ops st (concat blocks) = run_blocks st blocks.
Proof.
  induction blocks as [|b bs IH]; intros st; cbn [concat run_blocks]; [reflexivity|].
  rewrite run_ops_app. destruct (run_ops st b) as [[st1 o1]|]; [|reflexivity].
  rewrite IH. reflexivity.
Qed.

(* the schedule with overlapping brackets: A's close delivers nothing, B's close delivers one merged
   event to the listener of the merge *)
Lemma overlap_calls :
  run_schedule overlap =
  Some [[]; []; []; []; []; [BCall 0 (VInt 101); BCall 1 (VInt 1); BCall 2 (VInt 100)]].
Proof. vm_compute. reflexivity. Qed.

Lemma serial_ab_calls :
  run_schedule serial_ab =
  Some [[]; []; [BCall 0 (VInt 1); BCall 1 (VInt 1)]; []; []; [BCall 0 (VInt 100); BCall 2 (VInt 100)]].
Proof. vm_compute. reflexivity. Qed.

Lemma serial_ba_calls :
  run_schedule serial_ba =
  Some [[]; []; [BCall 0 (VInt 100); BCall 2 (VInt 100)]; []; []; [BCall 0 (VInt 1); BCall 1 (VInt 1)]].
Proof. vm_compute. reflexivity. Qed.

(* number of calls a listener received *)
Definition ncalls (l : nat) (os : list obs) : nat :=
  length (filter (fun o => match o with BCall l' _ => Nat.eqb l l' | _ => false end) os).

Lemma overlap_not_serialisable :
  exists c_ov c_ab c_ba,
    calls_of overlap = Some c_ov /\ calls_of serial_ab = Some c_ab /\ calls_of serial_ba = Some c_ba /\
    ncalls 0 c_ov = 1%nat /\ ncalls 0 c_ab = 2%nat /\ ncalls 0 c_ba = 2%nat /\
    In (BCall 0 (VInt 101)) c_ov /\ ~ In (BCall 0 (VInt 101)) c_ab /\ ~ In (BCall 0 (VInt 101)) c_ba.
Proof.
  eexists. eexists. eexists.
  split; [vm_compute; reflexivity|]. split; [vm_compute; reflexivity|]. split; [vm_compute; reflexivity|].
  split; [reflexivity|]. split; [reflexivity|]. split; [reflexivity|].
  split; [simpl; auto|].
  split; intros H; simpl in H; repeat (destruct H as [H|H]; [discriminate|]); exact H.
Qed.

(* ---- a bracket handed to another thread ----
   Which thread opens or closes a bracket is irrelevant: re-labelling the thread of any bracket step leaves the whole
   execution unchanged. A scoped transaction opened by one thread and closed by the other (the opener waiting
   meanwhile) therefore behaves exactly like the same transaction run by one thread. *)
Definition relabel_bracket (flip : bool) (bt : bool * tstep) : bool * tstep :=
  match snd bt with
  | TBegin | TEnd => (xorb flip (fst bt), snd bt)
  | TSend _ => bt
  end.

Lemma op_of_relabel flip bt :
  op_of (fst (relabel_bracket flip bt)) (snd (relabel_bracket flip bt)) = op_of (fst bt) (snd bt).
Proof. destruct bt as [b t]; destruct t; reflexivity. Qed.

Lemma run_schedule_relabel (flips : list bool) (s : schedule) :
  length flips = length s ->
  run_schedule (map (fun p => relabel_bracket (fst p) (snd p)) (combine flips s)) = run_schedule s.
Proof.
  intros Hlen. unfold run_schedule.
  assert (E : map (fun bt => op_of (fst bt) (snd bt))
                  (map (fun p => relabel_bracket (fst p) (snd p)) (combine flips s))
              = map (fun bt => op_of (fst bt) (snd bt)) s).
  { revert s Hlen. induction flips as [|f fs IH]; intros [|bt s] Hlen; simpl in *; try discriminate; auto.
    rewrite op_of_relabel. f_equal. apply IH. congruence. }
  rewrite E. reflexivity.
Qed.

(* the witness the schedule replay uses: thread A opens, A sends, thread B closes *)
Definition handoff : schedule := [(false, TBegin); (false, TSend 7); (true, TEnd)].
Lemma handoff_calls :
  run_schedule handoff = Some [[]; []; [BCall 0 (VInt 7); BCall 1 (VInt 7)]].
Proof. vm_compute. reflexivity. Qed.
