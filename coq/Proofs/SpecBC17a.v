(* Property C17, part A: an operational model of /repo/src/impl_/lazy.rs.

   Lazy<A> = Arc<Mutex<LazyData<A>>>, LazyData = Thunk(Box<dyn FnMut() -> A>) | Value(A).
   - [Lazy::new thunk]   allocates a fresh shared cell holding  Thunk thunk      (op LNew)
   - [Lazy::of_value v]  allocates a fresh shared cell holding  Value v          (op LOfValue)
   - [clone]             copies the Arc: a NEW handle to the SAME cell           (op LClone)
   - [run]               locks the cell; Thunk k => result = k(), cell := Value result;
                         Value x => result = x                                    (op LRun)
   The closure is FnMut and may read (and write) arbitrary mutable state: thunk evaluation is
   [eval k e : V * env], it depends on the environment at the moment it runs and may change it; the
   environment may also change arbitrarily between two operations (op LEnv).

   The machine is instrumented with three ghost logs: [evals] (heap cell, value) of every thunk
   evaluation, [ofvals] (heap cell, value) of every of_value allocation, [outs] (handle, heap cell,
   value) of every [run].

   Proved for ANY interleaving of the five operations (any list of operations from the empty machine,
   and more generally from any state satisfying the invariant):
   - every heap cell's thunk is evaluated at most once,
   - all runs of handles of one heap cell return the same value, namely the value logged by the one
     thunk evaluation of that cell or the value given to of_value,
   - once a run of a handle returned v, every later run of every handle of the same cell (clones
     made before or after) returns v, whatever happened to the environment in between,
   - nothing but the first run of a Thunk cell evaluates a thunk, and it does so in the environment
     of that moment.
   Not modelled: a thunk that re-enters [run] on its own Lazy (the parking_lot mutex is not
   re-entrant: the implementation deadlocks), panics inside the thunk. *)
From Coq Require Import List Arith Lia.
Import ListNotations.

Fixpoint set_nth {A} (l : list A) (n : nat) (x : A) : list A :=
  match l, n with
  | [], _ => []
  | _ :: t, O => x :: t
  | y :: t, S n' => y :: set_nth t n' x
  end.

Lemma set_nth_length : forall {A} (l : list A) n x, length (set_nth l n x) = length l.
Proof.
  intros A l. induction l as [|y t IH]; intros n x; [reflexivity|].
  destruct n; simpl; [reflexivity | rewrite IH; reflexivity].
Qed.

Lemma set_nth_eq : forall {A} (l : list A) n x, n < length l -> nth_error (set_nth l n x) n = Some x.
Proof.
  intros A l. induction l as [|y t IH]; intros n x Hn; simpl in Hn; [lia|].
  destruct n; simpl; [reflexivity | apply IH; lia].
Qed.

Lemma set_nth_neq : forall {A} (l : list A) n m x, n <> m -> nth_error (set_nth l n x) m = nth_error l m.
Proof.
  intros A l. induction l as [|y t IH]; intros n m x Hne; [reflexivity|].
  destruct n, m; simpl; try reflexivity; [congruence | apply IH; congruence].
Qed.

Lemma nth_error_snoc_old : forall {A} (l : list A) x n y, nth_error l n = Some y -> nth_error (l ++ [x]) n = Some y.
Proof.
  intros A l x n y H. rewrite nth_error_app1; [exact H|]. apply nth_error_Some. congruence.
Qed.

Lemma nth_error_snoc_new : forall {A} (l : list A) x, nth_error (l ++ [x]) (length l) = Some x.
Proof. intros A l x. rewrite nth_error_app2; [|lia]. rewrite Nat.sub_diag. reflexivity. Qed.

Lemma nth_error_snoc_inv : forall {A} (l : list A) x n y,
    nth_error (l ++ [x]) n = Some y -> nth_error l n = Some y \/ (n = length l /\ y = x).
Proof.
  intros A l x n y H. destruct (Nat.lt_ge_cases n (length l)) as [Hlt|Hge].
  - left. rewrite nth_error_app1 in H; assumption.
  - right. rewrite nth_error_app2 in H; [|exact Hge].
    destruct (n - length l) as [|k] eqn:E.
    + simpl in H. injection H as <-. split; [lia | reflexivity].
    + simpl in H. destruct k; discriminate H.
Qed.

Section LazyMachine.
  Variables (code env V : Type).
  (* running a thunk: reads the environment of that moment, may change it *)
  Variable eval : code -> env -> V * env.

  Inductive lcell := Thunk (k : code) | Value (v : V).

  Record mstate := mkM {
    heap : list lcell;               (* the Arc<Mutex<LazyData>> cells; a cell's address is its index *)
    handles : list nat;              (* the Lazy<A> values in existence: handle -> heap cell *)
    menv : env;
    evals : list (nat * V);          (* ghost: thunk evaluations (heap cell, result), newest first *)
    ofvals : list (nat * V);         (* ghost: of_value allocations *)
    outs : list (nat * nat * V)      (* ghost: results of run (handle, heap cell, value), newest first *)
  }.

  Inductive lop := LNew (k : code) | LOfValue (v : V) | LClone (h : nat) | LRun (h : nat) | LEnv (e : env).

  Definition lstep (s : mstate) (o : lop) : mstate * option V :=
    match o with
    | LNew k =>
      (mkM (heap s ++ [Thunk k]) (handles s ++ [length (heap s)]) (menv s) (evals s) (ofvals s) (outs s), None)
    | LOfValue v =>
      (mkM (heap s ++ [Value v]) (handles s ++ [length (heap s)]) (menv s) (evals s)
           ((length (heap s), v) :: ofvals s) (outs s), None)
    | LClone h =>
      match nth_error (handles s) h with
      | Some l => (mkM (heap s) (handles s ++ [l]) (menv s) (evals s) (ofvals s) (outs s), None)
      | None => (s, None)
      end
    | LRun h =>
      match nth_error (handles s) h with
      | None => (s, None)
      | Some l =>
        match nth_error (heap s) l with
        | None => (s, None)
        | Some (Value v) =>
          (mkM (heap s) (handles s) (menv s) (evals s) (ofvals s) ((h, l, v) :: outs s), Some v)
        | Some (Thunk k) =>
          let r := eval k (menv s) in
          (mkM (set_nth (heap s) l (Value (fst r))) (handles s) (snd r) ((l, fst r) :: evals s) (ofvals s)
               ((h, l, fst r) :: outs s), Some (fst r))
        end
      end
    | LEnv e => (mkM (heap s) (handles s) e (evals s) (ofvals s) (outs s), None)
    end.

  Definition exec (s : mstate) (ops : list lop) : mstate := fold_left (fun s o => fst (lstep s o)) ops s.

  Definition minit (e : env) : mstate := mkM [] [] e [] [] [].

  Lemma exec_cons : forall s o ops, exec s (o :: ops) = exec (fst (lstep s o)) ops.
  Proof. reflexivity. Qed.

  Lemma exec_app : forall s a b, exec s (a ++ b) = exec (exec s a) b.
  Proof. intros s a b. unfold exec. apply fold_left_app. Qed.

  (* ---------------------------------------------------------------- monotonicity, no invariant needed *)

  (* a Value cell is never written again *)
  Lemma lstep_value_mono : forall s o l v,
      nth_error (heap s) l = Some (Value v) -> nth_error (heap (fst (lstep s o))) l = Some (Value v).
  Proof.
    intros s o l v H. destruct o as [k|w|h|h|e]; simpl.
    - apply nth_error_snoc_old. exact H.
    - apply nth_error_snoc_old. exact H.
    - destruct (nth_error (handles s) h); exact H.
    - destruct (nth_error (handles s) h) as [l'|]; [|exact H].
      destruct (nth_error (heap s) l') as [[k|w]|] eqn:E; simpl; try exact H.
      rewrite set_nth_neq; [exact H|]. intros ->. rewrite H in E. discriminate E.
    - exact H.
  Qed.

  Lemma exec_value_mono : forall ops s l v,
      nth_error (heap s) l = Some (Value v) -> nth_error (heap (exec s ops)) l = Some (Value v).
  Proof.
    induction ops as [|o t IH]; intros s l v H; [exact H|].
    rewrite exec_cons. apply IH. apply lstep_value_mono. exact H.
  Qed.

  (* a handle keeps pointing to its heap cell *)
  Lemma lstep_handle_mono : forall s o h l,
      nth_error (handles s) h = Some l -> nth_error (handles (fst (lstep s o))) h = Some l.
  Proof.
    intros s o h l H. destruct o as [k|w|h'|h'|e]; simpl.
    - apply nth_error_snoc_old. exact H.
    - apply nth_error_snoc_old. exact H.
    - destruct (nth_error (handles s) h'); [apply nth_error_snoc_old|]; exact H.
    - destruct (nth_error (handles s) h') as [l'|]; [|exact H].
      destruct (nth_error (heap s) l') as [[k|w]|]; exact H.
    - exact H.
  Qed.

  Lemma exec_handle_mono : forall ops s h l,
      nth_error (handles s) h = Some l -> nth_error (handles (exec s ops)) h = Some l.
  Proof.
    induction ops as [|o t IH]; intros s h l H; [exact H|].
    rewrite exec_cons. apply IH. apply lstep_handle_mono. exact H.
  Qed.

  (* ---------------------------------------------------------------- what run does *)

  Lemma run_of_value_cell : forall s h l v,
      nth_error (handles s) h = Some l -> nth_error (heap s) l = Some (Value v) ->
      lstep s (LRun h) = (mkM (heap s) (handles s) (menv s) (evals s) (ofvals s) ((h, l, v) :: outs s), Some v).
  Proof. intros s h l v Hh Hl. simpl. rewrite Hh, Hl. reflexivity. Qed.

  (* the first demand evaluates the thunk in the environment of that moment and stores the result *)
  Lemma run_of_thunk_cell : forall s h l k,
      nth_error (handles s) h = Some l -> nth_error (heap s) l = Some (Thunk k) ->
      lstep s (LRun h) =
      (mkM (set_nth (heap s) l (Value (fst (eval k (menv s))))) (handles s) (snd (eval k (menv s)))
           ((l, fst (eval k (menv s))) :: evals s) (ofvals s) ((h, l, fst (eval k (menv s))) :: outs s),
       Some (fst (eval k (menv s)))).
  Proof. intros s h l k Hh Hl. simpl. rewrite Hh, Hl. reflexivity. Qed.

  (* after a run that returned v, the cell holds Value v *)
  Lemma run_stores : forall s h l v s1,
      nth_error (handles s) h = Some l -> lstep s (LRun h) = (s1, Some v) ->
      nth_error (heap s1) l = Some (Value v).
  Proof.
    intros s h l v s1 Hh H. simpl in H. rewrite Hh in H.
    destruct (nth_error (heap s) l) as [[k|w]|] eqn:E.
    - injection H as <- <-. simpl. apply set_nth_eq. apply nth_error_Some. congruence.
    - injection H as <- <-. exact E.
    - discriminate H.
  Qed.

  (* only a run evaluates thunks: new / of_value / clone / environment changes do not (laziness) *)
  Lemma no_eval_unless_run : forall s o, (forall h, o <> LRun h) -> evals (fst (lstep s o)) = evals s.
  Proof.
    intros s o Hn. destruct o as [k|w|h|h|e]; simpl; try reflexivity.
    - destruct (nth_error (handles s) h); reflexivity.
    - exfalso. exact (Hn h eq_refl).
  Qed.

  (* a run of a Value cell evaluates nothing and leaves heap and environment alone *)
  Lemma run_value_no_eval : forall s h l v,
      nth_error (handles s) h = Some l -> nth_error (heap s) l = Some (Value v) ->
      evals (fst (lstep s (LRun h))) = evals s /\ heap (fst (lstep s (LRun h))) = heap s /\
      menv (fst (lstep s (LRun h))) = menv s.
  Proof. intros s h l v Hh Hl. rewrite (run_of_value_cell _ _ _ _ Hh Hl). simpl. repeat split. Qed.

  (* ---------------------------------------------------------------- the invariant *)

  Record Inv (s : mstate) : Prop := mkInv {
    inv_nodup : NoDup (map fst (evals s));
    inv_evals : forall l v, In (l, v) (evals s) -> nth_error (heap s) l = Some (Value v);
    inv_ofvals : forall l v, In (l, v) (ofvals s) -> nth_error (heap s) l = Some (Value v);
    inv_excl : forall l v, In (l, v) (ofvals s) -> ~ In l (map fst (evals s));
    inv_outs : forall h l v, In (h, l, v) (outs s) -> nth_error (heap s) l = Some (Value v);
    inv_src : forall l v, nth_error (heap s) l = Some (Value v) -> In (l, v) (evals s) \/ In (l, v) (ofvals s);
    inv_handles : forall h l, nth_error (handles s) h = Some l -> l < length (heap s)
  }.

  Lemma Inv_init : forall e, Inv (minit e).
  Proof.
    intros e. constructor; simpl.
    - constructor.
    - intros l v [].
    - intros l v [].
    - intros l v [].
    - intros h l v [].
    - intros l v H. destruct l; discriminate H.
    - intros h l H. destruct h; discriminate H.
  Qed.

  Lemma in_map_fst : forall {A B} (l : list (A * B)) a, In a (map fst l) -> exists b, In (a, b) l.
  Proof.
    intros A B l a H. apply in_map_iff in H. destruct H as [[a' b] [E Hin]]. simpl in E. subst a'.
    exists b. exact Hin.
  Qed.

  Lemma lstep_Inv : forall s o, Inv s -> Inv (fst (lstep s o)).
  Proof.
    intros s o [Hnd Hev Hof Hex Hout Hsrc Hhd].
    assert (Hfresh : forall v, ~ In (length (heap s), v) (evals s)).
    { intros v Hin. apply Hev in Hin. assert (length (heap s) < length (heap s)); [|lia].
      apply nth_error_Some. congruence. }
    assert (Hfresh2 : forall v, ~ In (length (heap s), v) (ofvals s)).
    { intros v Hin. apply Hof in Hin. assert (length (heap s) < length (heap s)); [|lia].
      apply nth_error_Some. congruence. }
    destruct o as [k|w|h|h|e].
    - (* LNew *) constructor; simpl.
      + exact Hnd.
      + intros l v Hin. apply nth_error_snoc_old. exact (Hev l v Hin).
      + intros l v Hin. apply nth_error_snoc_old. exact (Hof l v Hin).
      + exact Hex.
      + intros h l v Hin. apply nth_error_snoc_old. exact (Hout h l v Hin).
      + intros l v H. apply nth_error_snoc_inv in H. destruct H as [H|[_ H]]; [exact (Hsrc l v H) | discriminate H].
      + intros h l H. rewrite app_length. simpl. apply nth_error_snoc_inv in H.
        destruct H as [H|[_ ->]]; [apply Hhd in H; lia | lia].
    - (* LOfValue *) constructor; simpl.
      + exact Hnd.
      + intros l v Hin. apply nth_error_snoc_old. exact (Hev l v Hin).
      + intros l v [Hq|Hin].
        * injection Hq as <- <-. apply nth_error_snoc_new.
        * apply nth_error_snoc_old. exact (Hof l v Hin).
      + intros l v [Hq|Hin].
        * injection Hq as <- <-. intros Hin. apply in_map_fst in Hin. destruct Hin as [v' Hin].
          exact (Hfresh v' Hin).
        * exact (Hex l v Hin).
      + intros h l v Hin. apply nth_error_snoc_old. exact (Hout h l v Hin).
      + intros l v H. apply nth_error_snoc_inv in H. destruct H as [H|[-> H]].
        * destruct (Hsrc l v H) as [G|G]; [left; exact G | right; right; exact G].
        * injection H as <-. right. left. reflexivity.
      + intros h l H. rewrite app_length. simpl. apply nth_error_snoc_inv in H.
        destruct H as [H|[_ ->]]; [apply Hhd in H; lia | lia].
    - (* LClone *) simpl. destruct (nth_error (handles s) h) as [l0|] eqn:Eh; simpl.
      + constructor; simpl; try assumption.
        intros h' l H. apply nth_error_snoc_inv in H. destruct H as [H|[_ ->]]; [exact (Hhd h' l H) | exact (Hhd h l0 Eh)].
      + constructor; assumption.
    - (* LRun *) simpl. destruct (nth_error (handles s) h) as [l0|] eqn:Eh; [|constructor; assumption].
      destruct (nth_error (heap s) l0) as [[k|w]|] eqn:El; [| |constructor; assumption].
      + (* first demand *)
        set (r := eval k (menv s)).
        assert (Hlt : l0 < length (heap s)) by (apply nth_error_Some; congruence).
        assert (Hnot : ~ In l0 (map fst (evals s))).
        { intros Hin. apply in_map_fst in Hin. destruct Hin as [v' Hin]. apply Hev in Hin. congruence. }
        assert (Hkeep : forall l v, nth_error (heap s) l = Some (Value v) ->
                                    nth_error (set_nth (heap s) l0 (Value (fst r))) l = Some (Value v)).
        { intros l v H. rewrite set_nth_neq; [exact H|]. intros ->. congruence. }
        constructor; simpl.
        * constructor; assumption.
        * intros l v [Hq|Hin].
          -- injection Hq as <- <-. apply set_nth_eq. exact Hlt.
          -- apply Hkeep. exact (Hev l v Hin).
        * intros l v Hin. apply Hkeep. exact (Hof l v Hin).
        * intros l v Hin [Hq|Hin2].
          -- subst l0. apply Hof in Hin. congruence.
          -- exact (Hex l v Hin Hin2).
        * intros h' l v [Hq|Hin].
          -- injection Hq as <- <- <-. apply set_nth_eq. exact Hlt.
          -- apply Hkeep. exact (Hout h' l v Hin).
        * intros l v H. destruct (Nat.eq_dec l0 l) as [<-|Hne].
          -- rewrite set_nth_eq in H; [|exact Hlt]. injection H as <-. left. left. reflexivity.
          -- rewrite set_nth_neq in H; [|exact Hne]. destruct (Hsrc l v H) as [G|G]; [left; right; exact G | right; exact G].
        * intros h' l H. rewrite set_nth_length. exact (Hhd h' l H).
      + (* already a value *)
        constructor; simpl; try assumption.
        intros h' l v [Hq|Hin]; [injection Hq as <- <- <-; exact El | exact (Hout h' l v Hin)].
    - (* LEnv *) constructor; assumption.
  Qed.

  Lemma exec_Inv : forall ops s, Inv s -> Inv (exec s ops).
  Proof.
    induction ops as [|o t IH]; intros s H; [exact H|].
    rewrite exec_cons. apply IH. apply lstep_Inv. exact H.
  Qed.

  Definition reachable (s : mstate) : Prop := exists e ops, s = exec (minit e) ops.

  Lemma reachable_Inv : forall s, reachable s -> Inv s.
  Proof. intros s [e [ops ->]]. apply exec_Inv. apply Inv_init. Qed.

  (* ---------------------------------------------------------------- the results *)

  (* (1) at most one thunk evaluation per heap cell, for any interleaving *)
  Theorem lazy_eval_at_most_once : forall e ops, NoDup (map fst (evals (exec (minit e) ops))).
  Proof. intros e ops. exact (inv_nodup _ (exec_Inv ops _ (Inv_init e))). Qed.

  Theorem lazy_eval_count_le_1 : forall e ops l,
      count_occ Nat.eq_dec (map fst (evals (exec (minit e) ops))) l <= 1.
  Proof. intros e ops l. apply (proj1 (NoDup_count_occ Nat.eq_dec _)). apply lazy_eval_at_most_once. Qed.

  (* (2) all runs of (handles of) one heap cell return the same value *)
  Theorem lazy_runs_agree : forall e ops h1 h2 l v1 v2,
      In (h1, l, v1) (outs (exec (minit e) ops)) -> In (h2, l, v2) (outs (exec (minit e) ops)) -> v1 = v2.
  Proof.
    intros e ops h1 h2 l v1 v2 H1 H2.
    pose proof (exec_Inv ops _ (Inv_init e)) as I.
    apply (inv_outs _ I) in H1. apply (inv_outs _ I) in H2. congruence.
  Qed.

  (* ... namely the value of the cell's one thunk evaluation, or the value given to of_value *)
  Theorem lazy_run_source : forall e ops h l v,
      In (h, l, v) (outs (exec (minit e) ops)) ->
      (In (l, v) (evals (exec (minit e) ops)) /\ ~ In l (map fst (ofvals (exec (minit e) ops)))) \/
      (In (l, v) (ofvals (exec (minit e) ops)) /\ ~ In l (map fst (evals (exec (minit e) ops)))).
  Proof.
    intros e ops h l v H. pose proof (exec_Inv ops _ (Inv_init e)) as I.
    apply (inv_outs _ I) in H. destruct (inv_src _ I l v H) as [G|G].
    - left. split; [exact G|]. intros Hin. apply in_map_fst in Hin. destruct Hin as [v' Hin].
      apply (inv_excl _ I l v' Hin). apply in_map_iff. exists (l, v). split; [reflexivity | exact G].
    - right. split; [exact G | exact (inv_excl _ I l v G)].
  Qed.

  (* the logged evaluation of a cell is unique, value included *)
  Theorem lazy_eval_unique : forall e ops l v1 v2,
      In (l, v1) (evals (exec (minit e) ops)) -> In (l, v2) (evals (exec (minit e) ops)) -> v1 = v2.
  Proof.
    intros e ops l v1 v2 H1 H2. pose proof (exec_Inv ops _ (Inv_init e)) as I.
    apply (inv_evals _ I) in H1. apply (inv_evals _ I) in H2. congruence.
  Qed.

  (* (3) once a run returned v, every later run of every handle of the same cell returns v, whatever
     operations (environment changes, clones, other lazies, other runs) happen in between: from ANY
     machine state, no invariant needed *)
  Theorem lazy_run_stable : forall s h l v s1 ops h',
      nth_error (handles s) h = Some l -> lstep s (LRun h) = (s1, Some v) ->
      nth_error (handles (exec s1 ops)) h' = Some l ->
      snd (lstep (exec s1 ops) (LRun h')) = Some v /\
      evals (fst (lstep (exec s1 ops) (LRun h'))) = evals (exec s1 ops).
  Proof.
    intros s h l v s1 ops h' Hh H Hh'.
    pose proof (run_stores _ _ _ _ _ Hh H) as Hv.
    pose proof (exec_value_mono ops _ _ _ Hv) as Hv2.
    rewrite (run_of_value_cell _ _ _ _ Hh' Hv2). split; reflexivity.
  Qed.

  (* a clone is a handle of the same heap cell *)
  Theorem lazy_clone_same_cell : forall s h l,
      nth_error (handles s) h = Some l ->
      nth_error (handles (fst (lstep s (LClone h)))) (length (handles s)) = Some l /\
      heap (fst (lstep s (LClone h))) = heap s /\ evals (fst (lstep s (LClone h))) = evals s.
  Proof.
    intros s h l Hh. simpl. rewrite Hh. simpl. split; [apply nth_error_snoc_new | split; reflexivity].
  Qed.

  (* hence: run, clone (before or after, in any order with anything else), run the clone: same value *)
  Corollary lazy_clone_run_same : forall s h l v s1 ops1 ops2,
      nth_error (handles s) h = Some l -> lstep s (LRun h) = (s1, Some v) ->
      let s2 := exec s1 ops1 in
      let c := length (handles s2) in
      let s3 := exec (fst (lstep s2 (LClone h))) ops2 in
      snd (lstep s3 (LRun c)) = Some v /\ snd (lstep s3 (LRun h)) = Some v.
  Proof.
    intros s h l v s1 ops1 ops2 Hh H s2 c s3.
    assert (Hh1 : nth_error (handles s1) h = Some l).
    { replace s1 with (fst (lstep s (LRun h))) by (rewrite H; reflexivity). apply lstep_handle_mono. exact Hh. }
    assert (Hh2 : nth_error (handles s2) h = Some l) by (apply exec_handle_mono; exact Hh1).
    destruct (lazy_clone_same_cell s2 h l Hh2) as [Hc _].
    assert (E : s3 = exec s1 (ops1 ++ LClone h :: ops2)).
    { unfold s3, s2. rewrite exec_app, exec_cons. reflexivity. }
    split.
    - rewrite E. apply (lazy_run_stable s h l v s1 _ c Hh H). rewrite <- E.
      unfold s3. apply exec_handle_mono. exact Hc.
    - rewrite E. apply (lazy_run_stable s h l v s1 _ h Hh H). rewrite <- E.
      unfold s3. apply exec_handle_mono. apply lstep_handle_mono. exact Hh2.
  Qed.

  (* in a reachable state every handle can be run, and what it returns is decided by its cell alone *)
  Theorem lazy_run_defined : forall s h l,
      Inv s -> nth_error (handles s) h = Some l ->
      exists v, snd (lstep s (LRun h)) = Some v /\
                match nth_error (heap s) l with
                | Some (Value w) => v = w
                | Some (Thunk k) => v = fst (eval k (menv s))
                | None => False
                end.
  Proof.
    intros s h l I Hh. pose proof (inv_handles _ I h l Hh) as Hlt.
    destruct (nth_error (heap s) l) as [[k|w]|] eqn:E.
    - exists (fst (eval k (menv s))). rewrite (run_of_thunk_cell _ _ _ _ Hh E). split; reflexivity.
    - exists w. rewrite (run_of_value_cell _ _ _ _ Hh E). split; reflexivity.
    - exfalso. apply nth_error_None in E. lia.
  Qed.
End LazyMachine.

Arguments Thunk {code V} k.
Arguments Value {code V} v.
Arguments mkM {code env V} heap handles menv evals ofvals outs.
Arguments heap {code env V} m.
Arguments handles {code env V} m.
Arguments menv {code env V} m.
Arguments evals {code env V} m.
Arguments ofvals {code env V} m.
Arguments outs {code env V} m.
Arguments LNew {code env V} k.
Arguments LOfValue {code env V} v.
Arguments LClone {code env V} h.
Arguments LRun {code env V} h.
Arguments LEnv {code env V} e.
Arguments lstep {code env V} eval s o.
Arguments exec {code env V} eval s ops.
Arguments minit {code env V} e.
Arguments Inv {code env V} s.
Arguments reachable {code env V} eval s.

(* a concrete run: the thunk reads the environment (a counter); the environment changes before and
   after the first run; the clone (handle 1) and the original (handle 0) return what the first run
   computed; exactly one evaluation is logged *)
Definition lazy_demo : mstate unit nat nat :=
  exec (fun (_ : unit) (e : nat) => (e * 10, S e)) (minit 1)
       [LNew tt; LClone 0; LEnv 4; LRun 1; LEnv 7; LRun 0; LRun 1; LOfValue 3; LRun 2].

Lemma lazy_demo_result :
  outs lazy_demo = [(2, 1, 3); (1, 0, 40); (0, 0, 40); (1, 0, 40)] /\ evals lazy_demo = [(0, 40)] /\
  menv lazy_demo = 7.
Proof. vm_compute. repeat split. Qed.
