(* Base lemmas about the executable specification Spec/Sodium.v: the error monad, association lists,
   record projections of the operations, the anatomy of [close_txn], [run_deferred], [leave], [step]. *)
From Coq Require Import List ZArith Bool Arith Lia Permutation.
Import ListNotations.
From Sodium Require Import Sodium.
Open Scope nat_scope.

(* ------------------------------------------------------------------ projections *)

Ltac prj := cbn [defs cvals inits linit fired fresh loops listeners depth tdone sends posts lazies
                 r_state r_obs r_deferred fst snd with_defs set_depth].
Ltac prj_in H := cbn [defs cvals inits linit fired fresh loops listeners depth tdone sends posts lazies
                      r_state r_obs r_deferred fst snd with_defs set_depth] in H.

Lemma state_eta : forall st,
    mkState (defs st) (cvals st) (inits st) (linit st) (fired st) (fresh st) (loops st) (listeners st)
            (depth st) (tdone st) (sends st) (posts st) (lazies st) = st.
Proof. intros []; reflexivity. Qed.

Lemma set_depth_same : forall st, set_depth st (depth st) = st.
Proof. intros []; reflexivity. Qed.

Lemma set_depth_set_depth : forall st n m, set_depth (set_depth st n) m = set_depth st m.
Proof. intros; reflexivity. Qed.

(* ------------------------------------------------------------------ the error monad *)

Lemma ebind_EV : forall A B (x : ev A) (k : A -> ev B) y,
    ebind x k = EV y -> exists a, x = EV a /\ k a = EV y.
Proof. intros A B [a|e] k y H; cbn in H; [eauto | discriminate]. Qed.

Lemma ebind_EV_l : forall A B (a : A) (k : A -> ev B), ebind (EV a) k = k a.
Proof. reflexivity. Qed.

(* destruct the head of a chain of binds in hypothesis H *)
Ltac ebind_inv H a E :=
  match type of H with
  | ebind ?x _ = EV _ =>
    let H' := fresh in
    destruct (ebind_EV _ _ _ _ _ H) as [a [E H']]; clear H; rename H' into H
  end.

Lemma emap_Forall2 : forall A B (f : A -> ev B) l ys,
    emap f l = EV ys -> Forall2 (fun x y => f x = EV y) l ys.
Proof.
  induction l as [|x t IH]; intros ys H; cbn in H.
  - injection H as <-. constructor.
  - ebind_inv H y Ey. ebind_inv H ys' Eys. injection H as <-.
    constructor; auto.
Qed.

Lemma Forall2_emap : forall A B (f : A -> ev B) l ys,
    Forall2 (fun x y => f x = EV y) l ys -> emap f l = EV ys.
Proof.
  induction 1 as [|x y l ys Hxy HF IH]; cbn; [reflexivity|].
  rewrite Hxy; cbn. rewrite IH; reflexivity.
Qed.

Lemma emap_ext : forall A B (f g : A -> ev B) l,
    (forall x, In x l -> f x = g x) -> emap f l = emap g l.
Proof.
  induction l as [|x t IH]; intros H; cbn; [reflexivity|].
  rewrite (H x (or_introl eq_refl)). rewrite IH; [reflexivity|].
  intros y Hy; apply H; right; exact Hy.
Qed.

Lemma emap_length : forall A B (f : A -> ev B) l ys, emap f l = EV ys -> length ys = length l.
Proof.
  intros A B f l ys H. apply emap_Forall2 in H.
  induction H; cbn; congruence.
Qed.

Lemma emap_app : forall A B (f : A -> ev B) l1 l2 ys,
    emap f (l1 ++ l2) = EV ys ->
    exists y1 y2, emap f l1 = EV y1 /\ emap f l2 = EV y2 /\ ys = y1 ++ y2.
Proof.
  induction l1 as [|x t IH]; intros l2 ys H; cbn in H.
  - exists [], ys; auto.
  - ebind_inv H y Ey. ebind_inv H ys' Eys. injection H as <-.
    destruct (IH _ _ Eys) as [y1 [y2 [E1 [E2 ->]]]].
    exists (y :: y1), y2; cbn. rewrite Ey; cbn. rewrite E1; cbn. auto.
Qed.

(* ------------------------------------------------------------------ association lists *)

Definition keys {A} (l : list (nat * A)) : list nat := map fst l.

Lemma alookup_In : forall A (l : list (nat * A)) k v, alookup l k = Some v -> In (k, v) l.
Proof.
  induction l as [|[k' v'] t IH]; intros k v H; cbn in H; [discriminate|].
  destruct (Nat.eqb k k') eqn:E.
  - apply Nat.eqb_eq in E; subst. injection H as <-. left; reflexivity.
  - right; auto.
Qed.

Lemma alookup_None : forall A (l : list (nat * A)) k, alookup l k = None <-> ~ In k (keys l).
Proof.
  induction l as [|[k' v'] t IH]; intros k; cbn; [tauto|].
  destruct (Nat.eqb k k') eqn:E.
  - apply Nat.eqb_eq in E; subst. split; [discriminate | intros H; exfalso; apply H; auto].
  - apply Nat.eqb_neq in E. rewrite IH. unfold keys. split; intros H; [intros [?|?]; [congruence|tauto] | tauto].
Qed.

Lemma In_alookup_NoDup : forall A (l : list (nat * A)) k v,
    NoDup (keys l) -> In (k, v) l -> alookup l k = Some v.
Proof.
  induction l as [|[k' v'] t IH]; intros k v ND HI; cbn in *; [tauto|].
  inversion ND as [|? ? Hn ND']; subst.
  destruct HI as [HI|HI].
  - injection HI as -> ->. rewrite Nat.eqb_refl; reflexivity.
  - destruct (Nat.eqb k k') eqn:E.
    + apply Nat.eqb_eq in E; subst. exfalso; apply Hn. unfold keys.
      change k' with (fst (k', v)). apply in_map; exact HI.
    + auto.
Qed.

Lemma keys_filter_neq : forall A (l : list (nat * A)) k,
    ~ In k (keys (filter (fun kv => negb (Nat.eqb (fst kv) k)) l)).
Proof.
  induction l as [|[k' v'] t IH]; intros k; cbn; [tauto|].
  destruct (Nat.eqb k' k) eqn:E; cbn; [apply IH|].
  apply Nat.eqb_neq in E. intros [?|?]; [congruence | eapply IH; eauto].
Qed.

Lemma keys_filter_sub : forall A (p : nat * A -> bool) (l : list (nat * A)) k,
    In k (keys (filter p l)) -> In k (keys l).
Proof.
  unfold keys; intros A p l k H. apply in_map_iff in H as [x [<- Hx]].
  apply filter_In in Hx as [Hx _]. apply in_map; exact Hx.
Qed.

Lemma NoDup_keys_filter : forall A (p : nat * A -> bool) (l : list (nat * A)),
    NoDup (keys l) -> NoDup (keys (filter p l)).
Proof.
  induction l as [|[k v] t IH]; intros ND; cbn in *; [constructor|].
  inversion ND as [|? ? Hn ND']; subst.
  destruct (p (k, v)); cbn; auto.
  constructor; auto. intros H; apply Hn. eapply keys_filter_sub; eauto.
Qed.

Lemma NoDup_keys_aset : forall A (l : list (nat * A)) k v, NoDup (keys l) -> NoDup (keys (aset l k v)).
Proof.
  intros A l k v ND. unfold aset; cbn. constructor.
  - apply keys_filter_neq.
  - apply NoDup_keys_filter; exact ND.
Qed.

Lemma alookup_filter_neq : forall A (l : list (nat * A)) k k',
    alookup (filter (fun kv => negb (Nat.eqb (fst kv) k)) l) k' =
    if Nat.eqb k' k then None else alookup l k'.
Proof.
  induction l as [|[k0 v0] t IH]; intros k k'; cbn.
  - destruct (Nat.eqb k' k); reflexivity.
  - destruct (Nat.eqb k0 k) eqn:E0; cbn.
    + rewrite IH. apply Nat.eqb_eq in E0.
      destruct (Nat.eqb k' k) eqn:E; [reflexivity|].
      destruct (Nat.eqb k' k0) eqn:E1; [|reflexivity].
      apply Nat.eqb_eq in E1. apply Nat.eqb_neq in E. congruence.
    + rewrite IH. destruct (Nat.eqb k' k0) eqn:E1.
      * apply Nat.eqb_eq in E1; subst. rewrite E0; reflexivity.
      * reflexivity.
Qed.

Lemma alookup_aset : forall A (l : list (nat * A)) k v k',
    alookup (aset l k v) k' = if Nat.eqb k' k then Some v else alookup l k'.
Proof.
  intros; unfold aset; cbn [alookup]. rewrite alookup_filter_neq.
  destruct (Nat.eqb k' k); reflexivity.
Qed.

Lemma filter_id : forall A (p : A -> bool) l, (forall x, In x l -> p x = true) -> filter p l = l.
Proof.
  induction l as [|x t IH]; intros H; cbn; [reflexivity|].
  rewrite (H x (or_introl eq_refl)). rewrite IH; [reflexivity|]. intros; apply H; right; auto.
Qed.

Lemma filter_neq_absent : forall A (l : list (nat * A)) k,
    ~ In k (keys l) -> filter (fun kv => negb (Nat.eqb (fst kv) k)) l = l.
Proof.
  intros A l k H. apply filter_id. intros [k' v] HI; cbn.
  destruct (Nat.eqb k' k) eqn:E; [|reflexivity].
  apply Nat.eqb_eq in E; subst. exfalso; apply H.
  change k with (fst (k, v)). apply in_map; exact HI.
Qed.

Lemma amem_In : forall l k, amem l k = true <-> In k l.
Proof.
  intros l k; unfold amem. rewrite existsb_exists. split.
  - intros [x [Hx E]]. apply Nat.eqb_eq in E; subst; exact Hx.
  - intros H; exists k; split; [exact H | apply Nat.eqb_refl].
Qed.

(* ------------------------------------------------------------------ the anatomy of close_txn *)

Definition calls_of (st : state) (inj : list (nat * val)) : ev (list (list obs)) :=
  emap (fun lh : nat * nat =>
          elet o <- occ st inj (F st) (snd lh);
          EV (match o with Some v => [BCall (fst lh) v] | None => [] end))
       (rev (listeners st)).

Definition newvals_of (st : state) (inj : list (nat * val)) : ev (list (list (nat * val))) :=
  emap (fun kd : nat * def =>
          elet u <- upd st inj (F st) (fst kd);
          match u with
          | Some v => EV [(fst kd, v)]
          | None => match cur st (F st) (fst kd) with
                    | EV v => EV [(fst kd, v)]
                    | EErr SampledBeforeLoop => EV []
                    | EErr e => EErr e
                    end
          end) (filter (fun kd => is_cell (snd kd)) (defs st)).

Definition lzs_of (st : state) : ev (list (nat * (lz * nat))) :=
  emap (fun zl : nat * (lz * nat) =>
          match fst (snd zl) with
          | LzVal v => EV zl
          | LzCell c => elet v <- cur st (F st) c; EV (fst zl, (LzVal v, snd (snd zl)))
          end) (lazies st).

Definition onces_of (st : state) (inj : list (nat * val)) : ev (list (list nat)) :=
  emap (fun kd : nat * def =>
          match snd kd with
          | DOnce _ => elet o <- occ st inj (F st) (fst kd);
                       EV (match o with Some _ => [fst kd] | None => [] end)
          | _ => EV []
          end) (defs st).

Definition defers_of (st : state) (inj : list (nat * val)) : ev (list (list ditem)) :=
  emap (fun kd : nat * def =>
          match snd kd with
          | DDefer a => elet o <- occ st inj (F st) a;
                        EV (match o with Some v => [DEvent (fst kd) v] | None => [] end)
          | DSplit a => elet o <- occ st inj (F st) a;
                        EV (match o with
                            | Some (VList l) => map (DEvent (fst kd)) l
                            | Some v => [DEvent (fst kd) v]
                            | None => []
                            end)
          | _ => EV []
          end) (rev (defs st)).

Definition closed_state (st : state) newvals onces lzs : state :=
  mkState (defs st) newvals [] [] (onces ++ fired st) [] (loops st) (listeners st)
          0 (tdone st) [] [] lzs.

Definition posts_items (ps : list (nat * list nat)) : list ditem :=
  map (fun p => DPost (fst p) (snd p)) ps.

Lemma close_txn_eq : forall st inj ps,
    close_txn st inj ps =
    (elet calls <- calls_of st inj;
     elet nv <- newvals_of st inj;
     elet lzs <- lzs_of st;
     elet onces <- onces_of st inj;
     elet defers <- defers_of st inj;
     EV (mkRes (closed_state st (concat nv) (concat onces) lzs) (concat calls)
               (concat defers ++ posts_items ps))).
Proof. reflexivity. Qed.

Lemma close_txn_inv : forall st inj ps r,
    close_txn st inj ps = EV r ->
    exists calls nv lzs onces defers,
      calls_of st inj = EV calls /\ newvals_of st inj = EV nv /\ lzs_of st = EV lzs /\
      onces_of st inj = EV onces /\ defers_of st inj = EV defers /\
      r = mkRes (closed_state st (concat nv) (concat onces) lzs) (concat calls)
                (concat defers ++ posts_items ps).
Proof.
  intros st inj ps r H. rewrite close_txn_eq in H.
  ebind_inv H calls E1. ebind_inv H nv E2. ebind_inv H lzs E3.
  ebind_inv H onces E4. ebind_inv H defers E5. injection H as <-.
  exists calls, nv, lzs, onces, defers. repeat split; assumption.
Qed.

(* what every closed transaction leaves behind *)
Definition quiescent (st : state) : Prop :=
  depth st = 0 /\ sends st = [] /\ posts st = [] /\ fresh st = [] /\ inits st = [] /\ linit st = [].

Lemma close_txn_quiescent : forall st inj ps r, close_txn st inj ps = EV r -> quiescent (r_state r).
Proof.
  intros st inj ps r H. apply close_txn_inv in H as (calls & nv & lzs & onces & defers & _ & _ & _ & _ & _ & ->).
  repeat split.
Qed.

Lemma close_txn_frame : forall st inj ps r,
    close_txn st inj ps = EV r ->
    defs (r_state r) = defs st /\ loops (r_state r) = loops st /\
    listeners (r_state r) = listeners st /\ tdone (r_state r) = tdone st.
Proof.
  intros st inj ps r H. apply close_txn_inv in H as (calls & nv & lzs & onces & defers & _ & _ & _ & _ & _ & ->).
  repeat split.
Qed.

(* the user posts do not influence the transaction itself, they are only appended to its deferred work *)
Lemma close_txn_posts : forall st inj ps r,
    close_txn st inj ps = EV r ->
    exists r0, close_txn st inj [] = EV r0 /\ r_state r = r_state r0 /\ r_obs r = r_obs r0 /\
               r_deferred r = r_deferred r0 ++ posts_items ps.
Proof.
  intros st inj ps r H. apply close_txn_inv in H as (calls & nv & lzs & onces & defers & E1 & E2 & E3 & E4 & E5 & ->).
  rewrite close_txn_eq, E1, E2, E3, E4, E5. cbn [ebind].
  eexists; split; [reflexivity|]. cbn. rewrite app_nil_r. auto.
Qed.

(* ------------------------------------------------------------------ heads / remove_first *)

Lemma heads_sub : forall q seen d, In d (heads seen q) -> In d q.
Proof.
  induction q as [|x t IH]; intros seen d H; cbn in H; [tauto|].
  destruct (amem seen (source_of x)); [right; eauto|].
  destruct H as [->|H]; [left; reflexivity | right; eauto].
Qed.

Lemma heads_nil : forall q, heads [] q = [] -> q = [].
Proof. intros [|x t]; cbn; [reflexivity | discriminate]. Qed.

(* an element of [heads] is the first item of its source *)
Lemma heads_split : forall q seen d,
    In d (heads seen q) ->
    ~ In (source_of d) seen /\
    exists q1 q2, q = q1 ++ d :: q2 /\ (forall x, In x q1 -> source_of x <> source_of d).
Proof.
  induction q as [|x t IH]; intros seen d H; cbn in H; [tauto|].
  destruct (amem seen (source_of x)) eqn:E.
  - apply amem_In in E. destruct (IH _ _ H) as [Hn (q1 & q2 & -> & Hq1)].
    split; [exact Hn|]. exists (x :: q1), q2; split; [reflexivity|].
    intros y [<-|Hy]; [|auto]. intros Heq; apply Hn; rewrite <- Heq; exact E.
  - destruct H as [->|H].
    + split.
      * intros Hin. apply amem_In in Hin. congruence.
      * exists [], t; split; [reflexivity|]. intros y [].
    + destruct (IH _ _ H) as [Hn (q1 & q2 & -> & Hq1)].
      split; [intros Hin; apply Hn; right; exact Hin|].
      exists (x :: q1), q2; split; [reflexivity|].
      intros y [<-|Hy]; [|auto]. intros Heq; apply Hn; left; exact Heq.
Qed.

Lemma remove_first_split : forall q1 d q2,
    (forall x, In x q1 -> source_of x <> source_of d) ->
    remove_first (source_of d) (q1 ++ d :: q2) = q1 ++ q2.
Proof.
  induction q1 as [|x t IH]; intros d q2 H; cbn.
  - rewrite Nat.eqb_refl; reflexivity.
  - destruct (Nat.eqb (source_of x) (source_of d)) eqn:E.
    + apply Nat.eqb_eq in E. exfalso; eapply H; [left; reflexivity | exact E].
    + rewrite IH; [reflexivity|]. intros; apply H; right; auto.
Qed.

Lemma remove_first_sub : forall q s d, In d (remove_first s q) -> In d q.
Proof.
  induction q as [|x t IH]; intros s d H; cbn in H; [tauto|].
  destruct (Nat.eqb (source_of x) s); [right; exact H|].
  destruct H as [->|H]; [left; reflexivity | right; eauto].
Qed.

(* the item picked by run_deferred / defer_one is one of the heads *)
Lemma pick_in_heads : forall (hs : list ditem) k dflt, hs <> [] -> In (nth (Nat.modulo k (length hs)) hs dflt) hs.
Proof.
  intros hs k dflt H. apply nth_In. apply Nat.mod_upper_bound.
  destruct hs; [congruence | cbn; lia].
Qed.

(* ------------------------------------------------------------------ run_deferred *)

Definition dpick (choice : list nat) (q : list ditem) : ditem :=
  let hs := heads [] q in
  nth (match choice with c :: _ => Nat.modulo c (length hs) | [] => O end) hs (DPost 0 []).

Lemma dpick_in : forall choice q, q <> [] -> In (dpick choice q) (heads [] q).
Proof.
  intros choice q H. unfold dpick.
  assert (Hh : heads [] q <> []) by (intros E; apply H, heads_nil, E).
  destruct choice as [|c ?]; [|apply pick_in_heads; exact Hh].
  apply nth_In. destruct (heads [] q); [congruence | cbn; lia].
Qed.

Lemma run_deferred_S : forall f choice st q acc,
    run_deferred (S f) choice st q acc =
    match q with
    | [] => EV (st, acc, [])
    | _ =>
      let d := dpick choice q in
      let q' := remove_first (source_of d) q in
      match d with
      | DEvent h v =>
        elet r <- close_txn st [(h, v)] [];
        elet rest <- run_deferred f (tl choice) (r_state r) (q' ++ r_deferred r) (acc ++ r_obs r);
        EV (fst (fst rest), snd (fst rest), length (heads [] q) :: snd rest)
      | DPost kk cs =>
        elet vs <- emap (cur st (F st)) cs;
        elet rest <- run_deferred f (tl choice) st q' (acc ++ [BPost kk vs]);
        EV (fst (fst rest), snd (fst rest), length (heads [] q) :: snd rest)
      end
    end.
Proof.
  intros f choice st q acc. destruct q as [|x t]; [reflexivity|].
  cbn [run_deferred]. unfold dpick.
  remember (heads [] (x :: t)) as hs eqn:Ehs.
  destruct hs as [|h0 hs']; [cbn in Ehs; discriminate|]. reflexivity.
Qed.

(* the accumulator is only ever extended *)
Lemma run_deferred_acc : forall f choice st q acc,
    run_deferred f choice st q acc =
    (elet r <- run_deferred f choice st q []; EV (fst (fst r), acc ++ snd (fst r), snd r)).
Proof.
  induction f as [|f IH]; intros choice st q acc; [reflexivity|].
  rewrite !run_deferred_S. destruct q as [|x t].
  - cbn. rewrite app_nil_r. reflexivity.
  - cbv zeta. destruct (dpick choice (x :: t)) as [h v|kk cs].
    + destruct (close_txn st [(h, v)] []) as [r|e]; [|reflexivity]. cbn [ebind].
      rewrite IH. rewrite (IH _ _ _ ([] ++ r_obs r)).
      destruct (run_deferred f (tl choice) (r_state r) _ []) as [[[s1 o1] a1]|e]; [|reflexivity].
      cbn. rewrite app_assoc. reflexivity.
    + destruct (emap (cur st (F st)) cs) as [vs|e]; [|reflexivity]. cbn [ebind].
      rewrite IH. rewrite (IH _ _ _ ([] ++ _)).
      destruct (run_deferred f (tl choice) st _ []) as [[[s1 o1] a1]|e]; [|reflexivity].
      cbn. rewrite <- app_assoc. reflexivity.
Qed.

(* ------------------------------------------------------------------ classification of operations *)

Definition is_bracket (o : op) : bool :=
  match o with OBegin | OEnd | OTNew _ | OTClose _ => true | _ => false end.

Lemma step_body_op : forall choice st o,
    is_bracket o = false ->
    step choice st o =
    match depth st with
    | O => elet r <- body (set_depth st 1) o; leave choice (fst r) (snd r)
    | _ => elet r <- body st o; EV (fst r, snd r, [])
    end.
Proof. intros choice st o H; destruct o; try discriminate H; reflexivity. Qed.

Lemma step_q_body_op : forall st o,
    is_bracket o = false ->
    step_q st o =
    match depth st with
    | O => elet r <- body (set_depth st 1) o; leave_q (fst r) (snd r)
    | _ => elet r <- body st o; EV (fst r, snd r, [])
    end.
Proof. intros st o H; destruct o; try discriminate H; reflexivity. Qed.

(* the body of an operation never changes the nesting depth, the scoped-transaction table, the once
   flags, and only ever appends to the sends and the posts *)
Lemma body_frame : forall st o st' os,
    body st o = EV (st', os) ->
    depth st' = depth st /\ tdone st' = tdone st /\ fired st' = fired st /\
    (exists s, sends st' = sends st ++ s) /\ (exists p, posts st' = posts st ++ p).
Proof.
  intros st o st' os H.
  assert (Hnil : forall A (l : list A), exists s, l = l ++ s) by (intros; exists []; rewrite app_nil_r; reflexivity).
  destruct o; cbn [body] in H;
    try (injection H as <- <-; prj; repeat split; eauto; fail).
  - (* OLoopS *) destruct (alookup (loops st) l); [discriminate|]. injection H as <- <-; prj; repeat split; eauto.
  - destruct (alookup (loops st) l); [discriminate|]. injection H as <- <-; prj; repeat split; eauto.
  - (* OSample *) ebind_inv H v E. injection H as <- <-. repeat split; eauto.
  - (* OForce *) destruct (alookup (lazies st) z) as [[[v|c] n]|]; [| |discriminate].
    + injection H as <- <-. repeat split; eauto.
    + ebind_inv H v E. injection H as <- <-. repeat split; eauto.
  - (* OCloneLazy *) destruct (alookup (lazies st) z); [|discriminate]. injection H as <- <-; prj; repeat split; eauto.
Qed.

Definition sent (o : op) : list (nat * val) := match o with OSend h v => [(h, v)] | _ => [] end.
Definition posted (o : op) : list (nat * list nat) := match o with OPostK k cs => [(k, cs)] | _ => [] end.

Lemma body_sends : forall st o st' os, body st o = EV (st', os) -> sends st' = sends st ++ sent o.
Proof.
  intros st o st' os H.
  destruct o; cbn [body] in H; cbn [sent]; rewrite ?app_nil_r;
    try (injection H as <- <-; prj; rewrite ?app_nil_r; reflexivity).
  - destruct (alookup (loops st) l); [discriminate|]. injection H as <- <-; reflexivity.
  - destruct (alookup (loops st) l); [discriminate|]. injection H as <- <-; reflexivity.
  - ebind_inv H v E. injection H as <- <-. reflexivity.
  - destruct (alookup (lazies st) z) as [[[v|c] n]|]; [| |discriminate].
    + injection H as <- <-. reflexivity.
    + ebind_inv H v E. injection H as <- <-. reflexivity.
  - destruct (alookup (lazies st) z); [|discriminate]. injection H as <- <-; reflexivity.
Qed.

Lemma body_posts : forall st o st' os, body st o = EV (st', os) -> posts st' = posts st ++ posted o.
Proof.
  intros st o st' os H.
  destruct o; cbn [body] in H; cbn [posted]; rewrite ?app_nil_r;
    try (injection H as <- <-; prj; rewrite ?app_nil_r; reflexivity).
  - destruct (alookup (loops st) l); [discriminate|]. injection H as <- <-; reflexivity.
  - destruct (alookup (loops st) l); [discriminate|]. injection H as <- <-; reflexivity.
  - ebind_inv H v E. injection H as <- <-. reflexivity.
  - destruct (alookup (lazies st) z) as [[[v|c] n]|]; [| |discriminate].
    + injection H as <- <-. reflexivity.
    + ebind_inv H v E. injection H as <- <-. reflexivity.
  - destruct (alookup (lazies st) z); [|discriminate]. injection H as <- <-; reflexivity.
Qed.

(* observations of a body are samples and forced lazies only *)
Definition is_call (o : obs) : bool := match o with BCall _ _ => true | _ => false end.
Definition is_post (o : obs) : bool := match o with BPost _ _ => true | _ => false end.
Definition passive (o : obs) : Prop := match o with BSample _ _ | BForced _ _ => True | _ => False end.

Lemma body_obs : forall st o st' os, body st o = EV (st', os) -> Forall passive os.
Proof.
  intros st o st' os H.
  destruct o; cbn [body] in H; try (injection H as <- <-; constructor).
  - destruct (alookup (loops st) l); [discriminate|]. injection H as <- <-; constructor.
  - destruct (alookup (loops st) l); [discriminate|]. injection H as <- <-; constructor.
  - ebind_inv H v E. injection H as <- <-. repeat constructor.
  - destruct (alookup (lazies st) z) as [[[v|c] n]|]; [| |discriminate].
    + injection H as <- <-. repeat constructor.
    + ebind_inv H v E. injection H as <- <-. repeat constructor.
  - destruct (alookup (lazies st) z); [|discriminate]. injection H as <- <-; constructor.
Qed.

(* ------------------------------------------------------------------ scripts *)

(* run a script; the choice list of the i-th operation is [ch i] *)
Fixpoint run (ch : nat -> list nat) (i : nat) (st : state) (ops : list op) : ev (state * list obs) :=
  match ops with
  | [] => EV (st, [])
  | o :: t =>
    elet r <- step (ch i) st o;
    elet r' <- run ch (S i) (fst (fst r)) t;
    EV (fst r', snd (fst r) ++ snd r')
  end.

Lemma run_app : forall ch ops1 ops2 i st,
    run ch i st (ops1 ++ ops2) =
    (elet r <- run ch i st ops1;
     elet r' <- run ch (i + length ops1) (fst r) ops2;
     EV (fst r', snd r ++ snd r')).
Proof.
  induction ops1 as [|o t IH]; intros ops2 i st; cbn [run app length].
  - cbn [ebind fst snd]. rewrite Nat.add_0_r.
    destruct (run ch i st ops2) as [[s os]|e]; reflexivity.
  - destruct (step (ch i) st o) as [[[s1 o1] a1]|e]; [|reflexivity]. cbn [ebind fst snd].
    rewrite IH. replace (S i + length t) with (i + S (length t)) by lia.
    destruct (run ch (S i) s1 t) as [[s2 o2]|e]; [|reflexivity]. cbn [ebind fst snd].
    destruct (run ch (i + S (length t)) s2 ops2) as [[s3 o3]|e]; [|reflexivity]. cbn [ebind fst snd].
    rewrite app_assoc. reflexivity.
Qed.
