(* C02: stream primitives fire exactly as the semantics prescribes. *)
From Coq Require Import List ZArith Bool Arith Lia.
Import ListNotations.
From Sodium Require Import Sodium SpecBBase SpecBMono SpecBLegal SpecBClose SpecBStep SpecBBody.
Local Open Scope nat_scope.

(* ------------------------------------------------------------------ the prescribed semantics *)

Definition map_occ (f : f1) (o : option val) : option val := option_map (app1 f) o.

Definition filter_occ (p : p1) (o : option val) : option val :=
  match o with Some v => if appP p v then Some v else None | None => None end.

(* a : the receiver of [merge] (left argument of the combiner), b : the argument stream *)
Definition merge_occ (g : f2) (x y : option val) : option val :=
  match x, y with
  | Some u, Some w => Some (app2 g u w)
  | Some u, None => Some u
  | None, Some w => Some w
  | None, None => None
  end.

Definition gate_occ (o : option val) (b : val) : option val :=
  match o with Some v => if truthy b then Some v else None | None => None end.

(* the cells' values are those before the transaction: [cur] has no access to the injected events *)
Definition snapshot_occ (st : state) (cs : list nat) (g : fn) (o : option val) : ev (option val) :=
  match o with
  | None => EV None
  | Some v => elet vs <- emap (cur st (F st)) cs; EV (Some (appN g (v :: vs)))
  end.

Definition gate_ev (st : state) (c : nat) (o : option val) : ev (option val) :=
  match o with
  | None => EV None
  | Some v => elet b <- cur st (F st) c; EV (gate_occ (Some v) b)
  end.

Lemma merge_sole_left : forall g u, merge_occ g (Some u) None = Some u.
Proof. reflexivity. Qed.
Lemma merge_sole_right : forall g w, merge_occ g None (Some w) = Some w.
Proof. reflexivity. Qed.
Lemma merge_both : forall g u w, merge_occ g (Some u) (Some w) = Some (app2 g u w).
Proof. reflexivity. Qed.
Lemma merge_none : forall g, merge_occ g None None = None.
Proof. reflexivity. Qed.

(* or_else = merge with GLeft: the receiver's event wins *)
Lemma or_else_occ : forall x y, merge_occ GLeft x y = match x with Some u => Some u | None => y end.
Proof. intros [u|] [w|]; reflexivity. Qed.

Lemma filter_occ_Some : forall p o v, filter_occ p o = Some v <-> o = Some v /\ appP p v = true.
Proof.
  intros p [w|] v; simpl.
  - destruct (appP p w) eqn:E; split.
    + intros H. injection H as <-. split; [reflexivity | exact E].
    + intros [H _]. exact H.
    + intros H. discriminate H.
    + intros [H1 H2]. injection H1 as <-. congruence.
  - split; [intros H; discriminate H | intros [H _]; discriminate H].
Qed.

Lemma snapshot_occ_Some : forall st cs g o r,
    snapshot_occ st cs g o = EV r ->
    match o with
    | None => r = None
    | Some v => exists vs, Forall2 (fun c w => cur st (F st) c = EV w) cs vs /\ r = Some (appN g (v :: vs))
    end.
Proof.
  intros st cs g [v|] r H; simpl in H.
  - apply ebind_EV in H. destruct H as [vs [H1 H2]]. injection H2 as <-.
    exists vs. split; [apply emap_EV_iff; exact H1 | reflexivity].
  - injection H as <-. reflexivity.
Qed.

(* ------------------------------------------------------------------ one-step equations, every fuel *)

Section Eqs.
  Variable st : state.
  Variable inj : list (nat * val).

  Lemma occ_DSink : forall n h co, alookup (defs st) h = Some (DSink co) ->
      occ st inj (S n) h = EV (coalesce co (injected inj h)).
  Proof. intros n h co Hd. rewrite occ_S, (def_of_Some _ _ _ Hd). reflexivity. Qed.

  Lemma occ_DNever : forall n h, alookup (defs st) h = Some DNever -> occ st inj (S n) h = EV None.
  Proof. intros n h Hd. rewrite occ_S, (def_of_Some _ _ _ Hd). reflexivity. Qed.

  Lemma occ_DMap : forall n h a f, alookup (defs st) h = Some (DMap a f) ->
      occ st inj (S n) h = elet o <- occ st inj n a; EV (map_occ f o).
  Proof. intros n h a f Hd. rewrite occ_S, (def_of_Some _ _ _ Hd). reflexivity. Qed.

  Lemma occ_DFilter : forall n h a p, alookup (defs st) h = Some (DFilter a p) ->
      occ st inj (S n) h = elet o <- occ st inj n a; EV (filter_occ p o).
  Proof. intros n h a p Hd. rewrite occ_S, (def_of_Some _ _ _ Hd). reflexivity. Qed.

  Lemma occ_DMerge : forall n h a b g, alookup (defs st) h = Some (DMerge a b g) ->
      occ st inj (S n) h = elet x <- occ st inj n a; elet y <- occ st inj n b; EV (merge_occ g x y).
  Proof. intros n h a b g Hd. rewrite occ_S, (def_of_Some _ _ _ Hd). reflexivity. Qed.

  Lemma occ_DSnapshot : forall n h a cs g, alookup (defs st) h = Some (DSnapshot a cs g) ->
      occ st inj (S n) h = elet o <- occ st inj n a; snapshot_occ st cs g o.
  Proof. intros n h a cs g Hd. rewrite occ_S, (def_of_Some _ _ _ Hd). reflexivity. Qed.

  Lemma occ_DGate : forall n h a c, alookup (defs st) h = Some (DGate a c) ->
      occ st inj (S n) h = elet o <- occ st inj n a; gate_ev st c o.
  Proof.
    intros n h a c Hd. rewrite occ_S, (def_of_Some _ _ _ Hd). cbn [ebind].
    destruct (occ st inj n a) as [[v|]|e]; reflexivity.
  Qed.

  Lemma occ_DOnce : forall n h a, alookup (defs st) h = Some (DOnce a) ->
      occ st inj (S n) h = if amem (fired st) h then EV None else occ st inj n a.
  Proof. intros n h a Hd. rewrite occ_S, (def_of_Some _ _ _ Hd). reflexivity. Qed.

  Lemma occ_DUpdates : forall n h c, alookup (defs st) h = Some (DUpdates c) ->
      occ st inj (S n) h = upd st inj n c.
  Proof. intros n h c Hd. rewrite occ_S, (def_of_Some _ _ _ Hd). reflexivity. Qed.

  Lemma upd_DHold : forall n h a, alookup (defs st) h = Some (DHold a) ->
      upd st inj (S n) h = occ st inj n a.
  Proof. intros n h a Hd. rewrite upd_S, (def_of_Some _ _ _ Hd). reflexivity. Qed.

  (* ---------------------------------------------------------------- top-level fuel, successful results *)

  Lemma F_pred_le : S (length (defs st)) <= F st.
  Proof. rewrite F_eq. lia. Qed.

  Lemma occ_DMap_EV : forall h a f r, alookup (defs st) h = Some (DMap a f) ->
      occ st inj (F st) h = EV r -> exists o, occ st inj (F st) a = EV o /\ r = map_occ f o.
  Proof.
    intros h a f r Hd H. change (F st) with (S (S (length (defs st)))) in H at 1.
    rewrite (occ_DMap _ _ _ _ Hd) in H. apply ebind_EV in H. destruct H as [o [H1 H2]].
    exists o. split; [exact (occ_F_of _ _ _ _ _ H1 F_pred_le) | congruence].
  Qed.

  Lemma occ_DFilter_EV : forall h a p r, alookup (defs st) h = Some (DFilter a p) ->
      occ st inj (F st) h = EV r -> exists o, occ st inj (F st) a = EV o /\ r = filter_occ p o.
  Proof.
    intros h a p r Hd H. change (F st) with (S (S (length (defs st)))) in H at 1.
    rewrite (occ_DFilter _ _ _ _ Hd) in H. apply ebind_EV in H. destruct H as [o [H1 H2]].
    exists o. split; [exact (occ_F_of _ _ _ _ _ H1 F_pred_le) | congruence].
  Qed.

  Lemma occ_DMerge_EV : forall h a b g r, alookup (defs st) h = Some (DMerge a b g) ->
      occ st inj (F st) h = EV r ->
      exists x y, occ st inj (F st) a = EV x /\ occ st inj (F st) b = EV y /\ r = merge_occ g x y.
  Proof.
    intros h a b g r Hd H. change (F st) with (S (S (length (defs st)))) in H at 1.
    rewrite (occ_DMerge _ _ _ _ _ Hd) in H. apply ebind_EV in H. destruct H as [x [H1 H2]].
    apply ebind_EV in H2. destruct H2 as [y [H2 H3]].
    exists x, y. split; [exact (occ_F_of _ _ _ _ _ H1 F_pred_le)|].
    split; [exact (occ_F_of _ _ _ _ _ H2 F_pred_le) | congruence].
  Qed.

  Lemma occ_DSnapshot_EV : forall h a cs g r, alookup (defs st) h = Some (DSnapshot a cs g) ->
      occ st inj (F st) h = EV r ->
      exists o, occ st inj (F st) a = EV o /\ snapshot_occ st cs g o = EV r.
  Proof.
    intros h a cs g r Hd H. change (F st) with (S (S (length (defs st)))) in H at 1.
    rewrite (occ_DSnapshot _ _ _ _ _ Hd) in H. apply ebind_EV in H. destruct H as [o [H1 H2]].
    exists o. split; [exact (occ_F_of _ _ _ _ _ H1 F_pred_le) | exact H2].
  Qed.

  Lemma occ_DGate_EV : forall h a c r, alookup (defs st) h = Some (DGate a c) ->
      occ st inj (F st) h = EV r ->
      exists o, occ st inj (F st) a = EV o /\ gate_ev st c o = EV r.
  Proof.
    intros h a c r Hd H. change (F st) with (S (S (length (defs st)))) in H at 1.
    rewrite (occ_DGate _ _ _ _ Hd) in H. apply ebind_EV in H. destruct H as [o [H1 H2]].
    exists o. split; [exact (occ_F_of _ _ _ _ _ H1 F_pred_le) | exact H2].
  Qed.

  Lemma occ_DOnce_EV : forall h a r, alookup (defs st) h = Some (DOnce a) ->
      occ st inj (F st) h = EV r ->
      (In h (fired st) /\ r = None) \/ (~ In h (fired st) /\ occ st inj (F st) a = EV r).
  Proof.
    intros h a r Hd H. change (F st) with (S (S (length (defs st)))) in H at 1.
    rewrite (occ_DOnce _ _ _ Hd) in H. destruct (amem (fired st) h) eqn:E.
    - left. split; [apply amem_In; exact E | congruence].
    - right. split; [intros Hin; apply amem_In in Hin; congruence|].
      exact (occ_F_of _ _ _ _ _ H F_pred_le).
  Qed.

  (* ---------------------------------------------------------------- top-level fuel, legal states *)

  Section LegalEqs.
    Variables rc ro : nat -> nat.
    Hypothesis HL : LegalR st inj rc ro.

    Let Hb : forall h d, alookup (defs st) h = Some d -> ro h < F st := proj1 (proj2 HL).
    Let Hok : forall h, occ_ok st inj ro h := proj2 (proj2 (proj2 HL)).

    Lemma occ_DMap_L : forall h a f, alookup (defs st) h = Some (DMap a f) ->
        occ st inj (F st) h = elet o <- occ st inj (F st) a; EV (map_occ f o).
    Proof.
      intros h a f Hd. pose proof (Hok h) as X. unfold occ_ok in X. rewrite Hd in X.
      rewrite <- (occ_sub_F st inj ro Hb Hok h _ a Hd X). exact (occ_DMap _ _ _ _ Hd).
    Qed.

    Lemma occ_DFilter_L : forall h a p, alookup (defs st) h = Some (DFilter a p) ->
        occ st inj (F st) h = elet o <- occ st inj (F st) a; EV (filter_occ p o).
    Proof.
      intros h a p Hd. pose proof (Hok h) as X. unfold occ_ok in X. rewrite Hd in X.
      rewrite <- (occ_sub_F st inj ro Hb Hok h _ a Hd X). exact (occ_DFilter _ _ _ _ Hd).
    Qed.

    Lemma occ_DMerge_L : forall h a b g, alookup (defs st) h = Some (DMerge a b g) ->
        occ st inj (F st) h =
        elet x <- occ st inj (F st) a; elet y <- occ st inj (F st) b; EV (merge_occ g x y).
    Proof.
      intros h a b g Hd. pose proof (Hok h) as X. unfold occ_ok in X. rewrite Hd in X. destruct X as [X1 X2].
      rewrite <- (occ_sub_F st inj ro Hb Hok h _ a Hd X1), <- (occ_sub_F st inj ro Hb Hok h _ b Hd X2).
      exact (occ_DMerge _ _ _ _ _ Hd).
    Qed.

    Lemma occ_DSnapshot_L : forall h a cs g, alookup (defs st) h = Some (DSnapshot a cs g) ->
        occ st inj (F st) h = elet o <- occ st inj (F st) a; snapshot_occ st cs g o.
    Proof.
      intros h a cs g Hd. pose proof (Hok h) as X. unfold occ_ok in X. rewrite Hd in X.
      rewrite <- (occ_sub_F st inj ro Hb Hok h _ a Hd X). exact (occ_DSnapshot _ _ _ _ _ Hd).
    Qed.

    Lemma occ_DGate_L : forall h a c, alookup (defs st) h = Some (DGate a c) ->
        occ st inj (F st) h = elet o <- occ st inj (F st) a; gate_ev st c o.
    Proof.
      intros h a c Hd. pose proof (Hok h) as X. unfold occ_ok in X. rewrite Hd in X.
      rewrite <- (occ_sub_F st inj ro Hb Hok h _ a Hd X). exact (occ_DGate _ _ _ _ Hd).
    Qed.

    Lemma occ_DOnce_L : forall h a, alookup (defs st) h = Some (DOnce a) ->
        occ st inj (F st) h = if amem (fired st) h then EV None else occ st inj (F st) a.
    Proof.
      intros h a Hd. pose proof (Hok h) as X. unfold occ_ok in X. rewrite Hd in X.
      change (F st) with (S (S (length (defs st)))) at 1. rewrite (occ_DOnce _ _ _ Hd).
      destruct (amem (fired st) h); [reflexivity|].
      exact (occ_sub_F st inj ro Hb Hok h _ a Hd (X eq_refl)).
    Qed.

    Lemma occ_DUpdates_L : forall h c, alookup (defs st) h = Some (DUpdates c) ->
        occ st inj (F st) h = upd st inj (F st) c.
    Proof.
      intros h c Hd. pose proof (Hok h) as X. unfold occ_ok in X. rewrite Hd in X.
      rewrite <- (upd_sub_F st inj ro Hb Hok h _ c Hd X). exact (occ_DUpdates _ _ _ Hd).
    Qed.

    Lemma upd_DHold_L : forall h a, alookup (defs st) h = Some (DHold a) ->
        upd st inj (F st) h = occ st inj (F st) a.
    Proof.
      intros h a Hd. pose proof (Hok h) as X. unfold occ_ok in X. rewrite Hd in X.
      rewrite <- (occ_sub_F st inj ro Hb Hok h _ a Hd X). exact (upd_DHold _ _ _ Hd).
    Qed.
  End LegalEqs.
End Eqs.

(* ------------------------------------------------------------------ unbounded depth: chains *)

Inductive stage := StMap (f : f1) | StFilter (p : p1).

Definition stage_occ (sg : stage) (o : option val) : option val :=
  match sg with StMap f => map_occ f o | StFilter p => filter_occ p o end.

Definition stage_def (sg : stage) (a : nat) : def :=
  match sg with StMap f => DMap a f | StFilter p => DFilter a p end.

(* [Chain st src sgs out]: out is reached from src through the stages sgs (first stage first) *)
Inductive Chain (st : state) (src : nat) : list stage -> nat -> Prop :=
| Chain_nil : Chain st src [] src
| Chain_snoc : forall sgs mid sg h,
    Chain st src sgs mid -> alookup (defs st) h = Some (stage_def sg mid) -> Chain st src (sgs ++ [sg]) h.

Definition chain_occ (sgs : list stage) (o : option val) : option val :=
  fold_left (fun o sg => stage_occ sg o) sgs o.

Lemma occ_stage : forall st inj n h sg a, alookup (defs st) h = Some (stage_def sg a) ->
    occ st inj (S n) h = elet o <- occ st inj n a; EV (stage_occ sg o).
Proof. intros st inj n h [f|p] a Hd; [exact (occ_DMap _ _ _ _ _ _ Hd) | exact (occ_DFilter _ _ _ _ _ _ Hd)]. Qed.

Theorem chain_fuel : forall st inj src sgs out,
    Chain st src sgs out ->
    forall n, occ st inj (length sgs + n) out = elet o <- occ st inj n src; EV (chain_occ sgs o).
Proof.
  intros st inj src sgs out HC. induction HC as [|sgs mid sg h HC IH Hd]; intros n.
  - simpl. destruct (occ st inj n src); reflexivity.
  - rewrite app_length. simpl length. replace (length sgs + 1 + n) with (S (length sgs + n)) by lia.
    rewrite (occ_stage _ _ _ _ _ _ Hd), IH.
    destruct (occ st inj n src) as [o|e]; [|reflexivity]. cbn [ebind].
    unfold chain_occ. rewrite fold_left_app. reflexivity.
Qed.

Theorem chain_EV : forall st inj src sgs out r,
    Chain st src sgs out -> occ st inj (F st) out = EV r ->
    exists o, occ st inj (F st) src = EV o /\ r = chain_occ sgs o.
Proof.
  intros st inj src sgs out r HC. revert r. induction HC as [|sgs mid sg h HC IH Hd]; intros r H.
  - exists r. split; [exact H | reflexivity].
  - change (F st) with (S (S (length (defs st)))) in H at 1. rewrite (occ_stage _ _ _ _ _ _ Hd) in H.
    apply ebind_EV in H. destruct H as [o [H1 H2]].
    apply occ_F_of in H1; [|apply F_pred_le].
    destruct (IH _ H1) as [o0 [Ho0 ->]]. exists o0. split; [exact Ho0|].
    injection H2 as <-. unfold chain_occ. rewrite fold_left_app. reflexivity.
Qed.

Theorem chain_L : forall st inj rc ro src sgs out,
    LegalR st inj rc ro -> Chain st src sgs out ->
    occ st inj (F st) out = elet o <- occ st inj (F st) src; EV (chain_occ sgs o).
Proof.
  intros st inj rc ro src sgs out HL HC. induction HC as [|sgs mid sg h HC IH Hd].
  - destruct (occ st inj (F st) src); reflexivity.
  - assert (E : occ st inj (F st) h = elet o <- occ st inj (F st) mid; EV (stage_occ sg o)).
    { destruct sg as [f|p]; [exact (occ_DMap_L _ _ _ _ HL _ _ _ Hd) | exact (occ_DFilter_L _ _ _ _ HL _ _ _ Hd)]. }
    rewrite E, IH. destruct (occ st inj (F st) src) as [o|e]; [|reflexivity]. cbn [ebind].
    unfold chain_occ. rewrite fold_left_app. reflexivity.
Qed.

(* k maps with the same function: the function iterated k times *)
Lemma chain_occ_repeat_map : forall f k o,
    chain_occ (repeat (StMap f) k) o = option_map (fun v => Nat.iter k (app1 f) v) o.
Proof.
  intros f k. induction k as [|k IH]; intros o.
  - destruct o; reflexivity.
  - cbn [repeat]. unfold chain_occ. cbn [fold_left]. fold (chain_occ (repeat (StMap f) k) (stage_occ (StMap f) o)).
    rewrite IH. destruct o as [v|]; [|reflexivity]. simpl. f_equal.
    clear IH. induction k as [|k IHk]; [reflexivity|]. simpl. rewrite <- IHk. reflexivity.
Qed.

(* ------------------------------------------------------------------ once: only the first event *)

Lemma fired_step : forall h choice st o r,
    step choice st o = EV r -> In h (fired st) -> In h (fired (fst (fst r))).
Proof.
  intros h choice st o r H Hin.
  apply (step_inv (fun s => In h (fired s)) (fun _ => True)) with (choice := choice) (st := st) (o := o);
    try assumption; try exact I.
  - intros s o0 s' ob _ Hb HP. rewrite (body_fired _ _ _ _ Hb). exact HP.
  - intros s i p r0 Hc HP. exact (close_fired_incl _ _ _ _ _ Hc HP).
  - intros s n HP. exact HP.
  - intros s t b HP. exact HP.
Qed.

Lemma fired_script : forall h ops choices st st',
    run_script choices st ops = EV st' -> In h (fired st) -> In h (fired st').
Proof.
  intros h ops choices st st' H Hin.
  apply (script_inv (fun s => In h (fired s)) (fun _ => True)) with (ops := ops) (choices := choices) (st := st);
    try assumption.
  - intros s o0 s' ob _ Hb HP. rewrite (body_fired _ _ _ _ Hb). exact HP.
  - intros s i p r0 Hc HP. exact (close_fired_incl _ _ _ _ _ Hc HP).
  - intros s n HP. exact HP.
  - intros s t b HP. exact HP.
  - apply Forall_forall. intros x _. exact I.
Qed.

(* once its first event has passed (in a transaction closed by close_txn), a once node never fires
   again: in every state reached by any later script, for every injection and every fuel *)
Theorem once_only_first : forall st inj p r h a v ops choices st2 a2 inj2 n,
    close_txn st inj p = EV r -> alookup (defs st) h = Some (DOnce a) ->
    occ st inj (F st) h = EV (Some v) ->
    run_script choices (r_state r) ops = EV st2 ->
    alookup (defs st2) h = Some (DOnce a2) ->
    occ st2 inj2 (S n) h = EV None.
Proof.
  intros st inj p r h a v ops choices st2 a2 inj2 n Hc Hd Ho Hrun Hd2.
  pose proof (close_fired_once _ _ _ _ _ _ _ Hc Hd Ho) as Hf.
  pose proof (fired_script _ _ _ _ _ Hrun Hf) as Hf2.
  rewrite (occ_DOnce _ _ _ _ _ Hd2). apply amem_In in Hf2. rewrite Hf2. reflexivity.
Qed.

(* and until then it is transparent: not yet fired = the event of its input *)
Theorem once_not_fired_after : forall st inj p r h,
    close_txn st inj p = EV r -> ~ In h (fired st) ->
    (forall a, In (h, DOnce a) (defs st) -> occ st inj (F st) h = EV None) ->
    ~ In h (fired (r_state r)).
Proof.
  intros st inj p r h Hc Hn Hnone Hin.
  destruct (close_fired_inv _ _ _ _ _ Hc Hin) as [Hf|[a [v [Hd Ho]]]]; [exact (Hn Hf)|].
  rewrite (Hnone a Hd) in Ho. discriminate Ho.
Qed.

(* listeners: a listener is called exactly with the occurrence of its stream *)
Theorem listener_calls : forall st inj p r l v,
    close_txn st inj p = EV r ->
    (In (BCall l v) (r_obs r) <-> exists s, In (l, s) (listeners st) /\ occ st inj (F st) s = EV (Some v)).
Proof. exact close_calls. Qed.

(* ------------------------------------------------------------------ a concrete program (for the examples) *)
From Sodium Require Import SpecBLegalB.

Definition ex02_ops : list op :=
  [ODef 0 (DSink None); ODef 1 (DSink None); OConst 2 (VInt 5);
   ODef 3 (DMap 0 (FAdd 1)); ODef 4 (DFilter 3 PEven); ODef 5 (DMerge 4 1 GSub);
   ODef 6 (DSnapshot 5 [2] (NF2 GAdd)); ODef 7 (DGate 6 2); ODef 8 (DOnce 7); OListen 0 8].

Definition ex02_st : state := match run_ops init_state ex02_ops with Some st => st | None => init_state end.
Definition ex02_inj : list (nat * val) := [(0, VInt 3); (1, VInt 10)].
Definition ex02_rank : nat -> nat := rank_of [(0,0);(1,0);(2,0);(3,1);(4,2);(5,3);(6,4);(7,5);(8,6)].

Lemma ex02_legal : LegalR ex02_st ex02_inj ex02_rank ex02_rank.
Proof. apply legalb_sound. vm_compute. reflexivity. Qed.

Lemma ex02_chain : Chain ex02_st 0 [StMap (FAdd 1); StFilter PEven] 4.
Proof.
  apply (Chain_snoc ex02_st 0 [StMap (FAdd 1)] 3 (StFilter PEven) 4); [|reflexivity].
  apply (Chain_snoc ex02_st 0 [] 0 (StMap (FAdd 1)) 3); [|reflexivity].
  apply Chain_nil.
Qed.
