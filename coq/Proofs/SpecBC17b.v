(* Property C17, part B: lazies in the denotational specification Spec/Sodium.v.

   A lazy handle z has an entry (content, id) in [lazies st]; content is [LzCell c] while the
   transaction in which it was taken by sample_lazy is still open, and [LzVal v] once resolved
   ([close_txn] resolves every LzCell c to the value [cur st (F st) c] of the state at the close).
   [lazy_value st z] is what forcing z in state st returns. *)
From Coq Require Import List ZArith Bool Arith Lia.
Import ListNotations.
From Sodium Require Import Sodium SpecBBase SpecBMono SpecBLegal SpecBClose SpecBStep.
Local Open Scope nat_scope.

(* ------------------------------------------------------------------ inversion of a successful body *)

Ltac c17_body_inv H :=
  match type of H with
  | body ?st ?o = EV (?st', ?ob) =>
    destruct o; cbn [body] in H;
    repeat match type of H with
           | ebind ?x _ = EV _ =>
             let v := fresh "v" in let Hv := fresh "Hv" in
             apply ebind_EV in H; destruct H as [v [Hv H]]
           | match ?x with _ => _ end = EV _ => destruct x eqn:?; try discriminate H
           end;
    try (injection H as <- <-)
  end.

(* ------------------------------------------------------------------ forcing *)

Definition lazy_value (st : state) (z : nat) : ev val :=
  match alookup (lazies st) z with
  | Some (LzVal v, _) => EV v
  | Some (LzCell c, _) => cur st (F st) c
  | None => EErr Illegal
  end.

Lemma force_eq : forall st z, body st (OForce z) = elet v <- lazy_value st z; EV (st, [BForced z v]).
Proof.
  intros st z. cbn [body]. unfold lazy_value.
  destruct (alookup (lazies st) z) as [[[v|c] i]|]; reflexivity.
Qed.

Lemma force_EV_iff : forall st z st' ob,
    body st (OForce z) = EV (st', ob) <-> exists v, lazy_value st z = EV v /\ st' = st /\ ob = [BForced z v].
Proof.
  intros st z st' ob. rewrite force_eq. split.
  - intros H. apply ebind_EV in H. destruct H as [v [Hv H]]. injection H as <- <-. exists v. repeat split. exact Hv.
  - intros [v [Hv [-> ->]]]. rewrite Hv. reflexivity.
Qed.

Lemma force_val : forall st z v i,
    alookup (lazies st) z = Some (LzVal v, i) -> body st (OForce z) = EV (st, [BForced z v]).
Proof. intros st z v i H. rewrite force_eq. unfold lazy_value. rewrite H. reflexivity. Qed.

Lemma force_cell : forall st z c i v,
    alookup (lazies st) z = Some (LzCell c, i) ->
    (body st (OForce z) = EV (st, [BForced z v]) <-> cur st (F st) c = EV v).
Proof.
  intros st z c i v H. rewrite force_eq. unfold lazy_value. rewrite H. split.
  - intros G. destruct (cur st (F st) c) as [w|e]; [|discriminate G]. cbn [ebind] in G. congruence.
  - intros ->. reflexivity.
Qed.

(* ------------------------------------------------------------------ 1. the take *)

Lemma sample_lazy_body : forall st z c,
    body st (OSampleLazy z c) =
    EV (mkState (defs st) (cvals st) (inits st) (linit st) (fired st) (fresh st) (loops st)
                (listeners st) (depth st) (tdone st) (sends st) (posts st) (aset (lazies st) z (LzCell c, z)), []).
Proof. reflexivity. Qed.

Lemma sample_lazy_entry : forall st z c st' ob,
    body st (OSampleLazy z c) = EV (st', ob) ->
    alookup (lazies st') z = Some (LzCell c, z) /\ ob = [] /\ F st' = F st /\
    (forall z', z' <> z -> alookup (lazies st') z' = alookup (lazies st) z').
Proof.
  intros st z c st' ob H. rewrite sample_lazy_body in H. injection H as <- <-. cbn [lazies].
  split; [apply alookup_aset_eq|]. split; [reflexivity|]. split; [reflexivity|].
  intros z' Hne. apply alookup_aset_neq. exact Hne.
Qed.

(* forcing inside the transaction of the take, right after it *)
Lemma sample_lazy_force_now : forall st z c st' ob v,
    body st (OSampleLazy z c) = EV (st', ob) ->
    (body st' (OForce z) = EV (st', [BForced z v]) <-> cur st' (F st') c = EV v).
Proof.
  intros st z c st' ob v H. apply sample_lazy_entry in H. destruct H as [H _].
  exact (force_cell st' z c z v H).
Qed.

(* ------------------------------------------------------------------ cur under changes of the lazies *)

(* cur reads the lazy table only through the handles recorded in linit *)
Lemma cur_ext_lazies : forall st st',
    defs st' = defs st -> cvals st' = cvals st -> inits st' = inits st -> linit st' = linit st ->
    loops st' = loops st ->
    (forall h z, alookup (linit st) h = Some z -> alookup (lazies st') z = alookup (lazies st) z) ->
    forall n c, cur st' n c = cur st n c.
Proof.
  intros st st' H1 H2 H3 H4 H6 H5 n. induction n as [|n IH]; intros c; [reflexivity|].
  rewrite !cur_S. unfold def_of. rewrite H1, H2, H3, H4, H6.
  destruct (alookup (cvals st) c); [reflexivity|].
  destruct (alookup (defs st) c) as [d|]; [|reflexivity]. cbn [ebind].
  destruct d; try reflexivity.
  - destruct (alookup (inits st) c); [reflexivity|].
    destruct (alookup (linit st) c) as [z|] eqn:El; [|reflexivity].
    rewrite (H5 c z El).
    destruct (alookup (lazies st) z) as [[[v|c'] i]|]; try reflexivity. apply IH.
  - rewrite IH. reflexivity.
  - rewrite (emap_ext (cur st' n) (cur st n) cs (fun x _ => IH x)). reflexivity.
  - rewrite IH. destruct (cur st n c0) as [v|e]; [|reflexivity]. cbn [ebind].
    destruct v; try reflexivity. apply IH.
  - destruct (alookup (loops st) c); [apply IH | reflexivity].
Qed.

(* no hold of the open transaction was created from lazy handle z *)
Definition unreferenced (st : state) (z : nat) : Prop := forall h, alookup (linit st) h <> Some z.

(* operations whose body creates no object, closes no loop and alters no lazy that a hold reads:
   every cell reads the same before and after (errors included), with the same fuel *)
Definition cur_neutral (st : state) (o : op) : Prop :=
  match o with
  | OSend _ _ | OSample _ | OListen _ _ | OUnlisten _ | OPostK _ _ | OForce _ | ONop
  | OBegin | OEnd | OTNew _ | OTClose _ => True
  | OSampleLazy z _ | OLazyNew z _ | OCloneLazy _ z => unreferenced st z
  | _ => False
  end.

Lemma body_neutral_cur : forall st o st' ob,
    cur_neutral st o -> body st o = EV (st', ob) ->
    F st' = F st /\ linit st' = linit st /\ forall n c, cur st' n c = cur st n c.
Proof.
  intros st o st' ob Hp H.
  c17_body_inv H; cbn [cur_neutral] in Hp; try (exfalso; exact Hp);
    (split; [reflexivity|]); (split; [reflexivity|]); try reflexivity;
    try (apply cur_ext_state; reflexivity);
    (apply cur_ext_lazies; try reflexivity; cbn [lazies linit];
     intros h0 z0 Hl; apply alookup_aset_neq; intros ->; exact (Hp h0 Hl)).
Qed.

(* operations that do not re-bind the lazy handle z *)
Definition no_rebind (z : nat) (o : op) : Prop :=
  match o with
  | OSampleLazy z0 _ | OLazyNew z0 _ | OCloneLazy _ z0 => z0 <> z
  | _ => True
  end.

Lemma body_lazies_keep : forall st o st' ob z,
    no_rebind z o -> body st o = EV (st', ob) -> alookup (lazies st') z = alookup (lazies st) z.
Proof.
  intros st o st' ob z Hn H.
  c17_body_inv H; cbn [no_rebind] in Hn; cbn [lazies with_defs]; try reflexivity;
    apply alookup_aset_neq; congruence.
Qed.

(* a sequence of operation bodies inside one open transaction; Q may look at the state each
   operation starts from.  (Inside a transaction [step] of a non-bracket operation is its body, see
   [step_in_txn] below; nested brackets only move [depth] / [tdone], which neither [body] nor [cur]
   nor [close_txn]'s lazies read.) *)
Inductive in_txn (Q : state -> op -> Prop) : state -> list op -> state -> Prop :=
| it_nil : forall st, in_txn Q st [] st
| it_cons : forall st o st1 ob t st2,
    Q st o -> body st o = EV (st1, ob) -> in_txn Q st1 t st2 -> in_txn Q st (o :: t) st2.

Definition bracket (o : op) : Prop :=
  match o with OBegin | OEnd | OTNew _ | OTClose _ => True | _ => False end.

Lemma step_in_txn : forall choice st o n,
    depth st = S n -> ~ bracket o ->
    step choice st o = elet r <- body st o; EV (fst r, snd r, []).
Proof.
  intros choice st o n Hd Hb. destruct o; cbn [step]; try rewrite Hd; try reflexivity;
    exfalso; apply Hb; exact I.
Qed.

Lemma in_txn_weaken : forall (Q Q' : state -> op -> Prop) st ops st',
    (forall s o, Q s o -> Q' s o) -> in_txn Q st ops st' -> in_txn Q' st ops st'.
Proof.
  intros Q Q' st ops st' HQ H. induction H as [st|st o st1 ob t st2 Hq Hb Ht IH].
  - constructor.
  - econstructor; [apply HQ; exact Hq | exact Hb | exact IH].
Qed.

Lemma in_txn_lazies_keep : forall z st ops st',
    in_txn (fun _ o => no_rebind z o) st ops st' -> alookup (lazies st') z = alookup (lazies st) z.
Proof.
  intros z st ops st' H. induction H as [st|st o st1 ob t st2 Hq Hb Ht IH]; [reflexivity|].
  rewrite IH. exact (body_lazies_keep _ _ _ _ _ Hq Hb).
Qed.

(* wherever in the transaction the force happens (after any neutral operations that do not re-bind
   z) it returns the same thing, errors included *)
Lemma in_txn_neutral_cur : forall st ops st',
    in_txn cur_neutral st ops st' -> F st' = F st /\ forall n c, cur st' n c = cur st n c.
Proof.
  intros st ops st' H. induction H as [st|st o st1 ob t st2 Hq Hb Ht [IH1 IH2]].
  - split; reflexivity.
  - destruct (body_neutral_cur _ _ _ _ Hq Hb) as [G1 [_ G2]]. split; [congruence|].
    intros n c. rewrite IH2. apply G2.
Qed.

Theorem force_anywhere_in_txn : forall z st ops st',
    in_txn (fun s o => cur_neutral s o /\ no_rebind z o) st ops st' ->
    lazy_value st' z = lazy_value st z.
Proof.
  intros z st ops st' H.
  pose proof (in_txn_lazies_keep z st ops st' (in_txn_weaken _ _ _ _ _ (fun s o Hq => proj2 Hq) H)) as Hl.
  destruct (in_txn_neutral_cur st ops st' (in_txn_weaken _ _ _ _ _ (fun s o Hq => proj1 Hq) H)) as [HF Hc].
  unfold lazy_value. rewrite Hl. destruct (alookup (lazies st) z) as [[[v|c] i]|]; try reflexivity.
  rewrite HF. apply Hc.
Qed.

Corollary force_anywhere_in_txn_obs : forall z st ops st' v,
    in_txn (fun s o => cur_neutral s o /\ no_rebind z o) st ops st' ->
    (body st (OForce z) = EV (st, [BForced z v]) <-> body st' (OForce z) = EV (st', [BForced z v])).
Proof.
  intros z st ops st' v H. apply force_anywhere_in_txn in H. rewrite !force_eq, H.
  destruct (lazy_value st z) as [w|e]; cbn [ebind]; split; intros G; try discriminate G; congruence.
Qed.

(* ------------------------------------------------------------------ 2. the close *)

Theorem close_lazy_resolves : forall st inj p r z c i,
    close_txn st inj p = EV r -> alookup (lazies st) z = Some (LzCell c, i) ->
    exists v, cur st (F st) c = EV v /\ alookup (lazies (r_state r)) z = Some (LzVal v, i).
Proof.
  intros st inj p r z c i H Hz. pose proof (close_lazies st inj p r z H) as G. rewrite Hz in G. exact G.
Qed.

Theorem close_lazy_val_kept : forall st inj p r z v i,
    close_txn st inj p = EV r -> alookup (lazies st) z = Some (LzVal v, i) ->
    alookup (lazies (r_state r)) z = Some (LzVal v, i).
Proof.
  intros st inj p r z v i H Hz. pose proof (close_lazies st inj p r z H) as G. rewrite Hz in G. exact G.
Qed.

(* the close resolves a lazy to exactly what a force just before the close returns *)
Theorem close_lazy_value : forall st inj p r z,
    close_txn st inj p = EV r -> alookup (lazies st) z <> None ->
    exists v i, lazy_value st z = EV v /\ alookup (lazies (r_state r)) z = Some (LzVal v, i) /\
                lazy_value (r_state r) z = EV v.
Proof.
  intros st inj p r z H Hz. pose proof (close_lazies st inj p r z H) as G. unfold lazy_value.
  destruct (alookup (lazies st) z) as [[[v|c] i]|]; [| |congruence].
  - exists v, i. rewrite G. repeat split.
  - destruct G as [v [Hc G]]. exists v, i. rewrite G. repeat split. exact Hc.
Qed.

(* after a successful close no lazy is pending *)
Theorem close_no_pending : forall st inj p r z c i,
    close_txn st inj p = EV r -> alookup (lazies (r_state r)) z <> Some (LzCell c, i).
Proof.
  intros st inj p r z c i H G. pose proof (close_lazies st inj p r z H) as K.
  destruct (alookup (lazies st) z) as [[[v|c'] i']|].
  - congruence.
  - destruct K as [v [_ K]]. congruence.
  - congruence.
Qed.

(* ------------------------------------------------------------------ 3. a resolved lazy never changes *)

Lemma set_depth_lazies : forall st n, lazies (set_depth st n) = lazies st.
Proof. reflexivity. Qed.

Theorem step_lzval_stable : forall z v i choice st o r,
    no_rebind z o -> step choice st o = EV r ->
    alookup (lazies st) z = Some (LzVal v, i) -> alookup (lazies (fst (fst r))) z = Some (LzVal v, i).
Proof.
  intros z v i.
  apply (step_inv (fun st => alookup (lazies st) z = Some (LzVal v, i)) (no_rebind z)).
  - intros st o st' ob HQ Hb HP. rewrite (body_lazies_keep _ _ _ _ _ HQ Hb). exact HP.
  - intros st inj p r H HP. exact (close_lazy_val_kept _ _ _ _ _ _ _ H HP).
  - intros st n HP. exact HP.
  - intros st t b HP. exact HP.
Qed.

Theorem step_q_lzval_stable : forall z v i st o r,
    no_rebind z o -> step_q st o = EV r ->
    alookup (lazies st) z = Some (LzVal v, i) -> alookup (lazies (fst (fst r))) z = Some (LzVal v, i).
Proof.
  intros z v i.
  apply (step_q_inv (fun st => alookup (lazies st) z = Some (LzVal v, i)) (no_rebind z)).
  - intros st o st' ob HQ Hb HP. rewrite (body_lazies_keep _ _ _ _ _ HQ Hb). exact HP.
  - intros st inj p r H HP. exact (close_lazy_val_kept _ _ _ _ _ _ _ H HP).
  - intros st n HP. exact HP.
  - intros st t b HP. exact HP.
Qed.

Theorem script_lzval_stable : forall z v i ops choices st st',
    Forall (no_rebind z) ops -> run_script choices st ops = EV st' ->
    alookup (lazies st) z = Some (LzVal v, i) -> alookup (lazies st') z = Some (LzVal v, i).
Proof.
  intros z v i.
  apply (script_inv (fun st => alookup (lazies st) z = Some (LzVal v, i)) (no_rebind z)).
  - intros st o st' ob HQ Hb HP. rewrite (body_lazies_keep _ _ _ _ _ HQ Hb). exact HP.
  - intros st inj p r H HP. exact (close_lazy_val_kept _ _ _ _ _ _ _ H HP).
  - intros st n HP. exact HP.
  - intros st t b HP. exact HP.
Qed.

Lemma run_deferred_lzval_stable : forall z v i fuel choice st q acc r,
    run_deferred fuel choice st q acc = EV r ->
    alookup (lazies st) z = Some (LzVal v, i) -> alookup (lazies (fst (fst r))) z = Some (LzVal v, i).
Proof.
  intros z v i.
  apply (run_deferred_inv (fun st => alookup (lazies st) z = Some (LzVal v, i))).
  intros st inj p r H HP. exact (close_lazy_val_kept _ _ _ _ _ _ _ H HP).
Qed.

(* ------------------------------------------------------------------ 4. headline: forced later *)

(* a resolved lazy returns its value forever: however many transactions later, whatever happened
   to the cell it came from *)
Theorem lazy_forced_later : forall z v i ops choices st st2,
    alookup (lazies st) z = Some (LzVal v, i) ->
    Forall (no_rebind z) ops -> run_script choices st ops = EV st2 ->
    body st2 (OForce z) = EV (st2, [BForced z v]).
Proof.
  intros z v i ops choices st st2 Hz HQ H.
  exact (force_val st2 z v i (script_lzval_stable z v i ops choices st st2 HQ H Hz)).
Qed.

(* the whole life of a lazy taken by sample_lazy: taken in T (state st0), any operations of T that
   do not re-bind the handle (ops1), the close of T (state st1 at the close), any later script ops2
   that does not re-bind the handle: forcing returns the value of the cell as of T, i.e. [cur] of
   the state at the close of T *)
Theorem sample_lazy_denotes_txn : forall z c st0 sta oba ops1 st1 inj p r ops2 choices st2,
    body st0 (OSampleLazy z c) = EV (sta, oba) ->
    in_txn (fun _ o => no_rebind z o) sta ops1 st1 ->
    close_txn st1 inj p = EV r ->
    Forall (no_rebind z) ops2 -> run_script choices (r_state r) ops2 = EV st2 ->
    exists v, cur st1 (F st1) c = EV v /\
              alookup (lazies (r_state r)) z = Some (LzVal v, z) /\
              body st2 (OForce z) = EV (st2, [BForced z v]).
Proof.
  intros z c st0 sta oba ops1 st1 inj p r ops2 choices st2 Ht H1 Hc HQ H2.
  apply sample_lazy_entry in Ht. destruct Ht as [Hz _].
  rewrite <- (in_txn_lazies_keep z sta ops1 st1 H1) in Hz.
  destruct (close_lazy_resolves _ _ _ _ _ _ _ Hc Hz) as [v [Hv Hr]].
  exists v. split; [exact Hv|]. split; [exact Hr|].
  exact (lazy_forced_later z v z ops2 choices _ st2 Hr HQ H2).
Qed.

(* the end of the outermost transaction as a script step *)
Theorem end_txn_resolves : forall choice st z c i r,
    depth st = 1 -> alookup (lazies st) z = Some (LzCell c, i) -> step choice st OEnd = EV r ->
    exists v, cur st (F st) c = EV v /\ alookup (lazies (fst (fst r))) z = Some (LzVal v, i).
Proof.
  intros choice st z c i r Hd Hz H. cbn [step] in H. unfold leave in H. rewrite Hd in H.
  apply ebind_EV in H. destruct H as [r1 [H1 H]]. injection H as <-. cbn [fst].
  unfold end_outer in H1. apply ebind_EV in H1. destruct H1 as [rc [Hc H1]].
  destruct (close_lazy_resolves _ _ _ _ _ _ _ Hc Hz) as [v [Hv Hr]].
  exists v. split; [exact Hv|].
  exact (run_deferred_lzval_stable z v i _ _ _ _ _ _ H1 Hr).
Qed.

(* sample_lazy outside any transaction: the operation is its own transaction *)
Theorem take_own_txn_resolves : forall choice st z c r,
    depth st = 0 -> unreferenced st z -> step choice st (OSampleLazy z c) = EV r ->
    exists v, cur st (F st) c = EV v /\ alookup (lazies (fst (fst r))) z = Some (LzVal v, z).
Proof.
  intros choice st z c r Hd Hu H. cbn [step] in H. rewrite Hd in H.
  apply ebind_EV in H. destruct H as [[sta oba] [Hb H]]. cbn [fst snd] in H.
  assert (Hn : cur_neutral (set_depth st 1) (OSampleLazy z c)) by exact Hu.
  destruct (body_neutral_cur _ _ _ _ Hn Hb) as [HF [_ Hcur]].
  pose proof (sample_lazy_entry _ _ _ _ _ Hb) as [Hz [_ [_ _]]].
  assert (Hda : depth sta = 1).
  { rewrite sample_lazy_body in Hb. injection Hb as <- _. reflexivity. }
  unfold leave in H. rewrite Hda in H.
  apply ebind_EV in H. destruct H as [r1 [H1 H]]. injection H as <-. cbn [fst].
  unfold end_outer in H1. apply ebind_EV in H1. destruct H1 as [rc [Hc H1]].
  destruct (close_lazy_resolves _ _ _ _ _ _ _ Hc Hz) as [v [Hv Hr]].
  exists v. split.
  - rewrite HF, Hcur in Hv. rewrite cur_set_depth in Hv. exact Hv.
  - exact (run_deferred_lzval_stable z v z _ _ _ _ _ _ H1 Hr).
Qed.

(* ---------------------------------------------------------------- clones *)

Lemma clone_entry : forall st z z' st' ob,
    body st (OCloneLazy z z') = EV (st', ob) ->
    alookup (lazies st) z <> None /\
    alookup (lazies st') z' = alookup (lazies st) z /\
    (forall y, y <> z' -> alookup (lazies st') y = alookup (lazies st) y).
Proof.
  intros st z z' st' ob H. cbn [body] in H.
  destruct (alookup (lazies st) z) as [e|] eqn:E; [|discriminate H]. injection H as <- <-. cbn [lazies].
  split; [discriminate|]. split; [apply alookup_aset_eq|].
  intros y Hne. apply alookup_aset_neq. exact Hne.
Qed.

(* a clone of a resolved lazy is resolved to the same value (and shares its lazy cell id) *)
Theorem clone_resolved_same : forall st z z' st' ob v i,
    alookup (lazies st) z = Some (LzVal v, i) -> body st (OCloneLazy z z') = EV (st', ob) ->
    alookup (lazies st') z' = Some (LzVal v, i) /\ body st' (OForce z') = EV (st', [BForced z' v]).
Proof.
  intros st z z' st' ob v i Hz H. apply clone_entry in H. destruct H as [_ [H _]].
  rewrite Hz in H. split; [exact H | exact (force_val st' z' v i H)].
Qed.

(* a clone made inside T while the lazy is still pending: the close of T gives both the same value *)
Theorem clone_pending_same : forall st z z' c i inj p r,
    alookup (lazies st) z = Some (LzCell c, i) -> alookup (lazies st) z' = Some (LzCell c, i) ->
    close_txn st inj p = EV r ->
    exists v, cur st (F st) c = EV v /\
              alookup (lazies (r_state r)) z = Some (LzVal v, i) /\
              alookup (lazies (r_state r)) z' = Some (LzVal v, i).
Proof.
  intros st z z' c i inj p r Hz Hz' H.
  destruct (close_lazy_resolves _ _ _ _ _ _ _ H Hz) as [v [Hv Hr]].
  destruct (close_lazy_resolves _ _ _ _ _ _ _ H Hz') as [v' [Hv' Hr']].
  assert (v' = v) by congruence. subst v'.
  exists v. repeat split; assumption.
Qed.

(* at every moment a clone forces to what the original forces to *)
Theorem clone_value_same : forall st z z' st' ob,
    body st (OCloneLazy z z') = EV (st', ob) -> z <> z' -> unreferenced st z' ->
    lazy_value st' z' = lazy_value st z /\ lazy_value st' z = lazy_value st z.
Proof.
  intros st z z' st' ob H Hne Hu.
  assert (Hn : cur_neutral st (OCloneLazy z z')) by exact Hu.
  destruct (body_neutral_cur _ _ _ _ Hn H) as [HF [_ Hcur]].
  apply clone_entry in H. destruct H as [_ [H1 H2]].
  unfold lazy_value. rewrite H1, (H2 z Hne), HF.
  destruct (alookup (lazies st) z) as [[[v|c] i]|]; split; try reflexivity; apply Hcur.
Qed.

(* the complete clone statement: take in T, clone in T (before the close) or later, force both
   later: same value *)
Theorem clone_forced_later_same : forall z z' v i ops1 ops2 ch1 ch2 st st1 stc obc st2,
    alookup (lazies st) z = Some (LzVal v, i) ->
    Forall (no_rebind z) ops1 -> run_script ch1 st ops1 = EV st1 ->
    body st1 (OCloneLazy z z') = EV (stc, obc) -> z <> z' ->
    Forall (no_rebind z) ops2 -> Forall (no_rebind z') ops2 -> run_script ch2 stc ops2 = EV st2 ->
    body st2 (OForce z) = EV (st2, [BForced z v]) /\ body st2 (OForce z') = EV (st2, [BForced z' v]).
Proof.
  intros z z' v i ops1 ops2 ch1 ch2 st st1 stc obc st2 Hz Q1 R1 Hc Hne Q2 Q2' R2.
  pose proof (script_lzval_stable z v i ops1 ch1 st st1 Q1 R1 Hz) as Hz1.
  destruct (clone_resolved_same _ _ _ _ _ _ _ Hz1 Hc) as [Hz' _].
  apply clone_entry in Hc. destruct Hc as [_ [_ Hc]]. rewrite <- (Hc z Hne) in Hz1.
  split.
  - exact (lazy_forced_later z v i ops2 ch2 stc st2 Hz1 Q2 R2).
  - exact (lazy_forced_later z' v i ops2 ch2 stc st2 Hz' Q2' R2).
Qed.

(* ------------------------------------------------------------------ 5. hold_lazy *)

Theorem hold_lazy_cur : forall st h s z st' ob n,
    body st (OHoldLazy h s z) = EV (st', ob) ->
    alookup (cvals st) h = None -> alookup (inits st) h = None ->
    cur st' (S n) h = match alookup (lazies st) z with
                      | Some (LzVal v, _) => EV v
                      | Some (LzCell c, _) => cur st' n c
                      | None => EErr Illegal
                      end.
Proof.
  intros st h s z st' ob n H Hc Hi. cbn [body] in H. injection H as <- <-.
  rewrite cur_S. unfold def_of. cbn [cvals inits linit lazies defs with_defs].
  rewrite Hc, alookup_aset_eq. cbn [ebind]. rewrite Hi, alookup_aset_eq. reflexivity.
Qed.

(* ------------------------------------------------------------------ value at the take = value at the close *)

(* st' extends st: everything [cur] can reach successfully in st reads the same in st' *)
Record ext (st st' : state) : Prop := mkExt {
  ext_len : length (defs st) <= length (defs st');
  ext_defs : forall k d, alookup (defs st) k = Some d -> alookup (defs st') k = Some d;
  ext_cvals : forall k v, alookup (cvals st) k = Some v -> alookup (cvals st') k = Some v;
  ext_cvals_new : forall k v, alookup (cvals st') k = Some v ->
                              alookup (cvals st) k = Some v \/ alookup (defs st) k = None;
  ext_inits : forall k v, alookup (inits st) k = Some v -> alookup (defs st) k <> None ->
                          alookup (inits st') k = Some v;
  ext_inits_new : forall k v, alookup (inits st') k = Some v ->
                              alookup (inits st) k = Some v \/ alookup (defs st) k = None;
  ext_linit : forall k z, alookup (linit st) k = Some z -> alookup (defs st) k <> None ->
                          alookup (linit st') k = Some z;
  ext_lazies : forall h z e, alookup (linit st) h = Some z -> alookup (defs st) h <> None ->
                             alookup (lazies st) z = Some e -> alookup (lazies st') z = Some e;
  ext_loops : forall l t, alookup (loops st) l = Some t -> alookup (loops st') l = Some t
}.

Lemma ext_refl : forall st, ext st st.
Proof. intros st. constructor; auto. Qed.

Lemma ext_trans : forall a b c, ext a b -> ext b c -> ext a c.
Proof.
  intros a b c [A1 A2 A3 A4 A5 A6 A7 A8 A9] [B1 B2 B3 B4 B5 B6 B7 B8 B9].
  assert (D : forall k, alookup (defs a) k <> None -> alookup (defs b) k <> None).
  { intros k H. destruct (alookup (defs a) k) as [d|] eqn:E; [|congruence]. rewrite (A2 k d E). discriminate. }
  constructor.
  - lia.
  - auto.
  - auto.
  - intros k v H. destruct (B4 k v H) as [G|G]; [exact (A4 k v G)|].
    right. destruct (alookup (defs a) k) as [d|] eqn:E; [|reflexivity]. apply A2 in E. congruence.
  - intros k v H Hd. apply B5; [apply A5; assumption | apply D; exact Hd].
  - intros k v H. destruct (B6 k v H) as [G|G]; [exact (A6 k v G)|].
    right. destruct (alookup (defs a) k) as [d|] eqn:E; [|reflexivity]. apply A2 in E. congruence.
  - intros k z H Hd. apply B7; [apply A7; assumption | apply D; exact Hd].
  - intros h z e H1 Hd H2. apply (B8 h z e); [exact (A7 h z H1 Hd) | exact (D h Hd) | exact (A8 h z e H1 Hd H2)].
  - auto.
Qed.

Lemma emap_ext_mono : forall (f g : nat -> ev val) l ys,
    (forall x y, f x = EV y -> g x = EV y) -> emap f l = EV ys -> emap g l = EV ys.
Proof. intros f g l ys H. apply emap_ext_EV. intros x y _. apply H. Qed.

(* a successful read is not changed by an extension *)
Lemma cur_ext_mono : forall st st', ext st st' -> forall n c v, cur st n c = EV v -> cur st' n c = EV v.
Proof.
  intros st st' [E1 E2 E3 E4 E5 E6 E7 E8 E9] n. induction n as [|n IH]; intros c v H; [discriminate H|].
  rewrite cur_S in H. rewrite cur_S.
  destruct (alookup (cvals st) c) as [w|] eqn:Ec.
  - rewrite (E3 c w Ec). exact H.
  - apply ebind_EV in H. destruct H as [d [Hd H]]. apply def_of_EV in Hd.
    assert (Ec' : alookup (cvals st') c = None).
    { destruct (alookup (cvals st') c) as [w|] eqn:G; [|reflexivity].
      destruct (E4 c w G) as [K|K]; congruence. }
    rewrite Ec', (def_of_Some st' c d (E2 c d Hd)). cbn [ebind].
    assert (Hdn : alookup (defs st) c <> None) by congruence.
    destruct d; try discriminate H.
    + (* DHold *)
      destruct (alookup (inits st) c) as [w|] eqn:Ei.
      * rewrite (E5 c w Ei Hdn). exact H.
      * assert (Ei' : alookup (inits st') c = None).
        { destruct (alookup (inits st') c) as [w|] eqn:G; [|reflexivity].
          destruct (E6 c w G) as [K|K]; congruence. }
        rewrite Ei'. destruct (alookup (linit st) c) as [z|] eqn:El; [|discriminate H].
        rewrite (E7 c z El Hdn).
        destruct (alookup (lazies st) z) as [e|] eqn:Ez; [|discriminate H].
        rewrite (E8 c z e El Hdn Ez). destruct e as [[w|c'] i]; [exact H | apply IH; exact H].
    + (* DMapC *)
      apply ebind_EV in H. destruct H as [w [Hw H]]. rewrite (IH _ _ Hw). exact H.
    + (* DLift *)
      apply ebind_EV in H. destruct H as [ws [Hw H]].
      rewrite (emap_ext_mono (cur st n) (cur st' n) cs ws (fun x y => IH x y) Hw). exact H.
    + (* DSwitchC *)
      apply ebind_EV in H. destruct H as [w [Hw H]]. rewrite (IH _ _ Hw). cbn [ebind].
      destruct w; try discriminate H. apply IH. exact H.
    + (* DCLoop *)
      destruct (alookup (loops st) c) as [t|] eqn:Elp; [|discriminate H].
      rewrite (E9 c t Elp). apply IH. exact H.
Qed.

Lemma ext_F : forall st st', ext st st' -> F st <= F st'.
Proof. intros st st' H. rewrite !F_eq. pose proof (ext_len _ _ H). lia. Qed.

Lemma cur_ext_mono_F : forall st st' c v, ext st st' -> cur st (F st) c = EV v -> cur st' (F st') c = EV v.
Proof.
  intros st st' c v He H. apply (cur_mono st' (F st) c v); [|exact (ext_F _ _ He)].
  exact (cur_ext_mono st st' He _ _ _ H).
Qed.

(* operations with fresh keys: new objects get keys not defined yet, new lazies get handles that are
   not bound yet (or that no hold of the open transaction reads).  Loop closing is always allowed
   (body fails when the loop is closed already). *)
Definition fresh_op (st : state) (o : op) : Prop :=
  match o with
  | ODef h _ | OHold h _ _ | OHoldLazy h _ _ => alookup (defs st) h = None
  | OConst h _ => alookup (defs st) h = None /\ alookup (cvals st) h = None
  | OListenC _ vh _ => alookup (defs st) vh = None
  | OSampleLazy z _ | OLazyNew z _ | OCloneLazy _ z => alookup (lazies st) z = None \/ unreferenced st z
  | _ => True
  end.

Lemma aset_length_new : forall {A} (l : list (nat * A)) k v, alookup l k = None -> length (aset l k v) = S (length l).
Proof.
  intros A l k v H. unfold aset. cbn [length]. f_equal.
  induction l as [|[k0 v0] t IH]; [reflexivity|]. simpl in H. simpl.
  destruct (Nat.eqb k k0) eqn:E; [discriminate H|]. rewrite Nat.eqb_sym, E. simpl. f_equal. exact (IH H).
Qed.

Lemma alookup_aset_mono : forall {A} (l : list (nat * A)) h x k d,
    alookup l h = None -> alookup l k = Some d -> alookup (aset l h x) k = Some d.
Proof.
  intros A l h x k d Hn H. rewrite alookup_aset_neq; [exact H|]. intros ->. congruence.
Qed.

Lemma alookup_aset_new_inv : forall {A} (l : list (nat * A)) h x k d (P : Prop),
    (k = h -> P) -> alookup (aset l h x) k = Some d -> alookup l k = Some d \/ P.
Proof.
  intros A l h x k d P HP H. destruct (Nat.eq_dec k h) as [E|E]; [right; exact (HP E)|].
  left. rewrite alookup_aset_neq in H; assumption.
Qed.

Lemma lazies_aset_ext : forall st z e0 h z0 e,
    alookup (lazies st) z = None \/ unreferenced st z ->
    alookup (linit st) h = Some z0 -> alookup (lazies st) z0 = Some e ->
    alookup (aset (lazies st) z e0) z0 = Some e.
Proof.
  intros st z e0 h z0 e Hf Hl Hz. rewrite alookup_aset_neq; [exact Hz|]. intros ->.
  destruct Hf as [Hf|Hf]; [congruence | exact (Hf h Hl)].
Qed.

Lemma body_ext : forall st o st' ob, fresh_op st o -> body st o = EV (st', ob) -> ext st st'.
Proof.
  intros st o st' ob Hf H.
  c17_body_inv H; cbn [fresh_op] in Hf; try apply ext_refl;
    try match type of Hf with _ /\ _ => let Hf2 := fresh "Hf2" in destruct Hf as [Hf Hf2] end;
    constructor; cbn [defs cvals inits linit lazies loops with_defs]; auto;
    try (rewrite aset_length_new by assumption; lia);
    try (intros k0 d0 G; apply alookup_aset_mono; assumption);
    try (intros k0 d0 G Gd; rewrite alookup_aset_neq; [exact G | intros ->; exact (Gd Hf)]);
    try (intros k0 d0 G; apply (alookup_aset_new_inv _ _ _ _ _ _ (fun E => eq_ind_r (fun x => alookup (defs st) x = None) Hf E) G));
    try (intros h0 z0 e0 G1 Gd G2; eapply lazies_aset_ext; eassumption).
Qed.

Lemma in_txn_ext : forall st ops st', in_txn fresh_op st ops st' -> ext st st'.
Proof.
  intros st ops st' H. induction H as [st|st o st1 ob t st2 Hq Hb Ht IH]; [apply ext_refl|].
  exact (ext_trans _ _ _ (body_ext _ _ _ _ Hq Hb) IH).
Qed.

(* THE CONNECTION take / close.  If the cell reads v at the moment of the take, and the rest of T
   only creates objects with fresh keys / closes loops / does passive things, and does not re-bind
   the handle, then the cell still reads v at the close of T: the lazy denotes exactly the value
   the cell had when it was taken, whenever it is forced *)
Theorem sample_lazy_denotes_take : forall z c v st0 sta oba ops1 st1 inj p r ops2 choices st2,
    cur st0 (F st0) c = EV v ->
    fresh_op st0 (OSampleLazy z c) ->
    body st0 (OSampleLazy z c) = EV (sta, oba) ->
    in_txn (fun s o => fresh_op s o /\ no_rebind z o) sta ops1 st1 ->
    close_txn st1 inj p = EV r ->
    Forall (no_rebind z) ops2 -> run_script choices (r_state r) ops2 = EV st2 ->
    cur st1 (F st1) c = EV v /\
    alookup (lazies (r_state r)) z = Some (LzVal v, z) /\
    body st2 (OForce z) = EV (st2, [BForced z v]).
Proof.
  intros z c v st0 sta oba ops1 st1 inj p r ops2 choices st2 Hv Hf Ht H1 Hc HQ H2.
  assert (He : ext st0 st1).
  { apply (ext_trans _ sta _ (body_ext _ _ _ _ Hf Ht)).
    apply (in_txn_ext sta ops1 st1). exact (in_txn_weaken _ _ _ _ _ (fun s o Hq => proj1 Hq) H1). }
  pose proof (cur_ext_mono_F _ _ _ _ He Hv) as Hv1.
  destruct (sample_lazy_denotes_txn z c st0 sta oba ops1 st1 inj p r ops2 choices st2 Ht
              (in_txn_weaken _ _ _ _ _ (fun s o Hq => proj2 Hq) H1) Hc HQ H2) as [w [Hw [Hr Hfo]]].
  assert (w = v) by congruence. subst w. repeat split; assumption.
Qed.

(* every force inside T, anywhere between the take and the close, already returns v *)
Theorem sample_lazy_force_in_txn : forall z c v st0 sta oba ops1 st1,
    cur st0 (F st0) c = EV v ->
    fresh_op st0 (OSampleLazy z c) ->
    body st0 (OSampleLazy z c) = EV (sta, oba) ->
    in_txn (fun s o => fresh_op s o /\ no_rebind z o) sta ops1 st1 ->
    body st1 (OForce z) = EV (st1, [BForced z v]).
Proof.
  intros z c v st0 sta oba ops1 st1 Hv Hf Ht H1.
  assert (He : ext st0 st1).
  { apply (ext_trans _ sta _ (body_ext _ _ _ _ Hf Ht)).
    apply (in_txn_ext sta ops1 st1). exact (in_txn_weaken _ _ _ _ _ (fun s o Hq => proj1 Hq) H1). }
  pose proof (cur_ext_mono_F _ _ _ _ He Hv) as Hv1.
  apply sample_lazy_entry in Ht. destruct Ht as [Hz _].
  rewrite <- (in_txn_lazies_keep z sta ops1 st1 (in_txn_weaken _ _ _ _ _ (fun s o Hq => proj2 Hq) H1)) in Hz.
  apply (force_cell st1 z c z v Hz). exact Hv1.
Qed.

(* hold_lazy: the new hold reads the lazy's value *)
Theorem hold_lazy_reads_lazy : forall st h s z st' ob v,
    body st (OHoldLazy h s z) = EV (st', ob) ->
    alookup (defs st) h = None -> alookup (cvals st) h = None -> alookup (inits st) h = None ->
    lazy_value st z = EV v -> cur st' (F st') h = EV v.
Proof.
  intros st h s z st' ob v H Hd Hc Hi Hv.
  assert (He : ext st st') by (apply (body_ext st (OHoldLazy h s z) st' ob); [exact Hd | exact H]).
  assert (HF : F st' = S (F st)).
  { cbn [body] in H. injection H as <- _. rewrite !F_eq. cbn [defs with_defs].
    rewrite (aset_length_new _ _ _ Hd). reflexivity. }
  rewrite HF, (hold_lazy_cur _ _ _ _ _ _ (F st) H Hc Hi).
  unfold lazy_value in Hv. destruct (alookup (lazies st) z) as [[[w|c] i]|]; [exact Hv | | discriminate Hv].
  exact (cur_ext_mono _ _ He _ _ _ Hv).
Qed.

(* ------------------------------------------------------------------ concrete scripts *)

Fixpoint script_run (st : state) (ops : list op) : ev (state * list obs) :=
  match ops with
  | [] => EV (st, [])
  | o :: t => elet r <- step [] st o;
              elet r2 <- script_run (fst (fst r)) t;
              EV (fst r2, snd (fst r) ++ snd r2)
  end.

Definition script_obs (ops : list op) : ev (list obs) := elet r <- script_run init_state ops; EV (snd r).

(* sink 0, cell 1 = hold 5 of it.  In T: the lazy 7 is taken, 9 is sent, the lazy is forced (5),
   cloned to 8.  T ends: the cell is 9.  Next transaction: 11 is sent: the cell is 11.
   Two transactions after T the lazy and its clone still return 5. *)
Definition c17_script : list op :=
  [ODef 0 (DSink None); OHold 1 0 (VInt 5);
   OBegin; OSampleLazy 7 1; OSend 0 (VInt 9); OForce 7; OCloneLazy 7 8; OEnd;
   OSample 1; OSend 0 (VInt 11); OSample 1; OForce 7; OForce 8; OForce 7].

Lemma c17_script_obs :
  script_obs c17_script =
  EV [BForced 7 (VInt 5); BSample 1 (VInt 9); BSample 1 (VInt 11);
      BForced 7 (VInt 5); BForced 8 (VInt 5); BForced 7 (VInt 5)].
Proof. vm_compute. reflexivity. Qed.

(* hold_lazy: hold 3 is created in T2 from the lazy taken in T (cell 1 was 5 then, is 11 now) *)
Definition c17_script_hold : list op :=
  [ODef 0 (DSink None); OHold 1 0 (VInt 5);
   OBegin; OSampleLazy 7 1; OSend 0 (VInt 9); OEnd;
   OSend 0 (VInt 11);
   OBegin; OHoldLazy 3 0 7; OSample 3; OSample 1; OEnd; OSample 3].

Lemma c17_script_hold_obs :
  script_obs c17_script_hold =
  EV [BSample 3 (VInt 5); BSample 1 (VInt 11); BSample 3 (VInt 5)].
Proof. vm_compute. reflexivity. Qed.

(* ---------------------------------------------------------------- where take <> close
   [sample_lazy_denotes_txn] says the lazy is [cur c] of the state AT THE CLOSE of T.  This equals
   [cur c] at the take under the freshness hypotheses of [sample_lazy_denotes_take].  Without them
   it can differ; the two situations: *)

(* (a) the cell is a CellLoop not closed yet at the take: reading it then fails
   (SampledBeforeLoop); the loop is closed later in T; the lazy resolves to the looped cell's value.
   The hypothesis [cur st0 (F st0) c = EV v] of [sample_lazy_denotes_take] fails here. *)
Definition c17_script_loop : list op :=
  [OConst 0 (VInt 5);
   OBegin; ODef 1 DCLoop; OSampleLazy 7 1; OLoopC 1 0; OForce 7; OEnd; OForce 7].

Lemma c17_script_loop_obs :
  script_obs c17_script_loop = EV [BForced 7 (VInt 5); BForced 7 (VInt 5)] /\
  script_obs [OConst 0 (VInt 5); OBegin; ODef 1 DCLoop; OSampleLazy 7 1; OForce 7] = EErr SampledBeforeLoop.
Proof. split; vm_compute; reflexivity. Qed.

(* (b) an illegal script that re-defines the key of the cell inside T after the take ([fresh_op]
   fails for the second [OConst 0]): the lazy sees the re-defined cell *)
Definition c17_script_redef : list op :=
  [OConst 0 (VInt 5);
   OBegin; OSampleLazy 7 0; OForce 7; OConst 0 (VInt 6); OForce 7; OEnd; OForce 7].

Lemma c17_script_redef_obs :
  script_obs c17_script_redef = EV [BForced 7 (VInt 5); BForced 7 (VInt 6); BForced 7 (VInt 6)].
Proof. vm_compute. reflexivity. Qed.

(* ---------------------------------------------------------------- the hypotheses are satisfiable *)

Definition ev_get {A} (d : A) (x : ev A) : A := match x with EV a => a | EErr _ => d end.

(* the state inside the open transaction T of [c17_script], just before the take *)
Definition c17_st0 : state :=
  fst (ev_get (init_state, []) (script_run init_state [ODef 0 (DSink None); OHold 1 0 (VInt 5); OBegin])).

Lemma c17_hyps_satisfiable :
  exists sta oba st1 r st2,
    cur c17_st0 (F c17_st0) 1 = EV (VInt 5) /\
    fresh_op c17_st0 (OSampleLazy 7 1) /\
    body c17_st0 (OSampleLazy 7 1) = EV (sta, oba) /\
    in_txn (fun s o => fresh_op s o /\ no_rebind 7 o) sta [OSend 0 (VInt 9); OForce 7; OCloneLazy 7 8] st1 /\
    close_txn st1 (sends st1) (posts st1) = EV r /\
    Forall (no_rebind 7) [OSend 0 (VInt 11); OSample 1; OForce 8] /\
    run_script [] (r_state r) [OSend 0 (VInt 11); OSample 1; OForce 8] = EV st2 /\
    cur st2 (F st2) 1 = EV (VInt 11).
Proof.
  do 5 eexists.
  split; [vm_compute; reflexivity|].
  split; [left; vm_compute; reflexivity|].
  split; [vm_compute; reflexivity|].
  split.
  { econstructor; [split; exact I | vm_compute; reflexivity |].
    econstructor; [split; exact I | vm_compute; reflexivity |].
    econstructor; [split; [left; vm_compute; reflexivity | cbn; discriminate] | vm_compute; reflexivity |].
    constructor. }
  split; [vm_compute; reflexivity|].
  split; [repeat constructor; cbn; discriminate|].
  split; [vm_compute; reflexivity|].
  vm_compute; reflexivity.
Qed.
