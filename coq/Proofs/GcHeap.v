(* Consequences of the collector theorems for the FRP heap (properties C06, C07): under the contract WF
   (count = handles + reported edges; evaluated on the real heap by the harness's audit) nothing
   reachable is ever reclaimed, and once no handle is left one collection reclaims everything. *)
From Coq Require Import List Arith Lia Bool.
Import ListNotations.
From Sodium Require Import Gc GcExactBase GcExactInv GcExact.

(* a live object is in range and not freed *)
Lemma live_in_range s o : WF s -> live s o -> o < nobjs (g s).
Proof.
  intros W L. pose proof (WF_facts s W) as (Hlen & _ & _ & _ & Hobj).
  induction L as [h Hh | u v Lu IH Hin].
  - destruct (Nat.lt_ge_cases h (nobjs (g s))) as [Lt|Ge]; [exact Lt|].
    unfold ext_of in Hh. rewrite nth_overflow in Hh by lia. lia.
  - destruct (Hobj u IH) as (Hr & _). apply Hr. exact Hin.
Qed.

Lemma in_edges_pos st u v :
  u < nobjs st -> In v (edges (get st u)) -> 0 < in_edges st v.
Proof.
  intros Hu Hin. unfold in_edges, cnt_in.
  assert (G : forall n, u < n -> 0 < sumf (fun w => if (fun _ : nat => true) w then cnt (edges (get st w)) v else 0) n).
  { induction n as [|n IHn]; intros Hlt; [lia|]. cbn [sumf].
    destruct (Nat.eq_dec u n) as [->|Ne].
    - assert (0 < cnt (edges (get st n)) v).
      { unfold cnt. apply count_occ_In. exact Hin. }
      lia.
    - assert (u < n) by lia. specialize (IHn H). lia. }
  apply G. exact Hu.
Qed.

Theorem live_not_freed s o : WF s -> live s o -> freed (get (g s) o) = false.
Proof.
  intros W L. pose proof (WF_facts s W) as (Hlen & _ & _ & _ & Hobj).
  pose proof (live_in_range s o W L) as Ho.
  destruct (freed (get (g s) o)) eqn:Fo; [|reflexivity]. exfalso.
  destruct (Hobj o Ho) as (_ & Hrc & Hfr & _).
  destruct (Hfr Fo) as (Rc0 & _ & Ex0).
  inversion L as [h Hh Eh | u v Lu Hin Ev]; subst.
  - lia.
  - pose proof (live_in_range s u W Lu) as Hu.
    pose proof (in_edges_pos (g s) u o Hu Hin). lia.
Qed.

(* C06: through any contract-respecting run, an object reachable from a held handle is never freed *)
Theorem reachable_never_reclaimed ops s :
  srun sinit ops = Ok s -> svalid_run sinit ops = true ->
  forall o, live s o -> freed (get (g s) o) = false.
Proof.
  intros E V o L. apply live_not_freed; [|exact L]. eapply reachable_WF; eauto.
Qed.

Lemma no_handles_nothing_live s : (forall o, ext_of s o = 0) -> forall o, ~ live s o.
Proof.
  intros Hz o L. induction L as [h Hh | u v Lu IH Hin]; [rewrite Hz in Hh; lia | exact IH].
Qed.

(* C07: when the mutator holds no handle at all, a collection reclaims every object *)
Theorem no_handles_all_freed s s' :
  WF s -> (forall o, ext_of s o = 0) -> sstep s GCollect = Ok s' ->
  forall o, o < nobjs (g s) -> freed (get (g s') o) = true.
Proof.
  intros W Hz E o Ho.
  destruct (collect_exact s s' W E) as (_ & _ & _ & _ & Hall).
  destruct (Hall o Ho) as (Hiff & _). apply Hiff. right. apply no_handles_nothing_live. exact Hz.
Qed.

(* after every collection the unfreed objects are exactly the reachable ones: the collector cannot be
   the cause of steady-state growth *)
Theorem after_collect_live_kept s s' :
  WF s -> sstep s GCollect = Ok s' ->
  forall o, o < nobjs (g s) -> live s o -> freed (get (g s') o) = false.
Proof.
  intros W E o Ho L.
  destruct (collect_exact s s' W E) as (_ & _ & _ & _ & Hall).
  destruct (Hall o Ho) as (Hiff & _).
  destruct (freed (get (g s') o)) eqn:X; [|reflexivity].
  destruct (proj1 Hiff eq_refl) as [Y|Y]; [|contradiction].
  rewrite (live_not_freed s o W L) in Y. discriminate.
Qed.

Theorem after_collect_dead_freed s s' :
  WF s -> sstep s GCollect = Ok s' ->
  forall o, o < nobjs (g s) -> ~ live s o -> freed (get (g s') o) = true.
Proof.
  intros W E o Ho NL.
  destruct (collect_exact s s' W E) as (_ & _ & _ & _ & Hall).
  destruct (Hall o Ho) as (Hiff & _). apply Hiff. right. exact NL.
Qed.
