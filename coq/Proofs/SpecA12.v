(* C12: deferred work (posts, defer / split re-emissions) runs after the commit, each item in a transaction
   of its own, exactly once, per-source order preserved, for every choice list. *)
From Coq Require Import List ZArith Bool Arith Lia Permutation.
Import ListNotations.
From Sodium Require Import Sodium SpecABase SpecA14.
Open Scope nat_scope.

(* ------------------------------------------------------------------ a general invariant principle *)

Lemma run_deferred_inv : forall (P : state -> Prop) (Q : ditem -> Prop) (R : obs -> Prop),
    (forall st h v r, P st -> Q (DEvent h v) -> close_txn st [(h, v)] [] = EV r ->
                      P (r_state r) /\ Forall Q (r_deferred r) /\ Forall R (r_obs r)) ->
    (forall st k cs vs, P st -> Q (DPost k cs) -> emap (cur st (F st)) cs = EV vs -> R (BPost k vs)) ->
    forall f ch st q acc st' os a,
      P st -> Forall Q q -> Forall R acc ->
      run_deferred f ch st q acc = EV (st', os, a) -> P st' /\ Forall R os.
Proof.
  intros P Q R Hev Hpost. induction f as [|f IH]; intros ch st q acc st' os a HP HQ HR H; [discriminate|].
  rewrite run_deferred_S in H. destruct q as [|x t].
  - injection H as <- <- <-. auto.
  - cbv zeta in H.
    assert (Hin : In (dpick ch (x :: t)) (x :: t)).
    { eapply heads_sub. apply dpick_in. discriminate. }
    assert (HQd : Q (dpick ch (x :: t))) by (rewrite Forall_forall in HQ; apply HQ, Hin).
    assert (HQ' : forall s, Forall Q (remove_first s (x :: t))).
    { intros s. rewrite Forall_forall in HQ |- *. intros d Hd. apply HQ. eapply remove_first_sub; eauto. }
    destruct (dpick ch (x :: t)) as [h v|kk cs] eqn:Ed.
    + ebind_inv H r Er. ebind_inv H rest Erest. injection H as <- <- <-.
      destruct rest as [[s1 o1] a1]. destruct (Hev _ _ _ _ HP HQd Er) as (HP' & HQr & HRr).
      assert (HQn : Forall Q (remove_first (source_of (DEvent h v)) (x :: t) ++ r_deferred r))
        by (apply Forall_app; auto).
      assert (HRn : Forall R (acc ++ r_obs r)) by (apply Forall_app; auto).
      exact (IH _ _ _ _ _ _ _ HP' HQn HRn Erest).
    + ebind_inv H vs Evs. ebind_inv H rest Erest. injection H as <- <- <-.
      destruct rest as [[s1 o1] a1].
      assert (HRn : Forall R (acc ++ [BPost kk vs])).
      { apply Forall_app; split; [exact HR|]. constructor; [|constructor]. eapply Hpost; eauto. }
      exact (IH _ _ _ _ _ _ _ HP (HQ' _) HRn Erest).
Qed.

(* ------------------------------------------------------------------ execution traces *)

Definition entry := (state * ditem * list obs)%type.
Definition e_state (e : entry) : state := fst (fst e).
Definition e_item (e : entry) : ditem := snd (fst e).
Definition e_obs (e : entry) : list obs := snd e.
Definition items (tr : list entry) : list ditem := map e_item tr.
Definition trace_obs (tr : list entry) : list obs := concat (map e_obs tr).

(* [dexec st q tr enq st']: from state [st] with queue [q], the deferred items are executed as recorded in
   [tr] (state in which each item ran, the item, what it produced), the deferred transactions themselves
   enqueued [enq] (in this order), and the final state is [st'] *)
Inductive dexec : state -> list ditem -> list entry -> list ditem -> state -> Prop :=
| dx_nil : forall st, dexec st [] [] [] st
| dx_event : forall st q h v r tr enq st',
    In (DEvent h v) (heads [] q) ->
    close_txn st [(h, v)] [] = EV r ->
    dexec (r_state r) (remove_first (source_of (DEvent h v)) q ++ r_deferred r) tr enq st' ->
    dexec st q ((st, DEvent h v, r_obs r) :: tr) (r_deferred r ++ enq) st'
| dx_post : forall st q k cs vs tr enq st',
    In (DPost k cs) (heads [] q) ->
    emap (cur st (F st)) cs = EV vs ->
    dexec st (remove_first (source_of (DPost k cs)) q) tr enq st' ->
    dexec st q ((st, DPost k cs, [BPost k vs]) :: tr) enq st'.

Lemma run_deferred_dexec : forall f ch st q acc st' os a,
    run_deferred f ch st q acc = EV (st', os, a) ->
    exists tr enq, dexec st q tr enq st' /\ os = acc ++ trace_obs tr /\ length a = length tr.
Proof.
  induction f as [|f IH]; intros ch st q acc st' os a H; [discriminate|].
  rewrite run_deferred_S in H. destruct q as [|x t].
  - injection H as <- <- <-. exists [], []. split; [constructor|]. unfold trace_obs; cbn.
    rewrite app_nil_r; auto.
  - cbv zeta in H.
    assert (Hin : In (dpick ch (x :: t)) (heads [] (x :: t))) by (apply dpick_in; discriminate).
    destruct (dpick ch (x :: t)) as [h v|kk cs] eqn:Ed.
    + ebind_inv H r Er. ebind_inv H rest Erest. injection H as <- <- <-.
      destruct rest as [[s1 o1] a1]. apply IH in Erest as (tr & enq & Hx & -> & Hl). prj.
      exists ((st, DEvent h v, r_obs r) :: tr), (r_deferred r ++ enq).
      split; [econstructor; eauto|]. unfold trace_obs; cbn. rewrite <- app_assoc. split; [reflexivity|].
      rewrite Hl; reflexivity.
    + ebind_inv H vs Evs. ebind_inv H rest Erest. injection H as <- <- <-.
      destruct rest as [[s1 o1] a1]. apply IH in Erest as (tr & enq & Hx & -> & Hl). prj.
      exists ((st, DPost kk cs, [BPost kk vs]) :: tr), enq.
      split; [econstructor; eauto|]. unfold trace_obs; cbn. rewrite <- app_assoc. split; [reflexivity|].
      rewrite Hl; reflexivity.
Qed.

(* (a) the end of the outermost transaction: commit first, then the deferred work from the committed state *)
Lemma end_outer_dexec : forall ch st st' os a,
    end_outer ch st = EV (st', os, a) ->
    exists r tr enq,
      close_txn st (sends st) (posts st) = EV r /\
      dexec (r_state r) (r_deferred r) tr enq st' /\
      os = r_obs r ++ trace_obs tr.
Proof.
  intros ch st st' os a H. unfold end_outer in H. ebind_inv H r Er.
  apply run_deferred_dexec in H as (tr & enq & Hx & -> & _).
  exists r, tr, enq; auto.
Qed.

(* the states in which deferred items run: the committed state, or the committed state of an earlier
   deferred transaction *)
Inductive committed_from (st : state) : state -> Prop :=
| cf_refl : committed_from st st
| cf_step : forall s h v r, committed_from st s -> close_txn s [(h, v)] [] = EV r -> committed_from st (r_state r).

Lemma committed_from_trans : forall a b c, committed_from a b -> committed_from b c -> committed_from a c.
Proof. intros a b c Hab Hbc. induction Hbc; [exact Hab | econstructor; eauto]. Qed.

Lemma dexec_states : forall st q tr enq st',
    dexec st q tr enq st' ->
    committed_from st st' /\ Forall (fun e => committed_from st (e_state e)) tr.
Proof.
  induction 1 as [st|st q h v r tr enq st' Hin Er Hx [IH1 IH2]|st q k cs vs tr enq st' Hin Evs Hx [IH1 IH2]].
  - split; constructor.
  - assert (Hs : committed_from st (r_state r)) by (econstructor; [constructor | exact Er]).
    split; [eapply committed_from_trans; eauto|].
    constructor; [constructor|]. rewrite Forall_forall in IH2 |- *. intros e He.
    eapply committed_from_trans; eauto.
  - split; [exact IH1|]. constructor; [constructor | exact IH2].
Qed.

Lemma committed_from_quiescent : forall st s, quiescent st -> committed_from st s -> quiescent s.
Proof. intros st s Hq H. induction H; [exact Hq | eapply close_txn_quiescent; eauto]. Qed.

(* (b) what each trace entry is *)
Lemma dexec_entry : forall st q tr enq st', dexec st q tr enq st' ->
    forall e, In e tr ->
      match e_item e with
      | DEvent h v => exists r, close_txn (e_state e) [(h, v)] [] = EV r /\ e_obs e = r_obs r
      | DPost k cs => exists vs, emap (cur (e_state e) (F (e_state e))) cs = EV vs /\ e_obs e = [BPost k vs]
      end.
Proof.
  induction 1 as [st|st q h v r tr enq st' Hin Er Hx IH|st q k cs vs tr enq st' Hin Evs Hx IH]; intros e He.
  - destruct He.
  - destruct He as [<-|He]; [|apply IH; exact He]. unfold e_item, e_state, e_obs; cbn [fst snd]. exists r; auto.
  - destruct He as [<-|He]; [|apply IH; exact He]. unfold e_item, e_state, e_obs; cbn [fst snd]. exists vs; auto.
Qed.

(* (c) per-source order, and (b) every queued item runs exactly once *)
Definition from_source (s : nat) (l : list ditem) : list ditem :=
  filter (fun d => Nat.eqb (source_of d) s) l.

Lemma from_source_app : forall s a b, from_source s (a ++ b) = from_source s a ++ from_source s b.
Proof. intros; unfold from_source; apply filter_app. Qed.

Lemma from_source_none : forall s q, (forall x, In x q -> source_of x <> s) -> from_source s q = [].
Proof.
  induction q as [|x t IH]; intros H; cbn; [reflexivity|].
  destruct (Nat.eqb (source_of x) s) eqn:E.
  - apply Nat.eqb_eq in E. exfalso; eapply H; [left; reflexivity | exact E].
  - apply IH. intros; apply H; right; auto.
Qed.

Lemma dexec_head_step : forall q d,
    In d (heads [] q) ->
    exists q1 q2, q = q1 ++ d :: q2 /\ remove_first (source_of d) q = q1 ++ q2 /\
                  (forall x, In x q1 -> source_of x <> source_of d).
Proof.
  intros q d H. apply heads_split in H as (_ & q1 & q2 & -> & Hq1).
  exists q1, q2. split; [reflexivity|]. split; [apply remove_first_split; exact Hq1 | exact Hq1].
Qed.

Lemma from_source_cons : forall s d l,
    from_source s (d :: l) = if Nat.eqb (source_of d) s then d :: from_source s l else from_source s l.
Proof. reflexivity. Qed.

Lemma source_order_step : forall s d q1 q2 rest tl,
    (forall x, In x q1 -> source_of x <> source_of d) ->
    from_source s tl = from_source s ((q1 ++ q2) ++ rest) ->
    from_source s (d :: tl) = from_source s ((q1 ++ d :: q2) ++ rest).
Proof.
  intros s d q1 q2 rest tl Hq1 IH.
  rewrite !from_source_app in IH. rewrite !from_source_app, !from_source_cons, IH.
  destruct (Nat.eqb (source_of d) s) eqn:E.
  - apply Nat.eqb_eq in E. rewrite (from_source_none s q1) by (intros x Hx'; rewrite <- E; auto).
    reflexivity.
  - reflexivity.
Qed.

Lemma dexec_source_order : forall st q tr enq st',
    dexec st q tr enq st' -> forall s, from_source s (items tr) = from_source s (q ++ enq).
Proof.
  induction 1 as [st|st q h v r tr enq st' Hin Er Hx IH|st q k cs vs tr enq st' Hin Evs Hx IH]; intros s.
  - reflexivity.
  - destruct (dexec_head_step _ _ Hin) as (q1 & q2 & -> & Hrm & Hq1). rewrite Hrm in IH.
    specialize (IH s). rewrite <- app_assoc in IH.
    change (items ((st, DEvent h v, r_obs r) :: tr)) with (DEvent h v :: items tr).
    apply source_order_step; assumption.
  - destruct (dexec_head_step _ _ Hin) as (q1 & q2 & -> & Hrm & Hq1). rewrite Hrm in IH.
    specialize (IH s).
    change (items ((st, DPost k cs, [BPost k vs]) :: tr)) with (DPost k cs :: items tr).
    apply source_order_step; assumption.
Qed.

Lemma dexec_exactly_once : forall st q tr enq st',
    dexec st q tr enq st' -> Permutation (items tr) (q ++ enq).
Proof.
  induction 1 as [st|st q h v r tr enq st' Hin Er Hx IH|st q k cs vs tr enq st' Hin Evs Hx IH].
  - constructor.
  - destruct (dexec_head_step _ _ Hin) as (q1 & q2 & -> & Hrm & _). rewrite Hrm in IH.
    cbn [items map e_item fst snd]. fold (items tr).
    rewrite <- app_assoc. cbn [app]. apply Permutation_cons_app.
    rewrite IH. rewrite <- !app_assoc. reflexivity.
  - destruct (dexec_head_step _ _ Hin) as (q1 & q2 & -> & Hrm & _). rewrite Hrm in IH.
    cbn [items map e_item fst snd]. fold (items tr).
    rewrite <- app_assoc. cbn [app]. apply Permutation_cons_app.
    rewrite IH. rewrite <- !app_assoc. reflexivity.
Qed.

(* the queue [enq] is exactly what the deferred transactions produced, in execution order *)
Definition produced (e : entry) : ev (list ditem) :=
  match e_item e with
  | DEvent h v => elet r <- close_txn (e_state e) [(h, v)] []; EV (r_deferred r)
  | DPost _ _ => EV []
  end.

Lemma dexec_enq : forall st q tr enq st',
    dexec st q tr enq st' -> exists ps, emap produced tr = EV ps /\ enq = concat ps.
Proof.
  induction 1 as [st|st q h v r tr enq st' Hin Er Hx [ps [Eps ->]]|st q k cs vs tr enq st' Hin Evs Hx [ps [Eps ->]]].
  - exists []; auto.
  - exists (r_deferred r :: ps). cbn [emap]. unfold produced at 1. cbn [e_item e_state fst snd].
    rewrite Er. cbn [ebind]. rewrite Eps. auto.
  - exists ([] :: ps). cbn [emap]. unfold produced at 1. cbn [e_item e_state fst snd ebind].
    rewrite Eps. auto.
Qed.

(* everything in one statement, for the end of an outermost transaction *)
Lemma end_outer_deferred : forall ch st st' os a,
    end_outer ch st = EV (st', os, a) ->
    exists r tr enq,
      close_txn st (sends st) (posts st) = EV r /\
      os = r_obs r ++ trace_obs tr /\
      Forall (fun e => committed_from (r_state r) (e_state e)) tr /\
      committed_from (r_state r) st' /\
      (forall e, In e tr ->
         match e_item e with
         | DEvent h v => exists r', close_txn (e_state e) [(h, v)] [] = EV r' /\ e_obs e = r_obs r'
         | DPost k cs => exists vs, emap (cur (e_state e) (F (e_state e))) cs = EV vs /\ e_obs e = [BPost k vs]
         end) /\
      (exists ps, emap produced tr = EV ps /\ enq = concat ps) /\
      Permutation (items tr) (r_deferred r ++ enq) /\
      (forall s, from_source s (items tr) = from_source s (r_deferred r ++ enq)).
Proof.
  intros ch st st' os a H. apply end_outer_dexec in H as (r & tr & enq & Er & Hx & ->).
  exists r, tr, enq. destruct (dexec_states _ _ _ _ _ Hx) as [Hc Hs].
  repeat split; auto.
  - eapply dexec_entry; eauto.
  - eapply dexec_enq; eauto.
  - eapply dexec_exactly_once; eauto.
  - eapply dexec_source_order; eauto.
Qed.

(* (d) a post queued at depth 0 runs in the same step *)
Lemma In_trace_obs : forall tr e x, In e tr -> In x (e_obs e) -> In x (trace_obs tr).
Proof.
  intros tr e x He Hx. unfold trace_obs. apply in_concat. exists (e_obs e). split; [|exact Hx].
  apply in_map; exact He.
Qed.

Lemma post_runs_at_close : forall ch st st' os a k cs,
    end_outer ch st = EV (st', os, a) -> In (k, cs) (posts st) ->
    exists r s vs, close_txn st (sends st) (posts st) = EV r /\ committed_from (r_state r) s /\
                   emap (cur s (F s)) cs = EV vs /\ In (BPost k vs) os.
Proof.
  intros ch st st' os a k cs H Hin.
  apply end_outer_deferred in H as (r & tr & enq & Er & -> & Hs & _ & He & _ & Hperm & _).
  assert (Hd : In (DPost k cs) (r_deferred r)).
  { apply close_txn_inv in Er as (calls & nv & lzs & onces & defers & _ & _ & _ & _ & _ & ->). prj.
    apply in_or_app; right. unfold posts_items. apply in_map_iff. exists (k, cs). auto. }
  assert (Hi : In (DPost k cs) (items tr)).
  { eapply Permutation_in; [symmetry; exact Hperm|]. apply in_or_app; left; exact Hd. }
  unfold items in Hi. apply in_map_iff in Hi as (e & Hei & Hetr).
  specialize (He e Hetr). rewrite Hei in He. destruct He as (vs & Evs & Eo).
  rewrite Forall_forall in Hs. exists r, (e_state e), vs. repeat split; auto.
  apply in_or_app; right. eapply In_trace_obs; eauto. rewrite Eo; left; reflexivity.
Qed.

Lemma postk_same_step : forall ch st st' os a k cs,
    depth st = 0 -> step ch st (OPostK k cs) = EV (st', os, a) ->
    exists vs, In (BPost k vs) os.
Proof.
  intros ch st st' os a k cs Hd H.
  assert (Hc : closes st (OPostK k cs) = true) by (cbn; rewrite Hd; reflexivity).
  rewrite step_closing in H by exact Hc. cbn [prelude body ebind fst snd] in H.
  ebind_inv H e Ee. injection H as <- <- <-. destruct e as [[s2 o2] a2]. prj.
  eapply post_runs_at_close with (k := k) (cs := cs) in Ee as (r & s & vs & _ & _ & _ & Hin).
  - exists vs. exact Hin.
  - prj. apply in_or_app; right; left; reflexivity.
Qed.

(* posts queued inside a longer transaction run when it closes, in the order queued (same source = same key) *)
Lemma deferred_event_own_txn : forall ch st st' os a,
    end_outer ch st = EV (st', os, a) ->
    exists r tr, close_txn st (sends st) (posts st) = EV r /\ os = r_obs r ++ trace_obs tr /\
      forall e h v, In e tr -> e_item e = DEvent h v ->
        exists r', close_txn (e_state e) [(h, v)] [] = EV r' /\ e_obs e = r_obs r' /\
                   committed_from (r_state r) (e_state e).
Proof.
  intros ch st st' os a H.
  apply end_outer_deferred in H as (r & tr & enq & Er & -> & Hs & _ & He & _).
  exists r, tr. split; [exact Er|]. split; [reflexivity|].
  intros e h v Hin Hi. specialize (He e Hin). rewrite Hi in He. destruct He as (r' & Er' & Eo).
  rewrite Forall_forall in Hs. eauto.
Qed.

Lemma end_outer_unfold : forall ch st,
    end_outer ch st =
    (elet r <- close_txn st (sends st) (posts st);
     run_deferred 200 ch (r_state r) (r_deferred r) (r_obs r)).
Proof. reflexivity. Qed.

(* for every fuel, every choice list, every queue: if the run ends, the queue was consumed *)
Lemma run_deferred_complete : forall f ch st q acc st' os a,
    run_deferred f ch st q acc = EV (st', os, a) ->
    exists tr enq,
      os = acc ++ trace_obs tr /\ length a = length tr /\
      (exists ps, emap produced tr = EV ps /\ enq = concat ps) /\
      Permutation (items tr) (q ++ enq) /\
      (forall s, from_source s (items tr) = from_source s (q ++ enq)) /\
      Forall (fun e => committed_from st (e_state e)) tr /\ committed_from st st' /\
      (forall e, In e tr ->
         match e_item e with
         | DEvent h v => exists r', close_txn (e_state e) [(h, v)] [] = EV r' /\ e_obs e = r_obs r'
         | DPost k cs => exists vs, emap (cur (e_state e) (F (e_state e))) cs = EV vs /\ e_obs e = [BPost k vs]
         end).
Proof.
  intros f ch st q acc st' os a H. apply run_deferred_dexec in H as (tr & enq & Hx & -> & Hl).
  exists tr, enq. destruct (dexec_states _ _ _ _ _ Hx) as [Hc Hs].
  split; [reflexivity|]. split; [exact Hl|]. split; [eapply dexec_enq; eauto|].
  split; [eapply dexec_exactly_once; eauto|]. split; [eapply dexec_source_order; eauto|].
  split; [exact Hs|]. split; [exact Hc|]. eapply dexec_entry; eauto.
Qed.
