(* What the body of each operation changes in the state. *)
From Coq Require Import List ZArith Bool Arith Lia.
Import ListNotations.
From Sodium Require Import Sodium SpecBBase SpecBMono SpecBClose SpecBStep.
Local Open Scope nat_scope.

(* inversion of a successful body: case analysis on the operation *)
Ltac body_inv H :=
  match type of H with
  | body ?st ?o = EV (?st', ?ob) =>
    destruct o; cbn [body] in H;
    repeat match type of H with
           | ebind ?x _ = EV _ =>
             let v := fresh "v" in let Hv := fresh "Hv" in
             apply ebind_EV in H; destruct H as [v [Hv H]]
           | match ?x with _ => _ end = EV _ => destruct x eqn:?; try discriminate H
           end;
    try (injection H as <- <-)
  end.

(* the once flags are never touched by an operation body *)
Lemma body_fired : forall st o st' ob, body st o = EV (st', ob) -> fired st' = fired st.
Proof. intros st o st' ob H. body_inv H; reflexivity. Qed.

(* operations that create no object and close no loop: the cells read the same *)
Definition passive (o : op) : Prop :=
  match o with
  | OSend _ _ | OSample _ | OListen _ _ | OUnlisten _ | OPostK _ _ | OForce _ | ONop
  | OBegin | OEnd | OTNew _ | OTClose _ => True
  | _ => False
  end.

Lemma body_passive_cur : forall st o st' ob,
    passive o -> body st o = EV (st', ob) -> forall n c, cur st' n c = cur st n c.
Proof.
  intros st o st' ob Hp H. body_inv H; try destruct Hp; try reflexivity;
    apply cur_ext_state; reflexivity.
Qed.

Lemma body_passive_F : forall st o st' ob, passive o -> body st o = EV (st', ob) -> F st' = F st.
Proof. intros st o st' ob Hp H. body_inv H; try destruct Hp; reflexivity. Qed.

(* a send only appends to the pending sends *)
Lemma body_send : forall st h v,
    body st (OSend h v) =
    EV (mkState (defs st) (cvals st) (inits st) (linit st) (fired st) (fresh st) (loops st)
                (listeners st) (depth st) (tdone st) (sends st ++ [(h, v)]) (posts st) (lazies st), []).
Proof. reflexivity. Qed.

Lemma body_sample : forall st h, body st (OSample h) = elet v <- cur st (F st) h; EV (st, [BSample h v]).
Proof. reflexivity. Qed.

(* keys an operation (re)binds in defs / cvals *)
Definition binds (o : op) (h : nat) : Prop :=
  match o with
  | ODef k _ | OHold k _ _ | OHoldLazy k _ _ | OConst k _ => k = h
  | OListenC _ vh _ => vh = h
  | _ => False
  end.

Lemma body_defs_other : forall st o st' ob h,
    body st o = EV (st', ob) -> ~ binds o h -> alookup (defs st') h = alookup (defs st) h.
Proof.
  intros st o st' ob h H Hn. body_inv H; cbn [binds] in Hn; cbn [defs with_defs]; try reflexivity;
    apply alookup_aset_neq; congruence.
Qed.

Lemma body_cvals_other : forall st o st' ob h,
    body st o = EV (st', ob) -> ~ binds o h -> alookup (cvals st') h = alookup (cvals st) h.
Proof.
  intros st o st' ob h H Hn. body_inv H; cbn [binds] in Hn; cbn [cvals with_defs]; try reflexivity;
    apply alookup_aset_neq; congruence.
Qed.
