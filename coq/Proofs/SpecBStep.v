(* A generic invariance principle for [step] / [step_q]: a state property that survives the body of
   the (allowed) operations, every close_txn and the bookkeeping of transaction brackets survives
   every script step, deferred transactions included. *)
From Coq Require Import List ZArith Bool Arith Lia.
Import ListNotations.
From Sodium Require Import Sodium SpecBBase SpecBMono SpecBClose.
Local Open Scope nat_scope.

Definition set_tdone (st : state) (t : nat) (b : bool) : state :=
  mkState (defs st) (cvals st) (inits st) (linit st) (fired st) (fresh st) (loops st)
          (listeners st) (depth st) (aset (tdone st) t b) (sends st) (posts st) (lazies st).

Lemma run_deferred_S : forall f choice st q acc,
    run_deferred (S f) choice st q acc =
    match heads [] q with
    | [] => EV (st, acc, [])
    | hs =>
      let k := match choice with c :: _ => Nat.modulo c (length hs) | [] => O end in
      let d := nth k hs (DPost 0 []) in
      let q' := remove_first (source_of d) q in
      match d with
      | DEvent h v =>
        elet r <- close_txn st [(h, v)] [];
        elet rest <- run_deferred f (tl choice) (r_state r) (q' ++ r_deferred r) (acc ++ r_obs r);
        EV (fst (fst rest), snd (fst rest), length hs :: snd rest)
      | DPost kk cs =>
        elet vs <- emap (cur st (F st)) cs;
        elet rest <- run_deferred f (tl choice) st q' (acc ++ [BPost kk vs]);
        EV (fst (fst rest), snd (fst rest), length hs :: snd rest)
      end
    end.
Proof. reflexivity. Qed.
Global Arguments run_deferred : simpl never.

Section Invariance.
  Variable P : state -> Prop.
  Variable Q : op -> Prop.       (* the operations allowed *)
  Hypothesis P_body : forall st o st' ob, Q o -> body st o = EV (st', ob) -> P st -> P st'.
  Hypothesis P_close : forall st inj p r, close_txn st inj p = EV r -> P st -> P (r_state r).
  Hypothesis P_depth : forall st n, P st -> P (set_depth st n).
  Hypothesis P_tdone : forall st t b, P st -> P (set_tdone st t b).

  Lemma run_deferred_inv : forall fuel choice st q acc r,
      run_deferred fuel choice st q acc = EV r -> P st -> P (fst (fst r)).
  Proof.
    induction fuel as [|fuel IH]; intros choice st q acc r H HP; [discriminate H|].
    rewrite run_deferred_S in H. destruct (heads [] q) as [|d0 hs0] eqn:Eh.
    - injection H as <-. exact HP.
    - cbv zeta in H.
      destruct (nth _ (d0 :: hs0) (DPost 0 [])) as [h v|kk cs].
      + apply ebind_EV in H. destruct H as [r1 [H1 H]].
        apply ebind_EV in H. destruct H as [rest [H2 H]]. injection H as <-. simpl.
        apply IH in H2; [exact H2|]. exact (P_close _ _ _ _ H1 HP).
      + apply ebind_EV in H. destruct H as [vs [H1 H]].
        apply ebind_EV in H. destruct H as [rest [H2 H]]. injection H as <-. simpl.
        apply IH in H2; [exact H2 | exact HP].
  Qed.

  Lemma end_outer_inv : forall choice st r, end_outer choice st = EV r -> P st -> P (fst (fst r)).
  Proof.
    intros choice st r H HP. unfold end_outer in H.
    apply ebind_EV in H. destruct H as [r1 [H1 H]].
    apply run_deferred_inv in H; [exact H|]. exact (P_close _ _ _ _ H1 HP).
  Qed.

  Lemma leave_inv : forall choice st acc r, leave choice st acc = EV r -> P st -> P (fst (fst r)).
  Proof.
    intros choice st acc r H HP. unfold leave in H.
    destruct (depth st) as [|[|n]].
    - injection H as <-. simpl. apply P_depth. exact HP.
    - apply ebind_EV in H. destruct H as [r1 [H1 H]]. injection H as <-. simpl.
      exact (end_outer_inv _ _ _ H1 HP).
    - injection H as <-. simpl. apply P_depth. exact HP.
  Qed.

  Lemma leave_q_inv : forall st acc r, leave_q st acc = EV r -> P st -> P (fst (fst r)).
  Proof.
    intros st acc r H HP. unfold leave_q in H.
    destruct (depth st) as [|[|n]].
    - injection H as <-. simpl. apply P_depth. exact HP.
    - apply ebind_EV in H. destruct H as [r1 [H1 H]]. injection H as <-. simpl.
      exact (P_close _ _ _ _ H1 HP).
    - injection H as <-. simpl. apply P_depth. exact HP.
  Qed.

  Lemma body_step_inv : forall choice st o r,
      Q o ->
      (match depth st with
       | O => elet r0 <- body (set_depth st 1) o; leave choice (fst r0) (snd r0)
       | _ => elet r0 <- body st o; EV (fst r0, snd r0, [])
       end) = EV r -> P st -> P (fst (fst r)).
  Proof.
    intros choice st o r HQ H HP. destruct (depth st).
    - apply ebind_EV in H. destruct H as [[st1 ob] [H1 H]]. simpl in H.
      apply leave_inv in H; [exact H|]. apply (P_body _ _ _ _ HQ H1). apply P_depth. exact HP.
    - apply ebind_EV in H. destruct H as [[st1 ob] [H1 H]]. injection H as <-. simpl.
      exact (P_body _ _ _ _ HQ H1 HP).
  Qed.

  Theorem step_inv : forall choice st o r, Q o -> step choice st o = EV r -> P st -> P (fst (fst r)).
  Proof.
    intros choice st o r HQ H HP.
    destruct o; try exact (body_step_inv choice st _ r HQ H HP).
    - (* OBegin *) simpl in H. injection H as <-. simpl. apply P_depth. exact HP.
    - (* OEnd *) simpl in H. exact (leave_inv _ _ _ _ H HP).
    - (* OTNew *) simpl in H. injection H as <-. simpl.
      exact (P_tdone (set_depth st (S (depth st))) t false (P_depth st _ HP)).
    - (* OTClose *) simpl in H. destruct (alookup (tdone st) t) as [[|]|].
      + injection H as <-. exact HP.
      + apply leave_inv in H; [exact H|]. exact (P_tdone st t true HP).
      + injection H as <-. exact HP.
  Qed.

  Lemma body_step_q_inv : forall st o r,
      Q o ->
      (match depth st with
       | O => elet r0 <- body (set_depth st 1) o; leave_q (fst r0) (snd r0)
       | _ => elet r0 <- body st o; EV (fst r0, snd r0, [])
       end) = EV r -> P st -> P (fst (fst r)).
  Proof.
    intros st o r HQ H HP. destruct (depth st).
    - apply ebind_EV in H. destruct H as [[st1 ob] [H1 H]]. simpl in H.
      apply leave_q_inv in H; [exact H|]. apply (P_body _ _ _ _ HQ H1). apply P_depth. exact HP.
    - apply ebind_EV in H. destruct H as [[st1 ob] [H1 H]]. injection H as <-. simpl.
      exact (P_body _ _ _ _ HQ H1 HP).
  Qed.

  Theorem step_q_inv : forall st o r, Q o -> step_q st o = EV r -> P st -> P (fst (fst r)).
  Proof.
    intros st o r HQ H HP.
    destruct o; try exact (body_step_q_inv st _ r HQ H HP).
    - simpl in H. injection H as <-. simpl. apply P_depth. exact HP.
    - simpl in H. exact (leave_q_inv _ _ _ H HP).
    - simpl in H. injection H as <-. simpl.
      exact (P_tdone (set_depth st (S (depth st))) t false (P_depth st _ HP)).
    - simpl in H. destruct (alookup (tdone st) t) as [[|]|].
      + injection H as <-. exact HP.
      + apply leave_q_inv in H; [exact H|]. exact (P_tdone st t true HP).
      + injection H as <-. exact HP.
  Qed.

  (* a whole script *)
  Fixpoint run_script (choices : list (list nat)) (st : state) (ops : list op) : ev state :=
    match ops with
    | [] => EV st
    | o :: t => elet r <- step (hd [] choices) st o; run_script (tl choices) (fst (fst r)) t
    end.

  Theorem script_inv : forall ops choices st st',
      Forall Q ops -> run_script choices st ops = EV st' -> P st -> P st'.
  Proof.
    induction ops as [|o t IH]; intros choices st st' HQ H HP.
    - injection H as <-. exact HP.
    - simpl in H. apply ebind_EV in H. destruct H as [r [H1 H]].
      inversion HQ as [|o' t' HQo HQt]; subst.
      apply (IH _ _ _ HQt H). exact (step_inv _ _ _ _ HQo H1 HP).
  Qed.
End Invariance.

(* cur reads only these fields *)
Lemma cur_ext_state : forall st st',
    defs st' = defs st -> cvals st' = cvals st -> inits st' = inits st -> linit st' = linit st ->
    lazies st' = lazies st -> loops st' = loops st ->
    forall n c, cur st' n c = cur st n c.
Proof.
  intros st st' H1 H2 H3 H4 H5 H6 n. induction n as [|n IH]; intros c; [reflexivity|].
  rewrite !cur_S. unfold def_of. rewrite H1, H2, H3, H4, H5, H6.
  destruct (alookup (cvals st) c); [reflexivity|].
  destruct (alookup (defs st) c) as [d|]; [|reflexivity]. cbn [ebind].
  destruct d; try reflexivity.
  - destruct (alookup (inits st) c); [reflexivity|].
    destruct (alookup (linit st) c) as [z|]; [|reflexivity].
    destruct (alookup (lazies st) z) as [[[v|c'] i]|]; try reflexivity. apply IH.
  - rewrite IH. reflexivity.
  - rewrite (emap_ext (cur st' n) (cur st n) cs (fun x _ => IH x)). reflexivity.
  - rewrite IH. destruct (cur st n c0) as [v|e]; [|reflexivity]. cbn [ebind].
    destruct v; try reflexivity. apply IH.
  - destruct (alookup (loops st) c); [apply IH | reflexivity].
Qed.

Lemma cur_set_depth : forall st k n c, cur (set_depth st k) n c = cur st n c.
Proof. intros st k. apply cur_ext_state; reflexivity. Qed.

Lemma F_set_depth : forall st k, F (set_depth st k) = F st.
Proof. reflexivity. Qed.
