(* Fuel monotonicity: a value computed with fuel n is computed with every larger fuel. *)
From Coq Require Import List ZArith Bool Arith Lia.
Import ListNotations.
From Sodium Require Import Sodium SpecBBase.
Local Open Scope nat_scope.

Lemma cur_mono : forall st n c v, cur st n c = EV v -> forall m, n <= m -> cur st m c = EV v.
Proof.
  intros st n. induction n as [|n IH]; intros c v H m Hle.
  - rewrite cur_0 in H. discriminate H.
  - destruct m as [|m]; [lia|]. assert (Hle' : n <= m) by lia.
    rewrite cur_S in H |- *.
    destruct (alookup (cvals st) c) as [v0|]; [exact H|].
    destruct (def_of st c) as [d|e]; [|discriminate H]. cbn [ebind] in H |- *.
    destruct d; try discriminate H.
    + (* DHold *)
      destruct (alookup (inits st) c); [exact H|].
      destruct (alookup (linit st) c) as [z|]; [|discriminate H].
      destruct (alookup (lazies st) z) as [[[v1|c'] z']|]; [exact H | | discriminate H].
      apply IH with (1 := H). exact Hle'.
    + (* DMapC *)
      apply ebind_EV in H. destruct H as [v1 [H1 H2]].
      rewrite (IH _ _ H1 m Hle'). exact H2.
    + (* DLift *)
      apply ebind_EV in H. destruct H as [vs [H1 H2]].
      rewrite (emap_ext_EV (cur st n) (cur st m) cs vs (fun x y _ Hx => IH x y Hx m Hle') H1). exact H2.
    + (* DSwitchC *)
      apply ebind_EV in H. destruct H as [v1 [H1 H2]].
      rewrite (IH _ _ H1 m Hle'). cbn [ebind].
      destruct v1; try discriminate H2. apply IH with (1 := H2). exact Hle'.
    + (* DCLoop *)
      destruct (alookup (loops st) c) as [t|]; [|discriminate H].
      apply IH with (1 := H). exact Hle'.
Qed.

Lemma cur_F_of : forall st n c v, cur st n c = EV v -> n <= F st -> cur st (F st) c = EV v.
Proof. intros st n c v H Hle. exact (cur_mono st n c v H (F st) Hle). Qed.

Lemma occ_upd_mono : forall st inj n,
    (forall s r, occ st inj n s = EV r -> forall m, n <= m -> occ st inj m s = EV r) /\
    (forall c r, upd st inj n c = EV r -> forall m, n <= m -> upd st inj m c = EV r).
Proof.
  intros st inj n. induction n as [|n [IHo IHu]].
  - split; intros s r H; [rewrite occ_0 in H | rewrite upd_0 in H]; discriminate H.
  - split; intros s r H m Hle; (destruct m as [|m]; [lia|]); assert (Hle' : n <= m) by lia.
    + rewrite occ_S in H |- *.
      destruct (def_of st s) as [d|e]; [|discriminate H]. cbn [ebind] in H |- *.
      destruct d; try discriminate H; try exact H.
      * (* DMap *)
        apply ebind_EV in H. destruct H as [o [H1 H2]]. rewrite (IHo _ _ H1 m Hle'). exact H2.
      * (* DFilter *)
        apply ebind_EV in H. destruct H as [o [H1 H2]]. rewrite (IHo _ _ H1 m Hle'). exact H2.
      * (* DMerge *)
        apply ebind_EV in H. destruct H as [x [H1 H2]]. apply ebind_EV in H2. destruct H2 as [y [H2 H3]].
        rewrite (IHo _ _ H1 m Hle'), (IHo _ _ H2 m Hle'). exact H3.
      * (* DSnapshot *)
        apply ebind_EV in H. destruct H as [o [H1 H2]]. rewrite (IHo _ _ H1 m Hle'). exact H2.
      * (* DGate *)
        apply ebind_EV in H. destruct H as [o [H1 H2]]. rewrite (IHo _ _ H1 m Hle'). exact H2.
      * (* DOnce *)
        destruct (amem (fired st) s); [exact H|]. exact (IHo _ _ H m Hle').
      * (* DUpdates *)
        exact (IHu _ _ H m Hle').
      * (* DValue *)
        apply ebind_EV in H. destruct H as [o [H1 H2]]. rewrite (IHu _ _ H1 m Hle'). exact H2.
      * (* DSwitchS *)
        apply ebind_EV in H. destruct H as [v [H1 H2]]. rewrite H1. cbn [ebind].
        destruct v; try discriminate H2. exact (IHo _ _ H2 m Hle').
      * (* DSLoop *)
        destruct (alookup (loops st) s) as [t|]; [|exact H]. exact (IHo _ _ H m Hle').
      * (* DRouter *)
        exact (IHo _ _ H m Hle').
      * (* DRoute *)
        destruct (def_of st r0) as [dr|e]; [|discriminate H]. cbn [ebind] in H |- *.
        destruct dr; try discriminate H.
        apply ebind_EV in H. destruct H as [o [H1 H2]]. rewrite (IHo _ _ H1 m Hle'). exact H2.
    + rewrite upd_S in H |- *.
      destruct (def_of st s) as [d|e]; [|discriminate H]. cbn [ebind] in H |- *.
      destruct d; try discriminate H; try exact H.
      * (* DHold *) exact (IHo _ _ H m Hle').
      * (* DMapC *)
        apply ebind_EV in H. destruct H as [o [H1 H2]]. rewrite (IHu _ _ H1 m Hle'). exact H2.
      * (* DLift *)
        apply ebind_EV in H. destruct H as [us [H1 H2]].
        rewrite (emap_ext_EV (upd st inj n) (upd st inj m) cs us (fun x y _ Hx => IHu x y Hx m Hle') H1).
        cbn [ebind].
        destruct (existsb (fun o => match o with Some _ => true | None => false end) us); [|exact H2].
        apply ebind_EV in H2. destruct H2 as [vs [H2 H3]].
        assert (H2' : emap (fun c' => elet o <- upd st inj m c';
                                      match o with Some v => EV v | None => cur st (F st) c' end) cs = EV vs).
        { apply emap_ext_EV with (2 := H2). intros x y _ Hx.
          apply ebind_EV in Hx. destruct Hx as [o [Hx1 Hx2]]. rewrite (IHu _ _ Hx1 m Hle'). exact Hx2. }
        rewrite H2'. exact H3.
      * (* DSwitchC *)
        apply ebind_EV in H. destruct H as [o [H1 H2]]. rewrite (IHu _ _ H1 m Hle'). cbn [ebind].
        destruct o as [v|].
        -- destruct v; try discriminate H2.
           apply ebind_EV in H2. destruct H2 as [u [H2 H3]]. rewrite (IHu _ _ H2 m Hle'). exact H3.
        -- apply ebind_EV in H2. destruct H2 as [v [H2 H3]]. rewrite H2. cbn [ebind].
           destruct v; try discriminate H3. exact (IHu _ _ H3 m Hle').
      * (* DCLoop *)
        destruct (alookup (loops st) s) as [t|]; [|exact H]. exact (IHu _ _ H m Hle').
Qed.

Lemma occ_mono : forall st inj n s r, occ st inj n s = EV r -> forall m, n <= m -> occ st inj m s = EV r.
Proof. intros st inj n. exact (proj1 (occ_upd_mono st inj n)). Qed.

Lemma upd_mono : forall st inj n c r, upd st inj n c = EV r -> forall m, n <= m -> upd st inj m c = EV r.
Proof. intros st inj n. exact (proj2 (occ_upd_mono st inj n)). Qed.

(* results obtained at the top-level fuel determine the results of the recursive calls *)
Lemma occ_F_of : forall st inj n s r, occ st inj n s = EV r -> n <= F st -> occ st inj (F st) s = EV r.
Proof. intros st inj n s r H Hle. exact (occ_mono st inj n s r H (F st) Hle). Qed.

Lemma upd_F_of : forall st inj n c r, upd st inj n c = EV r -> n <= F st -> upd st inj (F st) c = EV r.
Proof. intros st inj n s r H Hle. exact (upd_mono st inj n s r H (F st) Hle). Qed.

(* two successful evaluations agree, whatever the fuels *)
Lemma cur_det : forall st n m c v w, cur st n c = EV v -> cur st m c = EV w -> v = w.
Proof.
  intros st n m c v w Hn Hm.
  pose proof (cur_mono st n c v Hn (max n m) (Nat.le_max_l n m)) as H1.
  pose proof (cur_mono st m c w Hm (max n m) (Nat.le_max_r n m)) as H2.
  congruence.
Qed.

Lemma occ_det : forall st inj n m s v w, occ st inj n s = EV v -> occ st inj m s = EV w -> v = w.
Proof.
  intros st inj n m s v w Hn Hm.
  pose proof (occ_mono st inj n s v Hn (max n m) (Nat.le_max_l n m)) as H1.
  pose proof (occ_mono st inj m s w Hm (max n m) (Nat.le_max_r n m)) as H2.
  congruence.
Qed.

Lemma upd_det : forall st inj n m s v w, upd st inj n s = EV v -> upd st inj m s = EV w -> v = w.
Proof.
  intros st inj n m s v w Hn Hm.
  pose proof (upd_mono st inj n s v Hn (max n m) (Nat.le_max_l n m)) as H1.
  pose proof (upd_mono st inj m s w Hm (max n m) (Nat.le_max_r n m)) as H2.
  congruence.
Qed.

(* a successful update evaluation reveals that the key is a cell definition *)
Lemma upd_EV_is_cell : forall st inj n c r,
    upd st inj n c = EV r -> exists d, alookup (defs st) c = Some d /\ is_cell d = true.
Proof.
  intros st inj n c r H. destruct n as [|n]; [rewrite upd_0 in H; discriminate H|].
  rewrite upd_S in H. destruct (def_of st c) as [d|e] eqn:E; [|discriminate H].
  apply def_of_EV in E. exists d. split; [exact E|].
  cbn [ebind] in H. destruct d; try discriminate H; reflexivity.
Qed.
