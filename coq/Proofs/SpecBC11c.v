(* Property C11, part c: the substitution theorem lifted to a whole transaction (close_txn of the
   substituted state = substituted close_txn of the original state: same listener calls, same
   deferred work, same committed values), and the concrete example states used by Props/C11.v. *)
From Coq Require Import List ZArith Bool Arith Lia.
Import ListNotations.
From Sodium Require Import Sodium SpecBBase SpecBMono SpecBLegal SpecBClose SpecBStep SpecBLegalB.
From Sodium Require Import SpecBC11a SpecBC11b.
Local Open Scope nat_scope.

Lemma filter_map_comm : forall {A B} (f : B -> bool) (g : A -> B) l,
    filter f (map g l) = map g (filter (fun x => f (g x)) l).
Proof.
  intros A B f g l. induction l as [|x t IH]; [reflexivity|].
  simpl. destruct (f (g x)); simpl; rewrite IH; reflexivity.
Qed.

Section CloseSubst.
  Variable st : state.
  Variable inj : list (nat * val).
  Variables rc ro : nat -> nat.
  Hypothesis HL : LegalR st inj rc ro.
  Hypothesis Hinv : LoopInv st.

  Let sub (kd : nat * def) : nat * def := (fst kd, subst_def st (snd kd)).

  Let Hcur := cur_subst_F st rc (proj1 HL) (proj1 (proj2 (proj2 HL))) Hinv.
  Let Hocc := occ_subst_F st inj rc ro HL Hinv.
  Let Hupd := upd_subst_F st inj rc ro HL Hinv.
  Let Hoccr := occ_res_s_F st inj rc ro HL Hinv.

  Lemma call_of_subst : forall lh, call_of (subst_state st) inj lh = call_of st inj lh.
  Proof. intros lh. unfold call_of. rewrite F_subst, Hocc. reflexivity. Qed.

  Lemma newval_of_subst : forall kd, newval_of (subst_state st) inj (sub kd) = newval_of st inj kd.
  Proof. intros kd. unfold newval_of, sub. cbn [fst]. rewrite F_subst, Hupd, Hcur. reflexivity. Qed.

  Lemma lz_of_subst : forall zl, lz_of (subst_state st) zl = lz_of st zl.
  Proof. intros zl. unfold lz_of. destruct (fst (snd zl)); [reflexivity|]. rewrite F_subst, Hcur. reflexivity. Qed.

  Lemma once_of_subst : forall kd, once_of (subst_state st) inj (sub kd) = once_of st inj kd.
  Proof.
    intros [k d]. unfold once_of, sub. cbn [fst snd]. destruct d; cbn [subst_def]; try reflexivity.
    rewrite F_subst, Hocc. reflexivity.
  Qed.

  Lemma defer_of_subst : forall kd, defer_of (subst_state st) inj (sub kd) = defer_of st inj kd.
  Proof.
    intros [k d]. unfold defer_of, sub. cbn [fst snd]. destruct d; cbn [subst_def]; try reflexivity.
    - rewrite F_subst, Hoccr. reflexivity.
    - rewrite F_subst, Hoccr. reflexivity.
  Qed.

  Lemma cells_of_subst : cells_of (subst_state st) = map sub (cells_of st).
  Proof.
    unfold cells_of. cbn [defs subst_state]. unfold subst_defs. fold sub.
    rewrite filter_map_comm. f_equal. apply filter_ext. intros [k d]. unfold sub. cbn [fst snd].
    apply is_cell_subst.
  Qed.

  Theorem close_subst : forall p,
      close_txn (subst_state st) inj p =
      match close_txn st inj p with
      | EV r => EV (mkRes (subst_state (r_state r)) (r_obs r) (r_deferred r))
      | EErr e => EErr e
      end.
  Proof.
    intros p. rewrite !close_txn_eq.
    rewrite listeners_subst, lazies_subst, cells_of_subst.
    change (defs (subst_state st)) with (map sub (defs st)).
    rewrite <- map_rev. rewrite !emap_map.
    rewrite (emap_ext (call_of (subst_state st) inj) (call_of st inj) _ (fun x _ => call_of_subst x)).
    rewrite (emap_ext (fun x => newval_of (subst_state st) inj (sub x)) (newval_of st inj) _
                      (fun x _ => newval_of_subst x)).
    rewrite (emap_ext (lz_of (subst_state st)) (lz_of st) _ (fun x _ => lz_of_subst x)).
    rewrite (emap_ext (fun x => once_of (subst_state st) inj (sub x)) (once_of st inj) _
                      (fun x _ => once_of_subst x)).
    rewrite (emap_ext (fun x => defer_of (subst_state st) inj (sub x)) (defer_of st inj) _
                      (fun x _ => defer_of_subst x)).
    destruct (emap (call_of st inj) (rev (listeners st))) as [calls|e]; [|reflexivity]. cbn [ebind].
    destruct (emap (newval_of st inj) (cells_of st)) as [nv|e]; [|reflexivity]. cbn [ebind].
    destruct (emap (lz_of st) (lazies st)) as [lzs|e]; [|reflexivity]. cbn [ebind].
    destruct (emap (once_of st inj) (defs st)) as [onces|e]; [|reflexivity]. cbn [ebind].
    destruct (emap (defer_of st inj) (rev (defs st))) as [defers|e]; [|reflexivity]. cbn [ebind].
    reflexivity.
  Qed.

  (* in words: same observations, same deferred work, same committed values, same failure *)
  Corollary close_subst_EV : forall p r,
      close_txn st inj p = EV r ->
      exists r', close_txn (subst_state st) inj p = EV r' /\
                 r_obs r' = r_obs r /\ r_deferred r' = r_deferred r /\
                 r_state r' = subst_state (r_state r) /\
                 cvals (r_state r') = cvals (r_state r) /\ fired (r_state r') = fired (r_state r) /\
                 lazies (r_state r') = lazies (r_state r).
  Proof.
    intros p r H. exists (mkRes (subst_state (r_state r)) (r_obs r) (r_deferred r)).
    rewrite close_subst, H. repeat split.
  Qed.

  Corollary close_subst_EErr : forall p e,
      close_txn st inj p = EErr e -> close_txn (subst_state st) inj p = EErr e.
  Proof. intros p e H. rewrite close_subst, H. reflexivity. Qed.
End CloseSubst.

(* references: a (stream / cell) reference read in the original state = its resolution read in the
   substituted state, at top-level fuel *)
Theorem ref_substitution : forall st inj rc ro,
    LegalR st inj rc ro -> LoopInv st ->
    (forall a, occ (subst_state st) inj (F st) (res_s st a) = occ st inj (F st) a) /\
    (forall c, upd (subst_state st) inj (F st) (res_c st c) = upd st inj (F st) c) /\
    (forall c, cur (subst_state st) (F st) (res_c st c) = cur st (F st) c).
Proof.
  intros st inj rc ro HL Hinv. split; [|split].
  - exact (occ_res_s_F st inj rc ro HL Hinv).
  - exact (upd_res_c_F st inj rc ro HL Hinv).
  - destruct HL as (Hbc & _ & Hc & _). exact (cur_res_c_F st rc Hbc Hc Hinv).
Qed.

(* ------------------------------------------------------------------ example states *)

Definition get_state (o : option state) : state := match o with Some s => s | None => init_state end.

(* A: a StreamLoop closed through a hold and a snapshot (an accumulator written with a StreamLoop) *)
Definition opsA : list op :=
  [OBegin; ODef 0 (DSink None); ODef 1 DSLoop; OHold 2 1 (VInt 0);
   ODef 3 (DSnapshot 0 [2] (NF2 GAdd)); OLoopS 1 3; OListen 0 1; OEnd].
Definition stA : state := Eval vm_compute in get_state (run_ops init_state opsA).
Definition injA : list (nat * val) := [(0, VInt 5)].
Definition rcA : nat -> nat := rank_of [].
Definition roA : nat -> nat := rank_of [(0, 0); (3, 1); (1, 2); (2, 3)].

Lemma stA_run : run_ops init_state opsA = Some stA.
Proof. vm_compute. reflexivity. Qed.

Lemma stA_legal : LegalR stA injA rcA roA.
Proof. apply legalb_sound. vm_compute. reflexivity. Qed.

Lemma stA_loopinv : LoopInv stA.
Proof.
  intros c t v Hd Hl Hv.
  destruct c as [|[|[|[|c]]]]; vm_compute in Hd; discriminate Hd.
Qed.

(* the substituted program: the hold is fed by the snapshot directly *)
Lemma stA_subst_defs :
  defs (subst_state stA) = [(3, DSnapshot 0 [2] (NF2 GAdd)); (2, DHold 3); (1, DSLoop); (0, DSink None)].
Proof. vm_compute. reflexivity. Qed.

Lemma stA_txn :
  exists r, close_txn stA injA [] = EV r /\ r_obs r = [BCall 0 (VInt 5)] /\
            alookup (cvals (r_state r)) 2 = Some (VInt 5).
Proof. eexists. split; [vm_compute; reflexivity|]. split; reflexivity. Qed.

(* B: the accumulator written with a CellLoop; B0 is inside the transaction that builds it (the loop
   is looped but nothing is resolved yet), B1 is the state after that transaction *)
Definition opsB0 : list op :=
  [OBegin; ODef 0 (DSink None); ODef 1 DCLoop; ODef 2 (DSnapshot 0 [1] (NF2 GAdd));
   OHold 3 2 (VInt 0); OLoopC 1 3; ODef 4 (DMapC 1 (FAdd 100%Z)); ODef 5 (DUpdates 1);
   OListen 0 2; OListen 1 5; OSend 0 (VInt 7)].
Definition stB0 : state := Eval vm_compute in get_state (run_ops init_state opsB0).
Definition stB1 : state := Eval vm_compute in get_state (run_ops init_state (opsB0 ++ [OEnd])).
Definition injB1 : list (nat * val) := [(0, VInt 5)].
Definition rcB : nat -> nat := rank_of [(3, 0); (1, 1); (4, 2)].
Definition roB : nat -> nat := rank_of [(0, 0); (2, 1); (3, 2); (1, 3); (4, 4); (5, 4)].

Lemma stB0_run : run_ops init_state opsB0 = Some stB0.
Proof. vm_compute. reflexivity. Qed.
Lemma stB1_run : run_ops init_state (opsB0 ++ [OEnd]) = Some stB1.
Proof. vm_compute. reflexivity. Qed.

Lemma stB0_legal : LegalR stB0 (sends stB0) rcB roB.
Proof. apply legalb_sound. vm_compute. reflexivity. Qed.
Lemma stB1_legal : LegalR stB1 injB1 rcB roB.
Proof. apply legalb_sound. vm_compute. reflexivity. Qed.

Lemma stB0_loopinv : LoopInv stB0.
Proof. intros c t v Hd Hl Hv. vm_compute in Hv. discriminate Hv. Qed.

Lemma stB1_loopinv : LoopInv stB1.
Proof.
  intros c t v Hd Hl Hv.
  destruct c as [|[|[|[|[|[|c]]]]]]; vm_compute in Hd; try discriminate Hd.
  vm_compute in Hl. injection Hl as <-. vm_compute in Hv. injection Hv as <-. vm_compute. reflexivity.
Qed.

(* it is also what LoopInv_close gives: B1 is the close of B0 *)
Lemma stB1_is_close : exists r, close_txn stB0 (sends stB0) (posts stB0) = EV r /\ r_state r = stB1.
Proof. eexists. split; [vm_compute; reflexivity | reflexivity]. Qed.

Lemma stB0_unresolved_loop :
  alookup (defs stB0) 1 = Some DCLoop /\ alookup (loops stB0) 1 = Some 3 /\ alookup (cvals stB0) 1 = None /\
  cur stB0 (F stB0) 1 = EV (VInt 0) /\ cur stB0 (F stB0) 3 = EV (VInt 0).
Proof. repeat split. Qed.

Lemma stB1_subst_defs :
  defs (subst_state stB1) =
  [(5, DUpdates 3); (4, DMapC 3 (FAdd 100%Z)); (3, DHold 2); (2, DSnapshot 0 [3] (NF2 GAdd));
   (1, DCLoop); (0, DSink None)].
Proof. vm_compute. reflexivity. Qed.

Lemma stB1_txn :
  exists r r', close_txn stB1 injB1 [] = EV r /\ close_txn (subst_state stB1) injB1 [] = EV r' /\
               r_obs r = [BCall 0 (VInt 12); BCall 1 (VInt 12)] /\ r_obs r' = r_obs r /\
               cvals (r_state r') = cvals (r_state r) /\
               alookup (cvals (r_state r)) 1 = Some (VInt 12) /\ alookup (cvals (r_state r)) 3 = Some (VInt 12).
Proof. do 2 eexists. split; [vm_compute; reflexivity|]. split; [vm_compute; reflexivity|]. repeat split. Qed.

(* N: LoopInv is a genuine hypothesis of the substitution theorem. If slot 1 is first a constant (so
   it has a committed value) and is then REDEFINED as a CellLoop looped to another cell, the state is
   legal, violates LoopInv, and the mapped cell 3 reads 1 in the program but 2 after substitution. *)
Definition opsN : list op :=
  [OConst 1 (VInt 1); OConst 2 (VInt 2); OBegin; ODef 1 DCLoop; OLoopC 1 2; ODef 3 (DMapC 1 FId)].
Definition stN : state := Eval vm_compute in get_state (run_ops init_state opsN).
Definition rkN : nat -> nat := rank_of [(2, 0); (1, 1); (3, 2)].

Lemma stN_run : run_ops init_state opsN = Some stN.
Proof. vm_compute. reflexivity. Qed.

Theorem loopinv_needed :
  LegalR stN [] rkN rkN /\ ~ LoopInv stN /\
  cur stN (F stN) 3 = EV (VInt 1) /\ cur (subst_state stN) (F stN) 3 = EV (VInt 2).
Proof.
  split; [apply legalb_sound; vm_compute; reflexivity|]. split; [|split; reflexivity].
  intros H. specialize (H 1 2 (VInt 1) eq_refl eq_refl eq_refl). vm_compute in H. discriminate H.
Qed.

(* misuse, by computation *)
Definition stM1 : state := Eval vm_compute in get_state (run_ops init_state [OBegin; ODef 1 DCLoop; ODef 2 (DMapC 1 FId)]).
Definition stM2 : state := Eval vm_compute in get_state (run_ops init_state [ODef 1 DCLoop; ODef 2 (DMapC 1 FId)]).
Definition stM3 : state :=
  Eval vm_compute in get_state (run_ops init_state [OBegin; ODef 1 DSLoop; ODef 2 DNever; ODef 3 DCLoop; OConst 4 VUnit;
                                                    OLoopS 1 2; OLoopC 3 4; OEnd]).

Lemma misuse_examples :
  Unlooped stM1 1 /\ Unlooped stM2 1 /\
  step [] stM1 (OSample 1) = EErr SampledBeforeLoop /\
  step [] stM1 (OSample 2) = EErr SampledBeforeLoop /\
  step [] stM2 (OSample 1) = EErr SampledBeforeLoop /\     (* still failing after its transaction closed *)
  step [] stM2 (OSample 2) = EErr SampledBeforeLoop /\
  step [] stM3 (OLoopS 1 2) = EErr AlreadyLooped /\
  step [] stM3 (OLoopS 1 0) = EErr AlreadyLooped /\
  step [] stM3 (OLoopC 3 4) = EErr AlreadyLooped /\
  step [] stM3 (OSample 3) = EV (stM3, [BSample 3 VUnit], []).
Proof. repeat split. Qed.

(* the scripts of the examples bind only unresolved slots, so LoopInv also follows from
   script_from_init_loopinv *)
Lemma opsB_script :
  script_binds_unresolved [] init_state (opsB0 ++ [OEnd; OSend 0 (VInt 5)]) /\
  exists st', run_script [] init_state (opsB0 ++ [OEnd; OSend 0 (VInt 5)]) = EV st' /\
              alookup (cvals st') 1 = Some (VInt 12) /\ alookup (cvals st') 3 = Some (VInt 12).
Proof.
  split; [vm_compute; repeat split|].
  eexists. split; [vm_compute; reflexivity|]. split; reflexivity.
Qed.
