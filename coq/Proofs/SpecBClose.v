(* Anatomy of close_txn: what the state after a transaction contains, in terms of occ / upd / cur
   of the state before. *)
From Coq Require Import List ZArith Bool Arith Lia.
Import ListNotations.
From Sodium Require Import Sodium SpecBBase SpecBMono.
Local Open Scope nat_scope.

Definition call_of (st : state) (inj : list (nat * val)) (lh : nat * nat) : ev (list obs) :=
  elet o <- occ st inj (F st) (snd lh);
  EV (match o with Some v => [BCall (fst lh) v] | None => [] end).

Definition newval_of (st : state) (inj : list (nat * val)) (kd : nat * def) : ev (list (nat * val)) :=
  elet u <- upd st inj (F st) (fst kd);
  match u with
  | Some v => EV [(fst kd, v)]
  | None => match cur st (F st) (fst kd) with
            | EV v => EV [(fst kd, v)]
            | EErr SampledBeforeLoop => EV []
            | EErr e => EErr e
            end
  end.

Definition lz_of (st : state) (zl : nat * (lz * nat)) : ev (nat * (lz * nat)) :=
  match fst (snd zl) with
  | LzVal v => EV zl
  | LzCell c => elet v <- cur st (F st) c; EV (fst zl, (LzVal v, snd (snd zl)))
  end.

Definition once_of (st : state) (inj : list (nat * val)) (kd : nat * def) : ev (list nat) :=
  match snd kd with
  | DOnce _ => elet o <- occ st inj (F st) (fst kd);
               EV (match o with Some _ => [fst kd] | None => [] end)
  | _ => EV []
  end.

Definition defer_of (st : state) (inj : list (nat * val)) (kd : nat * def) : ev (list ditem) :=
  match snd kd with
  | DDefer a => elet o <- occ st inj (F st) a;
                EV (match o with Some v => [DEvent (fst kd) v] | None => [] end)
  | DSplit a => elet o <- occ st inj (F st) a;
                EV (match o with
                    | Some (VList l) => map (DEvent (fst kd)) l
                    | Some v => [DEvent (fst kd) v]
                    | None => []
                    end)
  | _ => EV []
  end.

Definition cells_of (st : state) : list (nat * def) := filter (fun kd => is_cell (snd kd)) (defs st).

Lemma close_txn_eq : forall st inj p,
    close_txn st inj p =
    elet calls <- emap (call_of st inj) (rev (listeners st));
    elet nv <- emap (newval_of st inj) (cells_of st);
    elet lzs <- emap (lz_of st) (lazies st);
    elet onces <- emap (once_of st inj) (defs st);
    elet defers <- emap (defer_of st inj) (rev (defs st));
    EV (mkRes (mkState (defs st) (concat nv) [] [] (concat onces ++ fired st) [] (loops st) (listeners st)
                       0 (tdone st) [] [] lzs)
              (concat calls)
              (concat defers ++ map (fun q => DPost (fst q) (snd q)) p)).
Proof. reflexivity. Qed.

Global Arguments close_txn : simpl never.

Lemma close_txn_inv : forall st inj p r,
    close_txn st inj p = EV r ->
    exists calls nv lzs onces defers,
      emap (call_of st inj) (rev (listeners st)) = EV calls /\
      emap (newval_of st inj) (cells_of st) = EV nv /\
      emap (lz_of st) (lazies st) = EV lzs /\
      emap (once_of st inj) (defs st) = EV onces /\
      emap (defer_of st inj) (rev (defs st)) = EV defers /\
      r = mkRes (mkState (defs st) (concat nv) [] [] (concat onces ++ fired st) [] (loops st) (listeners st)
                         0 (tdone st) [] [] lzs)
                (concat calls)
                (concat defers ++ map (fun q => DPost (fst q) (snd q)) p).
Proof.
  intros st inj p r H. rewrite close_txn_eq in H.
  apply ebind_EV in H. destruct H as [calls [H1 H]].
  apply ebind_EV in H. destruct H as [nv [H2 H]].
  apply ebind_EV in H. destruct H as [lzs [H3 H]].
  apply ebind_EV in H. destruct H as [onces [H4 H]].
  apply ebind_EV in H. destruct H as [defers [H5 H]].
  injection H as <-. exists calls, nv, lzs, onces, defers. repeat split; assumption.
Qed.

(* the fields close_txn leaves alone *)
Lemma close_defs : forall st inj p r, close_txn st inj p = EV r -> defs (r_state r) = defs st.
Proof. intros st inj p r H. apply close_txn_inv in H. destruct H as (c & n & l & o & d & _ & _ & _ & _ & _ & ->). reflexivity. Qed.
Lemma close_loops : forall st inj p r, close_txn st inj p = EV r -> loops (r_state r) = loops st.
Proof. intros st inj p r H. apply close_txn_inv in H. destruct H as (c & n & l & o & d & _ & _ & _ & _ & _ & ->). reflexivity. Qed.
Lemma close_listeners : forall st inj p r, close_txn st inj p = EV r -> listeners (r_state r) = listeners st.
Proof. intros st inj p r H. apply close_txn_inv in H. destruct H as (c & n & l & o & d & _ & _ & _ & _ & _ & ->). reflexivity. Qed.
Lemma close_F : forall st inj p r, close_txn st inj p = EV r -> F (r_state r) = F st.
Proof. intros st inj p r H. unfold F. rewrite (close_defs _ _ _ _ H). reflexivity. Qed.
Lemma close_transient : forall st inj p r,
    close_txn st inj p = EV r ->
    inits (r_state r) = [] /\ linit (r_state r) = [] /\ fresh (r_state r) = [] /\
    sends (r_state r) = [] /\ posts (r_state r) = [] /\ depth (r_state r) = 0.
Proof. intros st inj p r H. apply close_txn_inv in H. destruct H as (c & n & l & o & d & _ & _ & _ & _ & _ & ->). repeat split. Qed.

(* ------------------------------------------------------------------ committed cell values *)

(* the value a cell has after the transaction: its update if any, else its current value *)
Definition commit (st : state) (inj : list (nat * val)) (h : nat) : option val :=
  match upd st inj (F st) h with
  | EV (Some v) => Some v
  | EV None => match cur st (F st) h with EV v => Some v | EErr _ => None end
  | EErr _ => None
  end.

Definition entry_of (g : nat -> option val) (k : nat) : list (nat * val) :=
  match g k with Some v => [(k, v)] | None => [] end.

Lemma newval_of_EV : forall st inj kd l,
    newval_of st inj kd = EV l ->
    l = entry_of (commit st inj) (fst kd) /\ exists u, upd st inj (F st) (fst kd) = EV u.
Proof.
  intros st inj kd l H. unfold newval_of in H. unfold entry_of, commit.
  destruct (upd st inj (F st) (fst kd)) as [u|e]; [|discriminate H]. cbn [ebind] in H.
  split; [|exists u; reflexivity].
  destruct u as [v|]; [injection H as <-; reflexivity|].
  destruct (cur st (F st) (fst kd)) as [v|e]; [injection H as <-; reflexivity|].
  destruct e; try discriminate H. injection H as <-. reflexivity.
Qed.

Lemma alookup_concat_entries_Some : forall (g : nat -> option val) (ks : list nat) h v,
    alookup (concat (map (entry_of g) ks)) h = Some v -> g h = Some v.
Proof.
  intros g ks h v. induction ks as [|k t IH]; simpl; intros H.
  - discriminate H.
  - unfold entry_of at 1 in H. destruct (g k) as [w|] eqn:Eg; simpl in H.
    + destruct (Nat.eqb h k) eqn:E.
      * apply Nat.eqb_eq in E. subst k. congruence.
      * exact (IH H).
    + exact (IH H).
Qed.

Lemma alookup_concat_entries_In : forall (g : nat -> option val) (ks : list nat) h,
    In h ks -> alookup (concat (map (entry_of g) ks)) h = g h.
Proof.
  intros g ks h. induction ks as [|k t IH]; simpl; intros Hin.
  - destruct Hin.
  - unfold entry_of at 1. destruct (g k) as [w|] eqn:Eg; simpl.
    + destruct (Nat.eqb h k) eqn:E.
      * apply Nat.eqb_eq in E. subst k. symmetry. exact Eg.
      * apply Nat.eqb_neq in E. destruct Hin as [Hq|Hin]; [congruence | exact (IH Hin)].
    + destruct Hin as [Hq|Hin].
      * subst k. destruct (alookup (concat (map (entry_of g) t)) h) as [v|] eqn:El; [|symmetry; exact Eg].
        apply alookup_concat_entries_Some in El. congruence.
      * exact (IH Hin).
Qed.

Lemma newvals_shape : forall st inj cells nv,
    emap (newval_of st inj) cells = EV nv ->
    nv = map (entry_of (commit st inj)) (map fst cells) /\
    forall h, In h (map fst cells) -> exists u, upd st inj (F st) h = EV u.
Proof.
  intros st inj cells nv H. apply emap_EV_iff in H.
  induction H as [|kd l cells' nv' Hkd Hr [IH1 IH2]].
  - split; [reflexivity | intros h []].
  - apply newval_of_EV in Hkd. destruct Hkd as [-> Hu]. split.
    + simpl. rewrite IH1. reflexivity.
    + intros h [<-|Hin]; [exact Hu | exact (IH2 h Hin)].
Qed.

Lemma cells_of_In : forall st h d, alookup (defs st) h = Some d -> is_cell d = true -> In h (map fst (cells_of st)).
Proof.
  intros st h d Hd Hc. apply alookup_In in Hd.
  apply in_map_iff. exists (h, d). split; [reflexivity|].
  unfold cells_of. apply filter_In. split; [exact Hd | exact Hc].
Qed.

(* every resolved value of the new state is the committed value of that key *)
Lemma close_cvals_Some : forall st inj p r h v,
    close_txn st inj p = EV r -> alookup (cvals (r_state r)) h = Some v -> commit st inj h = Some v.
Proof.
  intros st inj p r h v H Hl. apply close_txn_inv in H.
  destruct H as (c & nv & l & o & d & _ & Hnv & _ & _ & _ & ->). simpl in Hl.
  apply newvals_shape in Hnv. destruct Hnv as [-> _].
  exact (alookup_concat_entries_Some _ _ _ _ Hl).
Qed.

(* every cell definition gets its committed value, and its update was computed successfully *)
Lemma close_cvals_cell : forall st inj p r h d,
    close_txn st inj p = EV r -> alookup (defs st) h = Some d -> is_cell d = true ->
    alookup (cvals (r_state r)) h = commit st inj h /\ exists u, upd st inj (F st) h = EV u.
Proof.
  intros st inj p r h d H Hd Hc. apply close_txn_inv in H.
  destruct H as (c & nv & l & o & dd & _ & Hnv & _ & _ & _ & ->). simpl.
  apply newvals_shape in Hnv. destruct Hnv as [-> Hu].
  pose proof (cells_of_In st h d Hd Hc) as Hin. split.
  - exact (alookup_concat_entries_In _ _ _ Hin).
  - exact (Hu h Hin).
Qed.

(* the same, for a key whose update is known to evaluate at some fuel *)
Lemma close_cvals_upd : forall st inj p r n h u,
    close_txn st inj p = EV r -> upd st inj n h = EV u ->
    alookup (cvals (r_state r)) h = commit st inj h.
Proof.
  intros st inj p r n h u H Hu. destruct (upd_EV_is_cell _ _ _ _ _ Hu) as [d [Hd Hc]].
  exact (proj1 (close_cvals_cell _ _ _ _ _ _ H Hd Hc)).
Qed.

Lemma commit_upd_Some : forall st inj h v, upd st inj (F st) h = EV (Some v) -> commit st inj h = Some v.
Proof. intros st inj h v H. unfold commit. rewrite H. reflexivity. Qed.

Lemma commit_upd_None : forall st inj h v,
    upd st inj (F st) h = EV None -> cur st (F st) h = EV v -> commit st inj h = Some v.
Proof. intros st inj h v H Hc. unfold commit. rewrite H, Hc. reflexivity. Qed.

Lemma commit_Some_inv : forall st inj h v,
    commit st inj h = Some v ->
    upd st inj (F st) h = EV (Some v) \/ (upd st inj (F st) h = EV None /\ cur st (F st) h = EV v).
Proof.
  intros st inj h v H. unfold commit in H.
  destruct (upd st inj (F st) h) as [[w|]|e]; try discriminate H.
  - left. congruence.
  - right. destruct (cur st (F st) h) as [w|e]; [|discriminate H]. split; congruence.
Qed.

(* in the new state a resolved cell reads its committed value at every positive fuel *)
Lemma cur_resolved : forall st n h v, alookup (cvals st) h = Some v -> cur st (S n) h = EV v.
Proof. intros st n h v H. rewrite cur_S, H. reflexivity. Qed.

Lemma cur_resolved_F : forall st h v, alookup (cvals st) h = Some v -> cur st (F st) h = EV v.
Proof. intros st h v H. rewrite F_eq. apply cur_resolved. exact H. Qed.

(* ------------------------------------------------------------------ listener calls *)

Lemma concat_In : forall {A} (ls : list (list A)) x, In x (concat ls) <-> exists l, In l ls /\ In x l.
Proof. intros A ls x. apply in_concat. Qed.

Lemma close_calls : forall st inj p r l v,
    close_txn st inj p = EV r ->
    (In (BCall l v) (r_obs r) <-> exists s, In (l, s) (listeners st) /\ occ st inj (F st) s = EV (Some v)).
Proof.
  intros st inj p r l v H. apply close_txn_inv in H.
  destruct H as (calls & nv & lz & o & dd & Hc & _ & _ & _ & _ & ->). simpl.
  rewrite concat_In. apply emap_EV_iff in Hc. split.
  - intros [ob [Hin1 Hin2]].
    assert (G : forall ls cs, Forall2 (fun x y => call_of st inj x = EV y) ls cs -> In ob cs ->
                              exists lh, In lh ls /\ call_of st inj lh = EV ob).
    { intros ls cs HF. induction HF as [|x y ls' cs' Hxy HF IH]; intros Hin; [destruct Hin|].
      destruct Hin as [<-|Hin].
      - exists x. split; [left; reflexivity | exact Hxy].
      - destruct (IH Hin) as [lh [Ha Hb]]. exists lh. split; [right; exact Ha | exact Hb]. }
    destruct (G _ _ Hc Hin1) as [[l0 s0] [Ha Hb]]. apply in_rev in Ha.
    unfold call_of in Hb. simpl in Hb.
    destruct (occ st inj (F st) s0) as [oo|e] eqn:Eo; [|discriminate Hb]. cbn [ebind] in Hb.
    injection Hb as <-. destruct oo as [w|]; [|destruct Hin2].
    destruct Hin2 as [Hq|[]]. injection Hq as <- <-. exists s0. split; [exact Ha | exact Eo].
  - intros [s [Hin Ho]]. apply in_rev in Hin.
    destruct (emap_In (call_of st inj) _ calls (l, s) (proj2 (emap_EV_iff _ _ _) Hc) Hin) as [y [Hy1 Hy2]].
    exists y. split; [exact Hy2|].
    unfold call_of in Hy1. simpl in Hy1. rewrite Ho in Hy1. cbn [ebind] in Hy1. injection Hy1 as <-.
    left. reflexivity.
Qed.

(* ------------------------------------------------------------------ once flags *)

Lemma close_fired_incl : forall st inj p r h, close_txn st inj p = EV r -> In h (fired st) -> In h (fired (r_state r)).
Proof.
  intros st inj p r h H Hin. apply close_txn_inv in H.
  destruct H as (c & nv & l & o & d & _ & _ & _ & _ & _ & ->). simpl. apply in_or_app. right. exact Hin.
Qed.

Lemma close_fired_once : forall st inj p r h a v,
    close_txn st inj p = EV r -> alookup (defs st) h = Some (DOnce a) ->
    occ st inj (F st) h = EV (Some v) -> In h (fired (r_state r)).
Proof.
  intros st inj p r h a v H Hd Ho. apply close_txn_inv in H.
  destruct H as (c & nv & l & o & d & _ & _ & _ & Hon & _ & ->). simpl.
  apply in_or_app. left. apply alookup_In in Hd.
  destruct (emap_In _ _ _ _ Hon Hd) as [y [Hy1 Hy2]].
  unfold once_of in Hy1. simpl in Hy1. rewrite Ho in Hy1. cbn [ebind] in Hy1. injection Hy1 as <-.
  apply concat_In. exists [h]. split; [exact Hy2 | left; reflexivity].
Qed.

Lemma close_fired_inv : forall st inj p r h,
    close_txn st inj p = EV r -> In h (fired (r_state r)) ->
    In h (fired st) \/ exists a v, In (h, DOnce a) (defs st) /\ occ st inj (F st) h = EV (Some v).
Proof.
  intros st inj p r h H Hin. apply close_txn_inv in H.
  destruct H as (c & nv & l & o & d & _ & _ & _ & Hon & _ & ->). simpl in Hin.
  apply in_app_or in Hin. destruct Hin as [Hin|Hin]; [right | left; exact Hin].
  apply concat_In in Hin. destruct Hin as [ll [Hl1 Hl2]].
  apply emap_EV_iff in Hon. clear - Hon Hl1 Hl2.
  induction Hon as [|kd y ds os Hy HF IH]; [destruct Hl1|].
  destruct Hl1 as [<-|Hl1].
  - unfold once_of in Hy. destruct kd as [k dk]. simpl in Hy. destruct dk; try (injection Hy as <-; destruct Hl2).
    destruct (occ st inj (F st) k) as [oo|e] eqn:Eo; [|discriminate Hy]. cbn [ebind] in Hy. injection Hy as <-.
    destruct oo as [w|]; [|destruct Hl2]. destruct Hl2 as [<-|[]].
    exists s, w. split; [left; reflexivity | exact Eo].
  - destruct (IH Hl1) as [a [v [Ha Hb]]]. exists a, v. split; [right; exact Ha | exact Hb].
Qed.

(* ------------------------------------------------------------------ lazies *)

Lemma close_lazies : forall st inj p r z,
    close_txn st inj p = EV r ->
    match alookup (lazies st) z with
    | None => alookup (lazies (r_state r)) z = None
    | Some (LzVal v, i) => alookup (lazies (r_state r)) z = Some (LzVal v, i)
    | Some (LzCell c, i) => exists v, cur st (F st) c = EV v /\ alookup (lazies (r_state r)) z = Some (LzVal v, i)
    end.
Proof.
  intros st inj p r z H. apply close_txn_inv in H.
  destruct H as (c & nv & lzs & o & d & _ & _ & Hlz & _ & _ & ->). simpl.
  apply emap_EV_iff in Hlz. induction Hlz as [|zl y ls ys Hy HF IH]; simpl.
  - reflexivity.
  - destruct zl as [z0 [[v|c0] i]]; unfold lz_of in Hy; simpl in Hy.
    + injection Hy as <-. simpl. destruct (Nat.eqb z z0); [reflexivity | exact IH].
    + destruct (cur st (F st) c0) as [v|e] eqn:Ec; [|discriminate Hy]. cbn [ebind] in Hy. injection Hy as <-.
      simpl. destruct (Nat.eqb z z0); [exists v; split; [exact Ec | reflexivity] | exact IH].
Qed.
