(* C10: listener lifecycle. *)
From Coq Require Import List ZArith Bool Arith Lia Permutation.
Import ListNotations.
From Sodium Require Import Sodium SpecABase SpecA14 SpecAEquiv SpecA12 SpecA15 SpecA01.
Open Scope nat_scope.

(* operations that (re-)register listener l / that touch its registration at all *)
Definition relisten (l : nat) (o : op) : bool :=
  match o with OListen l' _ => Nat.eqb l' l | OListenC l' _ _ => Nat.eqb l' l | _ => false end.
Definition touches (l : nat) (o : op) : bool :=
  match o with OUnlisten l' => Nat.eqb l' l | _ => relisten l o end.

Definition unlistened (l : nat) (st : state) : Prop := ~ In l (keys (listeners st)).
Definition no_call_to (l : nat) (os : list obs) : Prop := forall v, ~ In (BCall l v) os.

Lemma no_call_to_app : forall l a b, no_call_to l a -> no_call_to l b -> no_call_to l (a ++ b).
Proof. intros l a b Ha Hb v Hin. apply in_app_or in Hin as [H|H]; [eapply Ha | eapply Hb]; eauto. Qed.

Lemma passive_no_call_to : forall l os, Forall passive os -> no_call_to l os.
Proof.
  intros l os H v Hin. rewrite Forall_forall in H. apply H in Hin. exact Hin.
Qed.

Lemma keys_aset_absent : forall A (tbl : list (nat * A)) l l' x,
    ~ In l (keys tbl) -> l' <> l -> ~ In l (keys (aset tbl l' x)).
Proof.
  intros A tbl l l' x Hn Hne Hin. unfold aset in Hin. cbn in Hin. destruct Hin as [E|Hin]; [congruence|].
  apply keys_filter_sub in Hin. contradiction.
Qed.

(* ------------------------------------------------------------------ bodies and the listener table *)

Lemma body_unlistened : forall l st o st' os,
    unlistened l st -> relisten l o = false -> body st o = EV (st', os) -> unlistened l st'.
Proof.
  intros l st o st' os Hn Hr H. unfold unlistened in *.
  destruct o; cbn [body] in H; cbn [relisten] in Hr;
    try (injection H as <- <-; prj; exact Hn).
  - destruct (alookup (loops st) l0); [discriminate|]. injection H as <- <-; exact Hn.
  - destruct (alookup (loops st) l0); [discriminate|]. injection H as <- <-; exact Hn.
  - injection H as <- <-; prj. apply keys_aset_absent; [exact Hn | apply Nat.eqb_neq; exact Hr].
  - injection H as <- <-; prj. intros Hin. apply keys_filter_sub in Hin. contradiction.
  - injection H as <- <-; prj. apply keys_aset_absent; [exact Hn | apply Nat.eqb_neq; exact Hr].
  - ebind_inv H v E. injection H as <- <-. exact Hn.
  - destruct (alookup (lazies st) z) as [[[v|c] m]|]; [| |discriminate].
    + injection H as <- <-. exact Hn.
    + ebind_inv H v E. injection H as <- <-. exact Hn.
  - destruct (alookup (lazies st) z); [|discriminate]. injection H as <- <-; exact Hn.
Qed.

Lemma body_unlisten : forall l st st' os, body st (OUnlisten l) = EV (st', os) -> unlistened l st'.
Proof. intros l st st' os H. cbn [body] in H. injection H as <- <-. unfold unlistened; prj. apply keys_filter_neq. Qed.

Lemma body_listener_kept : forall l st o st' os,
    touches l o = false -> body st o = EV (st', os) -> alookup (listeners st') l = alookup (listeners st) l.
Proof.
  intros l st o st' os Hr H.
  destruct o; cbn [body] in H; cbn [touches relisten] in Hr;
    try (injection H as <- <-; prj; reflexivity).
  - destruct (alookup (loops st) l0); [discriminate|]. injection H as <- <-; reflexivity.
  - destruct (alookup (loops st) l0); [discriminate|]. injection H as <- <-; reflexivity.
  - injection H as <- <-; prj. rewrite alookup_aset. rewrite Nat.eqb_sym, Hr. reflexivity.
  - injection H as <- <-; prj. rewrite alookup_filter_neq. rewrite Nat.eqb_sym, Hr. reflexivity.
  - injection H as <- <-; prj. rewrite alookup_aset. rewrite Nat.eqb_sym, Hr. reflexivity.
  - ebind_inv H v E. injection H as <- <-. reflexivity.
  - destruct (alookup (lazies st) z) as [[[v|c] m]|]; [| |discriminate].
    + injection H as <- <-. reflexivity.
    + ebind_inv H v E. injection H as <- <-. reflexivity.
  - destruct (alookup (lazies st) z); [|discriminate]. injection H as <- <-; reflexivity.
Qed.

(* ------------------------------------------------------------------ an unlistened listener is never called *)

Lemma close_no_call : forall l st inj ps r,
    unlistened l st -> close_txn st inj ps = EV r -> unlistened l (r_state r) /\ no_call_to l (r_obs r).
Proof.
  intros l st inj ps r Hn H. split.
  - destruct (close_txn_frame _ _ _ _ H) as (_ & _ & Hl & _). unfold unlistened. rewrite Hl. exact Hn.
  - intros v Hin. apply (close_calls_iff _ _ _ _ _ H) in Hin as (l' & s & v' & E & Hin & _).
    injection E as <- <-. apply Hn. unfold keys. change l with (fst (l, s)). apply in_map. exact Hin.
Qed.

Lemma end_outer_no_call : forall l ch st st' os a,
    unlistened l st -> end_outer ch st = EV (st', os, a) -> unlistened l st' /\ no_call_to l os.
Proof.
  intros l ch st st' os a Hn H. unfold end_outer in H. ebind_inv H r Er.
  destruct (close_no_call _ _ _ _ _ Hn Er) as [Hn1 Hc1].
  pose proof (run_deferred_inv (unlistened l) (fun _ => True) (fun x => forall v, x <> BCall l v)) as Hinv.
  eapply Hinv in H as [HP HR].
  - split; [exact HP|]. intros v Hin. rewrite Forall_forall in HR. eapply HR; eauto.
  - intros s h v r' HPs _ Hr'. destruct (close_no_call _ _ _ _ _ HPs Hr') as [Hn2 Hc2].
    split; [exact Hn2|]. split; [rewrite Forall_forall; intros; exact I|].
    rewrite Forall_forall. intros x Hx v' ->. eapply Hc2; eauto.
  - intros; discriminate.
  - exact Hn1.
  - rewrite Forall_forall; intros; exact I.
  - rewrite Forall_forall. intros x Hx v' ->. eapply Hc1; eauto.
Qed.

Lemma closing_no_call : forall l ch st o st' os a,
    closes st o = true ->
    (forall st1 os1, prelude st o = EV (st1, os1) -> unlistened l st1) ->
    step ch st o = EV (st', os, a) -> unlistened l st' /\ no_call_to l os.
Proof.
  intros l ch st o st' os a Hc Hpre H. rewrite step_closing in H by exact Hc.
  ebind_inv H r Er. ebind_inv H e Ee. injection H as <- <- <-. destruct r as [st1 os1], e as [[s2 o2] a2].
  prj_in Ee. prj. destruct (prelude_depth _ _ _ _ Hc Er) as [_ Hp].
  destruct (end_outer_no_call _ _ _ _ _ _ (Hpre _ _ Er) Ee) as [Hn Hno].
  split; [exact Hn|]. apply no_call_to_app; [apply passive_no_call_to; exact Hp | exact Hno].
Qed.

Lemma prelude_unlistened : forall l st o st1 os1,
    unlistened l st -> relisten l o = false -> prelude st o = EV (st1, os1) -> unlistened l st1.
Proof.
  intros l st o st1 os1 Hn Hr H. destruct (is_bracket o) eqn:Eb.
  - destruct o; try discriminate Eb; cbn in H; injection H as <- <-; exact Hn.
  - assert (Hb : prelude st o = body (set_depth st 1) o) by (destruct o; try discriminate Eb; reflexivity).
    rewrite Hb in H. eapply body_unlistened; [|exact Hr|exact H]. exact Hn.
Qed.

(* the open steps: listeners change only through the body *)
Lemma open_step_listeners : forall ch st o st' os a,
    closes st o = false -> step ch st o = EV (st', os, a) ->
    (is_bracket o = true /\ listeners st' = listeners st /\ os = []) \/
    (is_bracket o = false /\ exists n, depth st = S n /\ body st o = EV (st', os)).
Proof.
  intros ch st o st' os a Hc H. destruct (is_bracket o) eqn:Eb.
  - left. split; [reflexivity|].
    destruct o; try discriminate Eb; cbn [step] in H; cbn [closes] in Hc.
    + injection H as <- <- <-. auto.
    + rewrite leave_eq, Hc in H. injection H as <- <- <-. auto.
    + injection H as <- <- <-. auto.
    + destruct (alookup (tdone st) t) as [[|]|].
      * injection H as <- <- <-. auto.
      * rewrite leave_eq in H. prj_in H. rewrite Hc in H. injection H as <- <- <-. auto.
      * injection H as <- <- <-. auto.
  - right. split; [reflexivity|]. rewrite step_body_op in H by exact Eb.
    destruct (depth st) as [|n] eqn:En.
    { destruct o; try discriminate Eb; cbn in Hc; rewrite En in Hc; discriminate. }
    exists n. split; [reflexivity|]. ebind_inv H r Er. destruct r as [st1 os1]. injection H as <- <- <-. exact Er.
Qed.

Lemma step_unlistened : forall l ch st o st' os a,
    unlistened l st -> relisten l o = false -> step ch st o = EV (st', os, a) ->
    unlistened l st' /\ no_call_to l os.
Proof.
  intros l ch st o st' os a Hn Hr H. destruct (closes st o) eqn:Hc.
  - eapply closing_no_call; eauto. intros st1 os1 Hp. eapply prelude_unlistened; eauto.
  - pose proof (step_open _ _ _ _ _ _ Hc H) as (_ & Hp & _).
    split; [|apply passive_no_call_to; exact Hp].
    destruct (open_step_listeners _ _ _ _ _ _ Hc H) as [(_ & Hl & _)|(_ & n & _ & Hb)].
    + unfold unlistened. rewrite Hl. exact Hn.
    + eapply body_unlistened; eauto.
Qed.

Lemma step_unlisten : forall l ch st st' os a,
    step ch st (OUnlisten l) = EV (st', os, a) -> unlistened l st' /\ no_call_to l os.
Proof.
  intros l ch st st' os a H. destruct (closes st (OUnlisten l)) eqn:Hc.
  - eapply closing_no_call; eauto. intros st1 os1 Hp. cbn [prelude] in Hp. eapply body_unlisten; eauto.
  - pose proof (step_open _ _ _ _ _ _ Hc H) as (_ & Hp & _).
    split; [|apply passive_no_call_to; exact Hp].
    destruct (open_step_listeners _ _ _ _ _ _ Hc H) as [(Hb & _)|(_ & n & _ & Hb)]; [discriminate|].
    eapply body_unlisten; eauto.
Qed.

Lemma run_unlistened : forall l ch ops i st st' os,
    unlistened l st -> Forall (fun o => relisten l o = false) ops ->
    run ch i st ops = EV (st', os) -> unlistened l st' /\ no_call_to l os.
Proof.
  induction ops as [|o t IH]; intros i st st' os Hn Hr H; cbn [run] in H.
  - injection H as <- <-. split; [exact Hn | intros v []].
  - inversion Hr as [|? ? Ho Ht]; subst. ebind_inv H r Er. ebind_inv H r' Er'. injection H as <- <-.
    destruct r as [[s1 o1] a1], r' as [s2 o2]. prj_in Er'. prj.
    destruct (step_unlistened _ _ _ _ _ _ _ Hn Ho Er) as [Hn1 Hc1].
    destruct (IH _ _ _ _ Hn1 Ht Er') as [Hn2 Hc2].
    split; [exact Hn2 | apply no_call_to_app; assumption].
Qed.

(* after OUnlisten l (at any depth) no later step calls l, until l is registered again *)
Lemma unlisten_final : forall l ch ops i st st' os,
    Forall (fun o => relisten l o = false) ops ->
    run ch i st (OUnlisten l :: ops) = EV (st', os) -> unlistened l st' /\ no_call_to l os.
Proof.
  intros l ch ops i st st' os Hr H. cbn [run] in H.
  ebind_inv H r Er. ebind_inv H r' Er'. injection H as <- <-.
  destruct r as [[s1 o1] a1], r' as [s2 o2]. prj_in Er'. prj.
  destruct (step_unlisten _ _ _ _ _ _ Er) as [Hn1 Hc1].
  destruct (run_unlistened _ _ _ _ _ _ _ Hn1 Hr Er') as [Hn2 Hc2].
  split; [exact Hn2 | apply no_call_to_app; assumption].
Qed.

(* ------------------------------------------------------------------ unlisten twice = once *)

Lemma body_unlisten_absent : forall l st, unlistened l st -> body st (OUnlisten l) = body st ONop.
Proof.
  intros l st Hn. cbn [body]. rewrite filter_neq_absent by exact Hn. rewrite state_eta. reflexivity.
Qed.

Lemma step_unlisten_absent : forall l ch st, unlistened l st -> step ch st (OUnlisten l) = step ch st ONop.
Proof.
  intros l ch st Hn. rewrite !step_body_op by reflexivity.
  destruct (depth st); rewrite body_unlisten_absent; auto.
Qed.

Lemma unlisten_twice : forall l ch i st,
    run ch i st [OUnlisten l; OUnlisten l] = run ch i st [OUnlisten l; ONop].
Proof.
  intros l ch i st. cbn [run].
  destruct (step (ch i) st (OUnlisten l)) as [[[s1 o1] a1]|e] eqn:E; [|reflexivity].
  cbn [ebind fst snd]. destruct (step_unlisten _ _ _ _ _ _ E) as [Hn _].
  rewrite (step_unlisten_absent _ _ _ Hn). reflexivity.
Qed.

(* ------------------------------------------------------------------ a listener registered inside a transaction *)

Lemma open_step_listener_kept : forall l ch st o st' os a,
    closes st o = false -> touches l o = false -> step ch st o = EV (st', os, a) ->
    alookup (listeners st') l = alookup (listeners st) l.
Proof.
  intros l ch st o st' os a Hc Ht H.
  destruct (open_step_listeners _ _ _ _ _ _ Hc H) as [(_ & Hl & _)|(_ & n & _ & Hb)].
  - rewrite Hl. reflexivity.
  - eapply body_listener_kept; eauto.
Qed.

Lemma open_run_listener_kept : forall l ch ops i st st' os,
    stays_open ch i st ops -> Forall (fun o => touches l o = false) ops ->
    run ch i st ops = EV (st', os) -> alookup (listeners st') l = alookup (listeners st) l.
Proof.
  induction ops as [|o t IH]; intros i st st' os Ho Ht H; cbn [run] in H.
  - injection H as <- <-. reflexivity.
  - destruct Ho as [Hc Ho]. inversion Ht as [|? ? Hto Htt]; subst.
    ebind_inv H r Er. ebind_inv H r' Er'. injection H as <- <-.
    destruct r as [[s1 o1] a1], r' as [s2 o2]. rewrite Er in Ho. prj_in Er'. prj.
    rewrite (IH _ _ _ _ Ho Htt Er'). eapply open_step_listener_kept; eauto.
Qed.

Lemma listen_in_txn_receives : forall l s ch ch' i st ops st1 os1 st2 os2 a,
    depth st = 1 -> nested ops -> Forall (fun o => touches l o = false) ops ->
    run ch i st (OListen l s :: ops) = EV (st1, os1) ->
    step ch' st1 OEnd = EV (st2, os2, a) ->
    exists r, close_txn st1 (sends st1) (posts st1) = EV r /\
              alookup (listeners st1) l = Some s /\
              sends st1 = sends st ++ flat_map sent ops /\
              forall v, occ st1 (sends st1) (F st1) s = EV (Some v) -> In (BCall l v) os2.
Proof.
  intros l s ch ch' i st ops st1 os1 st2 os2 a Hd Hn Ht H1 H2.
  cbn [run] in H1. ebind_inv H1 r Er. ebind_inv H1 r' Er'. injection H1 as <- <-.
  destruct r as [[sa oa] aa], r' as [sb ob]. prj_in Er'. prj.
  assert (Hstep : sa = mkState (defs st) (cvals st) (inits st) (linit st) (fired st) (fresh st) (loops st)
                               (aset (listeners st) l s) (depth st) (tdone st) (sends st) (posts st) (lazies st)).
  { rewrite step_body_op in Er by reflexivity. rewrite Hd in Er. cbn [body ebind fst snd] in Er. congruence. }
  assert (Hda : depth sa = 1) by (rewrite Hstep; exact Hd).
  assert (Hop : stays_open ch (S i) sa ops) by (apply nested_stays_open; [exact Hn | lia]).
  pose proof (open_run_listener_kept l _ _ _ _ _ _ Hop Ht Er') as Hl.
  pose proof (run_nested_depth _ Hn _ _ _ _ _ Er') as Hdb.
  destruct (open_run_sends _ _ _ _ _ _ Hop Er') as (Hs & _).
  assert (Hla : alookup (listeners sa) l = Some s).
  { rewrite Hstep. prj. rewrite alookup_aset, Nat.eqb_refl. reflexivity. }
  assert (Hsa : sends sa = sends st) by (rewrite Hstep; reflexivity).
  assert (Hc : closes sb OEnd = true) by (cbn; rewrite Hdb, Hda; reflexivity).
  destruct (closing_step_obs _ _ _ _ _ _ Hc H2) as (stc & osc & r & tr & Hp & _ & _ & Er2 & -> & _).
  cbn [prelude] in Hp. injection Hp as <- <-.
  exists r. split; [exact Er2|]. split; [congruence|]. split; [congruence|].
  intros v Hv. cbn [app]. apply in_or_app; left.
  apply (close_calls_iff _ _ _ _ _ Er2). exists l, s, v. split; [reflexivity|]. split; [|exact Hv].
  apply alookup_In. congruence.
Qed.

(* ------------------------------------------------------------------ Cell::listen *)

(* the occurrence of a value() stream created in the open transaction *)
Lemma occ_value_fresh : forall st inj f s c,
    alookup (defs st) s = Some (DValue c) -> In s (fresh st) ->
    occ st inj (S f) s =
    (elet u <- upd st inj f c;
     match u with Some v => EV (Some v) | None => elet v <- cur st (F st) c; EV (Some v) end).
Proof.
  intros st inj f s c Hd Hf. rewrite occ_S. unfold def_of. rewrite Hd. cbn [ebind].
  apply amem_In in Hf. rewrite Hf. reflexivity.
Qed.

Lemma occ_value_old : forall st inj f s c,
    alookup (defs st) s = Some (DValue c) -> ~ In s (fresh st) ->
    occ st inj (S f) s = upd st inj f c.
Proof.
  intros st inj f s c Hd Hf. rewrite occ_S. unfold def_of. rewrite Hd. cbn [ebind].
  destruct (amem (fresh st) s) eqn:E; [apply amem_In in E; contradiction|].
  destruct (upd st inj f c); reflexivity.
Qed.

Lemma listenc_step : forall ch st l vh c st' os a,
    quiescent st -> NoDup (keys (listeners st)) ->
    step ch st (OListenC l vh c) = EV (st', os, a) ->
    exists st1 r tr v,
      body (set_depth st 1) (OListenC l vh c) = EV (st1, []) /\
      close_txn st1 [] [] = EV r /\ os = r_obs r ++ trace_obs tr /\
      filter (fun x => Nat.eqb (call_id x) l) (r_obs r) = [BCall l v] /\
      (upd st1 [] (S (length (defs st1))) c = EV (Some v) \/
       (upd st1 [] (S (length (defs st1))) c = EV None /\ cur st1 (F st1) c = EV v)).
Proof.
  intros ch st l vh c st' os a (Q1 & Q2 & Q3 & _) ND H.
  assert (Hc : closes st (OListenC l vh c) = true) by (cbn; rewrite Q1; reflexivity).
  destruct (closing_step_obs _ _ _ _ _ _ Hc H) as (st1 & os1 & r & tr & Hp & _ & _ & Er & -> & _).
  cbn [prelude body] in Hp. injection Hp as <- <-.
  set (st1 := mkState _ _ _ _ _ _ _ _ _ _ _ _ _) in *.
  assert (Hs : sends st1 = []) by exact Q2. assert (Hps : posts st1 = []) by exact Q3.
  rewrite Hs, Hps in Er.
  assert (Hl : alookup (listeners st1) l = Some vh).
  { subst st1; prj. rewrite alookup_aset, Nat.eqb_refl. reflexivity. }
  assert (Hd : alookup (defs st1) vh = Some (DValue c)).
  { subst st1; prj. rewrite alookup_aset, Nat.eqb_refl. reflexivity. }
  assert (Hf : In vh (fresh st1)) by (subst st1; prj; left; reflexivity).
  assert (ND1 : NoDup (keys (listeners st1))) by (subst st1; prj; apply NoDup_keys_aset; exact ND).
  destruct (close_call_of_listener _ _ _ _ _ _ ND1 Er Hl) as (o & Eo & Hfil).
  unfold F in Eo. rewrite (occ_value_fresh _ _ _ _ _ Hd Hf) in Eo. fold (F st1) in Eo.
  exists st1, r, tr.
  destruct (upd st1 [] (S (length (defs st1))) c) as [[v|]|e] eqn:Eu; cbn [ebind] in Eo; try discriminate Eo.
  - injection Eo as <-. exists v. repeat split; auto.
  - destruct (cur st1 (F st1) c) as [v|e] eqn:Ec; cbn [ebind] in Eo; [|discriminate Eo].
    injection Eo as <-. exists v. repeat split; auto.
Qed.
