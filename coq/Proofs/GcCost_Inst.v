(* The six recursive collector walks of Model/Gc.v as instances of the generic guarded walk
   (GcCost_Walk.v), plus scan (which hands over to scan_black) and display_graph. *)
From Coq Require Import List Arith Bool Lia.
Import ListNotations.
From Sodium Require Import Gc GcCost_Base GcCost_Walk.

Definition pre_id (st : gstate) (t : nat) : res gstate := Ok st.

Lemma pre_id_not_oof st t : pre_id st t <> OutOfFuel.
Proof. discriminate. Qed.
Lemma pre_id_fr st t st2 : pre_id st t = Ok st2 -> fr st st2 /\ same_tr st st2.
Proof. intros E; injection E as <-. split; [apply fr_refl|split; reflexivity]. Qed.
Lemma pre_id_mono p st t st2 : pre_id st t = Ok st2 -> mono p st st2.
Proof. intros E; injection E as <-. apply mono_refl. Qed.

(* ---------- guards and entering actions ---------- *)

Definition g_r1 (o : gobj) : bool := negb (visited o).
Definition e_r1 (o : gobj) : gobj := set_adj (set_visited o true) 0.
Definition g_r2 (o : gobj) : bool := visited o.
Definition e_r2 (o : gobj) : gobj := set_visited o false.
Definition g_mg (o : gobj) : bool := negb (color_eqb (col o) Gray).
Definition e_mg (o : gobj) : gobj := set_col o Gray.
Definition g_sb (o : gobj) : bool := negb (color_eqb (col o) Black).
Definition e_sb (o : gobj) : gobj := set_col o Black.
Definition g_gray (o : gobj) : bool := color_eqb (col o) Gray.
Definition e_white (o : gobj) : gobj := set_col o White.
Definition g_cw (o : gobj) : bool := color_eqb (col o) White.

(* ---------- reset1 ---------- *)

Lemma reset1_S f st s :
  reset1 (S f) st s =
  if g_r1 (get st s) then giter (child pre_id reset1 f) (enter_st e_r1 st s) (edges (get st s))
  else Ok st.
Proof.
  rewrite <- iter_giter. unfold g_r1. cbn [reset1].
  destruct (visited (get st s)); reflexivity.
Qed.

Lemma reset1_0 st s st' : reset1 0 st s = Ok st' -> st' = st.
Proof. discriminate. Qed.

Lemma e_r1_off o : g_r1 (e_r1 o) = false.
Proof. reflexivity. Qed.
Lemma e_r1_edges o : edges (e_r1 o) = edges o.
Proof. reflexivity. Qed.
Lemma e_r1_freed o : freed (e_r1 o) = freed o.
Proof. reflexivity. Qed.

(* ---------- reset2 ---------- *)

Lemma reset2_S f st s :
  reset2 (S f) st s =
  if g_r2 (get st s) then giter (child pre_id reset2 f) (enter_st e_r2 st s) (edges (get st s))
  else Ok st.
Proof.
  rewrite <- iter_giter. unfold g_r2. cbn [reset2].
  destruct (visited (get st s)); reflexivity.
Qed.

Lemma reset2_0 st s st' : reset2 0 st s = Ok st' -> st' = st.
Proof. discriminate. Qed.

Lemma e_r2_off o : g_r2 (e_r2 o) = false.
Proof. reflexivity. Qed.
Lemma e_r2_edges o : edges (e_r2 o) = edges o.
Proof. reflexivity. Qed.
Lemma e_r2_freed o : freed (e_r2 o) = freed o.
Proof. reflexivity. Qed.

(* ---------- mark_gray ---------- *)

Definition pre_mg (st : gstate) (t : nat) : res gstate :=
  let ot := get st t in
  if Nat.ltb (rc ot) (adj ot) then Panic (PAdjLarger t)
  else Ok (set st t (set_adj ot (S (adj ot)))).

Lemma mark_gray_S f st s :
  mark_gray (S f) st s =
  if g_mg (get st s) then giter (child pre_mg mark_gray f) (enter_st e_mg st s) (edges (get st s))
  else Ok st.
Proof.
  unfold g_mg. cbn [mark_gray].
  destruct (color_eqb (col (get st s)) Gray); cbn [negb]; [reflexivity|].
  rewrite iter_giter. apply giter_ext. intros a t. unfold child, pre_mg.
  destruct (Nat.ltb (rc (get a t)) (adj (get a t))); reflexivity.
Qed.

Lemma mark_gray_0 st s st' : mark_gray 0 st s = Ok st' -> st' = st.
Proof. discriminate. Qed.

Lemma e_mg_off o : g_mg (e_mg o) = false.
Proof. reflexivity. Qed.
Lemma e_mg_edges o : edges (e_mg o) = edges o.
Proof. reflexivity. Qed.
Lemma e_mg_freed o : freed (e_mg o) = freed o.
Proof. reflexivity. Qed.

Lemma pre_mg_not_oof st t : pre_mg st t <> OutOfFuel.
Proof. unfold pre_mg. destruct (Nat.ltb _ _); discriminate. Qed.

Lemma pre_mg_fr st t st2 : pre_mg st t = Ok st2 -> fr st st2 /\ same_tr st st2.
Proof.
  unfold pre_mg. destruct (Nat.ltb _ _); [discriminate|]. intros E; injection E as <-.
  split; [apply fr_set; reflexivity|split; reflexivity].
Qed.

(* the adj bump of mark_gray leaves every guard that ignores adj alone *)
Lemma pre_mg_mono p st t st2 :
  (forall o k, p (set_adj o k) = p o) -> pre_mg st t = Ok st2 -> mono p st st2.
Proof.
  intros Hp. unfold pre_mg. destruct (Nat.ltb _ _); [discriminate|]. intros E; injection E as <-.
  apply mono_set. rewrite Hp. auto.
Qed.

(* ---------- scan_black, with the caller's guard folded in ---------- *)

Definition gsb (f : nat) (st : gstate) (t : nat) : res gstate :=
  if color_eqb (col (get st t)) Black then Ok st else scan_black f st t.

Lemma scan_black_S f st s :
  scan_black (S f) st s = giter (gsb f) (enter_st e_sb st s) (edges (get st s)).
Proof. rewrite <- iter_giter. reflexivity. Qed.

Lemma gsb_S f st s :
  gsb (S f) st s =
  if g_sb (get st s) then giter (child pre_id gsb f) (enter_st e_sb st s) (edges (get st s))
  else Ok st.
Proof.
  unfold gsb at 1. unfold g_sb. rewrite scan_black_S.
  destruct (color_eqb (col (get st s)) Black); reflexivity.
Qed.

Lemma gsb_0 st s st' : gsb 0 st s = Ok st' -> st' = st.
Proof.
  unfold gsb. destruct (color_eqb (col (get st s)) Black); [|discriminate].
  intros E; injection E as <-; reflexivity.
Qed.

Lemma e_sb_off o : g_sb (e_sb o) = false.
Proof. reflexivity. Qed.
Lemma e_sb_edges o : edges (e_sb o) = edges o.
Proof. reflexivity. Qed.
Lemma e_sb_freed o : freed (e_sb o) = freed o.
Proof. reflexivity. Qed.

(* ---------- collect_white: the state component is a guarded walk of its own ---------- *)

Fixpoint cw (fuel : nat) (st : gstate) (s : nat) : res gstate :=
  match fuel with
  | 0 => OutOfFuel
  | S f =>
    if color_eqb (col (get st s)) White
    then iter (cw f) (enter_st e_sb st s) (edges (get st s))
    else Ok st
  end.

Lemma cw_S f st s :
  cw (S f) st s =
  if g_cw (get st s) then giter (child pre_id cw f) (enter_st e_sb st s) (edges (get st s))
  else Ok st.
Proof. rewrite <- iter_giter. reflexivity. Qed.

Lemma cw_0 st s st' : cw 0 st s = Ok st' -> st' = st.
Proof. discriminate. Qed.

Lemma e_cw_off o : g_cw (e_sb o) = false.
Proof. reflexivity. Qed.

Lemma collect_white_S f st w s :
  collect_white (S f) (st, w) s =
  if color_eqb (col (get st s)) White then
    do r <- giter (collect_white f) (enter_st e_sb st s, w) (edges (get st s));
    Ok (fst r, snd r ++ [s])
  else Ok (st, w).
Proof.
  cbn [collect_white]. destruct (color_eqb (col (get st s)) White); [|reflexivity].
  f_equal. unfold enter_st, e_sb.
  generalize (count_trace (set st s (set_col (get st s) Black)) s, w).
  induction (edges (get st s)) as [|n t IH]; intros acc; [reflexivity|].
  cbn [giter]. destruct (collect_white f acc n) as [acc1| |]; cbn [bind]; auto.
Qed.

Lemma cw_proj : forall fuel st w s, map_res fst (collect_white fuel (st, w) s) = cw fuel st s.
Proof.
  induction fuel as [|f IH]; intros st w s; [reflexivity|].
  rewrite collect_white_S. cbn [cw].
  destruct (color_eqb (col (get st s)) White); [|reflexivity].
  rewrite iter_giter.
  assert (Hgo : forall es st1 w1,
            map_res fst (giter (collect_white f) (st1, w1) es) = giter (cw f) st1 es).
  { induction es as [|n t IHes]; intros st1 w1; [reflexivity|].
    cbn [giter]. rewrite <- (IH st1 w1 n).
    destruct (collect_white f (st1, w1) n) as [[st2 w2]| |]; cbn [bind map_res fst]; auto. }
  rewrite <- (Hgo (edges (get st s)) (enter_st e_sb st s) w).
  destruct (giter (collect_white f) (enter_st e_sb st s, w) (edges (get st s))) as [[st2 w2]| |];
    reflexivity.
Qed.

Lemma collect_white_ok fuel st w s st' w' :
  collect_white fuel (st, w) s = Ok (st', w') -> cw fuel st s = Ok st'.
Proof. intros E. rewrite <- (cw_proj fuel st w s), E. reflexivity. Qed.

Lemma collect_white_oof fuel st w s :
  cw fuel st s <> OutOfFuel -> collect_white fuel (st, w) s <> OutOfFuel.
Proof. intros H E. apply H. rewrite <- (cw_proj fuel st w s), E. reflexivity. Qed.

(* ---------- the five instances ---------- *)

Lemma reset1_walk : is_walk g_r1 e_r1 pre_id reset1.
Proof.
  constructor.
  - exact reset1_S.
  - exact reset1_0.
  - exact e_r1_off.
  - exact e_r1_edges.
  - exact e_r1_freed.
  - exact pre_id_not_oof.
  - exact pre_id_fr.
  - exact (pre_id_mono g_r1).
Qed.

Lemma reset2_walk : is_walk g_r2 e_r2 pre_id reset2.
Proof.
  constructor.
  - exact reset2_S.
  - exact reset2_0.
  - exact e_r2_off.
  - exact e_r2_edges.
  - exact e_r2_freed.
  - exact pre_id_not_oof.
  - exact pre_id_fr.
  - exact (pre_id_mono g_r2).
Qed.

Lemma mark_gray_walk : is_walk g_mg e_mg pre_mg mark_gray.
Proof.
  constructor.
  - exact mark_gray_S.
  - exact mark_gray_0.
  - exact e_mg_off.
  - exact e_mg_edges.
  - exact e_mg_freed.
  - exact pre_mg_not_oof.
  - exact pre_mg_fr.
  - intros st t st2. apply pre_mg_mono. reflexivity.
Qed.

Lemma gsb_walk : is_walk g_sb e_sb pre_id gsb.
Proof.
  constructor.
  - exact gsb_S.
  - exact gsb_0.
  - exact e_sb_off.
  - exact e_sb_edges.
  - exact e_sb_freed.
  - exact pre_id_not_oof.
  - exact pre_id_fr.
  - exact (pre_id_mono g_sb).
Qed.

Lemma cw_walk : is_walk g_cw e_sb pre_id cw.
Proof.
  constructor.
  - exact cw_S.
  - exact cw_0.
  - exact e_cw_off.
  - exact e_sb_edges.
  - exact e_sb_freed.
  - exact pre_id_not_oof.
  - exact pre_id_fr.
  - exact (pre_id_mono g_cw).
Qed.

(* ---------- scan_black itself (its guard sits at the call site) ---------- *)

Lemma scan_black_gsb f st s : g_sb (get st s) = true -> scan_black f st s = gsb f st s.
Proof.
  unfold gsb, g_sb. destruct (color_eqb (col (get st s)) Black); simpl; intros H; congruence.
Qed.

Lemma gsb_cnt f a t a' : gsb f a t = Ok a' -> cnt g_sb a' <= cnt g_sb a.
Proof.
  intros E. apply cnt_mono.
  - apply fr_nobjs. eapply (walk_fr _ _ _ _ gsb_walk); eauto.
  - eapply (walk_mono _ _ _ _ gsb_walk); eauto.
Qed.

Lemma scan_black_fuel_gen fuel st s : cnt g_sb st < fuel -> scan_black fuel st s <> OutOfFuel.
Proof.
  destruct fuel as [|f]; [lia|]. intros Hc. rewrite scan_black_S.
  apply (giter_not_oof (fun a => cnt g_sb a <= f)).
  - intros a t a' _ Ha E. apply gsb_cnt in E. lia.
  - intros a t _ Ha. apply (walk_fuel_le _ _ _ _ gsb_walk); auto.
    intros st0 s0. unfold gsb, g_sb.
    destruct (color_eqb (col (get st0 s0)) Black); simpl; intros H; [discriminate|congruence].
  - assert (cnt g_sb (enter_st e_sb st s) <= cnt g_sb st); [|lia].
    apply cnt_mono.
    + apply fr_nobjs. apply (walk_enter_fr _ _ _ _ gsb_walk).
    + apply (walk_enter_mono _ _ _ _ gsb_walk).
Qed.

(* ---------- scan ---------- *)

Lemma scan_S f st s :
  scan (S f) st s =
  if g_gray (get st s) then
    if Nat.eqb (adj (get st s)) (rc (get st s))
    then giter (scan f) (enter_st e_white st s) (edges (get st s))
    else scan_black (S f) st s
  else Ok st.
Proof.
  rewrite <- iter_giter. unfold g_gray. cbn [scan].
  destruct (color_eqb (col (get st s)) Gray); reflexivity.
Qed.

Lemma gray_sb o : g_gray o = true -> g_sb o = true.
Proof. unfold g_gray, g_sb. destruct (col o); simpl; auto. Qed.

Lemma e_white_off o : g_gray (e_white o) = false.
Proof. reflexivity. Qed.
Lemma e_white_edges o : edges (e_white o) = edges o.
Proof. reflexivity. Qed.
Lemma e_white_freed o : freed (e_white o) = freed o.
Proof. reflexivity. Qed.

Definition inv2 (st st' : gstate) : Prop := fr st st' /\ mono g_gray st st' /\ mono g_sb st st'.

Lemma inv2_refl st : inv2 st st.
Proof. split; [apply fr_refl|split; apply mono_refl]. Qed.

Lemma inv2_trans a b c : inv2 a b -> inv2 b c -> inv2 a c.
Proof.
  intros (F1 & G1 & B1) (F2 & G2 & B2).
  split; [eapply fr_trans; eauto|split; eapply mono_trans; eauto].
Qed.

Lemma gsb_inv2 f st s st' : gsb f st s = Ok st' -> inv2 st st'.
Proof.
  intros E. split; [|split].
  - eapply (walk_fr _ _ _ _ gsb_walk); eauto.
  - eapply (walk_mono_p _ _ _ _ gsb_walk g_gray); eauto.
    + intros o H. discriminate H.
    + apply pre_id_mono.
  - eapply (walk_mono _ _ _ _ gsb_walk); eauto.
Qed.

Lemma enter_white_inv2 st s : g_gray (get st s) = true -> inv2 st (enter_st e_white st s).
Proof.
  intros Hg. split; [|split].
  - apply enter_fr; auto.
  - apply enter_mono_p. intros o H. discriminate H.
  - unfold enter_st. intros i.
    change (get (count_trace (set st s (e_white (get st s))) s) i)
      with (get (set st s (e_white (get st s))) i).
    apply mono_set. intros _. apply gray_sb; exact Hg.
Qed.

Lemma scan_inv2 : forall f st s st', scan f st s = Ok st' -> inv2 st st'.
Proof.
  induction f as [|f IH]; intros st s st' E; [discriminate|].
  rewrite scan_S in E. destruct (g_gray (get st s)) eqn:Hg.
  - destruct (Nat.eqb (adj (get st s)) (rc (get st s))).
    + eapply (giter_inv (fun a => inv2 st a)); [ | | exact E].
      * intros a t a' _ Ha Es. eapply inv2_trans; [exact Ha|]. eapply IH; eauto.
      * apply enter_white_inv2; auto.
    + rewrite scan_black_gsb in E by (apply gray_sb; auto). eapply gsb_inv2; eauto.
  - injection E as <-. apply inv2_refl.
Qed.

Lemma inv2_cnt a b : inv2 a b -> cnt g_gray b <= cnt g_gray a /\ cnt g_sb b <= cnt g_sb a /\ nobjs b = nobjs a.
Proof.
  intros (F & G & B). pose proof (fr_nobjs _ _ F) as N.
  split; [apply cnt_mono; auto|split; [apply cnt_mono; auto|exact N]].
Qed.

Lemma gray_in_range st s : g_gray (get st s) = true -> s < nobjs st.
Proof.
  intros Hg. destruct (Nat.lt_ge_cases s (nobjs st)) as [H|H]; auto.
  rewrite (get_oor st s H) in Hg. discriminate Hg.
Qed.

Lemma scan_fuel_gen : forall fuel st s, cnt g_gray st + nobjs st < fuel -> scan fuel st s <> OutOfFuel.
Proof.
  induction fuel as [|f IH]; intros st s Hc; [lia|].
  rewrite scan_S. destruct (g_gray (get st s)) eqn:Hg; [|discriminate].
  pose proof (gray_in_range st s Hg) as Hs.
  destruct (Nat.eqb (adj (get st s)) (rc (get st s))).
  - apply (giter_not_oof (fun a => cnt g_gray a + nobjs a < f)).
    + intros a t a' _ Ha E. apply scan_inv2, inv2_cnt in E. lia.
    + intros a t _ Ha. apply IH; auto.
    + pose proof (enter_wcnt g_gray e_white e_white_off one st s Hs Hg) as Hw.
      unfold one in Hw at 2.
      pose proof (fr_nobjs _ _ (enter_fr e_white e_white_edges e_white_freed st s)) as Hn.
      unfold cnt in *. lia.
  - apply scan_black_fuel_gen. pose proof (cnt_le_nobjs g_sb st). lia.
Qed.

Definition pot2 (st st' : gstate) : Prop :=
  trace_calls st' + cnt g_gray st' + cnt g_sb st' <= trace_calls st + cnt g_gray st + cnt g_sb st /\
  trace_edges st' + ecnt g_gray st' + ecnt g_sb st' <= trace_edges st + ecnt g_gray st + ecnt g_sb st.

Lemma pot2_refl st : pot2 st st.
Proof. split; lia. Qed.

Lemma pot2_trans a b c : pot2 a b -> pot2 b c -> pot2 a c.
Proof. intros [A1 A2] [B1 B2]. split; lia. Qed.

Lemma scan_pot : forall f st s st',
  edges_okP st -> s < nobjs st -> scan f st s = Ok st' -> pot2 st st'.
Proof.
  induction f as [|f IH]; intros st s st' Hok Hs E; [discriminate|].
  rewrite scan_S in E. destruct (g_gray (get st s)) eqn:Hg.
  - destruct (Nat.eqb (adj (get st s)) (rc (get st s))).
    + assert (Hgoal : inv2 st st' /\ pot2 st st'); [|apply Hgoal].
      eapply (giter_inv (fun a => inv2 st a /\ pot2 st a)); [ | | exact E].
      * intros a t a' Hin [Hia Hpa] Es. split.
        { eapply inv2_trans; [exact Hia|]. eapply scan_inv2; eauto. }
        eapply pot2_trans; [exact Hpa|]. apply (IH a t a'); auto.
        -- eapply fr_edges_okP; [apply Hia|exact Hok].
        -- rewrite (fr_nobjs _ _ (proj1 Hia)). eapply Hok; eauto.
      * pose proof (enter_white_inv2 st s Hg) as Hi. split; [exact Hi|].
        destruct Hi as (F & _ & B).
        pose proof (enter_pot g_gray e_white e_white_off e_white_edges st s Hs Hg) as [P1 P2].
        pose proof (cnt_mono g_sb _ _ (fr_nobjs _ _ F) B).
        pose proof (ecnt_mono g_sb _ _ (proj1 F) B).
        split; lia.
    + rewrite scan_black_gsb in E by (apply gray_sb; auto).
      pose proof (gsb_inv2 _ _ _ _ E) as (F & G & B).
      pose proof (walk_pot _ _ _ _ gsb_walk _ _ _ _ Hok Hs E) as [P1 P2].
      pose proof (cnt_mono g_gray _ _ (fr_nobjs _ _ F) G).
      pose proof (ecnt_mono g_gray _ _ (proj1 F) G).
      split; lia.
  - injection E as <-. apply pot2_refl.
Qed.

Lemma scans_inv2 fuel ns st st' : giter (scan fuel) st ns = Ok st' -> inv2 st st'.
Proof.
  intros E. eapply (giter_inv (fun a => inv2 st a)); [ | | exact E].
  - intros a t a' _ Ha Es. eapply inv2_trans; [exact Ha|]. eapply scan_inv2; eauto.
  - apply inv2_refl.
Qed.

Lemma scans_fuel fuel ns st : cnt g_gray st + nobjs st < fuel -> giter (scan fuel) st ns <> OutOfFuel.
Proof.
  intros Hc. apply (giter_not_oof (fun a => cnt g_gray a + nobjs a < fuel)); auto.
  - intros a t a' _ Ha E. apply scan_inv2, inv2_cnt in E. lia.
  - intros a t _ Ha. apply scan_fuel_gen; auto.
Qed.

Lemma scans_pot fuel ns st st' :
  edges_okP st -> Forall (fun r => r < nobjs st) ns ->
  giter (scan fuel) st ns = Ok st' -> pot2 st st'.
Proof.
  intros Hok Hns E.
  assert (Hgoal : inv2 st st' /\ pot2 st st'); [|apply Hgoal].
  eapply (giter_inv (fun a => inv2 st a /\ pot2 st a)); [ | | exact E].
  - intros a t a' Hin [Hia Hpa] Es. split.
    + eapply inv2_trans; [exact Hia|]. eapply scan_inv2; eauto.
    + eapply pot2_trans; [exact Hpa|]. eapply scan_pot; eauto.
      * eapply fr_edges_okP; [apply Hia|exact Hok].
      * rewrite (fr_nobjs _ _ (proj1 Hia)). rewrite Forall_forall in Hns. apply Hns; auto.
  - split; [apply inv2_refl | apply pot2_refl].
Qed.

(* the scan walk traces each object at most twice: once Gray->White, once ->Black *)
Lemma scans_cost fuel ns st st' :
  edges_okP st -> Forall (fun r => r < nobjs st) ns ->
  giter (scan fuel) st ns = Ok st' ->
  trace_calls st' <= trace_calls st + 2 * nobjs st /\ trace_edges st' <= trace_edges st + 2 * nedges st.
Proof.
  intros Hok Hns E. destruct (scans_pot fuel ns st st' Hok Hns E) as [P1 P2].
  pose proof (cnt_le_nobjs g_gray st). pose proof (cnt_le_nobjs g_sb st).
  pose proof (ecnt_le_nedges g_gray st). pose proof (ecnt_le_nedges g_sb st). split; lia.
Qed.

(* ---------- display_graph ---------- *)

Definition usum (w : nat -> nat) (n : nat) (seen : list nat) : nat :=
  list_sum (map (fun i => if existsb (Nat.eqb i) seen then 0 else w i) (seq 0 n)).

Lemma list_sum_map_le (f g : nat -> nat) l :
  (forall i, In i l -> g i <= f i) -> list_sum (map g l) <= list_sum (map f l).
Proof.
  induction l as [|a t IH]; intros H; simpl; auto.
  assert (g a <= f a) by (apply H; simpl; auto).
  assert (list_sum (map g t) <= list_sum (map f t)) by (apply IH; intros i Hi; apply H; simpl; auto).
  lia.
Qed.

Lemma list_sum_map_lt (f g : nat -> nat) l n d :
  In n l -> g n + d <= f n -> (forall i, In i l -> g i <= f i) ->
  list_sum (map g l) + d <= list_sum (map f l).
Proof.
  induction l as [|a t IH]; intros Hin Hn H; simpl in *; [contradiction|].
  destruct Hin as [->|Hin].
  - assert (list_sum (map g t) <= list_sum (map f t))
      by (apply list_sum_map_le; intros i Hi; apply H; auto).
    lia.
  - assert (g a <= f a) by (apply H; auto).
    assert (list_sum (map g t) + d <= list_sum (map f t)) by (apply IH; auto).
    lia.
Qed.

Lemma usum_cons_le w n x seen : usum w n (x :: seen) <= usum w n seen.
Proof.
  unfold usum. apply list_sum_map_le. intros i _. cbn [existsb].
  destruct (Nat.eqb i x); destruct (existsb (Nat.eqb i) seen); simpl; lia.
Qed.

Lemma usum_cons_lt w n x seen :
  x < n -> existsb (Nat.eqb x) seen = false -> usum w n (x :: seen) + w x <= usum w n seen.
Proof.
  intros Hx Hm. unfold usum. apply (list_sum_map_lt _ _ _ x).
  - apply in_seq. lia.
  - cbn [existsb]. rewrite Nat.eqb_refl, Hm. simpl. lia.
  - intros i _. cbn [existsb].
    destruct (Nat.eqb i x); destruct (existsb (Nat.eqb i) seen); simpl; lia.
Qed.

Lemma usum_nil w n : usum w n [] = list_sum (map w (seq 0 n)).
Proof. reflexivity. Qed.

Lemma sum_seq_nth (f : gobj -> nat) l :
  list_sum (map (fun i => f (nth i l dummy)) (seq 0 (length l))) = list_sum (map f l).
Proof.
  induction l as [|a t IH]; [reflexivity|].
  cbn [length]. cbn [seq]. rewrite <- seq_shift, map_cons, map_map. cbn [nth map].
  unfold list_sum in *. cbn [fold_right]. f_equal. exact IH.
Qed.

Lemma list_sum_elen l : list_sum (map elen l) = fold_right (fun o a => length (edges o) + a) 0 l.
Proof. induction l as [|a t IH]; simpl; auto. Qed.

Lemma list_sum_S (f : nat -> nat) l : list_sum (map (fun i => S (f i)) l) = length l + list_sum (map f l).
Proof. induction l as [|a t IH]; simpl; auto. rewrite IH. lia. Qed.

Lemma list_sum_const c (l : list nat) : list_sum (map (fun _ => c) l) = c * length l.
Proof. induction l as [|a t IH]; simpl; [lia|]. rewrite IH. lia. Qed.

Definition wD (st : gstate) (i : nat) : nat := S (elen (get st i)).
Definition wE (st : gstate) (i : nat) : nat := elen (get st i).
Definition w1 (i : nat) : nat := 1.

Lemma usum_wE_nil st : usum (wE st) (nobjs st) [] = nedges st.
Proof.
  rewrite usum_nil. unfold wE, get, nobjs, nedges. rewrite (sum_seq_nth elen). apply list_sum_elen.
Qed.

Lemma usum_wD_nil st : usum (wD st) (nobjs st) [] = nobjs st + nedges st.
Proof.
  rewrite usum_nil. unfold wD. rewrite list_sum_S, seq_length. f_equal.
  rewrite <- usum_wE_nil. reflexivity.
Qed.

Lemma usum_w1_nil n : usum w1 n [] = n.
Proof. rewrite usum_nil. unfold w1. rewrite list_sum_const, seq_length. lia. Qed.

(* the potential: entries on the stack, plus (1 + out-degree) for every object not yet seen *)
Lemma display_fuel_gen : forall fuel st stack seen,
  length stack + usum (wD st) (nobjs st) seen < fuel ->
  display_graph fuel st stack seen <> OutOfFuel.
Proof.
  induction fuel as [|f IH]; intros st stack seen Hc; [lia|].
  destruct stack as [|n rest]; cbn [display_graph]; [discriminate|].
  cbn [length] in Hc.
  destruct (existsb (Nat.eqb n) seen) eqn:Hm.
  - apply IH. lia.
  - apply IH.
    change (nobjs (count_trace st n)) with (nobjs st).
    change (wD (count_trace st n)) with (wD st).
    rewrite app_length, rev_length.
    destruct (Nat.lt_ge_cases n (nobjs st)) as [Hn|Hn].
    + pose proof (usum_cons_lt (wD st) (nobjs st) n seen Hn Hm) as Hu.
      unfold wD at 2 in Hu. unfold elen in Hu. lia.
    + rewrite (get_oor st n Hn). cbn [edges dummy length].
      pose proof (usum_cons_le (wD st) (nobjs st) n seen). lia.
Qed.

Lemma display_fuel st stack k :
  length stack <= k -> display_graph (dfuel st k) st stack [] <> OutOfFuel.
Proof.
  intros Hk. apply display_fuel_gen. rewrite usum_wD_nil. unfold dfuel. lia.
Qed.

Lemma display_same : forall fuel st stack seen st',
  display_graph fuel st stack seen = Ok st' ->
  objs st' = objs st /\ roots st' = roots st /\ to_be_freed st' = to_be_freed st.
Proof.
  induction fuel as [|f IH]; intros st stack seen st' E; [discriminate|].
  destruct stack as [|n rest]; cbn [display_graph] in E.
  - injection E as <-. auto.
  - destruct (existsb (Nat.eqb n) seen).
    + eapply IH; eauto.
    + apply IH in E. exact E.
Qed.

Lemma display_fr fuel st stack seen st' : display_graph fuel st stack seen = Ok st' -> fr st st'.
Proof.
  intros E. apply display_same in E as (Ho & Hr & Ht).
  split; [|split; auto]. unfold frame, nobjs, get. rewrite Ho. split; auto.
Qed.

Lemma display_cost_gen : forall fuel st stack seen st',
  edges_okP st -> Forall (fun r => r < nobjs st) stack ->
  display_graph fuel st stack seen = Ok st' ->
  trace_calls st' <= trace_calls st + usum w1 (nobjs st) seen /\
  trace_edges st' <= trace_edges st + usum (wE st) (nobjs st) seen.
Proof.
  induction fuel as [|f IH]; intros st stack seen st' Hok Hst E; [discriminate|].
  destruct stack as [|n rest]; cbn [display_graph] in E.
  - injection E as <-. split; lia.
  - inversion Hst as [|n0 rest0 Hn Hrest]; subst n0 rest0.
    destruct (existsb (Nat.eqb n) seen) eqn:Hm.
    + eapply IH; eauto.
    + apply IH in E.
      * change (nobjs (count_trace st n)) with (nobjs st) in E.
        change (wE (count_trace st n)) with (wE st) in E.
        cbn [count_trace trace_calls trace_edges] in E.
        pose proof (usum_cons_lt w1 (nobjs st) n seen Hn Hm) as Hu1. unfold w1 at 2 in Hu1.
        pose proof (usum_cons_lt (wE st) (nobjs st) n seen Hn Hm) as Hu2.
        unfold wE at 2 in Hu2. unfold elen in Hu2. lia.
      * exact Hok.
      * change (nobjs (count_trace st n)) with (nobjs st).
        apply Forall_app. split; [|exact Hrest].
        apply Forall_rev. apply Forall_forall. intros t Ht. eapply Hok; eauto.
Qed.

Lemma display_cost fuel st stack st' :
  edges_okP st -> Forall (fun r => r < nobjs st) stack ->
  display_graph fuel st stack [] = Ok st' ->
  trace_calls st' <= trace_calls st + nobjs st /\ trace_edges st' <= trace_edges st + nedges st.
Proof.
  intros Hok Hst E. pose proof (display_cost_gen fuel st stack [] st' Hok Hst E) as H.
  rewrite usum_w1_nil, usum_wE_nil in H. exact H.
Qed.
