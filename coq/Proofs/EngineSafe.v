(* Proofs about Model/Engine.v: glitch freedom of the repaired propagation algorithm on every
   ranked (acyclic) graph, for every rule, every registration order and every queue order. *)
From Coq Require Import List Arith Lia Bool.
Import ListNotations.
From Sodium Require Import Engine.


(* ---------------- safety half of C03 for the repaired algorithm ---------------- *)
Lemma get_set_same {Val} (gr : graph Val) n x : n < length gr -> get (set gr n x) n = x.
Proof. unfold get. revert n; induction gr as [|y t IH]; intros [|k] H; simpl in *; try lia; auto. apply IH; lia. Qed.
Lemma get_set_other {Val} (gr : graph Val) n m x : n <> m -> get (set gr n x) m = get gr m.
Proof. unfold get. revert n m; induction gr as [|y t IH]; intros [|k] [|j] H; simpl; auto; try lia. Qed.
Lemma set_length {Val} (gr : graph Val) n x : length (set gr n x) = length gr.
Proof. revert n; induction gr as [|y t IH]; intros [|k]; simpl; auto. Qed.


Lemma fold_opt_inv {Val A} (P : st Val -> Prop) (f : st Val -> A -> option (st Val)) l : forall s0 r,
  P s0 -> (forall a x s', In x l -> P a -> f a x = Some s' -> P s') ->
  fold_left (fun acc x => match acc with None => None | Some a => f a x end) l (Some s0) = Some r -> P r.
Proof.
  induction l as [|x l IH]; simpl; intros s0 r P0 Step E.
  - inversion E; subst; auto.
  - destruct (f s0 x) as [s1|] eqn:E1.
    + apply (IH s1 r); auto.
      * eapply Step; eauto.
      * intros a y s' Hy Pa Ea. eapply Step; eauto.
    + exfalso. clear -E. induction l; simpl in *; [discriminate|auto].
Qed.

Lemma fold_opt_inv2 {Val A} (P : st Val -> Prop) (Q : A -> st Val -> Prop) (f : st Val -> A -> option (st Val)) l : forall s0 r,
  P s0 ->
  (forall a x s', In x l -> P a -> f a x = Some s' -> P s' /\ Q x s') ->
  (forall a x y s', In x l -> In y l -> P a -> Q x a -> f a y = Some s' -> Q x s') ->
  fold_left (fun acc x => match acc with None => None | Some a => f a x end) l (Some s0) = Some r ->
  P r /\ forall x, In x l -> Q x r.
Proof.
  induction l as [|x l IH]; simpl; intros s0 r P0 Step Stable E.
  - inversion E; subst; split; auto. intros ? [].
  - destruct (f s0 x) as [s1|] eqn:E1.
    + destruct (Step s0 x s1 (or_introl eq_refl) P0 E1) as [P1 Q1].
      assert (G : forall l' a r', P a -> Q x a -> incl l' l ->
                 fold_left (fun acc x => match acc with None => None | Some a => f a x end) l' (Some a) = Some r' -> Q x r' /\ P r').
      { induction l' as [|y l' IH']; simpl; intros a r' Pa Qa Inc Er.
        - inversion Er; subst; auto.
        - destruct (f a y) as [a'|] eqn:Ea.
          + assert (In y l) by (apply Inc; simpl; auto).
            destruct (Step a y a' (or_intror H) Pa Ea) as [Pa' _].
            apply (IH' a' r'); auto.
            * eapply (Stable a x y a'); simpl; eauto.
            * intros z Hz; apply Inc; simpl; auto.
          + exfalso. clear -Er. induction l'; simpl in *; [discriminate|auto]. }
      destruct (IH s1 r P1) as [Pr Qr]; auto.
      * intros a y s' Hy Pa Ea. apply (Step a y s'); auto.
      * intros a y z s' Hy Hz Pa Qa Ea. apply (Stable a y z s'); auto.
      * split; auto. intros y [<-|Hy]; auto. apply (G l s1 r); auto. apply incl_refl.
    + exfalso. clear -E. induction l; simpl in *; [discriminate|auto].
Qed.

Section Safety.
  Context {Val : Type}.
  Variable F : rule Val.
  Variables D Dts : nat -> list nat.
  Variable rank : nat -> nat.
  Variable N : nat.
  Hypothesis rank_ok : forall n d, In d (D n) -> rank d < rank n.
  Hypothesis D_range : forall n d, In d (D n) -> d < N.
  Hypothesis Dts_range : forall n d, In d (Dts n) -> d < N.
  (* every dependency edge is registered in the dependents list of its target *)
  Hypothesis Dts_complete : forall n d, n < N -> In d (D n) -> In n (Dts d).

  Definition shape (gr : graph Val) :=
    length gr = N /\ forall n, n < N -> deps (get gr n) = D n /\ dependents (get gr n) = Dts n.
  Definition pend (gr : graph Val) (n : nat) := visited (get gr n) = true /\ done (get gr n) = false.
  Definition clean (gr : graph Val) (n : nat) := D n <> [] -> fire (get gr n) = None /\ changed (get gr n) = false.
  Definition cons (gr : graph Val) (n : nat) :=
    D n <> [] ->
    fire (get gr n) = (if existsb (fun d => changed (get gr d)) (D n) then F n (map (fun d => fire (get gr d)) (D n)) else None) /\
    changed (get gr n) = match fire (get gr n) with Some _ => true | None => false end.
  Definition I (gr : graph Val) :=
    (forall n, n < N -> done (get gr n) = true ->
        visited (get gr n) = true /\ (forall d, In d (D n) -> done (get gr d) = true) /\ cons gr n) /\
    (forall n, n < N -> done (get gr n) = false -> clean gr n).
  Definition ext (gr gr' : graph Val) :=
    shape gr' /\
    (forall n, n < N -> visited (get gr n) = true -> visited (get gr' n) = true) /\
    (forall n, n < N -> done (get gr n) = true -> get gr' n = get gr n) /\
    (forall n, n < N -> pend gr n -> get gr' n = get gr n) /\
    (forall n, n < N -> pend gr' n -> pend gr n) /\
    (forall n, n < N -> visited (get gr' n) = false -> get gr' n = get gr n) /\
    (forall n, n < N -> D n = [] -> fire (get gr' n) = fire (get gr n) /\ changed (get gr' n) = changed (get gr n)).

  Lemma ext_refl gr : shape gr -> ext gr gr.
  Proof. intros S. unfold ext. intuition. Qed.

  Lemma ext_trans a b c : ext a b -> ext b c -> ext a c.
  Proof.
    intros (S1 & V1 & D1 & K1 & Q1 & U1 & R1) (S2 & V2 & D2 & K2 & Q2 & U2 & R2).
    split; [exact S2|]. split; [|split; [|split; [|split; [|split]]]].
    - intros n Hn Vn. apply V2; auto.
    - intros n Hn Dn. rewrite D2; auto. rewrite D1; auto.
    - intros n Hn Pn. rewrite K2; auto. unfold pend. rewrite K1; auto.
    - intros n Hn Pn. apply Q1; auto.
    - intros n Hn Vn. rewrite U2; auto. apply U1; auto. rewrite <- U2; auto.
    - intros n Hn Dn. destruct (R1 n Hn Dn) as [A B]. destruct (R2 n Hn Dn) as [A' B']. split; congruence.
  Qed.

  Definition pre (gr : graph Val) (n : nat) (as_dep : bool) :=
    if as_dep then forall p, p < N -> pend gr p -> rank n < rank p else forall p, p < N -> ~ pend gr p.

  (* changing only the visited/done flags of node n *)
  Definition reflag (x : node Val) v d := {| deps := deps x; dependents := dependents x; visited := v; done := d; changed := changed x; fire := fire x |}.
  Lemma mark_g s n v d : g (mark s n v d) = set (g s) n (reflag (get (g s) n) v d).
  Proof. reflexivity. Qed.

  Lemma shape_set gr n x : shape gr -> n < N -> deps x = D n -> dependents x = Dts n -> shape (set gr n x).
  Proof.
    intros [L S] Hn E1 E2. split; [rewrite set_length; auto|]. intros m Hm.
    destruct (Nat.eq_dec n m) as [->|Ne]; [rewrite get_set_same by lia; auto | rewrite get_set_other by auto; auto].
  Qed.

  Definition CovAt (s : st Val) (k : nat) := forall m, In m (Dts k) -> visited (get (g s) m) = true \/ In m (queue s).
  (* nodes that became done and changed between s and s' have all their dependents visited or queued *)
  Definition NewCov (s s' : st Val) :=
    forall k, k < N -> done (get (g s') k) = true -> changed (get (g s') k) = true -> done (get (g s) k) = false -> CovAt s' k.
  Definition Post (s : st Val) (n : nat) (s' : st Val) :=
    I (g s') /\ ext (g s) (g s') /\ visited (get (g s') n) = true /\ (visited (get (g s) n) = false -> done (get (g s') n) = true) /\
    incl (queue s) (queue s') /\ NewCov s s'.

  Lemma CovAt_mono a b k : CovAt a k -> ext (g a) (g b) -> incl (queue a) (queue b) -> CovAt b k.
  Proof.
    intros C (_ & V & _) Inc m Hm. destruct (C m Hm) as [Vm|Qm]; [left; apply V; auto; eapply Dts_range; eauto | right; auto].
  Qed.

  Lemma NewCov_trans a b c :
    ext (g a) (g b) -> ext (g b) (g c) -> incl (queue b) (queue c) -> NewCov a b -> NewCov b c -> NewCov a c.
  Proof.
    intros Xab Xbc Inc Nab Nbc k Hk Dk Ck NDa.
    destruct (done (get (g b) k)) eqn:Db.
    - pose proof Xbc as (Sc & Vbc & Dbc & Kbc & Qbc & Ubc & Rbc). pose proof (Dbc k Hk Db) as Eq.
      apply (CovAt_mono b c k); auto. apply Nab; auto. rewrite <- Eq; auto.
    - apply Nbc; auto.
  Qed.

  Theorem update_node_safe : forall fuel s n as_dep s',
    n < N -> shape (g s) -> I (g s) -> pre (g s) n as_dep ->
    update_node F false fuel s n as_dep = Some s' -> Post s n s'.
  Proof.
    induction fuel as [|f IH]; intros s n as_dep s' Hn S Inv Pre E; [discriminate|].
    cbn [update_node] in E.
    destruct (visited (get (g s) n)) eqn:Vn.
    { inversion E; subst s'. split; [exact Inv|]. split; [apply ext_refl; exact S|]. split; [exact Vn|]. split; [intros C; congruence|].
      split; [apply incl_refl|]. intros k Hk Dk Ck NDk. congruence. }
    set (x := get (g s) n) in *.
    assert (Dn_false : done x = false).
    { destruct (done x) eqn:Dx; auto. destruct Inv as [I1 _]. destruct (I1 n Hn Dx) as [V _]. unfold x in *; congruence. }
    destruct S as [L S].
    assert (Lg : n < length (g s)) by lia.
    (* step A: mark pending *)
    remember (mark s n true false) as s1 eqn:Hs1.
    assert (G1 : forall m, get (g s1) m = if Nat.eqb n m then reflag x true false else get (g s) m).
    { intros m. rewrite Hs1, mark_g. destruct (Nat.eqb_spec n m) as [->|Ne];
      [rewrite get_set_same | rewrite get_set_other]; auto. }
    assert (S1 : shape (g s1)).
    { rewrite Hs1, mark_g. apply shape_set; [split; auto| auto | apply S; auto | apply S; auto]. }
    assert (P1 : forall p, p < N -> pend (g s1) p -> p = n \/ pend (g s) p).
    { intros p Hp [A B]. rewrite G1 in A, B. destruct (Nat.eqb_spec n p); auto. right; split; auto. }
    assert (Inv1 : I (g s1)).
    { destruct Inv as [I1 I2]. split.
      - intros m Hm Dm. rewrite G1 in Dm. destruct (Nat.eqb_spec n m) as [->|Ne]; [simpl in Dm; discriminate|].
        destruct (I1 m Hm Dm) as (V & Ds & C). rewrite G1. apply Nat.eqb_neq in Ne; rewrite Ne. split; auto.
        assert (Dsn : forall d, In d (D m) -> d <> n).
        { intros d Hd ->. specialize (Ds n Hd). unfold x in *; congruence. }
        split.
        + intros d Hd. rewrite G1. destruct (Nat.eqb_spec n d) as [->|]; [exfalso; eapply Dsn; eauto|auto].
        + assert (Eq1 : forall l, (forall d, In d l -> d <> n) -> existsb (fun d => changed (get (g s1) d)) l = existsb (fun d => changed (get (g s) d)) l).
          { induction l as [|d l IHl]; simpl; auto. intros Hl. rewrite G1. destruct (Nat.eqb_spec n d) as [->|]; [exfalso; eapply Hl; simpl; eauto|].
            rewrite IHl; [reflexivity|]. intros; apply Hl; simpl; auto. }
          assert (Eq2 : forall l, (forall d, In d l -> d <> n) -> map (fun d => fire (get (g s1) d)) l = map (fun d => fire (get (g s) d)) l).
          { induction l as [|d l IHl]; simpl; auto. intros Hl. rewrite G1. destruct (Nat.eqb_spec n d) as [->|]; [exfalso; eapply Hl; simpl; eauto|].
            rewrite IHl; [reflexivity|]. intros; apply Hl; simpl; auto. }
          assert (Gm : get (g s1) m = get (g s) m) by (rewrite G1, Ne; auto).
          unfold cons in *. intros NE. specialize (C NE).
          rewrite (Eq1 (D m) Dsn), (Eq2 (D m) Dsn), Gm. exact C.
      - intros m Hm Dm NE. rewrite G1 in *. destruct (Nat.eqb_spec n m) as [->|Ne]; simpl.
        + apply (I2 m Hm Dn_false NE).
        + apply (I2 m Hm Dm NE). }
    assert (Xn : D n <> [] -> fire x = None /\ changed x = false).
    { destruct Inv as [_ I2]. apply (I2 n Hn Dn_false). }
    assert (Dx : deps x = D n) by (apply S; auto).
    assert (Dtx : dependents x = Dts n) by (apply S; auto).
    assert (Nn : forall d, In d (D n) -> d <> n).
    { intros d Hd ->. apply rank_ok in Hd. lia. }
    (* step B: the dependencies *)
    cbv zeta in E. rewrite Dx in E.
    match type of E with match ?T with _ => _ end = _ => destruct T as [s2|] eqn:EB end; [|discriminate].
    pose (P := fun a : st Val => shape (g a) /\ I (g a) /\ ext (g s1) (g a) /\ incl (queue s1) (queue a) /\ NewCov s1 a).
    pose (Q := fun (d : nat) (a : st Val) => visited (get (g a) d) = true).
    pose (fB := fun (a : st Val) (d : nat) => if visited (get (g a) d) then Some a else update_node F false f a d true).
    assert (PreB : forall a d, In d (D n) -> P a -> pre (g a) d true).
    { intros a d Hd (Sa & Ia & (_ & _ & _ & _ & Qa & _ & _) & _) p Hp Pp.
      destruct (P1 p Hp (Qa p Hp Pp)) as [->|Ps]; [apply rank_ok; auto|].
      destruct as_dep; simpl in Pre.
      - specialize (Pre p Hp Ps). apply rank_ok in Hd. lia.
      - exfalso. eapply Pre; eauto. }
    destruct (fold_opt_inv2 P Q fB (D n) s1 s2) as [(S2 & Inv2 & X12 & Q12i & N12) V2]; auto.
    { split; [|split; [|split; [|split]]]; auto. apply ext_refl; auto. apply incl_refl.
      intros k Hk Dk Ck NDk. congruence. }
    { intros a d a' Hd Pa Ea. unfold fB in Ea. destruct (visited (get (g a) d)) eqn:Vd.
      - inversion Ea; subst. split; auto.
      - pose proof Pa as (Sa & Ia & Xa & Qa & Na).
        destruct (IH a d true a' (D_range _ _ Hd) Sa Ia (PreB a d Hd Pa) Ea) as (Ia' & Xa' & Va' & _ & Qa' & Na').
        split; [|exact Va']. split; [apply Xa'|]. split; auto. split; [eapply ext_trans; eauto|].
        split; [eapply incl_tran; eauto|]. eapply NewCov_trans; eauto. }
    { intros a d y a' Hd Hy Pa Qa Ea. unfold fB in Ea. destruct (visited (get (g a) y)) eqn:Vy.
      - inversion Ea; subst; auto.
      - pose proof Pa as (Sa & Ia & Xa & _).
        destruct (IH a y true a' (D_range _ _ Hy) Sa Ia (PreB a y Hy Pa) Ea) as (_ & (_ & Vm & _) & _).
        apply Vm; auto. eapply D_range; eauto. }
    (* step C: all dependencies are done, n is still as we left it *)
    destruct X12 as (_ & V12 & D12 & K12 & Q12 & U12 & R12).
    assert (Pn1 : pend (g s1) n).
    { split; rewrite G1, Nat.eqb_refl; auto. }
    assert (Gn2 : get (g s2) n = reflag x true false).
    { rewrite K12; auto. rewrite G1, Nat.eqb_refl; auto. }
    assert (DD : forall d, In d (D n) -> done (get (g s2) d) = true).
    { intros d Hd. destruct (done (get (g s2) d)) eqn:Dd; auto. exfalso.
      assert (Pd : pend (g s2) d) by (split; auto; apply V2; auto).
      pose proof (D_range _ _ Hd) as Hdn.
      destruct (P1 d Hdn (Q12 d Hdn Pd)) as [->|Ps]; [eapply Nn; eauto|].
      destruct as_dep; simpl in Pre.
      - specialize (Pre d Hdn Ps). apply rank_ok in Hd. lia.
      - eapply Pre; eauto. }
    (* step D: update and mark done *)
    remember (if existsb (fun d => changed (get (g s2) d)) (D n) then run_update F s2 n else s2) as s3 eqn:Hs3.
    remember (mark s3 n true true) as s4 eqn:Hs4.
    destruct S2 as [L2 S2].
    assert (G3 : forall m, m <> n -> get (g s3) m = get (g s2) m).
    { intros m Ne. rewrite Hs3. destruct (existsb _ _); auto. unfold run_update; simpl. rewrite get_set_other; auto. }
    assert (L3 : length (g s3) = N).
    { rewrite Hs3. destruct (existsb _ _); auto. unfold run_update; simpl. rewrite set_length; auto. }
    assert (G4 : forall m, m <> n -> get (g s4) m = get (g s2) m).
    { intros m Ne. rewrite Hs4, mark_g, get_set_other; auto. }
    assert (G4n : get (g s4) n = reflag (get (g s3) n) true true).
    { rewrite Hs4, mark_g, get_set_same; auto. lia. }
    assert (G3n : deps (get (g s3) n) = D n /\ dependents (get (g s3) n) = Dts n /\
                  (D n <> [] ->
                   fire (get (g s3) n) = (if existsb (fun d => changed (get (g s2) d)) (D n) then F n (map (fun d => fire (get (g s2) d)) (D n)) else None) /\
                   changed (get (g s3) n) = match fire (get (g s3) n) with Some _ => true | None => false end)).
    { rewrite Hs3. destruct (existsb (fun d => changed (get (g s2) d)) (D n)) eqn:Ex.
      - unfold run_update; simpl. rewrite get_set_same by lia. simpl. rewrite Gn2. simpl. rewrite Dx.
        split; auto. split; auto. intros NE. destruct (Xn NE) as [Fx Cx]. rewrite Fx, Cx.
        destruct (F n (map (fun d => fire (get (g s2) d)) (D n))); auto.
      - rewrite Gn2; simpl. split; auto. split; auto. intros NE. destruct (Xn NE) as [Fx Cx]. rewrite Fx, Cx. auto. }
    destruct G3n as (Dn3 & Dtn3 & Cn3).
    assert (S4 : shape (g s4)).
    { rewrite Hs4, mark_g. apply shape_set; auto. split; auto. intros m Hm.
      destruct (Nat.eq_dec m n) as [->|Ne]; [auto | rewrite G3; auto]. }
    assert (EqE : forall l, (forall d, In d l -> d <> n) -> existsb (fun d => changed (get (g s4) d)) l = existsb (fun d => changed (get (g s2) d)) l).
    { induction l as [|d l IHl]; cbn [existsb]; auto. intros Hl. rewrite G4 by (apply Hl; simpl; auto).
      rewrite IHl; [reflexivity|]. intros; apply Hl; simpl; auto. }
    assert (EqM : forall l, (forall d, In d l -> d <> n) -> map (fun d => fire (get (g s4) d)) l = map (fun d => fire (get (g s2) d)) l).
    { induction l as [|d l IHl]; cbn [map]; auto. intros Hl. rewrite G4 by (apply Hl; simpl; auto).
      rewrite IHl; [reflexivity|]. intros; apply Hl; simpl; auto. }
    assert (Inv4 : I (g s4)).
    { destruct Inv2 as [I1 I2]. split.
      - intros m Hm Dm. destruct (Nat.eq_dec m n) as [->|Ne].
        + rewrite G4n. simpl. split; auto. split.
          * intros d Hd. rewrite G4 by (apply Nn; auto). apply DD; auto.
          * intros NE. rewrite (EqE _ Nn), (EqM _ Nn). rewrite G4n; simpl. apply Cn3; auto.
        + rewrite G4 in Dm by auto. destruct (I1 m Hm Dm) as (Vm & Dsm & Cm). rewrite G4 by auto.
          assert (Nm : forall d, In d (D m) -> d <> n).
          { intros d Hd ->. specialize (Dsm n Hd). rewrite Gn2 in Dsm. simpl in Dsm. discriminate. }
          split; auto. split.
          * intros d Hd. rewrite G4 by (apply Nm; auto). auto.
          * intros NE. rewrite (EqE _ Nm), (EqM _ Nm), G4 by auto. apply Cm; auto.
      - intros m Hm Dm NE. destruct (Nat.eq_dec m n) as [->|Ne].
        + rewrite G4n in Dm; simpl in Dm; discriminate.
        + rewrite G4 in * by auto. apply I2; auto. }
    assert (X04 : ext (g s) (g s4)).
    { split; [exact S4|]. split; [|split; [|split; [|split; [|split]]]].
      - intros m Hm Vm. destruct (Nat.eq_dec m n) as [->|Ne]; [rewrite G4n; auto|].
        rewrite G4 by auto. apply V12; auto. rewrite G1. apply Nat.eqb_neq in Ne. rewrite Nat.eqb_sym, Ne; auto.
      - intros m Hm Dm. destruct (Nat.eq_dec m n) as [->|Ne]; [unfold x in *; congruence|].
        rewrite G4 by auto. rewrite D12; auto; rewrite G1; apply Nat.eqb_neq in Ne; rewrite Nat.eqb_sym, Ne; auto.
      - intros m Hm [Vm Dm]. destruct (Nat.eq_dec m n) as [->|Ne]; [unfold x in *; congruence|].
        rewrite G4 by auto. rewrite K12; auto; [|split]; rewrite G1; apply Nat.eqb_neq in Ne; rewrite Nat.eqb_sym, Ne; auto.
      - intros m Hm [Vm Dm]. destruct (Nat.eq_dec m n) as [->|Ne]; [rewrite G4n in Dm; simpl in Dm; discriminate|].
        rewrite G4 in * by auto. destruct (P1 m Hm (Q12 m Hm (conj Vm Dm))) as [->|]; [congruence|auto].
      - intros m Hm Vm. destruct (Nat.eq_dec m n) as [->|Ne]; [rewrite G4n in Vm; simpl in Vm; discriminate|].
        rewrite G4 in * by auto. rewrite U12; auto. rewrite G1. apply Nat.eqb_neq in Ne. rewrite Nat.eqb_sym, Ne; auto.
      - intros m Hm Dm. destruct (Nat.eq_dec m n) as [->|Ne].
        + (* a source is never updated *)
          rewrite G4n. simpl. rewrite Hs3. rewrite Dm. simpl. rewrite Gn2. simpl. auto.
        + rewrite G4 by auto. destruct (R12 m Hm Dm) as [A B]. rewrite A, B. rewrite G1.
          apply Nat.eqb_neq in Ne. rewrite Nat.eqb_sym, Ne; auto. }
    (* step E: dependents *)
    assert (Q1 : queue s1 = queue s) by (rewrite Hs1; reflexivity).
    assert (Q4 : queue s4 = queue s2).
    { rewrite Hs4; unfold mark; simpl. rewrite Hs3. destruct (existsb _ _); reflexivity. }
    assert (V4n : visited (get (g s4) n) = true) by (rewrite G4n; reflexivity).
    assert (D4n : done (get (g s4) n) = true) by (rewrite G4n; reflexivity).
    assert (Inc04 : incl (queue s) (queue s4)).
    { intros q Hq. rewrite Q4. apply Q12i. rewrite Q1. exact Hq. }
    assert (Cov4 : forall k, k <> n -> k < N -> done (get (g s4) k) = true -> changed (get (g s4) k) = true ->
                     done (get (g s) k) = false -> CovAt s4 k).
    { intros k Ne Hk Dk Ck NDk. rewrite G4 in Dk, Ck by auto.
      assert (ND1 : done (get (g s1) k) = false). { rewrite G1. destruct (Nat.eqb_spec n k); [congruence|auto]. }
      intros m Hm. destruct (N12 k Hk Dk Ck ND1 m Hm) as [Vm|Qm].
      - left. destruct (Nat.eq_dec m n) as [->|Nm]; [auto| rewrite G4; auto].
      - right. rewrite Q4; auto. }
    assert (Fin : forall s5, g s5 = g s4 -> incl (queue s4) (queue s5) ->
                  (changed (get (g s4) n) = true -> CovAt s5 n) -> Post s n s5).
    { intros s5 E5 Inc5 Cn. unfold Post. rewrite E5. split; auto. split; auto. split; [exact V4n|].
      split; [intros _; exact D4n|]. split; [eapply incl_tran; eauto|].
      intros k Hk Dk Ck NDk. rewrite E5 in Dk, Ck. destruct (Nat.eq_dec k n) as [->|Ne]; [apply Cn; auto|].
      intros m Hm. destruct (Cov4 k Ne Hk Dk Ck NDk m Hm) as [Vm|Qm]; [left; rewrite E5; auto | right; apply Inc5; auto]. }
    destruct (changed (get (g s4) n)) eqn:Cn4.
    2:{ injection E as <-. apply Fin; auto; [apply incl_refl | intros C; discriminate]. }
    destruct as_dep; simpl in E.
    { injection E as <-. apply Fin; simpl; auto; [apply incl_appl, incl_refl|].
      intros _ m Hm. right. simpl. apply in_or_app. right. rewrite G4n. simpl. rewrite Dtn3. exact Hm. }
    assert (Dt4 : dependents (get (g s4) n) = Dts n) by (rewrite G4n; simpl; exact Dtn3).
    rewrite Dt4 in E.
    pose (PE := fun a : st Val => shape (g a) /\ I (g a) /\ ext (g s4) (g a) /\ incl (queue s4) (queue a) /\ NewCov s4 a).
    pose (QE := fun (m : nat) (a : st Val) => visited (get (g a) m) = true).
    assert (PreE : forall a m, PE a -> pre (g a) m false).
    { intros a m (_ & _ & (_ & _ & _ & _ & Qa & _ & _) & _) p Hp Pp. destruct X04 as (_ & _ & _ & _ & Q04 & _ & _).
      simpl in Pre. eapply Pre; eauto. }
    destruct (fold_opt_inv2 PE QE (fun a m => update_node F false f a m false) (Dts n) s4 s') as [(S' & I' & X4' & Q4' & N4') VE]; auto.
    { split; [|split; [|split; [|split]]]; auto. apply ext_refl; auto. apply incl_refl.
      intros k Hk Dk Ck NDk. congruence. }
    { intros a m a' Hm Pa Ea. pose proof Pa as (Sa & Ia & Xa & Qa & Na).
      destruct (IH a m false a' (Dts_range _ _ Hm) Sa Ia (PreE a m Pa) Ea) as (Ia' & Xa' & Va' & _ & Qa' & Na').
      split; [|exact Va']. split; [apply Xa'|]. split; auto. split; [eapply ext_trans; eauto|].
      split; [eapply incl_tran; eauto|]. eapply NewCov_trans; eauto. }
    { intros a m y a' Hm Hy Pa Qa Ea. pose proof Pa as (Sa & Ia & Xa & _).
      destruct (IH a y false a' (Dts_range _ _ Hy) Sa Ia (PreE a y Pa) Ea) as (_ & (_ & Vm & _) & _).
      apply Vm; auto. eapply Dts_range; eauto. }
    pose proof X4' as (_ & V4' & D4' & _ & _ & _ & _).
    split; auto. split; [eapply ext_trans; eauto|].
    split; [apply V4'; auto|]. split; [intros _; rewrite D4'; auto|].
    split; [eapply incl_tran; eauto|].
    intros k Hk Dk Ck NDk. destruct (done (get (g s4) k)) eqn:Dk4.
    - pose proof (D4' k Hk Dk4) as Eq. destruct (Nat.eq_dec k n) as [->|Ne].
      + intros m Hm. left. apply VE; auto.
      + apply (CovAt_mono s4 s' k); auto. apply Cov4; auto. rewrite <- Eq; auto.
    - apply N4'; auto.
  Qed.

  (* ---------------- the drain loop: completeness and the fixpoint equation ---------------- *)
  Definition NoPend (gr : graph Val) := forall p, p < N -> ~ pend gr p.
  Definition Cov (s : st Val) := forall k, k < N -> done (get (g s) k) = true -> changed (get (g s) k) = true -> CovAt s k.
  (* a changed node that nobody visited yet is waiting in the queue (true of the sinks that were sent) *)
  Definition SrcQ (s : st Val) := forall k, k < N -> changed (get (g s) k) = true -> visited (get (g s) k) = false -> In k (queue s).
  Definition Good (s : st Val) := shape (g s) /\ I (g s) /\ NoPend (g s) /\ Cov s /\ SrcQ s.

  (* every derived node satisfies its equation: the propagation reached a fixpoint *)
  Definition Fixpoint_ok (gr : graph Val) := forall n, n < N -> cons gr n.

  Lemma good_empty_fix s : Good s -> queue s = [] -> Fixpoint_ok (g s).
  Proof.
    intros (S & (I1 & I2) & NP & C & SQ) Q n Hn.
    destruct (done (get (g s) n)) eqn:Dn; [apply I1; auto|].
    intros NE. destruct (I2 n Hn Dn NE) as [Fn Cn]. rewrite Fn, Cn.
    assert (Ex : existsb (fun d => changed (get (g s) d)) (D n) = false).
    { destruct (existsb _ (D n)) eqn:Ex; auto. exfalso. apply existsb_exists in Ex as (d & Hd & Cd).
      pose proof (D_range _ _ Hd) as Hdn.
      assert (Vn : visited (get (g s) n) = false).
      { destruct (visited (get (g s) n)) eqn:Vn; auto. exfalso. apply (NP n Hn). split; auto. }
      destruct (done (get (g s) d)) eqn:Dd.
      - (* a done changed dependency covers n *)
        assert (Hm : In n (Dts d)) by (apply Dts_complete; auto).
        destruct (C d Hdn Dd Cd n Hm) as [V|Qn]; [congruence | rewrite Q in Qn; inversion Qn].
      - destruct (visited (get (g s) d)) eqn:Vd; [apply (NP d Hdn); split; auto|].
        pose proof (SQ d Hdn Cd Vd) as Qd. rewrite Q in Qd. inversion Qd. }
    rewrite Ex. auto.
  Qed.

  Lemma get_out (gr : graph Val) x : length gr <= x -> visited (get gr x) = true.
  Proof. intros H. unfold get. rewrite nth_overflow; auto. Qed.

  Lemma update_node_out_of_range fuel a x b a' :
    shape (g a) -> ~ x < N -> update_node F false fuel a x b = Some a' -> a' = a.
  Proof.
    intros [L _] Hx E. destruct fuel as [|f]; [discriminate|]. cbn [update_node] in E.
    unfold get in E at 1. rewrite nth_overflow in E by lia. simpl in E. congruence.
  Qed.

  Lemma drain_good : forall rounds fuel s s',
    Good s -> drain F false rounds fuel s = Some s' -> Good s' /\ queue s' = [] /\ ext (g s) (g s').
  Proof.
    induction rounds as [|r IHr]; intros fuel s s' Gd E; [discriminate|].
    cbn [drain] in E. destruct (queue s) as [|q0 qs] eqn:Q.
    { inversion E; subst. split; auto. split; auto. apply ext_refl. apply Gd. }
    rewrite <- Q in E.
    match type of E with match ?T with _ => _ end = _ => destruct T as [s1|] eqn:EF end; [|discriminate].
    destruct Gd as (S & Inv & NP & C & SQ).
    set (s0 := {| g := g s; queue := []; log := log s |}) in *.
    pose (P := fun a : st Val => shape (g a) /\ I (g a) /\ NoPend (g a) /\ ext (g s0) (g a) /\
                (forall k, k < N -> done (get (g a) k) = true -> changed (get (g a) k) = true ->
                           forall m, In m (Dts k) -> visited (get (g a) m) = true \/ In m (queue a) \/ In m (queue s))).
    pose (Qv := fun (m : nat) (a : st Val) => visited (get (g a) m) = true).
    destruct (fold_opt_inv2 P Qv (fun a x => update_node F false fuel a x false) (queue s) s0 s1) as [(S1 & I1 & NP1 & X1 & C1) V1]; auto.
    { split; [|split; [|split; [|split]]]; auto.
      - apply ext_refl; auto.
      - intros k Hk Dk Ck m Hm. destruct (C k Hk Dk Ck m Hm); auto. }
    { intros a x a' Hx (Sa & Ia & NPa & Xa & Ca) Ea.
      destruct (lt_dec x N) as [HxN|HxN].
      2:{ pose proof (update_node_out_of_range _ _ _ _ _ Sa HxN Ea); subst a'. split; [exact (conj Sa (conj Ia (conj NPa (conj Xa Ca))))|].
          unfold Qv. apply get_out. destruct Sa as [La _]. lia. }
      assert (Pre : pre (g a) x false) by (intros p Hp; apply NPa; auto).
      destruct (update_node_safe fuel a x false a' HxN Sa Ia Pre Ea) as (Ia' & Xa' & Va' & _ & Qa' & Na').
      split; [|exact Va']. split; [apply Xa'|]. split; auto. split.
      { intros p Hp Pp. destruct Xa' as (_ & _ & _ & _ & Qp & _ & _). apply (NPa p Hp). apply Qp; auto. }
      split; [eapply ext_trans; eauto|].
      intros k Hk Dk Ck m Hm. destruct (done (get (g a) k)) eqn:Dka.
      - pose proof Xa' as (_ & Vm & Dm & _). pose proof (Dm k Hk Dka) as Eq.
        rewrite Eq in Ck. destruct (Ca k Hk Dka Ck m Hm) as [V|[Qm|Qs]]; auto.
        left. apply Vm; auto. eapply Dts_range; eauto.
      - destruct (Na' k Hk Dk Ck Dka m Hm); auto. }
    { intros a x y a' Hx Hy (Sa & Ia & NPa & Xa & Ca) Qa Ea.
      destruct (lt_dec y N) as [HyN|HyN].
      2:{ pose proof (update_node_out_of_range _ _ _ _ _ Sa HyN Ea); subst a'; auto. }
      assert (Pre : pre (g a) y false) by (intros p Hp; apply NPa; auto).
      destruct (update_node_safe fuel a y false a' HyN Sa Ia Pre Ea) as (_ & (_ & Vm & _) & _).
      destruct (lt_dec x N) as [HxN|HxN]; [apply Vm; auto|].
      destruct (update_node_safe fuel a y false a' HyN Sa Ia Pre Ea) as (_ & ((L' & _) & _) & _).
      unfold Qv. apply get_out. lia. }
    assert (Gd1 : Good s1).
    { split; auto. split; auto. split; auto. split.
      - intros k Hk Dk Ck m Hm. destruct (C1 k Hk Dk Ck m Hm) as [V|[Qm|Qs]]; auto. left. apply V1; auto.
      - intros k Hk Ck Vk. exfalso. destruct X1 as (_ & _ & _ & _ & _ & U1 & _). pose proof (U1 k Hk Vk) as Eq.
        rewrite Eq in Ck, Vk. simpl in Ck, Vk. pose proof (SQ k Hk Ck Vk) as Hq. specialize (V1 k Hq). unfold Qv in V1.
        rewrite Eq in V1. simpl in V1. congruence. }
    destruct (IHr fuel s1 s' Gd1 E) as (Gd' & Q' & X').
    split; auto. split; auto. eapply ext_trans; eauto.
  Qed.

  (* two fixpoints over the same sources agree everywhere: the result does not depend on the order
     of the queue, of the dependents lists, or of anything else the walk did *)
  Lemma fixpoint_unique (gr1 gr2 : graph Val) :
    Fixpoint_ok gr1 -> Fixpoint_ok gr2 ->
    (forall n, n < N -> D n = [] -> fire (get gr1 n) = fire (get gr2 n) /\ changed (get gr1 n) = changed (get gr2 n)) ->
    forall n, n < N -> fire (get gr1 n) = fire (get gr2 n) /\ changed (get gr1 n) = changed (get gr2 n).
  Proof.
    intros F1 F2 Src n. remember (rank n) as r eqn:Hr. revert n Hr.
    induction r as [r IHr] using lt_wf_ind. intros n Hr Hn.
    destruct (D n) as [|d0 ds] eqn:Dn; [apply Src; auto|].
    assert (NE : D n <> []) by (rewrite Dn; discriminate).
    destruct (F1 n Hn NE) as [A1 B1]. destruct (F2 n Hn NE) as [A2 B2].
    assert (Eq : forall d, In d (D n) -> fire (get gr1 d) = fire (get gr2 d) /\ changed (get gr1 d) = changed (get gr2 d)).
    { intros d Hd. apply (IHr (rank d)); auto. subst r. apply rank_ok; auto. eapply D_range; eauto. }
    assert (E1 : existsb (fun d => changed (get gr1 d)) (D n) = existsb (fun d => changed (get gr2 d)) (D n)).
    { clear -Eq. induction (D n) as [|d l IHl]; simpl; auto. rewrite (proj2 (Eq d (or_introl eq_refl))), IHl; auto.
      intros; apply Eq; simpl; auto. }
    assert (E2 : map (fun d => fire (get gr1 d)) (D n) = map (fun d => fire (get gr2 d)) (D n)).
    { clear -Eq. induction (D n) as [|d l IHl]; simpl; auto. rewrite (proj1 (Eq d (or_introl eq_refl))), IHl; auto.
      intros; apply Eq; simpl; auto. }
    assert (Fe : fire (get gr1 n) = fire (get gr2 n)) by (rewrite A1, A2, E1, E2; reflexivity).
    split; auto. rewrite B1, B2, Fe. reflexivity.
  Qed.

  (* C03 at engine level: whatever the order of the queue and of the dependents lists, draining ends,
     when it ends, in the unique fixpoint over the unchanged sources. *)
  Theorem drain_fixpoint rounds fuel s s' :
    Good s -> drain F false rounds fuel s = Some s' ->
    Fixpoint_ok (g s') /\
    (forall n, n < N -> D n = [] -> fire (get (g s') n) = fire (get (g s) n) /\ changed (get (g s') n) = changed (get (g s) n)).
  Proof.
    intros Gd E. destruct (drain_good rounds fuel s s' Gd E) as (Gd' & Q' & X').
    split; [apply good_empty_fix; auto|]. apply X'.
  Qed.

  Corollary drain_order_independent r1 f1 r2 f2 s1 s2 s1' s2' :
    Good s1 -> Good s2 ->
    (forall n, n < N -> D n = [] -> fire (get (g s1) n) = fire (get (g s2) n) /\ changed (get (g s1) n) = changed (get (g s2) n)) ->
    drain F false r1 f1 s1 = Some s1' -> drain F false r2 f2 s2 = Some s2' ->
    forall n, n < N -> fire (get (g s1') n) = fire (get (g s2') n).
  Proof.
    intros G1 G2 Src E1 E2 n Hn.
    destruct (drain_fixpoint _ _ _ _ G1 E1) as [F1 U1]. destruct (drain_fixpoint _ _ _ _ G2 E2) as [F2 U2].
    apply (fixpoint_unique (g s1') (g s2') F1 F2); auto.
    intros k Hk Dk. destruct (U1 k Hk Dk) as [A B]. destruct (U2 k Hk Dk) as [A' B']. destruct (Src k Hk Dk) as [A'' B''].
    split; congruence.
  Qed.
End Safety.
Print Assumptions update_node_safe.
Print Assumptions drain_order_independent.

(* ---- the D1 witness: s1=0 s2=1 x1=2(s1) x2=3(s2) d=4(x1,x2) n=5(s2,d) ---- *)
Definition mk {Val} ds dts ch (fr : option Val) : node Val := {| deps := ds; dependents := dts; visited := false; done := false; changed := ch; fire := fr |}.
Definition G0 : graph nat :=
  [ mk [] [2] true (Some 1); mk [] [3;5] true (Some 2); mk [0] [4] false None; mk [1] [4] false None;
    mk [2;3] [5] false None; mk [1;4] [] false None ].
(* rule: sum of the firing inputs, +100 per node to tell them apart *)
Definition Fsum : rule nat := fun n ins =>
  let vs := flat_map (fun o => match o with Some v => [v] | None => [] end) ins in
  match vs with [] => None | _ => Some (100 * n + list_sum vs) end.

Definition final (orig : bool) (q : list nat) :=
  match drain Fsum orig 20 20 {| g := G0; queue := q; log := [] |} with
  | Some s => Some (map fire (g s), rev (log s)) | None => None end.

Eval vm_compute in final true [0;1].   (* original, s1 then s2: node 5 computed without d *)
Eval vm_compute in final true [1;0].   (* original, other send order *)
Eval vm_compute in final false [0;1].  (* repaired *)
Eval vm_compute in final false [1;0].

(* ---- non-vacuity: the D1 witness graph satisfies every hypothesis, and the theorem applies to it ---- *)
Definition D0 (n : nat) : list nat := nth n [[]; []; [0]; [1]; [2;3]; [1;4]] [].
Definition Dts0 (n : nat) : list nat := nth n [[2]; [3;5]; [4]; [4]; [5]; []] [].
Ltac cases6 n := do 6 (destruct n as [|n]; [simpl; try tauto; try lia|]); simpl; try tauto.
Example witness_is_good :
  Good Fsum D0 Dts0 6 {| g := G0; queue := [0;1]; log := [] |}.
Proof.
  unfold Good, shape, I, NoPend, Cov, SrcQ, pend, clean; simpl.
  split; [split; [reflexivity|]|].
  - intros n Hn. cases6 n. lia.
  - split; [split|].
    + intros n Hn Dn. exfalso. revert Dn. cases6 n; try discriminate. lia.
    + intros n Hn _ NE. revert NE. cases6 n; try (intros; split; reflexivity); lia.
    + split; [|split].
      * intros p Hp [V _]. revert V. cases6 p; try discriminate. lia.
      * intros k Hk Dk. exfalso. revert Dk. cases6 k; try discriminate. lia.
      * intros k Hk Ck Vk. revert Ck. cases6 k; try discriminate; try (intros; simpl; auto). lia.
Qed.
Ltac inlist := simpl; intros H; repeat (destruct H as [H|H]; [subst; simpl; auto; try lia|]); try contradiction.
Example witness_hyps :
  (forall n d, In d (D0 n) -> d < n) /\ (forall n d, In d (D0 n) -> d < 6) /\ (forall n d, In d (Dts0 n) -> d < 6) /\
  (forall n d, n < 6 -> In d (D0 n) -> In n (Dts0 d)).
Proof.
  split; [|split; [|split]].
  - intros n d. do 6 (destruct n as [|n]; [inlist|]). destruct n; inlist.
  - intros n d. do 6 (destruct n as [|n]; [inlist|]). destruct n; inlist.
  - intros n d. do 6 (destruct n as [|n]; [inlist|]). destruct n; inlist.
  - intros n d Hn. do 6 (destruct n as [|n]; [inlist|]). lia.
Qed.
