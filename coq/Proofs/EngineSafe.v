(* Proofs about Model/Engine.v: glitch freedom of the repaired propagation algorithm on every
   ranked (acyclic) graph, for every rule, every demand function, every registration order and every
   queue order.

   Demands.  A node n has static dependencies `D n`; its update may DEMAND further nodes `Dm n ins`, a
   function of the firings `ins` of its static dependencies.  The graph that has to be acyclic is the
   POTENTIAL graph `D n ++ Dem n`, where `Dem n` over-approximates the demands of n - but only the demands
   that occur at the SOLUTION `den` of the equations of the graph have to lie within `Dem n` (hypothesis
   Dm_den; it follows trivially from `forall n ins, incl (Dm n ins) (Dem n)`).  The equation of a node:
       with ins = firings of D n and ex = Dm n ins,
       fire n = if some node of D n ++ ex changed then F n ins (firings of ex) else None      (`cons`)
   and a node is settled when its static dependencies and the nodes it demands are done          (`I`).
   A demanded node that becomes done and changed queues ITS dependents (it is entered as a dependency);
   the demanding node need not be registered among them.  Demands are made from inside the update, hence
   only when some static dependency fired (hypothesis Dm_quiet). *)
From Coq Require Import List Arith Lia Bool.
Import ListNotations.
From Sodium Require Import Engine.


(* ---------------- safety half of C03 for the repaired algorithm ---------------- *)
Lemma get_set_same {Val} (gr : graph Val) n x : n < length gr -> get (set gr n x) n = x.
Proof. unfold get. revert n; induction gr as [|y t IH]; intros [|k] H; simpl in *; try lia; auto. apply IH; lia. Qed.
Lemma get_set_other {Val} (gr : graph Val) n m x : n <> m -> get (set gr n x) m = get gr m.
Proof. unfold get. revert n m; induction gr as [|y t IH]; intros [|k] [|j] H; simpl; auto; try lia. Qed.
Lemma set_length {Val} (gr : graph Val) n x : length (set gr n x) = length gr.
Proof. revert n; induction gr as [|y t IH]; intros [|k]; simpl; auto. Qed.


Lemma fold_opt_inv {Val A} (P : st Val -> Prop) (f : st Val -> A -> option (st Val)) l : forall s0 r,
  P s0 -> (forall a x s', In x l -> P a -> f a x = Some s' -> P s') ->
  fold_left (fun acc x => match acc with None => None | Some a => f a x end) l (Some s0) = Some r -> P r.
Proof.
  induction l as [|x l IH]; simpl; intros s0 r P0 Step E.
  - inversion E; subst; auto.
  - destruct (f s0 x) as [s1|] eqn:E1.
    + apply (IH s1 r); auto.
      * eapply Step; eauto.
      * intros a y s' Hy Pa Ea. eapply Step; eauto.
    + exfalso. clear -E. induction l; simpl in *; [discriminate|auto].
Qed.

Lemma fold_opt_inv2 {Val A} (P : st Val -> Prop) (Q : A -> st Val -> Prop) (f : st Val -> A -> option (st Val)) l : forall s0 r,
  P s0 ->
  (forall a x s', In x l -> P a -> f a x = Some s' -> P s' /\ Q x s') ->
  (forall a x y s', In x l -> In y l -> P a -> Q x a -> f a y = Some s' -> Q x s') ->
  fold_left (fun acc x => match acc with None => None | Some a => f a x end) l (Some s0) = Some r ->
  P r /\ forall x, In x l -> Q x r.
Proof.
  induction l as [|x l IH]; simpl; intros s0 r P0 Step Stable E.
  - inversion E; subst; split; auto. intros ? [].
  - destruct (f s0 x) as [s1|] eqn:E1.
    + destruct (Step s0 x s1 (or_introl eq_refl) P0 E1) as [P1 Q1].
      assert (G : forall l' a r', P a -> Q x a -> incl l' l ->
                 fold_left (fun acc x => match acc with None => None | Some a => f a x end) l' (Some a) = Some r' -> Q x r' /\ P r').
      { induction l' as [|y l' IH']; simpl; intros a r' Pa Qa Inc Er.
        - inversion Er; subst; auto.
        - destruct (f a y) as [a'|] eqn:Ea.
          + assert (In y l) by (apply Inc; simpl; auto).
            destruct (Step a y a' (or_intror H) Pa Ea) as [Pa' _].
            apply (IH' a' r'); auto.
            * eapply (Stable a x y a'); simpl; eauto.
            * intros z Hz; apply Inc; simpl; auto.
          + exfalso. clear -Er. induction l'; simpl in *; [discriminate|auto]. }
      destruct (IH s1 r P1) as [Pr Qr]; auto.
      * intros a y s' Hy Pa Ea. apply (Step a y s'); auto.
      * intros a y z s' Hy Hz Pa Qa Ea. apply (Stable a y z s'); auto.
      * split; auto. intros y [<-|Hy]; auto. apply (G l s1 r); auto. apply incl_refl.
    + exfalso. clear -E. induction l; simpl in *; [discriminate|auto].
Qed.

Lemma existsb_ext_in {A} (f h : A -> bool) l : (forall x, In x l -> f x = h x) -> existsb f l = existsb h l.
Proof.
  induction l as [|x l IH]; simpl; intros H; auto.
  rewrite (H x (or_introl eq_refl)), IH; auto.
Qed.

Lemma existsb_map {A B} (f : A -> B) (p : B -> bool) l : existsb p (map f l) = existsb (fun x => p (f x)) l.
Proof. induction l as [|x l IH]; simpl; auto. rewrite IH. reflexivity. Qed.

(* the engine without demands is the engine as it was before demands were added: one step of
   `update_node ... no_demands` unfolds to the old definition (no second stage, the rule applied to the
   firings of the static dependencies and to no demanded firing) *)
Lemma update_node_no_demands {Val} (F : rule Val) orig f s n as_dep :
  update_node F no_demands orig (S f) s n as_dep =
  if visited (get (g s) n) then Some s else
  let s1 := mark s n true false in
  let ds := deps (get (g s) n) in
  match fold_left (fun acc d => match acc with None => None | Some a =>
                      if visited (get (g a) d) then Some a else update_node F no_demands orig f a d true end) ds (Some s1) with
  | None => None
  | Some s2 =>
    let s3 := if existsb (fun d => changed (get (g s2) d)) ds then run_update F s2 n [] else s2 in
    let s4 := mark s3 n true true in
    if changed (get (g s4) n) then
      if as_dep && negb orig then
        Some {| g := g s4; queue := queue s4 ++ dependents (get (g s4) n); log := log s4 |}
      else
        fold_left (fun acc m => match acc with None => None | Some a => update_node F no_demands orig f a m false end)
                  (dependents (get (g s4) n)) (Some s4)
    else Some s4
  end.
Proof.
  cbn [update_node]. destruct (visited (get (g s) n)); [reflexivity|]. cbv zeta.
  destruct (fold_left _ (deps (get (g s) n)) _) as [s2|]; [|reflexivity].
  change (no_demands n (fires_of (g s2) (deps (get (g s) n)))) with (@nil nat).
  cbn [fold_left]. rewrite app_nil_r. reflexivity.
Qed.

Section Safety.
  Context {Val : Type}.
  Variable F : rule Val.
  Variable Dm : demand Val.
  (* D: static dependencies; Dem: potential demand targets; Dts: registered dependents *)
  Variables D Dem Dts : nat -> list nat.
  Variable rank : nat -> nat.
  Variable N : nat.
  (* a solution of the equations of the graph: sources as fired, every derived node its rule applied to
     the solution at its static dependencies and at the nodes it demands THERE.  Only the demands at the
     solution have to lie within the ranked potential demands (Dm_den): the potential-demand graph needs
     to be acyclic only where demands actually occur. *)
  Variable den : nat -> option Val.
  (* the potential graph (static dependencies and potential demands) is acyclic *)
  Hypothesis rank_ok : forall n d, In d (D n ++ Dem n) -> rank d < rank n.
  Hypothesis D_range : forall n d, In d (D n) -> d < N.
  Hypothesis Dem_range : forall n d, In d (Dem n) -> d < N.
  Hypothesis Dts_range : forall n d, In d (Dts n) -> d < N.
  Hypothesis den_eq : forall n, n < N -> D n <> [] ->
    den n = (if existsb is_some (map den (D n ++ Dm n (map den (D n))))
             then F n (map den (D n)) (map den (Dm n (map den (D n)))) else None).
  Hypothesis Dm_den : forall n, n < N -> incl (Dm n (map den (D n))) (Dem n).
  (* nothing is demanded unless a static dependency fired (the demand is made from inside the update) *)
  Hypothesis Dm_quiet : forall n ins, existsb is_some ins = false -> Dm n ins = [].
  (* every static dependency edge is registered in the dependents list of its target (a demanding node
     need NOT be registered among the dependents of the nodes it demands) *)
  Hypothesis Dts_complete : forall n d, n < N -> In d (D n) -> In n (Dts d).

  Definition shape (gr : graph Val) :=
    length gr = N /\ forall n, n < N -> deps (get gr n) = D n /\ dependents (get gr n) = Dts n.
  Definition pend (gr : graph Val) (n : nat) := visited (get gr n) = true /\ done (get gr n) = false.
  Definition clean (gr : graph Val) (n : nat) := D n <> [] -> fire (get gr n) = None /\ changed (get gr n) = false.
  (* firings of the static dependencies, the nodes demanded given these, all inputs *)
  Definition ins_of (gr : graph Val) (n : nat) : list (option Val) := fires_of gr (D n).
  Definition exs_of (gr : graph Val) (n : nat) : list nat := Dm n (ins_of gr n).
  Definition inp (gr : graph Val) (n : nat) : list nat := D n ++ exs_of gr n.
  Definition chgd (gr : graph Val) (l : list nat) : bool := existsb (fun d => changed (get gr d)) l.
  (* the equation of node n *)
  Definition cons (gr : graph Val) (n : nat) :=
    D n <> [] ->
    fire (get gr n) = (if chgd gr (inp gr n) then F n (ins_of gr n) (fires_of gr (exs_of gr n)) else None) /\
    changed (get gr n) = match fire (get gr n) with Some _ => true | None => false end.
  (* done nodes are settled (their static dependencies and the nodes they demand are done) and satisfy
     their equation; nodes not done yet are clean *)
  Definition I (gr : graph Val) :=
    (forall n, n < N -> done (get gr n) = true ->
        visited (get gr n) = true /\ (forall d, In d (inp gr n) -> done (get gr d) = true) /\ cons gr n) /\
    (forall n, n < N -> done (get gr n) = false -> clean gr n).
  (* the sources are as in the solution *)
  Definition SrcOK (gr : graph Val) :=
    forall n, n < N -> D n = [] -> fire (get gr n) = den n /\ changed (get gr n) = is_some (den n).
  Definition ext (gr gr' : graph Val) :=
    shape gr' /\
    (forall n, n < N -> visited (get gr n) = true -> visited (get gr' n) = true) /\
    (forall n, n < N -> done (get gr n) = true -> get gr' n = get gr n) /\
    (forall n, n < N -> pend gr n -> get gr' n = get gr n) /\
    (forall n, n < N -> pend gr' n -> pend gr n) /\
    (forall n, n < N -> visited (get gr' n) = false -> get gr' n = get gr n) /\
    (forall n, n < N -> D n = [] -> fire (get gr' n) = fire (get gr n) /\ changed (get gr' n) = changed (get gr n)).

  Lemma ext_refl gr : shape gr -> ext gr gr.
  Proof. intros S. unfold ext. intuition. Qed.

  Lemma ext_trans a b c : ext a b -> ext b c -> ext a c.
  Proof.
    intros (S1 & V1 & D1 & K1 & Q1 & U1 & R1) (S2 & V2 & D2 & K2 & Q2 & U2 & R2).
    split; [exact S2|]. split; [|split; [|split; [|split; [|split]]]].
    - intros n Hn Vn. apply V2; auto.
    - intros n Hn Dn. rewrite D2; auto. rewrite D1; auto.
    - intros n Hn Pn. rewrite K2; auto. unfold pend. rewrite K1; auto.
    - intros n Hn Pn. apply Q1; auto.
    - intros n Hn Vn. rewrite U2; auto. apply U1; auto. rewrite <- U2; auto.
    - intros n Hn Dn. destruct (R1 n Hn Dn) as [A B]. destruct (R2 n Hn Dn) as [A' B']. split; congruence.
  Qed.

  Lemma SrcOK_ext a b : SrcOK a -> ext a b -> SrcOK b.
  Proof.
    intros Sa (_ & _ & _ & _ & _ & _ & R) n Hn Dn. destruct (R n Hn Dn) as [A B]. rewrite A, B. apply Sa; auto.
  Qed.

  (* ---------------- inputs read only the nodes they name ---------------- *)
  Lemma fires_of_eq (gr gr' : graph Val) l : (forall d, In d l -> get gr' d = get gr d) -> fires_of gr' l = fires_of gr l.
  Proof. intros H. unfold fires_of. apply map_ext_in. intros d Hd. rewrite H; auto. Qed.

  Lemma chgd_eq (gr gr' : graph Val) l : (forall d, In d l -> get gr' d = get gr d) -> chgd gr' l = chgd gr l.
  Proof. intros H. unfold chgd. apply existsb_ext_in. intros d Hd. rewrite H; auto. Qed.

  Lemma exs_of_eq (gr gr' : graph Val) m : (forall d, In d (D m) -> get gr' d = get gr d) -> exs_of gr' m = exs_of gr m.
  Proof. intros H. unfold exs_of, ins_of. rewrite (fires_of_eq gr gr' (D m) H). reflexivity. Qed.

  Lemma inp_eq (gr gr' : graph Val) m : (forall d, In d (D m) -> get gr' d = get gr d) -> inp gr' m = inp gr m.
  Proof. intros H. unfold inp. rewrite (exs_of_eq gr gr' m H). reflexivity. Qed.

  Lemma in_inp_l gr m d : In d (D m) -> In d (inp gr m).
  Proof. intros H. unfold inp. apply in_or_app; auto. Qed.
  Lemma in_inp_r gr m d : In d (exs_of gr m) -> In d (inp gr m).
  Proof. intros H. unfold inp. apply in_or_app; auto. Qed.

  Lemma cons_eq (gr gr' : graph Val) m :
    (forall d, In d (inp gr m) -> get gr' d = get gr d) -> get gr' m = get gr m -> cons gr m -> cons gr' m.
  Proof.
    intros H Hm C NE. specialize (C NE).
    assert (HD : forall d, In d (D m) -> get gr' d = get gr d) by (intros d Hd; apply H; apply in_inp_l; exact Hd).
    assert (HX : forall d, In d (exs_of gr m) -> get gr' d = get gr d) by (intros d Hd; apply H; apply in_inp_r; exact Hd).
    rewrite Hm, (inp_eq gr gr' m HD), (exs_of_eq gr gr' m HD). unfold ins_of.
    rewrite (fires_of_eq gr gr' (D m) HD), (fires_of_eq gr gr' (exs_of gr m) HX), (chgd_eq gr gr' (inp gr m) H).
    exact C.
  Qed.

  (* ---------------- a set of nodes closed under inputs, each satisfying its equation, carries the solution ---------------- *)
  Lemma closed_den gr (P : nat -> Prop) :
    (forall n, n < N -> P n -> cons gr n /\ forall d, In d (inp gr n) -> P d) ->
    SrcOK gr -> forall n, n < N -> P n ->
    fire (get gr n) = den n /\ changed (get gr n) = is_some (den n).
  Proof.
    intros Cl Src n. remember (rank n) as r eqn:Hr. revert n Hr.
    induction r as [r IHr] using lt_wf_ind. intros n Hr Hn Pn.
    destruct (list_eq_dec Nat.eq_dec (D n) []) as [En|NE]; [apply Src; auto|].
    destruct (Cl n Hn Pn) as (C & Ds). destruct (C NE) as [A B].
    assert (EqD : forall d, In d (D n) -> fire (get gr d) = den d /\ changed (get gr d) = is_some (den d)).
    { intros d Hd. apply (IHr (rank d)); auto.
      - subst r. apply rank_ok. apply in_or_app; auto.
      - eapply D_range; eauto.
      - apply Ds. apply in_inp_l; exact Hd. }
    assert (Ei : ins_of gr n = map den (D n)).
    { unfold ins_of, fires_of. apply map_ext_in. intros d Hd. apply EqD; auto. }
    assert (Ex : exs_of gr n = Dm n (map den (D n))) by (unfold exs_of; rewrite Ei; reflexivity).
    assert (EqX : forall d, In d (exs_of gr n) -> fire (get gr d) = den d /\ changed (get gr d) = is_some (den d)).
    { intros d Hd. pose proof Hd as Hd'. rewrite Ex in Hd'. apply (Dm_den n Hn) in Hd'. apply (IHr (rank d)); auto.
      - subst r. apply rank_ok. apply in_or_app; auto.
      - eapply Dem_range; eauto.
      - apply Ds. apply in_inp_r; exact Hd. }
    assert (EqA : forall d, In d (inp gr n) -> fire (get gr d) = den d /\ changed (get gr d) = is_some (den d)).
    { intros d Hd. unfold inp in Hd. apply in_app_or in Hd as [Hd|Hd]; auto. }
    assert (Ec : chgd gr (inp gr n) = existsb is_some (map den (D n ++ Dm n (map den (D n))))).
    { rewrite existsb_map. unfold chgd. rewrite <- Ex. apply existsb_ext_in. intros d Hd. apply EqA; exact Hd. }
    assert (Ef : fires_of gr (exs_of gr n) = map den (Dm n (map den (D n)))).
    { rewrite <- Ex. unfold fires_of. apply map_ext_in. intros d Hd. apply EqX; exact Hd. }
    assert (Fe : fire (get gr n) = den n).
    { rewrite A, Ec, Ei, Ef. symmetry. apply den_eq; auto. }
    split; [exact Fe|]. rewrite B, Fe. reflexivity.
  Qed.

  (* done nodes carry the solution *)
  Lemma done_den gr : I gr -> SrcOK gr -> forall n, n < N -> done (get gr n) = true ->
    fire (get gr n) = den n /\ changed (get gr n) = is_some (den n).
  Proof.
    intros [I1 _] Src. apply (closed_den gr (fun n => done (get gr n) = true)); [|exact Src].
    intros n Hn Dn. destruct (I1 n Hn Dn) as (_ & Ds & C). split; [exact C | exact Ds].
  Qed.

  (* when the static dependencies of n are done, the nodes n demands are the demands at the solution,
     hence potential demands of n *)
  Lemma demands_at_solution gr n : I gr -> SrcOK gr -> n < N -> (forall d, In d (D n) -> done (get gr d) = true) ->
    ins_of gr n = map den (D n) /\ incl (exs_of gr n) (Dem n).
  Proof.
    intros Inv Src Hn Ds.
    assert (Ei : ins_of gr n = map den (D n)).
    { unfold ins_of, fires_of. apply map_ext_in. intros d Hd. apply (done_den gr Inv Src d); auto. eapply D_range; eauto. }
    split; [exact Ei|]. unfold exs_of. rewrite Ei. apply Dm_den; exact Hn.
  Qed.

  Definition pre (gr : graph Val) (n : nat) (as_dep : bool) :=
    if as_dep then forall p, p < N -> pend gr p -> rank n < rank p else forall p, p < N -> ~ pend gr p.

  (* changing only the visited/done flags of node n *)
  Definition reflag (x : node Val) v d :=
    {| deps := deps x; dem := dem x; dependents := dependents x; visited := v; done := d; changed := changed x; fire := fire x |}.
  Lemma mark_g s n v d : g (mark s n v d) = set (g s) n (reflag (get (g s) n) v d).
  Proof. reflexivity. Qed.

  Lemma shape_set gr n x : shape gr -> n < N -> deps x = D n -> dependents x = Dts n -> shape (set gr n x).
  Proof.
    intros [L S] Hn E1 E2. split; [rewrite set_length; auto|]. intros m Hm.
    destruct (Nat.eq_dec n m) as [->|Ne]; [rewrite get_set_same by lia; auto | rewrite get_set_other by auto; auto].
  Qed.

  (* step A of update_node: marking an undone node pending keeps the invariants *)
  Lemma mark_pending_get (s : st Val) n m :
    n < length (g s) ->
    get (g (mark s n true false)) m = if Nat.eqb n m then reflag (get (g s) n) true false else get (g s) m.
  Proof.
    intros L. rewrite mark_g. destruct (Nat.eqb_spec n m) as [->|Ne]; [rewrite get_set_same | rewrite get_set_other]; auto.
  Qed.

  Lemma I_mark_pending s n :
    n < N -> shape (g s) -> I (g s) -> done (get (g s) n) = false ->
    shape (g (mark s n true false)) /\ I (g (mark s n true false)).
  Proof.
    intros Hn [L S] Iv Dn_false.
    assert (Lg : n < length (g s)) by lia.
    assert (G1 : forall m, get (g (mark s n true false)) m = if Nat.eqb n m then reflag (get (g s) n) true false else get (g s) m)
      by (intros; apply mark_pending_get; auto).
    split.
    { rewrite mark_g. apply shape_set; [split; auto| auto | simpl; apply S; auto | simpl; apply S; auto]. }
    remember (mark s n true false) as s1 eqn:Hs1.
    assert (G1o : forall m, m <> n -> get (g s1) m = get (g s) m).
    { intros m Ne. rewrite G1. destruct (Nat.eqb_spec n m); [congruence|reflexivity]. }
    destruct Iv as [I1 I2]. split.
    - intros m Hm Dm0. rewrite G1 in Dm0. destruct (Nat.eqb_spec n m) as [->|Ne]; [simpl in Dm0; discriminate|].
      destruct (I1 m Hm Dm0) as (V & Ds & C).
      assert (Dsn : forall d, In d (inp (g s) m) -> get (g s1) d = get (g s) d).
      { intros d Hd. apply G1o. intros ->. specialize (Ds n Hd). congruence. }
      assert (Gm : get (g s1) m = get (g s) m) by (apply G1o; auto).
      assert (Ei : inp (g s1) m = inp (g s) m) by (apply inp_eq; intros d Hd; apply Dsn; apply in_inp_l; exact Hd).
      rewrite Gm. split; [exact V|]. split.
      + intros d Hd. rewrite Ei in Hd. rewrite Dsn by exact Hd. apply Ds; exact Hd.
      + apply (cons_eq (g s) (g s1) m Dsn Gm C).
    - intros m Hm Dm0 NE. rewrite G1 in *. destruct (Nat.eqb_spec n m) as [->|Ne]; simpl.
      + apply (I2 m Hm Dn_false NE).
      + apply (I2 m Hm Dm0 NE).
  Qed.

  Definition CovAt (s : st Val) (k : nat) := forall m, In m (Dts k) -> visited (get (g s) m) = true \/ In m (queue s).
  (* nodes that became done and changed between s and s' have all their dependents visited or queued *)
  Definition NewCov (s s' : st Val) :=
    forall k, k < N -> done (get (g s') k) = true -> changed (get (g s') k) = true -> done (get (g s) k) = false -> CovAt s' k.
  Definition Post (s : st Val) (n : nat) (s' : st Val) :=
    I (g s') /\ ext (g s) (g s') /\ visited (get (g s') n) = true /\ (visited (get (g s) n) = false -> done (get (g s') n) = true) /\
    incl (queue s) (queue s') /\ NewCov s s'.

  Lemma CovAt_mono a b k : CovAt a k -> ext (g a) (g b) -> incl (queue a) (queue b) -> CovAt b k.
  Proof.
    intros C (_ & V & _) Inc m Hm. destruct (C m Hm) as [Vm|Qm]; [left; apply V; auto; eapply Dts_range; eauto | right; auto].
  Qed.

  Lemma NewCov_refl a : NewCov a a.
  Proof. intros k Hk Dk Ck NDk. congruence. Qed.

  Lemma NewCov_trans a b c :
    ext (g a) (g b) -> ext (g b) (g c) -> incl (queue b) (queue c) -> NewCov a b -> NewCov b c -> NewCov a c.
  Proof.
    intros Xab Xbc Inc Nab Nbc k Hk Dk Ck NDa.
    destruct (done (get (g b) k)) eqn:Db.
    - pose proof Xbc as (Sc & Vbc & Dbc & Kbc & Qbc & Ubc & Rbc). pose proof (Dbc k Hk Db) as Eq.
      apply (CovAt_mono b c k); auto. apply Nab; auto. rewrite <- Eq; auto.
    - apply Nbc; auto.
  Qed.

  (* visiting, as dependencies, the unvisited nodes of a list *)
  Definition visit_deps (f : nat) (l : list nat) (a0 : st Val) : option (st Val) :=
    fold_left (fun acc d => match acc with None => None | Some a =>
                 if visited (get (g a) d) then Some a else update_node F Dm false f a d true end) l (Some a0).

  Definition SafeAt (f : nat) := forall s n as_dep s',
    n < N -> shape (g s) -> I (g s) -> SrcOK (g s) -> pre (g s) n as_dep ->
    update_node F Dm false f s n as_dep = Some s' -> Post s n s'.

  (* visiting as dependencies a list of nodes each of lower rank than every pending node: all end done *)
  Lemma visit_deps_safe f l a0 r :
    SafeAt f -> (forall d, In d l -> d < N) ->
    (forall p d, p < N -> pend (g a0) p -> In d l -> rank d < rank p) ->
    shape (g a0) -> I (g a0) -> SrcOK (g a0) ->
    visit_deps f l a0 = Some r ->
    shape (g r) /\ I (g r) /\ ext (g a0) (g r) /\ incl (queue a0) (queue r) /\ NewCov a0 r /\
    forall d, In d l -> done (get (g r) d) = true.
  Proof.
    intros IH Hl Hp Sa0 Ia0 Src0 Er. unfold visit_deps in Er.
    pose (P := fun a : st Val => shape (g a) /\ I (g a) /\ ext (g a0) (g a) /\ incl (queue a0) (queue a) /\ NewCov a0 a).
    pose (Q := fun (d : nat) (a : st Val) => visited (get (g a) d) = true).
    pose (fB := fun (a : st Val) (d : nat) => if visited (get (g a) d) then Some a else update_node F Dm false f a d true).
    assert (PreB : forall a d, In d l -> P a -> pre (g a) d true).
    { intros a d Hd (_ & _ & (_ & _ & _ & _ & Qa & _ & _) & _) p HpN Pp. apply (Hp p d HpN); auto. }
    assert (SrcB : forall a, P a -> SrcOK (g a)).
    { intros a (_ & _ & Xa & _). apply (SrcOK_ext (g a0)); auto. }
    destruct (fold_opt_inv2 P Q fB l a0 r) as [(Sr & Ir & X0r & Q0r & N0r) Vr]; auto.
    { split; [|split; [|split; [|split]]]; auto. apply ext_refl; auto. apply incl_refl. apply NewCov_refl. }
    { intros a d a' Hd Pa Ea. unfold fB in Ea. destruct (visited (get (g a) d)) eqn:Vd.
      - inversion Ea; subst. split; auto.
      - pose proof Pa as (Sa & Ia & Xa & Qa & Na).
        destruct (IH a d true a' (Hl d Hd) Sa Ia (SrcB a Pa) (PreB a d Hd Pa) Ea) as (Ia' & Xa' & Va' & _ & Qa' & Na').
        split; [|exact Va']. split; [apply Xa'|]. split; auto. split; [eapply ext_trans; eauto|].
        split; [eapply incl_tran; eauto|]. eapply NewCov_trans; eauto. }
    { intros a d y a' Hd Hy Pa Qa Ea. unfold fB in Ea. destruct (visited (get (g a) y)) eqn:Vy.
      - inversion Ea; subst; auto.
      - pose proof Pa as (Sa & Ia & Xa & _).
        destruct (IH a y true a' (Hl y Hy) Sa Ia (SrcB a Pa) (PreB a y Hy Pa) Ea) as (_ & (_ & Vm & _) & _).
        apply Vm; auto. }
    split; [exact Sr|]. split; [exact Ir|]. split; [exact X0r|]. split; [exact Q0r|]. split; [exact N0r|].
    (* visited and of lower rank than every pending node: done *)
    intros d Hd. destruct (done (get (g r) d)) eqn:Dd; auto. exfalso.
    assert (Pd : pend (g r) d) by (split; auto; apply Vr; auto).
    destruct X0r as (_ & _ & _ & _ & Q0 & _ & _).
    pose proof (Hp d d (Hl d Hd) (Q0 d (Hl d Hd) Pd) Hd). lia.
  Qed.

  Theorem update_node_safe : forall fuel s n as_dep s',
    n < N -> shape (g s) -> I (g s) -> SrcOK (g s) -> pre (g s) n as_dep ->
    update_node F Dm false fuel s n as_dep = Some s' -> Post s n s'.
  Proof.
    induction fuel as [|f IH]; intros s n as_dep s' Hn S Inv Src Pre E; [discriminate|].
    cbn [update_node] in E.
    destruct (visited (get (g s) n)) eqn:Vn.
    { inversion E; subst s'. split; [exact Inv|]. split; [apply ext_refl; exact S|]. split; [exact Vn|]. split; [intros C; congruence|].
      split; [apply incl_refl|]. apply NewCov_refl. }
    set (x := get (g s) n) in *.
    assert (Dn_false : done x = false).
    { destruct (done x) eqn:Dx; auto. destruct Inv as [I1 _]. destruct (I1 n Hn Dx) as [V _]. unfold x in *; congruence. }
    pose proof S as [L Sd].
    assert (Lg : n < length (g s)) by lia.
    (* step A: mark pending *)
    destruct (I_mark_pending s n Hn S Inv Dn_false) as [S1 Inv1].
    remember (mark s n true false) as s1 eqn:Hs1.
    assert (G1 : forall m, get (g s1) m = if Nat.eqb n m then reflag x true false else get (g s) m).
    { intros m. rewrite Hs1. apply mark_pending_get; exact Lg. }
    assert (P1 : forall p, p < N -> pend (g s1) p -> p = n \/ pend (g s) p).
    { intros p Hp [A B]. rewrite G1 in A, B. destruct (Nat.eqb_spec n p); auto. right; split; auto. }
    assert (Src1 : SrcOK (g s1)).
    { intros m Hm Dm0. rewrite G1. destruct (Nat.eqb_spec n m) as [->|Ne]; [simpl; apply Src; auto | apply Src; auto]. }
    assert (Xn : D n <> [] -> fire x = None /\ changed x = false).
    { destruct Inv as [_ I2]. apply (I2 n Hn Dn_false). }
    assert (Dx : deps x = D n) by (apply Sd; auto).
    assert (Dtx : dependents x = Dts n) by (apply Sd; auto).
    assert (Pn1 : pend (g s1) n).
    { split; rewrite G1, Nat.eqb_refl; auto. }
    (* visiting a list of lower-ranked nodes as dependencies, from any state reached from s1 *)
    assert (Visit : forall l a0 r,
              (forall d, In d l -> rank d < rank n /\ d < N) ->
              shape (g a0) -> I (g a0) -> ext (g s1) (g a0) ->
              visit_deps f l a0 = Some r ->
              shape (g r) /\ I (g r) /\ ext (g a0) (g r) /\ incl (queue a0) (queue r) /\ NewCov a0 r /\
              forall d, In d l -> done (get (g r) d) = true).
    { intros l a0 r Hl Sa0 Ia0 X10 Er.
      apply (visit_deps_safe f l a0 r); [exact IH| | | exact Sa0 | exact Ia0 | | exact Er].
      - intros d Hd. apply (Hl d Hd).
      - intros p d Hp Pp Hd. destruct (Hl d Hd) as [Rd _].
        destruct X10 as (_ & _ & _ & _ & Q10 & _ & _).
        destruct (P1 p Hp (Q10 p Hp Pp)) as [->|Ps]; [exact Rd|].
        destruct as_dep; simpl in Pre.
        + specialize (Pre p Hp Ps). lia.
        + exfalso. eapply Pre; eauto.
      - apply (SrcOK_ext (g s1)); auto. }
    (* step B: the static dependencies *)
    cbv zeta in E. fold x in E. rewrite Dx in E.
    change (fold_left (fun acc d => match acc with None => None | Some a =>
              if visited (get (g a) d) then Some a else update_node F Dm false f a d true end) (D n) (Some s1))
      with (visit_deps f (D n) s1) in E.
    destruct (visit_deps f (D n) s1) as [s2|] eqn:EB; [|discriminate].
    destruct (Visit (D n) s1 s2) as (S2 & Inv2 & X12 & Q12 & N12 & DD); auto.
    { intros d Hd. split; [apply rank_ok; apply in_or_app; auto | eapply D_range; eauto]. }
    { apply ext_refl; exact S1. }
    (* step B': the demanded nodes *)
    assert (Src2 : SrcOK (g s2)) by (apply (SrcOK_ext (g s1)); auto).
    destruct (demands_at_solution (g s2) n Inv2 Src2 Hn DD) as [_ ExDem].
    change (fires_of (g s2) (D n)) with (ins_of (g s2) n) in E.
    change (Dm n (ins_of (g s2) n)) with (exs_of (g s2) n) in E.
    remember (exs_of (g s2) n) as ex eqn:Hex.
    change (fold_left (fun acc d => match acc with None => None | Some a =>
              if visited (get (g a) d) then Some a else update_node F Dm false f a d true end) ex (Some s2))
      with (visit_deps f ex s2) in E.
    destruct (visit_deps f ex s2) as [s2'|] eqn:EB'; [|discriminate].
    destruct (Visit ex s2 s2') as (S2' & Inv2' & X22' & Q22' & N22' & DDx); auto.
    { intros d Hd. apply ExDem in Hd. split; [apply rank_ok; apply in_or_app; auto | eapply Dem_range; eauto]. }
    assert (X12' : ext (g s1) (g s2')) by (eapply ext_trans; eauto).
    assert (Q12' : incl (queue s1) (queue s2')) by (eapply incl_tran; eauto).
    assert (N12' : NewCov s1 s2') by (apply (NewCov_trans s1 s2 s2'); auto).
    (* step C: all inputs are done, n is still as we left it *)
    pose proof X22' as (_ & _ & D22' & _).
    assert (Keep2 : forall d, In d (D n) -> get (g s2') d = get (g s2) d).
    { intros d Hd. apply D22'; [eapply D_range; eauto | apply DD; exact Hd]. }
    assert (Ex2' : exs_of (g s2') n = ex) by (rewrite Hex; apply exs_of_eq; exact Keep2).
    assert (DD' : forall d, In d (D n ++ ex) -> done (get (g s2') d) = true).
    { intros d Hd. apply in_app_or in Hd as [Hd|Hd]; [rewrite Keep2 by exact Hd; apply DD; exact Hd | apply DDx; exact Hd]. }
    assert (Nn : forall d, In d (D n ++ ex) -> d <> n).
    { intros d Hd ->. assert (R : rank n < rank n); [|lia]. apply rank_ok. apply in_app_or in Hd as [Hd|Hd]; apply in_or_app; auto. }
    destruct X12' as (_ & V12 & D12 & K12 & Q12p & U12 & R12).
    assert (Gn2 : get (g s2') n = reflag x true false).
    { rewrite K12; auto. rewrite G1, Nat.eqb_refl; auto. }
    (* step D: update and mark done *)
    remember (if existsb (fun d => changed (get (g s2') d)) (D n ++ ex) then run_update F s2' n ex else s2') as s3 eqn:Hs3.
    remember (mark s3 n true true) as s4 eqn:Hs4.
    destruct S2' as [L2 S2'].
    assert (G3 : forall m, m <> n -> get (g s3) m = get (g s2') m).
    { intros m Ne. rewrite Hs3. destruct (existsb _ _); auto. unfold run_update; simpl. rewrite get_set_other; auto. }
    assert (L3 : length (g s3) = N).
    { rewrite Hs3. destruct (existsb _ _); auto. unfold run_update; simpl. rewrite set_length; auto. }
    assert (G4 : forall m, m <> n -> get (g s4) m = get (g s2') m).
    { intros m Ne. rewrite Hs4, mark_g, get_set_other; auto. }
    assert (G4n : get (g s4) n = reflag (get (g s3) n) true true).
    { rewrite Hs4, mark_g, get_set_same; auto. lia. }
    assert (G3n : deps (get (g s3) n) = D n /\ dependents (get (g s3) n) = Dts n /\
                  (D n <> [] ->
                   fire (get (g s3) n) = (if chgd (g s2') (D n ++ ex) then F n (fires_of (g s2') (D n)) (fires_of (g s2') ex) else None) /\
                   changed (get (g s3) n) = match fire (get (g s3) n) with Some _ => true | None => false end)).
    { rewrite Hs3. unfold chgd. destruct (existsb (fun d => changed (get (g s2') d)) (D n ++ ex)) eqn:Ex.
      - unfold run_update; simpl. rewrite get_set_same by lia. simpl. rewrite Gn2. simpl. rewrite Dx.
        split; auto. split; auto. intros NE. destruct (Xn NE) as [Fx Cx]. rewrite Fx, Cx.
        destruct (F n (fires_of (g s2') (D n)) (fires_of (g s2') ex)); auto.
      - rewrite Gn2; simpl. split; auto. split; auto. intros NE. destruct (Xn NE) as [Fx Cx]. rewrite Fx, Cx. auto. }
    destruct G3n as (Dn3 & Dtn3 & Cn3).
    assert (S4 : shape (g s4)).
    { rewrite Hs4, mark_g. apply shape_set; auto. split; auto. intros m Hm.
      destruct (Nat.eq_dec m n) as [->|Ne]; [auto | rewrite G3; auto]. }
    assert (Inv4 : I (g s4)).
    { destruct Inv2' as [I1 I2]. split.
      - intros m Hm Dm0. destruct (Nat.eq_dec m n) as [->|Ne].
        + assert (KeepN : forall d, In d (D n ++ ex) -> get (g s4) d = get (g s2') d) by (intros d Hd; apply G4; apply Nn; exact Hd).
          assert (KeepD : forall d, In d (D n) -> get (g s4) d = get (g s2') d) by (intros d Hd; apply KeepN; apply in_or_app; auto).
          assert (Ex4 : exs_of (g s4) n = ex) by (rewrite <- Ex2'; apply exs_of_eq; exact KeepD).
          assert (Ei4 : inp (g s4) n = D n ++ ex) by (unfold inp; rewrite Ex4; reflexivity).
          rewrite G4n. simpl. split; auto. split.
          * intros d Hd. rewrite Ei4 in Hd. rewrite KeepN by exact Hd. apply DD'; exact Hd.
          * intros NE. rewrite Ei4, Ex4. unfold ins_of.
            rewrite (chgd_eq (g s2') (g s4) (D n ++ ex) KeepN), (fires_of_eq (g s2') (g s4) (D n) KeepD).
            rewrite (fires_of_eq (g s2') (g s4) ex) by (intros d Hd; apply KeepN; apply in_or_app; auto).
            rewrite G4n; simpl. apply Cn3; auto.
        + rewrite G4 in Dm0 by auto. destruct (I1 m Hm Dm0) as (Vm & Dsm & Cm).
          assert (Gm : get (g s4) m = get (g s2') m) by (apply G4; auto).
          assert (Km : forall d, In d (inp (g s2') m) -> get (g s4) d = get (g s2') d).
          { intros d Hd. apply G4. intros ->. specialize (Dsm n Hd). rewrite Gn2 in Dsm. simpl in Dsm. discriminate. }
          assert (Eim : inp (g s4) m = inp (g s2') m) by (apply inp_eq; intros d Hd; apply Km; apply in_inp_l; exact Hd).
          rewrite Gm. split; auto. split.
          * intros d Hd. rewrite Eim in Hd. rewrite Km by exact Hd. apply Dsm; exact Hd.
          * apply (cons_eq (g s2') (g s4) m Km Gm Cm).
      - intros m Hm Dm0 NE. destruct (Nat.eq_dec m n) as [->|Ne].
        + rewrite G4n in Dm0; simpl in Dm0; discriminate.
        + rewrite G4 in * by auto. apply I2; auto. }
    assert (X04 : ext (g s) (g s4)).
    { split; [exact S4|]. split; [|split; [|split; [|split; [|split]]]].
      - intros m Hm Vm. destruct (Nat.eq_dec m n) as [->|Ne]; [rewrite G4n; auto|].
        rewrite G4 by auto. apply V12; auto. rewrite G1. apply Nat.eqb_neq in Ne. rewrite Nat.eqb_sym, Ne; auto.
      - intros m Hm Dm0. destruct (Nat.eq_dec m n) as [->|Ne]; [unfold x in *; congruence|].
        rewrite G4 by auto. rewrite D12; auto; rewrite G1; apply Nat.eqb_neq in Ne; rewrite Nat.eqb_sym, Ne; auto.
      - intros m Hm [Vm Dm0]. destruct (Nat.eq_dec m n) as [->|Ne]; [unfold x in *; congruence|].
        rewrite G4 by auto. rewrite K12; auto; [|split]; rewrite G1; apply Nat.eqb_neq in Ne; rewrite Nat.eqb_sym, Ne; auto.
      - intros m Hm [Vm Dm0]. destruct (Nat.eq_dec m n) as [->|Ne]; [rewrite G4n in Dm0; simpl in Dm0; discriminate|].
        rewrite G4 in * by auto. destruct (P1 m Hm (Q12p m Hm (conj Vm Dm0))) as [->|]; [congruence|auto].
      - intros m Hm Vm. destruct (Nat.eq_dec m n) as [->|Ne]; [rewrite G4n in Vm; simpl in Vm; discriminate|].
        rewrite G4 in * by auto. rewrite U12; auto. rewrite G1. apply Nat.eqb_neq in Ne. rewrite Nat.eqb_sym, Ne; auto.
      - intros m Hm Dm0. destruct (Nat.eq_dec m n) as [->|Ne].
        + (* a source is never updated: nothing is demanded, no input changed *)
          assert (Ex0 : ex = []).
          { rewrite Hex. unfold exs_of, ins_of. rewrite Dm0. apply Dm_quiet. reflexivity. }
          rewrite G4n. simpl. rewrite Hs3. rewrite Dm0, Ex0. simpl. rewrite Gn2. simpl. auto.
        + rewrite G4 by auto. destruct (R12 m Hm Dm0) as [A B]. rewrite A, B. rewrite G1.
          apply Nat.eqb_neq in Ne. rewrite Nat.eqb_sym, Ne; auto. }
    (* step E: dependents *)
    assert (Q1 : queue s1 = queue s) by (rewrite Hs1; reflexivity).
    assert (Q4 : queue s4 = queue s2').
    { rewrite Hs4; unfold mark; simpl. rewrite Hs3. destruct (existsb _ _); reflexivity. }
    assert (V4n : visited (get (g s4) n) = true) by (rewrite G4n; reflexivity).
    assert (D4n : done (get (g s4) n) = true) by (rewrite G4n; reflexivity).
    assert (Inc04 : incl (queue s) (queue s4)).
    { intros q Hq. rewrite Q4. apply Q12'. rewrite Q1. exact Hq. }
    assert (Cov4 : forall k, k <> n -> k < N -> done (get (g s4) k) = true -> changed (get (g s4) k) = true ->
                     done (get (g s) k) = false -> CovAt s4 k).
    { intros k Ne Hk Dk Ck NDk. rewrite G4 in Dk, Ck by auto.
      assert (ND1 : done (get (g s1) k) = false). { rewrite G1. destruct (Nat.eqb_spec n k); [congruence|auto]. }
      intros m Hm. destruct (N12' k Hk Dk Ck ND1 m Hm) as [Vm|Qm].
      - left. destruct (Nat.eq_dec m n) as [->|Nm]; [auto| rewrite G4; auto].
      - right. rewrite Q4; auto. }
    assert (Fin : forall s5, g s5 = g s4 -> incl (queue s4) (queue s5) ->
                  (changed (get (g s4) n) = true -> CovAt s5 n) -> Post s n s5).
    { intros s5 E5 Inc5 Cn. unfold Post. rewrite E5. split; auto. split; auto. split; [exact V4n|].
      split; [intros _; exact D4n|]. split; [eapply incl_tran; eauto|].
      intros k Hk Dk Ck NDk. rewrite E5 in Dk, Ck. destruct (Nat.eq_dec k n) as [->|Ne]; [apply Cn; auto|].
      intros m Hm. destruct (Cov4 k Ne Hk Dk Ck NDk m Hm) as [Vm|Qm]; [left; rewrite E5; auto | right; apply Inc5; auto]. }
    destruct (changed (get (g s4) n)) eqn:Cn4.
    2:{ injection E as <-. apply Fin; auto; [apply incl_refl | intros C; discriminate]. }
    destruct as_dep; simpl in E.
    { injection E as <-. apply Fin; simpl; auto; [apply incl_appl, incl_refl|].
      intros _ m Hm. right. simpl. apply in_or_app. right. rewrite G4n. simpl. rewrite Dtn3. exact Hm. }
    assert (Dt4 : dependents (get (g s4) n) = Dts n) by (rewrite G4n; simpl; exact Dtn3).
    rewrite Dt4 in E.
    assert (Src4 : SrcOK (g s4)) by (apply (SrcOK_ext (g s)); auto).
    pose (PE := fun a : st Val => shape (g a) /\ I (g a) /\ ext (g s4) (g a) /\ incl (queue s4) (queue a) /\ NewCov s4 a).
    pose (QE := fun (m : nat) (a : st Val) => visited (get (g a) m) = true).
    assert (PreE : forall a m, PE a -> pre (g a) m false).
    { intros a m (_ & _ & (_ & _ & _ & _ & Qa & _ & _) & _) p Hp Pp. destruct X04 as (_ & _ & _ & _ & Q04 & _ & _).
      simpl in Pre. eapply Pre; eauto. }
    assert (SrcE : forall a, PE a -> SrcOK (g a)).
    { intros a (_ & _ & Xa & _). apply (SrcOK_ext (g s4)); auto. }
    destruct (fold_opt_inv2 PE QE (fun a m => update_node F Dm false f a m false) (Dts n) s4 s') as [(S' & I' & X4' & Q4' & N4') VE]; auto.
    { split; [|split; [|split; [|split]]]; auto. apply ext_refl; auto. apply incl_refl. apply NewCov_refl. }
    { intros a m a' Hm Pa Ea. pose proof Pa as (Sa & Ia & Xa & Qa & Na).
      destruct (IH a m false a' (Dts_range _ _ Hm) Sa Ia (SrcE a Pa) (PreE a m Pa) Ea) as (Ia' & Xa' & Va' & _ & Qa' & Na').
      split; [|exact Va']. split; [apply Xa'|]. split; auto. split; [eapply ext_trans; eauto|].
      split; [eapply incl_tran; eauto|]. eapply NewCov_trans; eauto. }
    { intros a m y a' Hm Hy Pa Qa Ea. pose proof Pa as (Sa & Ia & Xa & _).
      destruct (IH a y false a' (Dts_range _ _ Hy) Sa Ia (SrcE a Pa) (PreE a y Pa) Ea) as (_ & (_ & Vm & _) & _).
      apply Vm; auto. eapply Dts_range; eauto. }
    pose proof X4' as (_ & V4' & D4' & _ & _ & _ & _).
    split; auto. split; [eapply ext_trans; eauto|].
    split; [apply V4'; auto|]. split; [intros _; rewrite D4'; auto|].
    split; [eapply incl_tran; eauto|].
    intros k Hk Dk Ck NDk. destruct (done (get (g s4) k)) eqn:Dk4.
    - pose proof (D4' k Hk Dk4) as Eq. destruct (Nat.eq_dec k n) as [->|Ne].
      + intros m Hm. left. apply VE; auto.
      + apply (CovAt_mono s4 s' k); auto. apply Cov4; auto. rewrite <- Eq; auto.
    - apply N4'; auto.
  Qed.

  (* ---------------- the drain loop: completeness and the fixpoint equation ---------------- *)
  Definition NoPend (gr : graph Val) := forall p, p < N -> ~ pend gr p.
  Definition Cov (s : st Val) := forall k, k < N -> done (get (g s) k) = true -> changed (get (g s) k) = true -> CovAt s k.
  (* a changed node that nobody visited yet is waiting in the queue (true of the sinks that were sent) *)
  Definition SrcQ (s : st Val) := forall k, k < N -> changed (get (g s) k) = true -> visited (get (g s) k) = false -> In k (queue s).
  Definition Good (s : st Val) := shape (g s) /\ I (g s) /\ NoPend (g s) /\ Cov s /\ SrcQ s /\ SrcOK (g s).

  (* every derived node satisfies its equation: the propagation reached a fixpoint *)
  Definition Fixpoint_ok (gr : graph Val) := forall n, n < N -> cons gr n.

  (* the changed flag of a node says whether its firing slot is filled *)
  Lemma changed_is_fired gr : I gr -> SrcOK gr -> forall d, d < N -> changed (get gr d) = is_some (fire (get gr d)).
  Proof.
    intros [I1 I2] Src d Hd.
    destruct (list_eq_dec Nat.eq_dec (D d) []) as [En|NE].
    { destruct (Src d Hd En) as [A B]. rewrite A, B. reflexivity. }
    destruct (done (get gr d)) eqn:Dd.
    - destruct (I1 d Hd Dd) as (_ & _ & C). destruct (C NE) as [_ B]. rewrite B. reflexivity.
    - destruct (I2 d Hd Dd NE) as [A B]. rewrite A, B. reflexivity.
  Qed.

  Lemma good_empty_fix s : Good s -> queue s = [] -> Fixpoint_ok (g s).
  Proof.
    intros (S & (I1 & I2) & NP & C & SQ & Src) Q n Hn.
    destruct (done (get (g s) n)) eqn:Dn; [apply I1; auto|].
    intros NE. destruct (I2 n Hn Dn NE) as [Fn Cn]. rewrite Fn, Cn.
    assert (NoCh : forall d, In d (D n) -> changed (get (g s) d) = false).
    { intros d Hd. destruct (changed (get (g s) d)) eqn:Cd; auto. exfalso.
      pose proof (D_range _ _ Hd) as Hdn.
      assert (Vn : visited (get (g s) n) = false).
      { destruct (visited (get (g s) n)) eqn:Vn; auto. exfalso. apply (NP n Hn). split; auto. }
      destruct (done (get (g s) d)) eqn:Dd.
      - (* a done changed dependency covers n *)
        assert (Hm : In n (Dts d)) by (apply Dts_complete; auto).
        destruct (C d Hdn Dd Cd n Hm) as [V|Qn]; [congruence | rewrite Q in Qn; inversion Qn].
      - destruct (visited (get (g s) d)) eqn:Vd; [apply (NP d Hdn); split; auto|].
        pose proof (SQ d Hdn Cd Vd) as Qd. rewrite Q in Qd. inversion Qd. }
    (* no static dependency fired: nothing is demanded *)
    assert (Quiet : existsb is_some (ins_of (g s) n) = false).
    { unfold ins_of, fires_of. rewrite existsb_map. destruct (existsb _ (D n)) eqn:Ex; auto. exfalso.
      apply existsb_exists in Ex as (d & Hd & Fd).
      rewrite <- (changed_is_fired (g s) (conj I1 I2) Src d (D_range _ _ Hd)) in Fd. rewrite NoCh in Fd by exact Hd. discriminate. }
    assert (Ex0 : exs_of (g s) n = []) by (unfold exs_of; apply Dm_quiet; exact Quiet).
    assert (Ec : chgd (g s) (inp (g s) n) = false).
    { unfold inp. rewrite Ex0, app_nil_r. unfold chgd. destruct (existsb _ (D n)) eqn:Ex; auto. exfalso.
      apply existsb_exists in Ex as (d & Hd & Cd). rewrite NoCh in Cd by exact Hd. discriminate. }
    rewrite Ec. auto.
  Qed.

  Lemma get_out (gr : graph Val) x : length gr <= x -> visited (get gr x) = true.
  Proof. intros H. unfold get. rewrite nth_overflow; auto. Qed.

  Lemma update_node_out_of_range fuel a x b a' :
    shape (g a) -> ~ x < N -> update_node F Dm false fuel a x b = Some a' -> a' = a.
  Proof.
    intros [L _] Hx E. destruct fuel as [|f]; [discriminate|]. cbn [update_node] in E.
    unfold get in E at 1. rewrite nth_overflow in E by lia. simpl in E. congruence.
  Qed.

  Lemma drain_good : forall rounds fuel s s',
    Good s -> drain F Dm false rounds fuel s = Some s' -> Good s' /\ queue s' = [] /\ ext (g s) (g s').
  Proof.
    induction rounds as [|r IHr]; intros fuel s s' Gd E; [discriminate|].
    cbn [drain] in E. destruct (queue s) as [|q0 qs] eqn:Q.
    { inversion E; subst. split; auto. split; auto. apply ext_refl. apply Gd. }
    rewrite <- Q in E.
    match type of E with match ?T with _ => _ end = _ => destruct T as [s1|] eqn:EF end; [|discriminate].
    destruct Gd as (S & Inv & NP & C & SQ & Src).
    set (s0 := {| g := g s; queue := []; log := log s |}) in *.
    pose (P := fun a : st Val => shape (g a) /\ I (g a) /\ NoPend (g a) /\ ext (g s0) (g a) /\
                (forall k, k < N -> done (get (g a) k) = true -> changed (get (g a) k) = true ->
                           forall m, In m (Dts k) -> visited (get (g a) m) = true \/ In m (queue a) \/ In m (queue s))).
    pose (Qv := fun (m : nat) (a : st Val) => visited (get (g a) m) = true).
    assert (SrcP : forall a, P a -> SrcOK (g a)).
    { intros a (_ & _ & _ & Xa & _). apply (SrcOK_ext (g s0)); auto. }
    destruct (fold_opt_inv2 P Qv (fun a x => update_node F Dm false fuel a x false) (queue s) s0 s1) as [(S1 & I1 & NP1 & X1 & C1) V1]; auto.
    { split; [|split; [|split; [|split]]]; auto.
      - apply ext_refl; auto.
      - intros k Hk Dk Ck m Hm. destruct (C k Hk Dk Ck m Hm); auto. }
    { intros a x a' Hx Pa Ea. pose proof Pa as (Sa & Ia & NPa & Xa & Ca).
      destruct (lt_dec x N) as [HxN|HxN].
      2:{ pose proof (update_node_out_of_range _ _ _ _ _ Sa HxN Ea); subst a'. split; [exact (conj Sa (conj Ia (conj NPa (conj Xa Ca))))|].
          unfold Qv. apply get_out. destruct Sa as [La _]. lia. }
      assert (Pre : pre (g a) x false) by (intros p Hp; apply NPa; auto).
      destruct (update_node_safe fuel a x false a' HxN Sa Ia (SrcP a Pa) Pre Ea) as (Ia' & Xa' & Va' & _ & Qa' & Na').
      split; [|exact Va']. split; [apply Xa'|]. split; auto. split.
      { intros p Hp Pp. destruct Xa' as (_ & _ & _ & _ & Qp & _ & _). apply (NPa p Hp). apply Qp; auto. }
      split; [eapply ext_trans; eauto|].
      intros k Hk Dk Ck m Hm. destruct (done (get (g a) k)) eqn:Dka.
      - pose proof Xa' as (_ & Vm & Dm0 & _). pose proof (Dm0 k Hk Dka) as Eq.
        rewrite Eq in Ck. destruct (Ca k Hk Dka Ck m Hm) as [V|[Qm|Qs]]; auto.
        left. apply Vm; auto. eapply Dts_range; eauto.
      - destruct (Na' k Hk Dk Ck Dka m Hm); auto. }
    { intros a x y a' Hx Hy Pa Qa Ea. pose proof Pa as (Sa & Ia & NPa & Xa & Ca).
      destruct (lt_dec y N) as [HyN|HyN].
      2:{ pose proof (update_node_out_of_range _ _ _ _ _ Sa HyN Ea); subst a'; auto. }
      assert (Pre : pre (g a) y false) by (intros p Hp; apply NPa; auto).
      destruct (update_node_safe fuel a y false a' HyN Sa Ia (SrcP a Pa) Pre Ea) as (_ & (_ & Vm & _) & _).
      destruct (lt_dec x N) as [HxN|HxN]; [apply Vm; auto|].
      destruct (update_node_safe fuel a y false a' HyN Sa Ia (SrcP a Pa) Pre Ea) as (_ & ((L' & _) & _) & _).
      unfold Qv. apply get_out. lia. }
    assert (Gd1 : Good s1).
    { split; auto. split; auto. split; auto. split; [|split].
      - intros k Hk Dk Ck m Hm. destruct (C1 k Hk Dk Ck m Hm) as [V|[Qm|Qs]]; auto. left. apply V1; auto.
      - intros k Hk Ck Vk. exfalso. destruct X1 as (_ & _ & _ & _ & _ & U1 & _). pose proof (U1 k Hk Vk) as Eq.
        rewrite Eq in Ck, Vk. simpl in Ck, Vk. pose proof (SQ k Hk Ck Vk) as Hq. specialize (V1 k Hq). unfold Qv in V1.
        rewrite Eq in V1. simpl in V1. congruence.
      - apply (SrcOK_ext (g s0)); auto. }
    destruct (IHr fuel s1 s' Gd1 E) as (Gd' & Q' & X').
    split; auto. split; auto. eapply ext_trans; eauto.
  Qed.

  (* a fixpoint over the sources of the solution is the solution *)
  Lemma fixpoint_is_solution (gr : graph Val) :
    Fixpoint_ok gr -> SrcOK gr -> forall n, n < N -> fire (get gr n) = den n /\ changed (get gr n) = is_some (den n).
  Proof.
    intros Fx Src n Hn. apply (closed_den gr (fun _ => True)); auto.
  Qed.

  (* two fixpoints over the same sources agree everywhere: the result does not depend on the order
     of the queue, of the dependents lists, or of anything else the walk did *)
  Lemma fixpoint_unique (gr1 gr2 : graph Val) :
    Fixpoint_ok gr1 -> Fixpoint_ok gr2 -> SrcOK gr1 ->
    (forall n, n < N -> D n = [] -> fire (get gr1 n) = fire (get gr2 n) /\ changed (get gr1 n) = changed (get gr2 n)) ->
    forall n, n < N -> fire (get gr1 n) = fire (get gr2 n) /\ changed (get gr1 n) = changed (get gr2 n).
  Proof.
    intros F1 F2 Src1 Src n Hn.
    assert (Src2 : SrcOK gr2).
    { intros k Hk Dk. destruct (Src k Hk Dk) as [A B]. rewrite <- A, <- B. apply Src1; auto. }
    destruct (fixpoint_is_solution gr1 F1 Src1 n Hn) as [A1 B1].
    destruct (fixpoint_is_solution gr2 F2 Src2 n Hn) as [A2 B2]. split; congruence.
  Qed.

  (* C03 at engine level: whatever the order of the queue and of the dependents lists, draining ends,
     when it ends, in the unique fixpoint over the unchanged sources: the solution. *)
  Theorem drain_fixpoint rounds fuel s s' :
    Good s -> drain F Dm false rounds fuel s = Some s' ->
    Fixpoint_ok (g s') /\
    (forall n, n < N -> D n = [] -> fire (get (g s') n) = fire (get (g s) n) /\ changed (get (g s') n) = changed (get (g s) n)) /\
    (forall n, n < N -> fire (get (g s') n) = den n /\ changed (get (g s') n) = is_some (den n)).
  Proof.
    intros Gd E. destruct (drain_good rounds fuel s s' Gd E) as (Gd' & Q' & X').
    assert (Fx : Fixpoint_ok (g s')) by (apply good_empty_fix; auto).
    split; [exact Fx|]. split; [apply X'|]. apply fixpoint_is_solution; [exact Fx | apply Gd'].
  Qed.

  Corollary drain_order_independent r1 f1 r2 f2 s1 s2 s1' s2' :
    Good s1 -> Good s2 ->
    drain F Dm false r1 f1 s1 = Some s1' -> drain F Dm false r2 f2 s2 = Some s2' ->
    forall n, n < N -> fire (get (g s1') n) = fire (get (g s2') n).
  Proof.
    intros G1 G2 E1 E2 n Hn.
    destruct (drain_fixpoint _ _ _ _ G1 E1) as (_ & _ & A1). destruct (drain_fixpoint _ _ _ _ G2 E2) as (_ & _ & A2).
    rewrite (proj1 (A1 n Hn)), (proj1 (A2 n Hn)). reflexivity.
  Qed.
End Safety.
Print Assumptions update_node_safe.
Print Assumptions drain_order_independent.

(* ---- the D1 witness: s1=0 s2=1 x1=2(s1) x2=3(s2) d=4(x1,x2) n=5(s2,d) ---- *)
Definition mk {Val} ds dts ch (fr : option Val) : node Val :=
  {| deps := ds; dem := []; dependents := dts; visited := false; done := false; changed := ch; fire := fr |}.
Definition G0 : graph nat :=
  [ mk [] [2] true (Some 1); mk [] [3;5] true (Some 2); mk [0] [4] false None; mk [1] [4] false None;
    mk [2;3] [5] false None; mk [1;4] [] false None ].
(* rule: sum of the firing inputs, +100 per node to tell them apart *)
Definition Fsum : rule nat := fun n ins exs =>
  let vs := flat_map (fun o => match o with Some v => [v] | None => [] end) (ins ++ exs) in
  match vs with [] => None | _ => Some (100 * n + list_sum vs) end.

Definition final (orig : bool) (q : list nat) :=
  match drain Fsum no_demands orig 20 20 {| g := G0; queue := q; log := [] |} with
  | Some s => Some (map fire (g s), rev (log s)) | None => None end.

Eval vm_compute in final true [0;1].   (* original, s1 then s2: node 5 computed without d *)
Eval vm_compute in final true [1;0].   (* original, other send order *)
Eval vm_compute in final false [0;1].  (* repaired *)
Eval vm_compute in final false [1;0].

(* ---- non-vacuity: the D1 witness graph satisfies every hypothesis, and the theorem applies to it ---- *)
Definition D0 (n : nat) : list nat := nth n [[]; []; [0]; [1]; [2;3]; [1;4]] [].
Definition Dts0 (n : nat) : list nat := nth n [[2]; [3;5]; [4]; [4]; [5]; []] [].
Definition Dem0 (n : nat) : list nat := [].
(* the solution of the equations for the sources 0 := 1, 1 := 2 *)
Definition den0 (n : nat) : option nat := nth n [Some 1; Some 2; Some 201; Some 302; Some 903; Some 1405] None.
Ltac cases6 n := do 6 (destruct n as [|n]; [simpl; try tauto; try lia|]); simpl; try tauto.
Example witness_is_good :
  Good Fsum no_demands D0 Dts0 6 den0 {| g := G0; queue := [0;1]; log := [] |}.
Proof.
  unfold Good, shape, I, NoPend, Cov, SrcQ, SrcOK, pend, clean; simpl.
  split; [split; [reflexivity|]|].
  - intros n Hn. cases6 n. lia.
  - split; [split|].
    + intros n Hn Dn. exfalso. revert Dn. cases6 n; try discriminate. lia.
    + intros n Hn _ NE. revert NE. cases6 n; try (intros; split; reflexivity); lia.
    + split; [|split; [|split]].
      * intros p Hp [V _]. revert V. cases6 p; try discriminate. lia.
      * intros k Hk Dk. exfalso. revert Dk. cases6 k; try discriminate. lia.
      * intros k Hk Ck Vk. revert Ck. cases6 k; try discriminate; try (intros; simpl; auto). lia.
      * intros n Hn. do 6 (destruct n as [|n]; [simpl; try discriminate; intros; split; reflexivity|]). lia.
Qed.
Ltac inlist := simpl; intros H; repeat (destruct H as [H|H]; [subst; simpl; auto; try lia|]); try contradiction.
Example witness_hyps :
  (forall n d, In d (D0 n ++ Dem0 n) -> d < n) /\ (forall n d, In d (D0 n) -> d < 6) /\ (forall n d, In d (Dem0 n) -> d < 6) /\
  (forall n d, In d (Dts0 n) -> d < 6) /\
  (forall n, n < 6 -> D0 n <> [] ->
     den0 n = (if existsb is_some (map den0 (D0 n ++ no_demands n (map den0 (D0 n))))
               then Fsum n (map den0 (D0 n)) (map den0 (no_demands n (map den0 (D0 n)))) else None)) /\
  (forall n, n < 6 -> incl (no_demands n (map den0 (D0 n))) (Dem0 n)) /\
  (forall n (ins : list (option nat)), existsb is_some ins = false -> no_demands n ins = []) /\
  (forall n d, n < 6 -> In d (D0 n) -> In n (Dts0 d)).
Proof.
  split; [|split; [|split; [|split; [|split; [|split; [|split]]]]]].
  - intros n d. unfold Dem0. rewrite app_nil_r. do 6 (destruct n as [|n]; [inlist|]). destruct n; inlist.
  - intros n d. do 6 (destruct n as [|n]; [inlist|]). destruct n; inlist.
  - intros n d [].
  - intros n d. do 6 (destruct n as [|n]; [inlist|]). destruct n; inlist.
  - intros n Hn. do 6 (destruct n as [|n]; [intros NE; try (exfalso; apply NE; reflexivity); vm_compute; reflexivity|]). lia.
  - intros n Hn d [].
  - reflexivity.
  - intros n d Hn. do 6 (destruct n as [|n]; [inlist|]). lia.
Qed.
