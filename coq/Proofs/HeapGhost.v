(* Proofs/HeapGhost.v - ghost handles are sound: every ghost handle of a slot points to an object that one of
   the slot's REAL handles has an edge to, so ghosts never keep alive anything the real handles would not keep
   alive, and the view [hview] (which subtracts ghosts) describes the same live heap. *)
From Coq Require Import List Arith Bool Lia.
Import ListNotations.
From Sodium Require Import Gc GcExactBase GcExactInv GcExactMut GcExact GcHeap Heap HeapFacts.

Definition real_held (st : hstate) : list nat :=
  flat_map (fun kv => s_h (snd kv)) (slots st) ++ flat_map (fun kv => listener_handles (snd kv)) (lsn st).

(* every ghost handle of a slot points to an object that one of the slot's real handles has an edge to *)
Definition GhostOK (st : hstate) : Prop :=
  forall k s x, lookup (slots st) k = Some s -> In x (s_g s) ->
    exists r, In r (s_h s) /\ In x (edges (get (g (hs st)) r)).

(* ====================================================================================================== *)
(* which collector operations can take an edge away from an object                                        *)
(* ====================================================================================================== *)
Lemma edges_set st n o' v :
  edges o' = edges (get st n) -> edges (get (set st n o') v) = edges (get st v).
Proof.
  intros H. destruct (Nat.eq_dec n v) as [->|Ne]; [|rewrite get_set_other; auto].
  destruct (Nat.lt_ge_cases v (nobjs st)); [rewrite get_set_same; auto|rewrite get_set_oor; auto].
Qed.

Lemma edges_dec_ref st t v : edges (get (dec_ref st t) v) = edges (get st v).
Proof.
  unfold dec_ref. destruct (Nat.eqb (rc (get st t)) 0); auto.
  set (st1 := set st t (set_rc (get st t) (pred (rc (get st t))))).
  assert (D1 : forall w, edges (get st1 w) = edges (get st w)) by (intros; apply edges_set; reflexivity).
  unfold possible_root. destruct (color_eqb _ _); auto.
  destruct (buffered _); rewrite ?get_with_roots; rewrite edges_set; auto.
Qed.

Lemma edges_inc_ref st o st' v : inc_ref st o = Ok st' -> edges (get st' v) = edges (get st v).
Proof.
  unfold inc_ref. destruct (freed (get st o)); [discriminate|]. intros H. injection H as <-.
  apply edges_set. reflexivity.
Qed.

Lemma nobjs_inc_ref st o st' : inc_ref st o = Ok st' -> nobjs st' = nobjs st.
Proof.
  unfold inc_ref. destruct (freed (get st o)); [discriminate|]. intros H. injection H as <-. apply nobjs_set.
Qed.

(* [op] cannot remove an edge of object [r] *)
Definition edge_safe (r : nat) (op : gop) : bool :=
  match op with
  | GRemoveEdge a _ => negb (a =? r)
  | GCollect => false
  | _ => true
  end.

(* operations that cannot remove any edge at all *)
Definition plain (op : gop) : bool :=
  match op with GRemoveEdge _ _ => false | GCollect => false | _ => true end.

Lemma plain_safe r op : plain op = true -> edge_safe r op = true.
Proof. destruct op; cbn; intros H; try reflexivity; discriminate. Qed.

Lemma gstep_edges st op st' r x :
  edge_safe r op = true -> gstep st op = Ok st' -> In x (edges (get st r)) -> In x (edges (get st' r)).
Proof.
  intros S E I. destruct op as [|o|o|a b|a i|o|]; cbn [gstep edge_safe] in *; try discriminate.
  - injection E as <-. unfold gc_new. cbn [fst].
    destruct (Nat.lt_ge_cases r (nobjs st)) as [Lt|Ge].
    + unfold get in *. cbn [objs]. rewrite app_nth1; [exact I|exact Lt].
    + rewrite get_oor in I by exact Ge. destruct I.
  - rewrite (edges_inc_ref _ _ _ r E). exact I.
  - injection E as <-. rewrite edges_dec_ref. exact I.
  - apply bind_ok in E as (st1 & E1 & E). injection E as <-.
    rewrite <- (edges_inc_ref _ _ _ r E1) in I.
    destruct (Nat.eq_dec a r) as [->|Ne]; [|rewrite get_set_other; auto].
    destruct (Nat.lt_ge_cases r (nobjs st1)) as [Lt|Ge].
    + rewrite get_set_same by exact Lt. cbn [edges set_edges]. apply in_or_app. left. exact I.
    + rewrite get_set_oor by exact Ge. exact I.
  - apply negb_true_iff in S. apply Nat.eqb_neq in S.
    destruct (nth_error (edges (get st a)) i) as [b|]; injection E as <-; [|exact I].
    rewrite edges_dec_ref, get_set_other by exact S. exact I.
  - unfold inc_ref_if_alive in E. destruct (_ && _); injection E as <-; [|exact I].
    rewrite edges_dec_ref, edges_set; [exact I|reflexivity].
Qed.

Lemma sstep_edges s op s' r x :
  edge_safe r op = true -> sstep s op = Ok s' -> In x (edges (get (g s) r)) -> In x (edges (get (g s') r)).
Proof.
  intros S E I. unfold sstep in E. destruct (negb (svalid s op)); [injection E as <-; exact I|].
  apply bind_ok in E as (g1 & E1 & E). injection E as <-. cbn [g]. apply (gstep_edges _ _ _ _ _ S E1 I).
Qed.

Lemma srun_edges r x ops : forall s s',
  (forall op, In op ops -> edge_safe r op = true) -> srun s ops = Ok s' ->
  In x (edges (get (g s) r)) -> In x (edges (get (g s') r)).
Proof.
  induction ops as [|op ops IH]; intros s s' S E I; cbn [srun] in E.
  - injection E as <-. exact I.
  - apply bind_ok in E as (s1 & E1 & E).
    apply (IH s1 s'); [intros o Ho; apply S; right; exact Ho|exact E|].
    apply (sstep_edges _ _ _ _ _ (S op (or_introl eq_refl)) E1 I).
Qed.

(* a collection keeps the edges of every held object *)
Lemma collect_edges s s' r :
  WF s -> sstep s GCollect = Ok s' -> 0 < ext_of s r -> edges (get (g s') r) = edges (get (g s) r).
Proof.
  intros W E P. pose proof (live_ext s r P) as L. pose proof (live_in_range s r W L) as Lt.
  destruct (collect_exact s s' W E) as (_ & _ & _ & _ & Hall). destruct (Hall r Lt) as (_ & _ & Ed).
  apply Ed. apply (after_collect_live_kept s s' W E r Lt L).
Qed.

(* a valid GAddEdge does add the edge *)
Lemma sstep_addedge s a b s' :
  WF s -> 0 < ext_of s a -> 0 < ext_of s b -> sstep s (GAddEdge a b) = Ok s' -> In b (edges (get (g s') a)).
Proof.
  intros W Pa Pb E. unfold sstep in E. cbn [svalid] in E.
  apply Nat.ltb_lt in Pa as Pa'. apply Nat.ltb_lt in Pb as Pb'. rewrite Pa', Pb' in E. cbn [andb negb] in E.
  apply bind_ok in E as (g1 & E1 & E). injection E as <-. cbn [g gstep] in *.
  apply bind_ok in E1 as (st1 & Ei & E1). injection E1 as <-.
  assert (Lt : a < nobjs st1).
  { rewrite (nobjs_inc_ref _ _ _ Ei). destruct (WF_facts s W) as (Len & _). rewrite <- Len.
    apply pos_in_range. exact Pa. }
  rewrite get_set_same by exact Lt. cbn [edges set_edges]. apply in_or_app. right. left. reflexivity.
Qed.

Lemma srun_app a : forall b s s',
  srun s (a ++ b) = Ok s' -> exists s1, srun s a = Ok s1 /\ srun s1 b = Ok s'.
Proof.
  induction a as [|op a IH]; intros b s s' H; cbn [app srun] in *.
  - exists s. split; [reflexivity|exact H].
  - apply bind_ok in H as (s0 & E0 & H). destruct (IH b s0 s' H) as (s1 & H1 & H2).
    exists s1. split; [rewrite E0; cbn [bind]; exact H1|exact H2].
Qed.

(* ====================================================================================================== *)
(* templates: every ghost target has an edge from a kept new object                                       *)
(* ====================================================================================================== *)
Definition ghost_targets (t : tmpl) : list tref := map RNew (t_ghost t) ++ t_gclone t.

Definition tmpl_gokb (t : tmpl) : bool :=
  forallb (fun tgt =>
             existsb (fun k => existsb (fun e => tref_eqb (fst e) (RNew k) && tref_eqb (snd e) tgt) (t_edges t))
                     (t_keep t))
          (ghost_targets t).

Definition tmpl_gok (t : tmpl) : Prop :=
  forall tgt, In tgt (ghost_targets t) -> exists k, In k (t_keep t) /\ In (RNew k, tgt) (t_edges t).

Lemma tmpl_gokb_ok t : tmpl_gokb t = true -> tmpl_gok t.
Proof.
  unfold tmpl_gokb. intros H tgt I. rewrite forallb_forall in H. specialize (H tgt I).
  apply existsb_exists in H as (k & Ik & H). apply existsb_exists in H as ([a b] & Ie & H).
  cbn [fst snd] in H. apply andb_true_iff in H as (H1 & H2).
  apply tref_eqb_eq in H1. apply tref_eqb_eq in H2. subst a b. exists k. split; assumption.
Qed.

Lemma tmpl_of_gok p n : tmpl_gok (tmpl_of p n).
Proof. apply tmpl_gokb_ok. destruct p; reflexivity. Qed.

(* captured handles only add edges *)
Lemma tmpl_gok_with_keeps t owner first nk : tmpl_gok t -> tmpl_gok (with_keeps t owner first nk).
Proof.
  intros G tgt I. destruct (G tgt I) as (k & Ik & Ie). exists k. split; [exact Ik|].
  cbn [with_keeps t_edges]. apply in_or_app. left. exact Ie.
Qed.

Lemma tmpl_with_gok p n nk : tmpl_gok (tmpl_with p n nk).
Proof. unfold tmpl_with. destruct (fun_owner p); [apply tmpl_gok_with_keeps|]; apply tmpl_of_gok. Qed.

Lemma t_lift2_gok : tmpl_gok t_lift2.
Proof. apply tmpl_gokb_ok. reflexivity. Qed.

Lemma lift_tm_gok rest keeps : tmpl_gok (lift_tm rest keeps).
Proof. unfold lift_tm. destruct rest; [apply tmpl_gok_with_keeps|]; exact t_lift2_gok. Qed.

Lemma inst_slot_handles t args base :
  s_h (inst_slot t args base) = map (resolve args base) (map RNew (t_keep t)) /\
  s_g (inst_slot t args base) = map (resolve args base) (ghost_targets t).
Proof.
  cbn [inst_slot s_h s_g]. unfold ghost_targets. rewrite map_app, !map_map. cbn [resolve]. split; reflexivity.
Qed.

(* the operations of a template instance never remove an edge *)
Lemma plain_creates n op : In op (repeat GCreate n) -> plain op = true.
Proof. intros I. apply repeat_spec in I. subst op. reflexivity. Qed.
Lemma plain_addedges {A} (f h : A -> nat) l op : In op (map (fun x => GAddEdge (f x) (h x)) l) -> plain op = true.
Proof. intros I. apply in_map_iff in I as (x & <- & _). reflexivity. Qed.
Lemma plain_drops {A} (f : A -> nat) l op : In op (map (fun x => GDrop (f x)) l) -> plain op = true.
Proof. intros I. apply in_map_iff in I as (x & <- & _). reflexivity. Qed.
Lemma plain_clones {A} (f : A -> nat) l op : In op (map (fun x => GClone (f x)) l) -> plain op = true.
Proof. intros I. apply in_map_iff in I as (x & <- & _). reflexivity. Qed.

Lemma plain_inst_ops t args base op : In op (inst_ops t args base) -> plain op = true.
Proof.
  unfold inst_ops. intros I.
  apply in_app_or in I as [I|I]; [apply (plain_creates _ _ I)|].
  apply in_app_or in I as [I|I]; [apply (plain_addedges _ _ _ _ I)|].
  apply in_app_or in I as [I|I]; [apply (plain_drops _ _ _ I)|apply (plain_clones _ _ _ I)].
Qed.

Lemma plain_drop_slot s op : In op (drop_slot_ops s) -> plain op = true.
Proof.
  unfold drop_slot_ops. intros I.
  apply in_app_or in I as [I|I]; apply in_map_iff in I as (x & <- & _); reflexivity.
Qed.
Lemma plain_clone_slot s op : In op (clone_slot_ops s) -> plain op = true.
Proof.
  unfold clone_slot_ops. intros I.
  apply in_app_or in I as [I|I]; apply in_map_iff in I as (x & <- & _); reflexivity.
Qed.

(* after a template instance, an edge of the template between held objects is in the heap *)
Lemma srun_inst_edge s t args s' a b :
  WF s -> srun s (inst_ops t args (length (ext s))) = Ok s' -> In (a, b) (t_edges t) ->
  0 < nth (resolve args (length (ext s)) a) (ext s ++ repeat 1 (length (t_new t))) 0 ->
  0 < nth (resolve args (length (ext s)) b) (ext s ++ repeat 1 (length (t_new t))) 0 ->
  In (resolve args (length (ext s)) b) (edges (get (g s') (resolve args (length (ext s)) a))).
Proof.
  intros W R I Pa Pb. set (base := length (ext s)) in *. unfold inst_ops in R.
  apply in_split in I as (l1 & l2 & I). rewrite I in R. rewrite map_app in R. cbn [map fst snd] in R.
  apply srun_app in R as (s0 & R0 & R). apply srun_app in R as (sB & RB & RC).
  apply srun_app in RB as (s1 & R1 & RB). cbn [srun] in RB. apply bind_ok in RB as (s2 & E2 & RB).
  pose proof (srun_WF _ _ _ W R0) as W0. pose proof (srun_WF _ _ _ W0 R1) as W1.
  apply srun_ext in R0 as X0. rewrite ext_run_creates in X0.
  apply srun_ext in R1 as X1. rewrite ext_run_edges in X1.
  assert (Ed : In (resolve args base b) (edges (get (g s2) (resolve args base a)))).
  { apply (sstep_addedge s1 _ _ s2 W1); [| |exact E2]; unfold ext_of; rewrite X1, X0; assumption. }
  eapply srun_edges; [|exact RC|].
  { intros op Ho. apply plain_safe.
    apply in_app_or in Ho as [Ho|Ho]; [apply (plain_drops _ _ _ Ho)|apply (plain_clones _ _ _ Ho)]. }
  eapply srun_edges; [|exact RB|exact Ed].
  intros op Ho. apply plain_safe. apply (plain_addedges _ _ _ _ Ho).
Qed.

(* hence the slot of a template instance has sound ghosts *)
Lemma inst_slot_ghost s t n args s' :
  WF s -> tmpl_ok t n -> tmpl_gok t ->
  (forall r, In r (t_gclone t) -> 0 < nth (resolve args (length (ext s)) r) (ext s) 0) ->
  srun s (inst_ops t args (length (ext s))) = Ok s' ->
  forall x, In x (s_g (inst_slot t args (length (ext s)))) ->
    exists r, In r (s_h (inst_slot t args (length (ext s)))) /\ In x (edges (get (g s') r)).
Proof.
  intros W K G GC R x Hx. destruct (inst_slot_handles t args (length (ext s))) as (Eh & Eg).
  rewrite Eg in Hx. apply in_map_iff in Hx as (tgt & <- & Ht).
  destruct (G tgt Ht) as (k & Ik & Ie).
  exists (resolve args (length (ext s)) (RNew k)). split.
  - rewrite Eh. apply in_map. apply in_map. exact Ik.
  - assert (Kn : k < length (t_new t)) by (apply (ok_range _ _ K); apply in_or_app; left; exact Ik).
    apply (srun_inst_edge s t args s' (RNew k) tgt W R Ie).
    + cbn [resolve]. rewrite nth_app_repeat.
      destruct (Nat.leb_spec (length (ext s)) (length (ext s) + k)); [|lia].
      destruct (Nat.ltb_spec (length (ext s) + k) (length (ext s) + length (t_new t))); [|lia]. cbn [andb]. lia.
    + unfold ghost_targets in Ht. apply in_app_or in Ht as [Ht|Ht].
      * apply in_map_iff in Ht as (k2 & <- & I2).
        assert (K2 : k2 < length (t_new t)) by (apply (ok_range _ _ K); apply in_or_app; right; exact I2).
        cbn [resolve]. rewrite nth_app_repeat.
        destruct (Nat.leb_spec (length (ext s)) (length (ext s) + k2)); [|lia].
        destruct (Nat.ltb_spec (length (ext s) + k2) (length (ext s) + length (t_new t))); [|lia]. cbn [andb]. lia.
      * specialize (GC tgt Ht). rewrite nth_app_repeat. lia.
Qed.

(* ====================================================================================================== *)
(* the invariant                                                                                          *)
(* ====================================================================================================== *)
(* ghosts are sound; listener objects exist and are never handles of a slot (the only GRemoveEdge the
   program issues is on a listener object, so it cannot take an edge away from a slot's real handle) *)
Record GInv (st : hstate) : Prop := {
  gh_ghost : GhostOK st;
  gh_range : forall l r, lookup (lsn st) l = Some r -> l_id r < length (ext (hs st));
  gh_disj : forall k s l r x, lookup (slots st) k = Some s -> lookup (lsn st) l = Some r ->
            In x (s_h s ++ s_g s) -> x <> l_id r
}.

Definition ghost_cond (st : hstate) (s : slot) : Prop :=
  forall x, In x (s_g s) -> exists r, In r (s_h s) /\ In x (edges (get (g (hs st)) r)).
Definition disj_cond (st : hstate) (s : slot) : Prop :=
  forall l r x, lookup (lsn st) l = Some r -> In x (s_h s ++ s_g s) -> x <> l_id r.

Lemma GInv_init : GInv hinit.
Proof.
  constructor.
  - intros k s x H. discriminate H.
  - intros l r H. discriminate H.
  - intros k s l r x H. discriminate H.
Qed.

Lemma ext_run_len ops : forall e, length e <= length (ext_run e ops).
Proof.
  induction ops as [|op ops IH]; intros e; [apply Nat.le_refl|].
  rewrite ext_run_cons. eapply Nat.le_trans; [|apply IH]. rewrite length_ext_step. lia.
Qed.

Lemma GInv_run st ops nn st1 :
  run_ops st ops nn = Ok st1 ->
  (forall k s r, lookup (slots st) k = Some s -> In r (s_h s) -> forall op, In op ops -> edge_safe r op = true) ->
  GInv st -> GInv st1.
Proof.
  intros R S [G Rg D]. pose proof (run_ops_inv _ _ _ _ R) as (Rs & Sl & Ls). apply run_ops_ext in R as (E & _ & _).
  constructor.
  - intros k s x L I. rewrite Sl in L. destruct (G k s x L I) as (r & Ir & Ie). exists r. split; [exact Ir|].
    apply (srun_edges r x ops (hs st) (hs st1) (S k s r L Ir) Rs Ie).
  - intros l r L. rewrite Ls in L. rewrite E. eapply Nat.lt_le_trans; [apply (Rg l r L)|apply ext_run_len].
  - intros k s l r x L1 L2. rewrite Sl in L1. rewrite Ls in L2. apply (D k s l r x L1 L2).
Qed.

Lemma GInv_plain st ops nn st1 :
  run_ops st ops nn = Ok st1 -> (forall op, In op ops -> plain op = true) -> GInv st -> GInv st1.
Proof.
  intros R P G. apply (GInv_run st ops nn st1 R); [|exact G].
  intros k s r _ _ op Ho. apply plain_safe. apply P. exact Ho.
Qed.

Lemma ghost_cond_plain st ops nn st1 s :
  run_ops st ops nn = Ok st1 -> (forall op, In op ops -> plain op = true) -> ghost_cond st s -> ghost_cond st1 s.
Proof.
  intros R P G x Hx. apply run_ops_inv in R as (Rs & _ & _). destruct (G x Hx) as (r & Ir & Ie).
  exists r. split; [exact Ir|]. apply (srun_edges r x ops (hs st) (hs st1)); [|exact Rs|exact Ie].
  intros op Ho. apply plain_safe. apply P. exact Ho.
Qed.

Lemma GInv_collect st st1 :
  WF (hs st) -> TInv st -> run_ops st [GCollect] [] = Ok st1 -> GInv st -> GInv st1.
Proof.
  intros W I R [G Rg D]. pose proof (run_ops_inv _ _ _ _ R) as (Rs & Sl & Ls). apply run_ops_ext in R as (E & _ & _).
  cbn [srun] in Rs. apply bind_ok in Rs as (s2 & E2 & Rs). injection Rs as Rs.
  constructor.
  - intros k s x L Ix. rewrite Sl in L. destruct (G k s x L Ix) as (r & Ir & Ie). exists r. split; [exact Ir|].
    rewrite <- Rs, (collect_edges (hs st) s2 r W E2); [exact Ie|]. unfold ext_of.
    apply (held_slot_pos st k s r (ti_tracked _ I) L). apply in_or_app. left. exact Ir.
  - intros l r L. rewrite Ls in L. rewrite E. apply (Rg l r L).
  - intros k s l r x L1 L2. rewrite Sl in L1. rewrite Ls in L2. apply (D k s l r x L1 L2).
Qed.

Lemma with_slot_GInv st h s : GInv st -> ghost_cond st s -> disj_cond st s -> GInv (with_slot st h s).
Proof.
  intros [G Rg D] Gs Ds. constructor.
  - intros k s0 x L Ix. cbn [with_slot hs slots] in *. rewrite lookup_set_key in L.
    destruct (k =? h); [injection L as <-; apply Gs; exact Ix|apply (G k s0 x L Ix)].
  - exact Rg.
  - intros k s0 l r x L1 L2 Ix. cbn [with_slot slots lsn] in *. rewrite lookup_set_key in L1.
    destruct (k =? h); [injection L1 as <-; apply (Ds l r x L2 Ix)|apply (D k s0 l r x L1 L2 Ix)].
Qed.

Lemma without_slot_GInv st h : GInv st -> GInv (without_slot st h).
Proof.
  intros [G Rg D]. constructor.
  - intros k s0 x L Ix. cbn [without_slot hs slots] in *. rewrite lookup_remove_key in L.
    destruct (k =? h); [discriminate|apply (G k s0 x L Ix)].
  - exact Rg.
  - intros k s0 l r x L1 L2 Ix. cbn [without_slot slots lsn] in *. rewrite lookup_remove_key in L1.
    destruct (k =? h); [discriminate|apply (D k s0 l r x L1 L2 Ix)].
Qed.

Lemma with_listener_GInv st l r :
  GInv st -> l_id r < length (ext (hs st)) ->
  (forall k s x, lookup (slots st) k = Some s -> In x (s_h s ++ s_g s) -> x <> l_id r) ->
  GInv (with_listener st l r).
Proof.
  intros [G Rg D] Rr Dr. constructor.
  - exact G.
  - intros l0 r0 L. cbn [with_listener hs lsn] in *. rewrite lookup_set_key in L.
    destruct (l0 =? l); [injection L as <-; exact Rr|apply (Rg l0 r0 L)].
  - intros k s0 l0 r0 x L1 L2 Ix. cbn [with_listener slots lsn] in *. rewrite lookup_set_key in L2.
    destruct (l0 =? l); [injection L2 as <-; apply (Dr k s0 x L1 Ix)|apply (D k s0 l0 r0 x L1 L2 Ix)].
Qed.

(* the handles of a template instance are not listener objects *)
Lemma inst_slot_disj st t n args :
  GInv st -> tmpl_ok t n ->
  (forall r0 l r, In r0 (t_gclone t) -> lookup (lsn st) l = Some r ->
                  resolve args (length (ext (hs st))) r0 <> l_id r) ->
  disj_cond st (inst_slot t args (length (ext (hs st)))).
Proof.
  intros G K GC l r x L Ix. pose proof (gh_range _ G l r L) as Rg.
  destruct (inst_slot_handles t args (length (ext (hs st)))) as (Eh & Eg). rewrite Eh, Eg in Ix.
  apply in_app_or in Ix as [Ix|Ix]; apply in_map_iff in Ix as (tr & <- & It).
  - apply in_map_iff in It as (k & <- & _). cbn [resolve]. lia.
  - unfold ghost_targets in It. apply in_app_or in It as [It|It].
    + apply in_map_iff in It as (k & <- & _). cbn [resolve]. lia.
    + apply (GC tr l r It L).
Qed.

Lemma gclone_in_slot st args sl base r :
  (forall k s, lookup (slots st) k = Some s -> slot_ok s) ->
  lookups (slots st) args = Some sl -> ref_arg (length args) r = true ->
  exists k s, lookup (slots st) k = Some s /\ In (resolve sl base r) (s_h s ++ s_g s).
Proof.
  intros OK L R. destruct (lookups_spec _ _ _ L) as (Len & Nth).
  destruct r as [i|i|k]; cbn [ref_arg resolve] in *; try discriminate;
    apply Nat.ltb_lt in R; rewrite <- Len in R; destruct (Nth i R) as (k & Lk);
    destruct (OK k _ Lk) as (On & Ou); exists k, (nth i sl dummy_slot); split; assumption.
Qed.

(* lift2 .. lift6 *)
Lemma lift_chain_GInv h keeps : forall rest st acc first st',
  WF (hs st) -> GInv st -> ghost_cond st acc -> disj_cond st acc ->
  lift_chain st h acc first rest keeps = Ok st' -> GInv st'.
Proof.
  induction rest as [|c rest IH]; intros st acc first st' W G Ga Da H.
  - cbn [lift_chain] in H. injection H as <-. apply with_slot_GInv; assumption.
  - rewrite lift_chain_cons, (WF_len st W) in H.
    set (tm := lift_tm rest keeps) in *. set (ar := lift_ar acc c rest keeps) in *.
    assert (Gc : t_gclone tm = []) by apply lift_tm_gclone.
    destruct (run_ops st (inst_ops tm ar (length (ext (hs st)))) (t_new tm)) as [st1| |] eqn:R1;
      try discriminate.
    pose proof (run_ops_WF _ _ _ _ W R1) as W1.
    pose proof (GInv_plain _ _ _ _ R1 (plain_inst_ops _ _ _) G) as G1.
    pose proof (run_ops_inv _ _ _ _ R1) as (Rs1 & S1 & L1).
    assert (Gs : ghost_cond st1 (inst_slot tm ar (length (ext (hs st))))).
    { intros x Hx.
      apply (inst_slot_ghost (hs st) tm 2 ar (hs st1) W (lift_tm_ok rest keeps) (lift_tm_gok rest keeps)); auto.
      rewrite Gc. intros r []. }
    assert (Ds : disj_cond st (inst_slot tm ar (length (ext (hs st))))).
    { apply (inst_slot_disj st tm 2 ar G (lift_tm_ok rest keeps)). rewrite Gc. intros r0 l r []. }
    destruct first.
    + apply (IH st1 _ false st' W1 G1 Gs); [|exact H]. unfold disj_cond. rewrite L1. exact Ds.
    + destruct (run_ops st1 (drop_slot_ops acc) []) as [st2| |] eqn:R2; try discriminate.
      pose proof (run_ops_WF _ _ _ _ W1 R2) as W2.
      pose proof (GInv_plain _ _ _ _ R2 (plain_drop_slot _) G1) as G2.
      pose proof (run_ops_inv _ _ _ _ R2) as (_ & _ & L2).
      refine (IH st2 _ false st' W2 G2 _ _ H).
      * apply (ghost_cond_plain _ _ _ _ _ R2 (plain_drop_slot _) Gs).
      * unfold disj_cond. rewrite L2, L1. exact Ds.
Qed.

Theorem hstep_GInv st op st' : WF (hs st) -> TInv st -> GInv st -> hstep st op = Ok st' -> GInv st'.
Proof.
  intros W I G H. pose proof I as [T N1 N2 OK].
  destruct op as [h p args0 keeps|h args keeps|h c|l t|l s strong|l c strong|l|l|h h'|h| |]; cbn [hstep] in H.
  - (* HDef *)
    destruct (lookups (slots st) args0) as [sl0|] eqn:L0; [|injection H as <-; exact G].
    destruct (lookups (slots st) keeps) as [kl|] eqn:Lk; [|injection H as <-; exact G].
    destruct (free_slot st h) eqn:F; cbn [andb] in H; [|injection H as <-; exact G].
    destruct (arity_ok p (length args0)) eqn:A; [|injection H as <-; exact G].
    pose proof (tmpl_with_ok p (length args0) (length keeps) A) as K. rewrite <- app_length in K.
    pose proof (lookups_app _ _ _ _ _ L0 Lk) as L.
    set (args := args0 ++ keeps) in *. set (sl := sl0 ++ kl) in *.
    unfold def_slot in H. rewrite (WF_len st W) in H.
    match type of H with context [run_ops st ?o ?n] => destruct (run_ops st o n) as [st1| |] eqn:R; try discriminate end.
    injection H as <-.
    pose proof (GInv_plain _ _ _ _ R (plain_inst_ops _ _ _) G) as G1.
    pose proof (run_ops_inv _ _ _ _ R) as (Rs & S1 & L1).
    apply with_slot_GInv; [exact G1| |].
    + intros x Hx. cbn [s_h s_g] in *.
      apply (inst_slot_ghost (hs st) _ _ sl (hs st1) W K (tmpl_with_gok _ _ _)); auto.
      intros r Hr. apply (gclone_pos st args sl _ r T OK L). apply (ok_gclone _ _ K). exact Hr.
    + intros l r x Ll Ix. cbn [s_h s_g] in Ix. rewrite L1 in Ll.
      refine (inst_slot_disj st _ _ sl G K _ l r x Ll Ix).
      intros r0 l0 rr Hr Lr. destruct (gclone_in_slot st args sl (length (ext (hs st))) r0 OK L (ok_gclone _ _ K r0 Hr))
        as (k & s & Lks & Ik). apply (gh_disj _ G k s l0 rr _ Lks Lr Ik).
  - (* HLift *)
    destruct (lookups (slots st) args) as [[|a [|b rest]]|] eqn:L; try (injection H as <-; exact G).
    destruct (lookups (slots st) keeps) as [kl|]; [|injection H as <-; exact G].
    destruct (free_slot st h) eqn:F; [|injection H as <-; exact G].
    cbn [lookups] in L. destruct args as [|ka args]; [discriminate|]. cbn [lookups] in L.
    destruct (lookup (slots st) ka) as [sa|] eqn:La; [|discriminate].
    destruct (lookups (slots st) args) as [tl|]; [|discriminate]. injection L as E1 E2. subst sa.
    apply (lift_chain_GInv h kl (b :: rest) st a true st' W G); [| |exact H].
    + intros x Hx. apply (gh_ghost _ G ka a x La Hx).
    + intros l0 r x Ll Ix. apply (gh_disj _ G ka a l0 r x La Ll Ix).
  - (* HUpdates *)
    destruct (lookup (slots st) c) as [sc|] eqn:L; [|injection H as <-; exact G].
    destruct (free_slot st h) eqn:F; [|injection H as <-; exact G].
    destruct (run_ops st [GClone (s_upd sc)] []) as [st1| |] eqn:R; try discriminate.
    injection H as <-.
    assert (P : forall op, In op [GClone (s_upd sc)] -> plain op = true) by (intros op [<-|[]]; reflexivity).
    pose proof (GInv_plain _ _ _ _ R P G) as G1. pose proof (run_ops_inv _ _ _ _ R) as (Rs & S1 & L1).
    apply with_slot_GInv; [exact G1| |].
    + intros x [].
    + intros l r x Ll Ix. cbn [s_h s_g app] in Ix. rewrite L1 in Ll. destruct Ix as [<-|[]].
      apply (gh_disj _ G c sc l r _ L Ll). apply (OK c sc L).
  - (* HLoop *)
    destruct (lookup (slots st) l) as [sl|] eqn:L; [|injection H as <-; exact G].
    destruct (lookup (slots st) t) as [stg|] eqn:L'; [|injection H as <-; exact G].
    destruct (s_open sl); [|injection H as <-; exact G].
    match type of H with context [run_ops st ?o ?n] => destruct (run_ops st o n) as [st1| |] eqn:R; try discriminate end.
    injection H as <-.
    assert (P : forall op, In op [GAddEdge (s_upd sl) (if s_node sl =? s_upd sl then s_node stg else s_upd stg);
                                   GAddEdge (s_upd sl) (if s_node sl =? s_upd sl then s_node stg else s_upd stg)]
                           -> plain op = true) by (intros op [<-|[<-|[]]]; reflexivity).
    pose proof (GInv_plain _ _ _ _ R P G) as G1. pose proof (run_ops_inv _ _ _ _ R) as (Rs & S1 & L1).
    rewrite <- S1 in L.
    apply with_slot_GInv; [exact G1| |].
    + intros x Hx. cbn [s_h s_g] in *. apply (gh_ghost _ G1 l sl x L Hx).
    + intros l0 r x Ll Ix. cbn [s_h s_g] in Ix. apply (gh_disj _ G1 l sl l0 r x L Ll Ix).
  - (* HListen *)
    destruct (lookup (slots st) s) as [ss|] eqn:L; [|injection H as <-; exact G].
    destruct (free_listener st l) eqn:F; [|injection H as <-; exact G].
    rewrite (WF_len st W) in H.
    match type of H with context [run_ops st ?o ?n] => destruct (run_ops st o n) as [st1| |] eqn:R; try discriminate end.
    injection H as <-.
    assert (P : forall op, In op (inst_ops t_listen [ss] (length (ext (hs st)))
                                  ++ (if strong then [GClone (length (ext (hs st)) + 1)] else [])) -> plain op = true).
    { intros op Ho. apply in_app_or in Ho as [Ho|Ho]; [apply (plain_inst_ops _ _ _ _ Ho)|].
      destruct strong; [destruct Ho as [<-|[]]; reflexivity|destruct Ho]. }
    pose proof (GInv_plain _ _ _ _ R P G) as G1. pose proof (run_ops_ext _ _ _ _ R) as (E & S1 & L1).
    assert (Lk : lookups (slots st) [s] = Some [ss]) by (cbn [lookups]; rewrite L; reflexivity).
    destruct (inst_ext t_listen [ss] (ext (hs st)) (ok_nodup _ _ t_listen_ok) (ok_range _ _ t_listen_ok)) as (Len & _).
    { intros r Hr. apply (gclone_pos st [s] [ss] _ r T OK Lk). apply (ok_gclone _ _ t_listen_ok). exact Hr. }
    apply with_listener_GInv; [exact G1| |]; cbn [l_id].
    + rewrite E, ext_run_app. eapply Nat.lt_le_trans; [|apply ext_run_len]. rewrite Len. cbn. lia.
    + intros k s0 x Lk0 Ix. rewrite S1 in Lk0.
      pose proof (pos_in_range _ _ (held_slot_pos st k s0 x T Lk0 Ix)). lia.
  - (* HListenC *)
    destruct (lookup (slots st) c) as [sc|] eqn:L; [|injection H as <-; exact G].
    destruct (free_listener st l) eqn:F; [|injection H as <-; exact G].
    rewrite (WF_len st W) in H.
    match type of H with context [run_ops st ?o ?n] => destruct (run_ops st o n) as [st1| |] eqn:R; try discriminate end.
    injection H as <-.
    assert (P : forall op, In op (inst_ops t_listen_c [sc] (length (ext (hs st)))
                                  ++ (if strong then [GClone (length (ext (hs st)) + 4)] else [])) -> plain op = true).
    { intros op Ho. apply in_app_or in Ho as [Ho|Ho]; [apply (plain_inst_ops _ _ _ _ Ho)|].
      destruct strong; [destruct Ho as [<-|[]]; reflexivity|destruct Ho]. }
    pose proof (GInv_plain _ _ _ _ R P G) as G1. pose proof (run_ops_ext _ _ _ _ R) as (E & S1 & L1).
    assert (Lk : lookups (slots st) [c] = Some [sc]) by (cbn [lookups]; rewrite L; reflexivity).
    destruct (inst_ext t_listen_c [sc] (ext (hs st)) (ok_nodup _ _ t_listen_c_ok) (ok_range _ _ t_listen_c_ok)) as (Len & _).
    { intros r Hr. apply (gclone_pos st [c] [sc] _ r T OK Lk). apply (ok_gclone _ _ t_listen_c_ok). exact Hr. }
    apply with_listener_GInv; [exact G1| |]; cbn [l_id].
    + rewrite E, ext_run_app. eapply Nat.lt_le_trans; [|apply ext_run_len]. rewrite Len. cbn. lia.
    + intros k s0 x Lk0 Ix. rewrite S1 in Lk0.
      pose proof (pos_in_range _ _ (held_slot_pos st k s0 x T Lk0 Ix)). lia.
  - (* HUnlisten *)
    destruct (lookup (lsn st) l) as [r|] eqn:L; [|injection H as <-; exact G].
    destruct (l_held r || l_ka r) eqn:HK; [|injection H as <-; exact G].
    match type of H with context [run_ops st ?o ?n] => destruct (run_ops st o n) as [st1| |] eqn:R; try discriminate end.
    injection H as <-.
    assert (G1 : GInv st1).
    { apply (GInv_run _ _ _ _ R); [|exact G]. intros k s0 r0 Lk Ir op Ho.
      apply in_app_or in Ho as [Ho|Ho].
      - destruct (l_att r); [|destruct Ho]. destruct Ho as [<-|[]]. cbn [edge_safe].
        apply negb_true_iff. apply Nat.eqb_neq. intros X.
        apply (gh_disj _ G k s0 l r r0 Lk L); [apply in_or_app; left; exact Ir|symmetry; exact X].
      - destruct (l_ka r); [|destruct Ho]. destruct Ho as [<-|[]]. reflexivity. }
    pose proof (run_ops_inv _ _ _ _ R) as (_ & S1 & L1). rewrite <- L1 in L.
    apply with_listener_GInv; [exact G1| |]; cbn [l_id].
    + apply (gh_range _ G1 l r L).
    + intros k s0 x Lk Ix. apply (gh_disj _ G1 k s0 l r x Lk L Ix).
  - (* HDropL *)
    destruct (lookup (lsn st) l) as [r|] eqn:L; [|injection H as <-; exact G].
    destruct (l_held r) eqn:HK; [|injection H as <-; exact G].
    match type of H with context [run_ops st ?o ?n] => destruct (run_ops st o n) as [st1| |] eqn:R; try discriminate end.
    injection H as <-.
    assert (P : forall op, In op [GDrop (l_id r)] -> plain op = true) by (intros op [<-|[]]; reflexivity).
    pose proof (GInv_plain _ _ _ _ R P G) as G1.
    pose proof (run_ops_inv _ _ _ _ R) as (_ & S1 & L1). rewrite <- L1 in L.
    apply with_listener_GInv; [exact G1| |]; cbn [l_id].
    + apply (gh_range _ G1 l r L).
    + intros k s0 x Lk Ix. apply (gh_disj _ G1 k s0 l r x Lk L Ix).
  - (* HClone *)
    destruct (lookup (slots st) h) as [s|] eqn:L; [|injection H as <-; exact G].
    destruct (free_slot st h') eqn:F; [|injection H as <-; exact G].
    set (s' := if (s_node s =? s_upd s) && negb (length (s_g s) =? 0)
               then mkSlot (s_node s) (s_upd s) [s_node s] [] false
               else mkSlot (s_node s) (s_upd s) (s_h s) (s_g s) false) in *.
    destruct (OK h s L) as (On & Ou).
    assert (P : (s_g s' = [] \/ (s_h s' = s_h s /\ s_g s' = s_g s)) /\
                forall x, In x (s_h s' ++ s_g s') -> In x (s_h s ++ s_g s)).
    { subst s'. destruct ((s_node s =? s_upd s) && negb (length (s_g s) =? 0)).
      - split; [left; reflexivity|]. cbn [s_h s_g app]. intros x [<-|[]]. exact On.
      - split; [right; split; reflexivity|]. cbn [s_h s_g]. intros x Hx. exact Hx. }
    destruct P as (Cs & Sub).
    destruct (run_ops st (clone_slot_ops s') []) as [st1| |] eqn:R; try discriminate.
    injection H as <-.
    pose proof (GInv_plain _ _ _ _ R (plain_clone_slot _) G) as G1.
    pose proof (run_ops_inv _ _ _ _ R) as (_ & S1 & L1). rewrite <- S1 in L.
    apply with_slot_GInv; [exact G1| |].
    + intros x Hx. destruct Cs as [Z|(Zh & Zg)]; [rewrite Z in Hx; destruct Hx|].
      rewrite Zh. rewrite Zg in Hx. apply (gh_ghost _ G1 h s x L Hx).
    + intros l r x Ll Ix. apply (gh_disj _ G1 h s l r x L Ll). apply Sub. exact Ix.
  - (* HDrop *)
    destruct (lookup (slots st) h) as [s|] eqn:L; [|injection H as <-; exact G].
    destruct (run_ops st (drop_slot_ops s) []) as [st1| |] eqn:R; try discriminate.
    injection H as <-. apply without_slot_GInv. apply (GInv_plain _ _ _ _ R (plain_drop_slot _) G).
  - (* HCollect *)
    apply (GInv_collect st st' W I H G).
  - injection H as <-. exact G.
Qed.

Lemma hrun_GInv ops : forall st st', WF (hs st) -> TInv st -> GInv st -> hrun st ops = Ok st' -> GInv st'.
Proof.
  induction ops as [|op ops IH]; intros st st' W I G H; cbn [hrun] in H.
  - injection H as <-. exact G.
  - destruct (hstep st op) as [st1| |] eqn:E; try discriminate.
    apply (IH st1 st' (hstep_WF _ _ _ W E) (hstep_TInv _ _ _ W I E) (hstep_GInv _ _ _ W I G E) H).
Qed.

(* ====================================================================================================== *)
(* the theorems                                                                                           *)
(* ====================================================================================================== *)
Theorem hrun_ghost_ok : forall ops st, hrun hinit ops = Ok st -> GhostOK st.
Proof.
  intros ops st H. apply gh_ghost. apply (hrun_GInv ops hinit st WF_init TInv_init GInv_init H).
Qed.
Print Assumptions hrun_ghost_ok.

Lemma real_held_sub st h : In h (real_held st) -> In h (held st).
Proof.
  unfold real_held, held. intros I. apply in_app_or in I as [I|I]; apply in_or_app; [left|right; exact I].
  apply in_flat_map in I as (kv & Ikv & Ih). apply in_flat_map. exists kv. split; [exact Ikv|].
  apply in_or_app. left. exact Ih.
Qed.

Lemma held_cases st h :
  In h (held st) -> In h (real_held st) \/ exists k s, In (k, s) (slots st) /\ In h (s_g s).
Proof.
  unfold real_held, held. intros I. apply in_app_or in I as [I|I].
  - apply in_flat_map in I as ([k s] & Ikv & Ih). cbn [snd] in Ih. apply in_app_or in Ih as [Ih|Ih].
    + left. apply in_or_app. left. apply in_flat_map. exists (k, s). split; [exact Ikv|exact Ih].
    + right. exists k, s. split; assumption.
  - left. apply in_or_app. right. exact I.
Qed.

(* reachability from all held handles = reachability from the real ones *)
Theorem ghosts_do_not_extend_life : forall ops st,
    hrun hinit ops = Ok st ->
    forall o, (exists h, In h (held st) /\ reach (E (g (hs st))) h o) <->
              (exists h, In h (real_held st) /\ reach (E (g (hs st))) h o).
Proof.
  intros ops st H o.
  pose proof (hrun_ghost_ok ops st H) as G.
  pose proof (hrun_TInv ops hinit st WF_init TInv_init H) as I.
  split.
  - intros (h & Ih & R). apply held_cases in Ih as [Ih|(k & s & Iks & Ig)].
    + exists h. split; assumption.
    + apply (In_lookup _ _ _ (ti_slots _ I)) in Iks as L.
      destruct (G k s h L Ig) as (r & Ir & Ie).
      exists r. split.
      * unfold real_held. apply in_or_app. left. apply in_flat_map. exists (k, s). split; [exact Iks|exact Ir].
      * apply (reach_step _ r h o); [exact Ie|exact R].
  - intros (h & Ih & R). exists h. split; [apply real_held_sub; exact Ih|exact R].
Qed.
Print Assumptions ghosts_do_not_extend_life.
