(* The generic guarded walk: every recursive collector walk of Model/Gc.v has the shape
     W (S f) st s = if guard (get st s) then [falsify the guard of s; trace s; recurse into the edges] else Ok st
   and for such a W we prove once: what it preserves, that fuel above the number of guard-true
   objects suffices, and the amortised cost (each trace pays with one guard-true object). *)
From Coq Require Import List Arith Bool Lia.
Import ListNotations.
From Sodium Require Import Gc GcCost_Base.

Definition enter_st (enter : gobj -> gobj) (st : gstate) (s : nat) : gstate :=
  count_trace (set st s (enter (get st s))) s.

(* frame plus the two context lists *)
Definition fr (st st' : gstate) : Prop :=
  frame st st' /\ roots st' = roots st /\ to_be_freed st' = to_be_freed st.

Lemma fr_refl st : fr st st.
Proof. split; [apply frame_refl|split; reflexivity]. Qed.

Lemma fr_trans a b c : fr a b -> fr b c -> fr a c.
Proof.
  intros (F1 & R1 & T1) (F2 & R2 & T2). split; [eapply frame_trans; eauto|split; congruence].
Qed.

Lemma fr_nobjs a b : fr a b -> nobjs b = nobjs a.
Proof. intros [[H _] _]; exact H. Qed.

Lemma fr_edges_okP a b : fr a b -> edges_okP a -> edges_okP b.
Proof. intros [F _]. apply frame_edges_okP; exact F. Qed.

Lemma fr_count_trace st st' n : fr st st' -> fr st (count_trace st' n).
Proof. intros H; exact H. Qed.

Lemma fr_set st s o :
  edges o = edges (get st s) -> freed o = freed (get st s) -> fr st (set st s o).
Proof. intros He Hf. split; [apply frame_set; auto|split; reflexivity]. Qed.

(* same trace counters *)
Definition same_tr (st st' : gstate) : Prop :=
  trace_calls st' = trace_calls st /\ trace_edges st' = trace_edges st.

Section GWalk.
  Variable g : gobj -> bool.
  Variable enter : gobj -> gobj.
  Variable pre : gstate -> nat -> res gstate.
  Variable W : nat -> gstate -> nat -> res gstate.

  Definition child (f : nat) (st : gstate) (t : nat) : res gstate := do st2 <- pre st t; W f st2 t.

  Hypothesis W_S : forall f st s,
    W (S f) st s =
    if g (get st s) then giter (child f) (enter_st enter st s) (edges (get st s)) else Ok st.
  Hypothesis W_0 : forall st s st', W 0 st s = Ok st' -> st' = st.
  Hypothesis enter_off : forall o, g (enter o) = false.
  Hypothesis enter_edges : forall o, edges (enter o) = edges o.
  Hypothesis enter_freed : forall o, freed (enter o) = freed o.
  Hypothesis pre_not_oof : forall st t, pre st t <> OutOfFuel.
  Hypothesis pre_fr : forall st t st2, pre st t = Ok st2 -> fr st st2 /\ same_tr st st2.
  Hypothesis pre_mono : forall st t st2, pre st t = Ok st2 -> mono g st st2.

  (* ----- entering one object ----- *)

  Lemma enter_fr st s : fr st (enter_st enter st s).
  Proof. unfold enter_st. apply fr_count_trace. apply fr_set; auto. Qed.

  Lemma enter_tc st s : trace_calls (enter_st enter st s) = S (trace_calls st).
  Proof. reflexivity. Qed.

  Lemma enter_te st s :
    trace_edges (enter_st enter st s) = trace_edges st + length (edges (get st s)).
  Proof.
    unfold enter_st, count_trace. cbn [trace_edges].
    rewrite (get_set_field edges); auto.
  Qed.

  Lemma enter_wcnt w st s :
    s < nobjs st -> g (get st s) = true ->
    wcnt w g (enter_st enter st s) + w (get st s) = wcnt w g st.
  Proof.
    intros Hs Hg. unfold enter_st.
    change (wcnt w g (count_trace (set st s (enter (get st s))) s))
      with (wcnt w g (set st s (enter (get st s)))).
    apply wcnt_set_off; auto.
  Qed.

  Section MonoP.
    Variable p : gobj -> bool.
    Hypothesis enter_p : forall o, p (enter o) = true -> p o = true.
    Hypothesis pre_p : forall st t st2, pre st t = Ok st2 -> mono p st st2.

    Lemma enter_mono_p st s : mono p st (enter_st enter st s).
    Proof.
      unfold enter_st. intros i.
      change (get (count_trace (set st s (enter (get st s))) s) i)
        with (get (set st s (enter (get st s))) i).
      apply mono_set. apply enter_p.
    Qed.

    Lemma W_mono_p : forall f st s st', W f st s = Ok st' -> mono p st st'.
    Proof.
      induction f as [|f IH]; intros st s st' E.
      - apply W_0 in E. subst st'. apply mono_refl.
      - rewrite W_S in E. destruct (g (get st s)) eqn:Hg.
        + eapply (giter_inv (fun a => mono p st a)); [ | | exact E].
          * intros a t a' _ Ha Ec. unfold child in Ec.
            apply bind_ok in Ec as (a2 & E1 & E2).
            apply pre_p in E1. apply IH in E2.
            eapply mono_trans; [exact Ha|]. eapply mono_trans; eauto.
          * apply enter_mono_p.
        + injection E as <-. apply mono_refl.
    Qed.
  End MonoP.

  Lemma W_mono : forall f st s st', W f st s = Ok st' -> mono g st st'.
  Proof.
    apply W_mono_p.
    - intros o H. rewrite enter_off in H. discriminate.
    - exact pre_mono.
  Qed.

  Lemma enter_mono st s : mono g st (enter_st enter st s).
  Proof. apply enter_mono_p. intros o H. rewrite enter_off in H. discriminate. Qed.

  (* ----- what a walk preserves ----- *)

  Lemma W_fr : forall f st s st', W f st s = Ok st' -> fr st st'.
  Proof.
    induction f as [|f IH]; intros st s st' E.
    - apply W_0 in E. subst st'. apply fr_refl.
    - rewrite W_S in E. destruct (g (get st s)) eqn:Hg.
      + eapply (giter_inv (fun a => fr st a)); [ | | exact E].
        * intros a t a' _ Ha Ec. unfold child in Ec.
          apply bind_ok in Ec as (a2 & E1 & E2).
          apply pre_fr in E1 as [E1 _]. apply IH in E2.
          eapply fr_trans; [exact Ha|]. eapply fr_trans; eauto.
        * apply enter_fr.
      + injection E as <-. apply fr_refl.
  Qed.

  Lemma child_fr f a t a' : child f a t = Ok a' -> fr a a'.
  Proof.
    unfold child. intros Ec. apply bind_ok in Ec as (a2 & E1 & E2).
    apply pre_fr in E1 as [E1 _]. apply W_fr in E2. eapply fr_trans; eauto.
  Qed.

  Lemma child_mono f a t a' : child f a t = Ok a' -> mono g a a'.
  Proof.
    unfold child. intros Ec. apply bind_ok in Ec as (a2 & E1 & E2).
    apply pre_mono in E1. apply W_mono in E2. eapply mono_trans; eauto.
  Qed.

  Lemma child_cnt f a t a' : child f a t = Ok a' -> cnt g a' <= cnt g a.
  Proof.
    intros Ec. apply cnt_mono.
    - apply fr_nobjs. eapply child_fr; eauto.
    - eapply child_mono; eauto.
  Qed.

  (* ----- fuel ----- *)

  Lemma W_fuel : forall fuel st s, cnt g st < fuel -> W fuel st s <> OutOfFuel.
  Proof.
    induction fuel as [|f IH]; intros st s Hc; [lia|].
    rewrite W_S. destruct (g (get st s)) eqn:Hg; [|discriminate].
    destruct (Nat.lt_ge_cases s (nobjs st)) as [Hs|Hs].
    - apply (giter_not_oof (fun a => cnt g a < f)).
      + intros a t a' _ Ha Ec. apply child_cnt in Ec. lia.
      + intros a t _ Ha. unfold child. apply bind_not_oof; [apply pre_not_oof|].
        intros a2 E1. apply IH.
        assert (cnt g a2 <= cnt g a); [|lia].
        apply cnt_mono; [apply fr_nobjs; apply (pre_fr _ _ _ E1) | eapply pre_mono; eauto].
      + pose proof (enter_wcnt one st s Hs Hg) as Hw. unfold one in Hw at 2.
        unfold cnt in *. lia.
    - rewrite (get_oor st s Hs). simpl. discriminate.
  Qed.

  (* the variant for a walk whose guard is tested before fuel is consumed (scan_black) *)
  Lemma W_fuel_le :
    g dummy = false ->
    (forall st s, g (get st s) = false -> W 0 st s <> OutOfFuel) ->
    forall fuel st s, cnt g st <= fuel -> W fuel st s <> OutOfFuel.
  Proof.
    intros Hd H0. induction fuel as [|f IH]; intros st s Hc.
    - destruct (g (get st s)) eqn:Hg; [|apply H0; exact Hg].
      exfalso. destruct (Nat.lt_ge_cases s (nobjs st)) as [Hs|Hs].
      + pose proof (wsum_pos one g (objs st) s Hs Hg) as Hp. unfold one in Hp at 1.
        unfold cnt, wcnt in Hc. lia.
      + rewrite (get_oor st s Hs) in Hg. congruence.
    - rewrite W_S. destruct (g (get st s)) eqn:Hg; [|discriminate].
      destruct (Nat.lt_ge_cases s (nobjs st)) as [Hs|Hs].
      + apply (giter_not_oof (fun a => cnt g a <= f)).
        * intros a t a' _ Ha Ec. apply child_cnt in Ec. lia.
        * intros a t _ Ha. unfold child. apply bind_not_oof; [apply pre_not_oof|].
          intros a2 E1. apply IH.
          assert (cnt g a2 <= cnt g a); [|lia].
          apply cnt_mono; [apply fr_nobjs; apply (pre_fr _ _ _ E1) | eapply pre_mono; eauto].
        * pose proof (enter_wcnt one st s Hs Hg) as Hw. unfold one in Hw at 2.
          unfold cnt in *. lia.
      + rewrite (get_oor st s Hs) in Hg. congruence.
  Qed.

  (* ----- amortised cost ----- *)

  Definition pot (st st' : gstate) : Prop :=
    trace_calls st' + cnt g st' <= trace_calls st + cnt g st /\
    trace_edges st' + ecnt g st' <= trace_edges st + ecnt g st.

  Lemma pot_refl st : pot st st.
  Proof. split; lia. Qed.

  Lemma pot_trans a b c : pot a b -> pot b c -> pot a c.
  Proof. intros [A1 A2] [B1 B2]. split; lia. Qed.

  Lemma pre_pot a t a2 : pre a t = Ok a2 -> pot a a2.
  Proof.
    intros E. pose proof (pre_fr _ _ _ E) as [[F _] [T1 T2]]. pose proof (pre_mono _ _ _ E) as M.
    pose proof (cnt_mono g a a2 (proj1 F) M). pose proof (ecnt_mono g a a2 F M).
    split; lia.
  Qed.

  Lemma enter_pot st s : s < nobjs st -> g (get st s) = true -> pot st (enter_st enter st s).
  Proof.
    intros Hs Hg. split.
    - rewrite enter_tc. pose proof (enter_wcnt one st s Hs Hg) as Hw. unfold one in Hw at 2.
      unfold cnt. lia.
    - rewrite enter_te. pose proof (enter_wcnt elen st s Hs Hg) as Hw. unfold elen in Hw at 2.
      unfold ecnt. lia.
  Qed.

  Lemma W_pot : forall f st s st',
    edges_okP st -> s < nobjs st -> W f st s = Ok st' -> pot st st'.
  Proof.
    induction f as [|f IH]; intros st s st' Hok Hs E.
    - apply W_0 in E. subst st'. apply pot_refl.
    - rewrite W_S in E. destruct (g (get st s)) eqn:Hg.
      + assert (Hgoal : fr st st' /\ pot st st'); [|apply Hgoal].
        eapply (giter_inv (fun a => fr st a /\ pot st a)); [ | | exact E].
        * intros a t a' Hin [Hfa Hpa] Ec. split.
          { eapply fr_trans; [exact Hfa|]. eapply child_fr; eauto. }
          unfold child in Ec. apply bind_ok in Ec as (a2 & E1 & E2).
          pose proof (pre_pot _ _ _ E1) as P1.
          pose proof (pre_fr _ _ _ E1) as [F1 _].
          assert (Hfa2 : fr st a2) by (eapply fr_trans; eauto).
          assert (P2 : pot a2 a').
          { apply (IH a2 t a'); auto.
            - eapply fr_edges_okP; eauto.
            - rewrite (fr_nobjs _ _ Hfa2). eapply Hok; eauto. }
          eapply pot_trans; [exact Hpa|]. eapply pot_trans; eauto.
        * split; [apply enter_fr | apply enter_pot; auto].
      + injection E as <-. apply pot_refl.
  Qed.

  (* ----- the same for a list of starting points ----- *)

  Lemma Ws_fr fuel : forall ns st st', giter (W fuel) st ns = Ok st' -> fr st st'.
  Proof.
    intros ns st st' E. eapply (giter_inv (fun a => fr st a)); [ | | exact E].
    - intros a t a' _ Ha Ew. eapply fr_trans; [exact Ha|]. eapply W_fr; eauto.
    - apply fr_refl.
  Qed.

  Lemma Ws_mono_p p fuel :
    (forall o, p (enter o) = true -> p o = true) ->
    (forall st t st2, pre st t = Ok st2 -> mono p st st2) ->
    forall ns st st', giter (W fuel) st ns = Ok st' -> mono p st st'.
  Proof.
    intros Hp1 Hp2 ns st st' E. eapply (giter_inv (fun a => mono p st a)); [ | | exact E].
    - intros a t a' _ Ha Ew. eapply mono_trans; [exact Ha|]. eapply W_mono_p; eauto.
    - apply mono_refl.
  Qed.

  Lemma Ws_fuel fuel ns : forall st, cnt g st < fuel -> giter (W fuel) st ns <> OutOfFuel.
  Proof.
    intros st Hc. apply (giter_not_oof (fun a => cnt g a < fuel)); auto.
    - intros a t a' _ Ha Ew.
      assert (cnt g a' <= cnt g a); [|lia].
      apply cnt_mono; [apply fr_nobjs; eapply W_fr; eauto | eapply W_mono; eauto].
    - intros a t _ Ha. apply W_fuel; auto.
  Qed.

  Lemma Ws_pot fuel ns : forall st st',
    edges_okP st -> Forall (fun r => r < nobjs st) ns ->
    giter (W fuel) st ns = Ok st' -> pot st st'.
  Proof.
    intros st st' Hok Hns E.
    assert (Hgoal : fr st st' /\ pot st st'); [|apply Hgoal].
    eapply (giter_inv (fun a => fr st a /\ pot st a)); [ | | exact E].
    - intros a t a' Hin [Hfa Hpa] Ew. split.
      + eapply fr_trans; [exact Hfa|]. eapply W_fr; eauto.
      + eapply pot_trans; [exact Hpa|]. eapply W_pot; eauto.
        * eapply fr_edges_okP; eauto.
        * rewrite (fr_nobjs _ _ Hfa). rewrite Forall_forall in Hns. apply Hns; auto.
    - split; [apply fr_refl | apply pot_refl].
  Qed.

  (* a walk from a list of in-range starting points traces each object at most once *)
  Lemma Ws_cost fuel ns st st' :
    edges_okP st -> Forall (fun r => r < nobjs st) ns ->
    giter (W fuel) st ns = Ok st' ->
    trace_calls st' <= trace_calls st + nobjs st /\ trace_edges st' <= trace_edges st + nedges st.
  Proof.
    intros Hok Hns E. destruct (Ws_pot fuel ns st st' Hok Hns E) as [P1 P2].
    pose proof (cnt_le_nobjs g st). pose proof (ecnt_le_nedges g st). split; lia.
  Qed.
End GWalk.

(* ----- packaged form: one record of obligations per walk ----- *)

Record is_walk (g : gobj -> bool) (enter : gobj -> gobj) (pre : gstate -> nat -> res gstate)
       (W : nat -> gstate -> nat -> res gstate) : Prop := mk_is_walk {
  iw_S : forall f st s,
    W (S f) st s =
    if g (get st s) then giter (child pre W f) (enter_st enter st s) (edges (get st s)) else Ok st;
  iw_0 : forall st s st', W 0 st s = Ok st' -> st' = st;
  iw_off : forall o, g (enter o) = false;
  iw_edges : forall o, edges (enter o) = edges o;
  iw_freed : forall o, freed (enter o) = freed o;
  iw_pre_not_oof : forall st t, pre st t <> OutOfFuel;
  iw_pre_fr : forall st t st2, pre st t = Ok st2 -> fr st st2 /\ same_tr st st2;
  iw_pre_mono : forall st t st2, pre st t = Ok st2 -> mono g st st2
}.

Section Packaged.
  Variables (g : gobj -> bool) (enter : gobj -> gobj) (pre : gstate -> nat -> res gstate)
            (W : nat -> gstate -> nat -> res gstate).
  Hypothesis H : is_walk g enter pre W.

  Lemma walk_fr f st s st' : W f st s = Ok st' -> fr st st'.
  Proof. destruct H. eapply W_fr; eauto. Qed.

  Lemma walk_mono f st s st' : W f st s = Ok st' -> mono g st st'.
  Proof. destruct H. eapply W_mono; eauto. Qed.

  Lemma walk_mono_p p f st s st' :
    (forall o, p (enter o) = true -> p o = true) ->
    (forall st t st2, pre st t = Ok st2 -> mono p st st2) ->
    W f st s = Ok st' -> mono p st st'.
  Proof. destruct H. intros. eapply W_mono_p; eauto. Qed.

  Lemma walk_fuel fuel st s : cnt g st < fuel -> W fuel st s <> OutOfFuel.
  Proof. destruct H. eapply W_fuel; eauto. Qed.

  Lemma walk_fuel_le fuel st s :
    g dummy = false -> (forall st s, g (get st s) = false -> W 0 st s <> OutOfFuel) ->
    cnt g st <= fuel -> W fuel st s <> OutOfFuel.
  Proof. destruct H. intros. eapply W_fuel_le; eauto. Qed.

  Lemma walk_pot f st s st' :
    edges_okP st -> s < nobjs st -> W f st s = Ok st' -> pot g st st'.
  Proof. destruct H. eapply W_pot; eauto. Qed.

  Lemma walks_fr fuel ns st st' : giter (W fuel) st ns = Ok st' -> fr st st'.
  Proof. destruct H. eapply Ws_fr; eauto. Qed.

  Lemma walks_mono_p p fuel ns st st' :
    (forall o, p (enter o) = true -> p o = true) ->
    (forall st t st2, pre st t = Ok st2 -> mono p st st2) ->
    giter (W fuel) st ns = Ok st' -> mono p st st'.
  Proof. destruct H. intros. eapply Ws_mono_p; eauto. Qed.

  Lemma walks_fuel fuel ns st : cnt g st < fuel -> giter (W fuel) st ns <> OutOfFuel.
  Proof. destruct H. eapply Ws_fuel; eauto. Qed.

  Lemma walks_pot fuel ns st st' :
    edges_okP st -> Forall (fun r => r < nobjs st) ns ->
    giter (W fuel) st ns = Ok st' -> pot g st st'.
  Proof. destruct H. eapply Ws_pot; eauto. Qed.

  Lemma walks_cost fuel ns st st' :
    edges_okP st -> Forall (fun r => r < nobjs st) ns ->
    giter (W fuel) st ns = Ok st' ->
    trace_calls st' <= trace_calls st + nobjs st /\ trace_edges st' <= trace_edges st + nedges st.
  Proof. destruct H. eapply Ws_cost; eauto. Qed.

  Lemma walk_enter_fr st s : fr st (enter_st enter st s).
  Proof. destruct H. apply enter_fr; auto. Qed.

  Lemma walk_enter_wcnt w st s :
    s < nobjs st -> g (get st s) = true ->
    wcnt w g (enter_st enter st s) + w (get st s) = wcnt w g st.
  Proof. destruct H. apply enter_wcnt; auto. Qed.

  Lemma walk_enter_pot st s : s < nobjs st -> g (get st s) = true -> pot g st (enter_st enter st s).
  Proof. destruct H. apply enter_pot; auto. Qed.

  Lemma walk_enter_mono st s : mono g st (enter_st enter st s).
  Proof. destruct H. apply enter_mono; auto. Qed.
End Packaged.
