(* Property C16: every cycle collection terminates and its work is linear in nodes + edges,
   independent of the number of distinct paths.  All statements are about the executable model
   Model/Gc.v; helper developments are GcCost_Base.v, GcCost_Walk.v, GcCost_Inst.v. *)
From Coq Require Import List Arith Bool Lia.
Import ListNotations.
From Sodium Require Import Gc GcCost_Base GcCost_Walk GcCost_Inst.

(* ====================================================================================== *)
(* 1. Fuel sufficiency of each recursive walk                                               *)
(* ====================================================================================== *)

Lemma cnt_lt_wfuel p st : cnt p st < wfuel st.
Proof. pose proof (cnt_le_nobjs p st). unfold wfuel. lia. Qed.

Theorem reset1_fuel st s : reset1 (wfuel st) st s <> OutOfFuel.
Proof. apply (walk_fuel _ _ _ _ reset1_walk). apply cnt_lt_wfuel. Qed.

Theorem reset2_fuel st s : reset2 (wfuel st) st s <> OutOfFuel.
Proof. apply (walk_fuel _ _ _ _ reset2_walk). apply cnt_lt_wfuel. Qed.

Theorem mark_gray_fuel st s : mark_gray (wfuel st) st s <> OutOfFuel.
Proof. apply (walk_fuel _ _ _ _ mark_gray_walk). apply cnt_lt_wfuel. Qed.

Theorem scan_black_fuel st s : scan_black (wfuel st) st s <> OutOfFuel.
Proof. apply scan_black_fuel_gen. apply cnt_lt_wfuel. Qed.

Theorem scan_fuel st s : scan (wfuel st) st s <> OutOfFuel.
Proof.
  apply scan_fuel_gen. pose proof (cnt_le_nobjs g_gray st). unfold wfuel. lia.
Qed.

Theorem collect_white_fuel st w s : collect_white (wfuel st) (st, w) s <> OutOfFuel.
Proof.
  apply collect_white_oof. apply (walk_fuel _ _ _ _ cw_walk). apply cnt_lt_wfuel.
Qed.

(* the generalised statements: fuel above the number of in-range objects whose guard still holds *)
Theorem reset1_fuel_gen fuel st s : cnt g_r1 st < fuel -> reset1 fuel st s <> OutOfFuel.
Proof. apply (walk_fuel _ _ _ _ reset1_walk). Qed.
Theorem reset2_fuel_gen fuel st s : cnt g_r2 st < fuel -> reset2 fuel st s <> OutOfFuel.
Proof. apply (walk_fuel _ _ _ _ reset2_walk). Qed.
Theorem mark_gray_fuel_gen fuel st s : cnt g_mg st < fuel -> mark_gray fuel st s <> OutOfFuel.
Proof. apply (walk_fuel _ _ _ _ mark_gray_walk). Qed.
Theorem collect_white_fuel_gen fuel st w s :
  cnt g_cw st < fuel -> collect_white fuel (st, w) s <> OutOfFuel.
Proof. intros H. apply collect_white_oof. apply (walk_fuel _ _ _ _ cw_walk). exact H. Qed.
(* scan_black_fuel_gen : cnt g_sb st < fuel -> scan_black fuel st s <> OutOfFuel        (GcCost_Inst)
   scan_fuel_gen       : cnt g_gray st + nobjs st < fuel -> scan fuel st s <> OutOfFuel (GcCost_Inst) *)

(* the iterated versions used by mark_roots / scan_roots *)
Theorem reset1_iter_fuel st rs : iter (reset1 (wfuel st)) st rs <> OutOfFuel.
Proof. rewrite iter_giter. apply (walks_fuel _ _ _ _ reset1_walk). apply cnt_lt_wfuel. Qed.

Theorem reset2_iter_fuel st rs : iter (reset2 (wfuel st)) st rs <> OutOfFuel.
Proof. rewrite iter_giter. apply (walks_fuel _ _ _ _ reset2_walk). apply cnt_lt_wfuel. Qed.

Theorem scan_iter_fuel st rs : iter (scan (wfuel st)) st rs <> OutOfFuel.
Proof.
  rewrite iter_giter. apply scans_fuel. pose proof (cnt_le_nobjs g_gray st). unfold wfuel. lia.
Qed.

(* ====================================================================================== *)
(* 2. display_graph                                                                         *)
(* ====================================================================================== *)

Theorem display_graph_fuel st stack k :
  length stack <= k -> display_graph (dfuel st k) st stack [] <> OutOfFuel.
Proof. apply display_fuel. Qed.

(* general form, over any [seen]: display_fuel_gen (GcCost_Inst):
   length stack + usum (wD st) (nobjs st) seen < fuel -> display_graph fuel st stack seen <> OutOfFuel *)

(* ====================================================================================== *)
(* The three phases                                                                         *)
(* ====================================================================================== *)

Definition cost_le (k : nat) (st st' : gstate) : Prop :=
  trace_calls st' <= trace_calls st + k * nobjs st /\
  trace_edges st' <= trace_edges st + k * nedges st.

Lemma cost_le_comp k1 k2 a b c :
  nobjs b = nobjs a -> nedges b <= nedges a ->
  cost_le k1 a b -> cost_le k2 b c -> cost_le (k1 + k2) a c.
Proof.
  intros Hn He [A1 A2] [B1 B2]. rewrite Hn in B1.
  assert (k2 * nedges b <= k2 * nedges a) by (apply Nat.mul_le_mono_l; exact He).
  split; lia.
Qed.

(* ---------- mark_roots ---------- *)

Fixpoint mr_loop (st : gstate) (new_roots : list nat) (rs : list nat) : res (gstate * list nat) :=
  match rs with
  | [] => Ok (st, new_roots)
  | root :: t =>
    let o := get st root in
    if color_eqb (col o) Purple then
      do st1 <- mark_gray (wfuel st) st root;
      mr_loop st1 (new_roots ++ [root]) t
    else
      let st1 := set st root (set_buffered o false) in
      let st2 :=
        if color_eqb (col o) Black && Nat.eqb (rc o) 0 && negb (freed o)
        then with_tbf st1 (to_be_freed st1 ++ [root]) else st1 in
      mr_loop st2 new_roots t
  end.

Lemma mark_roots_eq st :
  mark_roots st =
  do stA <- display_graph (dfuel (with_roots st []) (length (roots st))) (with_roots st [])
                          (rev (roots st)) [];
  do stB <- iter (reset1 (wfuel stA)) stA (roots st);
  do stC <- iter (reset2 (wfuel stB)) stB (roots st);
  do r <- mr_loop stC [] (roots st);
  Ok (with_roots (fst r) (snd r)).
Proof. reflexivity. Qed.

Lemma mr_loop_not_oof : forall rs st nr, mr_loop st nr rs <> OutOfFuel.
Proof.
  induction rs as [|root t IH]; intros st nr; cbn [mr_loop]; [discriminate|].
  destruct (color_eqb (col (get st root)) Purple).
  - apply bind_not_oof; [apply mark_gray_fuel|]. intros st1 _. apply IH.
  - apply IH.
Qed.

Theorem mark_roots_not_oof st : mark_roots st <> OutOfFuel.
Proof.
  rewrite mark_roots_eq.
  apply bind_not_oof; [apply display_fuel; rewrite rev_length; lia|]. intros stA _.
  apply bind_not_oof; [apply reset1_iter_fuel|]. intros stB _.
  apply bind_not_oof; [apply reset2_iter_fuel|]. intros stC _.
  apply bind_not_oof; [apply mr_loop_not_oof|]. intros r _. discriminate.
Qed.

(* the non-Purple branch of the mark_roots loop *)
Definition mr_skip (st : gstate) (root : nat) : gstate :=
  let o := get st root in
  let st1 := set st root (set_buffered o false) in
  if color_eqb (col o) Black && Nat.eqb (rc o) 0 && negb (freed o)
  then with_tbf st1 (to_be_freed st1 ++ [root]) else st1.

Lemma mr_skip_spec st root :
  frame st (mr_skip st root) /\ roots (mr_skip st root) = roots st /\
  same_tr st (mr_skip st root) /\ mono g_mg st (mr_skip st root).
Proof.
  unfold mr_skip.
  assert (F : frame st (set st root (set_buffered (get st root) false)))
    by (apply frame_set; reflexivity).
  assert (M : mono g_mg st (set st root (set_buffered (get st root) false)))
    by (apply mono_set; auto).
  destruct (color_eqb (col (get st root)) Black && Nat.eqb (rc (get st root)) 0
            && negb (freed (get st root)))%bool.
  - split; [exact F|split; [reflexivity|split; [split; reflexivity|exact M]]].
  - split; [exact F|split; [reflexivity|split; [split; reflexivity|exact M]]].
Qed.

Lemma mr_loop_spec : forall rs st nr st' nr',
  mr_loop st nr rs = Ok (st', nr') ->
  frame st st' /\ roots st' = roots st /\
  (forall P : nat -> Prop, Forall P nr -> Forall P rs -> Forall P nr') /\
  (edges_okP st -> Forall (fun r => r < nobjs st) rs -> pot g_mg st st').
Proof.
  induction rs as [|root t IH]; intros st nr st' nr' E; cbn [mr_loop] in E.
  - injection E as <- <-. split; [apply frame_refl|split; [reflexivity|split; [auto|]]].
    intros _ _. apply pot_refl.
  - destruct (color_eqb (col (get st root)) Purple).
    + apply bind_ok in E as (st1 & E1 & E2).
      pose proof (walk_fr _ _ _ _ mark_gray_walk _ _ _ _ E1) as (F1 & R1 & _).
      apply IH in E2 as (F2 & R2 & N2 & P2).
      split; [eapply frame_trans; eauto|split; [congruence|split]].
      * intros P Hnr Hrs. inversion Hrs as [|x l Hx Hl]; subst x l.
        apply N2; auto. apply Forall_app. split; auto.
      * intros Hok Hrs. inversion Hrs as [|x l Hx Hl]; subst x l.
        eapply pot_trans; [eapply (walk_pot _ _ _ _ mark_gray_walk); eauto|].
        apply P2.
        -- eapply frame_edges_okP; eauto.
        -- rewrite (proj1 F1). exact Hl.
    + change (mr_loop (mr_skip st root) nr t = Ok (st', nr')) in E.
      destruct (mr_skip_spec st root) as (F1 & R1 & [T1 T1'] & M1).
      apply IH in E as (F2 & R2 & N2 & P2).
      split; [eapply frame_trans; eauto|split; [congruence|split]].
      * intros P Hnr Hrs. inversion Hrs as [|x l Hx Hl]; subst x l. apply N2; auto.
      * intros Hok Hrs. inversion Hrs as [|x l Hx Hl]; subst x l.
        assert (P1 : pot g_mg st (mr_skip st root)).
        { pose proof (cnt_mono g_mg _ _ (proj1 F1) M1). pose proof (ecnt_mono g_mg _ _ F1 M1).
          split; lia. }
        eapply pot_trans; [exact P1|]. apply P2.
        -- eapply frame_edges_okP; eauto.
        -- rewrite (proj1 F1). exact Hl.
Qed.

Lemma frame_cost_facts st a :
  frame st a -> nobjs a = nobjs st /\ nedges a = nedges st /\ (edges_okP st -> edges_okP a).
Proof.
  intros F. split; [apply F|split; [apply frame_nedges; exact F|apply frame_edges_okP; exact F]].
Qed.

Lemma mark_roots_spec st st1 :
  mark_roots st = Ok st1 ->
  frame st st1 /\
  (forall P : nat -> Prop, Forall P (roots st) -> Forall P (roots st1)) /\
  (edges_okP st -> roots_ok st -> cost_le 4 st st1).
Proof.
  rewrite mark_roots_eq. intros E.
  apply bind_ok in E as (stA & EA & E). apply bind_ok in E as (stB & EB & E).
  apply bind_ok in E as (stC & EC & E). apply bind_ok in E as ([stD nr] & ED & E).
  injection E as <-. cbn [fst snd].
  rewrite iter_giter in EB, EC.
  pose proof (display_fr _ _ _ _ _ EA) as (FA & _ & _).
  change (frame st stA) in FA.
  pose proof (walks_fr _ _ _ _ reset1_walk _ _ _ _ EB) as (FB & _ & _).
  pose proof (walks_fr _ _ _ _ reset2_walk _ _ _ _ EC) as (FC & _ & _).
  pose proof (mr_loop_spec _ _ _ _ _ ED) as (FD & _ & ND & PD).
  assert (FsB : frame st stB) by (eapply frame_trans; eauto).
  assert (FsC : frame st stC) by (eapply frame_trans; eauto).
  assert (FsD : frame st stD) by (eapply frame_trans; eauto).
  split; [exact FsD|split].
  - intros P HP. cbn [roots with_roots]. apply ND; auto.
  - intros Hok Hr. unfold roots_ok in Hr.
    destruct (frame_cost_facts _ _ FA) as (NA & EdA & OkA).
    destruct (frame_cost_facts _ _ FsB) as (NB & EdB & OkB).
    destruct (frame_cost_facts _ _ FsC) as (NC & EdC & OkC).
    assert (CA : trace_calls stA <= trace_calls st + nobjs st /\
                 trace_edges stA <= trace_edges st + nedges st).
    { eapply (display_cost _ (with_roots st []) (rev (roots st)) stA); [exact Hok| |exact EA].
      apply Forall_rev. exact Hr. }
    assert (CB : trace_calls stB <= trace_calls stA + nobjs stA /\
                 trace_edges stB <= trace_edges stA + nedges stA).
    { eapply (walks_cost _ _ _ _ reset1_walk); [exact (OkA Hok)| |exact EB]. rewrite NA. exact Hr. }
    assert (CC : trace_calls stC <= trace_calls stB + nobjs stB /\
                 trace_edges stC <= trace_edges stB + nedges stB).
    { eapply (walks_cost _ _ _ _ reset2_walk); [exact (OkB Hok)| |exact EC]. rewrite NB. exact Hr. }
    assert (CD : pot g_mg stC stD).
    { apply PD; [exact (OkC Hok)|]. rewrite NC. exact Hr. }
    destruct CD as [D1 D2].
    pose proof (cnt_le_nobjs g_mg stC). pose proof (ecnt_le_nedges g_mg stC).
    unfold cost_le. cbn [trace_calls trace_edges with_roots].
    split; lia.
Qed.

(* ---------- scan_roots ---------- *)

Lemma scan_roots_eq st :
  scan_roots st =
  do stA <- iter (scan (wfuel (with_roots st []))) (with_roots st []) (roots st);
  do stB <- iter (reset1 (wfuel stA)) stA (roots st);
  do stC <- iter (reset2 (wfuel stB)) stB (roots st);
  Ok (with_roots stC (roots st)).
Proof. reflexivity. Qed.

Theorem scan_roots_not_oof st : scan_roots st <> OutOfFuel.
Proof.
  rewrite scan_roots_eq.
  apply bind_not_oof; [apply scan_iter_fuel|]. intros stA _.
  apply bind_not_oof; [apply reset1_iter_fuel|]. intros stB _.
  apply bind_not_oof; [apply reset2_iter_fuel|]. intros stC _. discriminate.
Qed.

Lemma scan_roots_spec st st1 :
  scan_roots st = Ok st1 ->
  frame st st1 /\ roots st1 = roots st /\
  (edges_okP st -> roots_ok st -> cost_le 4 st st1).
Proof.
  rewrite scan_roots_eq. intros E.
  apply bind_ok in E as (stA & EA & E). apply bind_ok in E as (stB & EB & E).
  apply bind_ok in E as (stC & EC & E). injection E as <-.
  rewrite iter_giter in EA, EB, EC.
  pose proof (scans_inv2 _ _ _ _ EA) as ((FA & _ & _) & _ & _).
  change (frame st stA) in FA.
  pose proof (walks_fr _ _ _ _ reset1_walk _ _ _ _ EB) as (FB & _ & _).
  pose proof (walks_fr _ _ _ _ reset2_walk _ _ _ _ EC) as (FC & _ & _).
  assert (FsB : frame st stB) by (eapply frame_trans; eauto).
  assert (FsC : frame st stC) by (eapply frame_trans; eauto).
  split; [exact FsC|split; [reflexivity|]].
  intros Hok Hr. unfold roots_ok in Hr.
  destruct (frame_cost_facts _ _ FA) as (NA & EdA & OkA).
  destruct (frame_cost_facts _ _ FsB) as (NB & EdB & OkB).
  assert (CA : trace_calls stA <= trace_calls st + 2 * nobjs st /\
               trace_edges stA <= trace_edges st + 2 * nedges st).
  { eapply (scans_cost _ _ (with_roots st [])); [exact Hok|exact Hr|exact EA]. }
  assert (CB : trace_calls stB <= trace_calls stA + nobjs stA /\
               trace_edges stB <= trace_edges stA + nedges stA).
  { eapply (walks_cost _ _ _ _ reset1_walk); [exact (OkA Hok)| |exact EB]. rewrite NA. exact Hr. }
  assert (CC : trace_calls stC <= trace_calls stB + nobjs stB /\
               trace_edges stC <= trace_edges stB + nedges stB).
  { eapply (walks_cost _ _ _ _ reset2_walk); [exact (OkB Hok)| |exact EC]. rewrite NB. exact Hr. }
  unfold cost_le. cbn [trace_calls trace_edges with_roots]. split; lia.
Qed.

(* ---------- the mutator-side operations used by free ---------- *)

Definition unfreed (st : gstate) : nat := cnt (fun o => negb (freed o)) st.
Definition nfreed (st : gstate) : nat := cnt freed st.

Lemma nfreed_unfreed st : nfreed st + unfreed st = nobjs st.
Proof.
  unfold nfreed, unfreed, cnt, wcnt, nobjs. rewrite wsum_split. apply wsum_one_true.
Qed.

Lemma roots_ok_set st n o : roots_ok st -> roots_ok (set st n o).
Proof. unfold roots_ok. rewrite nobjs_set. auto. Qed.

Lemma rc_in_range st n : Nat.eqb (rc (get st n)) 0 = false -> n < nobjs st.
Proof.
  intros H. destruct (Nat.lt_ge_cases n (nobjs st)) as [Hlt|Hge]; auto.
  rewrite (get_oor st n Hge) in H. discriminate H.
Qed.

Lemma possible_root_spec st n :
  frame st (possible_root st n) /\ same_tr st (possible_root st n) /\
  to_be_freed (possible_root st n) = to_be_freed st /\
  (n < nobjs st -> roots_ok st -> roots_ok (possible_root st n)).
Proof.
  unfold possible_root.
  destruct (color_eqb (col (get st n)) Purple).
  { split; [apply frame_refl|split; [split; reflexivity|split; [reflexivity|auto]]]. }
  cbn [buffered set_col].
  destruct (buffered (get st n)).
  - split; [apply frame_set; reflexivity|split; [split; reflexivity|split; [reflexivity|]]].
    intros _. apply roots_ok_set.
  - split; [|split; [split; reflexivity|split; [reflexivity|]]].
    + apply (frame_set st n (set_buffered (set_col (get st n) Purple) true)); reflexivity.
    + intros Hn Hr. unfold roots_ok in *. cbn [roots with_roots].
      change (nobjs (with_roots (set st n (set_buffered (set_col (get st n) Purple) true))
                                (roots st ++ [n])))
        with (nobjs (set st n (set_buffered (set_col (get st n) Purple) true))).
      rewrite nobjs_set. apply Forall_app. split; auto.
Qed.

Lemma dec_ref_spec st n :
  frame st (dec_ref st n) /\ same_tr st (dec_ref st n) /\
  to_be_freed (dec_ref st n) = to_be_freed st /\
  (roots_ok st -> roots_ok (dec_ref st n)).
Proof.
  unfold dec_ref. destruct (Nat.eqb (rc (get st n)) 0) eqn:Hrc.
  { split; [apply frame_refl|split; [split; reflexivity|split; [reflexivity|auto]]]. }
  pose proof (rc_in_range st n Hrc) as Hn.
  set (st1 := set st n (set_rc (get st n) (pred (rc (get st n))))).
  assert (F1 : frame st st1) by (apply frame_set; reflexivity).
  destruct (possible_root_spec st1 n) as (F2 & [T2 T2'] & B2 & R2).
  split; [eapply frame_trans; eauto|split; [split; [exact T2|exact T2']|split; [exact B2|]]].
  intros Hr. apply R2.
  - unfold st1. rewrite nobjs_set. exact Hn.
  - apply roots_ok_set. exact Hr.
Qed.

Lemma dec_refs_spec : forall ns st,
  frame st (dec_refs st ns) /\ same_tr st (dec_refs st ns) /\
  to_be_freed (dec_refs st ns) = to_be_freed st /\
  (roots_ok st -> roots_ok (dec_refs st ns)).
Proof.
  induction ns as [|n t IH]; intros st; cbn [dec_refs].
  { split; [apply frame_refl|split; [split; reflexivity|split; [reflexivity|auto]]]. }
  destruct (dec_ref_spec st n) as (F1 & [T1 T1'] & B1 & R1).
  destruct (IH (dec_ref st n)) as (F2 & [T2 T2'] & B2 & R2).
  split; [eapply frame_trans; eauto|split; [split; congruence|split; [congruence|auto]]].
Qed.

(* what the freeing half of collect_roots preserves: objects are only ever freed, edge lists only shrink *)
Definition ffr (st st' : gstate) : Prop :=
  nobjs st' = nobjs st /\
  forall i, (freed (get st i) = true -> freed (get st' i) = true) /\
            incl (edges (get st' i)) (edges (get st i)) /\
            length (edges (get st' i)) <= length (edges (get st i)).

Lemma ffr_refl st : ffr st st.
Proof.
  split; [reflexivity|]. intros i.
  split; [auto|split; [apply incl_refl|lia]].
Qed.

Lemma same_tr_refl st : same_tr st st.
Proof. split; reflexivity. Qed.

Lemma same_tr_trans a b c : same_tr a b -> same_tr b c -> same_tr a c.
Proof. intros [A1 A2] [B1 B2]. split; congruence. Qed.

Lemma ffr_trans a b c : ffr a b -> ffr b c -> ffr a c.
Proof.
  intros (N1 & P1) (N2 & P2).
  split; [congruence|]. intros i.
  destruct (P1 i) as (A1 & A2 & A3). destruct (P2 i) as (B1 & B2 & B3).
  split; [auto|split; [eapply incl_tran; eauto|lia]].
Qed.

Lemma frame_ffr a b : frame a b -> ffr a b.
Proof.
  intros [N P]. split; [exact N|]. intros i. destruct (P i) as [E F].
  rewrite E, F. split; [auto|split; [apply incl_refl|lia]].
Qed.

Lemma ffr_edges_okP a b : ffr a b -> edges_okP a -> edges_okP b.
Proof.
  intros (N & P) H i t Hin. rewrite N. destruct (P i) as (_ & I & _). eapply H. apply I. exact Hin.
Qed.

Lemma wsum_mono_le w p l : forall l',
  length l' = length l ->
  (forall i, p (nth i l' dummy) = true ->
             p (nth i l dummy) = true /\ w (nth i l' dummy) <= w (nth i l dummy)) ->
  wsum w p l' <= wsum w p l.
Proof.
  unfold wsum. induction l as [|x t IH]; intros [|x' t'] Hlen Hpt; simpl in *; try discriminate; auto.
  assert (Hrest : list_sum (map (fun o => if p o then w o else 0) t')
                  <= list_sum (map (fun o => if p o then w o else 0) t)).
  { apply IH; [lia|]. intros i. exact (Hpt (S i)). }
  pose proof (Hpt 0) as H0. simpl in H0.
  destruct (p x') eqn:Hp'.
  - destruct (H0 eq_refl) as [Hp Hw]. rewrite Hp. lia.
  - lia.
Qed.

Lemma ffr_nedges a b : ffr a b -> nedges b <= nedges a.
Proof.
  intros (N & P). rewrite !nedges_wcnt. unfold wcnt. apply wsum_mono_le; auto.
  intros i _. split; [reflexivity|]. unfold elen. apply (P i).
Qed.

Lemma ffr_unfreed a b : ffr a b -> unfreed b <= unfreed a.
Proof.
  intros (N & P). unfold unfreed. apply cnt_mono; auto.
  intros i H. destruct (P i) as (Fm & _ & _).
  destruct (freed (get a i)); auto. rewrite Fm in H; auto.
Qed.

Lemma freed_in_range st n : freed (get st n) = false -> n < nobjs st.
Proof.
  intros H. destruct (Nat.lt_ge_cases n (nobjs st)) as [Hlt|Hge]; auto.
  rewrite (get_oor st n Hge) in H. discriminate H.
Qed.

Lemma free_spec st n :
  freed (get st n) = false ->
  ffr st (free st n) /\ same_tr st (free st n) /\ to_be_freed (free st n) = to_be_freed st /\
  unfreed (free st n) < unfreed st /\
  (roots_ok st -> roots_ok (free st n)).
Proof.
  intros Hf. pose proof (freed_in_range st n Hf) as Hn. unfold free.
  set (o1 := mkObj true (rc (get st n)) (adj (get st n)) (visited (get st n)) (col (get st n))
                   (buffered (get st n)) [] (S (dtor_runs (get st n)))).
  set (st1 := set st n o1).
  assert (F1 : ffr st st1).
  { split; [apply nobjs_set|]. intros i. unfold st1. rewrite get_set.
    destruct (Nat.eqb i n && Nat.ltb n (nobjs st))%bool.
    - cbn [freed edges o1 length]. split; [auto|split; [apply incl_nil_l|lia]].
    - split; [auto|split; [apply incl_refl|lia]]. }
  assert (U1 : unfreed st1 + 1 = unfreed st).
  { unfold unfreed, cnt, st1.
    pose proof (wcnt_set_off one (fun o => negb (freed o)) st n o1 Hn) as H.
    cbv beta in H. rewrite Hf in H. unfold one in H at 2. apply H; reflexivity. }
  destruct (dec_refs_spec (edges (get st n)) st1) as (F2 & T2 & B2 & R2).
  pose proof (frame_ffr _ _ F2) as F2'.
  split; [eapply ffr_trans; eauto|split; [exact T2|split; [exact B2|split]]].
  - pose proof (ffr_unfreed _ _ F2'). lia.
  - intros Hr. apply R2. apply roots_ok_set. exact Hr.
Qed.

Lemma Forall_filter {A} (P : A -> Prop) f l : Forall P l -> Forall P (filter f l).
Proof.
  induction 1 as [|x l Hx Hl IH]; simpl; auto. destruct (f x); auto.
Qed.

Lemma free_list_spec : forall ns st,
  ffr st (free_list st ns) /\ same_tr st (free_list st ns) /\
  to_be_freed (free_list st ns) = to_be_freed st /\
  (free_list st ns = st \/ unfreed (free_list st ns) < unfreed st) /\
  (roots_ok st -> roots_ok (free_list st ns)).
Proof.
  induction ns as [|i t IH]; intros st; cbn [free_list].
  { split; [apply ffr_refl|split; [apply same_tr_refl|split; [reflexivity|split; [left; reflexivity|auto]]]]. }
  destruct (freed (get st i)) eqn:Hf; [apply IH|].
  destruct (free_spec st i Hf) as (F1 & T1 & B1 & U1 & R1).
  set (st1 := remove_root (free st i) i).
  assert (F1' : ffr st st1) by exact F1.
  assert (T1' : same_tr st st1) by exact T1.
  assert (U1' : unfreed st1 < unfreed st) by exact U1.
  destruct (IH st1) as (F2 & T2 & B2 & U2 & R2).
  split; [eapply ffr_trans; eauto|split; [eapply same_tr_trans; eauto|split; [rewrite B2; exact B1|split]]].
  - right. destruct U2 as [-> | U2]; lia.
  - intros Hr. apply R2. unfold st1, remove_root, roots_ok. cbn [roots with_roots].
    apply Forall_filter. apply R1. exact Hr.
Qed.

(* ---------- collect_roots ---------- *)

Fixpoint cr_loop (acc : gstate * list nat) (rs : list nat) : res (gstate * list nat) :=
  match rs with
  | [] => Ok acc
  | root :: t =>
    let '(st, white) := acc in
    let st1 := set st root (set_buffered (get st root) false) in
    do acc1 <- collect_white (wfuel st1) (st1, white) root;
    cr_loop acc1 t
  end.

Definition cr_free (stW : gstate) (white : list nat) : gstate :=
  let st := free_list stW white in
  free_list (with_tbf st []) (to_be_freed st).

Definition cr_finish (stW : gstate) (white : list nat) : res gstate :=
  let st := free_list stW white in
  let tbf := to_be_freed st in
  let st := with_tbf st [] in
  let st := free_list st tbf in
  do st <- check_zero st white;
  check_zero st tbf.

Lemma collect_roots_eq st :
  collect_roots st =
  match cr_loop (with_roots st [], []) (roots st) with
  | Ok (stW, white) => cr_finish stW white
  | Panic e => Panic e
  | OutOfFuel => OutOfFuel
  end.
Proof. reflexivity. Qed.

Lemma check_zero_same : forall ns st st', check_zero st ns = Ok st' -> st' = st.
Proof.
  induction ns as [|i t IH]; intros st st' E; cbn [check_zero] in E.
  - injection E as <-. reflexivity.
  - destruct (Nat.eqb (rc (get st i)) 0); [apply IH; exact E|discriminate].
Qed.

Lemma check_zero_not_oof : forall ns st, check_zero st ns <> OutOfFuel.
Proof.
  induction ns as [|i t IH]; intros st; cbn [check_zero]; [discriminate|].
  destruct (Nat.eqb (rc (get st i)) 0); [apply IH|discriminate].
Qed.

Lemma cr_finish_ok stW white st3 : cr_finish stW white = Ok st3 -> st3 = cr_free stW white.
Proof.
  unfold cr_finish, cr_free. intros E. apply bind_ok in E as (st4 & E1 & E2).
  apply check_zero_same in E1. apply check_zero_same in E2. congruence.
Qed.

Lemma cr_loop_not_oof : forall rs acc, cr_loop acc rs <> OutOfFuel.
Proof.
  induction rs as [|root t IH]; intros [st w]; cbn [cr_loop]; [discriminate|].
  apply bind_not_oof; [|intros acc1 _; apply IH].
  apply collect_white_fuel.
Qed.

Theorem collect_roots_not_oof st : collect_roots st <> OutOfFuel.
Proof.
  rewrite collect_roots_eq.
  pose proof (cr_loop_not_oof (roots st) (with_roots st [], [])) as H.
  destruct (cr_loop (with_roots st [], []) (roots st)) as [[stW white]|e|]; [|discriminate|congruence].
  unfold cr_finish. apply bind_not_oof; [apply check_zero_not_oof|].
  intros st4 _. apply check_zero_not_oof.
Qed.

Lemma cr_loop_spec : forall rs st w st' w',
  cr_loop (st, w) rs = Ok (st', w') ->
  fr st st' /\
  (edges_okP st -> Forall (fun r => r < nobjs st) rs -> pot g_cw st st').
Proof.
  induction rs as [|root t IH]; intros st w st' w' E; cbn [cr_loop] in E.
  - injection E as <- <-. split; [apply fr_refl|]. intros _ _. apply pot_refl.
  - apply bind_ok in E as ([st2 w2] & E1 & E2).
    set (st1 := set st root (set_buffered (get st root) false)) in *.
    assert (F1 : fr st st1) by (apply fr_set; reflexivity).
    assert (M1 : mono g_cw st st1) by (apply mono_set; auto).
    apply collect_white_ok in E1.
    pose proof (walk_fr _ _ _ _ cw_walk _ _ _ _ E1) as F2.
    apply IH in E2 as (F3 & P3).
    assert (F12 : fr st st2) by (eapply fr_trans; eauto).
    split; [eapply fr_trans; eauto|].
    intros Hok Hrs. inversion Hrs as [|x l Hx Hl]; subst x l.
    assert (P1 : pot g_cw st st1).
    { pose proof (cnt_mono g_cw _ _ (fr_nobjs _ _ F1) M1).
      pose proof (ecnt_mono g_cw _ _ (proj1 F1) M1).
      assert (trace_calls st1 = trace_calls st) by reflexivity.
      assert (trace_edges st1 = trace_edges st) by reflexivity.
      split; lia. }
    assert (P2 : pot g_cw st1 st2).
    { eapply (walk_pot _ _ _ _ cw_walk); [| |exact E1].
      - eapply fr_edges_okP; eauto.
      - rewrite (fr_nobjs _ _ F1). exact Hx. }
    eapply pot_trans; [exact P1|]. eapply pot_trans; [exact P2|].
    apply P3.
    + eapply fr_edges_okP; eauto.
    + rewrite (fr_nobjs _ _ F12). exact Hl.
Qed.

Lemma cr_free_spec stW white :
  roots stW = [] ->
  ffr stW (cr_free stW white) /\ same_tr stW (cr_free stW white) /\
  to_be_freed (cr_free stW white) = [] /\
  (roots (cr_free stW white) <> [] -> unfreed (cr_free stW white) < unfreed stW) /\
  (roots_ok (cr_free stW white)).
Proof.
  intros Hr0. unfold cr_free.
  destruct (free_list_spec white stW) as (F1 & T1 & B1 & U1 & R1).
  set (stF := free_list stW white) in *.
  destruct (free_list_spec (to_be_freed stF) (with_tbf stF [])) as (F2 & T2 & B2 & U2 & R2).
  set (st3 := free_list (with_tbf stF []) (to_be_freed stF)) in *.
  assert (F2' : ffr stF st3) by exact F2.
  assert (T2' : same_tr stF st3) by exact T2.
  assert (F13 : ffr stW st3) by (eapply ffr_trans; eauto).
  split; [exact F13|split; [eapply same_tr_trans; eauto|split; [exact B2|split]]].
  - intros Hne.
    pose proof (ffr_unfreed _ _ F1). pose proof (ffr_unfreed _ _ F2').
    destruct U1 as [E1|U1]; [|lia].
    destruct U2 as [E2|U2]; [|change (unfreed (with_tbf stF [])) with (unfreed stF) in U2; lia].
    exfalso. apply Hne. rewrite E2. cbn [roots with_tbf]. rewrite E1. exact Hr0.
  - apply R2. apply (R1 : roots_ok stW -> roots_ok (with_tbf stF [])).
    unfold roots_ok. rewrite Hr0. constructor.
Qed.

Lemma collect_roots_spec st st3 :
  collect_roots st = Ok st3 ->
  ffr st st3 /\ to_be_freed st3 = [] /\
  (roots st3 <> [] -> unfreed st3 < unfreed st) /\
  roots_ok st3 /\
  (edges_okP st -> roots_ok st -> cost_le 1 st st3).
Proof.
  rewrite collect_roots_eq.
  destruct (cr_loop (with_roots st [], []) (roots st)) as [[stW white]|e|] eqn:EL; try discriminate.
  intros E. apply cr_finish_ok in E. subst st3.
  apply cr_loop_spec in EL as ((FW & RW & _) & PW).
  cbn [roots with_roots] in RW.
  change (frame st stW) in FW.
  destruct (cr_free_spec stW white RW) as (F3 & TW & B3 & U3 & R3).
  assert (UW : unfreed stW <= unfreed st).
  { apply ffr_unfreed. apply frame_ffr. exact FW. }
  split; [|split; [exact B3|split; [|split; [exact R3|]]]].
  - eapply ffr_trans; [apply frame_ffr; exact FW|exact F3].
  - intros Hne. specialize (U3 Hne). lia.
  - intros Hok Hr. unfold roots_ok in Hr.
    destruct (PW Hok Hr) as [P1 P2]. destruct TW as [T1 T2].
    pose proof (cnt_le_nobjs g_cw st). pose proof (ecnt_le_nedges g_cw st).
    unfold cost_le. cbn [trace_calls trace_edges with_roots] in *.
    change (cnt g_cw (with_roots st [])) with (cnt g_cw st) in P1.
    change (ecnt g_cw (with_roots st [])) with (ecnt g_cw st) in P2.
    split; lia.
Qed.

(* ====================================================================================== *)
(* One iteration of the collection loop                                                     *)
(* ====================================================================================== *)

Lemma wf_P st : wf st <-> edges_okP st /\ roots_ok st.
Proof. unfold wf. rewrite edges_ok_P. reflexivity. Qed.

Lemma iteration_spec st st1 st2 st3 :
  mark_roots st = Ok st1 -> scan_roots st1 = Ok st2 -> collect_roots st2 = Ok st3 ->
  ffr st st3 /\ to_be_freed st3 = [] /\
  (roots st3 <> [] -> unfreed st3 < unfreed st) /\
  (wf st -> wf st3 /\ cost_le 9 st st3).
Proof.
  intros E1 E2 E3.
  destruct (mark_roots_spec _ _ E1) as (F1 & N1 & C1).
  destruct (scan_roots_spec _ _ E2) as (F2 & R2 & C2).
  destruct (collect_roots_spec _ _ E3) as (F3 & B3 & U3 & R3 & C3).
  assert (F12 : frame st st2) by (eapply frame_trans; eauto).
  assert (U2 : unfreed st2 <= unfreed st) by (apply ffr_unfreed, frame_ffr; exact F12).
  split; [eapply ffr_trans; [apply frame_ffr; exact F12|exact F3]|].
  split; [exact B3|split].
  - intros Hne. specialize (U3 Hne). lia.
  - rewrite !wf_P. intros [Hok Hr].
    assert (Hok1 : edges_okP st1) by (eapply frame_edges_okP; eauto).
    assert (Hok2 : edges_okP st2) by (eapply frame_edges_okP; eauto).
    assert (Hr1 : roots_ok st1).
    { unfold roots_ok. rewrite (proj1 F1). apply N1. exact Hr. }
    assert (Hr2 : roots_ok st2).
    { unfold roots_ok. rewrite (proj1 F2), R2. exact Hr1. }
    split; [split; [eapply ffr_edges_okP; eauto|exact R3]|].
    specialize (C1 Hok Hr). specialize (C2 Hok1 Hr1). specialize (C3 Hok2 Hr2).
    assert (C12 : cost_le (4 + 4) st st2).
    { eapply cost_le_comp; [apply F1| |exact C1|exact C2]. rewrite (frame_nedges _ _ F1). lia. }
    change 9 with (4 + 4 + 1).
    eapply cost_le_comp; [apply F12| |exact C12|exact C3]. rewrite (frame_nedges _ _ F12). lia.
Qed.

(* ====================================================================================== *)
(* 4. Linear cost of one iteration                                                          *)
(* ====================================================================================== *)

Theorem phase_linear st st1 st2 st3 :
  wf st ->
  mark_roots st = Ok st1 -> scan_roots st1 = Ok st2 -> collect_roots st2 = Ok st3 ->
  trace_calls st3 <= trace_calls st + 9 * nobjs st /\
  trace_edges st3 <= trace_edges st + 9 * nedges st.
Proof.
  intros Hwf E1 E2 E3. destruct (iteration_spec _ _ _ _ E1 E2 E3) as (_ & _ & _ & H).
  destruct (H Hwf) as [_ C]. exact C.
Qed.

(* ====================================================================================== *)
(* 3. Termination of the whole collection, and the iteration bound                          *)
(* ====================================================================================== *)

Lemma collect_cycles_S f st :
  collect_cycles (S f) st =
  do st1 <- mark_roots st;
  do st2 <- scan_roots st1;
  do st3 <- collect_roots st2;
  match roots st3, to_be_freed st3 with
  | [], [] => Ok st3
  | _, _ => collect_cycles f st3
  end.
Proof. reflexivity. Qed.

Theorem collect_fuel_gen : forall fuel st, unfreed st < fuel -> collect_cycles fuel st <> OutOfFuel.
Proof.
  induction fuel as [|f IH]; intros st Hc; [lia|].
  rewrite collect_cycles_S.
  apply bind_not_oof; [apply mark_roots_not_oof|]. intros st1 E1.
  apply bind_not_oof; [apply scan_roots_not_oof|]. intros st2 E2.
  apply bind_not_oof; [apply collect_roots_not_oof|]. intros st3 E3.
  destruct (iteration_spec _ _ _ _ E1 E2 E3) as (_ & B3 & U3 & _).
  rewrite B3. destruct (roots st3) as [|r rs] eqn:Hr; [discriminate|].
  apply IH. assert (unfreed st3 < unfreed st) by (apply U3; discriminate). lia.
Qed.

Theorem collect_cycles_terminates st : collect_cycles (cfuel st) st <> OutOfFuel.
Proof.
  apply collect_fuel_gen. unfold cfuel, unfreed. pose proof (cnt_le_nobjs (fun o => negb (freed o)) st). lia.
Qed.

(* the same loop, also returning how many times its body ran *)
Fixpoint collect_cycles_n (fuel : nat) (st : gstate) : res (gstate * nat) :=
  match fuel with
  | 0 => OutOfFuel
  | S f =>
    do st <- mark_roots st;
    do st <- scan_roots st;
    do st <- collect_roots st;
    match roots st, to_be_freed st with
    | [], [] => Ok (st, 1)
    | _, _ => do r <- collect_cycles_n f st; Ok (fst r, S (snd r))
    end
  end.

Lemma collect_cycles_n_fst : forall fuel st,
  map_res fst (collect_cycles_n fuel st) = collect_cycles fuel st.
Proof.
  induction fuel as [|f IH]; intros st; [reflexivity|].
  cbn [collect_cycles_n collect_cycles].
  destruct (mark_roots st) as [st1|e|]; cbn [bind map_res]; auto.
  destruct (scan_roots st1) as [st2|e|]; cbn [bind map_res]; auto.
  destruct (collect_roots st2) as [st3|e|]; cbn [bind map_res]; auto.
  assert (Hrec : map_res fst (do r <- collect_cycles_n f st3; Ok (fst r, S (snd r)))
                 = collect_cycles f st3).
  { rewrite <- IH. destruct (collect_cycles_n f st3) as [[a b]|e|]; reflexivity. }
  destruct (roots st3); destruct (to_be_freed st3); auto.
Qed.

Lemma collect_cycles_n_ex fuel st st' :
  collect_cycles fuel st = Ok st' -> exists k, collect_cycles_n fuel st = Ok (st', k).
Proof.
  rewrite <- collect_cycles_n_fst.
  destruct (collect_cycles_n fuel st) as [[a k]|e|]; cbn [map_res fst]; intros E; try discriminate.
  injection E as <-. exists k. reflexivity.
Qed.

Lemma collect_cycles_n_spec : forall fuel st st' k,
  collect_cycles_n fuel st = Ok (st', k) ->
  ffr st st' /\ 1 <= k /\ k + unfreed st' <= 1 + unfreed st /\
  (wf st -> wf st' /\
            trace_calls st' <= trace_calls st + 9 * k * nobjs st /\
            trace_edges st' <= trace_edges st + 9 * k * nedges st).
Proof.
  induction fuel as [|f IH]; intros st st' k E; [discriminate|].
  cbn [collect_cycles_n] in E.
  apply bind_ok in E as (st1 & E1 & E). apply bind_ok in E as (st2 & E2 & E).
  apply bind_ok in E as (st3 & E3 & E).
  destruct (iteration_spec _ _ _ _ E1 E2 E3) as (F3 & B3 & U3 & W3).
  rewrite B3 in E.
  destruct (roots st3) as [|r rs] eqn:Hr.
  - injection E as <- <-. split; [exact F3|split; [lia|split]].
    + pose proof (ffr_unfreed _ _ F3). lia.
    + intros Hwf. destruct (W3 Hwf) as [Hwf3 [C1 C2]]. split; [exact Hwf3|]. lia.
  - assert (Hlt : unfreed st3 < unfreed st) by (apply U3; discriminate).
    apply bind_ok in E as ([st4 k4] & E4 & E). injection E as <- <-. cbn [fst snd].
    destruct (IH _ _ _ E4) as (F4 & K4 & U4 & W4).
    split; [eapply ffr_trans; eauto|split; [lia|split; [lia|]]].
    intros Hwf. destruct (W3 Hwf) as [Hwf3 [C1 C2]]. destruct (W4 Hwf3) as [Hwf4 [D1 D2]].
    split; [exact Hwf4|].
    rewrite (proj1 F3) in D1.
    pose proof (ffr_nedges _ _ F3) as He.
    assert (9 * k4 * nedges st3 <= 9 * k4 * nedges st) by (apply Nat.mul_le_mono_l; exact He).
    split; lia.
Qed.

Lemma ffr_nfreed st st' : ffr st st' -> unfreed st - unfreed st' = nfreed st' - nfreed st.
Proof.
  intros F. pose proof (nfreed_unfreed st). pose proof (nfreed_unfreed st').
  pose proof (proj1 F). pose proof (ffr_unfreed _ _ F). lia.
Qed.

(* the loop body runs at most once more than the number of objects this collection frees *)
Theorem collect_iterations fuel st st' k :
  collect_cycles_n fuel st = Ok (st', k) ->
  1 <= k /\ k <= 1 + (nfreed st' - nfreed st).
Proof.
  intros E. destruct (collect_cycles_n_spec _ _ _ _ E) as (F & K & U & _).
  rewrite <- (ffr_nfreed _ _ F). pose proof (ffr_unfreed _ _ F). lia.
Qed.

(* cost of a whole collection *)
Theorem collect_cost fuel st st' :
  wf st -> collect_cycles fuel st = Ok st' ->
  trace_calls st' <= trace_calls st + 9 * (1 + (nfreed st' - nfreed st)) * nobjs st /\
  trace_edges st' <= trace_edges st + 9 * (1 + (nfreed st' - nfreed st)) * nedges st.
Proof.
  intros Hwf E. apply collect_cycles_n_ex in E as [k E].
  destruct (collect_iterations _ _ _ _ E) as [_ K].
  destruct (collect_cycles_n_spec _ _ _ _ E) as (_ & _ & _ & W).
  destruct (W Hwf) as (_ & C1 & C2).
  assert (9 * k * nobjs st <= 9 * (1 + (nfreed st' - nfreed st)) * nobjs st).
  { apply Nat.mul_le_mono_r. lia. }
  assert (9 * k * nedges st <= 9 * (1 + (nfreed st' - nfreed st)) * nedges st).
  { apply Nat.mul_le_mono_r. lia. }
  split; lia.
Qed.

Corollary collect_cost_sum fuel st st' :
  wf st -> collect_cycles fuel st = Ok st' ->
  (trace_calls st' - trace_calls st) + (trace_edges st' - trace_edges st)
  <= 9 * (1 + (nfreed st' - nfreed st)) * (nobjs st + nedges st).
Proof.
  intros Hwf E. destruct (collect_cost _ _ _ Hwf E) as [C1 C2].
  remember (9 * (1 + (nfreed st' - nfreed st))) as c eqn:Hc. clear Hc.
  rewrite Nat.mul_add_distr_l. lia.
Qed.

(* ====================================================================================== *)
(* The in-range hypothesis [wf] of item 4 is an invariant of everything the model can do    *)
(* ====================================================================================== *)

Theorem wf_empty : wf empty_state.
Proof. split; constructor. Qed.

Lemma fr_wf st st' : fr st st' -> wf st -> wf st'.
Proof.
  intros (F & R & _). rewrite !wf_P. intros [Hok Hr].
  split; [eapply frame_edges_okP; eauto|]. unfold roots_ok. rewrite R, (proj1 F). exact Hr.
Qed.

(* every walk preserves wf *)
Theorem reset1_wf f st s st' : reset1 f st s = Ok st' -> wf st -> wf st'.
Proof. intros E. apply fr_wf. eapply (walk_fr _ _ _ _ reset1_walk); eauto. Qed.
Theorem reset2_wf f st s st' : reset2 f st s = Ok st' -> wf st -> wf st'.
Proof. intros E. apply fr_wf. eapply (walk_fr _ _ _ _ reset2_walk); eauto. Qed.
Theorem mark_gray_wf f st s st' : mark_gray f st s = Ok st' -> wf st -> wf st'.
Proof. intros E. apply fr_wf. eapply (walk_fr _ _ _ _ mark_gray_walk); eauto. Qed.
Theorem scan_wf f st s st' : scan f st s = Ok st' -> wf st -> wf st'.
Proof. intros E. apply fr_wf. apply (scan_inv2 _ _ _ _ E). Qed.
Theorem scan_black_wf f st s st' : scan_black f st s = Ok st' -> wf st -> wf st'.
Proof.
  destruct f as [|f]; [discriminate|]. rewrite scan_black_S. intros E. apply fr_wf.
  eapply (giter_inv (fun a => fr st a)); [ | | exact E].
  - intros a t a' _ Ha Eg. eapply fr_trans; [exact Ha|]. apply (gsb_inv2 _ _ _ _ Eg).
  - apply (walk_enter_fr _ _ _ _ gsb_walk).
Qed.
Theorem collect_white_wf f st w s st' w' :
  collect_white f (st, w) s = Ok (st', w') -> wf st -> wf st'.
Proof.
  intros E. apply collect_white_ok in E. apply fr_wf. eapply (walk_fr _ _ _ _ cw_walk); eauto.
Qed.
Theorem display_graph_wf f st stack seen st' :
  display_graph f st stack seen = Ok st' -> wf st -> wf st'.
Proof. intros E. apply fr_wf. eapply display_fr; eauto. Qed.

Theorem collect_cycles_wf fuel st st' : collect_cycles fuel st = Ok st' -> wf st -> wf st'.
Proof.
  intros E Hwf. apply collect_cycles_n_ex in E as [k E].
  destruct (collect_cycles_n_spec _ _ _ _ E) as (_ & _ & _ & W). apply (W Hwf).
Qed.

Lemma edges_okP_set st n o :
  edges_okP st -> (forall t, In t (edges o) -> t < nobjs st) -> edges_okP (set st n o).
Proof.
  intros Hok Ho i t. rewrite nobjs_set, get_set.
  destruct (Nat.eqb i n && Nat.ltb n (nobjs st))%bool; [apply Ho|apply Hok].
Qed.

Lemma frame_wf_set st n o :
  edges o = edges (get st n) -> freed o = freed (get st n) -> wf st -> wf (set st n o).
Proof. intros He Hf. apply fr_wf. apply fr_set; auto. Qed.

Lemma dec_ref_wf st n : wf st -> wf (dec_ref st n).
Proof.
  rewrite !wf_P. intros [Hok Hr]. destruct (dec_ref_spec st n) as (F & _ & _ & R).
  split; [eapply frame_edges_okP; eauto|auto].
Qed.

Lemma inc_ref_wf st n st' : inc_ref st n = Ok st' -> wf st -> wf st' /\ nobjs st' = nobjs st /\ n < nobjs st.
Proof.
  unfold inc_ref. destruct (freed (get st n)) eqn:Hf; [discriminate|].
  intros E; injection E as <-. intros Hwf.
  split; [apply frame_wf_set; auto|split; [apply nobjs_set|apply freed_in_range; exact Hf]].
Qed.

Lemma In_remove_nth {A} (l : list A) : forall i x, In x (remove_nth l i) -> In x l.
Proof.
  induction l as [|a t IH]; intros [|k] x; simpl; auto.
  intros [H|H]; auto. right. eapply IH; eauto.
Qed.

Theorem gstep_wf st op st' : gstep st op = Ok st' -> wf st -> wf st'.
Proof.
  destruct op as [|o|o|a b|a i|o|]; cbn [gstep]; intros E Hwf.
  - (* GCreate *)
    injection E as <-. destruct Hwf as [Hok Hr]. unfold gc_new; cbn [fst].
    split.
    + unfold edges_ok, nobjs in *. cbn [objs]. rewrite app_length. cbn [length].
      apply Forall_app. split.
      * eapply Forall_impl; [|exact Hok]. intros o Ho. eapply Forall_impl; [|exact Ho].
        intros t Ht. cbv beta in *. lia.
      * constructor; [constructor|constructor].
    + unfold roots_ok, nobjs in *. cbn [objs roots]. rewrite app_length. cbn [length].
      eapply Forall_impl; [|exact Hr]. intros t Ht. cbv beta in *. lia.
  - (* GClone *) apply (inc_ref_wf _ _ _ E Hwf).
  - (* GDrop *) injection E as <-. apply dec_ref_wf; exact Hwf.
  - (* GAddEdge *)
    apply bind_ok in E as (st1 & E1 & E). injection E as <-.
    destruct (inc_ref_wf _ _ _ E1 Hwf) as (Hwf1 & N1 & Hb).
    rewrite wf_P in *. destruct Hwf1 as [Hok1 Hr1]. split; [|apply roots_ok_set; exact Hr1].
    apply edges_okP_set; auto. cbn [edges set_edges]. intros t Ht.
    apply in_app_or in Ht as [Ht|[<-|[]]]; [eapply Hok1; eauto|lia].
  - (* GRemoveEdge *)
    destruct (nth_error (edges (get st a)) i) as [b|]; injection E as <-; [|exact Hwf].
    apply dec_ref_wf. rewrite wf_P in *. destruct Hwf as [Hok Hr].
    split; [|apply roots_ok_set; exact Hr].
    apply edges_okP_set; auto. cbn [edges set_edges]. intros t Ht.
    apply In_remove_nth in Ht. eapply Hok; eauto.
  - (* GUpgrade *)
    unfold inc_ref_if_alive in E.
    destruct (negb (Nat.eqb (rc (get st o)) 0) && negb (freed (get st o)))%bool;
      injection E as <-; [|exact Hwf].
    apply dec_ref_wf. apply frame_wf_set; auto.
  - (* GCollect *) eapply collect_cycles_wf; eauto.
Qed.

Theorem sstep_wf s op s' : sstep s op = Ok s' -> wf (g s) -> wf (g s').
Proof.
  unfold sstep. destruct (negb (svalid s op)).
  - intros E; injection E as <-. auto.
  - intros E. apply bind_ok in E as (g1 & E1 & E). injection E as <-. cbn [g].
    eapply gstep_wf; eauto.
Qed.

Theorem srun_wf : forall ops s s', srun s ops = Ok s' -> wf (g s) -> wf (g s').
Proof.
  induction ops as [|op t IH]; intros s s' E Hwf; cbn [srun] in E.
  - injection E as <-. exact Hwf.
  - apply bind_ok in E as (s1 & E1 & E2). eapply IH; eauto. eapply sstep_wf; eauto.
Qed.

Corollary srun_sinit_wf ops s : srun sinit ops = Ok s -> wf (g s).
Proof. intros E. eapply srun_wf; eauto. apply wf_empty. Qed.

(* ====================================================================================== *)
(* 5. Non-vacuity                                                                           *)
(* ====================================================================================== *)

(* three objects, five edges (a 3-cycle 0->1->2->0 plus the chord 0->2 and the self-loop 1->1),
   every mutator handle dropped *)
Definition ex_prog : list gop :=
  [GCreate; GCreate; GCreate; GAddEdge 0 1; GAddEdge 1 2; GAddEdge 2 0; GAddEdge 0 2; GAddEdge 1 1;
   GDrop 0; GDrop 1; GDrop 2].

Definition ex_st : gstate :=
  Eval vm_compute in match srun sinit ex_prog with Ok s => g s | _ => empty_state end.

Example ex_st_run : srun sinit ex_prog = Ok (mkS ex_st [0; 0; 0]).
Proof. vm_compute. reflexivity. Qed.

Example ex_shape : nobjs ex_st = 3 /\ nedges ex_st = 5 /\ roots ex_st = [0; 1; 2].
Proof. vm_compute. auto. Qed.

Example ex_wf : wf ex_st.
Proof. exact (srun_sinit_wf ex_prog (mkS ex_st [0; 0; 0]) ex_st_run). Qed.

Definition ex_st1 : gstate :=
  Eval vm_compute in match mark_roots ex_st with Ok s => s | _ => empty_state end.
Definition ex_st2 : gstate :=
  Eval vm_compute in match scan_roots ex_st1 with Ok s => s | _ => empty_state end.
Definition ex_st3 : gstate :=
  Eval vm_compute in match collect_roots ex_st2 with Ok s => s | _ => empty_state end.

(* one iteration: 24 trace calls <= 9 * 3, 40 tracer callbacks <= 9 * 5 *)
Example ex_phase :
  mark_roots ex_st = Ok ex_st1 /\ scan_roots ex_st1 = Ok ex_st2 /\ collect_roots ex_st2 = Ok ex_st3 /\
  trace_calls ex_st = 0 /\ trace_edges ex_st = 0 /\
  trace_calls ex_st1 = 12 /\ trace_edges ex_st1 = 20 /\
  trace_calls ex_st2 = 21 /\ trace_edges ex_st2 = 35 /\
  trace_calls ex_st3 = 24 /\ trace_edges ex_st3 = 40 /\
  trace_calls ex_st3 <= trace_calls ex_st + 9 * nobjs ex_st /\
  trace_edges ex_st3 <= trace_edges ex_st + 9 * nedges ex_st.
Proof.
  split; [vm_compute; reflexivity|]. split; [vm_compute; reflexivity|].
  split; [vm_compute; reflexivity|].
  vm_compute. repeat (split; [reflexivity|]). split; repeat constructor.
Qed.

Definition ex_st' : gstate :=
  Eval vm_compute in match collect_cycles (cfuel ex_st) ex_st with Ok s => s | _ => empty_state end.

(* the whole collection: two iterations (the second finds nothing), all three objects freed *)
Example ex_collect :
  collect_cycles_n (cfuel ex_st) ex_st = Ok (ex_st', 2) /\
  collect_cycles (cfuel ex_st) ex_st = Ok ex_st' /\
  nfreed ex_st = 0 /\ nfreed ex_st' = 3 /\
  trace_calls ex_st' = 32 /\ trace_edges ex_st' = 40 /\
  trace_calls ex_st' <= trace_calls ex_st + 9 * (1 + (nfreed ex_st' - nfreed ex_st)) * nobjs ex_st /\
  trace_edges ex_st' <= trace_edges ex_st + 9 * (1 + (nfreed ex_st' - nfreed ex_st)) * nedges ex_st.
Proof.
  split; [vm_compute; reflexivity|]. split; [vm_compute; reflexivity|].
  vm_compute. repeat (split; [reflexivity|]). split; repeat constructor.
Qed.

(* ---------- why item 4 needs [wf]: without it the 9 * nobjs bound is false ---------- *)

(* a root id that is out of range reads the dummy object, and display_graph / reset1 trace it *)
Definition bad_roots : gstate := mkSt [] [5] [] 0 0.

Example wf_needed_roots :
  exists st1 st2 st3,
    mark_roots bad_roots = Ok st1 /\ scan_roots st1 = Ok st2 /\ collect_roots st2 = Ok st3 /\
    trace_calls st3 = 2 /\ trace_calls bad_roots + 9 * nobjs bad_roots = 0.
Proof.
  exists (mkSt [] [] [] 2 0), (mkSt [] [] [] 2 0), (mkSt [] [] [] 2 0).
  vm_compute. repeat split; reflexivity.
Qed.

(* an in-range root with twenty edges to an out-of-range id: every walk re-traces the dummy object
   once per edge, because [set] on an out-of-range id cannot falsify its guard *)
Definition bad_edges : gstate :=
  mkSt [mkObj false 1 0 false Purple true (repeat 7 20) 0] [0] [] 0 0.

Example wf_needed_edges :
  match (do a <- mark_roots bad_edges; do b <- scan_roots a; collect_roots b) with
  | Ok st3 => trace_calls st3 = 68 /\ trace_calls bad_edges + 9 * nobjs bad_edges = 9
  | _ => False
  end.
Proof. vm_compute. split; reflexivity. Qed.

(* ====================================================================================== *)
(* Headline theorems of property C16                                                        *)
(* ====================================================================================== *)

Theorem C16_walks_terminate :
  forall st s,
    mark_gray (wfuel st) st s <> OutOfFuel /\
    scan_black (wfuel st) st s <> OutOfFuel /\
    scan (wfuel st) st s <> OutOfFuel /\
    reset1 (wfuel st) st s <> OutOfFuel /\
    reset2 (wfuel st) st s <> OutOfFuel /\
    (forall w, collect_white (wfuel st) (st, w) s <> OutOfFuel) /\
    (forall stack k, length stack <= k -> display_graph (dfuel st k) st stack [] <> OutOfFuel).
Proof.
  intros st s.
  split; [apply mark_gray_fuel|]. split; [apply scan_black_fuel|]. split; [apply scan_fuel|].
  split; [apply reset1_fuel|]. split; [apply reset2_fuel|].
  split; [intros w; apply collect_white_fuel|]. intros stack k. apply display_graph_fuel.
Qed.
Print Assumptions C16_walks_terminate.

Theorem C16_collect_terminates : forall st, collect_cycles (cfuel st) st <> OutOfFuel.
Proof. exact collect_cycles_terminates. Qed.
Print Assumptions C16_collect_terminates.

Theorem C16_iterations :
  forall fuel st st' k,
    collect_cycles_n fuel st = Ok (st', k) ->
    collect_cycles fuel st = Ok st' /\ 1 <= k /\ k <= 1 + (nfreed st' - nfreed st).
Proof.
  intros fuel st st' k E. split; [|eapply collect_iterations; eauto].
  rewrite <- collect_cycles_n_fst, E. reflexivity.
Qed.
Print Assumptions C16_iterations.

Theorem C16_linear_phase :
  forall st st1 st2 st3,
    wf st ->
    mark_roots st = Ok st1 -> scan_roots st1 = Ok st2 -> collect_roots st2 = Ok st3 ->
    trace_calls st3 <= trace_calls st + 9 * nobjs st /\
    trace_edges st3 <= trace_edges st + 9 * nedges st.
Proof. exact phase_linear. Qed.
Print Assumptions C16_linear_phase.

Theorem C16_linear_collection :
  forall fuel st st',
    wf st -> collect_cycles fuel st = Ok st' ->
    trace_calls st' <= trace_calls st + 9 * (1 + (nfreed st' - nfreed st)) * nobjs st /\
    trace_edges st' <= trace_edges st + 9 * (1 + (nfreed st' - nfreed st)) * nedges st.
Proof. exact collect_cost. Qed.
Print Assumptions C16_linear_collection.

Theorem C16_wf_invariant :
  wf empty_state /\
  (forall st op st', gstep st op = Ok st' -> wf st -> wf st') /\
  (forall s op s', sstep s op = Ok s' -> wf (g s) -> wf (g s')) /\
  (forall fuel st st', collect_cycles fuel st = Ok st' -> wf st -> wf st').
Proof.
  split; [exact wf_empty|split; [exact gstep_wf|split; [exact sstep_wf|exact collect_cycles_wf]]].
Qed.
Print Assumptions C16_wf_invariant.

Print Assumptions mark_roots_not_oof.
Print Assumptions scan_roots_not_oof.
Print Assumptions collect_roots_not_oof.
Print Assumptions ex_phase.
Print Assumptions ex_collect.

(* the remaining named results of items 1-4 *)
Print Assumptions reset1_fuel_gen.
Print Assumptions reset2_fuel_gen.
Print Assumptions mark_gray_fuel_gen.
Print Assumptions scan_black_fuel_gen.
Print Assumptions scan_fuel_gen.
Print Assumptions collect_white_fuel_gen.
Print Assumptions reset1_iter_fuel.
Print Assumptions reset2_iter_fuel.
Print Assumptions scan_iter_fuel.
Print Assumptions display_fuel_gen.
Print Assumptions display_graph_fuel.
Print Assumptions collect_fuel_gen.
Print Assumptions collect_iterations.
Print Assumptions phase_linear.
Print Assumptions collect_cost.
Print Assumptions collect_cost_sum.
Print Assumptions srun_wf.
Print Assumptions reset1_wf.
Print Assumptions reset2_wf.
Print Assumptions mark_gray_wf.
Print Assumptions scan_wf.
Print Assumptions scan_black_wf.
Print Assumptions collect_white_wf.
Print Assumptions display_graph_wf.
Print Assumptions ex_wf.
Print Assumptions wf_needed_roots.
Print Assumptions wf_needed_edges.
