(* Refinement of the operational model of a transaction (Model/Net.v: the propagation engine run on the
   compiled dependency graph of a program whose static wiring is fixed during the transaction, switch_c
   demanding its new inner cell from inside its update) to the denotational specification
   (Spec/Sodium.v): for EVERY program (every definition kind, switch_c included) whose instantaneous
   dependency graph - static dependencies and the demands that occur in the transaction - is acyclic, the
   engine - whatever the order of the queue and of the dependents lists - ends with every stream node
   holding exactly `occ` and every cell node holding exactly `upd`; every update closure ran at most once
   and only after all of its dependencies and demanded nodes had settled.  Then the commit, histories of
   transactions (switch_s / switch_c re-wired between them), and the deferred queue of an outermost close
   (defer, split, post). *)
From Coq Require Import List ZArith Bool Arith Lia Permutation.
Import ListNotations.
From Sodium Require Import Engine EngineScript EngineSafe EngineFuel EngineLog EngineTop Sodium Net.
Open Scope nat_scope.

(* ------------------------------------------------------------------ association lists *)
Lemma nodupb_spec l : nodupb l = true -> NoDup l.
Proof.
  induction l as [|x t IH]; intros H; [constructor|].
  cbn [nodupb] in H. apply andb_prop in H as [H1 H2]. constructor; auto.
  intros Hin. apply negb_true_iff in H1.
  assert (E : existsb (Nat.eqb x) t = true) by (apply existsb_exists; exists x; split; auto; apply Nat.eqb_refl).
  congruence.
Qed.

Lemma alookup_in {A} (l : list (nat * A)) k v : alookup l k = Some v -> In (k, v) l.
Proof.
  induction l as [|[k' v'] t IH]; cbn [alookup]; [discriminate|].
  destruct (Nat.eqb_spec k k') as [->|Ne]; intros E; [injection E as ->; left; reflexivity | right; auto].
Qed.

Lemma alookup_nodup {A} (l : list (nat * A)) k v : NoDup (map fst l) -> In (k, v) l -> alookup l k = Some v.
Proof.
  induction l as [|[k' v'] t IH]; intros ND H; [contradiction|]. cbn [alookup]. cbn [map fst] in ND.
  apply NoDup_cons_iff in ND as [Nin ND].
  destruct H as [E|H].
  - injection E as -> ->. rewrite Nat.eqb_refl. reflexivity.
  - destruct (Nat.eqb_spec k k') as [->|Ne]; [|apply IH; auto].
    exfalso. apply Nin. apply in_map_iff. exists (k', v); auto.
Qed.

Lemma alookup_none {A} (l : list (nat * A)) k : ~ In k (map fst l) -> alookup l k = None.
Proof.
  induction l as [|[k' v'] t IH]; intros H; [reflexivity|]. cbn [alookup].
  destruct (Nat.eqb_spec k k') as [->|Ne]; [exfalso; apply H; left; reflexivity|].
  apply IH. intros C; apply H; right; exact C.
Qed.

Lemma emap_ev {A B} (f : A -> ev B) (h : A -> B) l :
  (forall x, In x l -> f x = EV (h x)) -> emap f l = EV (map h l).
Proof.
  induction l as [|x t IH]; intros H; [reflexivity|]. cbn [emap map].
  rewrite (H x (or_introl eq_refl)). cbn [ebind]. rewrite IH by (intros; apply H; right; auto). reflexivity.
Qed.

Lemma concat_map_nil {A B} (f : A -> list B) l : (forall x, In x l -> f x = []) -> concat (map f l) = [].
Proof.
  induction l as [|x t IH]; intros H; [reflexivity|]. cbn [map concat].
  rewrite (H x (or_introl eq_refl)), IH by (intros; apply H; right; auto). reflexivity.
Qed.

Lemma map_combine_map {A B C} (dn : A -> B) (phi : B * A -> C) l :
  map phi (combine (map dn l) l) = map (fun c => phi (dn c, c)) l.
Proof. induction l as [|x t IH]; [reflexivity|]. cbn [map combine]. rewrite IH. reflexivity. Qed.

(* ------------------------------------------------------------------ keys and the size of the graph *)
Section Static.
  Variable st : state.
  Hypothesis Hnd : NoDup (map fst (defs st)).
  Hypothesis Hrefs : refs_ok st = true.
  Hypothesis Hsw : switch_targets_ok st = true.

  Lemma key_lt_nsize k d : alookup (defs st) k = Some d -> k < nsize st.
  Proof.
    intros E. apply alookup_in in E. unfold nsize.
    assert (In k (map fst (defs st))) by (apply in_map_iff; exists (k, d); auto).
    pose proof (list_max_ge _ _ H). lia.
  Qed.

  Lemma key_none_ge k : nsize st <= k -> alookup (defs st) k = None.
  Proof.
    intros H. destruct (alookup (defs st) k) as [d|] eqn:E; auto.
    apply key_lt_nsize in E. lia.
  Qed.

  Lemma def_refs k d : alookup (defs st) k = Some d -> refs_ok_def st k d = true.
  Proof.
    intros E. apply alookup_in in E. unfold refs_ok in Hrefs. rewrite forallb_forall in Hrefs.
    apply (Hrefs (k, d) E).
  Qed.

  Lemma def_switch k d : alookup (defs st) k = Some d -> switch_target_ok_def st d = true.
  Proof.
    intros E. apply alookup_in in E. unfold switch_targets_ok in Hsw. rewrite forallb_forall in Hsw.
    apply (Hsw (k, d) E).
  Qed.

  (* the outer cell of a switch_s holds a reference to a stream *)
  Lemma switch_target k c : alookup (defs st) k = Some (DSwitchS c) ->
    exists m, cur st (F st) c = EV (VRef m) /\ is_stream_key st m = true.
  Proof.
    intros E. apply def_switch in E. cbn [switch_target_ok_def] in E.
    destruct (cur st (F st) c) as [v|]; [|discriminate]. destruct v; try discriminate.
    exists h. split; auto.
  Qed.

  (* the outer cell of a switch_c holds a reference to a cell *)
  Lemma switch_target_c k c : alookup (defs st) k = Some (DSwitchC c) ->
    exists i, cur st (F st) c = EV (VRef i) /\ is_cell_key st i = true.
  Proof.
    intros E. apply def_switch in E. cbn [switch_target_ok_def] in E.
    destruct (cur st (F st) c) as [v|]; [|discriminate]. destruct v; try discriminate.
    exists h. split; auto.
  Qed.

  Lemma stream_key_def k : is_stream_key st k = true -> exists d, alookup (defs st) k = Some d /\ is_cell d = false.
  Proof.
    unfold is_stream_key. destruct (alookup (defs st) k) as [d|]; [|discriminate].
    intros H. exists d. split; auto. apply negb_true_iff in H. exact H.
  Qed.

  Lemma cell_key_def k : is_cell_key st k = true -> exists d, alookup (defs st) k = Some d /\ is_cell d = true.
  Proof.
    unfold is_cell_key. destruct (alookup (defs st) k) as [d|]; [|discriminate].
    intros H. exists d. split; auto.
  Qed.

  Lemma stream_key_lt k : is_stream_key st k = true -> k < nsize st.
  Proof. intros H. apply stream_key_def in H as (d & E & _). eapply key_lt_nsize; eauto. Qed.
  Lemma cell_key_lt k : is_cell_key st k = true -> k < nsize st.
  Proof. intros H. apply cell_key_def in H as (d & E & _). eapply key_lt_nsize; eauto. Qed.

  (* a dependency is a defined key, or the spark of a value() created in this transaction *)
  Lemma ndeps_cases n a : In a (ndeps st n) ->
    (exists d, alookup (defs st) a = Some d) \/
    (exists c, alookup (defs st) n = Some (DValue c) /\ amem (fresh st) n = true /\ a = spark st n).
  Proof.
    unfold ndeps. destruct (alookup (defs st) n) as [dn|] eqn:En; [|intros []].
    pose proof (def_refs n dn En) as R. intros Hin.
    assert (K : is_stream_key st a = true \/ is_cell_key st a = true \/
                (exists c, dn = DValue c /\ amem (fresh st) n = true /\ a = spark st n)).
    { destruct dn; cbn [ddeps refs_ok_def] in *;
        repeat match goal with
               | H : _ && _ = true |- _ => apply andb_prop in H as [? ?]
               | H : In _ [] |- _ => destruct H
               | H : In _ [_] |- _ => destruct H as [<-|[]]
               | H : In _ [_; _] |- _ => destruct H as [<-|[<-|[]]]
               end; auto.
      - (* once *) destruct (amem (Sodium.fired st) n); [destruct Hin | destruct Hin as [<-|[]]; auto].
      - (* value *) destruct (amem (fresh st) n) eqn:Fr.
        + destruct Hin as [<-|[<-|[]]]; auto. right. right. exists c. auto.
        + destruct Hin as [<-|[]]; auto.
      - (* switch_s *) destruct (switch_target n c En) as (m & Ec & Km). rewrite Ec in Hin.
        destruct Hin as [<-|[]]; auto.
      - (* sloop *) destruct (alookup (loops st) n); [destruct Hin as [<-|[]]; auto | destruct Hin].
      - (* route *) destruct (alookup (defs st) r) as [[]|]; try discriminate; try (destruct Hin; fail).
        destruct Hin as [<-|[]]; auto.
      - (* lift *) rewrite forallb_forall in R. right. left. apply R; auto.
      - (* switch_c *) destruct (switch_target_c n c En) as (i & Ec & Ki). rewrite Ec in Hin.
        destruct Hin as [<-|[<-|[]]]; auto.
      - (* cloop *) destruct (alookup (loops st) n); [destruct Hin as [<-|[]]; auto | destruct Hin]. }
    destruct K as [K|[K|(c & -> & Fr & ->)]].
    - left. apply stream_key_def in K as (d & E & _). exists d; exact E.
    - left. apply cell_key_def in K as (d & E & _). exists d; exact E.
    - right. exists c. auto.
  Qed.

  Lemma ndeps_range n a : In a (ndeps st n) -> a < gsize st.
  Proof.
    intros H. unfold gsize. destruct (ndeps_cases n a H) as [[d E]|(c & E & _ & ->)].
    - apply key_lt_nsize in E. lia.
    - apply key_lt_nsize in E. unfold spark. lia.
  Qed.

  (* the dependencies that are definitions *)
  Lemma ndeps_real n a : In a (ndeps st n) -> a < nsize st -> exists d, alookup (defs st) a = Some d.
  Proof.
    intros H Lt. destruct (ndeps_cases n a H) as [E|(c & _ & _ & ->)]; [exact E|]. unfold spark in Lt. lia.
  Qed.

  Lemma ndeps_self_defined n : ndeps st n <> [] -> exists d, alookup (defs st) n = Some d.
  Proof. unfold ndeps. destruct (alookup (defs st) n) as [d|]; [eauto | intros H; contradiction]. Qed.

  Lemma ndeps_ge n : nsize st <= n -> ndeps st n = [].
  Proof. intros H. unfold ndeps. rewrite key_none_ge by exact H. reflexivity. Qed.

  (* ---------------------------------------------------------------- the compiled graph *)
  Lemma compile_length : length (compile st) = gsize st.
  Proof. unfold compile. rewrite map_length, seq_length. reflexivity. Qed.

  Lemma compile_get n : n < gsize st ->
    get (compile st) n = {| deps := ndeps st n; dem := ndem st n; dependents := ndependents st n;
                            visited := false; done := false; changed := false; fire := None |}.
  Proof.
    intros Hn. unfold get, compile.
    set (mkn := fun n => {| deps := ndeps st n; dem := ndem st n; dependents := ndependents st n;
                            visited := false; done := false; changed := false; fire := @None val |}).
    rewrite (nth_indep _ _ (mkn 0)) by (rewrite map_length, seq_length; exact Hn).
    rewrite map_nth, seq_nth by exact Hn. reflexivity.
  Qed.

  Lemma compile_deps n : deps (get (compile st) n) = ndeps st n.
  Proof.
    destruct (lt_dec n (gsize st)) as [Hn|Hn]; [rewrite compile_get by auto; reflexivity|].
    rewrite get_default by (rewrite compile_length; lia). rewrite ndeps_ge by (unfold gsize in Hn; lia). reflexivity.
  Qed.

  Lemma cell_keys_lt k : In k (cell_keys st) -> k < nsize st.
  Proof.
    unfold cell_keys. intros H. apply in_map_iff in H as ([k' d] & <- & H). apply filter_In in H as [H _].
    cbn [fst]. eapply key_lt_nsize. apply alookup_nodup; eauto.
  Qed.

  Lemma compile_dem n d : In d (dem (get (compile st) n)) -> d < gsize st.
  Proof.
    destruct (lt_dec n (gsize st)) as [Hn|Hn].
    - rewrite compile_get by auto. cbn [dem]. unfold ndem. destruct (alookup (defs st) n) as [[]|]; try (intros []; fail).
      intros H. apply cell_keys_lt in H. unfold gsize. lia.
    - rewrite get_default by (rewrite compile_length; lia). intros [].
  Qed.

  Lemma compile_dependents n : dependents (get (compile st) n) = if Nat.ltb n (gsize st) then ndependents st n else [].
  Proof.
    destruct (Nat.ltb_spec n (gsize st)) as [Hn|Hn]; [rewrite compile_get by auto; reflexivity|].
    rewrite get_default by (rewrite compile_length; lia). reflexivity.
  Qed.

  (* a graph for the program: these dependencies, every dependent registered, in any order *)
  Definition net_graph (gr : graph val) : Prop :=
    wf gr /\ length gr = gsize st /\ forall n, deps (get gr n) = ndeps st n.

  Lemma compile_net_graph : net_graph (compile st).
  Proof.
    split; [|split; [apply compile_length | apply compile_deps]].
    split; [|split; [|split; [|split]]].
    - intros n Hn. rewrite compile_length in Hn. rewrite compile_get by auto. repeat split.
    - intros n d. rewrite compile_deps, compile_length. apply ndeps_range.
    - intros n d. rewrite compile_length. apply compile_dem.
    - intros n m. rewrite compile_dependents, compile_length. destruct (Nat.ltb n (gsize st)); [|intros []].
      unfold ndependents. intros H. apply filter_In in H as [H _]. apply in_seq in H. lia.
    - intros n d. rewrite compile_deps. intros Hd. rewrite compile_dependents.
      pose proof (ndeps_range n d Hd) as Hdn. apply Nat.ltb_lt in Hdn. rewrite Hdn.
      unfold ndependents. apply filter_In. split.
      + apply in_seq. destruct (ndeps_self_defined n) as [dn En]; [intros Z; rewrite Z in Hd; destruct Hd|].
        apply key_lt_nsize in En. unfold gsize. lia.
      + apply existsb_exists. exists d. split; auto. apply Nat.eqb_refl.
  Qed.

  (* ---------------------------------------------------------------- the sources *)
  Lemma src_val_ge inj n : gsize st <= n -> src_val st inj n = None.
  Proof.
    intros H. unfold gsize in H. unfold src_val. rewrite key_none_ge by lia.
    rewrite (key_none_ge (n - nsize st)) by lia. destruct (Nat.leb (nsize st) n); reflexivity.
  Qed.

  Lemma src_val_nodeps inj n v : src_val st inj n = Some v -> ndeps st n = [].
  Proof.
    unfold src_val, ndeps. destruct (alookup (defs st) n) as [d|]; [|reflexivity].
    destruct d; try discriminate; reflexivity.
  Qed.

  Lemma net_sources_in inj n v : In (n, v) (net_sources st inj) <-> n < gsize st /\ src_val st inj n = Some v.
  Proof.
    unfold net_sources. rewrite in_flat_map. split.
    - intros (m & Hm & H). apply in_seq in Hm. destruct (src_val st inj m) as [w|] eqn:E; [|contradiction].
      destruct H as [H|[]]. injection H as -> ->. split; [lia|exact E].
    - intros [Hn E]. exists n. split; [apply in_seq; lia|]. rewrite E. left. reflexivity.
  Qed.

  Lemma net_sources_nodup inj : NoDup (map fst (net_sources st inj)).
  Proof.
    unfold net_sources. generalize (seq_NoDup (gsize st) 0). generalize (seq 0 (gsize st)) as l.
    induction l as [|m t IH]; intros ND; [constructor|].
    apply NoDup_cons_iff in ND as [Nin ND]. cbn [flat_map]. rewrite map_app.
    assert (Nm : ~ In m (map fst (flat_map (fun n => match src_val st inj n with Some v => [(n, v)] | None => [] end) t))).
    { intros H. apply in_map_iff in H as ([m' v] & E & H). cbn [fst] in E. subst m'.
      apply in_flat_map in H as (m2 & Hin & H). destruct (src_val st inj m2); [|contradiction].
      destruct H as [H|[]]. injection H as -> _. contradiction. }
    destruct (src_val st inj m); [|exact (IH ND)]. cbn [map fst app]. constructor; [exact Nm | exact (IH ND)].
  Qed.

  Lemma lookup_sources inj n : lookup (net_sources st inj) n = src_val st inj n.
  Proof.
    destruct (lookup (net_sources st inj) n) as [v|] eqn:E.
    - apply lookup_some in E. apply net_sources_in in E as [_ E]. auto.
    - destruct (src_val st inj n) as [v|] eqn:Es; auto.
      assert (Hn : n < gsize st).
      { destruct (lt_dec n (gsize st)); auto. rewrite src_val_ge in Es by lia. discriminate. }
      rewrite (lookup_in _ _ _ (net_sources_nodup inj) (proj2 (net_sources_in inj n v) (conj Hn Es))) in E.
      discriminate.
  Qed.
End Static.
(* the two places where occ and upd call each other *)
Lemma occ_updates st inj f n c : alookup (defs st) n = Some (DUpdates c) -> occ st inj (S f) n = upd st inj f c.
Proof. intros E. cbn [occ]. unfold def_of. rewrite E. reflexivity. Qed.
Lemma occ_value st inj f n c : alookup (defs st) n = Some (DValue c) ->
  occ st inj (S f) n =
  elet u <- upd st inj f c;
  if amem (fresh st) n
  then match u with Some v => EV (Some v) | None => elet v <- cur st (F st) c; EV (Some v) end
  else EV u.
Proof. intros E. cbn [occ]. unfold def_of. rewrite E. reflexivity. Qed.
Lemma upd_hold st inj f n a : alookup (defs st) n = Some (DHold a) -> upd st inj (S f) n = occ st inj f a.
Proof. intros E. cbn [upd]. unfold def_of. rewrite E. reflexivity. Qed.

Lemma filter_all {A} (p : A -> bool) l : (forall x, In x l -> p x = true) -> filter p l = l.
Proof.
  induction l as [|x t IH]; intros H; [reflexivity|]. cbn [filter].
  rewrite (H x (or_introl eq_refl)), IH by (intros; apply H; right; auto). reflexivity.
Qed.

(* ------------------------------------------------------------------ the demands of a transaction *)
(* the demand a switch_c makes in this transaction, according to the SPECIFICATION: the cell its outer
   cell is updated to *)
Definition sdem (st : state) (inj : list (nat * val)) (n : nat) : list nat :=
  match alookup (defs st) n with
  | Some (DSwitchC c) => match upd st inj (F st) c with EV (Some (VRef m)) => [m] | _ => [] end
  | _ => []
  end.

(* whenever the outer cell of a switch_c is updated, its new value is a reference to an existing cell
   (otherwise the specification of the switch_c is `Illegal`) *)
Definition demand_ok_def (st : state) (inj : list (nat * val)) (d : def) : bool :=
  match d with
  | DSwitchC c => match upd st inj (F st) c with
                  | EV (Some (VRef m)) => is_cell_key st m
                  | EV (Some _) => false
                  | _ => true
                  end
  | _ => true
  end.
Definition demands_ok (st : state) (inj : list (nat * val)) : bool :=
  forallb (fun kd => demand_ok_def st inj (snd kd)) (defs st).

(* no instantaneous dependency cycle among the static dependencies.  A switch_s depends on the stream its
   outer cell held at the start of the transaction only, not on the outer cell's update (see Model/Net.v):
   the update of the outer cell may depend on the switch's own output *)
Definition acyclic (st : state) : Prop :=
  exists rank : nat -> nat, forall n d, In d (ndeps st n) -> rank d < rank n.

(* ... nor through the demands that occur in this transaction: the cell a switch_c switches to does not
   depend, within the same transaction, on the switch's own output.  (The POTENTIAL demands `ndem` of a
   switch_c are all the cells of the program; only the actual ones are constrained.) *)
Definition acyclic_dem (st : state) (inj : list (nat * val)) : Prop :=
  exists rank : nat -> nat, forall n d, In d (ndeps st n ++ sdem st inj n) -> rank d < rank n.

Lemma acyclic_dem_acyclic st inj : acyclic_dem st inj -> acyclic st.
Proof. intros [rank RK]. exists rank. intros n d Hd. apply RK. apply in_or_app; auto. Qed.

Lemma NDm_quiet st n ins : existsb is_some ins = false -> NDm st n ins = [].
Proof.
  intros H. unfold NDm. destruct (alookup (defs st) n) as [[]|]; try reflexivity.
  destruct ins as [|o ins]; [reflexivity|]. cbn [nth]. cbn [existsb] in H. apply orb_false_elim in H as [H _].
  destruct o; [discriminate|reflexivity].
Qed.

(* ------------------------------------------------------------------ the refinement *)
Section Refine.
  Variable st : state.
  Variable inj : list (nat * val).
  Hypothesis Hnd : NoDup (map fst (defs st)).
  Hypothesis Hrefs : refs_ok st = true.
  Hypothesis Hres : cells_resolved st = true.
  Hypothesis Hsw : switch_targets_ok st = true.
  Hypothesis Hdem : demands_ok st inj = true.
  Variable gr : graph val.
  Hypothesis Hgr : net_graph st gr.
  Hypothesis Hrk : exists rk : nat -> nat, forall n d, In d (ndeps st n ++ sdem st inj n) -> rk d < rk n.
  Variable fs : list (nat * val).
  Hypothesis Hfs : Permutation fs (net_sources st inj).
  (* a rank for the dependencies and demands that are definitions (the recursion of occ / upd), below the
     fuel of the specification *)
  Variable rank : nat -> nat.
  Hypothesis rank_ok : forall n d, In d (ndeps st n ++ sdem st inj n) -> d < nsize st -> rank d < rank n.
  Hypothesis rank_F : forall n d, alookup (defs st) n = Some d -> rank n < F st.

  Lemma def_demand k d : alookup (defs st) k = Some d -> demand_ok_def st inj d = true.
  Proof.
    intros E. apply alookup_in in E. unfold demands_ok in Hdem. rewrite forallb_forall in Hdem.
    apply (Hdem (k, d) E).
  Qed.

  (* the demanded node is a cell of the program *)
  Lemma sdem_cell n m : In m (sdem st inj n) -> is_cell_key st m = true.
  Proof.
    unfold sdem. destruct (alookup (defs st) n) as [d|] eqn:En; [|intros []].
    destruct d; try (intros []; fail). pose proof (def_demand n _ En) as Dk. cbn [demand_ok_def] in Dk.
    destruct (upd st inj (F st) c) as [[v|]|]; try (intros []; fail).
    destruct v; try (intros []; fail). intros [<-|[]]. exact Dk.
  Qed.

  Lemma sdem_range n m : In m (sdem st inj n) -> m < length gr.
  Proof.
    intros H. apply sdem_cell in H. apply (cell_key_lt st) in H. rewrite (proj1 (proj2 Hgr)). unfold gsize. lia.
  Qed.

  (* the demand function of the engine restricted to the demands the specification makes: a proof device
     (the engine runs the unrestricted NDm; at the solution the two coincide, NDmf_solution below) *)
  Definition NDmf : demand val := fun n ins =>
    filter (fun m => existsb (Nat.eqb m) (sdem st inj n)) (NDm st n ins).

  Lemma NDmf_sub n ins : incl (NDmf n ins) (sdem st inj n).
  Proof.
    intros m H. unfold NDmf in H. apply filter_In in H as [_ H]. apply existsb_exists in H as (x & Hx & E).
    apply Nat.eqb_eq in E. subst x. exact Hx.
  Qed.

  Lemma NDmf_quiet n ins : existsb is_some ins = false -> NDmf n ins = [].
  Proof. intros H. unfold NDmf. rewrite NDm_quiet by exact H. reflexivity. Qed.

  Lemma NDmf_nil n d ins : alookup (defs st) n = Some d -> (forall c, d <> DSwitchC c) -> NDmf n ins = [].
  Proof.
    intros En Hd. unfold NDmf, NDm. rewrite En. destruct d; try reflexivity. exfalso. eapply Hd; reflexivity.
  Qed.

  (* the solution: the denotation of the graph with the restricted demand function *)
  Definition dn (n : nat) : option val := denf (Frule st) NDmf (S (length gr)) gr fs n.

  Lemma Hrk_gr : exists rk : nat -> nat, forall n d, In d (deps (get gr n) ++ sdem st inj n) -> rk d < rk n.
  Proof. destruct Hrk as [rk RK]. exists rk. intros n d. rewrite (proj2 (proj2 Hgr)). apply RK. Qed.

  Lemma dn_eq n :
    dn n = match ndeps st n with
           | [] => lookup fs n
           | ds => if existsb is_some (map dn (ds ++ NDmf n (map dn ds)))
                   then Frule st n (map dn ds) (map dn (NDmf n (map dn ds))) else None
           end.
  Proof.
    unfold dn. rewrite (denf_unfold (Frule st) NDmf gr fs (sdem st inj) (proj1 Hgr) Hrk_gr sdem_range NDmf_sub).
    rewrite (proj2 (proj2 Hgr)). reflexivity.
  Qed.

  (* for every node but a switch_c: nothing is demanded *)
  Lemma dn_eq0 n d : alookup (defs st) n = Some d -> (forall c, d <> DSwitchC c) ->
    dn n = match ndeps st n with
           | [] => lookup fs n
           | ds => if existsb is_some (map dn ds) then Frule st n (map dn ds) [] else None
           end.
  Proof.
    intros En Hd. rewrite dn_eq. destruct (ndeps st n) as [|d0 ds]; [reflexivity|]. cbv zeta.
    rewrite (NDmf_nil n d _ En Hd), app_nil_r. reflexivity.
  Qed.

  Lemma fs_nodup : NoDup (map fst fs).
  Proof.
    eapply Permutation_NoDup; [apply Permutation_map; apply Permutation_sym; exact Hfs|].
    apply net_sources_nodup.
  Qed.

  Lemma lookup_fs n : lookup fs n = src_val st inj n.
  Proof. rewrite (lookup_perm fs (net_sources st inj) n fs_nodup Hfs). apply lookup_sources. Qed.

  Lemma fs_sources : sources gr fs.
  Proof.
    split; [apply fs_nodup|]. intros n v Hin.
    apply (Permutation_in _ Hfs) in Hin. apply net_sources_in in Hin as [Hn Es]. split.
    - rewrite (proj1 (proj2 Hgr)). exact Hn.
    - rewrite (proj2 (proj2 Hgr)). eapply src_val_nodeps; eauto.
  Qed.

  (* the spark of a value() created in this transaction fires the cell's current value *)
  Lemma dn_spark n c : alookup (defs st) n = Some (DValue c) -> amem (fresh st) n = true ->
    dn (spark st n) = Some (curv st c).
  Proof.
    intros En Fr. rewrite dn_eq. unfold spark. rewrite ndeps_ge by lia. rewrite lookup_fs.
    unfold src_val. rewrite key_none_ge by lia.
    replace (Nat.leb (nsize st) (nsize st + n)) with true by (symmetry; apply Nat.leb_le; lia).
    replace (nsize st + n - nsize st) with n by lia. rewrite En, Fr. reflexivity.
  Qed.

  (* a resolved cell is sampled as its committed value *)
  Lemma cur_resolved c d : alookup (defs st) c = Some d -> is_cell d = true -> cur st (F st) c = EV (curv st c).
  Proof.
    intros E Hc. apply alookup_in in E. unfold cells_resolved in Hres. rewrite forallb_forall in Hres.
    specialize (Hres (c, d) E). cbn [fst snd] in Hres. rewrite Hc in Hres. cbn [negb orb] in Hres.
    unfold curv. unfold F. cbn [cur]. destruct (alookup (cvals st) c); [reflexivity|discriminate].
  Qed.

  Lemma cur_cell_key c : is_cell_key st c = true -> cur st (F st) c = EV (curv st c).
  Proof. intros H. apply cell_key_def in H as (d & E & Hc). eapply cur_resolved; eauto. Qed.

  Lemma emap_cur cs : forallb (is_cell_key st) cs = true -> emap (cur st (F st)) cs = EV (map (curv st) cs).
  Proof. intros H. rewrite forallb_forall in H. apply emap_ev. intros c Hc. apply cur_cell_key; auto. Qed.

  Local Ltac once_dep Dn n a :=
    let H := fresh "Rk" in
    assert (H : rank a < rank n)
      by (apply rank_ok; [apply in_or_app; left; rewrite Dn; cbn [In]; auto
                         | first [apply (stream_key_lt st); assumption | apply (cell_key_lt st); assumption]]).

  (* the engine's fixpoint satisfies the recursive equations of occ / upd: by induction on the rank, for
     every fuel above the rank *)
  Lemma occ_upd_dn : forall r n d, rank n = r -> alookup (defs st) n = Some d -> forall f, rank n < f ->
    (is_cell d = false -> occ st inj f n = EV (dn n)) /\ (is_cell d = true -> upd st inj f n = EV (dn n)).
  Proof.
    induction r as [r IH] using lt_wf_ind. intros n d Hr En f Hf. destruct f as [|f]; [lia|].
    assert (IHs : forall a, is_stream_key st a = true -> rank a < rank n -> occ st inj f a = EV (dn a)).
    { intros a Ka Ra. apply stream_key_def in Ka as (da & Ea & Ca).
      apply (IH (rank a) ltac:(lia) a da eq_refl Ea f); [lia | exact Ca]. }
    assert (IHc : forall a, is_cell_key st a = true -> rank a < rank n -> upd st inj f a = EV (dn a)).
    { intros a Ka Ra. apply cell_key_def in Ka as (da & Ea & Ca).
      apply (IH (rank a) ltac:(lia) a da eq_refl Ea f); [lia | exact Ca]. }
    (* ... and at the fuel of the specification *)
    assert (IHcF : forall a, is_cell_key st a = true -> rank a < rank n -> upd st inj (F st) a = EV (dn a)).
    { intros a Ka Ra. apply cell_key_def in Ka as (da & Ea & Ca).
      apply (IH (rank a) ltac:(lia) a da eq_refl Ea (F st)); [eapply rank_F; eauto | exact Ca]. }
    pose proof (def_refs st Hrefs n d En) as R.
    pose proof (lookup_fs n) as Lk. unfold src_val in Lk. rewrite En in Lk.
    pose proof (dn_eq0 n d En) as Dq.
    assert (Dn0 : ndeps st n = ddeps st n d) by (unfold ndeps; rewrite En; reflexivity).
    destruct d; cbn [refs_ok_def] in R; cbn [ddeps] in Dn0;
      cbv beta iota in Lk;
      (split; intros Hc; cbn [is_cell] in Hc; try discriminate); clear Hc;
      try (specialize (Dq ltac:(intros; discriminate)));
      try rewrite (occ_updates st inj f n _ En); try rewrite (upd_hold st inj f n _ En);
      try rewrite (occ_value st inj f n _ En);
      cbn [occ upd]; unfold def_of; try rewrite En; cbn [ebind].
    - (* sink *) rewrite Dq, Dn0, Lk. reflexivity.
    - (* never *) rewrite Dq, Dn0, Lk. reflexivity.
    - (* map *) once_dep Dn0 n s. rewrite (IHs s R Rk). cbn [ebind].
      rewrite Dq, Dn0. unfold Frule. rewrite En. cbn [map existsb nth]. destruct (dn s); reflexivity.
    - (* filter *) once_dep Dn0 n s. rewrite (IHs s R Rk). cbn [ebind].
      rewrite Dq, Dn0. unfold Frule. rewrite En. cbn [map existsb nth]. destruct (dn s); reflexivity.
    - (* merge *) apply andb_prop in R as [Ra Rb]. once_dep Dn0 n a. once_dep Dn0 n b.
      rewrite (IHs a Ra Rk), (IHs b Rb Rk0). cbn [ebind].
      rewrite Dq, Dn0. unfold Frule. rewrite En. cbn [map existsb nth]. destruct (dn a), (dn b); reflexivity.
    - (* snapshot *) apply andb_prop in R as [Ra Rb]. once_dep Dn0 n s. rewrite (IHs s Ra Rk). cbn [ebind].
      rewrite Dq, Dn0. unfold Frule. rewrite En. cbn [map existsb nth]. destruct (dn s); [|reflexivity].
      rewrite (emap_cur cs Rb). reflexivity.
    - (* gate *) apply andb_prop in R as [Ra Rb]. once_dep Dn0 n s. rewrite (IHs s Ra Rk). cbn [ebind].
      rewrite Dq, Dn0. unfold Frule. rewrite En. cbn [map existsb nth]. destruct (dn s); [|reflexivity].
      rewrite (cur_cell_key c Rb). reflexivity.
    - (* once *) destruct (amem (Sodium.fired st) n) eqn:Fd.
      + rewrite Dq, Dn0, Lk. reflexivity.
      + once_dep Dn0 n s. rewrite (IHs s R Rk).
        rewrite Dq, Dn0. unfold Frule. rewrite En. cbn [map existsb nth]. destruct (dn s); reflexivity.
    - (* updates *) once_dep Dn0 n c. rewrite (IHc c R Rk).
      rewrite Dq, Dn0. unfold Frule. rewrite En. cbn [map existsb nth]. destruct (dn c); reflexivity.
    - (* value: the updates, or_else (only in the transaction that created it) the spark *)
      destruct (amem (fresh st) n) eqn:Fs.
      + once_dep Dn0 n c. rewrite (IHc c R Rk). cbn [ebind].
        rewrite Dq, Dn0. unfold Frule. rewrite En. cbn [map existsb nth].
        rewrite (dn_spark n c En Fs). destruct (dn c); [reflexivity|].
        rewrite (cur_cell_key c R). reflexivity.
      + once_dep Dn0 n c. rewrite (IHc c R Rk). cbn [ebind].
        rewrite Dq, Dn0. unfold Frule. rewrite En. cbn [map existsb nth]. destruct (dn c); reflexivity.
    - (* switch_s: the stream held at the start of the transaction *)
      destruct (switch_target st Hsw n c En) as (m & Ec & Km). rewrite Ec in Dn0 |- *. cbn [ebind].
      once_dep Dn0 n m. rewrite (IHs m Km Rk).
      rewrite Dq, Dn0. unfold Frule. rewrite En. cbn [map existsb nth]. destruct (dn m); reflexivity.
    - (* sloop *) destruct (alookup (loops st) n) as [t|] eqn:Lp.
      + once_dep Dn0 n t. rewrite (IHs t R Rk).
        rewrite Dq, Dn0. unfold Frule. rewrite En. cbn [map existsb nth]. destruct (dn t); reflexivity.
      + rewrite Dq, Dn0, Lk. reflexivity.
    - (* defer: a source of its own deferred transaction *) rewrite Dq, Dn0, Lk. reflexivity.
    - (* split *) rewrite Dq, Dn0, Lk. reflexivity.
    - (* router *) once_dep Dn0 n s. rewrite (IHs s R Rk).
      rewrite Dq, Dn0. unfold Frule. rewrite En. cbn [map existsb nth]. destruct (dn s); reflexivity.
    - (* route *) destruct (alookup (defs st) r0) as [dr|] eqn:Er; [|discriminate].
      destruct dr; try discriminate. cbn [ebind].
      once_dep Dn0 n s. rewrite (IHs s R Rk). cbn [ebind].
      rewrite Dq, Dn0. unfold Frule. rewrite En, Er. cbn [map existsb nth]. destruct (dn s); reflexivity.
    - (* hold *) once_dep Dn0 n s. rewrite (IHs s R Rk).
      rewrite Dq, Dn0. unfold Frule. rewrite En. cbn [map existsb nth]. destruct (dn s); reflexivity.
    - (* const *) rewrite Dq, Dn0, Lk. reflexivity.
    - (* map_c *) once_dep Dn0 n c. rewrite (IHc c R Rk). cbn [ebind].
      rewrite Dq, Dn0. unfold Frule. rewrite En. cbn [map existsb nth]. destruct (dn c); reflexivity.
    - (* lift *)
      assert (Hcs : forall c, In c cs -> upd st inj f c = EV (dn c)).
      { intros c Hin. rewrite forallb_forall in R. apply IHc; [apply R; auto|].
        apply rank_ok; [apply in_or_app; left; rewrite Dn0; exact Hin | apply (cell_key_lt st); apply R; auto]. }
      rewrite (emap_ev (upd st inj f) dn cs Hcs). cbn [ebind].
      rewrite Dq, Dn0. cbv zeta.
      destruct cs as [|c0 cs'].
      { cbn [map existsb]. rewrite Lk. reflexivity. }
      change (existsb (fun o : option val => match o with Some _ => true | None => false end)) with (existsb (@is_some val)).
      destruct (existsb is_some (map dn (c0 :: cs'))) eqn:Ex; [|reflexivity].
      rewrite (emap_ev _ (fun c => match dn c with Some v => v | None => curv st c end) (c0 :: cs')).
      2:{ intros c Hin. rewrite (Hcs c Hin). cbn [ebind]. destruct (dn c); [reflexivity|].
          rewrite forallb_forall in R. apply cur_cell_key. apply R; auto. }
      cbn [ebind]. unfold Frule. rewrite En, Ex. rewrite map_combine_map. reflexivity.
    - (* switch_c: the outer cell c, the cell i held at the start of the transaction, and - demanded from
         inside the update when c fires a reference to m - the cell m *)
      clear Dq.
      destruct (switch_target_c st Hsw n c En) as (i & Ec & Ki). rewrite Ec in Dn0.
      once_dep Dn0 n c. once_dep Dn0 n i.
      rewrite (IHc c R Rk). cbn [ebind].
      pose proof (IHcF c R Rk) as UF.
      assert (Sd : sdem st inj n = match dn c with Some (VRef m) => [m] | _ => [] end).
      { unfold sdem. rewrite En, UF. reflexivity. }
      pose proof (def_demand n _ En) as Dk. cbn [demand_ok_def] in Dk. rewrite UF in Dk.
      rewrite (dn_eq n), Dn0. cbn [map]. unfold NDmf, NDm. rewrite En. cbn [nth]. rewrite Sd.
      destruct (dn c) as [v|] eqn:Ev.
      + (* the outer cell fired: it is a reference to a cell m, which is demanded *)
        destruct v; try discriminate. rename h into m.
        cbn [filter existsb]. rewrite Nat.eqb_refl. cbn [orb app map existsb]. rewrite Ev. cbn [is_some orb].
        assert (Rm : rank m < rank n).
        { apply rank_ok; [apply in_or_app; right; rewrite Sd; left; reflexivity | apply (cell_key_lt st); exact Dk]. }
        rewrite (IHc m Dk Rm). cbn [ebind].
        unfold Frule. rewrite En. cbn [nth].
        destruct (dn m); [reflexivity|]. rewrite (cur_cell_key m Dk). reflexivity.
      + (* no switch: the current inner cell's update *)
        cbn [filter app map existsb]. rewrite Ev, Ec. cbn [ebind]. rewrite (IHc i Ki Rk0).
        unfold Frule. rewrite En. cbn [nth is_some orb]. destruct (dn i); reflexivity.
    - (* cloop *) destruct (alookup (loops st) n) as [t|] eqn:Lp.
      + once_dep Dn0 n t. rewrite (IHc t R Rk).
        rewrite Dq, Dn0. unfold Frule. rewrite En. cbn [map existsb nth]. destruct (dn t); reflexivity.
      + rewrite Dq, Dn0, Lk. reflexivity.
  Qed.

  Lemma refines_key n d : alookup (defs st) n = Some d ->
    (is_cell d = false -> occ st inj (F st) n = EV (dn n)) /\ (is_cell d = true -> upd st inj (F st) n = EV (dn n)).
  Proof. intros En. apply (occ_upd_dn (rank n) n d eq_refl En (F st)). eapply rank_F; eauto. Qed.

  (* at the solution the engine's demand is the specification's demand ... *)
  Lemma NDm_solution n : NDm st n (map dn (ndeps st n)) = sdem st inj n.
  Proof.
    unfold NDm, sdem. destruct (alookup (defs st) n) as [d|] eqn:En; [|reflexivity].
    destruct d; try reflexivity.
    pose proof (def_refs st Hrefs n _ En) as R. cbn [refs_ok_def] in R.
    apply cell_key_def in R as (dc & Ec & Cc).
    rewrite (proj2 (refines_key c dc Ec) Cc).
    assert (E0 : nth 0 (map dn (ndeps st n)) None = dn c).
    { unfold ndeps. rewrite En. cbn [ddeps]. destruct (cur st (F st) c) as [[]|]; reflexivity. }
    rewrite E0. reflexivity.
  Qed.

  (* ... so that the restriction of the demand function is immaterial *)
  Lemma NDmf_solution n : NDmf n (map dn (ndeps st n)) = NDm st n (map dn (ndeps st n)).
  Proof.
    unfold NDmf. rewrite NDm_solution. apply filter_all. intros m Hm.
    apply existsb_exists. exists m. split; [exact Hm | apply Nat.eqb_refl].
  Qed.

  (* dn is a solution of the equations of the engine that Model/Net.v runs *)
  Lemma dn_solution n : ndeps st n <> [] ->
    dn n = (if existsb is_some (map dn (ndeps st n ++ NDm st n (map dn (ndeps st n))))
            then Frule st n (map dn (ndeps st n)) (map dn (NDm st n (map dn (ndeps st n)))) else None).
  Proof.
    intros NE. rewrite dn_eq at 1. rewrite <- NDmf_solution. destruct (ndeps st n); [contradiction|reflexivity].
  Qed.
End Refine.

(* ------------------------------------------------------------------ the headline theorem *)
(* the nodes that node n demanded, read off the final firings *)
Definition ndemanded (st : state) (fires : list (option val)) (n : nat) : list nat :=
  NDm st n (map (fire_of fires) (ndeps st n)).

(* the update log (oldest first): every node is updated at most once, exactly the nodes one of whose
   dependencies or demanded nodes fired, and never before one of these *)
Definition updates_once_after_deps (st : state) (fires : list (option val)) (lg : list nat) : Prop :=
  NoDup lg /\
  (forall n, In n lg <-> (n < gsize st /\ ndeps st n <> [] /\
                          exists d, In d (ndeps st n ++ ndemanded st fires n) /\ fire_of fires d <> None)) /\
  (forall l1 n l2, lg = l1 ++ n :: l2 -> forall d, In d (ndeps st n ++ ndemanded st fires n) -> ~ In d l2).

Lemma nth_map_seq {A} (f : nat -> A) N n d : n < N -> nth n (map f (seq 0 N)) d = f n.
Proof.
  intros H. rewrite (nth_indep _ d (f 0)) by (rewrite map_length, seq_length; exact H).
  rewrite map_nth, seq_nth by exact H. reflexivity.
Qed.

Theorem net_refines st inj gr fs :
  NoDup (map fst (defs st)) -> refs_ok st = true -> cells_resolved st = true ->
  switch_targets_ok st = true -> demands_ok st inj = true -> acyclic_dem st inj ->
  net_graph st gr -> Permutation fs (net_sources st inj) ->
  exists fires lg,
    net_run st gr fs = Some (fires, lg) /\
    length fires = gsize st /\
    (forall s d, alookup (defs st) s = Some d -> is_cell d = false ->
                 occ st inj (F st) s = EV (fire_of fires s)) /\
    (forall c d, alookup (defs st) c = Some d -> is_cell d = true ->
                 upd st inj (F st) c = EV (fire_of fires c)) /\
    updates_once_after_deps st fires lg.
Proof.
  intros Hnd Hrefs Hres Hsw Hdem Hac Hgr Hfs. pose proof Hac as [rank RK].
  pose proof Hgr as (Hwf & HL & HD).
  (* the edges among definitions only (without the sparks): the recursion of occ / upd.  A rank below
     the number of definitions: the fuel of the specification is enough *)
  pose (E := fun n => filter (fun d => Nat.ltb d (nsize st)) (ndeps st n ++ sdem st inj n)).
  destruct (height_bound E (map fst (defs st)) rank) as (h & Hh & Hb).
  { intros n d Hd. apply filter_In in Hd as [Hd _]. apply RK; exact Hd. }
  { intros n d _ Hd. apply filter_In in Hd as [Hd Lt]. apply Nat.ltb_lt in Lt.
    apply in_app_or in Hd as [Hd|Hd].
    - destruct (ndeps_real st Hrefs Hsw n d Hd Lt) as [dd Ed].
      apply alookup_in in Ed. apply in_map_iff. exists (d, dd); auto.
    - apply (sdem_cell st inj Hdem) in Hd. apply cell_key_def in Hd as (dd & Ed & _).
      apply alookup_in in Ed. apply in_map_iff. exists (d, dd); auto. }
  assert (Hh' : forall n d, In d (ndeps st n ++ sdem st inj n) -> d < nsize st -> h d < h n).
  { intros n d Hd Lt. apply Hh. apply filter_In. split; [exact Hd|]. apply Nat.ltb_lt; exact Lt. }
  assert (HF : forall n d, alookup (defs st) n = Some d -> h n < F st).
  { intros n d En. apply alookup_in in En.
    assert (In n (map fst (defs st))) by (apply in_map_iff; exists (n, d); auto).
    pose proof (Hb n H). rewrite map_length in H0. unfold F. lia. }
  pose (DN := dn st inj gr fs).
  pose proof (fs_sources st inj gr Hgr fs Hfs) as Hsrc.
  assert (RKg : forall n d, In d (deps (get gr n) ++ sdem st inj n) -> rank d < rank n) by (intros n d; rewrite HD; apply RK).
  assert (DemR : forall n d, In d (sdem st inj n) -> d < length gr).
  { intros n d. apply (sdem_range st inj Hdem gr Hgr). }
  destruct (txn_run (Frule st) (NDm st) gr fs (sdem st inj) rank DN Hwf RKg DemR Hsrc) as (s' & Er & _ & Fi & NDl & Iff & St).
  { (* sources *) intros n Hn Dn. unfold DN. rewrite (dn_eq st inj Hdem gr Hgr Hac fs), <- HD, Dn. reflexivity. }
  { (* the equations *) intros n Hn NE. rewrite HD in *. unfold DN.
    apply (dn_solution st inj Hrefs Hres Hsw Hdem gr Hgr Hac fs Hfs h Hh' HF n NE). }
  { (* the demands at the solution are those of the specification *)
    intros n Hn. rewrite HD. unfold DN.
    rewrite (NDm_solution st inj Hrefs Hres Hsw Hdem gr Hgr Hac fs Hfs h Hh' HF n). apply incl_refl. }
  { apply NDm_quiet. }
  assert (Fo : forall n, n < gsize st -> fire_of (map fire (g s')) n = DN n).
  { intros n Hn. unfold fire_of. rewrite Fi. rewrite <- HL in Hn. apply nth_map_seq; exact Hn. }
  assert (Klt : forall n d, alookup (defs st) n = Some d -> n < gsize st).
  { intros n d En. apply key_lt_nsize in En. unfold gsize. lia. }
  assert (Edem : forall n, ndemanded st (map fire (g s')) n = demanded (NDm st) gr DN n).
  { intros n. unfold ndemanded, demanded, Dof. rewrite HD. f_equal. apply map_ext_in. intros d Hd. apply Fo.
    eapply ndeps_range; eauto. }
  assert (InpR : forall n d, In d (ndeps st n ++ demanded (NDm st) gr DN n) -> d < gsize st).
  { intros n d Hd. apply in_app_or in Hd as [Hd|Hd]; [eapply ndeps_range; eauto|].
    unfold demanded, Dof in Hd. rewrite HD in Hd. unfold DN in Hd.
    rewrite (NDm_solution st inj Hrefs Hres Hsw Hdem gr Hgr Hac fs Hfs h Hh' HF n) in Hd.
    rewrite <- HL. eapply DemR; eauto. }
  exists (map fire (g s')), (rev (log s')).
  split; [|split; [|split; [|split]]].
  - unfold net_run. unfold init_st, fire_all in Er. rewrite Er. reflexivity.
  - rewrite Fi, map_length, seq_length. exact HL.
  - intros s d Es Cs. rewrite Fo by (eapply Klt; eauto).
    apply (refines_key st inj Hrefs Hres Hsw Hdem gr Hgr Hac fs Hfs h Hh' HF s d Es); exact Cs.
  - intros c d Ec Cc. rewrite Fo by (eapply Klt; eauto).
    apply (refines_key st inj Hrefs Hres Hsw Hdem gr Hgr Hac fs Hfs h Hh' HF c d Ec); exact Cc.
  - split; [exact NDl|]. split.
    + intros n. rewrite Iff, Edem. unfold Dof. rewrite HD.
      split; intros (Hn & NE & d & Hd & Nd).
      * rewrite HL in Hn. split; [exact Hn|split; [exact NE|exists d; split; [exact Hd|]]].
        rewrite Fo by (eapply InpR; eauto). exact Nd.
      * split; [rewrite HL; exact Hn|split; [exact NE|exists d; split; [exact Hd|]]].
        rewrite Fo in Nd by (eapply InpR; eauto). exact Nd.
    + intros l1 n l2 El d Hd. apply (St l1 n l2 El d). rewrite Edem in Hd. unfold Dof. rewrite HD. exact Hd.
Qed.
Print Assumptions net_refines.

(* the same for the graph built by `compile` and the sources queued in node order *)
Corollary net_txn_refines st inj :
  NoDup (map fst (defs st)) -> refs_ok st = true -> cells_resolved st = true ->
  switch_targets_ok st = true -> demands_ok st inj = true -> acyclic_dem st inj ->
  exists fires lg,
    net_txn st inj = Some (fires, lg) /\
    length fires = gsize st /\
    (forall s d, alookup (defs st) s = Some d -> is_cell d = false ->
                 occ st inj (F st) s = EV (fire_of fires s)) /\
    (forall c d, alookup (defs st) c = Some d -> is_cell d = true ->
                 upd st inj (F st) c = EV (fire_of fires c)) /\
    updates_once_after_deps st fires lg.
Proof.
  intros Hnd Hrefs Hres Hsw Hdem Hac. unfold net_txn.
  apply net_refines; auto. apply compile_net_graph; auto.
Qed.
Print Assumptions net_txn_refines.

(* glitch freedom / order independence: any two graphs for the program (any registration order of the
   dependents) and any two queue orders of the sources end with the same firings *)
Corollary net_order_independent st inj gr1 fs1 gr2 fs2 :
  NoDup (map fst (defs st)) -> refs_ok st = true -> cells_resolved st = true ->
  switch_targets_ok st = true -> demands_ok st inj = true -> acyclic_dem st inj ->
  net_graph st gr1 -> Permutation fs1 (net_sources st inj) ->
  net_graph st gr2 -> Permutation fs2 (net_sources st inj) ->
  exists fires1 lg1 fires2 lg2,
    net_run st gr1 fs1 = Some (fires1, lg1) /\ net_run st gr2 fs2 = Some (fires2, lg2) /\
    forall n d, alookup (defs st) n = Some d -> fire_of fires1 n = fire_of fires2 n.
Proof.
  intros Hnd Hrefs Hres Hsw Hdem Hac G1 P1 G2 P2.
  destruct (net_refines st inj gr1 fs1 Hnd Hrefs Hres Hsw Hdem Hac G1 P1) as (f1 & l1 & E1 & _ & O1 & U1 & _).
  destruct (net_refines st inj gr2 fs2 Hnd Hrefs Hres Hsw Hdem Hac G2 P2) as (f2 & l2 & E2 & _ & O2 & U2 & _).
  exists f1, l1, f2, l2. split; [exact E1|]. split; [exact E2|].
  intros n d En. destruct (is_cell d) eqn:Cd.
  - pose proof (U1 n d En Cd) as A. rewrite (U2 n d En Cd) in A. injection A as A. auto.
  - pose proof (O1 n d En Cd) as A. rewrite (O2 n d En Cd) in A. injection A as A. auto.
Qed.
Print Assumptions net_order_independent.

(* ------------------------------------------------------------------ listeners and commit: close_txn *)
Lemma cur_cvals st c v : alookup (cvals st) c = Some v -> cur st (F st) c = EV v.
Proof. intros E. unfold F. cbn [cur]. rewrite E. reflexivity. Qed.

(* what the specification does when the transaction closes = the listener calls read off the engine's
   firings + the commit of the fired cell updates and once flags + the work posted by the listeners of
   defer and split *)
Theorem close_txn_refines st inj posts fires lg :
  NoDup (map fst (defs st)) -> refs_ok st = true -> cells_resolved st = true ->
  switch_targets_ok st = true -> demands_ok st inj = true -> listeners_ok st = true -> lazies_val st = true ->
  acyclic_dem st inj ->
  net_txn st inj = Some (fires, lg) ->
  close_txn st inj posts =
  EV (mkRes (net_commit st fires) (net_calls st fires)
            (net_deferred st fires ++ map (fun p => DPost (fst p) (snd p)) posts)).
Proof.
  intros Hnd Hrefs Hres Hsw Hdem Hls Hlz Hac E.
  destruct (net_txn_refines st inj Hnd Hrefs Hres Hsw Hdem Hac) as (fires' & lg' & E' & _ & Ho & Hu & _).
  rewrite E in E'. injection E' as <- <-.
  unfold close_txn.
  (* listeners *)
  rewrite (emap_ev _ (fun lh : nat * nat => match fire_of fires (snd lh) with Some v => [BCall (fst lh) v] | None => [] end)
                   (rev (listeners st))).
  2:{ intros [l s] Hin. cbn [fst snd]. apply in_rev in Hin.
      unfold listeners_ok in Hls. rewrite forallb_forall in Hls. specialize (Hls (l, s) Hin). cbn [snd] in Hls.
      apply stream_key_def in Hls as (d & Ed & Cd). rewrite (Ho s d Ed Cd). reflexivity. }
  cbn [ebind].
  (* cells *)
  rewrite (emap_ev _ (fun kd : nat * def =>
                        match fire_of fires (fst kd) with
                        | Some v => [(fst kd, v)]
                        | None => match alookup (cvals st) (fst kd) with Some v => [(fst kd, v)] | None => [] end
                        end) (filter (fun kd => is_cell (snd kd)) (defs st))).
  2:{ intros [k d] Hin. cbn [fst snd]. apply filter_In in Hin as [Hin Cd]. cbn [snd] in Cd.
      pose proof (alookup_nodup _ _ _ Hnd Hin) as Ek. rewrite (Hu k d Ek Cd). cbn [ebind].
      destruct (fire_of fires k); [reflexivity|].
      unfold cells_resolved in Hres. rewrite forallb_forall in Hres. specialize (Hres (k, d) Hin).
      cbn [fst snd] in Hres. rewrite Cd in Hres. cbn [negb orb] in Hres.
      destruct (alookup (cvals st) k) as [v|] eqn:Ev; [|discriminate].
      rewrite (cur_cvals st k v Ev). reflexivity. }
  cbn [ebind].
  (* lazies *)
  rewrite (emap_ev _ (fun zl => zl) (lazies st)).
  2:{ intros zl Hin. unfold lazies_val in Hlz. rewrite forallb_forall in Hlz. specialize (Hlz zl Hin).
      destruct (fst (snd zl)); [reflexivity|discriminate]. }
  cbn [ebind]. rewrite map_id.
  (* once flags *)
  rewrite (emap_ev _ (fun kd : nat * def =>
                        match snd kd with
                        | DOnce _ => match fire_of fires (fst kd) with Some _ => [fst kd] | None => [] end
                        | _ => []
                        end) (defs st)).
  2:{ intros [k d] Hin. cbn [fst snd]. destruct d; try reflexivity.
      pose proof (alookup_nodup _ _ _ Hnd Hin) as Ek. rewrite (Ho k _ Ek eq_refl). reflexivity. }
  cbn [ebind].
  (* defer / split: the argument's firing *)
  rewrite (emap_ev _ (fun kd : nat * def =>
                        match snd kd with
                        | DDefer a => match fire_of fires a with Some v => [DEvent (fst kd) v] | None => [] end
                        | DSplit a => match fire_of fires a with
                                      | Some (VList l) => map (DEvent (fst kd)) l
                                      | Some v => [DEvent (fst kd) v]
                                      | None => []
                                      end
                        | _ => []
                        end) (rev (defs st))).
  2:{ intros [k d] Hin. cbn [fst snd]. apply in_rev in Hin.
      pose proof (alookup_nodup _ _ _ Hnd Hin) as Ek. pose proof (def_refs st Hrefs k d Ek) as R.
      destruct d; try reflexivity; cbn [refs_ok_def] in R;
        apply stream_key_def in R as (da & Ea & Ca); rewrite (Ho s da Ea Ca); reflexivity. }
  cbn [ebind]. reflexivity.
Qed.
Print Assumptions close_txn_refines.

Corollary listeners_refine st inj fires lg r :
  NoDup (map fst (defs st)) -> refs_ok st = true -> cells_resolved st = true ->
  switch_targets_ok st = true -> demands_ok st inj = true -> listeners_ok st = true -> lazies_val st = true ->
  acyclic_dem st inj ->
  net_txn st inj = Some (fires, lg) -> close_txn st inj [] = EV r ->
  r_obs r = net_calls st fires /\ r_state r = net_commit st fires /\ r_deferred r = net_deferred st fires.
Proof.
  intros Hnd Hrefs Hres Hsw Hdem Hls Hlz Hac E C.
  rewrite (close_txn_refines st inj [] fires lg Hnd Hrefs Hres Hsw Hdem Hls Hlz Hac E) in C.
  injection C as <-. cbn [r_obs r_state r_deferred map]. rewrite app_nil_r. auto.
Qed.
Print Assumptions listeners_refine.

(* ------------------------------------------------------------------ the invariants *)
(* the part of the hypotheses that does not depend on the current wiring; it holds again after a commit *)
Definition static_ok (st : state) : Prop :=
  NoDup (map fst (defs st)) /\ refs_ok st = true /\ cells_resolved st = true /\
  listeners_ok st = true /\ lazies_val st = true.

(* the part that depends on the values the outer cells of the switches hold and on what the transaction
   sends: the outer cells refer to streams (switch_s) / cells (switch_c), an outer cell of a switch_c that
   is updated is updated to a reference to a cell, and the graph wired accordingly - static dependencies
   and the demands of this transaction - is acyclic.  A commit that re-wires a switch can break either, so
   the history theorems assume it of every state in which a transaction is run, for what that transaction
   sends. *)
Definition wired_ok (st : state) (inj : list (nat * val)) : Prop :=
  switch_targets_ok st = true /\ demands_ok st inj = true /\ acyclic_dem st inj.

Lemma concat_map_singleton {A B} (f : A -> list B) (h : A -> B) l :
  (forall x, In x l -> f x = [h x]) -> concat (map f l) = map h l.
Proof.
  induction l as [|x t IH]; intros H; [reflexivity|]. cbn [map concat].
  rewrite (H x (or_introl eq_refl)), IH by (intros; apply H; right; auto). reflexivity.
Qed.

Lemma alookup_map_some {A B} (l : list (nat * A)) (w : nat * A -> B) k :
  In k (map fst l) -> exists v, alookup (map (fun kd => (fst kd, w kd)) l) k = Some v.
Proof.
  induction l as [|[k' a] t IH]; intros H; [contradiction|]. cbn [map fst alookup].
  destruct (Nat.eqb_spec k k') as [->|Ne]; [eexists; reflexivity|].
  apply IH. destruct H as [E|H]; [cbn [fst] in E; congruence | exact H].
Qed.

Lemma amem_app l1 l2 k : amem (l1 ++ l2) k = amem l1 k || amem l2 k.
Proof. unfold amem. apply existsb_app. Qed.

Lemma static_ok_commit st fires : static_ok st -> static_ok (net_commit st fires).
Proof.
  intros (Hnd & Hrefs & Hres & Hls & Hlz).
  split; [exact Hnd|]. split; [exact Hrefs|].
  split; [|split; [exact Hls|exact Hlz]].
  unfold cells_resolved. apply forallb_forall. intros [k d] Hin. cbn [fst snd].
  change (defs (net_commit st fires)) with (defs st) in Hin.
  destruct (is_cell d) eqn:Cd; [|reflexivity]. cbn [negb orb].
  change (cvals (net_commit st fires))
    with (concat (map (fun kd : nat * def =>
                 match fire_of fires (fst kd) with
                 | Some v => [(fst kd, v)]
                 | None => match alookup (cvals st) (fst kd) with
                           | Some v => [(fst kd, v)]
                           | None => []
                           end
                 end) (filter (fun kd => is_cell (snd kd)) (defs st)))).
  rewrite (concat_map_singleton _ (fun kd : nat * def =>
             (fst kd, match fire_of fires (fst kd) with
                      | Some v => v
                      | None => match alookup (cvals st) (fst kd) with Some v => v | None => VUnit end
                      end))).
  2:{ intros [k' d'] Hin'. cbn [fst snd]. apply filter_In in Hin' as [Hin' Cd']. cbn [snd] in Cd'.
      destruct (fire_of fires k'); [reflexivity|].
      unfold cells_resolved in Hres. rewrite forallb_forall in Hres. specialize (Hres (k', d') Hin').
      cbn [fst snd] in Hres. rewrite Cd' in Hres. cbn [negb orb] in Hres.
      destruct (alookup (cvals st) k'); [reflexivity|discriminate]. }
  destruct (alookup_map_some (filter (fun kd => is_cell (snd kd)) (defs st))
              (fun kd : nat * def => match fire_of fires (fst kd) with
                      | Some v => v
                      | None => match alookup (cvals st) (fst kd) with Some v => v | None => VUnit end
                      end) k) as [v Ev].
  { apply in_map_iff. exists (k, d). split; auto. apply filter_In. split; auto. }
  rewrite Ev. reflexivity.
Qed.

(* programs without switch_s and switch_c: the wiring never changes (once nodes and value sparks only drop
   dependencies) and nothing is demanded, so the wiring invariant is preserved by every commit *)
Definition no_switch (st : state) : bool :=
  forallb (fun kd : nat * def => match snd kd with DSwitchS _ | DSwitchC _ => false | _ => true end) (defs st).

Lemma no_switch_def st n d : no_switch st = true -> alookup (defs st) n = Some d ->
  (forall c, d <> DSwitchS c) /\ (forall c, d <> DSwitchC c).
Proof.
  intros Hns En. apply alookup_in in En. unfold no_switch in Hns. rewrite forallb_forall in Hns.
  specialize (Hns _ En). cbn [snd] in Hns. split; intros c ->; discriminate.
Qed.

Lemma no_switch_sdem st inj n : no_switch st = true -> sdem st inj n = [].
Proof.
  intros Hns. unfold sdem. destruct (alookup (defs st) n) as [d|] eqn:En; [|reflexivity].
  destruct d; try reflexivity. exfalso. eapply (proj2 (no_switch_def st n _ Hns En)); reflexivity.
Qed.

Lemma no_switch_demands st inj : no_switch st = true -> demands_ok st inj = true.
Proof.
  unfold no_switch, demands_ok. rewrite !forallb_forall. intros H kd Hin. specialize (H kd Hin).
  destruct (snd kd); try reflexivity. discriminate.
Qed.

Lemma ndeps_commit_incl st fires n d : no_switch st = true ->
  In d (ndeps (net_commit st fires) n) -> In d (ndeps st n).
Proof.
  intros Hns. unfold ndeps. change (defs (net_commit st fires)) with (defs st).
  destruct (alookup (defs st) n) as [dn|] eqn:En; [|auto].
  destruct dn; cbn [ddeps]; auto.
  - (* once *)
    change (Sodium.fired (net_commit st fires))
      with (concat (map (fun kd : nat * def =>
                     match snd kd with
                     | DOnce _ => match fire_of fires (fst kd) with Some _ => [fst kd] | None => [] end
                     | _ => []
                     end) (defs st)) ++ Sodium.fired st).
    rewrite amem_app. destruct (amem (Sodium.fired st) n); [rewrite orb_true_r; auto|].
    destruct (amem _ n); cbn [orb]; [intros []|auto].
  - (* value: not fresh any more *)
    change (fresh (net_commit st fires)) with (@nil nat). cbn [amem existsb].
    intros [<-|[]]. destruct (amem (fresh st) n); left; reflexivity.
  - (* switch_s *)
    apply alookup_in in En. unfold no_switch in Hns. rewrite forallb_forall in Hns.
    specialize (Hns _ En). discriminate.
  - (* switch_c *)
    apply alookup_in in En. unfold no_switch in Hns. rewrite forallb_forall in Hns.
    specialize (Hns _ En). discriminate.
Qed.

Lemma no_switch_targets st : no_switch st = true -> switch_targets_ok st = true.
Proof.
  unfold no_switch, switch_targets_ok. rewrite !forallb_forall. intros H kd Hin. specialize (H kd Hin).
  destruct (snd kd); try reflexivity; discriminate.
Qed.

(* without switches: the static acyclicity is all there is to the wiring invariant *)
Lemma wired_ok_no_switch st inj : no_switch st = true -> acyclic st -> wired_ok st inj.
Proof.
  intros Hns [rank RK]. split; [apply no_switch_targets; exact Hns|]. split; [apply no_switch_demands; exact Hns|].
  exists rank. intros n d Hd. rewrite (no_switch_sdem st inj n Hns), app_nil_r in Hd. apply RK; exact Hd.
Qed.

Lemma acyclic_commit_no_switch st fires : no_switch st = true -> acyclic st -> acyclic (net_commit st fires).
Proof. intros Hns [rank RK]. exists rank. intros n d Hd. apply RK. eapply ndeps_commit_incl; eauto. Qed.

Lemma wired_ok_commit_no_switch st fires inj inj' :
  no_switch st = true -> wired_ok st inj -> wired_ok (net_commit st fires) inj'.
Proof.
  intros Hns (_ & _ & Hac). apply wired_ok_no_switch; [exact Hns|].
  apply acyclic_commit_no_switch; [exact Hns|]. eapply acyclic_dem_acyclic; eauto.
Qed.

(* a checkable witness of acyclicity *)
Definition rank_okb (st : state) (inj : list (nat * val)) (rank : nat -> nat) : bool :=
  forallb (fun kd : nat * def => forallb (fun d => Nat.ltb (rank d) (rank (fst kd)))
                                         (ndeps st (fst kd) ++ sdem st inj (fst kd))) (defs st).

Lemma rank_okb_acyclic st inj rank : rank_okb st inj rank = true -> acyclic_dem st inj.
Proof.
  intros H. exists rank. intros n d Hd. unfold rank_okb in H. rewrite forallb_forall in H.
  assert (Df : exists dd, alookup (defs st) n = Some dd).
  { unfold ndeps, sdem in Hd. destruct (alookup (defs st) n) as [dd|]; [eauto | destruct Hd]. }
  destruct Df as [dd En].
  apply alookup_in in En. specialize (H _ En). cbn [fst] in H. rewrite forallb_forall in H.
  apply Nat.ltb_lt. apply H. exact Hd.
Qed.

Definition wired_okb (rank : nat -> nat) (st : state) (inj : list (nat * val)) : bool :=
  switch_targets_ok st && demands_ok st inj && rank_okb st inj rank.
Lemma wired_okb_ok rank st inj : wired_okb rank st inj = true -> wired_ok st inj.
Proof.
  intros H. apply andb_prop in H as [H B]. apply andb_prop in H as [A C].
  split; [exact A | split; [exact C | eapply rank_okb_acyclic; eauto]].
Qed.

(* ------------------------------------------------------------------ histories *)
(* W holds of every state in which a transaction of the history is run *)
Fixpoint history_all (W : state -> list (nat * val) -> Prop) (st : state) (txns : list (list (nat * val))) : Prop :=
  match txns with
  | [] => True
  | inj :: rest =>
    W st inj /\ match net_txn st inj with
            | Some (fires, _) => history_all W (net_commit st fires) rest
            | None => True
            end
  end.
Definition history_ok : state -> list (list (nat * val)) -> Prop := history_all wired_ok.

Lemma history_all_impl (W W' : state -> list (nat * val) -> Prop) : (forall st inj, W st inj -> W' st inj) ->
  forall txns st, history_all W st txns -> history_all W' st txns.
Proof.
  intros Imp. induction txns as [|inj rest IH]; intros st H; [exact Logic.I|].
  cbn [history_all] in *. destruct H as [Hw H]. split; [apply Imp; exact Hw|].
  destruct (net_txn st inj) as [[fires lg]|]; [apply IH; exact H | exact Logic.I].
Qed.

(* an invariant of the commits is enough *)
Lemma history_all_inv (W : state -> list (nat * val) -> Prop) (P : state -> Prop) :
  (forall st inj, P st -> W st inj) ->
  (forall st inj fires lg, P st -> net_txn st inj = Some (fires, lg) -> P (net_commit st fires)) ->
  forall txns st, P st -> history_all W st txns.
Proof.
  intros PW Pc. induction txns as [|inj rest IH]; intros st Hp; [exact Logic.I|].
  cbn [history_all]. split; [apply PW; exact Hp|].
  destruct (net_txn st inj) as [[fires lg]|] eqn:E; [|exact Logic.I]. apply IH. eapply Pc; eauto.
Qed.

(* a sequence of transactions, each a set of sends: the listener calls of the operational model (engine
   run + commit, the switches re-wired by the commit) are, transaction by transaction, those of the
   specification *)
Theorem net_history_refines : forall txns st, static_ok st -> history_ok st txns ->
  exists os, net_history st txns = Some os /\ spec_history st txns = EV os.
Proof.
  induction txns as [|inj rest IH]; intros st Hok Hh.
  - exists []. split; reflexivity.
  - pose proof Hok as (Hnd & Hrefs & Hres & Hls & Hlz).
    cbn [history_ok history_all] in Hh. destruct Hh as [(Hsw & Hdem & Hac) Hh].
    destruct (net_txn_refines st inj Hnd Hrefs Hres Hsw Hdem Hac) as (fires & lg & E & _).
    rewrite E in Hh.
    destruct (IH (net_commit st fires) (static_ok_commit st fires Hok) Hh) as (os & E1 & E2).
    exists (net_calls st fires :: os). cbn [net_history spec_history].
    rewrite E, E1. split; [reflexivity|].
    rewrite (close_txn_refines st inj [] fires lg Hnd Hrefs Hres Hsw Hdem Hls Hlz Hac E).
    cbn [ebind r_state r_obs]. rewrite E2. reflexivity.
Qed.
Print Assumptions net_history_refines.

(* without switch_s nothing has to be assumed of the later states (the theorem as it was for the static
   combinational fragment, now with defer, split and value) *)
Corollary net_history_refines_no_switch : forall txns st, static_ok st -> no_switch st = true -> acyclic st ->
  exists os, net_history st txns = Some os /\ spec_history st txns = EV os.
Proof.
  intros txns st Hok Hns Hac. apply net_history_refines; [exact Hok|].
  apply (history_all_inv wired_ok (fun s => no_switch s = true /\ acyclic s)).
  - intros s inj [Hn H]. apply wired_ok_no_switch; auto.
  - intros s inj fires lg [Hn Hw] _. split; [exact Hn | apply acyclic_commit_no_switch; auto].
  - split; [exact Hns | exact Hac].
Qed.
Print Assumptions net_history_refines_no_switch.

(* ------------------------------------------------------------------ the deferred queue *)
Definition of_opt {A} (o : option A) : ev A := match o with Some a => EV a | None => EErr Illegal end.

(* W holds of every state in which a deferred transaction is run (for these scheduling choices) *)
Fixpoint deferred_all (W : state -> list (nat * val) -> Prop) (fuel : nat) (choice : list nat) (st : state) (q : list ditem) : Prop :=
  match fuel with
  | O => True
  | S f =>
    match heads [] q with
    | [] => True
    | hs =>
      let k := match choice with c :: _ => Nat.modulo c (length hs) | [] => O end in
      let d := nth k hs (DPost 0 []) in
      let q' := remove_first (source_of d) q in
      match d with
      | DEvent h v =>
        W st [(h, v)] /\ match net_txn st [(h, v)] with
                | Some (fires, _) => deferred_all W f (tl choice) (net_commit st fires) (q' ++ net_deferred st fires)
                | None => True
                end
      | DPost _ _ => deferred_all W f (tl choice) st q'
      end
    end
  end.

(* ... and of the state in which the transaction of the sends is run *)
Definition outer_all (W : state -> list (nat * val) -> Prop) (choice : list nat) (st : state) (inj : list (nat * val))
           (ps : list (nat * list nat)) : Prop :=
  W st inj /\ match net_txn st inj with
          | Some (fires, _) =>
            deferred_all W 200 choice (net_commit st fires)
                         (net_deferred st fires ++ map (fun p => DPost (fst p) (snd p)) ps)
          | None => True
          end.
Definition outer_ok (choice : list nat) (st : state) : Prop := outer_all wired_ok choice st (sends st) (posts st).

Lemma deferred_all_impl (W W' : state -> list (nat * val) -> Prop) : (forall st inj, W st inj -> W' st inj) ->
  forall fuel choice st q, deferred_all W fuel choice st q -> deferred_all W' fuel choice st q.
Proof.
  intros Imp. induction fuel as [|f IH]; intros choice st q H; [exact Logic.I|].
  cbn [deferred_all] in *. destruct (heads [] q) as [|d0 hs0]; [exact Logic.I|].
  cbv zeta in *. destruct (nth _ (d0 :: hs0) (DPost 0 [])) as [h v|kk cs].
  - destruct H as [Hw H]. split; [apply Imp; exact Hw|].
    destruct (net_txn st [(h, v)]) as [[fires lg]|]; [apply IH; exact H | exact Logic.I].
  - apply IH; exact H.
Qed.

Lemma deferred_all_inv (W : state -> list (nat * val) -> Prop) (P : state -> Prop) :
  (forall st inj, P st -> W st inj) ->
  (forall st inj fires lg, P st -> net_txn st inj = Some (fires, lg) -> P (net_commit st fires)) ->
  forall fuel choice st q, P st -> deferred_all W fuel choice st q.
Proof.
  intros PW Pc. induction fuel as [|f IH]; intros choice st q Hp; [exact Logic.I|].
  cbn [deferred_all]. destruct (heads [] q) as [|d0 hs0]; [exact Logic.I|].
  cbv zeta. destruct (nth _ (d0 :: hs0) (DPost 0 [])) as [h v|kk cs].
  - split; [apply PW; exact Hp|].
    destruct (net_txn st [(h, v)]) as [[fires lg]|] eqn:E; [|exact Logic.I]. apply IH. eapply Pc; eauto.
  - apply IH; exact Hp.
Qed.

Lemma outer_all_impl (W W' : state -> list (nat * val) -> Prop) : (forall st inj, W st inj -> W' st inj) ->
  forall choice st inj ps, outer_all W choice st inj ps -> outer_all W' choice st inj ps.
Proof.
  intros Imp choice st inj ps [Hw H]. split; [apply Imp; exact Hw|].
  destruct (net_txn st inj) as [[fires lg]|]; [|exact Logic.I]. eapply deferred_all_impl; eauto.
Qed.

Lemma outer_all_inv (W : state -> list (nat * val) -> Prop) (P : state -> Prop) :
  (forall st inj, P st -> W st inj) ->
  (forall st inj fires lg, P st -> net_txn st inj = Some (fires, lg) -> P (net_commit st fires)) ->
  forall choice st inj ps, P st -> outer_all W choice st inj ps.
Proof.
  intros PW Pc choice st inj ps Hp. split; [apply PW; exact Hp|].
  destruct (net_txn st inj) as [[fires lg]|] eqn:E; [|exact Logic.I].
  apply (deferred_all_inv W P PW Pc). eapply Pc; eauto.
Qed.

(* the post closures in the queue sample cells *)
Definition queue_ok (st : state) (q : list ditem) : Prop :=
  forall k cs, In (DPost k cs) q -> forallb (is_cell_key st) cs = true.

Lemma heads_incl q : forall seen d, In d (heads seen q) -> In d q.
Proof.
  induction q as [|x t IH]; intros seen d H; [contradiction|]. cbn [heads] in H.
  destruct (amem seen (source_of x)); [right; eapply IH; eauto|].
  destruct H as [<-|H]; [left; reflexivity | right; eapply IH; eauto].
Qed.

Lemma remove_first_incl src q : forall d, In d (remove_first src q) -> In d q.
Proof.
  induction q as [|x t IH]; intros d H; [contradiction|]. cbn [remove_first] in H.
  destruct (Nat.eqb (source_of x) src); [right; exact H|].
  destruct H as [<-|H]; [left; reflexivity | right; apply IH; exact H].
Qed.

Lemma nth_mod_in (hs : list ditem) (choice : list nat) : hs <> [] ->
  In (nth (match choice with c :: _ => Nat.modulo c (length hs) | [] => O end) hs (DPost 0 [])) hs.
Proof.
  intros NE. apply nth_In. destruct hs as [|x t]; [contradiction|].
  destruct choice as [|c cs]; [cbn [length]; lia|]. apply Nat.mod_upper_bound. discriminate.
Qed.

Lemma queue_ok_commit st fires q : queue_ok st q -> queue_ok (net_commit st fires) q.
Proof. intros H k cs Hin. exact (H k cs Hin). Qed.

Lemma net_deferred_events st fires k cs : ~ In (DPost k cs) (net_deferred st fires).
Proof.
  unfold net_deferred. intros H. apply in_concat in H as (l & Hl & H).
  apply in_map_iff in Hl as ([k' d] & <- & _). cbn [fst snd] in H.
  destruct d; try contradiction.
  - destruct (fire_of fires s); [destruct H as [H|[]]; discriminate | contradiction].
  - destruct (fire_of fires s) as [v|]; [|contradiction].
    destruct v; try (destruct H as [H|[]]; discriminate).
    apply in_map_iff in H as (x & H & _). discriminate.
Qed.

(* the deferred queue: every item in a transaction of its own, run by the engine on the graph compiled
   from the state the previous one committed *)
Lemma net_run_deferred_refines : forall fuel choice st q acc,
  static_ok st -> queue_ok st q -> deferred_all wired_ok fuel choice st q ->
  run_deferred fuel choice st q acc = of_opt (net_run_deferred fuel choice st q acc).
Proof.
  induction fuel as [|f IH]; intros choice st q acc Hok Hq Hd; [reflexivity|].
  cbn [run_deferred net_run_deferred deferred_all] in *.
  destruct (heads [] q) as [|d0 hs0] eqn:Hh; [reflexivity|].
  cbv zeta in *.
  pose proof (nth_mod_in (d0 :: hs0) choice ltac:(discriminate)) as Hin.
  rewrite <- Hh in Hin at 2. apply heads_incl in Hin.
  destruct (nth _ (d0 :: hs0) (DPost 0 [])) as [h v|kk cs] eqn:Ed.
  - (* a deferred event *)
    destruct Hd as [(Hsw & Hdem & Hac) Hd].
    pose proof Hok as (Hnd & Hrefs & Hres & Hls & Hlz).
    destruct (net_txn_refines st [(h, v)] Hnd Hrefs Hres Hsw Hdem Hac) as (fires & lg & E & _).
    rewrite E in Hd |- *.
    rewrite (close_txn_refines st [(h, v)] [] fires lg Hnd Hrefs Hres Hsw Hdem Hls Hlz Hac E).
    cbn [ebind r_state r_obs r_deferred map]. rewrite app_nil_r.
    rewrite (IH (tl choice) (net_commit st fires) _ _ (static_ok_commit st fires Hok)); [| |exact Hd].
    + destruct (net_run_deferred f (tl choice) (net_commit st fires) _ _) as [rest|]; reflexivity.
    + intros k cs Hk. apply in_app_or in Hk as [Hk|Hk].
      * apply remove_first_incl in Hk. exact (Hq k cs Hk).
      * exfalso. exact (net_deferred_events st fires k cs Hk).
  - (* a post closure: samples its cells *)
    destruct Hok as (Hnd & Hrefs & Hres & Hls & Hlz).
    rewrite (emap_cur st Hres cs (Hq kk cs Hin)). cbn [ebind].
    rewrite (IH (tl choice) st _ _ (conj Hnd (conj Hrefs (conj Hres (conj Hls Hlz))))); [| |exact Hd].
    + destruct (net_run_deferred f (tl choice) st _ _) as [rest|]; reflexivity.
    + intros k cs' Hk. apply remove_first_incl in Hk. exact (Hq k cs' Hk).
Qed.

Lemma net_run_deferred_static : forall fuel choice st q acc r,
  static_ok st -> net_run_deferred fuel choice st q acc = Some r -> static_ok (fst (fst r)).
Proof.
  induction fuel as [|f IH]; intros choice st q acc r Hok E; [discriminate|].
  cbn [net_run_deferred] in E. destruct (heads [] q) as [|d0 hs0]; [injection E as <-; exact Hok|].
  cbv zeta in E. destruct (nth _ (d0 :: hs0) (DPost 0 [])) as [h v|kk cs].
  - destruct (net_txn st [(h, v)]) as [[fires lg]|]; [|discriminate].
    destruct (net_run_deferred f (tl choice) (net_commit st fires) _ _) as [rest|] eqn:Er; [|discriminate].
    injection E as <-. cbn [fst]. eapply IH; [|exact Er]. apply static_ok_commit; exact Hok.
  - destruct (net_run_deferred f (tl choice) st _ _) as [rest|] eqn:Er; [|discriminate].
    injection E as <-. cbn [fst]. eapply IH; [|exact Er]. exact Hok.
Qed.

(* an outermost close: the transaction of the sends, then the deferred queue in the order given by the
   scheduling choices: same final state, same observations (listener calls and post closures, in order),
   same numbers of alternatives; out of fuel exactly when the specification is *)
Theorem net_end_outer_with_refines choice st inj ps :
  static_ok st -> posts_ok st ps = true -> outer_all wired_ok choice st inj ps ->
  spec_end_outer_with choice st inj ps = of_opt (net_end_outer_with choice st inj ps).
Proof.
  intros Hok Hps [(Hsw & Hdem & Hac) Hd].
  pose proof Hok as (Hnd & Hrefs & Hres & Hls & Hlz).
  destruct (net_txn_refines st inj Hnd Hrefs Hres Hsw Hdem Hac) as (fires & lg & E & _).
  unfold spec_end_outer_with, net_end_outer_with. rewrite E in Hd |- *.
  rewrite (close_txn_refines st inj ps fires lg Hnd Hrefs Hres Hsw Hdem Hls Hlz Hac E).
  cbn [ebind r_state r_obs r_deferred].
  apply net_run_deferred_refines; [apply static_ok_commit; exact Hok | | exact Hd].
  intros k cs Hk. apply in_app_or in Hk as [Hk|Hk].
  - exfalso. exact (net_deferred_events st fires k cs Hk).
  - apply in_map_iff in Hk as ([k' cs'] & Ek & Hk). cbn [fst snd] in Ek. injection Ek as -> ->.
    unfold posts_ok in Hps. rewrite forallb_forall in Hps. exact (Hps _ Hk).
Qed.
Print Assumptions net_end_outer_with_refines.

Corollary net_end_outer_refines choice st :
  static_ok st -> posts_ok st (posts st) = true -> outer_ok choice st ->
  end_outer choice st = of_opt (net_end_outer choice st).
Proof. intros Hok Hps Ho. rewrite end_outer_with_eq. apply net_end_outer_with_refines; assumption. Qed.
Print Assumptions net_end_outer_refines.

Lemma net_end_outer_with_static choice st inj ps r :
  static_ok st -> net_end_outer_with choice st inj ps = Some r -> static_ok (fst (fst r)).
Proof.
  intros Hok E. unfold net_end_outer_with in E. destruct (net_txn st inj) as [[fires lg]|]; [|discriminate].
  eapply net_run_deferred_static; [|exact E]. apply static_ok_commit; exact Hok.
Qed.

(* histories of outermost transactions *)
Fixpoint outer_history_all (W : state -> list (nat * val) -> Prop) (st : state) (txns : list otxn) : Prop :=
  match txns with
  | [] => True
  | (inj, ps, ch) :: rest =>
    posts_ok st ps = true /\ outer_all W ch st inj ps /\
    match net_end_outer_with ch st inj ps with
    | Some r => outer_history_all W (fst (fst r)) rest
    | None => True
    end
  end.
Definition outer_history_ok : state -> list otxn -> Prop := outer_history_all wired_ok.

Lemma outer_history_all_impl (W W' : state -> list (nat * val) -> Prop) : (forall st inj, W st inj -> W' st inj) ->
  forall txns st, outer_history_all W st txns -> outer_history_all W' st txns.
Proof.
  intros Imp. induction txns as [|[[inj ps] ch] rest IH]; intros st H; [exact Logic.I|].
  cbn [outer_history_all] in *. destruct H as (Hp & Ho & H). split; [exact Hp|].
  split; [eapply outer_all_impl; eauto|].
  destruct (net_end_outer_with ch st inj ps) as [r|]; [apply IH; exact H | exact Logic.I].
Qed.

Theorem net_outer_history_refines : forall txns st, static_ok st -> outer_history_ok st txns ->
  spec_outer_history st txns = of_opt (net_outer_history st txns).
Proof.
  induction txns as [|[[inj ps] ch] rest IH]; intros st Hok Hh; [reflexivity|].
  cbn [outer_history_ok outer_history_all] in Hh. destruct Hh as (Hp & Ho & Hh).
  cbn [spec_outer_history net_outer_history].
  rewrite (net_end_outer_with_refines ch st inj ps Hok Hp Ho).
  destruct (net_end_outer_with ch st inj ps) as [r|] eqn:E; [|reflexivity].
  cbn [of_opt ebind]. rewrite (IH (fst (fst r)) (net_end_outer_with_static ch st inj ps r Hok E) Hh).
  destruct (net_outer_history (fst (fst r)) rest) as [os|]; reflexivity.
Qed.
Print Assumptions net_outer_history_refines.

(* without switch_s: every choice list, nothing assumed of the states reached *)
Corollary net_end_outer_refines_no_switch choice st :
  static_ok st -> posts_ok st (posts st) = true -> no_switch st = true -> acyclic st ->
  end_outer choice st = of_opt (net_end_outer choice st).
Proof.
  intros Hok Hps Hns Hac. apply net_end_outer_refines; [exact Hok | exact Hps |].
  apply (outer_all_inv wired_ok (fun s => no_switch s = true /\ acyclic s)).
  - intros s inj [Hn H]. apply wired_ok_no_switch; auto.
  - intros s inj fires lg [Hn Hw] _. split; [exact Hn | apply acyclic_commit_no_switch; auto].
  - split; [exact Hns | exact Hac].
Qed.
Print Assumptions net_end_outer_refines_no_switch.

(* the same with an invariant of the commits in place of the run-dependent predicates: every history,
   every list of scheduling choices *)
Corollary net_history_refines_inv (P : state -> Prop) :
  (forall st inj, P st -> wired_ok st inj) ->
  (forall st inj fires lg, P st -> net_txn st inj = Some (fires, lg) -> P (net_commit st fires)) ->
  forall txns st, static_ok st -> P st ->
  exists os, net_history st txns = Some os /\ spec_history st txns = EV os.
Proof.
  intros PW Pc txns st Hok Hp. apply net_history_refines; [exact Hok|].
  apply (history_all_inv wired_ok P PW Pc). exact Hp.
Qed.
Print Assumptions net_history_refines_inv.

Corollary net_end_outer_refines_inv (P : state -> Prop) :
  (forall st inj, P st -> wired_ok st inj) ->
  (forall st inj fires lg, P st -> net_txn st inj = Some (fires, lg) -> P (net_commit st fires)) ->
  forall choice st, static_ok st -> posts_ok st (posts st) = true -> P st ->
  end_outer choice st = of_opt (net_end_outer choice st).
Proof.
  intros PW Pc choice st Hok Hps Hp. apply net_end_outer_refines; [exact Hok | exact Hps |].
  apply (outer_all_inv wired_ok P PW Pc). exact Hp.
Qed.
Print Assumptions net_end_outer_refines_inv.

(* ------------------------------------------------------------------ non-vacuity: a concrete program *)
(* sinks 0 and 19; diamond 0 -> (1, 2) -> merge 3; hold 4; snapshot 5 of 0 with cell 4; constant 6;
   lift2 7 of cells 4 and 6; stream loop 8 closed over the snapshot 5 and held in 9; cell loop 10 closed
   over the lift 7, its updates 11; once 12; router 13 with route 14; gate 15; filter 16; map_c 17;
   never 18; merge 20 of the diamond with the coalescing sink 19;
   21 maps the sink to a reference to stream 1 (even values) or stream 2 (odd values), held in the
   cell 22 (initially stream 1); 23 = switch_s of 22: it is RE-WIRED between 1 and 2 by the transactions
   below; 24 = defer of the switch's output; 25 maps the sink to a two-element list, 26 = its split;
   27 = value() of the hold 4 and 30 = value() of the constant 6, both created in the first transaction
   (fresh); 28 merges the deferred streams and is held in 29 (a cell changed by deferred transactions);
   31 maps the sink 0 to a reference to the CELL 6 (even values) or the CELL 36 (odd values), held in the
   cell of cells 32 (initially cell 6); 33 = switch_c of 32, 34 its updates (listener 11); the candidate
   cell 36 holds 35 = the coalescing sink 19 plus 100.  In the first transaction the switch_c switches to
   cell 36 WHILE cell 36 is updated: the node 33, reached through 31 and 32 before anybody visited 35 and
   36, demands 36 from inside its update and fires 36's update of this very transaction *)
Definition ex_defs : list (nat * def) :=
  [ (0, DSink None); (1, DMap 0 (FAdd 1)); (2, DMap 0 (FMul 2)); (3, DMerge 1 2 GAdd);
    (4, DHold 3); (5, DSnapshot 0 [4] (NF2 GPair)); (6, DConst); (7, DLift [4; 6] (NF2 GAdd));
    (8, DSLoop); (9, DHold 8); (10, DCLoop); (11, DUpdates 10); (12, DOnce 0);
    (13, DRouter 0 (SMod 2)); (14, DRoute 13 1); (15, DGate 3 6); (16, DFilter 3 PEven);
    (17, DMapC 7 (FMul 3)); (18, DNever); (19, DSink (Some GAdd)); (20, DMerge 3 19 GMul10);
    (21, DMap 0 (FSel [1; 2])); (22, DHold 21); (23, DSwitchS 22); (24, DDefer 23);
    (25, DMap 0 (FToList 2)); (26, DSplit 25); (27, DValue 4); (28, DMerge 24 26 GAdd); (29, DHold 28);
    (30, DValue 6);
    (31, DMap 0 (FSel [6; 36])); (32, DHold 31); (33, DSwitchC 32); (34, DUpdates 33);
    (35, DMap 19 (FAdd 100)); (36, DHold 35) ].
Definition ex_st : state :=
  mkState ex_defs
          [(4, VInt 0); (6, VInt 10); (7, VInt 10); (9, VUnit); (10, VInt 10); (17, VInt 30);
           (22, VRef 1); (29, VUnit); (32, VRef 6); (33, VInt 10); (36, VInt 0)] [] [] [] [27; 30]
          [(8, 5); (10, 7)]
          [(0, 3); (1, 5); (2, 11); (3, 12); (4, 20); (5, 23); (6, 24); (7, 26); (8, 27); (9, 28); (10, 30);
           (11, 34)]
          0 [] [] [] [].
Definition ex_inj : list (nat * val) := [(19, VInt 100); (0, VInt 5); (19, VInt 1)].
(* one rank for all the wirings of the switches: 23 above streams 1 and 2 (it does not depend on its
   outer cell 22); 33 above the candidate cells 6 and 36 and above the outer cell 32 *)
Definition ex_rank (n : nat) : nat :=
  nth n [0; 1; 1; 2; 3; 1; 0; 4; 2; 3; 5; 6; 1; 1; 1; 3; 3; 5; 0; 0; 3; 1; 2; 3; 0; 1; 0; 4; 1; 2; 1;
         1; 2; 3; 4; 1; 2] 0.

Example ex_wired_ok : wired_ok ex_st ex_inj.
Proof. apply (wired_okb_ok ex_rank). vm_compute. reflexivity. Qed.

Example ex_acyclic : acyclic_dem ex_st ex_inj.
Proof. exact (proj2 (proj2 ex_wired_ok)). Qed.

Example ex_static_ok : static_ok ex_st.
Proof.
  split; [apply nodupb_spec; reflexivity|].
  split; [reflexivity|]. split; [reflexivity|]. split; reflexivity.
Qed.

(* the engine's run of the transaction, evaluated: final firing of every definition's node, the sparks
   that fired (nodes 37 + 27 and 37 + 30), and the update log.  The switch_c 33 fires 201, the update that
   cell 36 receives in this very transaction (its value before the transaction is 0): the log shows 35 and
   36 updated between 32 and 33, demanded from inside 33's update *)
Example ex_net_txn :
  option_map (fun r => (firstn 37 (fst r), filter (fun n => is_some (fire_of (fst r) n)) (seq 37 37), snd r))
             (net_txn ex_st ex_inj) =
  Some ([Some (VInt 5); Some (VInt 6); Some (VInt 10); Some (VInt 16); Some (VInt 16);
         Some (VPair (VInt 5) (VInt 0)); None; Some (VInt 26); Some (VPair (VInt 5) (VInt 0));
         Some (VPair (VInt 5) (VInt 0)); Some (VInt 26); Some (VInt 26); Some (VInt 5); Some (VInt 5);
         Some (VInt 5); Some (VInt 16); Some (VInt 16); Some (VInt 78); None; Some (VInt 101);
         Some (VInt 261); Some (VRef 2); Some (VRef 2); Some (VInt 6); None;
         Some (VList [VInt 5; VInt 6]); None; Some (VInt 16); None; None; Some (VInt 10);
         Some (VRef 36); Some (VRef 36); Some (VInt 201); Some (VInt 201); Some (VInt 201); Some (VInt 201)],
        [64; 67],
        [1; 2; 3; 4; 7; 10; 11; 17; 27; 15; 16; 20; 23; 5; 8; 9; 12; 13; 14; 21; 22; 25; 31; 32; 35; 36; 33; 34; 30]).
Proof. vm_compute. reflexivity. Qed.

(* what the switches demand in this transaction according to the specification, and what the engine's
   node demanded: the switch_c 33 demands cell 36 *)
Example ex_demands :
  map (sdem ex_st ex_inj) [23; 33] = [[]; [36]] /\
  option_map (fun r => map (ndemanded ex_st (fst r)) [23; 33]) (net_txn ex_st ex_inj) = Some [[]; [36]] /\
  ndem ex_st 33 = [4; 6; 7; 9; 10; 17; 22; 29; 32; 33; 36] /\ ndeps ex_st 33 = [32; 6].
Proof. vm_compute. repeat split. Qed.

(* the theorem applies to it ... *)
Example ex_refines :
  exists fires lg,
    net_txn ex_st ex_inj = Some (fires, lg) /\
    length fires = gsize ex_st /\
    (forall s d, alookup (defs ex_st) s = Some d -> is_cell d = false ->
                 occ ex_st ex_inj (F ex_st) s = EV (fire_of fires s)) /\
    (forall c d, alookup (defs ex_st) c = Some d -> is_cell d = true ->
                 upd ex_st ex_inj (F ex_st) c = EV (fire_of fires c)) /\
    updates_once_after_deps ex_st fires lg.
Proof.
  destruct ex_static_ok as (B & C & D & _ & _). destruct ex_wired_ok as (E & G & H).
  exact (net_txn_refines ex_st ex_inj B C D E G H).
Qed.

(* ... the specification evaluated on the same transaction gives the same values (23, the switch, fires
   stream 1's value 6; 27, the value() of the updated hold, fires the update 16; 30, the value() of the
   constant, fires its current value 10; 33, the switch_c, fires the new inner cell's update 201) ... *)
Example ex_spec_eval :
  map (fun kd : nat * def => if is_cell (snd kd) then upd ex_st ex_inj (F ex_st) (fst kd)
                             else occ ex_st ex_inj (F ex_st) (fst kd)) ex_defs =
  map (@EV (option val))
      [Some (VInt 5); Some (VInt 6); Some (VInt 10); Some (VInt 16); Some (VInt 16);
       Some (VPair (VInt 5) (VInt 0)); None; Some (VInt 26); Some (VPair (VInt 5) (VInt 0));
       Some (VPair (VInt 5) (VInt 0)); Some (VInt 26); Some (VInt 26); Some (VInt 5); Some (VInt 5);
       Some (VInt 5); Some (VInt 16); Some (VInt 16); Some (VInt 78); None; Some (VInt 101);
       Some (VInt 261); Some (VRef 2); Some (VRef 2); Some (VInt 6); None;
       Some (VList [VInt 5; VInt 6]); None; Some (VInt 16); None; None; Some (VInt 10);
       Some (VRef 36); Some (VRef 36); Some (VInt 201); Some (VInt 201); Some (VInt 201); Some (VInt 201)].
Proof. vm_compute. reflexivity. Qed.

(* ... another registration order of the dependents and another order of the sources: same firings *)
Definition rev_dependents (gr : graph val) : graph val :=
  map (fun x => {| deps := deps x; dem := dem x; dependents := rev (dependents x); visited := visited x; done := done x;
                   changed := changed x; fire := fire x |}) gr.
Example ex_other_order :
  option_map fst (net_run ex_st (rev_dependents (compile ex_st)) (rev (net_sources ex_st ex_inj))) =
  option_map fst (net_txn ex_st ex_inj) /\
  option_map snd (net_run ex_st (rev_dependents (compile ex_st)) (rev (net_sources ex_st ex_inj))) =
  Some [30; 1; 2; 3; 4; 27; 35; 36; 20; 31; 32; 33; 34; 25; 21; 22; 14; 13; 12; 5; 8; 9; 23; 16; 15; 7; 17; 10; 11].
Proof. vm_compute. split; reflexivity. Qed.

(* ... a history of six transactions.  The first (send 5) makes the outer cell 22 refer to stream 2, the
   second (send 6) back to stream 1: listener 5 (of the switch 23) gets 5 + 1 from stream 1, then 6 * 2
   from stream 2, then 8 + 1 from stream 1.  Listener 11 (of the updates of the switch_c 33) gets: 201 (the
   switch to cell 36 in the transaction that updates 36), 10 (the switch back to the constant cell 6), 10
   (the outer cell fires a reference to cell 6 again), 102 (the switch to cell 36, not updated in that
   transaction: its current value), 104 (no switch: the current inner cell 36 is updated, forwarded) *)
Definition ex_txns : list (list (nat * val)) :=
  [ex_inj; [(0, VInt 6)]; []; [(0, VInt 7); (19, VInt 2); (0, VInt 8)]; [(0, VInt 7)]; [(19, VInt 4)]].

(* the wiring invariant along the history, checked by evaluation with the one rank *)
Example ex_history_ok : history_ok ex_st ex_txns.
Proof.
  apply (history_all_impl (fun st inj => wired_okb ex_rank st inj = true) wired_ok (wired_okb_ok ex_rank)).
  vm_compute. repeat split.
Qed.

Example ex_history :
  net_history ex_st ex_txns =
  Some [[BCall 11 (VInt 201); BCall 10 (VInt 10); BCall 8 (VInt 16); BCall 5 (VInt 6); BCall 4 (VInt 261);
         BCall 3 (VInt 5); BCall 2 (VInt 26); BCall 1 (VPair (VInt 5) (VInt 0)); BCall 0 (VInt 16)];
        [BCall 11 (VInt 10); BCall 8 (VInt 19); BCall 5 (VInt 12); BCall 4 (VInt 19); BCall 2 (VInt 29);
         BCall 1 (VPair (VInt 6) (VInt 16)); BCall 0 (VInt 19)];
        [];
        [BCall 11 (VInt 10); BCall 8 (VInt 25); BCall 5 (VInt 9); BCall 4 (VInt 252); BCall 2 (VInt 35);
         BCall 1 (VPair (VInt 8) (VInt 19)); BCall 0 (VInt 25)];
        [BCall 11 (VInt 102); BCall 8 (VInt 22); BCall 5 (VInt 8); BCall 4 (VInt 22); BCall 2 (VInt 32);
         BCall 1 (VPair (VInt 7) (VInt 25)); BCall 0 (VInt 22)];
        [BCall 11 (VInt 104); BCall 4 (VInt 4)]] /\
  spec_history ex_st ex_txns =
  EV   [[BCall 11 (VInt 201); BCall 10 (VInt 10); BCall 8 (VInt 16); BCall 5 (VInt 6); BCall 4 (VInt 261);
         BCall 3 (VInt 5); BCall 2 (VInt 26); BCall 1 (VPair (VInt 5) (VInt 0)); BCall 0 (VInt 16)];
        [BCall 11 (VInt 10); BCall 8 (VInt 19); BCall 5 (VInt 12); BCall 4 (VInt 19); BCall 2 (VInt 29);
         BCall 1 (VPair (VInt 6) (VInt 16)); BCall 0 (VInt 19)];
        [];
        [BCall 11 (VInt 10); BCall 8 (VInt 25); BCall 5 (VInt 9); BCall 4 (VInt 252); BCall 2 (VInt 35);
         BCall 1 (VPair (VInt 8) (VInt 19)); BCall 0 (VInt 25)];
        [BCall 11 (VInt 102); BCall 8 (VInt 22); BCall 5 (VInt 8); BCall 4 (VInt 22); BCall 2 (VInt 32);
         BCall 1 (VPair (VInt 7) (VInt 25)); BCall 0 (VInt 22)];
        [BCall 11 (VInt 104); BCall 4 (VInt 4)]].
Proof. vm_compute. split; reflexivity. Qed.

(* the switches were re-wired: the dependencies of the switch_s 23 and of the switch_c 33 in the first
   three states of the history *)
Example ex_rewired :
  match net_txn ex_st ex_inj with
  | Some (f1, _) =>
    let st1 := net_commit ex_st f1 in
    match net_txn st1 [(0, VInt 6)] with
    | Some (f2, _) => (ndeps ex_st 23, ndeps st1 23, ndeps (net_commit st1 f2) 23,
                       (ndeps ex_st 33, ndeps st1 33, ndeps (net_commit st1 f2) 33))
    | None => ([], [], [], ([], [], []))
    end
  | None => ([], [], [], ([], [], []))
  end = ([1], [2], [1], ([32; 6], [32; 36], [32; 6])).
Proof. vm_compute. reflexivity. Qed.

Example ex_history_thm :
  exists os, net_history ex_st ex_txns = Some os /\ spec_history ex_st ex_txns = EV os.
Proof. exact (net_history_refines ex_txns ex_st ex_static_ok ex_history_ok). Qed.

(* ... and a history of six OUTERMOST transactions with their deferred queues (defer 24 of the switch,
   split 26 of the two-element lists), user post closures 7, 8 and 9, and scheduling choices *)
Definition ex_otxns : list otxn :=
  [ (ex_inj, [(7, [4; 22])], [0]); ([(0, VInt 6)], [], [1; 1; 0]); ([], [(8, [29])], []);
    ([(0, VInt 7); (19, VInt 2); (0, VInt 8)], [], [2; 0; 1]); ([(0, VInt 7)], [(9, [33; 32])], [0]);
    ([(19, VInt 4)], [], []) ].

Example ex_outer_history_ok : outer_history_ok ex_st ex_otxns.
Proof.
  apply (outer_history_all_impl (fun st inj => wired_okb ex_rank st inj = true) wired_ok (wired_okb_ok ex_rank)).
  vm_compute. repeat split.
Qed.

Example ex_outer_history :
  net_outer_history ex_st ex_otxns =
  Some [[BCall 11 (VInt 201); BCall 10 (VInt 10); BCall 8 (VInt 16); BCall 5 (VInt 6); BCall 4 (VInt 261);
         BCall 3 (VInt 5); BCall 2 (VInt 26); BCall 1 (VPair (VInt 5) (VInt 0)); BCall 0 (VInt 16);
         BCall 9 (VInt 5); BCall 7 (VInt 5); BCall 9 (VInt 6); BCall 7 (VInt 6); BCall 9 (VInt 6);
         BCall 6 (VInt 6); BPost 7 [VInt 16; VRef 2]];
        [BCall 11 (VInt 10); BCall 8 (VInt 19); BCall 5 (VInt 12); BCall 4 (VInt 19); BCall 2 (VInt 29);
         BCall 1 (VPair (VInt 6) (VInt 16)); BCall 0 (VInt 19);
         BCall 9 (VInt 12); BCall 6 (VInt 12); BCall 9 (VInt 6); BCall 7 (VInt 6); BCall 9 (VInt 7);
         BCall 7 (VInt 7)];
        [BPost 8 [VInt 7]];
        [BCall 11 (VInt 10); BCall 8 (VInt 25); BCall 5 (VInt 9); BCall 4 (VInt 252); BCall 2 (VInt 35);
         BCall 1 (VPair (VInt 8) (VInt 19)); BCall 0 (VInt 25);
         BCall 9 (VInt 8); BCall 7 (VInt 8); BCall 9 (VInt 9); BCall 7 (VInt 9); BCall 9 (VInt 9);
         BCall 6 (VInt 9)];
        [BCall 11 (VInt 102); BCall 8 (VInt 22); BCall 5 (VInt 8); BCall 4 (VInt 22); BCall 2 (VInt 32);
         BCall 1 (VPair (VInt 7) (VInt 25)); BCall 0 (VInt 22);
         BCall 9 (VInt 7); BCall 7 (VInt 7); BCall 9 (VInt 8); BCall 7 (VInt 8); BCall 9 (VInt 8);
         BCall 6 (VInt 8); BPost 9 [VInt 102; VRef 36]];
        [BCall 11 (VInt 104); BCall 4 (VInt 4)]] /\
  spec_outer_history ex_st ex_otxns = of_opt (net_outer_history ex_st ex_otxns).
Proof. vm_compute. split; reflexivity. Qed.

Example ex_outer_history_thm :
  spec_outer_history ex_st ex_otxns = of_opt (net_outer_history ex_st ex_otxns).
Proof. exact (net_outer_history_refines ex_otxns ex_st ex_static_ok ex_outer_history_ok). Qed.

Print Assumptions ex_static_ok.
Print Assumptions ex_refines.
Print Assumptions ex_history_thm.
Print Assumptions ex_outer_history_thm.
(* ------------------------------------------------------------------ a cyclic outer cell is in the fragment *)
(* A switch_s whose outer cell is fed, within the same transaction, by the switch's own output: outer
   cell 3 = hold (2 = map of the switch 4's output to a stream reference), 4 = switch_s 3, currently on
   the sink 0.  The switch reads the outer cell as of the start of the transaction: its node depends on
   the sink 0 only (/repo/src/impl_/cell.rs `switch_s`: the inner node keeps the outer node alive without
   depending on it), NOT on the outer cell 3, so the graph 0 -> 4 -> 2 -> 3 is acyclic.  Engine and
   specification (whose `occ (DSwitchS c)` does not read `upd c`) agree: the switch fires 5, then 2 fires
   `VRef 1` and the outer cell takes it; the next transaction is wired to stream 1.
   (Before the repair of the implementation the inner node depended on the outer node, the graph had the
   cycle 4 -> 3 -> 2 -> 4, and the outer cell's update was lost: the former known finding K1.) *)
Definition cy_defs : list (nat * def) :=
  [ (0, DSink None); (1, DMap 0 (FAdd 1)); (2, DMap 4 (FSel [0; 1])); (3, DHold 2); (4, DSwitchS 3) ].
Definition cy_st : state := mkState cy_defs [(3, VRef 0)] [] [] [] [] [] [(0, 4)] 0 [] [] [] [].

Example cy_static_ok : static_ok cy_st.
Proof.
  split; [apply nodupb_spec; reflexivity|].
  split; [reflexivity|]. split; [reflexivity|]. split; reflexivity.
Qed.

Example cy_wired_ok : wired_ok cy_st [(0, VInt 5)].
Proof. apply (wired_okb_ok (fun n => nth n [0; 1; 2; 3; 1] 0)). vm_compute. reflexivity. Qed.

Example cy_acyclic : acyclic_dem cy_st [(0, VInt 5)].
Proof. exact (proj2 (proj2 cy_wired_ok)). Qed.

(* the engine fires exactly the specification's values, the outer cell's update included; the update log:
   1 and the switch 4 (dependents of the sink), then 2, then the outer cell 3 *)
Example cy_agree :
  static_ok cy_st /\ switch_targets_ok cy_st = true /\
  map (ndeps cy_st) [2; 3; 4] = [[4]; [2]; [0]] /\
  map (fun kd : nat * def => if is_cell (snd kd) then upd cy_st [(0, VInt 5)] (F cy_st) (fst kd)
                             else occ cy_st [(0, VInt 5)] (F cy_st) (fst kd)) cy_defs =
  map (@EV (option val)) [Some (VInt 5); Some (VInt 6); Some (VRef 1); Some (VRef 1); Some (VInt 5)] /\
  option_map (fun r => (firstn 5 (fst r), snd r)) (net_txn cy_st [(0, VInt 5)]) =
  Some ([Some (VInt 5); Some (VInt 6); Some (VRef 1); Some (VRef 1); Some (VInt 5)], [1; 4; 2; 3]).
Proof.
  split; [exact cy_static_ok|].
  vm_compute. repeat split.
Qed.

(* the theorem applies to it *)
Example cy_refines :
  exists fires lg,
    net_txn cy_st [(0, VInt 5)] = Some (fires, lg) /\
    length fires = gsize cy_st /\
    (forall s d, alookup (defs cy_st) s = Some d -> is_cell d = false ->
                 occ cy_st [(0, VInt 5)] (F cy_st) s = EV (fire_of fires s)) /\
    (forall c d, alookup (defs cy_st) c = Some d -> is_cell d = true ->
                 upd cy_st [(0, VInt 5)] (F cy_st) c = EV (fire_of fires c)) /\
    updates_once_after_deps cy_st fires lg.
Proof.
  destruct cy_static_ok as (B & C & D & _ & _). destruct cy_wired_ok as (E & G & H).
  exact (net_txn_refines cy_st [(0, VInt 5)] B C D E G H).
Qed.

(* the commit re-wires the switch to stream 1, and the next transaction (send 7) is again in the fragment:
   the switch fires 7 + 1, from which the outer cell is updated back to a reference to stream 0 *)
Example cy_next :
  match net_txn cy_st [(0, VInt 5)] with
  | Some (f1, _) =>
    let st1 := net_commit cy_st f1 in
    (ndeps st1 4, wired_okb (fun n => nth n [0; 1; 3; 4; 2] 0) st1 [(0, VInt 7)],
     option_map (fun r => firstn 5 (fst r)) (net_txn st1 [(0, VInt 7)]))
  | None => ([], false, None)
  end = ([1], true, Some [Some (VInt 7); Some (VInt 8); Some (VRef 0); Some (VRef 0); Some (VInt 8)]).
Proof. vm_compute. reflexivity. Qed.
Print Assumptions cy_agree.
Print Assumptions cy_refines.

(* ------------------------------------------------------------------ ... also through the demands *)
(* A switch_c that switches, in the transaction of the send, to a cell fed by its own output: outer cell 2 =
   hold (1 = map of the sink to a reference to the constant cell 5 or to the cell 6), 3 = switch_c 2,
   currently on cell 5; cell 6 = hold (7 = map of 4 = the updates of the switch 3).  The STATIC dependencies
   are acyclic; the demand 3 -> 6 that occurs when the sink sends an odd value closes the cycle
   3 -> 6 -> 7 -> 4 -> 3: `acyclic_dem` fails for that send (and holds for an even one).  The specification
   is `Illegal` on that transaction (its recursion does not terminate within the fuel); the engine, which
   finds node 3 already visited when the demand comes back to it, fires the stale current value of cell 6
   and loses the events of 4, 7 and 6 (visited, as demanded dependencies, before 3 fired).
   `acyclic_dem` excludes exactly such transactions. *)
Definition cd_defs : list (nat * def) :=
  [ (0, DSink None); (1, DMap 0 (FSel [5; 6])); (2, DHold 1); (3, DSwitchC 2); (4, DUpdates 3);
    (5, DConst); (6, DHold 7); (7, DMap 4 (FAdd 1)) ].
Definition cd_st : state :=
  mkState cd_defs [(2, VRef 5); (3, VInt 10); (5, VInt 10); (6, VInt 0)] [] [] [] [] [] [(0, 4)] 0 [] [] [] [].

Example cd_cyclic_demand :
  static_ok cd_st /\ switch_targets_ok cd_st = true /\ acyclic cd_st /\
  demands_ok cd_st [(0, VInt 5)] = true /\ sdem cd_st [(0, VInt 5)] 3 = [6] /\
  upd cd_st [(0, VInt 5)] (F cd_st) 3 = EErr Illegal /\
  option_map (fun r => firstn 8 (fst r)) (net_txn cd_st [(0, VInt 5)]) =
  Some [Some (VInt 5); Some (VRef 6); Some (VRef 6); Some (VInt 0); None; None; None; None] /\
  wired_ok cd_st [(0, VInt 4)].
Proof.
  split.
  { split; [apply nodupb_spec; reflexivity|].
    split; [reflexivity|]. split; [reflexivity|]. split; reflexivity. }
  split; [reflexivity|]. split.
  { apply (acyclic_dem_acyclic cd_st [(0, VInt 4)]).
    apply (rank_okb_acyclic _ _ (fun n => nth n [0; 1; 2; 3; 4; 0; 6; 5] 0)). vm_compute. reflexivity. }
  split; [vm_compute; reflexivity|]. split; [vm_compute; reflexivity|]. split; [vm_compute; reflexivity|].
  split; [vm_compute; reflexivity|].
  apply (wired_okb_ok (fun n => nth n [0; 1; 2; 3; 4; 0; 6; 5] 0)). vm_compute. reflexivity.
Qed.

Example cd_not_acyclic_dem : ~ acyclic_dem cd_st [(0, VInt 5)].
Proof.
  intros [rank RK].
  assert (A : rank 6 < rank 3) by (apply RK; vm_compute; auto).
  assert (B : rank 7 < rank 6) by (apply RK; vm_compute; auto).
  assert (C : rank 4 < rank 7) by (apply RK; vm_compute; auto).
  assert (D : rank 3 < rank 4) by (apply RK; vm_compute; auto).
  lia.
Qed.
Print Assumptions cd_cyclic_demand.
