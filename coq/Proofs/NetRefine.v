(* Refinement of the operational model of a transaction (Model/Net.v: the propagation engine run on the
   compiled dependency graph of a static program) to the denotational specification (Spec/Sodium.v):
   for every program of the static combinational fragment whose instantaneous dependency graph is
   acyclic, the engine - whatever the order of the queue and of the dependents lists - ends with every
   stream node holding exactly `occ` and every cell node holding exactly `upd`; every update closure ran
   at most once and only after all of its dependencies had settled. *)
From Coq Require Import List ZArith Bool Arith Lia Permutation.
Import ListNotations.
From Sodium Require Import Engine EngineScript EngineSafe EngineFuel EngineLog EngineTop Sodium Net.
Open Scope nat_scope.

(* ------------------------------------------------------------------ association lists *)
Lemma nodupb_spec l : nodupb l = true -> NoDup l.
Proof.
  induction l as [|x t IH]; intros H; [constructor|].
  cbn [nodupb] in H. apply andb_prop in H as [H1 H2]. constructor; auto.
  intros Hin. apply negb_true_iff in H1.
  assert (E : existsb (Nat.eqb x) t = true) by (apply existsb_exists; exists x; split; auto; apply Nat.eqb_refl).
  congruence.
Qed.

Lemma alookup_in {A} (l : list (nat * A)) k v : alookup l k = Some v -> In (k, v) l.
Proof.
  induction l as [|[k' v'] t IH]; cbn [alookup]; [discriminate|].
  destruct (Nat.eqb_spec k k') as [->|Ne]; intros E; [injection E as ->; left; reflexivity | right; auto].
Qed.

Lemma alookup_nodup {A} (l : list (nat * A)) k v : NoDup (map fst l) -> In (k, v) l -> alookup l k = Some v.
Proof.
  induction l as [|[k' v'] t IH]; intros ND H; [contradiction|]. cbn [alookup]. cbn [map fst] in ND.
  apply NoDup_cons_iff in ND as [Nin ND].
  destruct H as [E|H].
  - injection E as -> ->. rewrite Nat.eqb_refl. reflexivity.
  - destruct (Nat.eqb_spec k k') as [->|Ne]; [|apply IH; auto].
    exfalso. apply Nin. apply in_map_iff. exists (k', v); auto.
Qed.

Lemma alookup_none {A} (l : list (nat * A)) k : ~ In k (map fst l) -> alookup l k = None.
Proof.
  induction l as [|[k' v'] t IH]; intros H; [reflexivity|]. cbn [alookup].
  destruct (Nat.eqb_spec k k') as [->|Ne]; [exfalso; apply H; left; reflexivity|].
  apply IH. intros C; apply H; right; exact C.
Qed.

Lemma emap_ev {A B} (f : A -> ev B) (h : A -> B) l :
  (forall x, In x l -> f x = EV (h x)) -> emap f l = EV (map h l).
Proof.
  induction l as [|x t IH]; intros H; [reflexivity|]. cbn [emap map].
  rewrite (H x (or_introl eq_refl)). cbn [ebind]. rewrite IH by (intros; apply H; right; auto). reflexivity.
Qed.

Lemma concat_map_nil {A B} (f : A -> list B) l : (forall x, In x l -> f x = []) -> concat (map f l) = [].
Proof.
  induction l as [|x t IH]; intros H; [reflexivity|]. cbn [map concat].
  rewrite (H x (or_introl eq_refl)), IH by (intros; apply H; right; auto). reflexivity.
Qed.

Lemma map_combine_map {A B C} (dn : A -> B) (phi : B * A -> C) l :
  map phi (combine (map dn l) l) = map (fun c => phi (dn c, c)) l.
Proof. induction l as [|x t IH]; [reflexivity|]. cbn [map combine]. rewrite IH. reflexivity. Qed.

(* ------------------------------------------------------------------ keys and the size of the graph *)
Section Static.
  Variable st : state.
  Hypothesis Hfrag : in_fragment st = true.
  Hypothesis Hnd : NoDup (map fst (defs st)).
  Hypothesis Hrefs : refs_ok st = true.

  Lemma key_lt_nsize k d : alookup (defs st) k = Some d -> k < nsize st.
  Proof.
    intros E. apply alookup_in in E. unfold nsize.
    assert (In k (map fst (defs st))) by (apply in_map_iff; exists (k, d); auto).
    pose proof (list_max_ge _ _ H). lia.
  Qed.

  Lemma key_none_ge k : nsize st <= k -> alookup (defs st) k = None.
  Proof.
    intros H. destruct (alookup (defs st) k) as [d|] eqn:E; auto.
    apply key_lt_nsize in E. lia.
  Qed.

  Lemma def_frag k d : alookup (defs st) k = Some d -> in_frag_def d = true.
  Proof.
    intros E. apply alookup_in in E. unfold in_fragment in Hfrag. rewrite forallb_forall in Hfrag.
    apply (Hfrag (k, d) E).
  Qed.

  Lemma def_refs k d : alookup (defs st) k = Some d -> refs_ok_def st k d = true.
  Proof.
    intros E. apply alookup_in in E. unfold refs_ok in Hrefs. rewrite forallb_forall in Hrefs.
    apply (Hrefs (k, d) E).
  Qed.

  Lemma stream_key_def k : is_stream_key st k = true -> exists d, alookup (defs st) k = Some d /\ is_cell d = false.
  Proof.
    unfold is_stream_key. destruct (alookup (defs st) k) as [d|]; [|discriminate].
    intros H. exists d. split; auto. apply negb_true_iff in H. exact H.
  Qed.

  Lemma cell_key_def k : is_cell_key st k = true -> exists d, alookup (defs st) k = Some d /\ is_cell d = true.
  Proof.
    unfold is_cell_key. destruct (alookup (defs st) k) as [d|]; [|discriminate].
    intros H. exists d. split; auto.
  Qed.

  Lemma ndeps_defined n a : In a (ndeps st n) -> exists d, alookup (defs st) a = Some d.
  Proof.
    unfold ndeps. destruct (alookup (defs st) n) as [dn|] eqn:En; [|intros []].
    pose proof (def_refs n dn En) as R. intros Hin.
    assert (K : is_stream_key st a = true \/ is_cell_key st a = true).
    { destruct dn; cbn [ddeps refs_ok_def] in *;
        repeat match goal with
               | H : _ && _ = true |- _ => apply andb_prop in H as [? ?]
               | H : In _ [] |- _ => destruct H
               | H : In _ [_] |- _ => destruct H as [<-|[]]
               | H : In _ [_; _] |- _ => destruct H as [<-|[<-|[]]]
               end; auto.
      - (* once *) destruct (amem (Sodium.fired st) n); [destruct Hin | destruct Hin as [<-|[]]; auto].
      - (* sloop *) destruct (alookup (loops st) n); [destruct Hin as [<-|[]]; auto | destruct Hin].
      - (* route *) destruct (alookup (defs st) r) as [[]|]; try discriminate; try (destruct Hin; fail).
        destruct Hin as [<-|[]]; auto.
      - (* lift *) rewrite forallb_forall in R. right. apply R; auto.
      - (* cloop *) destruct (alookup (loops st) n); [destruct Hin as [<-|[]]; auto | destruct Hin]. }
    destruct K as [K|K]; [apply stream_key_def in K | apply cell_key_def in K]; destruct K as (d & E & _); exists d; exact E.
  Qed.

  Lemma ndeps_range n a : In a (ndeps st n) -> a < nsize st.
  Proof. intros H. destruct (ndeps_defined n a H) as [d E]. eapply key_lt_nsize; eauto. Qed.

  Lemma ndeps_self_defined n : ndeps st n <> [] -> exists d, alookup (defs st) n = Some d.
  Proof. unfold ndeps. destruct (alookup (defs st) n) as [d|]; [eauto | intros H; contradiction]. Qed.

  (* ---------------------------------------------------------------- the compiled graph *)
  Lemma compile_length : length (compile st) = nsize st.
  Proof. unfold compile. rewrite map_length, seq_length. reflexivity. Qed.

  Lemma compile_get n : n < nsize st ->
    get (compile st) n = {| deps := ndeps st n; dependents := ndependents st n;
                            visited := false; done := false; changed := false; fire := None |}.
  Proof.
    intros Hn. unfold get, compile.
    set (mkn := fun n => {| deps := ndeps st n; dependents := ndependents st n;
                            visited := false; done := false; changed := false; fire := @None val |}).
    rewrite (nth_indep _ _ (mkn 0)) by (rewrite map_length, seq_length; exact Hn).
    rewrite map_nth, seq_nth by exact Hn. reflexivity.
  Qed.

  Lemma compile_deps n : deps (get (compile st) n) = ndeps st n.
  Proof.
    destruct (lt_dec n (nsize st)) as [Hn|Hn]; [rewrite compile_get by auto; reflexivity|].
    rewrite get_default by (rewrite compile_length; lia). unfold ndeps. rewrite key_none_ge by lia. reflexivity.
  Qed.

  Lemma compile_dependents n : dependents (get (compile st) n) = if Nat.ltb n (nsize st) then ndependents st n else [].
  Proof.
    destruct (Nat.ltb_spec n (nsize st)) as [Hn|Hn]; [rewrite compile_get by auto; reflexivity|].
    rewrite get_default by (rewrite compile_length; lia). reflexivity.
  Qed.

  (* a graph for the program: these dependencies, every dependent registered, in any order *)
  Definition net_graph (gr : graph val) : Prop :=
    wf gr /\ length gr = nsize st /\ forall n, deps (get gr n) = ndeps st n.

  Lemma compile_net_graph : net_graph (compile st).
  Proof.
    split; [|split; [apply compile_length | apply compile_deps]].
    split; [|split; [|split]].
    - intros n Hn. rewrite compile_length in Hn. rewrite compile_get by auto. repeat split.
    - intros n d. rewrite compile_deps, compile_length. apply ndeps_range.
    - intros n m. rewrite compile_dependents, compile_length. destruct (Nat.ltb n (nsize st)); [|intros []].
      unfold ndependents. intros H. apply filter_In in H as [H _]. apply in_seq in H. lia.
    - intros n d. rewrite compile_deps. intros Hd. rewrite compile_dependents.
      pose proof (ndeps_range n d Hd) as Hdn. apply Nat.ltb_lt in Hdn. rewrite Hdn.
      unfold ndependents. apply filter_In. split.
      + apply in_seq. destruct (ndeps_self_defined n) as [dn En]; [intros Z; rewrite Z in Hd; destruct Hd|].
        apply key_lt_nsize in En. lia.
      + apply existsb_exists. exists d. split; auto. apply Nat.eqb_refl.
  Qed.
End Static.

(* ------------------------------------------------------------------ the sources *)
Lemma net_sources_in st inj n v : In (n, v) (net_sources st inj) ->
  exists co, In (n, DSink co) (defs st) /\ coalesce co (injected inj n) = Some v.
Proof.
  unfold net_sources. intros H. apply in_flat_map in H as ([k d] & Hin & H). cbn [fst snd] in H.
  destruct d; try contradiction. destruct (coalesce co (injected inj k)) as [w|] eqn:Ec; [|contradiction].
  destruct H as [E|[]]. injection E as <- <-. exists co. split; auto.
Qed.

Lemma net_sources_in_conv st inj n v co :
  In (n, DSink co) (defs st) -> coalesce co (injected inj n) = Some v -> In (n, v) (net_sources st inj).
Proof.
  intros Hin Ec. unfold net_sources. apply in_flat_map. exists (n, DSink co). split; auto.
  cbn [fst snd]. rewrite Ec. left. reflexivity.
Qed.

Lemma net_sources_nodup st inj : NoDup (map fst (defs st)) -> NoDup (map fst (net_sources st inj)).
Proof.
  unfold net_sources. generalize (defs st) as l.
  induction l as [|[k d] t IH]; intros ND; [constructor|].
  cbn [map fst] in ND. apply NoDup_cons_iff in ND as [Nin ND].
  cbn [flat_map fst snd]. rewrite map_app. specialize (IH ND).
  assert (Nk : ~ In k (map fst (flat_map (fun kd : nat * def =>
              match snd kd with
              | DSink co => match coalesce co (injected inj (fst kd)) with Some v => [(fst kd, v)] | None => [] end
              | _ => []
              end) t))).
  { intros H. apply in_map_iff in H as ([k' v] & E & H). cbn [fst] in E. subst k'.
    apply in_flat_map in H as ([k2 d2] & Hin & H). cbn [fst snd] in H.
    destruct d2; try contradiction. destruct (coalesce co (injected inj k2)); [|contradiction].
    destruct H as [E|[]]. injection E as -> _. apply Nin. apply in_map_iff. exists (k, DSink co); auto. }
  destruct d; try exact IH. destruct (coalesce co (injected inj k)); [|exact IH].
  cbn [map fst app]. constructor; auto.
Qed.

(* ------------------------------------------------------------------ the fixpoint equation of denf *)
Lemma denf_unfold {Val} (F : rule Val) (gr : graph Val) fs : deps_in_range gr -> ranked gr -> forall n,
  denf F (S (length gr)) gr fs n =
  match deps (get gr n) with
  | [] => lookup fs n
  | ds => if existsb is_some (map (denf F (S (length gr)) gr fs) ds)
          then F n (map (denf F (S (length gr)) gr fs) ds) else None
  end.
Proof.
  intros DR Rk n. destruct (ranked_bounded gr Rk DR) as (rank & RK & RB).
  cbn [denf]. destruct (deps (get gr n)) as [|d0 ds] eqn:Dn; auto. cbv zeta.
  assert (E : map (denf F (length gr) gr fs) (d0 :: ds) = map (denf F (S (length gr)) gr fs) (d0 :: ds)).
  { apply map_ext_in. intros d Hd. rewrite <- Dn in Hd. pose proof (RB d (DR n d Hd)).
    apply (denf_stable F gr fs rank RK); lia. }
  rewrite E. reflexivity.
Qed.

(* ------------------------------------------------------------------ heights: a rank below the number of keys *)
Lemma height_bound {Val} (gr : graph Val) (K : list nat) (rank : nat -> nat) :
  (forall n d, In d (deps (get gr n)) -> rank d < rank n) ->
  (forall n d, In n K -> In d (deps (get gr n)) -> In d K) ->
  exists h : nat -> nat,
    (forall n d, In d (deps (get gr n)) -> h d < h n) /\ (forall n, In n K -> h n < length K).
Proof.
  intros RK Cl. exists (fun n => hf gr (S (rank n)) n).
  assert (Step : forall n d, In d (deps (get gr n)) -> hf gr (S (rank d)) d < hf gr (S (rank n)) n).
  { intros n d Hd. pose proof (RK n d Hd) as Rd.
    rewrite (hf_stable gr rank RK (S (rank d)) (rank n) d) by lia.
    remember (rank n) as rn eqn:Hrn. cbn [hf].
    destruct (deps (get gr n)) as [|d0 ds] eqn:Dn; [contradiction|]. subst rn.
    assert (hf gr (rank n) d <= list_max (map (hf gr (rank n)) (d0 :: ds))) by (apply list_max_ge; apply in_map; exact Hd).
    lia. }
  split; [exact Step|].
  assert (Path : forall r n, rank n = r -> In n K ->
            exists l, NoDup l /\ (forall x, In x l -> In x K /\ rank x <= rank n) /\
                      length l = S (hf gr (S (rank n)) n)).
  { induction r as [r IHr] using lt_wf_ind. intros n Hr Hn.
    destruct (deps (get gr n)) as [|d0 ds] eqn:Dn.
    - exists [n]. split; [constructor; [intros []|constructor]|]. split.
      + intros x [<-|[]]. split; auto.
      + cbn [hf]. rewrite Dn. reflexivity.
    - assert (NEm : map (hf gr (rank n)) (d0 :: ds) <> []) by discriminate.
      pose proof (list_max_in _ NEm) as Hin. apply in_map_iff in Hin as (d & Ed & Hd).
      rewrite <- Dn in Hd. pose proof (RK n d Hd) as Rd. pose proof (Cl n d Hn Hd) as HdK.
      destruct (IHr (rank d) ltac:(lia) d eq_refl HdK) as (l & NDl & El & Ll).
      exists (n :: l). split; [|split].
      + constructor; auto. intros Hnl. apply El in Hnl. lia.
      + intros x [<-|Hx]; [split; auto|]. apply El in Hx. split; [apply Hx|lia].
      + cbn [length]. rewrite Ll. f_equal.
        rewrite (hf_stable gr rank RK (S (rank d)) (rank n) d) by lia. rewrite Ed.
        remember (rank n) as rn eqn:Hrn. cbn [hf]. rewrite Dn. reflexivity. }
  intros n Hn. destruct (Path (rank n) n eq_refl Hn) as (l & NDl & El & Ll).
  assert (Inc : incl l K) by (intros x Hx; apply El in Hx; apply Hx).
  pose proof (NoDup_incl_length NDl Inc) as Le. lia.
Qed.

(* the two places where occ and upd call each other *)
Lemma occ_updates st inj f n c : alookup (defs st) n = Some (DUpdates c) -> occ st inj (S f) n = upd st inj f c.
Proof. intros E. cbn [occ]. unfold def_of. rewrite E. reflexivity. Qed.
Lemma upd_hold st inj f n a : alookup (defs st) n = Some (DHold a) -> upd st inj (S f) n = occ st inj f a.
Proof. intros E. cbn [upd]. unfold def_of. rewrite E. reflexivity. Qed.

(* ------------------------------------------------------------------ the refinement *)
Section Refine.
  Variable st : state.
  Variable inj : list (nat * val).
  Hypothesis Hfrag : in_fragment st = true.
  Hypothesis Hnd : NoDup (map fst (defs st)).
  Hypothesis Hrefs : refs_ok st = true.
  Hypothesis Hres : cells_resolved st = true.
  Variable gr : graph val.
  Hypothesis Hgr : net_graph st gr.
  Variable fs : list (nat * val).
  Hypothesis Hfs : Permutation fs (net_sources st inj).
  Variable rank : nat -> nat.
  Hypothesis rank_ok : forall n d, In d (ndeps st n) -> rank d < rank n.

  (* what the engine leaves in node n (EngineTop.txn_run) *)
  Definition dn (n : nat) : option val := denf (Frule st) (S (length gr)) gr fs n.

  Lemma gr_ranked : ranked gr.
  Proof. exists rank. intros n d. rewrite (proj2 (proj2 Hgr)). apply rank_ok. Qed.

  Lemma dn_eq n :
    dn n = match ndeps st n with
           | [] => lookup fs n
           | ds => if existsb is_some (map dn ds) then Frule st n (map dn ds) else None
           end.
  Proof.
    unfold dn. rewrite denf_unfold; [|apply Hgr | apply gr_ranked].
    rewrite (proj2 (proj2 Hgr)). reflexivity.
  Qed.

  Lemma fs_nodup : NoDup (map fst fs).
  Proof.
    eapply Permutation_NoDup; [apply Permutation_map; apply Permutation_sym; exact Hfs|].
    apply net_sources_nodup; exact Hnd.
  Qed.

  Lemma lookup_fs n :
    lookup fs n = match alookup (defs st) n with
                  | Some (DSink co) => coalesce co (injected inj n)
                  | _ => None
                  end.
  Proof.
    rewrite (lookup_perm fs (net_sources st inj) n fs_nodup Hfs).
    destruct (lookup (net_sources st inj) n) as [v|] eqn:E.
    - apply lookup_some in E. apply net_sources_in in E as (co & Hin & Ec).
      rewrite (alookup_nodup _ _ _ Hnd Hin). auto.
    - destruct (alookup (defs st) n) as [d|] eqn:En; auto. destruct d; auto.
      destruct (coalesce co (injected inj n)) as [v|] eqn:Ec; auto.
      apply alookup_in in En. pose proof (net_sources_in_conv st inj n v co En Ec) as Hin.
      rewrite (lookup_in _ _ _ (net_sources_nodup st inj Hnd) Hin) in E. discriminate.
  Qed.

  Lemma fs_sources : sources gr fs.
  Proof.
    split; [apply fs_nodup|]. intros n v Hin.
    apply (Permutation_in _ Hfs) in Hin. apply net_sources_in in Hin as (co & Hin & _).
    pose proof (alookup_nodup _ _ _ Hnd Hin) as En. split.
    - rewrite (proj1 (proj2 Hgr)). eapply key_lt_nsize; eauto.
    - rewrite (proj2 (proj2 Hgr)). unfold ndeps. rewrite En. reflexivity.
  Qed.

  (* a resolved cell is sampled as its committed value *)
  Lemma cur_resolved c d : alookup (defs st) c = Some d -> is_cell d = true -> cur st (F st) c = EV (curv st c).
  Proof.
    intros E Hc. apply alookup_in in E. unfold cells_resolved in Hres. rewrite forallb_forall in Hres.
    specialize (Hres (c, d) E). cbn [fst snd] in Hres. rewrite Hc in Hres. cbn [negb orb] in Hres.
    unfold curv. unfold F. cbn [cur]. destruct (alookup (cvals st) c); [reflexivity|discriminate].
  Qed.

  Lemma cur_cell_key c : is_cell_key st c = true -> cur st (F st) c = EV (curv st c).
  Proof. intros H. apply cell_key_def in H as (d & E & Hc). eapply cur_resolved; eauto. Qed.

  Lemma emap_cur cs : forallb (is_cell_key st) cs = true -> emap (cur st (F st)) cs = EV (map (curv st) cs).
  Proof. intros H. rewrite forallb_forall in H. apply emap_ev. intros c Hc. apply cur_cell_key; auto. Qed.

  Local Ltac once_dep Dn n a :=
    let H := fresh "Rk" in
    assert (H : rank a < rank n) by (apply rank_ok; rewrite Dn; cbn [In]; auto).

  (* the engine's fixpoint satisfies the recursive equations of occ / upd *)
  Lemma occ_upd_dn : forall f n d, alookup (defs st) n = Some d -> rank n < f ->
    (is_cell d = false -> occ st inj f n = EV (dn n)) /\ (is_cell d = true -> upd st inj f n = EV (dn n)).
  Proof.
    induction f as [|f IH]; intros n d En Hf; [lia|].
    assert (IHs : forall a, is_stream_key st a = true -> rank a < rank n -> occ st inj f a = EV (dn a)).
    { intros a Ka Ra. apply stream_key_def in Ka as (da & Ea & Ca). apply (IH a da Ea); [lia | exact Ca]. }
    assert (IHc : forall a, is_cell_key st a = true -> rank a < rank n -> upd st inj f a = EV (dn a)).
    { intros a Ka Ra. apply cell_key_def in Ka as (da & Ea & Ca). apply (IH a da Ea); [lia | exact Ca]. }
    pose proof (def_refs st Hrefs n d En) as R. pose proof (def_frag st Hfrag n d En) as Fr.
    pose proof (lookup_fs n) as Lk. rewrite En in Lk.
    pose proof (dn_eq n) as Dq.
    assert (Dn0 : ndeps st n = ddeps st n d) by (unfold ndeps; rewrite En; reflexivity).
    destruct d; cbn [in_frag_def] in Fr; try discriminate; cbn [refs_ok_def] in R; cbn [ddeps] in Dn0;
      (split; intros Hc; cbn [is_cell] in Hc; try discriminate); clear Hc;
      try rewrite (occ_updates st inj f n _ En); try rewrite (upd_hold st inj f n _ En);
      cbn [occ upd]; unfold def_of; try rewrite En; cbn [ebind].
    - (* sink *) rewrite Dq, Dn0, Lk. reflexivity.
    - (* never *) rewrite Dq, Dn0, Lk. reflexivity.
    - (* map *) once_dep Dn0 n s. rewrite (IHs s R Rk). cbn [ebind].
      rewrite Dq, Dn0. unfold Frule. rewrite En. cbn [map existsb nth]. destruct (dn s); reflexivity.
    - (* filter *) once_dep Dn0 n s. rewrite (IHs s R Rk). cbn [ebind].
      rewrite Dq, Dn0. unfold Frule. rewrite En. cbn [map existsb nth]. destruct (dn s); reflexivity.
    - (* merge *) apply andb_prop in R as [Ra Rb]. once_dep Dn0 n a. assert (Rk' : rank b < rank n) by (apply rank_ok; rewrite Dn0; cbn [In]; auto).
      rewrite (IHs a Ra Rk), (IHs b Rb Rk'). cbn [ebind].
      rewrite Dq, Dn0. unfold Frule. rewrite En. cbn [map existsb nth]. destruct (dn a), (dn b); reflexivity.
    - (* snapshot *) apply andb_prop in R as [Ra Rb]. once_dep Dn0 n s. rewrite (IHs s Ra Rk). cbn [ebind].
      rewrite Dq, Dn0. unfold Frule. rewrite En. cbn [map existsb nth]. destruct (dn s); [|reflexivity].
      rewrite (emap_cur cs Rb). reflexivity.
    - (* gate *) apply andb_prop in R as [Ra Rb]. once_dep Dn0 n s. rewrite (IHs s Ra Rk). cbn [ebind].
      rewrite Dq, Dn0. unfold Frule. rewrite En. cbn [map existsb nth]. destruct (dn s); [|reflexivity].
      rewrite (cur_cell_key c Rb). reflexivity.
    - (* once *) destruct (amem (Sodium.fired st) n) eqn:Fd.
      + rewrite Dq, Dn0, Lk. reflexivity.
      + once_dep Dn0 n s. rewrite (IHs s R Rk).
        rewrite Dq, Dn0. unfold Frule. rewrite En. cbn [map existsb nth]. destruct (dn s); reflexivity.
    - (* updates *) once_dep Dn0 n c. rewrite (IHc c R Rk).
      rewrite Dq, Dn0. unfold Frule. rewrite En. cbn [map existsb nth]. destruct (dn c); reflexivity.
    - (* sloop *) destruct (alookup (loops st) n) as [t|] eqn:Lp.
      + once_dep Dn0 n t. rewrite (IHs t R Rk).
        rewrite Dq, Dn0. unfold Frule. rewrite En. cbn [map existsb nth]. destruct (dn t); reflexivity.
      + rewrite Dq, Dn0, Lk. reflexivity.
    - (* router *) once_dep Dn0 n s. rewrite (IHs s R Rk).
      rewrite Dq, Dn0. unfold Frule. rewrite En. cbn [map existsb nth]. destruct (dn s); reflexivity.
    - (* route *) destruct (alookup (defs st) r) as [dr|] eqn:Er; [|discriminate].
      destruct dr; try discriminate. cbn [ebind].
      once_dep Dn0 n s. rewrite (IHs s R Rk). cbn [ebind].
      rewrite Dq, Dn0. unfold Frule. rewrite En, Er. cbn [map existsb nth]. destruct (dn s); reflexivity.
    - (* hold *) once_dep Dn0 n s. rewrite (IHs s R Rk).
      rewrite Dq, Dn0. unfold Frule. rewrite En. cbn [map existsb nth]. destruct (dn s); reflexivity.
    - (* const *) rewrite Dq, Dn0, Lk. reflexivity.
    - (* map_c *) once_dep Dn0 n c. rewrite (IHc c R Rk). cbn [ebind].
      rewrite Dq, Dn0. unfold Frule. rewrite En. cbn [map existsb nth]. destruct (dn c); reflexivity.
    - (* lift *)
      assert (Hcs : forall c, In c cs -> upd st inj f c = EV (dn c)).
      { intros c Hin. rewrite forallb_forall in R. apply IHc; [apply R; auto|]. apply rank_ok. rewrite Dn0. exact Hin. }
      rewrite (emap_ev (upd st inj f) dn cs Hcs). cbn [ebind].
      rewrite Dq, Dn0. cbv zeta.
      destruct cs as [|c0 cs'].
      { cbn [map existsb]. rewrite Lk. reflexivity. }
      change (existsb (fun o : option val => match o with Some _ => true | None => false end)) with (existsb (@is_some val)).
      destruct (existsb is_some (map dn (c0 :: cs'))) eqn:Ex; [|reflexivity].
      rewrite (emap_ev _ (fun c => match dn c with Some v => v | None => curv st c end) (c0 :: cs')).
      2:{ intros c Hin. rewrite (Hcs c Hin). cbn [ebind]. destruct (dn c); [reflexivity|].
          rewrite forallb_forall in R. apply cur_cell_key. apply R; auto. }
      cbn [ebind]. unfold Frule. rewrite En, Ex. rewrite map_combine_map. reflexivity.
    - (* cloop *) destruct (alookup (loops st) n) as [t|] eqn:Lp.
      + once_dep Dn0 n t. rewrite (IHc t R Rk).
        rewrite Dq, Dn0. unfold Frule. rewrite En. cbn [map existsb nth]. destruct (dn t); reflexivity.
      + rewrite Dq, Dn0, Lk. reflexivity.
  Qed.
End Refine.

(* ------------------------------------------------------------------ the headline theorem *)
(* the update log (oldest first): every node is updated at most once, exactly the nodes one of whose
   dependencies fired, and never before one of its dependencies *)
Definition updates_once_after_deps (st : state) (fires : list (option val)) (lg : list nat) : Prop :=
  NoDup lg /\
  (forall n, In n lg <-> (n < nsize st /\ ndeps st n <> [] /\
                          exists d, In d (ndeps st n) /\ fire_of fires d <> None)) /\
  (forall l1 n l2, lg = l1 ++ n :: l2 -> forall d, In d (ndeps st n) -> ~ In d l2).

Definition acyclic (st : state) : Prop :=
  exists rank : nat -> nat, forall n d, In d (ndeps st n) -> rank d < rank n.

Lemma nth_map_seq {A} (f : nat -> A) N n d : n < N -> nth n (map f (seq 0 N)) d = f n.
Proof.
  intros H. rewrite (nth_indep _ d (f 0)) by (rewrite map_length, seq_length; exact H).
  rewrite map_nth, seq_nth by exact H. reflexivity.
Qed.

Theorem net_refines st inj gr fs :
  in_fragment st = true -> NoDup (map fst (defs st)) -> refs_ok st = true -> cells_resolved st = true ->
  acyclic st -> net_graph st gr -> Permutation fs (net_sources st inj) ->
  exists fires lg,
    net_run st gr fs = Some (fires, lg) /\
    length fires = nsize st /\
    (forall s d, alookup (defs st) s = Some d -> is_cell d = false ->
                 occ st inj (F st) s = EV (fire_of fires s)) /\
    (forall c d, alookup (defs st) c = Some d -> is_cell d = true ->
                 upd st inj (F st) c = EV (fire_of fires c)) /\
    updates_once_after_deps st fires lg.
Proof.
  intros Hfrag Hnd Hrefs Hres [rank RK] Hgr Hfs.
  pose proof Hgr as (Hwf & HL & HD).
  assert (RKg : forall n d, In d (deps (get gr n)) -> rank d < rank n) by (intros n d; rewrite HD; apply RK).
  assert (Rg : ranked gr) by (exists rank; exact RKg).
  destruct (ranked_bounded gr Rg (proj1 (proj2 Hwf))) as (rb & RKb & RBb).
  pose proof (fs_sources st inj Hnd gr Hgr fs Hfs) as Hsrc.
  destruct (txn_run (Frule st) gr fs rb Hwf RKb RBb Hsrc) as (s' & E & _ & Fi & NDl & Iff & St).
  (* a rank below the number of definitions: the fuel of the specification is enough *)
  destruct (height_bound gr (map fst (defs st)) rank RKg) as (h & Hh & Hb).
  { intros n d _ Hd. rewrite HD in Hd. destruct (ndeps_defined st Hrefs n d Hd) as [dd Ed].
    apply alookup_in in Ed. apply in_map_iff. exists (d, dd); auto. }
  assert (Hh' : forall n d, In d (ndeps st n) -> h d < h n) by (intros n d; rewrite <- HD; apply Hh).
  assert (HF : forall n d, alookup (defs st) n = Some d -> h n < F st).
  { intros n d En. apply alookup_in in En.
    assert (In n (map fst (defs st))) by (apply in_map_iff; exists (n, d); auto).
    pose proof (Hb n H). rewrite map_length in H0. unfold F. lia. }
  assert (Fo : forall n, n < nsize st -> fire_of (map fire (g s')) n = dn st gr fs n).
  { intros n Hn. unfold fire_of, dn. rewrite Fi. rewrite <- HL in Hn. apply nth_map_seq; exact Hn. }
  exists (map fire (g s')), (rev (log s')).
  split; [|split; [|split; [|split]]].
  - unfold net_run. unfold init_st, fire_all in E. rewrite E. reflexivity.
  - rewrite Fi, map_length, seq_length. exact HL.
  - intros s d Es Cs. rewrite Fo by (eapply key_lt_nsize; eauto).
    apply (occ_upd_dn st inj Hfrag Hnd Hrefs Hres gr Hgr fs Hfs h Hh' (F st) s d Es (HF s d Es)); exact Cs.
  - intros c d Ec Cc. rewrite Fo by (eapply key_lt_nsize; eauto).
    apply (occ_upd_dn st inj Hfrag Hnd Hrefs Hres gr Hgr fs Hfs h Hh' (F st) c d Ec (HF c d Ec)); exact Cc.
  - split; [exact NDl|]. split.
    + intros n. rewrite Iff. unfold Dof. rewrite HD.
      split; intros (Hn & NE & d & Hd & Nd).
      * rewrite HL in Hn. split; [exact Hn|split; [exact NE|exists d; split; [exact Hd|]]].
        rewrite Fo by (eapply ndeps_range; eauto). exact Nd.
      * split; [rewrite HL; exact Hn|split; [exact NE|exists d; split; [exact Hd|]]].
        rewrite Fo in Nd by (eapply ndeps_range; eauto). exact Nd.
    + intros l1 n l2 El d Hd. apply (St l1 n l2 El d). unfold Dof. rewrite HD. exact Hd.
Qed.
Print Assumptions net_refines.

(* the same for the graph built by `compile` and the sends in the order of the definitions *)
Corollary net_txn_refines st inj :
  in_fragment st = true -> NoDup (map fst (defs st)) -> refs_ok st = true -> cells_resolved st = true ->
  acyclic st ->
  exists fires lg,
    net_txn st inj = Some (fires, lg) /\
    length fires = nsize st /\
    (forall s d, alookup (defs st) s = Some d -> is_cell d = false ->
                 occ st inj (F st) s = EV (fire_of fires s)) /\
    (forall c d, alookup (defs st) c = Some d -> is_cell d = true ->
                 upd st inj (F st) c = EV (fire_of fires c)) /\
    updates_once_after_deps st fires lg.
Proof.
  intros Hfrag Hnd Hrefs Hres Hac. unfold net_txn.
  apply net_refines; auto. apply compile_net_graph; auto.
Qed.
Print Assumptions net_txn_refines.

(* glitch freedom / order independence: any two graphs for the program (any registration order of the
   dependents) and any two queue orders of the sends end with the same firings *)
Corollary net_order_independent st inj gr1 fs1 gr2 fs2 :
  in_fragment st = true -> NoDup (map fst (defs st)) -> refs_ok st = true -> cells_resolved st = true ->
  acyclic st ->
  net_graph st gr1 -> Permutation fs1 (net_sources st inj) ->
  net_graph st gr2 -> Permutation fs2 (net_sources st inj) ->
  exists fires1 lg1 fires2 lg2,
    net_run st gr1 fs1 = Some (fires1, lg1) /\ net_run st gr2 fs2 = Some (fires2, lg2) /\
    forall n d, alookup (defs st) n = Some d -> fire_of fires1 n = fire_of fires2 n.
Proof.
  intros Hfrag Hnd Hrefs Hres Hac G1 P1 G2 P2.
  destruct (net_refines st inj gr1 fs1 Hfrag Hnd Hrefs Hres Hac G1 P1) as (f1 & l1 & E1 & _ & O1 & U1 & _).
  destruct (net_refines st inj gr2 fs2 Hfrag Hnd Hrefs Hres Hac G2 P2) as (f2 & l2 & E2 & _ & O2 & U2 & _).
  exists f1, l1, f2, l2. split; [exact E1|]. split; [exact E2|].
  intros n d En. destruct (is_cell d) eqn:Cd.
  - pose proof (U1 n d En Cd) as A. rewrite (U2 n d En Cd) in A. injection A as A. auto.
  - pose proof (O1 n d En Cd) as A. rewrite (O2 n d En Cd) in A. injection A as A. auto.
Qed.
Print Assumptions net_order_independent.

(* ------------------------------------------------------------------ listeners and commit: close_txn *)
Lemma cur_cvals st c v : alookup (cvals st) c = Some v -> cur st (F st) c = EV v.
Proof. intros E. unfold F. cbn [cur]. rewrite E. reflexivity. Qed.

(* what the specification does when the transaction closes = the listener calls read off the engine's
   firings + the commit of the fired cell updates and once flags *)
Theorem close_txn_refines st inj posts fires lg :
  in_fragment st = true -> NoDup (map fst (defs st)) -> refs_ok st = true -> cells_resolved st = true ->
  listeners_ok st = true -> lazies_val st = true -> acyclic st ->
  net_txn st inj = Some (fires, lg) ->
  close_txn st inj posts =
  EV (mkRes (net_commit st fires) (net_calls st fires) (map (fun p => DPost (fst p) (snd p)) posts)).
Proof.
  intros Hfrag Hnd Hrefs Hres Hls Hlz Hac E.
  destruct (net_txn_refines st inj Hfrag Hnd Hrefs Hres Hac) as (fires' & lg' & E' & _ & Ho & Hu & _).
  rewrite E in E'. injection E' as <- <-.
  unfold close_txn.
  (* listeners *)
  rewrite (emap_ev _ (fun lh : nat * nat => match fire_of fires (snd lh) with Some v => [BCall (fst lh) v] | None => [] end)
                   (rev (listeners st))).
  2:{ intros [l s] Hin. cbn [fst snd]. apply in_rev in Hin.
      unfold listeners_ok in Hls. rewrite forallb_forall in Hls. specialize (Hls (l, s) Hin). cbn [snd] in Hls.
      apply stream_key_def in Hls as (d & Ed & Cd). rewrite (Ho s d Ed Cd). reflexivity. }
  cbn [ebind].
  (* cells *)
  rewrite (emap_ev _ (fun kd : nat * def =>
                        match fire_of fires (fst kd) with
                        | Some v => [(fst kd, v)]
                        | None => match alookup (cvals st) (fst kd) with Some v => [(fst kd, v)] | None => [] end
                        end) (filter (fun kd => is_cell (snd kd)) (defs st))).
  2:{ intros [k d] Hin. cbn [fst snd]. apply filter_In in Hin as [Hin Cd]. cbn [snd] in Cd.
      pose proof (alookup_nodup _ _ _ Hnd Hin) as Ek. rewrite (Hu k d Ek Cd). cbn [ebind].
      destruct (fire_of fires k); [reflexivity|].
      unfold cells_resolved in Hres. rewrite forallb_forall in Hres. specialize (Hres (k, d) Hin).
      cbn [fst snd] in Hres. rewrite Cd in Hres. cbn [negb orb] in Hres.
      destruct (alookup (cvals st) k) as [v|] eqn:Ev; [|discriminate].
      rewrite (cur_cvals st k v Ev). reflexivity. }
  cbn [ebind].
  (* lazies *)
  rewrite (emap_ev _ (fun zl => zl) (lazies st)).
  2:{ intros zl Hin. unfold lazies_val in Hlz. rewrite forallb_forall in Hlz. specialize (Hlz zl Hin).
      destruct (fst (snd zl)); [reflexivity|discriminate]. }
  cbn [ebind]. rewrite map_id.
  (* once flags *)
  rewrite (emap_ev _ (fun kd : nat * def =>
                        match snd kd with
                        | DOnce _ => match fire_of fires (fst kd) with Some _ => [fst kd] | None => [] end
                        | _ => []
                        end) (defs st)).
  2:{ intros [k d] Hin. cbn [fst snd]. destruct d; try reflexivity.
      pose proof (alookup_nodup _ _ _ Hnd Hin) as Ek. rewrite (Ho k _ Ek eq_refl). reflexivity. }
  cbn [ebind].
  (* no defer / split in the fragment *)
  rewrite (emap_ev _ (fun _ : nat * def => @nil ditem) (rev (defs st))).
  2:{ intros [k d] Hin. cbn [fst snd]. apply in_rev in Hin.
      unfold in_fragment in Hfrag. rewrite forallb_forall in Hfrag. specialize (Hfrag (k, d) Hin). cbn [snd] in Hfrag.
      destruct d; try reflexivity; discriminate. }
  cbn [ebind]. rewrite (concat_map_nil (fun _ : nat * def => @nil ditem)) by reflexivity.
  reflexivity.
Qed.
Print Assumptions close_txn_refines.

Corollary listeners_refine st inj fires lg r :
  in_fragment st = true -> NoDup (map fst (defs st)) -> refs_ok st = true -> cells_resolved st = true ->
  listeners_ok st = true -> lazies_val st = true -> acyclic st ->
  net_txn st inj = Some (fires, lg) -> close_txn st inj [] = EV r ->
  r_obs r = net_calls st fires /\ r_state r = net_commit st fires /\ r_deferred r = [].
Proof.
  intros Hfrag Hnd Hrefs Hres Hls Hlz Hac E C.
  rewrite (close_txn_refines st inj [] fires lg Hfrag Hnd Hrefs Hres Hls Hlz Hac E) in C.
  injection C as <-. auto.
Qed.
Print Assumptions listeners_refine.

(* ------------------------------------------------------------------ histories *)
(* everything the theorems above ask of a state; it holds again after the commit *)
Definition static_ok (st : state) : Prop :=
  in_fragment st = true /\ NoDup (map fst (defs st)) /\ refs_ok st = true /\ cells_resolved st = true /\
  listeners_ok st = true /\ lazies_val st = true /\ acyclic st.

Lemma concat_map_singleton {A B} (f : A -> list B) (h : A -> B) l :
  (forall x, In x l -> f x = [h x]) -> concat (map f l) = map h l.
Proof.
  induction l as [|x t IH]; intros H; [reflexivity|]. cbn [map concat].
  rewrite (H x (or_introl eq_refl)), IH by (intros; apply H; right; auto). reflexivity.
Qed.

Lemma alookup_map_some {A B} (l : list (nat * A)) (w : nat * A -> B) k :
  In k (map fst l) -> exists v, alookup (map (fun kd => (fst kd, w kd)) l) k = Some v.
Proof.
  induction l as [|[k' a] t IH]; intros H; [contradiction|]. cbn [map fst alookup].
  destruct (Nat.eqb_spec k k') as [->|Ne]; [eexists; reflexivity|].
  apply IH. destruct H as [E|H]; [cbn [fst] in E; congruence | exact H].
Qed.

Lemma amem_app l1 l2 k : amem (l1 ++ l2) k = amem l1 k || amem l2 k.
Proof. unfold amem. apply existsb_app. Qed.

Lemma ndeps_commit_incl st fires n d : In d (ndeps (net_commit st fires) n) -> In d (ndeps st n).
Proof.
  unfold ndeps. change (defs (net_commit st fires)) with (defs st).
  destruct (alookup (defs st) n) as [dn|]; [|auto].
  destruct dn; cbn [ddeps]; auto.
  change (Sodium.fired (net_commit st fires))
    with (concat (map (fun kd : nat * def =>
                   match snd kd with
                   | DOnce _ => match fire_of fires (fst kd) with Some _ => [fst kd] | None => [] end
                   | _ => []
                   end) (defs st)) ++ Sodium.fired st).
  rewrite amem_app. destruct (amem (Sodium.fired st) n); [rewrite orb_true_r; auto|].
  destruct (amem _ n); cbn [orb]; [intros []|auto].
Qed.

Lemma static_ok_commit st fires : static_ok st -> static_ok (net_commit st fires).
Proof.
  intros (Hfrag & Hnd & Hrefs & Hres & Hls & Hlz & rank & RK).
  split; [exact Hfrag|]. split; [exact Hnd|]. split; [exact Hrefs|].
  split; [|split; [exact Hls|split; [exact Hlz|]]].
  - unfold cells_resolved. apply forallb_forall. intros [k d] Hin. cbn [fst snd].
    change (defs (net_commit st fires)) with (defs st) in Hin.
    destruct (is_cell d) eqn:Cd; [|reflexivity]. cbn [negb orb].
    change (cvals (net_commit st fires))
      with (concat (map (fun kd : nat * def =>
                   match fire_of fires (fst kd) with
                   | Some v => [(fst kd, v)]
                   | None => match alookup (cvals st) (fst kd) with
                             | Some v => [(fst kd, v)]
                             | None => []
                             end
                   end) (filter (fun kd => is_cell (snd kd)) (defs st)))).
    rewrite (concat_map_singleton _ (fun kd : nat * def =>
               (fst kd, match fire_of fires (fst kd) with
                        | Some v => v
                        | None => match alookup (cvals st) (fst kd) with Some v => v | None => VUnit end
                        end))).
    2:{ intros [k' d'] Hin'. cbn [fst snd]. apply filter_In in Hin' as [Hin' Cd']. cbn [snd] in Cd'.
        destruct (fire_of fires k'); [reflexivity|].
        unfold cells_resolved in Hres. rewrite forallb_forall in Hres. specialize (Hres (k', d') Hin').
        cbn [fst snd] in Hres. rewrite Cd' in Hres. cbn [negb orb] in Hres.
        destruct (alookup (cvals st) k'); [reflexivity|discriminate]. }
    destruct (alookup_map_some (filter (fun kd => is_cell (snd kd)) (defs st))
                (fun kd : nat * def => match fire_of fires (fst kd) with
                        | Some v => v
                        | None => match alookup (cvals st) (fst kd) with Some v => v | None => VUnit end
                        end) k) as [v Ev].
    { apply in_map_iff. exists (k, d). split; auto. apply filter_In. split; auto. }
    rewrite Ev. reflexivity.
  - exists rank. intros n d Hd. apply RK. eapply ndeps_commit_incl; eauto.
Qed.

(* a sequence of transactions, each a set of sends: the listener calls of the operational model (engine
   run + commit) are, transaction by transaction, those of the specification *)
Theorem net_history_refines : forall txns st, static_ok st ->
  exists os, net_history st txns = Some os /\ spec_history st txns = EV os.
Proof.
  induction txns as [|inj rest IH]; intros st Hok.
  - exists []. split; reflexivity.
  - pose proof Hok as (Hfrag & Hnd & Hrefs & Hres & Hls & Hlz & Hac).
    destruct (net_txn_refines st inj Hfrag Hnd Hrefs Hres Hac) as (fires & lg & E & _).
    destruct (IH (net_commit st fires) (static_ok_commit st fires Hok)) as (os & E1 & E2).
    exists (net_calls st fires :: os). cbn [net_history spec_history].
    rewrite E, E1. split; [reflexivity|].
    rewrite (close_txn_refines st inj [] fires lg Hfrag Hnd Hrefs Hres Hls Hlz Hac E).
    cbn [ebind r_state r_obs]. rewrite E2. reflexivity.
Qed.
Print Assumptions net_history_refines.

(* ------------------------------------------------------------------ non-vacuity: a concrete program *)
(* sinks 0 and 19; diamond 0 -> (1, 2) -> merge 3; hold 4; snapshot 5 of 0 with cell 4; constant 6;
   lift2 7 of cells 4 and 6; stream loop 8 closed over the snapshot 5 and held in 9; cell loop 10 closed
   over the lift 7, its updates 11; once 12; router 13 with route 14; gate 15; filter 16; map_c 17;
   never 18; merge 20 of the diamond with the coalescing sink 19 *)
Definition ex_defs : list (nat * def) :=
  [ (0, DSink None); (1, DMap 0 (FAdd 1)); (2, DMap 0 (FMul 2)); (3, DMerge 1 2 GAdd);
    (4, DHold 3); (5, DSnapshot 0 [4] (NF2 GPair)); (6, DConst); (7, DLift [4; 6] (NF2 GAdd));
    (8, DSLoop); (9, DHold 8); (10, DCLoop); (11, DUpdates 10); (12, DOnce 0);
    (13, DRouter 0 (SMod 2)); (14, DRoute 13 1); (15, DGate 3 6); (16, DFilter 3 PEven);
    (17, DMapC 7 (FMul 3)); (18, DNever); (19, DSink (Some GAdd)); (20, DMerge 3 19 GMul10) ].
Definition ex_st : state :=
  mkState ex_defs
          [(4, VInt 0); (6, VInt 10); (7, VInt 10); (9, VUnit); (10, VInt 10); (17, VInt 30)] [] [] [] []
          [(8, 5); (10, 7)] [(0, 3); (1, 5); (2, 11); (3, 12); (4, 20)] 0 [] [] [] [].
Definition ex_inj : list (nat * val) := [(19, VInt 100); (0, VInt 5); (19, VInt 1)].
Definition ex_rank (n : nat) : nat := nth n [0; 1; 1; 2; 3; 1; 0; 4; 2; 3; 5; 6; 1; 1; 1; 3; 3; 5; 0; 0; 3] 0.

Example ex_acyclic : acyclic ex_st.
Proof.
  exists ex_rank. intros n d.
  do 21 (destruct n as [|n]; [cbn; intros H; repeat (destruct H as [<-|H]; [cbn; lia|]); destruct H|]).
  cbn. intros [].
Qed.

Example ex_static_ok : static_ok ex_st.
Proof.
  split; [reflexivity|]. split; [apply nodupb_spec; reflexivity|].
  split; [reflexivity|]. split; [reflexivity|]. split; [reflexivity|]. split; [reflexivity|].
  exact ex_acyclic.
Qed.

(* the engine's run of the transaction, evaluated: final firing of every node and the update log *)
Example ex_net_txn :
  net_txn ex_st ex_inj =
  Some ([Some (VInt 5); Some (VInt 6); Some (VInt 10); Some (VInt 16); Some (VInt 16);
         Some (VPair (VInt 5) (VInt 0)); None; Some (VInt 26); Some (VPair (VInt 5) (VInt 0));
         Some (VPair (VInt 5) (VInt 0)); Some (VInt 26); Some (VInt 26); Some (VInt 5); Some (VInt 5);
         Some (VInt 5); Some (VInt 16); Some (VInt 16); Some (VInt 78); None; Some (VInt 101);
         Some (VInt 261)],
        [1; 2; 3; 4; 7; 10; 11; 17; 15; 16; 20; 5; 8; 9; 12; 13; 14]).
Proof. vm_compute. reflexivity. Qed.

(* the theorem applies to it ... *)
Example ex_refines :
  exists fires lg,
    net_txn ex_st ex_inj = Some (fires, lg) /\
    length fires = nsize ex_st /\
    (forall s d, alookup (defs ex_st) s = Some d -> is_cell d = false ->
                 occ ex_st ex_inj (F ex_st) s = EV (fire_of fires s)) /\
    (forall c d, alookup (defs ex_st) c = Some d -> is_cell d = true ->
                 upd ex_st ex_inj (F ex_st) c = EV (fire_of fires c)) /\
    updates_once_after_deps ex_st fires lg.
Proof.
  destruct ex_static_ok as (A & B & C & D & _ & _ & E). exact (net_txn_refines ex_st ex_inj A B C D E).
Qed.

(* ... the specification evaluated on the same transaction gives the same values ... *)
Example ex_spec_eval :
  map (fun kd : nat * def => if is_cell (snd kd) then upd ex_st ex_inj (F ex_st) (fst kd)
                             else occ ex_st ex_inj (F ex_st) (fst kd)) ex_defs =
  map (@EV (option val))
      [Some (VInt 5); Some (VInt 6); Some (VInt 10); Some (VInt 16); Some (VInt 16);
       Some (VPair (VInt 5) (VInt 0)); None; Some (VInt 26); Some (VPair (VInt 5) (VInt 0));
       Some (VPair (VInt 5) (VInt 0)); Some (VInt 26); Some (VInt 26); Some (VInt 5); Some (VInt 5);
       Some (VInt 5); Some (VInt 16); Some (VInt 16); Some (VInt 78); None; Some (VInt 101);
       Some (VInt 261)].
Proof. vm_compute. reflexivity. Qed.

(* ... another registration order of the dependents and another order of the sends: same firings *)
Definition rev_dependents (gr : graph val) : graph val :=
  map (fun x => {| deps := deps x; dependents := rev (dependents x); visited := visited x; done := done x;
                   changed := changed x; fire := fire x |}) gr.
Example ex_other_order :
  option_map fst (net_run ex_st (rev_dependents (compile ex_st)) (rev (net_sources ex_st ex_inj))) =
  option_map fst (net_txn ex_st ex_inj) /\
  option_map snd (net_run ex_st (rev_dependents (compile ex_st)) (rev (net_sources ex_st ex_inj))) =
  Some [1; 2; 3; 20; 14; 13; 12; 5; 8; 9; 16; 15; 4; 7; 17; 10; 11].
Proof. vm_compute. split; reflexivity. Qed.

(* ... and a history of four transactions: listener calls of the engine model = of the specification *)
Definition ex_txns : list (list (nat * val)) :=
  [ex_inj; [(0, VInt 6)]; []; [(0, VInt 7); (19, VInt 2); (0, VInt 8)]].
Example ex_history :
  net_history ex_st ex_txns =
  Some [[BCall 4 (VInt 261); BCall 3 (VInt 5); BCall 2 (VInt 26); BCall 1 (VPair (VInt 5) (VInt 0)); BCall 0 (VInt 16)];
        [BCall 4 (VInt 19); BCall 2 (VInt 29); BCall 1 (VPair (VInt 6) (VInt 16)); BCall 0 (VInt 19)];
        [];
        [BCall 4 (VInt 252); BCall 2 (VInt 35); BCall 1 (VPair (VInt 8) (VInt 19)); BCall 0 (VInt 25)]] /\
  spec_history ex_st ex_txns =
  EV   [[BCall 4 (VInt 261); BCall 3 (VInt 5); BCall 2 (VInt 26); BCall 1 (VPair (VInt 5) (VInt 0)); BCall 0 (VInt 16)];
        [BCall 4 (VInt 19); BCall 2 (VInt 29); BCall 1 (VPair (VInt 6) (VInt 16)); BCall 0 (VInt 19)];
        [];
        [BCall 4 (VInt 252); BCall 2 (VInt 35); BCall 1 (VPair (VInt 8) (VInt 19)); BCall 0 (VInt 25)]].
Proof. vm_compute. split; reflexivity. Qed.

Example ex_history_thm :
  exists os, net_history ex_st ex_txns = Some os /\ spec_history ex_st ex_txns = EV os.
Proof. exact (net_history_refines ex_txns ex_st ex_static_ok). Qed.

Print Assumptions ex_static_ok.
Print Assumptions ex_refines.
Print Assumptions ex_history_thm.
